(** Lemmas about Model/Literal.v (property C18): the proc macro's decoder agrees with
    the Reference's meaning of string literals (Spec/Literal.v). *)
From KV Require Import Base.Prelude Model.Utf8 Model.Literal Spec.Literal.

(* ------------------------------------------------------------------ finite sweeps *)

Lemma range_forall (P : Z -> bool) (n : nat) :
  forallb P (map Z.of_nat (seq 0 n)) = true -> forall x, 0 <= x < Z.of_nat n -> P x = true.
Proof.
  intros H x Hx. rewrite forallb_forall in H. apply H. apply in_map_iff.
  exists (Z.to_nat x). split; [lia|]. apply in_seq. lia.
Qed.

Lemma lor128 x : 0 <= x < 64 -> Z.lor 128 x = 128 + x.
Proof.
  intro H. apply Z.eqb_eq.
  apply (range_forall (fun x => Z.lor 128 x =? 128 + x) 64); [vm_compute; reflexivity | lia].
Qed.
Lemma lor192 x : 0 <= x < 32 -> Z.lor 192 x = 192 + x.
Proof.
  intro H. apply Z.eqb_eq.
  apply (range_forall (fun x => Z.lor 192 x =? 192 + x) 32); [vm_compute; reflexivity | lia].
Qed.
Lemma lor224 x : 0 <= x < 16 -> Z.lor 224 x = 224 + x.
Proof.
  intro H. apply Z.eqb_eq.
  apply (range_forall (fun x => Z.lor 224 x =? 224 + x) 16); [vm_compute; reflexivity | lia].
Qed.
Lemma lor240 x : 0 <= x < 8 -> Z.lor 240 x = 240 + x.
Proof.
  intro H. apply Z.eqb_eq.
  apply (range_forall (fun x => Z.lor 240 x =? 240 + x) 8); [vm_compute; reflexivity | lia].
Qed.

Lemma land63 x : 0 <= x -> Z.land x 63 = x mod 64.
Proof. intro H. change 63 with (Z.ones 6). rewrite Z.land_ones by lia. reflexivity. Qed.

Lemma shiftr_div x n : 0 <= n -> Z.shiftr x n = x / 2 ^ n.
Proof. intro H. now apply Z.shiftr_div_pow2. Qed.

(** the model's encoder (konst_kernel's, also used as [String::push]'s meaning here)
    is UTF-8 as the Unicode standard tabulates it *)
Lemma encode_m_utf8 c : 0 <= c <= 1114111 -> encode_m c = utf8_char c.
Proof.
  intro Hc. unfold encode_m, utf8_char, u8.
  destruct (Z.leb_spec c 127); destruct (Z.ltb_spec c 128); try lia.
  - rewrite Z.mod_small by lia. reflexivity.
  - destruct (Z.leb_spec c 2047); destruct (Z.ltb_spec c 2048); try lia.
    + rewrite !shiftr_div, !land63 by lia. change (2 ^ 6) with 64.
      rewrite !(Z.mod_small _ 256) by lia.
      rewrite lor192, lor128 by lia. reflexivity.
    + destruct (Z.leb_spec c 65535); destruct (Z.ltb_spec c 65536); try lia.
      * rewrite !shiftr_div by lia. rewrite !land63 by lia. change (2 ^ 6) with 64. change (2 ^ 12) with 4096.
        rewrite !(Z.mod_small _ 256) by lia.
        rewrite lor224, !lor128 by lia. reflexivity.
      * rewrite !shiftr_div by lia. rewrite !land63 by lia.
        change (2 ^ 6) with 64. change (2 ^ 12) with 4096. change (2 ^ 18) with 262144.
        rewrite !(Z.mod_small _ 256) by lia.
        rewrite lor240, !lor128 by lia. reflexivity.
Qed.

(* ------------------------------------------------------------------ facts about utf8 *)

Lemma utf8_app a b : utf8 (a ++ b) = utf8 a ++ utf8 b.
Proof. apply flat_map_app. Qed.

Lemma utf8_cons c s : utf8 (c :: s) = utf8_char c ++ utf8 s.
Proof. reflexivity. Qed.

Lemma utf8_char_ascii c : c < 128 -> utf8_char c = [c].
Proof. intro H. unfold utf8_char. destruct (Z.ltb_spec c 128); [reflexivity | lia]. Qed.

(** every byte of a non-ASCII char is >= 128 *)
Lemma utf8_char_high c : 128 <= c <= 1114111 -> Forall (fun b => 128 <= b) (utf8_char c).
Proof.
  intro H. unfold utf8_char.
  destruct (Z.ltb_spec c 128); [lia|].
  destruct (Z.ltb_spec c 2048); [repeat constructor; lia|].
  destruct (Z.ltb_spec c 65536); repeat constructor; lia.
Qed.

Lemma scalar_range c : scalar c -> 0 <= c <= 1114111.
Proof. unfold scalar; lia. Qed.

(** a char other than [x] (an ASCII code) has no byte [x] in its encoding *)
Lemma utf8_char_avoids c x : scalar c -> c <> x -> x < 128 -> Forall (fun b => b <> x) (utf8_char c).
Proof.
  intros Hs Hne Hx. destruct (Z.ltb_spec c 128).
  - rewrite utf8_char_ascii by lia. repeat constructor. exact Hne.
  - eapply Forall_impl; [|apply utf8_char_high; apply scalar_range in Hs; lia].
    cbn beta. intros; lia.
Qed.

Lemma utf8_ascii s : Forall (fun c => c < 128) s -> utf8 s = s.
Proof.
  induction 1 as [|c s Hc _ IH]; [reflexivity|].
  rewrite utf8_cons, utf8_char_ascii, IH by exact Hc. reflexivity.
Qed.

(* ------------------------------------------------------------------ pieces of the loop *)

Lemma split_bs_app pre rest :
  Forall (fun b => b <> 92) pre ->
  split_bs (pre ++ rest) = (pre ++ fst (split_bs rest), snd (split_bs rest)).
Proof.
  induction 1 as [|b pre Hb _ IH]; cbn [app split_bs].
  - now destruct (split_bs rest).
  - destruct (Z.eqb_spec b 92); [contradiction|]. rewrite IH. reflexivity.
Qed.

Section Loop.
  Context (trim : list Z -> list Z) (us : bool).

  (** bytes that are not a backslash are copied *)
  Lemma loop_copy f pre rest out :
    Forall (fun b => b <> 92) pre ->
    parse_loop trim us (S f) (pre ++ rest) out = parse_loop trim us (S f) rest (out ++ pre).
  Proof.
    intro H. cbn [parse_loop]. rewrite (split_bs_app pre rest H).
    destruct (split_bs rest) as [p r]. cbn [fst snd]. now rewrite app_assoc.
  Qed.

  Lemma loop_nil f out : parse_loop trim us (S f) [] out = Some out.
  Proof. cbn [parse_loop split_bs]. now rewrite app_nil_r. Qed.
End Loop.

Ltac kill_eqb :=
  repeat match goal with
         | |- context [Z.eqb ?a ?b] => destruct (Z.eqb_spec a b); try lia
         | |- context [Z.ltb ?a ?b] => destruct (Z.ltb_spec a b); try lia
         | |- context [Z.leb ?a ?b] => destruct (Z.leb_spec a b); try lia
         end.

Lemma hex_digit_m_spec c d : hex_digit c d -> hex_digit_m c = Some d.
Proof.
  unfold hex_digit, hex_digit_m. intros [[H ->]|[[H ->]|[H ->]]]; kill_eqb; reflexivity.
Qed.

Lemma hex_digit_range c d : hex_digit c d -> 0 <= d <= 15 /\ 48 <= c <= 102 /\ c <> 95.
Proof. unfold hex_digit. lia. Qed.

Lemma simple_escape_m_spec e c : simple_escape e c -> simple_escape_m e = Some c.
Proof. destruct 1; reflexivity. Qed.

Lemma simple_escape_facts e c :
  simple_escape e c -> 0 <= c < 128 /\ 0 <= e < 128 /\ e <> 120 /\ e <> 117 /\ e <> 13 /\ e <> 10.
Proof. destruct 1; lia. Qed.

(** the digit loop computes the positional value as long as it stays below the bound *)
Lemma hex_fold_value bound : forall cs ds acc,
  Forall2 hex_digit cs ds -> 0 <= acc ->
  (acc + 1) * 16 ^ Z.of_nat (length ds) <= bound ->
  hex_fold bound acc cs = Some (fold_left (fun a d => a * 16 + d) ds acc).
Proof.
  induction cs as [|c cs IH]; intros ds acc H Hacc Hb; inversion H; subst; cbn [hex_fold fold_left].
  - reflexivity.
  - rewrite (hex_digit_m_spec _ _ H2). apply hex_digit_range in H2.
    cbn [length] in Hb. rewrite Nat2Z.inj_succ, Z.pow_succ_r in Hb by lia.
    assert (Hp : 0 < 16 ^ Z.of_nat (length l')) by (apply Z.pow_pos_nonneg; lia).
    destruct (Z.ltb_spec (acc * 16 + y) bound) as [Hlt|Hge].
    + apply IH; [exact H4 | lia | nia].
    + exfalso. nia.
Qed.

(** dropping the underscores of ( HEX_DIGIT | _ )* leaves the digits *)
Lemma udigits_filter us ds :
  udigits us ds -> exists cs, filter (fun c => negb (c =? 95)) us = cs /\ Forall2 hex_digit cs ds.
Proof.
  induction 1 as [|c d s ds Hd _ [cs [IH1 IH2]]| s ds _ [cs [IH1 IH2]]].
  - exists []. split; [reflexivity | constructor].
  - exists (c :: cs). cbn [filter]. apply hex_digit_range in Hd as Hr.
    destruct (Z.eqb_spec c 95); [lia|]. cbn [negb]. rewrite IH1. split; [reflexivity | now constructor].
  - exists cs. cbn [filter]. rewrite Z.eqb_refl. cbn [negb]. split; [exact IH1 | exact IH2].
Qed.

Lemma udigits_chars us ds : udigits us ds -> Forall (fun c => c < 128 /\ c <> 125) us.
Proof.
  induction 1 as [|c d s ds Hd _ IH| s ds _ IH]; constructor; try exact IH.
  - apply hex_digit_range in Hd. lia.
  - lia.
Qed.

Lemma split_brace_app pre rest :
  Forall (fun c => c <> 125) pre -> split_brace (pre ++ 125 :: rest) = Some (pre, rest).
Proof.
  induction 1 as [|b pre Hb _ IH]; cbn [app split_brace].
  - now rewrite Z.eqb_refl.
  - destruct (Z.eqb_spec b 125); [contradiction|]. now rewrite IH.
Qed.

Lemma from_str_radix16_digits bound c d cs ds :
  hex_digit c d -> Forall2 hex_digit cs ds ->
  16 ^ Z.of_nat (S (length ds)) <= bound ->
  from_str_radix16 bound (c :: cs) = Some (hex_value (d :: ds)).
Proof.
  intros Hc Hcs Hb. apply hex_digit_range in Hc as Hr.
  assert (E : hex_fold bound 0 (c :: cs) = Some (hex_value (d :: ds))).
  { unfold hex_value. apply hex_fold_value; [now constructor | lia | cbn [length]; lia]. }
  unfold from_str_radix16. destruct cs as [|c' cs'].
  - destruct (Z.eqb_spec c 43); [lia|]. destruct (Z.eqb_spec c 45); [lia|]. exact E.
  - destruct (Z.eqb_spec c 43); [lia|]. exact E.
Qed.

Lemma trim_cont_ws_app ws rest :
  Forall cont_ws ws -> (forall b t, rest = b :: t -> is_cont_ws b = false) ->
  trim_cont_ws (ws ++ rest) = rest.
Proof.
  intros H Hrest. induction H as [|c ws Hc _ IH]; cbn [app].
  - destruct rest as [|b t]; [reflexivity|]. cbn [trim_cont_ws]. now rewrite (Hrest b t eq_refl).
  - cbn [trim_cont_ws]. assert (E : is_cont_ws c = true).
    { unfold is_cont_ws, cont_ws in *. kill_eqb; reflexivity. }
    now rewrite E.
Qed.

Lemma hex_value_bound ds : Forall (fun d => 0 <= d <= 15) ds -> forall acc, 0 <= acc ->
  0 <= fold_left (fun a d => a * 16 + d) ds acc < (acc + 1) * 16 ^ Z.of_nat (length ds).
Proof.
  induction 1 as [|d ds Hd _ IH]; intros acc Hacc; cbn [fold_left length].
  - change (16 ^ Z.of_nat 0) with 1. lia.
  - rewrite Nat2Z.inj_succ, Z.pow_succ_r by lia.
    specialize (IH (acc * 16 + d) ltac:(lia)).
    assert (Hp : 0 < 16 ^ Z.of_nat (length ds)) by (apply Z.pow_pos_nonneg; lia).
    nia.
Qed.

(* ------------------------------------------------------------------ the escape loop *)

Lemma str_body_head s v c s' : str_body s v -> s = c :: s' -> 0 <= c <= 1114111.
Proof.
  intros H E. destruct H; inversion E; subst; try lia.
  now apply scalar_range.
Qed.

Lemma utf8_head_not_ws s c s' :
  s = c :: s' -> 0 <= c <= 1114111 -> ~ cont_ws c ->
  forall b t, utf8 s = b :: t -> is_cont_ws b = false.
Proof.
  intros -> Hc Hws b t E. rewrite utf8_cons in E.
  destruct (Z.ltb_spec c 128).
  - rewrite utf8_char_ascii in E by lia. inversion E; subst b.
    unfold is_cont_ws, cont_ws in *. kill_eqb; reflexivity.
  - pose proof (utf8_char_high c ltac:(lia)) as Hh.
    destruct (utf8_char c) as [|b0 r] eqn:Eu.
    + exfalso. revert Eu. unfold utf8_char. kill_eqb; discriminate.
    + inversion Hh; subst. inversion E; subst b. unfold is_cont_ws. kill_eqb; reflexivity.
Qed.

Lemma pow16_le n : (n <= 6)%nat -> 16 ^ Z.of_nat n <= 4294967296.
Proof.
  intro H. apply Z.le_trans with (16 ^ 6); [apply Z.pow_le_mono_r; lia | vm_compute; discriminate].
Qed.

Lemma from_u32_scalar n : scalar n -> from_u32_m n = Some n.
Proof. unfold scalar, from_u32_m. intro H. kill_eqb; reflexivity. Qed.

Lemma body_decodes body v :
  str_body body v -> forall fuel out, (length (utf8 body) < fuel)%nat ->
  parse_loop trim_cont_ws true fuel (utf8 body) out = Some (out ++ utf8 v).
Proof.
  induction 1 as [ | c s v Hc H34 H92 H13 Hb IH | e c s v He Hb IH | h l a b s v Hh Ha Hl Hb IH
                 | c0 d0 us ds s v Hc0 Hus Hlen Hsc Hb IH | ws s v Hws Hmax Hb IH ];
    intros fuel out Hfuel; (destruct fuel as [|f]; [lia|]).
  - rewrite loop_nil. now rewrite app_nil_r.
  - rewrite !utf8_cons in *. rewrite app_length in Hfuel.
    rewrite loop_copy by (apply utf8_char_avoids; [exact Hc | exact H92 | lia]).
    rewrite IH by lia. now rewrite app_assoc.
  - pose proof (simple_escape_facts _ _ He) as Hf.
    rewrite !utf8_cons in *. rewrite (utf8_char_ascii 92), (utf8_char_ascii e), (utf8_char_ascii c) in * by lia.
    cbn [app length] in *. cbn [parse_loop split_bs]. rewrite Z.eqb_refl. cbv beta iota zeta.
    destruct (Z.eqb_spec e 120); [lia|]. destruct (Z.eqb_spec e 117); [lia|].
    destruct (Z.eqb_spec e 13); [lia|]. destruct (Z.eqb_spec e 10); [lia|]. cbn [orb].
    rewrite (simple_escape_m_spec _ _ He). rewrite IH by lia.
    rewrite app_nil_r, <- app_assoc. reflexivity.
  - apply hex_digit_range in Hh as Hhr. apply hex_digit_range in Hl as Hlr.
    rewrite !utf8_cons in *.
    rewrite (utf8_char_ascii 92), (utf8_char_ascii 120), (utf8_char_ascii h), (utf8_char_ascii l),
      (utf8_char_ascii (a * 16 + b)) in * by lia.
    cbn [app length] in *. cbn [parse_loop split_bs]. rewrite Z.eqb_refl. cbv beta iota zeta.
    rewrite Z.eqb_refl.
    assert (E : from_str_radix16 256 [h; l] = Some (a * 16 + b)).
    { rewrite (from_str_radix16_digits 256 h a [l] [b] Hh); [| constructor; [exact Hl | constructor] | vm_compute; discriminate].
      unfold hex_value. cbn [fold_left]. f_equal; lia. }
    rewrite E. destruct (Z.ltb_spec (a * 16 + b) 128); [|lia].
    rewrite IH by lia. rewrite app_nil_r, <- app_assoc. reflexivity.
  - apply hex_digit_range in Hc0 as Hc0r. pose proof (udigits_chars _ _ Hus) as Huc.
    assert (Hus_ascii : utf8 us = us).
    { apply utf8_ascii. eapply Forall_impl; [|exact Huc]. cbn beta. intros; lia. }
    rewrite !utf8_cons in *. rewrite utf8_app, utf8_cons in *. rewrite Hus_ascii in *.
    rewrite (utf8_char_ascii 92), (utf8_char_ascii 117), (utf8_char_ascii 123), (utf8_char_ascii c0),
      (utf8_char_ascii 125) in * by lia.
    cbn [app length] in *. rewrite app_length in Hfuel. cbn [length] in Hfuel.
    cbn [parse_loop split_bs]. rewrite Z.eqb_refl. cbv beta iota zeta.
    destruct (Z.eqb_spec 117 120); [lia|]. rewrite Z.eqb_refl.
    destruct (Z.eqb_spec 123 125); [lia|].
    change (c0 :: us ++ 125 :: utf8 s) with ((c0 :: us) ++ 125 :: utf8 s).
    rewrite split_brace_app.
    2:{ constructor; [lia|]. eapply Forall_impl; [|exact Huc]. cbn beta. intros; lia. }
    cbn [filter]. destruct (Z.eqb_spec c0 95); [lia|]. cbn [negb].
    destruct (udigits_filter _ _ Hus) as (cs & Hcs & Hds). rewrite Hcs.
    rewrite (from_str_radix16_digits 4294967296 c0 d0 cs ds Hc0 Hds) by (apply pow16_le; lia).
    rewrite (from_u32_scalar _ Hsc).
    rewrite encode_m_utf8 by (now apply scalar_range).
    rewrite IH by lia. rewrite app_nil_r, <- app_assoc. reflexivity.
  - assert (Hws_ascii : utf8 ws = ws).
    { apply utf8_ascii. eapply Forall_impl; [|exact Hws]. unfold cont_ws. cbn beta. intros; lia. }
    rewrite !utf8_cons in *. rewrite utf8_app in *. rewrite Hws_ascii in *.
    rewrite (utf8_char_ascii 92), (utf8_char_ascii 10) in * by lia.
    cbn [app length] in *. rewrite app_length in Hfuel.
    cbn [parse_loop split_bs]. rewrite Z.eqb_refl. cbv beta iota zeta.
    destruct (Z.eqb_spec 10 120); [lia|]. destruct (Z.eqb_spec 10 117); [lia|].
    destruct (Z.eqb_spec 10 13); [lia|]. rewrite Z.eqb_refl. cbn [orb].
    rewrite trim_cont_ws_app; [| exact Hws |].
    + rewrite IH by lia. now rewrite app_nil_r.
    + intros b0 t E. destruct s as [|c s']; [discriminate|].
      eapply (utf8_head_not_ws (c :: s') c s' eq_refl); [| | exact E].
      * eapply str_body_head; [exact Hb | reflexivity].
      * eapply Hmax. reflexivity.
Qed.

(** the values are scalar values *)
Lemma str_body_scalar body v : str_body body v -> Forall scalar v.
Proof.
  induction 1 as [ | c s v Hc _ _ _ _ IH | e c s v He _ IH | h l a b s v Hh Ha Hl _ IH
                 | c0 d0 us ds s v _ _ _ Hsc _ IH | ws s v _ _ _ IH ]; try (constructor; try exact IH); try exact IH.
  - exact Hc.
  - apply simple_escape_facts in He. unfold scalar. lia.
  - apply hex_digit_range in Hh, Hl. unfold scalar. lia.
  - exact Hsc.
Qed.

(* ------------------------------------------------------------------ whole tokens *)

(** literal_bytes_eq_rustc, normal string literals *)
Lemma parse_string_eq_rustc src v : rustc_string src v -> parse_string (utf8 src) = Some (utf8 v).
Proof.
  intros (body & -> & Hb).
  rewrite utf8_cons, utf8_app. rewrite (utf8_char_ascii 34) by lia.
  change (utf8 [34]) with [34]. cbn [app].
  unfold parse_string, parse_string_with.
  rewrite rev_unit. rewrite Z.eqb_refl. rewrite rev_involutive, rev_length.
  rewrite (body_decodes body v Hb) by lia. reflexivity.
Qed.

Lemma parse_literal_string src v : rustc_string src v -> parse_literal (utf8 src) = Some (utf8 v).
Proof.
  intro H. pose proof (parse_string_eq_rustc src v H) as E. destruct H as (body & -> & Hb).
  rewrite utf8_cons in *. rewrite (utf8_char_ascii 34) in * by lia. cbn [app] in *.
  unfold parse_literal. rewrite Z.eqb_refl. exact E.
Qed.

(* ------------------------------------------------------------------ raw strings *)

Lemma pos_non_hash_repeat n c rest : c <> 35 -> pos_non_hash (repeat 35 n ++ c :: rest) = Some n.
Proof.
  intro Hc. induction n as [|n IH]; cbn [repeat app pos_non_hash].
  - destruct (Z.eqb_spec c 35); [contradiction | reflexivity].
  - rewrite Z.eqb_refl, IH. reflexivity.
Qed.

Lemma rev_repeat {A} (a : A) n : rev (repeat a n) = repeat a n.
Proof.
  induction n as [|n IH]; [reflexivity|]. cbn [repeat rev]. rewrite IH.
  clear IH. induction n as [|n IH]; [reflexivity|]. cbn [repeat app]. now rewrite IH.
Qed.

(** on bytes, for ANY body: hashes are counted from both ends and what is between the
    two quotes is returned verbatim *)
Lemma parse_raw_bytes n B :
  parse_raw_string (114 :: repeat 35 n ++ 34 :: B ++ 34 :: repeat 35 n) = Some B.
Proof.
  unfold parse_raw_string. cbn [tl].
  pose proof (repeat_length 35 n) as HL.
  rewrite pos_non_hash_repeat by lia.
  rewrite app_nth2 by lia. rewrite HL, Nat.sub_diag. cbn [nth]. rewrite Z.eqb_refl. cbn [negb].
  assert (Er : rev (repeat 35 n ++ 34 :: B ++ 34 :: repeat 35 n) = repeat 35 n ++ 34 :: rev B ++ 34 :: repeat 35 n).
  { rewrite rev_app_distr. cbn [rev]. rewrite rev_app_distr. cbn [rev]. rewrite !rev_repeat.
    rewrite <- !app_assoc. cbn [app]. reflexivity. }
  rewrite Er. rewrite pos_non_hash_repeat by lia.
  assert (Elen : Nat.sub (Nat.sub (length (repeat 35 n ++ 34 :: B ++ 34 :: repeat 35 n)) 1) n = Nat.add n (S (length B))).
  { rewrite app_length. cbn [length]. rewrite app_length. cbn [length]. lia. }
  rewrite Elen.
  rewrite app_nth2 by lia. rewrite HL.
  replace (n + S (length B) - n)%nat with (S (length B)) by lia. cbn [nth].
  rewrite app_nth2 by lia. rewrite Nat.sub_diag. cbn [nth]. rewrite Z.eqb_refl. cbn [negb].
  destruct (Nat.ltb_spec (n + S (length B)) (S n)); [lia|].
  rewrite skipn_app, HL. rewrite skipn_all2 by lia.
  replace (S n - n)%nat with 1%nat by lia. cbn [skipn app].
  replace (n + S (length B) - S n)%nat with (length B) by lia.
  rewrite firstn_app, Nat.sub_diag, firstn_all. cbn [firstn]. now rewrite app_nil_r.
Qed.

Lemma utf8_repeat35 n : utf8 (repeat 35 n) = repeat 35 n.
Proof. apply utf8_ascii. apply Forall_forall. intros x Hx. apply repeat_spec in Hx. lia. Qed.

(** raw_literal_eq *)
Lemma parse_literal_raw n body : parse_literal (utf8 (raw_token n body)) = Some (utf8 body).
Proof.
  unfold raw_token. rewrite utf8_cons, utf8_app, utf8_cons, utf8_app, utf8_cons, !utf8_repeat35.
  rewrite (utf8_char_ascii 114), (utf8_char_ascii 34) by lia. cbn [app].
  unfold parse_literal. destruct (Z.eqb_spec 114 34); [lia|]. rewrite Z.eqb_refl.
  apply parse_raw_bytes.
Qed.

(* ------------------------------------------------------------------ concat! *)

(** concat_eq: the folding of concat!(..) is concatenation of the items' values *)
Lemma decode_concat args vs :
  Forall2 (fun a v => decode_src a = Some v) args vs -> decode_src (SConcat args) = Some (concat vs).
Proof.
  induction 1 as [|a v args vs Ha _ IH]; [reflexivity|].
  cbn [decode_src] in IH |- *. rewrite Ha, IH. reflexivity.
Qed.

Lemma decode_lit tok : decode_src (SLit tok) = parse_literal tok.
Proof. reflexivity. Qed.

(* ------------------------------------------------------------------ witnesses *)

(** the hypotheses of the main lemma are satisfiable, with every production used:
    the token  dquote a \n \x41 \u{e_9} \ LF SPACE SPACE b dquote  denotes  a LF A e-acute b *)
Example rustc_string_example :
  rustc_string [34; 97; 92;110; 92;120;52;49; 92;117;123;101;95;57;125; 92;10;32;32; 98; 34]
               [97; 10; 65; 233; 98].
Proof.
  exists [97; 92;110; 92;120;52;49; 92;117;123;101;95;57;125; 92;10;32;32; 98]. split; [reflexivity|].
  apply sb_char; [unfold scalar; lia | lia | lia | lia |].
  apply sb_simple; [constructor|].
  apply (sb_hex 52 49 4 1); [unfold hex_digit; lia | lia | unfold hex_digit; lia |].
  apply (sb_unicode 101 14 [95; 57] [9] [92;10;32;32;98]).
  - unfold hex_digit; lia.
  - apply ud_us. apply (ud_digit 57 9); [unfold hex_digit; lia | constructor].
  - cbn [length]; lia.
  - unfold scalar, hex_value; cbn [fold_left]; lia.
  - apply (sb_continue [32; 32] [98] [98]).
    + repeat constructor; unfold cont_ws; lia.
    + intros c s' E. inversion E; subst. unfold cont_ws. lia.
    + apply sb_char; [unfold scalar; lia | lia | lia | lia | constructor].
Qed.

(** F6 (a), before the repair: after a line continuation the old decoder also dropped
    U+3000; the token  dquote a \ LF SPACE U+3000 b dquote  denotes  a U+3000 b  but was
    decoded as  ab *)
Lemma old_continuation_refuted :
  let src := [34; 97; 92; 10; 32; 12288; 98; 34] in
  rustc_string src [97; 12288; 98] /\
  parse_string_old (utf8 src) = Some [97; 98] /\
  parse_string (utf8 src) = Some (utf8 [97; 12288; 98]).
Proof.
  cbv zeta. split; [|split; vm_compute; reflexivity].
  exists [97; 92; 10; 32; 12288; 98]. split; [reflexivity|].
  apply sb_char; [unfold scalar; lia | lia | lia | lia |].
  apply (sb_continue [32] [12288; 98] [12288; 98]).
  - repeat constructor; unfold cont_ws; lia.
  - intros c s' E. inversion E; subst. unfold cont_ws. lia.
  - apply sb_char; [unfold scalar; lia | lia | lia | lia |].
    apply sb_char; [unfold scalar; lia | lia | lia | lia | constructor].
Qed.

(** F6 (b), before the repair: underscores inside \u{..} were rejected *)
Lemma old_underscore_refuted :
  let src := [34; 92;117;123;49;95;70;54;48;48;125; 34] in
  rustc_string src [128512] /\
  parse_string_old (utf8 src) = None /\
  parse_string (utf8 src) = Some (utf8 [128512]).
Proof.
  cbv zeta. split; [|split; vm_compute; reflexivity].
  exists [92;117;123;49;95;70;54;48;48;125]. split; [reflexivity|].
  apply (sb_unicode 49 1 [95;70;54;48;48] [15;6;0;0] [] []).
  - unfold hex_digit; lia.
  - apply ud_us. apply (ud_digit 70 15); [unfold hex_digit; lia|].
    apply (ud_digit 54 6); [unfold hex_digit; lia|].
    apply (ud_digit 48 0); [unfold hex_digit; lia|].
    apply (ud_digit 48 0); [unfold hex_digit; lia| constructor].
  - cbn [length]; lia.
  - unfold scalar, hex_value; cbn [fold_left]; lia.
  - constructor.
Qed.
