(** C06, beyond the property's letter: for a delimiter whose occurrences cannot overlap (no proper
    border — every one-character delimiter is one), the pieces [split] yields from the front and
    the pieces [rsplit] yields from the back are the SAME decomposition, so a Split iterator
    refines a deque of pieces under EVERY interleaving of front and back steps. *)
From KV Require Import Base.Prelude Base.Deque Model.Search Spec.Search Model.Split Spec.Split
  Proofs.SearchProofs Proofs.SplitProofs.
Local Open Scope nat_scope.

(** no proper non-empty prefix of [d] is also a suffix of [d] *)
Definition unbordered (d : list Z) : Prop :=
  d <> [] /\ forall k, 0 < k -> k < length d -> firstn k d <> skipn (length d - k) d.

Lemma unbordered_single c : unbordered [c].
Proof. split; [discriminate|]. cbn. intros k H1 H2. lia. Qed.

(** a delimiter whose first element does not occur again is unbordered: every UTF-8 encoding of
    one character is such (its lead byte is not a continuation byte, all later bytes are) *)
Lemma unbordered_head_not_in_tail c r : ~ In c r -> unbordered (c :: r).
Proof.
  intros Hn. split; [discriminate|]. intros k H0 Hk E.
  assert (Hin : In c (skipn (length (c :: r) - k) (c :: r))).
  { rewrite <- E. destruct k; [lia|]. cbn [firstn]. left; reflexivity. }
  cbn [length] in Hk, Hin.
  replace (S (length r) - k) with (S (length r - k)) in Hin by lia. cbn [skipn] in Hin.
  apply Hn. clear - Hin. revert Hin. generalize (length r - k). intros n.
  assert (G : forall (l : list Z) m, In c (skipn m l) -> In c l).
  { induction l as [|x l IH]; intros m H; [now destruct m|].
    destruct m as [|m]; [exact H|]. cbn [skipn] in H. right. exact (IH m H). }
  apply G.
Qed.

Lemma skipn_skipn_add {A} (l : list A) a b : skipn a (skipn b l) = skipn (b + a) l.
Proof.
  revert l; induction b as [|b IH]; intros l; [reflexivity|].
  destruct l; cbn [skipn Nat.add]; [now destruct a | apply IH].
Qed.

(** two occurrences of an unbordered delimiter do not overlap *)
Lemma occ_no_overlap d h i j : unbordered d -> occ h d i -> occ h d j -> i < j -> j < i + length d -> False.
Proof.
  intros [Hd Hb] Hi Hj Hlt Hov.
  apply occ_skipn in Hi as [Hil [r1 E1]]. apply occ_skipn in Hj as [Hjl [r2 E2]].
  assert (E : skipn (j - i) (d ++ r1) = d ++ r2).
  { rewrite <- E1, skipn_skipn_add. replace (i + (j - i)) with j by lia. exact E2. }
  rewrite skipn_app in E. replace (j - i - length d) with 0 in E by lia. cbn [skipn] in E.
  set (k := length d - (j - i)).
  assert (Hk : length (skipn (j - i) d) = k) by (rewrite skipn_length; reflexivity).
  apply (f_equal (firstn k)) in E.
  rewrite firstn_app in E. rewrite Hk, Nat.sub_diag in E. cbn [firstn] in E. rewrite app_nil_r in E.
  rewrite firstn_all2 in E by lia.
  rewrite firstn_app in E. replace (k - length d) with 0 in E by (unfold k; lia). cbn [firstn] in E.
  rewrite app_nil_r in E.
  apply (Hb k); [unfold k; lia | unfold k; lia |].
  replace (length d - k) with (j - i) by (unfold k; lia). symmetry. exact E.
Qed.

Lemma occ_in_prefix (a t d : list Z) j : occ a d j -> occ (a ++ t) d j.
Proof. intros (x & y & -> & <-). exists x, (y ++ t). now rewrite <- !app_assoc. Qed.

Lemma occ_shift (a d t : list Z) k : occ t d k -> occ (a ++ d ++ t) d (length a + length d + k).
Proof.
  intros (x & y & -> & <-). exists (a ++ d ++ x), y. split.
  - now rewrite <- !app_assoc.
  - rewrite !app_length. lia.
Qed.

(** where an occurrence can sit in [a ++ d ++ t] when none starts inside [a] *)
Lemma occ_classify d a t j : unbordered d ->
  (forall j', j' < length a -> ~ occ (a ++ d ++ t) d j') ->
  occ (a ++ d ++ t) d j ->
  j = length a \/ (length a + length d <= j /\ occ t d (j - length a - length d)).
Proof.
  intros Hu Hfirst Hj.
  destruct (Nat.lt_trichotomy j (length a)) as [Hlt | [-> | Hgt]].
  - exfalso. exact (Hfirst j Hlt Hj).
  - left; reflexivity.
  - right. destruct (Nat.lt_ge_cases j (length a + length d)) as [Hov | Hge].
    + exfalso.
      assert (Ha : occ (a ++ d ++ t) d (length a)) by (exists a, t; split; reflexivity).
      exact (occ_no_overlap d (a ++ d ++ t) (length a) j Hu Ha Hj Hgt Hov).
    + split; [exact Hge|].
      apply occ_skipn in Hj as [Hl [r E]]. apply occ_skipn. split.
      * rewrite !app_length in Hl. lia.
      * exists r. rewrite <- E.
        rewrite skipn_app. rewrite (skipn_all2 a) by lia. cbn [app].
        rewrite skipn_app. rewrite (skipn_all2 d) by lia. cbn [app].
        try reflexivity; f_equal; lia.
Qed.

Lemma firstn_app3 (a d t : list Z) k :
  firstn (length a + length d + k) (a ++ d ++ t) = a ++ d ++ firstn k t.
Proof.
  rewrite firstn_app. rewrite firstn_all2 by lia. f_equal.
  replace (length a + length d + k - length a) with (length d + k) by lia.
  rewrite firstn_app. rewrite firstn_all2 by lia. f_equal.
  f_equal. lia.
Qed.
Lemma skipn_app3 (a d t : list Z) k :
  skipn (length a + length d + k) (a ++ d ++ t) = skipn k t.
Proof.
  rewrite skipn_app. rewrite skipn_all2 by lia. cbn [app].
  replace (length a + length d + k - length a) with (length d + k) by lia.
  rewrite skipn_app. rewrite skipn_all2 by lia. cbn [app]. f_equal. lia.
Qed.

(** the pieces from the back of [a ++ d ++ t] are those of [t], then [a] *)
Lemma rsplit_extend d : unbordered d -> forall t qs, rsplit_rel d t qs ->
  forall a, (forall j, j < length a -> ~ occ (a ++ d ++ t) d j) ->
  rsplit_rel d (a ++ d ++ t) (qs ++ [a]).
Proof.
  intros Hu t qs Hr. pose proof Hu as [Hd _].
  assert (Hlen : 0 < length d) by (destruct d; [congruence | cbn; lia]).
  induction Hr as [t Hno | t k rest Hlast Hrest IH]; intros a Hfirst.
  - (* no occurrence in t: the only occurrence is the one after a *)
    assert (Hl : last_occ (a ++ d ++ t) d (length a)).
    { split; [exists a, t; split; reflexivity|].
      intros j Hj Ho. destruct (occ_classify d a t j Hu Hfirst Ho) as [-> | [_ Hot]]; [lia|].
      exact (Hno _ Hot). }
    pose proof (RSR_cons d (a ++ d ++ t) (length a) [a] Hl) as R.
    replace (length a + length d) with (length a + length d + 0) in R by lia.
    rewrite skipn_app3 in R. cbn [skipn] in R.
    rewrite firstn_app, firstn_all, Nat.sub_diag in R. cbn [firstn] in R. rewrite app_nil_r in R.
    cbn [app]. apply R. constructor.
    intros j Ho. pose proof (occ_bound _ _ _ Ho) as B.
    apply (Hfirst j); [lia|]. now apply occ_in_prefix.
  - (* last occurrence of t at k *)
    destruct Hlast as [Hok Hafter].
    assert (Hl : last_occ (a ++ d ++ t) d (length a + length d + k)).
    { split; [now apply occ_shift|].
      intros j Hj Ho. destruct (occ_classify d a t j Hu Hfirst Ho) as [-> | [Hge Hot]]; [lia|].
      apply (Hafter (j - length a - length d)); [lia | exact Hot]. }
    cbn [app].
    pose proof (RSR_cons d (a ++ d ++ t) (length a + length d + k) (rest ++ [a]) Hl) as R.
    replace (length a + length d + k + length d) with (length a + length d + (k + length d)) in R by lia.
    rewrite skipn_app3, firstn_app3 in R. apply R.
    apply IH. intros j Hj Ho. apply (Hfirst j Hj).
    rewrite <- (firstn_skipn k t) at 1.
    replace (a ++ d ++ firstn k t ++ skipn k t) with ((a ++ d ++ firstn k t) ++ skipn k t)
      by (now rewrite <- !app_assoc).
    now apply occ_in_prefix.
Qed.

(** split's pieces, reversed, are rsplit's pieces *)
Theorem split_rev_is_rsplit d : unbordered d -> forall h ps,
  split_rel d h ps -> rsplit_rel d h (rev ps).
Proof.
  intros Hu h ps Hs. induction Hs as [h Hno | h i rest Hfirst Hrest IH].
  - cbn. now constructor.
  - cbn [rev]. destruct Hfirst as [Ho Hbefore].
    pose proof (occ_split h d i Ho) as E. pose proof (occ_bound _ _ _ Ho) as B.
    assert (Hla : length (firstn i h) = i) by (rewrite firstn_length; lia).
    rewrite E at 1.
    apply (rsplit_extend d Hu _ _ IH (firstn i h)).
    intros j Hj Hoj. rewrite <- E in Hoj. rewrite Hla in Hj. exact (Hbefore j Hj Hoj).
Qed.

Lemma split_rel_exists d h : d <> [] -> exists ps, split_rel d h ps.
Proof. intros Hd. destruct (split_exhaust h d Hd) as (ps & _ & H). now exists ps. Qed.

(** and conversely (both relations are functional and total) *)
Theorem rsplit_rev_is_split d : unbordered d -> forall h qs,
  rsplit_rel d h qs -> split_rel d h (rev qs).
Proof.
  intros Hu h qs Hr. destruct (split_rel_exists d h (proj1 Hu)) as (ps & Hs).
  pose proof (split_rev_is_rsplit d Hu h ps Hs) as Hr'.
  rewrite (rsplit_rel_functional d h qs (rev ps) Hr Hr'), rev_involutive. exact Hs.
Qed.

(* ------------------------------------------------------------------ deque refinement *)

(** the pieces not yet yielded, as a function of the state *)
Definition pieces (d h : list Z) : list (list Z) :=
  match collect split_next (split_fuel h) (mk_split h (SNormal d)) with
  | Some ps => ps
  | None => []
  end.
Definition abs_split (s : split_st) : list (list Z) :=
  match s_state s with
  | SNormal d => pieces d (s_this s)
  | _ => []
  end.

Lemma pieces_rel d h : d <> [] -> split_rel d h (pieces d h).
Proof.
  intros Hd. unfold pieces.
  destruct (collect_split_normal d Hd (split_fuel h) h) as (ps & Hc & Hr); [unfold split_fuel; lia|].
  now rewrite Hc.
Qed.

Definition to_opt (r : step_res split_st) : option (list Z * split_st) :=
  match r with Yield p s => Some (p, s) | _ => None end.

Section Refine.
  Variable d : list Z.
  Hypothesis Hu : unbordered d.

  Definition InvD (s : split_st) : Prop :=
    s_state s = SNormal d \/ (s_state s = SFinished /\ s_this s = []).

  Lemma front_ok s : InvD s ->
    match to_opt (split_next s) with
    | None => abs_split s = []
    | Some (x, s') => abs_split s = x :: abs_split s' /\ InvD s'
    end.
  Proof.
    pose proof Hu as [Hd _].
    intros [Hn | [Hf Ht]]; destruct s as [this st]; cbn [s_state s_this] in *; subst st.
    - unfold split_next. cbn [s_state s_this].
      destruct (find_m this d) as [pos|] eqn:E.
      + apply find_m_some in E as (i & -> & Hi). rewrite Nat2Z.id, to_nat_pos. cbn [to_opt].
        split; [|left; reflexivity].
        unfold abs_split. cbn [s_state s_this].
        apply (split_rel_functional d this); [now apply pieces_rel|].
        constructor; [exact Hi | now apply pieces_rel].
      + apply find_m_none in E. cbn [to_opt]. split; [|right; split; reflexivity].
        unfold abs_split. cbn [s_state s_this].
        apply (split_rel_functional d this); [now apply pieces_rel | now constructor].
    - reflexivity.
  Qed.

  Lemma back_ok s : InvD s ->
    match to_opt (split_next_back s) with
    | None => abs_split s = []
    | Some (x, s') => abs_split s = abs_split s' ++ [x] /\ InvD s'
    end.
  Proof.
    pose proof Hu as [Hd _].
    intros [Hn | [Hf Ht]]; destruct s as [this st]; cbn [s_state s_this] in *; subst st.
    - unfold split_next_back. cbn [s_state s_this].
      pose proof (split_rev_is_rsplit d Hu this _ (pieces_rel d this Hd)) as Hr.
      destruct (rfind_m this d) as [pos|] eqn:E.
      + apply rfind_m_some in E as (i & -> & Hi); [|exact Hd]. rewrite Nat2Z.id, to_nat_pos. cbn [to_opt].
        split; [|left; reflexivity].
        unfold abs_split. cbn [s_state s_this].
        pose proof (split_rev_is_rsplit d Hu (firstn i this) _ (pieces_rel d (firstn i this) Hd)) as Hr2.
        pose proof (RSR_cons d this i _ Hi Hr2) as Hr3.
        pose proof (rsplit_rel_functional d this _ _ Hr Hr3) as Eq.
        apply (f_equal (@rev (list Z))) in Eq. rewrite rev_involutive in Eq. rewrite Eq.
        cbn [rev]. now rewrite rev_involutive.
      + apply rfind_m_none in E; [|exact Hd]. cbn [to_opt]. split; [|right; split; reflexivity].
        unfold abs_split. cbn [s_state s_this].
        apply (split_rel_functional d this); [now apply pieces_rel | now constructor].
    - reflexivity.
  Qed.

  (** EVERY interleaving of front and back steps on a Split iterator (an RSplit is the same
      machine with the ends swapped) pops the deque of split's pieces *)
  Theorem split_refines_deque : forall hist h,
    run _ _ (fun s => to_opt (split_next s)) (fun s => to_opt (split_next_back s)) hist (split_init h d)
    = deque_run hist (pieces d h).
  Proof.
    intros hist h.
    pose proof (run_refines split_st (list Z) (fun s => to_opt (split_next s)) (fun s => to_opt (split_next_back s))
                  abs_split InvD front_ok back_ok hist (split_init h d)) as R.
    assert (Hinit : split_init h d = mk_split h (SNormal d))
      by (unfold split_init; destruct d; [destruct Hu; congruence | reflexivity]).
    rewrite Hinit in *. apply R. left; reflexivity.
  Qed.
End Refine.
