(** C01, logical half: the facts that make the [unsafe { from_utf8_unchecked(..) }] /
    [__from_u8_subslice_of_str] calls of konst/src/string.rs, string/splitting.rs,
    string/split_once.rs and parsing.rs sound — every string a model function returns is
    valid UTF-8 and (for the Parser) sits on char boundaries of the original — derived from
    the UTF-8 structure lemmas of Proofs/Utf8Proofs.v and the functional correctness theorems
    of C04/C05/C06/C13. *)
From KV Require Import Base.Prelude Model.Utf8 Spec.Utf8 Proofs.Utf8Proofs
  Model.Search Spec.Search Proofs.SearchProofs Model.Trim Spec.Trim Proofs.TrimProofs
  Model.Split Spec.Split Proofs.SplitProofs Model.Parser Proofs.ParserProofs.
From KV Require Model.ParseInt Proofs.ParseIntProofs.
Local Open Scope Z_scope.

Notation valid s := (utf8 s = true).

(* ------------------------------------------------------------ cutting valid strings *)

(** the mirror of [utf8_app_inv]: a valid suffix of a valid string leaves a valid prefix *)
Lemma utf8_app_inv_l a b : valid b -> valid (a ++ b) -> valid a.
Proof.
  intros Hb Hab. destruct b as [|x b'] eqn:Eb; [now rewrite app_nil_r in Hab|]. rewrite <- Eb in *.
  assert (B : is_char_boundary_m (a ++ b) (zlen a) = true).
  { pose proof (zlen_nonneg a). rewrite icb_app_r by lia. rewrite Z.sub_diag.
    apply utf8_iff in Hb as (es & E & F). destruct F as [|e es He F]; [subst b; cbn in E; discriminate|].
    rewrite E. cbn [concat]. apply icb_head_chunk. now apply wf_chunk. }
  pose proof (zlen_nonneg a). pose proof (zlen_nonneg b).
  apply (boundary_iff_split _ _ Hab) in B; [|rewrite zlen_app; lia].
  unfold zlen in B at 1 2. rewrite Nat2Z.id in B.
  rewrite firstn_app, Nat.sub_diag, firstn_all in B. cbn [firstn] in B. rewrite app_nil_r in B.
  now apply andb_true_iff in B as [Ha _].
Qed.

(** around an occurrence of a valid non-empty needle everything is valid *)
Lemma match_splits_valid h n p q :
  valid h -> valid n -> n <> [] -> h = p ++ n ++ q -> valid p /\ valid q.
Proof.
  intros Uh Un Nn E. pose proof (match_on_boundaries h n p q Uh Un Nn E) as [B1 _]. subst h.
  pose proof (zlen_nonneg p). pose proof (zlen_nonneg n). pose proof (zlen_nonneg q).
  apply (boundary_iff_split _ _ Uh) in B1; [|rewrite !zlen_app; lia].
  unfold zlen in B1 at 1 2. rewrite Nat2Z.id in B1.
  rewrite firstn_app, Nat.sub_diag, firstn_all, skipn_app, Nat.sub_diag, skipn_all in B1.
  cbn [firstn skipn app] in B1. rewrite app_nil_r in B1.
  apply andb_true_iff in B1 as [Up Unq]. split; [exact Up|]. exact (utf8_app_inv n q Un Unq).
Qed.

Local Open Scope nat_scope.

Lemma occ_valid h n i : valid h -> valid n -> n <> [] -> occ h n i ->
  valid (firstn i h) /\ valid (skipn (i + length n) h) /\
  valid (skipn i h) /\ valid (firstn (i + length n) h).
Proof.
  intros Uh Un Nn (a & b & E & <-).
  destruct (match_splits_valid h n a b Uh Un Nn E) as [Ua Ub]. subst h.
  rewrite firstn_app, firstn_all, Nat.sub_diag. cbn [firstn]. rewrite app_nil_r.
  rewrite (skipn_app (length a)), skipn_all, Nat.sub_diag. cbn [skipn app].
  replace (a ++ n ++ b) with ((a ++ n) ++ b) by now rewrite app_assoc.
  replace (length a + length n) with (length (a ++ n)) by now rewrite app_length.
  rewrite skipn_app, skipn_all, Nat.sub_diag, firstn_app, firstn_all, Nat.sub_diag.
  cbn [skipn firstn app]. rewrite app_nil_r.
  repeat split; auto using utf8_app.
Qed.

(* ------------------------------------------------------------ search results *)

Theorem find_skip_valid h n r : valid h -> valid n -> find_skip_m h n = Some r -> valid r.
Proof.
  intros Uh Un H. destruct n as [|c n'] eqn:En; [cbn in H; now inversion H; subst|]. rewrite <- En in *.
  assert (Nn : n <> []) by (rewrite En; discriminate).
  apply find_skip_m_some in H as (i & [Ho _] & ->); [|exact Nn]. now apply (occ_valid h n i).
Qed.
Theorem find_keep_valid h n r : valid h -> valid n -> find_keep_m h n = Some r -> valid r.
Proof.
  intros Uh Un H. destruct n as [|c n'] eqn:En; [cbn in H; now inversion H; subst|]. rewrite <- En in *.
  assert (Nn : n <> []) by (rewrite En; discriminate).
  apply find_keep_m_some in H as (i & [Ho _] & ->); [|exact Nn]. now apply (occ_valid h n i).
Qed.
Theorem rfind_skip_valid h n r : valid h -> valid n -> rfind_skip_m h n = Some r -> valid r.
Proof.
  intros Uh Un H. destruct n as [|c n'] eqn:En; [cbn in H; now inversion H; subst|]. rewrite <- En in *.
  assert (Nn : n <> []) by (rewrite En; discriminate).
  apply rfind_skip_m_some in H as (i & [Ho _] & ->); [|exact Nn]. now apply (occ_valid h n i).
Qed.
Theorem rfind_keep_valid h n r : valid h -> valid n -> rfind_keep_m h n = Some r -> valid r.
Proof.
  intros Uh Un H. destruct n as [|c n'] eqn:En; [cbn in H; now inversion H; subst|]. rewrite <- En in *.
  assert (Nn : n <> []) by (rewrite En; discriminate).
  apply rfind_keep_m_some in H as (i & [Ho _] & ->); [|exact Nn]. now apply (occ_valid h n i).
Qed.

Theorem split_once_valid h n a b : valid h -> valid n -> split_once_m h n = Some (a, b) -> valid a /\ valid b.
Proof.
  intros Uh Un H. destruct n as [|c n'] eqn:En; [cbn in H; inversion H; subst; now split|]. rewrite <- En in *.
  assert (Nn : n <> []) by (rewrite En; discriminate).
  apply split_once_m_some in H as (i & [Ho _] & -> & ->); [|exact Nn].
  destruct (occ_valid h n i Uh Un Nn Ho) as (H1 & H2 & _). now split.
Qed.
Theorem rsplit_once_valid h n a b : valid h -> valid n -> rsplit_once_m h n = Some (a, b) -> valid a /\ valid b.
Proof.
  intros Uh Un H. destruct n as [|c n'] eqn:En; [cbn in H; inversion H; subst; now split|]. rewrite <- En in *.
  assert (Nn : n <> []) by (rewrite En; discriminate).
  apply rsplit_once_m_some in H as (i & [Ho _] & -> & ->); [|exact Nn].
  destruct (occ_valid h n i Uh Un Nn Ho) as (H1 & H2 & _). now split.
Qed.

(** the offsets [find] / [rfind] report are char boundaries (so [str_up_to] / [str_from] in
    split_once and the split iterators cannot panic) *)
Theorem find_offset_is_boundary h n z : valid h -> valid n -> n <> [] -> find_m h n = Some z ->
  is_char_boundary_m h z = true /\ is_char_boundary_m h (z + zlen n) = true.
Proof.
  intros Uh Un Nn H. apply find_m_some in H as (i & -> & [(a & b & E & <-) _]).
  exact (match_on_boundaries h n a b Uh Un Nn E).
Qed.
Theorem rfind_offset_is_boundary h n z : valid h -> valid n -> n <> [] -> rfind_m h n = Some z ->
  is_char_boundary_m h z = true /\ is_char_boundary_m h (z + zlen n) = true.
Proof.
  intros Uh Un Nn H. apply rfind_m_some in H as (i & -> & [(a & b & E & <-) _]); [|exact Nn].
  exact (match_on_boundaries h n a b Uh Un Nn E).
Qed.

(* ------------------------------------------------------------ strip / trim *)

Theorem strip_prefix_valid h p r : valid h -> valid p -> strip_prefix_m h p = Some r -> valid r.
Proof. intros Uh Up H. apply strip_prefix_m_spec in H. subst h. exact (utf8_app_inv p r Up Uh). Qed.
Theorem strip_suffix_valid h p r : valid h -> valid p -> strip_suffix_m h p = Some r -> valid r.
Proof. intros Uh Up H. apply strip_suffix_m_spec in H. subst h. exact (utf8_app_inv_l r p Up Uh). Qed.

Lemma reps_valid p k : valid p -> valid (reps p k).
Proof.
  intros Up. induction k as [|k IH]; [reflexivity|]. rewrite reps_S. now apply utf8_app.
Qed.

Theorem trim_start_matches_valid h p : valid h -> valid p ->
  valid (unwrap_trim (trim_start_matches_m h p) h).
Proof.
  intros Uh Up. destruct p as [|c p'] eqn:Ep.
  - now rewrite trim_start_matches_empty.
  - rewrite <- Ep in *. destruct (trim_start_matches_total h p) as [r E]. rewrite E. cbn [unwrap_trim].
    apply trim_start_matches_correct in E as [k [Hk _]]; [|rewrite Ep; discriminate].
    subst h. exact (utf8_app_inv _ r (reps_valid p k Up) Uh).
Qed.
Theorem trim_end_matches_valid h p : valid h -> valid p ->
  valid (unwrap_trim (trim_end_matches_m h p) h).
Proof.
  intros Uh Up. destruct p as [|c p'] eqn:Ep.
  - now rewrite trim_end_matches_empty.
  - rewrite <- Ep in *. destruct (trim_end_matches_total h p) as [r E]. rewrite E. cbn [unwrap_trim].
    apply trim_end_matches_correct in E as [k [Hk _]]; [|rewrite Ep; discriminate].
    subst h. exact (utf8_app_inv_l r _ (reps_valid p k Up) Uh).
Qed.

(** ASCII bytes are one-byte characters *)
Lemma ascii_valid w : Forall (fun b => (0 <= b <= 127)%Z) w -> valid w.
Proof.
  induction 1 as [|b w Hb _ IH]; [reflexivity|].
  change (b :: w) with ([b] ++ w). apply utf8_app; [|exact IH].
  apply utf8_iff. exists [[b]]. split; [reflexivity|]. constructor; [|constructor].
  unfold wf. cbn. unfold wf1, inr. lia.
Qed.
Lemma ws_ascii w : Forall ascii_ws w -> Forall (fun b => (0 <= b <= 127)%Z) w.
Proof.
  apply Forall_impl. intros b Hb. unfold ascii_ws in Hb. cbn in Hb.
  destruct Hb as [<-|[<-|[<-|[<-|[<-|[]]]]]]; lia.
Qed.

Theorem trim_start_valid s : valid s -> valid (bytes_trim_start_m s).
Proof.
  intros Us. destruct (bytes_trim_start_sat s) as (w & E & Fw & _).
  rewrite E in Us. exact (utf8_app_inv w _ (ascii_valid w (ws_ascii w Fw)) Us).
Qed.
Theorem trim_end_valid s : valid s -> valid (bytes_trim_end_m s).
Proof.
  intros Us. pose proof (proj1 (bytes_trim_end_correct s _) eq_refl) as (w & E & Fw & _).
  rewrite E in Us. exact (utf8_app_inv_l _ w (ascii_valid w (ws_ascii w Fw)) Us).
Qed.
Theorem trim_valid s : valid s -> valid (bytes_trim_m s).
Proof. intros Us. unfold bytes_trim_m. now apply trim_start_valid, trim_end_valid. Qed.

(* ------------------------------------------------------------ split pieces *)

Theorem split_pieces_valid d h ps : valid h -> valid d -> d <> [] -> split_rel d h ps -> Forall (fun p => valid p) ps.
Proof.
  intros Uh Ud Nd Hr. induction Hr as [h Hn | h i rest [Ho _] Hr IH]; [now constructor|].
  destruct (occ_valid h d i Uh Ud Nd Ho) as (H1 & H2 & _). constructor; [exact H1 | now apply IH].
Qed.
Theorem rsplit_pieces_valid d h ps : valid h -> valid d -> d <> [] -> rsplit_rel d h ps -> Forall (fun p => valid p) ps.
Proof.
  intros Uh Ud Nd Hr. induction Hr as [h Hn | h i rest [Ho _] Hr IH]; [now constructor|].
  destruct (occ_valid h d i Uh Ud Nd Ho) as (H1 & H2 & _). constructor; [exact H2 | now apply IH].
Qed.

(* ------------------------------------------------------------ Parser: remainder valid and on boundaries *)

Local Open Scope Z_scope.

(** patterns handed to the operations are [&str] / [char]: valid UTF-8 *)
Definition op_pat_valid (o : pop) : Prop :=
  match o with
  | OTrimMatches p | OTrimStartMatches p | OTrimEndMatches p | OStripPrefix p | OStripSuffix p
  | OFindSkip p | ORFindSkip p | OSplit p | ORSplit p | OSplitTerminator p | ORSplitTerminator p
  | OSplitKeep p => valid p
  | OSkip n | OSkipBack n => 0 <= n          (* byte counts are usize *)
  | _ => True
  end.

Lemma count_cont_skip l : valid l -> valid (skipn (count_cont l) l) -> True.
Proof. trivial. Qed.

(** a valid string cut at a char boundary gives valid halves (both directions of
    [boundary_iff_split]) *)
Lemma cut_valid s (k : nat) : valid s -> (k <= length s)%nat ->
  is_char_boundary_m s (Z.of_nat k) = true -> valid (firstn k s) /\ valid (skipn k s).
Proof.
  intros Us Hk B. apply (boundary_iff_split _ _ Us) in B; [|unfold zlen; lia].
  rewrite Nat2Z.id in B. now apply andb_true_iff in B.
Qed.

(* ---- the boundary scanners land on boundaries *)

Lemma icb_count_cont l : is_char_boundary_m l (Z.of_nat (count_cont l)) = true.
Proof.
  induction l as [|b r IH]; [reflexivity|]. cbn [count_cont].
  destruct (byte_is_boundary b) eqn:Eb.
  - unfold is_char_boundary_m. rewrite zlen_cons. pose proof (zlen_nonneg r).
    destruct (Z.eqb_spec (Z.of_nat 0) (zlen r + 1)); [reflexivity|].
    destruct (Z.ltb_spec (Z.of_nat 0) (zlen r + 1)); [|lia]. exact Eb.
  - change (b :: r) with ([b] ++ r). rewrite icb_app_r by (unfold zlen; cbn; lia).
    replace (Z.of_nat (S (count_cont r)) - zlen [b]) with (Z.of_nat (count_cont r)) by (unfold zlen; cbn; lia).
    exact IH.
Qed.

Lemma boundary_up_is_boundary s n : (n <= length s)%nat ->
  is_char_boundary_m s (Z.of_nat (boundary_up s n)) = true.
Proof.
  intros Hn. unfold boundary_up. rewrite <- (firstn_skipn n s) at 1.
  rewrite icb_app_r by (unfold zlen; rewrite firstn_length; lia).
  replace (Z.of_nat (n + count_cont (skipn n s)) - zlen (firstn n s)) with (Z.of_nat (count_cont (skipn n s)))
    by (unfold zlen; rewrite firstn_length; lia).
  apply icb_count_cont.
Qed.

Lemma count_cont_nth l : (count_cont l < length l)%nat -> byte_is_boundary (nth (count_cont l) l 0) = true.
Proof.
  induction l as [|b r IH]; cbn [count_cont length]; [lia|].
  destruct (byte_is_boundary b) eqn:Eb; [intros _; exact Eb|]. intros H. cbn [nth]. apply IH. lia.
Qed.

Lemma boundary_down_is_boundary s pos k : (pos <= length s)%nat ->
  boundary_down s pos = Some k -> (k <= length s)%nat /\ is_char_boundary_m s (Z.of_nat k) = true.
Proof.
  intros Hp. unfold boundary_down. destruct (Nat.leb_spec (length s) pos) as [H|H].
  - intros E; inversion E; subst k. split; [lia|]. unfold is_char_boundary_m.
    replace (Z.of_nat pos) with (zlen s) by (unfold zlen; lia). now rewrite Z.eqb_refl.
  - set (l := rev (firstn (S pos) s)). destruct (Nat.leb_spec (count_cont l) pos) as [Hk|Hk]; [|discriminate].
    intros E; inversion E; subst k. split; [lia|].
    assert (Ll : length l = S pos) by (unfold l; rewrite rev_length, firstn_length; lia).
    pose proof (count_cont_nth l ltac:(lia)) as B.
    unfold l in B at 2. rewrite rev_nth in B by (rewrite firstn_length; fold l; lia).
    rewrite firstn_length in B. replace (Nat.min (S pos) (length s)) with (S pos) in B by lia.
    fold l in B.
    assert (Hn : nth (S pos - S (count_cont l)) (firstn (S pos) s) 0 = nth (pos - count_cont l) s 0).
    { replace (S pos - S (count_cont l))%nat with (pos - count_cont l)%nat by lia.
      rewrite <- (firstn_skipn (S pos) s) at 2. rewrite app_nth1; [reflexivity|].
      rewrite firstn_length. lia. }
    rewrite Hn in B. unfold is_char_boundary_m, byte_at, zlen.
    destruct (Z.eqb_spec (Z.of_nat (pos - count_cont l)) (Z.of_nat (length s))); [reflexivity|].
    destruct (Z.ltb_spec (Z.of_nat (pos - count_cont l)) (Z.of_nat (length s))); [|lia].
    now rewrite Nat2Z.id.
Qed.

(* ---- integer / bool parsing consumes ASCII only *)

Definition is_ascii (b : Z) : Prop := 0 <= b <= 127.

Lemma digit_loop_consumes t : forall bytes num num' bytes',
  ParseInt.digit_loop t num bytes = Some (num', bytes') ->
  exists ds, bytes = ds ++ bytes' /\ Forall is_ascii ds.
Proof.
  induction bytes as [|b r IH]; intros num num' bytes' H; cbn [ParseInt.digit_loop] in H.
  - inversion H; subst. now exists [].
  - destruct (ParseInt.is_digit b) eqn:Ed.
    + destruct (ParseInt.overflowing_mul t num 10) as [nm om].
      destruct (ParseInt.overflowing_add t nm _) as [na oa].
      destruct (om || oa); [discriminate|].
      apply IH in H as (ds & -> & F). exists (b :: ds). split; [reflexivity|]. constructor; [|exact F].
      unfold ParseInt.is_digit in Ed. unfold is_ascii. lia.
    + inversion H; subst. now exists [].
Qed.

Lemma parse_int_consumes w sg s z rest :
  ParseInt.parse_int_m w sg s = ParseInt.POk (z, rest) -> exists c, s = c ++ rest /\ Forall is_ascii c.
Proof.
  unfold ParseInt.parse_int_m, ParseInt.parse_int_t.
  destruct (ParseInt.sign_arm _ s) as [isneg bytes] eqn:Es.
  destruct (ParseInt.first_digit _ bytes) as [[num b1]|] eqn:Ef; [|discriminate].
  destruct (ParseInt.digit_loop _ num b1) as [[num2 b2]|] eqn:Ed; [|discriminate].
  destruct (ParseInt.apply_sign _ isneg num2); [|discriminate].
  intro H; inversion H; subst z rest. clear H.
  assert (S1 : exists c1, s = c1 ++ bytes /\ Forall is_ascii c1).
  { unfold ParseInt.sign_arm in Es. destruct (ParseInt.ty_signed _).
    - destruct s as [|b s']; [inversion Es; subst; now exists []|].
      destruct (Z.eqb_spec b 45); inversion Es; subst.
      + exists [45]. split; [reflexivity|]. repeat constructor; unfold is_ascii; lia.
      + now exists [].
    - inversion Es; subst. now exists []. }
  assert (S2 : exists c2, bytes = c2 ++ b1 /\ Forall is_ascii c2).
  { unfold ParseInt.first_digit in Ef. destruct bytes as [|b r]; [discriminate|].
    destruct (ParseInt.is_digit b) eqn:Edg; [|discriminate]. inversion Ef; subst.
    exists [b]. split; [reflexivity|]. constructor; [|constructor]. unfold ParseInt.is_digit in Edg. unfold is_ascii. lia. }
  apply digit_loop_consumes in Ed as (c3 & E3 & F3).
  destruct S1 as (c1 & E1 & F1). destruct S2 as (c2 & E2 & F2).
  exists (c1 ++ c2 ++ c3). subst bytes b1. split.
  - unfold ParseInt.str_from. rewrite E1. rewrite !zlen_app.
    replace (Z.to_nat (zlen c1 + (zlen c2 + (zlen c3 + zlen b2)) - zlen b2)) with (length (c1 ++ c2 ++ c3))
      by (unfold zlen; rewrite !app_length; lia).
    replace (c1 ++ c2 ++ c3 ++ b2) with ((c1 ++ c2 ++ c3) ++ b2) by now rewrite <- !app_assoc.
    now rewrite skipn_app_exact.
  - apply Forall_app. split; [exact F1|]. apply Forall_app. now split.
Qed.

Lemma is_ascii_valid c : Forall is_ascii c -> valid c.
Proof. apply ascii_valid. Qed.

Lemma parse_int_valid w sg s z rest : valid s ->
  ParseInt.parse_int_m w sg s = ParseInt.POk (z, rest) -> valid rest.
Proof.
  intros Us H. apply parse_int_consumes in H as (c & -> & F). exact (utf8_app_inv c rest (is_ascii_valid c F) Us).
Qed.

Lemma parse_bool_valid s b rest : valid s ->
  ParseInt.parse_bool_m s = ParseInt.POk (b, rest) -> valid rest.
Proof.
  intros Us. unfold ParseInt.parse_bool_m.
  destruct (ParseInt.starts_with s [116; 114; 117; 101]) eqn:E1.
  - apply ParseIntProofs.starts_with_iff in E1 as [r ->]. intro H; inversion H; subst.
    unfold ParseInt.str_from. change (Z.to_nat 4) with 4%nat. cbn [app skipn].
    exact (utf8_app_inv [116; 114; 117; 101] r eq_refl Us).
  - destruct (ParseInt.starts_with s [102; 97; 108; 115; 101]) eqn:E2; [|discriminate].
    apply ParseIntProofs.starts_with_iff in E2 as [r ->]. intro H; inversion H; subst.
    unfold ParseInt.str_from. change (Z.to_nat 5) with 5%nat. cbn [app skipn].
    exact (utf8_app_inv [102; 97; 108; 115; 101] r eq_refl Us).
Qed.

(* ---- every operation leaves a valid remainder *)

Theorem step_remainder_valid p o v q :
  valid (p_str p) -> op_pat_valid o -> step p o = POk v q -> valid (p_str q).
Proof.
  intros Us Hp. destruct o; cbn [step op_pat_valid] in *;
    unfold op_start_trim, op_end_trim, frame, advance_start; cbn [keep set_dir p_str p_yls p_dir p_start].
  - (* skip *) intro H; inversion H; subst; cbn [p_str].
    set (bc := if zlen (p_str p) <? n then length (p_str p) else boundary_up (p_str p) (Z.to_nat n)).
    assert (Hbc : (bc <= length (p_str p))%nat /\ is_char_boundary_m (p_str p) (Z.of_nat bc) = true).
    { subst bc. destruct (Z.ltb_spec (zlen (p_str p)) n) as [Hl|Hl].
      - split; [lia|]. unfold is_char_boundary_m, zlen. now rewrite Z.eqb_refl.
      - assert (Hn : (Z.to_nat n <= length (p_str p))%nat) by (unfold zlen in Hl; lia).
        split; [|now apply boundary_up_is_boundary].
        unfold boundary_up. pose proof (count_cont_le (skipn (Z.to_nat n) (p_str p))) as Hc.
        rewrite skipn_length in Hc. lia. }
    now apply (cut_valid (p_str p) bc Us (proj1 Hbc) (proj2 Hbc)).
  - (* skip_back *)
    destruct (boundary_down (p_str p) _) as [k|] eqn:Ek; [|discriminate].
    intro H; inversion H; subst; cbn [p_str].
    apply boundary_down_is_boundary in Ek as [Hk Bk]; [|unfold zlen; lia].
    now apply (cut_valid (p_str p) k Us Hk Bk).
  - intro H; inversion H; subst; cbn [p_str]. now apply trim_end_valid, trim_start_valid.
  - intro H; inversion H; subst; cbn [p_str]. now apply trim_start_valid.
  - intro H; inversion H; subst; cbn [p_str]. now apply trim_end_valid.
  - intro H; inversion H; subst; cbn [p_str]. apply trim_end_matches_valid; [|exact Hp]. now apply trim_start_matches_valid.
  - intro H; inversion H; subst; cbn [p_str]. now apply trim_start_matches_valid.
  - intro H; inversion H; subst; cbn [p_str]. now apply trim_end_matches_valid.
  - destruct (strip_prefix_m (p_str p) pat) as [r|] eqn:E; intro H; inversion H; subst; cbn [p_str].
    exact (strip_prefix_valid _ _ _ Us Hp E).
  - destruct (strip_suffix_m (p_str p) pat) as [r|] eqn:E; intro H; inversion H; subst; cbn [p_str].
    exact (strip_suffix_valid _ _ _ Us Hp E).
  - destruct (find_skip_m (p_str p) pat) as [r|] eqn:E; intro H; inversion H; subst; cbn [p_str].
    exact (find_skip_valid _ _ _ Us Hp E).
  - destruct (rfind_skip_m (p_str p) pat) as [r|] eqn:E; intro H; inversion H; subst; cbn [p_str].
    exact (rfind_skip_valid _ _ _ Us Hp E).
  - destruct (p_yls p); [discriminate|].
    destruct (split_once_m (p_str p) d) as [[a b]|] eqn:E; intro H; inversion H; subst; cbn [p_str]; [|reflexivity].
    exact (proj2 (split_once_valid _ _ _ _ Us Hp E)).
  - destruct (p_yls p); [discriminate|].
    destruct (rsplit_once_m (p_str p) d) as [[a b]|] eqn:E; intro H; inversion H; subst; cbn [p_str]; [|reflexivity].
    exact (proj1 (rsplit_once_valid _ _ _ _ Us Hp E)).
  - destruct (p_str p) as [|c0 s0] eqn:Es; [discriminate|]. destruct (p_yls p); [discriminate|].
    destruct (split_once_m (c0 :: s0) d) as [[a b]|] eqn:E; intro H; inversion H; subst; cbn [p_str].
    exact (proj2 (split_once_valid _ _ _ _ Us Hp E)).
  - destruct (p_str p) as [|c0 s0] eqn:Es; [discriminate|]. destruct (p_yls p); [discriminate|].
    destruct (rsplit_once_m (c0 :: s0) d) as [[a b]|] eqn:E; intro H; inversion H; subst; cbn [p_str].
    exact (proj1 (rsplit_once_valid _ _ _ _ Us Hp E)).
  - destruct (p_yls p); [discriminate|].
    destruct (find_m (p_str p) d) as [pos|] eqn:E; intro H; inversion H; subst; cbn [p_str]; [|reflexivity].
    destruct d as [|c d'] eqn:Ed.
    + rewrite find_m_empty in E. inversion E; subst. exact Us.
    + rewrite <- Ed in *. assert (Nd : d <> []) by (rewrite Ed; discriminate).
      apply find_m_some in E as (i & -> & [Ho _]). rewrite Nat2Z.id.
      now apply (occ_valid (p_str p) d i Us Hp Nd Ho).
  - destruct (ParseInt.parse_int_m w sg (p_str p)) as [[z rest]|k] eqn:E; intro H; inversion H; subst; cbn [p_str].
    exact (parse_int_valid _ _ _ _ _ Us E).
  - destruct (ParseInt.parse_bool_m (p_str p)) as [[b rest]|k] eqn:E; intro H; inversion H; subst; cbn [p_str].
    exact (parse_bool_valid _ _ _ Us E).
Qed.

(* ---- hence both offsets are char boundaries of the original, after every step *)

(** C13's position invariant strengthened with the two boundary facts *)
Definition BInv (orig : list Z) (base : Z) (p : parser) : Prop :=
  exists off : nat,
    p_start p = base + Z.of_nat off /\
    (off + length (p_str p) <= length orig)%nat /\
    p_str p = sub orig off (length (p_str p)) /\
    is_char_boundary_m orig (Z.of_nat off) = true /\
    is_char_boundary_m orig (Z.of_nat (off + length (p_str p))) = true.

Lemma BInv_Inv orig base p : BInv orig base p -> Inv orig base p.
Proof. intros (off & H1 & H2 & H3 & _). exists off. auto. Qed.

Lemma sub_decompose orig off (r : list Z) : (off + length r <= length orig)%nat -> r = sub orig off (length r) ->
  orig = firstn off orig ++ r ++ skipn (off + length r) orig.
Proof.
  intros Hl Hr. unfold sub in Hr. rewrite <- (firstn_skipn off orig) at 1. f_equal.
  rewrite <- (firstn_skipn (length r) (skipn off orig)) at 1. rewrite <- Hr. f_equal. now rewrite skipn_add.
Qed.

(** the remainder of a parser that satisfies [BInv] is valid UTF-8 *)
Theorem binv_remainder_valid orig base p : valid orig -> BInv orig base p -> valid (p_str p).
Proof.
  intros Uo (off & _ & Hl & Hsub & B1 & B2).
  destruct (cut_valid orig (off + length (p_str p)) Uo ltac:(lia) B2) as [U1 _].
  pose proof (sub_decompose orig off (p_str p) Hl Hsub) as E.
  assert (E1 : firstn (off + length (p_str p)) orig = firstn off orig ++ p_str p).
  { rewrite E at 1. rewrite app_assoc. 
    replace (off + length (p_str p))%nat with (length (firstn off orig ++ p_str p))
      by (rewrite app_length, firstn_length; lia).
    apply firstn_app_exact. }
  rewrite E1 in U1. destruct (cut_valid orig off Uo ltac:(lia) B1) as [U0 _].
  exact (utf8_app_inv _ _ U0 U1).
Qed.

(** a valid non-empty sub-slice of a valid string sits on boundaries *)
Lemma sub_on_boundaries orig off (r : list Z) : valid orig -> valid r -> r <> [] ->
  (off + length r <= length orig)%nat -> r = sub orig off (length r) ->
  is_char_boundary_m orig (Z.of_nat off) = true /\ is_char_boundary_m orig (Z.of_nat (off + length r)) = true.
Proof.
  intros Uo Ur Nr Hl Hr. pose proof (sub_decompose orig off r Hl Hr) as E.
  pose proof (match_on_boundaries orig r _ _ Uo Ur Nr E) as [B1 B2].
  unfold zlen in B1, B2. rewrite firstn_length in B1, B2.
  replace (Nat.min off (length orig)) with off in B1, B2 by lia.
  split; [exact B1|]. now rewrite Nat2Z.inj_add.
Qed.

Lemma binv_suffix orig base p r d y :
  valid orig -> bounds orig base -> BInv orig base p -> is_suffix r (p_str p) -> valid r ->
  BInv orig base (mk_parser d y (u32 (p_start p + u32 (zlen (p_str p) - zlen r))) r).
Proof.
  intros Uo Hb Hp Hs Ur. pose proof (inv_suffix orig base p r d y Hb (BInv_Inv _ _ _ Hp) Hs) as (off' & H1 & H2 & H3).
  cbn [p_start p_str] in *. exists off'. cbn [p_start p_str]. split; [exact H1|]. split; [exact H2|]. split; [exact H3|].
  destruct r as [|c r'] eqn:Er.
  - (* everything was consumed: the position is the old end *)
    destruct Hp as (off & Hs0 & Hl & _ & _ & B2). destruct Hb as [Hb0 Hb1].
    assert (off' = off + length (p_str p))%nat.
    { unfold zlen in *. cbn [length] in H1. rewrite Hs0 in H1.
      rewrite (u32_small (Z.of_nat (length (p_str p)) - Z.of_nat 0)) in H1 by lia.
      rewrite u32_small in H1 by lia. lia. }
    subst off'. cbn [length]. rewrite Nat.add_0_r. auto.
  - rewrite <- Er in *. apply sub_on_boundaries; auto. rewrite Er; discriminate.
Qed.

Lemma binv_prefix orig base p r d y :
  valid orig -> BInv orig base p -> is_prefix r (p_str p) -> valid r ->
  BInv orig base (mk_parser d y (p_start p) r).
Proof.
  intros Uo Hp Hs Ur. pose proof (inv_prefix orig base p r d y (BInv_Inv _ _ _ Hp) Hs) as (off' & H1 & H2 & H3).
  cbn [p_start p_str] in *. exists off'. cbn [p_start p_str]. split; [exact H1|]. split; [exact H2|]. split; [exact H3|].
  destruct r as [|c r'] eqn:Er.
  - destruct Hp as (off & Hs0 & _ & _ & B1 & _). assert (off' = off) by lia. subst off'.
    cbn [length]. rewrite Nat.add_0_r. auto.
  - rewrite <- Er in *. apply sub_on_boundaries; auto. rewrite Er; discriminate.
Qed.

Lemma frame_start_binv orig base p body v q :
  valid orig -> bounds orig base -> BInv orig base p ->
  (forall q0 v0 s y, body q0 = Datatypes.inr (v0, s, y) -> p_str q0 = p_str p -> is_suffix s (p_str p) /\ valid s) ->
  frame FromStart p body = POk v q -> BInv orig base q.
Proof.
  intros Uo Hb Hi Hbody. unfold frame.
  destruct (body (set_dir p FromStart)) as [k | [[v0 s] y]] eqn:E; [discriminate|].
  intro H; inversion H; subst. unfold advance_start. cbn [p_dir p_yls p_start p_str set_dir].
  destruct (Hbody _ _ _ _ E eq_refl) as [Hs Us]. now apply binv_suffix.
Qed.

Lemma frame_end_binv orig base p body v q :
  valid orig -> BInv orig base p ->
  (forall q0 v0 s y, body q0 = Datatypes.inr (v0, s, y) -> p_str q0 = p_str p -> is_prefix s (p_str p) /\ valid s) ->
  frame FromEnd p body = POk v q -> BInv orig base q.
Proof.
  intros Uo Hi Hbody. unfold frame.
  destruct (body (set_dir p FromEnd)) as [k | [[v0 s] y]] eqn:E; [discriminate|].
  intro H; inversion H; subst. cbn [set_dir p_start].
  destruct (Hbody _ _ _ _ E eq_refl) as [Hs Us]. now apply binv_prefix.
Qed.

Theorem binv_init orig base : valid orig -> bounds orig base -> BInv orig base (parser_with_start_offset orig base).
Proof.
  intros Uo [Hb0 Hb1]. exists 0%nat. cbn [parser_with_start_offset p_start p_str]. unfold zlen in *.
  split; [rewrite u32_small; lia|]. split; [lia|]. split; [unfold sub; cbn [skipn]; now rewrite firstn_all|].
  split; [now apply boundary_0|]. cbn [Nat.add]. unfold is_char_boundary_m, zlen. now rewrite Z.eqb_refl.
Qed.

(** every operation keeps both offsets on char boundaries of the original *)
Theorem binv_step orig base p o v q :
  valid orig -> bounds orig base -> op_pat_valid o -> BInv orig base p ->
  step p o = POk v q -> BInv orig base q.
Proof.
  intros Uo Hb Hp Hi. pose proof (binv_remainder_valid orig base p Uo Hi) as Us.
  destruct o; cbn [step op_pat_valid] in *.
  - (* skip *) intro H; inversion H; subst.
    set (bc := if zlen (p_str p) <? n then length (p_str p) else boundary_up (p_str p) (Z.to_nat n)).
    assert (Hbc : (bc <= length (p_str p))%nat /\ is_char_boundary_m (p_str p) (Z.of_nat bc) = true).
    { subst bc. destruct (Z.ltb_spec (zlen (p_str p)) n) as [Hl|Hl].
      - split; [lia|]. unfold is_char_boundary_m, zlen. now rewrite Z.eqb_refl.
      - assert (Hn : (Z.to_nat n <= length (p_str p))%nat) by (unfold zlen in Hl; lia).
        split; [|now apply boundary_up_is_boundary].
        unfold boundary_up. pose proof (count_cont_le (skipn (Z.to_nat n) (p_str p))) as Hc.
        rewrite skipn_length in Hc. lia. }
    replace (Z.of_nat bc) with (zlen (p_str p) - zlen (skipn bc (p_str p)))
      by (unfold zlen; rewrite skipn_length; lia).
    apply binv_suffix; auto; [apply suffix_skipn|].
    now apply (cut_valid (p_str p) bc Us (proj1 Hbc) (proj2 Hbc)).
  - (* skip_back *) destruct (boundary_down (p_str p) _) as [k|] eqn:Ek; [|discriminate].
    intro H; inversion H; subst. apply boundary_down_is_boundary in Ek as [Hk Bk]; [|unfold zlen; lia].
    apply binv_prefix; auto; [apply prefix_firstn|]. now apply (cut_valid (p_str p) k Us Hk Bk).
  - (* trim *) unfold op_start_trim. 
    destruct (frame FromStart p (fun q0 => keep q0 VNone (bytes_trim_start_m (p_str q0)))) as [v1 q1| |] eqn:E1; try discriminate.
    intro H; inversion H; subst.
    assert (B1 : BInv orig base q1).
    { eapply frame_start_binv; eauto. intros q0 v0 s y E Hq; cbv beta in E. cbn [keep] in E. inversion E; subst. rewrite Hq.
      split; [apply trim_start_suffix | now apply trim_start_valid]. }
    pose proof (binv_remainder_valid orig base q1 Uo B1) as U1.
    apply binv_prefix; auto; [apply trim_end_prefix | now apply trim_end_valid].
  - unfold op_start_trim. intro H. eapply frame_start_binv; eauto.
    intros q0 v0 s y E Hq; cbv beta in E. cbn [keep] in E. inversion E; subst. rewrite Hq.
    split; [apply trim_start_suffix | now apply trim_start_valid].
  - unfold op_end_trim. intro H. eapply frame_end_binv; eauto.
    intros q0 v0 s y E Hq; cbv beta in E. cbn [keep] in E. inversion E; subst. rewrite Hq.
    split; [apply trim_end_prefix | now apply trim_end_valid].
  - (* trim_matches *) unfold op_start_trim.
    destruct (frame FromStart p _) as [v1 q1| |] eqn:E1; try discriminate.
    intro H; inversion H; subst.
    assert (B1 : BInv orig base q1).
    { eapply frame_start_binv; eauto. intros q0 v0 s y E Hq; cbv beta in E. cbn [keep] in E. inversion E; subst. rewrite Hq.
      split; [apply trim_start_matches_suffix | now apply trim_start_matches_valid]. }
    pose proof (binv_remainder_valid orig base q1 Uo B1) as U1.
    apply binv_prefix; auto; [apply trim_end_matches_prefix | now apply trim_end_matches_valid].
  - unfold op_start_trim. intro H. eapply frame_start_binv; eauto.
    intros q0 v0 s y E Hq; cbv beta in E. cbn [keep] in E. inversion E; subst. rewrite Hq.
    split; [apply trim_start_matches_suffix | now apply trim_start_matches_valid].
  - unfold op_end_trim. intro H. eapply frame_end_binv; eauto.
    intros q0 v0 s y E Hq; cbv beta in E. cbn [keep] in E. inversion E; subst. rewrite Hq.
    split; [apply trim_end_matches_prefix | now apply trim_end_matches_valid].
  - intro H. eapply frame_start_binv; eauto.
    intros q0 v0 s y E Hq; cbv beta in E. destruct (strip_prefix_m (p_str q0) pat) as [r|] eqn:Es; [|discriminate].
    cbn [keep] in E. inversion E; subst. rewrite Hq in Es. split; [|exact (strip_prefix_valid _ _ _ Us Hp Es)].
    apply strip_prefix_m_spec in Es. rewrite Es. now exists pat.
  - intro H. eapply frame_end_binv; eauto.
    intros q0 v0 s y E Hq; cbv beta in E. destruct (strip_suffix_m (p_str q0) pat) as [r|] eqn:Es; [|discriminate].
    cbn [keep] in E. inversion E; subst. rewrite Hq in Es. split; [|exact (strip_suffix_valid _ _ _ Us Hp Es)].
    apply strip_suffix_m_spec in Es. rewrite Es. now exists pat.
  - intro H. eapply frame_start_binv; eauto.
    intros q0 v0 s y E Hq; cbv beta in E. destruct (find_skip_m (p_str q0) pat) as [r|] eqn:Es; [|discriminate].
    cbn [keep] in E. inversion E; subst. rewrite Hq in Es.
    split; [exact (find_skip_suffix _ _ _ Es) | exact (find_skip_valid _ _ _ Us Hp Es)].
  - intro H. eapply frame_end_binv; eauto.
    intros q0 v0 s y E Hq; cbv beta in E. destruct (rfind_skip_m (p_str q0) pat) as [r|] eqn:Es; [|discriminate].
    cbn [keep] in E. inversion E; subst. rewrite Hq in Es.
    split; [exact (rfind_skip_prefix _ _ _ Es) | exact (rfind_skip_valid _ _ _ Us Hp Es)].
  - intro H. eapply frame_start_binv; eauto.
    intros q0 v0 s y E Hq; cbv beta in E. destruct (p_yls q0); [discriminate|]. rewrite Hq in E.
    destruct (split_once_m (p_str p) d) as [[a b]|] eqn:Es; inversion E; subst.
    + split; [exact (split_once_suffix _ _ _ _ Es) | exact (proj2 (split_once_valid _ _ _ _ Us Hp Es))].
    + split; [apply suffix_nil | reflexivity].
  - intro H. eapply frame_end_binv; eauto.
    intros q0 v0 s y E Hq; cbv beta in E. destruct (p_yls q0); [discriminate|]. rewrite Hq in E.
    destruct (rsplit_once_m (p_str p) d) as [[a b]|] eqn:Es; inversion E; subst.
    + split; [exact (rsplit_once_prefix _ _ _ _ Es) | exact (proj1 (rsplit_once_valid _ _ _ _ Us Hp Es))].
    + split; [apply prefix_nil | reflexivity].
  - intro H. eapply frame_start_binv; eauto.
    intros q0 v0 s y E Hq; cbv beta in E. rewrite Hq in E. destruct (p_str p) as [|c0 s0] eqn:Eq; [discriminate|].
    destruct (p_yls q0); [discriminate|].
    destruct (split_once_m (c0 :: s0) d) as [[a b]|] eqn:Es; [|discriminate]. inversion E; subst.
    split; [exact (split_once_suffix _ _ _ _ Es) | exact (proj2 (split_once_valid _ _ _ _ Us Hp Es))].
  - intro H. eapply frame_end_binv; eauto.
    intros q0 v0 s y E Hq; cbv beta in E. rewrite Hq in E. destruct (p_str p) as [|c0 s0] eqn:Eq; [discriminate|].
    destruct (p_yls q0); [discriminate|].
    destruct (rsplit_once_m (c0 :: s0) d) as [[a b]|] eqn:Es; [|discriminate]. inversion E; subst.
    split; [exact (rsplit_once_prefix _ _ _ _ Es) | exact (proj1 (rsplit_once_valid _ _ _ _ Us Hp Es))].
  - intro H. eapply frame_start_binv; eauto.
    intros q0 v0 s y E Hq; cbv beta in E. destruct (p_yls q0); [discriminate|]. rewrite Hq in E.
    destruct (find_m (p_str p) d) as [pos|] eqn:Es; inversion E; subst.
    + split; [apply suffix_skipn|]. destruct d as [|c d'] eqn:Ed.
      * rewrite find_m_empty in Es. inversion Es; subst. exact Us.
      * rewrite <- Ed in *. assert (Nd : d <> []) by (rewrite Ed; discriminate).
        apply find_m_some in Es as (i & -> & [Ho _]). rewrite Nat2Z.id.
        now apply (occ_valid (p_str p) d i Us Hp Nd Ho).
    + split; [apply suffix_nil | reflexivity].
  - intro H. eapply frame_start_binv; eauto.
    intros q0 v0 s y E Hq; cbv beta in E. rewrite Hq in E.
    destruct (ParseInt.parse_int_m w sg (p_str p)) as [[z rest]|k] eqn:Es; [|discriminate]. inversion E; subst.
    split; [exact (parse_int_suffix _ _ _ _ _ Es) | exact (parse_int_valid _ _ _ _ _ Us Es)].
  - intro H. eapply frame_start_binv; eauto.
    intros q0 v0 s y E Hq; cbv beta in E. rewrite Hq in E.
    destruct (ParseInt.parse_bool_m (p_str p)) as [[b rest]|k] eqn:Es; [|discriminate]. inversion E; subst.
    split; [exact (parse_bool_suffix _ _ _ Es) | exact (parse_bool_valid _ _ _ Us Es)].
Qed.

(** ... hence after EVERY sequence of operations (C13's missing half, and C01 for the Parser:
    every remainder handed out is valid UTF-8 on char boundaries of the original) *)
Fixpoint ops_valid (ops : list pop) : Prop :=
  match ops with [] => True | o :: r => op_pat_valid o /\ ops_valid r end.

Theorem binv_reachable orig base : valid orig -> bounds orig base -> forall ops p,
  ops_valid ops -> BInv orig base p ->
  Forall (fun r => match r with POk _ q => BInv orig base q /\ valid (p_str q) | _ => True end) (run_ops p ops).
Proof.
  intros Uo Hb. induction ops as [|o ops IH]; intros p Hv Hi; [constructor|].
  destruct Hv as [Ho Hv]. cbn [run_ops]. destruct (step p o) as [v q| e |] eqn:E.
  - pose proof (binv_step orig base p o v q Uo Hb Ho Hi E) as Bq.
    constructor; [split; [exact Bq | eapply binv_remainder_valid; eauto]|]. now apply IH.
  - repeat constructor.
  - repeat constructor.
Qed.

(** skip_back never underflows on a valid remainder *)
Theorem skip_back_no_panic p n : valid (p_str p) -> step p (OSkipBack n) <> PPanic.
Proof.
  intros Us. cbn [step]. destruct (boundary_down (p_str p) _) as [k|] eqn:E; [discriminate|].
  exfalso. unfold boundary_down in E.
  set (pos := Z.to_nat (Z.max 0 (zlen (p_str p) - n))) in *.
  destruct (Nat.leb_spec (length (p_str p)) pos); [discriminate|].
  set (l := rev (firstn (S pos) (p_str p))) in *.
  destruct (Nat.leb_spec (count_cont l) pos); [discriminate|].
  (* all of the first pos+1 bytes would be continuation bytes, but a valid string starts on a boundary *)
  assert (Ll : length l = S pos) by (unfold l; rewrite rev_length, firstn_length; lia).
  pose proof (count_cont_le l) as Hc. assert (Hall : count_cont l = S pos) by lia.
  assert (B0 : byte_is_boundary (nth 0 (p_str p) 0) = true).
  { pose proof (boundary_0 (p_str p) Us) as B. unfold is_char_boundary_m in B.
    destruct (Z.eqb_spec 0 (zlen (p_str p))); [unfold zlen in *; lia|].
    destruct (Z.ltb_spec 0 (zlen (p_str p))); [exact B | unfold zlen in *; lia]. }
  assert (Hlast : byte_is_boundary (nth pos l 0) = true).
  { unfold l. rewrite rev_nth by (rewrite firstn_length; lia). rewrite firstn_length.
    replace (Nat.min (S pos) (length (p_str p)) - S pos)%nat with 0%nat by lia.
    rewrite <- (firstn_skipn (S pos) (p_str p)) in B0. rewrite app_nth1 in B0 by (rewrite firstn_length; lia). exact B0. }
  clearbody l. clearbody pos. clear -Hall Hlast Ll. revert pos Hall Hlast Ll. induction l as [|b r IH]; intros pos Hall Hlast Ll; [cbn in Ll; lia|].
  cbn [count_cont] in Hall. destruct (byte_is_boundary b) eqn:Eb; [lia|].
  destruct pos as [|pos]; [cbn in Hlast; congruence|].
  cbn [nth] in Hlast. cbn [length] in Ll. apply (IH pos); lia || auto.
Qed.
