(** Reversing a double-ended iterator at ANY point of its iteration: after any history of front /
    back steps, `.rev()` of the state yields — under every further history — what popping the
    REVERSED rest of the deque yields.  Generic over the refinement of Base/Deque.v; instantiated
    for chars / char_indices (C07) and, for unbordered delimiters, the split iterators (C06). *)
From KV Require Import Base.Prelude Base.Deque.

(** what is left of a deque after a history *)
Fixpoint deque_rest {A} (h : list end_) (l : list A) : list A :=
  match h with
  | [] => l
  | Front :: h' => match l with [] => deque_rest h' l | _ :: r => deque_rest h' r end
  | Back :: h' => match pop_back l with None => deque_rest h' l | Some (_, r) => deque_rest h' r end
  end.

Section Anywhere.
  Variables St Item : Type.
  Variable next next_back : St -> option (Item * St).
  Variable abs : St -> list Item.
  Variable Inv : St -> Prop.
  Hypothesis next_ok : forall st, Inv st ->
    match next st with
    | None => abs st = []
    | Some (x, st') => abs st = x :: abs st' /\ Inv st'
    end.
  Hypothesis next_back_ok : forall st, Inv st ->
    match next_back st with
    | None => abs st = []
    | Some (x, st') => abs st = abs st' ++ [x] /\ Inv st'
    end.

  (** the state after a history (an exhausted iterator keeps its state) *)
  Fixpoint state_after (h : list end_) (st : St) : St :=
    match h with
    | [] => st
    | e :: h' =>
        match (match e with Front => next st | Back => next_back st end) with
        | None => state_after h' st
        | Some (_, st') => state_after h' st'
        end
    end.

  Lemma state_after_ok : forall h st, Inv st ->
    Inv (state_after h st) /\ abs (state_after h st) = deque_rest h (abs st).
  Proof.
    induction h as [|e h IH]; intros st I; [split; [exact I | reflexivity]|].
    cbn [state_after deque_rest]. destruct e.
    - pose proof (next_ok st I) as H. destruct (next st) as [[x st']|].
      + destruct H as [E I']. rewrite E. now apply IH.
      + rewrite H. rewrite <- H. now apply IH.
    - pose proof (next_back_ok st I) as H. destruct (next_back st) as [[x st']|].
      + destruct H as [E I']. rewrite E, pop_back_app. now apply IH.
      + rewrite H, pop_back_nil. rewrite <- H. now apply IH.
  Qed.

  (** after ANY history h1, the reversed iterator (next and next_back exchanged) under ANY
      history h2 pops the reversed rest *)
  Theorem rev_anywhere : forall h1 h2 st, Inv st ->
    run _ _ next_back next h2 (state_after h1 st) = deque_run h2 (rev (deque_rest h1 (abs st))).
  Proof.
    intros h1 h2 st I. destruct (state_after_ok h1 st I) as [I' E]. rewrite <- E.
    apply (run_refines _ _ next_back next (fun s => rev (abs s)) Inv); [| |exact I'].
    - intros s Is. pose proof (next_back_ok s Is) as H. destruct (next_back s) as [[x s']|].
      + destruct H as [Ex Is']. split; [|exact Is']. rewrite Ex, rev_app_distr. reflexivity.
      + now rewrite H.
    - intros s Is. pose proof (next_ok s Is) as H. destruct (next s) as [[x s']|].
      + destruct H as [Ex Is']. split; [|exact Is']. rewrite Ex. reflexivity.
      + now rewrite H.
  Qed.

  (** and the un-reversed iterator continues with the rest *)
  Theorem continue_anywhere : forall h1 h2 st, Inv st ->
    run _ _ next next_back h2 (state_after h1 st) = deque_run h2 (deque_rest h1 (abs st)).
  Proof.
    intros h1 h2 st I. destruct (state_after_ok h1 st I) as [I' E]. rewrite <- E.
    now apply (run_refines _ _ next next_back abs Inv).
  Qed.
End Anywhere.

(* ------------------------------------------------------------------ C07 *)
From KV Require Import Spec.Utf8 Model.Utf8 Model.Chars Proofs.CharsProofs.

Theorem chars_rev_anywhere s : utf8 s = true -> forall h1 h2,
  run _ _ chars_next_back' chars_next' h2 (state_after _ _ chars_next' chars_next_back' h1 (chars_init s))
  = deque_run h2 (rev (deque_rest h1 (chars s))).
Proof.
  intros U h1 h2.
  exact (rev_anywhere _ _ chars_next' chars_next_back' chars_abs chars_inv
           chars_next_ok chars_next_back_ok h1 h2 (chars_init s) U).
Qed.

Theorem char_indices_rev_anywhere s : utf8 s = true -> forall h1 h2,
  run _ _ cidx_next_back' cidx_next' h2 (state_after _ _ cidx_next' cidx_next_back' h1 (cidx_init s))
  = deque_run h2 (rev (deque_rest h1 (char_indices s))).
Proof.
  intros U h1 h2.
  rewrite (rev_anywhere _ _ cidx_next' cidx_next_back' cidx_abs cidx_inv
             cidx_next_ok cidx_next_back_ok h1 h2 (cidx_init s) U).
  unfold cidx_abs, cidx_init. cbn [i_this i_off]. now rewrite shift_0.
Qed.

(* ------------------------------------------------------------------ C06 (unbordered delimiters) *)
From KV Require Import Model.Search Spec.Search Model.Split Spec.Split Proofs.SplitDequeProofs.

Theorem split_rev_anywhere_deque d : unbordered d -> forall h1 h2 h,
  run _ _ (fun s => to_opt (split_next_back s)) (fun s => to_opt (split_next s)) h2
      (state_after _ _ (fun s => to_opt (split_next s)) (fun s => to_opt (split_next_back s)) h1 (split_init h d))
  = deque_run h2 (rev (deque_rest h1 (pieces d h))).
Proof.
  intros Hu h1 h2 h.
  assert (Hinit : split_init h d = mk_split h (SNormal d))
    by (unfold split_init; destruct d; [destruct Hu; congruence | reflexivity]).
  rewrite Hinit.
  exact (rev_anywhere _ _ (fun s => to_opt (split_next s)) (fun s => to_opt (split_next_back s))
           abs_split (InvD d) (front_ok d Hu) (back_ok d Hu) h1 h2 (mk_split h (SNormal d)) (or_introl eq_refl)).
Qed.
