From KV Require Import Base.Prelude Model.Utf8 Model.Search Spec.Search Proofs.SearchProofs
  Model.Trim Spec.Trim Proofs.TrimProofs Model.Split Spec.Split Proofs.SplitProofs Model.Parser.
Local Open Scope Z_scope.

(* ------------------------------------------------------------ sub-slices *)

Definition sub (orig : list Z) (off len : nat) : list Z := firstn len (skipn off orig).

(** C13's invariant: the remainder is the original string sliced from [start - base] to
    [end - base] *)
Definition Inv (orig : list Z) (base : Z) (p : parser) : Prop :=
  exists off : nat,
    p_start p = base + Z.of_nat off /\
    (off + length (p_str p) <= length orig)%nat /\
    p_str p = sub orig off (length (p_str p)).

Definition bounds (orig : list Z) (base : Z) : Prop := 0 <= base /\ base + zlen orig < 4294967296.

Lemma u32_small x : 0 <= x < 4294967296 -> u32 x = x.
Proof. intros H. unfold u32. now apply Z.mod_small. Qed.

Lemma skipn_add {A} b a (l : list A) : skipn a (skipn b l) = skipn (b + a) l.
Proof.
  revert l; induction b as [|b IH]; intros l; [reflexivity|].
  destruct l as [|x l]; [now rewrite !skipn_nil|]. cbn [Nat.add skipn]. apply IH.
Qed.

Lemma skipn_app_exact {A} (a r : list A) : skipn (length a) (a ++ r) = r.
Proof. rewrite skipn_app, skipn_all, Nat.sub_diag. reflexivity. Qed.
Lemma firstn_app_exact {A} (a r : list A) : firstn (length a) (a ++ r) = a.
Proof. rewrite firstn_app, firstn_all, Nat.sub_diag. cbn [firstn]. now rewrite app_nil_r. Qed.

Lemma sub_suffix orig off (s r a : list Z) :
  s = a ++ r -> (off + length s <= length orig)%nat -> s = sub orig off (length s) ->
  r = sub orig (off + length a) (length r).
Proof.
  intros -> Hb Hs. unfold sub in *. rewrite app_length in Hs.
  set (T := skipn off orig) in *.
  assert (HT : T = (a ++ r) ++ skipn (length a + length r) T).
  { rewrite Hs at 1. now rewrite firstn_skipn. }
  rewrite <- skipn_add. fold T. rewrite HT. rewrite <- app_assoc, skipn_app_exact, firstn_app_exact. reflexivity.
Qed.

Lemma sub_prefix orig off (s r b : list Z) :
  s = r ++ b -> s = sub orig off (length s) -> r = sub orig off (length r).
Proof.
  intros -> Hs. unfold sub in *. rewrite app_length in Hs.
  apply (f_equal (firstn (length r))) in Hs.
  rewrite firstn_app, firstn_all, Nat.sub_diag in Hs. cbn [firstn] in Hs. rewrite app_nil_r in Hs.
  rewrite firstn_firstn in Hs. replace (Nat.min (length r) (length r + length b)) with (length r) in Hs by lia.
  exact Hs.
Qed.

(** consuming from the front: new remainder is a suffix, start advances by what was removed *)
Lemma inv_suffix orig base p r d y :
  bounds orig base -> Inv orig base p -> is_suffix r (p_str p) ->
  Inv orig base (mk_parser d y (u32 (p_start p + u32 (zlen (p_str p) - zlen r))) r).
Proof.
  intros [Hb0 Hb1] (off & Hs & Hl & Hsub) [a Ha].
  exists (off + length a)%nat. cbn [p_start p_str].
  assert (Hlen : length (p_str p) = (length a + length r)%nat) by (rewrite Ha, app_length; lia).
  unfold zlen in *. split; [|split].
  - rewrite Hs. rewrite (u32_small (Z.of_nat (length (p_str p)) - Z.of_nat (length r))) by lia.
    rewrite u32_small by lia. lia.
  - lia.
  - eapply sub_suffix; eauto.
Qed.

(** consuming from the back: new remainder is a prefix, start unchanged *)
Lemma inv_prefix orig base p r d y :
  Inv orig base p -> is_prefix r (p_str p) -> Inv orig base (mk_parser d y (p_start p) r).
Proof.
  intros (off & Hs & Hl & Hsub) [b Hb]. exists off. cbn [p_start p_str].
  assert (Hlen : length (p_str p) = (length r + length b)%nat) by (rewrite Hb, app_length; lia).
  split; [exact Hs|]. split; [lia|]. eapply sub_prefix; eauto.
Qed.

(* ------------------------------------------------------------ where the free functions cut *)

Lemma suffix_refl {A} (l : list A) : is_suffix l l.
Proof. now exists []. Qed.
Lemma prefix_refl {A} (l : list A) : is_prefix l l.
Proof. exists []. now rewrite app_nil_r. Qed.
Lemma suffix_nil {A} (l : list A) : is_suffix [] l.
Proof. exists l. now rewrite app_nil_r. Qed.
Lemma prefix_nil {A} (l : list A) : is_prefix [] l.
Proof. now exists l. Qed.
Lemma suffix_skipn {A} n (l : list A) : is_suffix (skipn n l) l.
Proof. exists (firstn n l). now rewrite firstn_skipn. Qed.
Lemma prefix_firstn {A} n (l : list A) : is_prefix (firstn n l) l.
Proof. exists (skipn n l). now rewrite firstn_skipn. Qed.
Lemma suffix_trans {A} (a b c : list A) : is_suffix a b -> is_suffix b c -> is_suffix a c.
Proof. intros [x ->] [y ->]. exists (y ++ x). now rewrite app_assoc. Qed.

Lemma drop_while_suffix f l : is_suffix (drop_while f l) l.
Proof.
  induction l as [|x l IH]; [apply suffix_refl|]. cbn [drop_while]. destruct (f x); [|apply suffix_refl].
  destruct IH as [a Ha]. exists (x :: a). cbn [app]. now rewrite <- Ha.
Qed.

Lemma trim_start_suffix s : is_suffix (bytes_trim_start_m s) s.
Proof. rewrite bytes_trim_start_eq. apply drop_while_suffix. Qed.
Lemma trim_end_prefix s : is_prefix (bytes_trim_end_m s) s.
Proof.
  rewrite bytes_trim_end_eq.
  destruct (drop_while_suffix ascii_wsb (rev s)) as [a Ha]. exists (rev a).
  apply (f_equal (@rev Z)) in Ha. rewrite rev_involutive, rev_app_distr in Ha. exact Ha.
Qed.

Lemma is_suffix_rev' {A} (s l : list A) : is_suffix s l <-> is_prefix (rev s) (rev l).
Proof. apply is_suffix_rev. Qed.

Lemma trim_start_matches_suffix s pat :
  is_suffix (unwrap_trim (trim_start_matches_m s pat) s) s.
Proof.
  destruct pat as [|c pat'].
  - rewrite trim_start_matches_empty. apply suffix_refl.
  - destruct (trim_start_matches_total s (c :: pat')) as [r E]. rewrite E. cbn [unwrap_trim].
    apply trim_start_matches_correct in E as [k [Hk _]]; [|discriminate]. now exists (reps (c :: pat') k).
Qed.
Lemma trim_end_matches_prefix s pat :
  is_prefix (unwrap_trim (trim_end_matches_m s pat) s) s.
Proof.
  destruct pat as [|c pat'].
  - rewrite trim_end_matches_empty. apply prefix_refl.
  - destruct (trim_end_matches_total s (c :: pat')) as [r E]. rewrite E. cbn [unwrap_trim].
    apply trim_end_matches_correct in E as [k [Hk _]]; [|discriminate]. now exists (reps (c :: pat') k).
Qed.

Lemma find_skip_suffix h pat r : find_skip_m h pat = Some r -> is_suffix r h.
Proof.
  destruct pat as [|c pat']; cbn [find_skip_m]; intro H; [inversion H; apply suffix_refl|].
  apply (find_then_fwd_some true) in H as (k & _ & ->). apply suffix_skipn.
Qed.
Lemma rfind_skip_prefix h pat r : rfind_skip_m h pat = Some r -> is_prefix r h.
Proof.
  destruct pat as [|c pat'] eqn:E; cbn [rfind_skip_m]; intro H; [inversion H; apply prefix_refl|].
  rewrite <- E in H. assert (Hp : pat <> []) by (rewrite E; discriminate).
  change (option_map (@rev Z) (find_then_fwd true (rev h) (rev pat)) = Some r) in H.
  apply rfind_then_some in H as (i & _ & ->); [apply prefix_firstn | exact Hp].
Qed.
Lemma split_once_suffix h d a b : split_once_m h d = Some (a, b) -> is_suffix b h.
Proof.
  unfold split_once_m. destruct d as [|c d']; [intro H; inversion H; apply suffix_refl|].
  destruct (find_m h (c :: d')); [|discriminate]. intro H; inversion H. apply suffix_skipn.
Qed.
Lemma rsplit_once_prefix h d a b : rsplit_once_m h d = Some (a, b) -> is_prefix a h.
Proof.
  unfold rsplit_once_m. destruct d as [|c d']; [intro H; inversion H; apply prefix_refl|].
  destruct (rfind_m h (c :: d')); [|discriminate]. intro H; inversion H. apply prefix_firstn.
Qed.

Lemma parse_int_suffix w sg s z rest :
  ParseInt.parse_int_m w sg s = ParseInt.POk (z, rest) -> is_suffix rest s.
Proof.
  unfold ParseInt.parse_int_m, ParseInt.parse_int_t.
  destruct (ParseInt.sign_arm _ s) as [isneg bytes].
  destruct (ParseInt.first_digit _ bytes) as [[num b1]|]; [|discriminate].
  destruct (ParseInt.digit_loop _ num b1) as [[num2 b2]|]; [|discriminate].
  destruct (ParseInt.apply_sign _ isneg num2); [|discriminate].
  intro H; inversion H. unfold ParseInt.str_from. apply suffix_skipn.
Qed.
Lemma parse_bool_suffix s b rest :
  ParseInt.parse_bool_m s = ParseInt.POk (b, rest) -> is_suffix rest s.
Proof.
  unfold ParseInt.parse_bool_m.
  destruct (ParseInt.starts_with s _); [intro H; inversion H; apply suffix_skipn|].
  destruct (ParseInt.starts_with s _); [intro H; inversion H; apply suffix_skipn|discriminate].
Qed.

Lemma count_cont_le l : (count_cont l <= length l)%nat.
Proof. induction l as [|b l IH]; cbn [count_cont length]; [lia|]. destruct (byte_is_boundary b); lia. Qed.

(* ------------------------------------------------------------ C13: one step *)

Definition op_dir (o : pop) : pdir :=
  match o with
  | OSkip _ | OTrimStart | OTrimStartMatches _ | OStripPrefix _ | OFindSkip _
  | OSplit _ | OSplitTerminator _ | OSplitKeep _ | OParseInt _ _ | OParseBool => FromStart
  | OSkipBack _ | OTrimEnd | OTrimEndMatches _ | OStripSuffix _ | ORFindSkip _
  | ORSplit _ | ORSplitTerminator _ => FromEnd
  | OTrim | OTrimMatches _ => FromBoth
  end.
Definition from_end (o : pop) : bool := match op_dir o with FromEnd => true | _ => false end.

Definition step_post (orig : list Z) (base : Z) (p : parser) (o : pop) (r : pres) : Prop :=
  match r with
  | POk _ q => Inv orig base q /\ p_dir q = op_dir o
  | PErr e => err_offset e = (if from_end o then end_offset p else p_start p) /\ e_dir e = op_dir o
  | PPanic => True
  end.

Lemma frame_start_post orig base p o body :
  bounds orig base -> Inv orig base p -> op_dir o = FromStart ->
  (forall q v s y, body q = inr (v, s, y) -> p_str q = p_str p -> is_suffix s (p_str p)) ->
  step_post orig base p o (frame FromStart p body).
Proof.
  intros Hb Hi Hd Hbody. unfold frame, step_post.
  destruct (body (set_dir p FromStart)) as [k | [[v s] y]] eqn:E.
  - unfold from_end. rewrite Hd. cbn. auto.
  - split; [|now rewrite Hd]. unfold advance_start. cbn [p_dir p_yls p_start p_str set_dir].
    apply inv_suffix; [exact Hb | exact Hi |]. eapply Hbody; [exact E | reflexivity].
Qed.

Lemma frame_end_post orig base p o body :
  bounds orig base -> Inv orig base p -> op_dir o = FromEnd ->
  (forall q v s y, body q = inr (v, s, y) -> p_str q = p_str p -> is_prefix s (p_str p)) ->
  step_post orig base p o (frame FromEnd p body).
Proof.
  intros [Hb0 Hb1] Hi Hd Hbody. unfold frame, step_post.
  destruct (body (set_dir p FromEnd)) as [k | [[v s] y]] eqn:E.
  - unfold from_end. rewrite Hd. cbn [err_offset err_new e_dir e_end set_dir p_dir p_start p_str].
    split; [|reflexivity]. destruct Hi as (off & Hs & Hl & _). unfold end_offset, zlen in *.
    rewrite (u32_small (Z.of_nat (length (p_str p)))) by lia. rewrite u32_small by lia. reflexivity.
  - split; [|now rewrite Hd]. cbn [set_dir p_start]. apply inv_prefix; [exact Hi |]. eapply Hbody; [exact E | reflexivity].
Qed.

Theorem inv_step orig base p o :
  bounds orig base -> Inv orig base p -> step_post orig base p o (step p o).
Proof.
  intros Hb Hi. destruct o; cbn [step].
  - (* skip *) split; [|reflexivity].
    set (bc := if zlen (p_str p) <? n then length (p_str p) else boundary_up (p_str p) (Z.to_nat n)).
    assert (Hbc : (bc <= length (p_str p))%nat).
    { subst bc. destruct (Z.ltb_spec (zlen (p_str p)) n) as [H|H]; [lia|]. unfold boundary_up, zlen in *.
      pose proof (count_cont_le (skipn (Z.to_nat n) (p_str p))) as Hc. rewrite skipn_length in Hc. lia. }
    replace (Z.of_nat bc) with (zlen (p_str p) - zlen (skipn bc (p_str p)))
      by (unfold zlen; rewrite skipn_length; lia).
    apply inv_suffix; [exact Hb | exact Hi | apply suffix_skipn].
  - (* skip_back *) destruct (boundary_down (p_str p) _) as [k|]; [|exact I].
    split; [|reflexivity]. apply inv_prefix; [exact Hi | apply prefix_firstn].
  - (* trim *)
    pose proof (frame_start_post orig base p OTrimStart (fun q => keep q VNone (bytes_trim_start_m (p_str q))) Hb Hi eq_refl) as H.
    unfold op_start_trim. unfold frame in *. cbn [keep] in *.
    cbn [step_post] in *. destruct H as [Hq _].
    { intros q v s y E Hq. inversion E; subst. rewrite Hq. apply trim_start_suffix. }
    split; [|reflexivity]. eapply inv_prefix in Hq; [exact Hq | apply trim_end_prefix].
  - (* trim_start *) apply frame_start_post; auto.
    intros q v s y E Hq. inversion E; subst. rewrite Hq. apply trim_start_suffix.
  - (* trim_end *) apply frame_end_post; auto.
    intros q v s y E Hq. inversion E; subst. rewrite Hq. apply trim_end_prefix.
  - (* trim_matches *)
    pose proof (frame_start_post orig base p (OTrimStartMatches pat)
                  (fun q => keep q VNone (unwrap_trim (trim_start_matches_m (p_str q) pat) (p_str q))) Hb Hi eq_refl) as H.
    unfold op_start_trim. unfold frame in *. cbn [keep] in *.
    cbn [step_post] in *. destruct H as [Hq _].
    { intros q v s y E Hq. inversion E; subst. rewrite Hq. apply trim_start_matches_suffix. }
    split; [|reflexivity]. eapply inv_prefix in Hq; [exact Hq | apply trim_end_matches_prefix].
  - (* trim_start_matches *) apply frame_start_post; auto.
    intros q v s y E Hq. inversion E; subst. rewrite Hq. apply trim_start_matches_suffix.
  - (* trim_end_matches *) apply frame_end_post; auto.
    intros q v s y E Hq. inversion E; subst. rewrite Hq. apply trim_end_matches_prefix.
  - (* strip_prefix *) apply frame_start_post; auto.
    intros q v s y E Hq. destruct (strip_prefix_m (p_str q) pat) as [r|] eqn:Es; [|discriminate].
    inversion E; subst. apply strip_prefix_m_spec in Es. rewrite <- Hq, Es. now exists pat.
  - (* strip_suffix *) apply frame_end_post; auto.
    intros q v s y E Hq. destruct (strip_suffix_m (p_str q) pat) as [r|] eqn:Es; [|discriminate].
    inversion E; subst. apply strip_suffix_m_spec in Es. rewrite <- Hq, Es. now exists pat.
  - (* find_skip *) apply frame_start_post; auto.
    intros q v s y E Hq. destruct (find_skip_m (p_str q) pat) as [r|] eqn:Es; [|discriminate].
    inversion E; subst. rewrite <- Hq. eapply find_skip_suffix; eauto.
  - (* rfind_skip *) apply frame_end_post; auto.
    intros q v s y E Hq. destruct (rfind_skip_m (p_str q) pat) as [r|] eqn:Es; [|discriminate].
    inversion E; subst. rewrite <- Hq. eapply rfind_skip_prefix; eauto.
  - (* split *) apply frame_start_post; auto.
    intros q v s y E Hq. destruct (p_yls q); [discriminate|].
    destruct (split_once_m (p_str q) d) as [[a b]|] eqn:Es; inversion E; subst.
    + rewrite <- Hq. eapply split_once_suffix; eauto.
    + apply suffix_nil.
  - (* rsplit *) apply frame_end_post; auto.
    intros q v s y E Hq. destruct (p_yls q); [discriminate|].
    destruct (rsplit_once_m (p_str q) d) as [[a b]|] eqn:Es; inversion E; subst.
    + rewrite <- Hq. eapply rsplit_once_prefix; eauto.
    + apply prefix_nil.
  - (* split_terminator *) apply frame_start_post; auto.
    intros q v s y E Hq. destruct (p_str q) as [|c0 s0] eqn:Eq; [discriminate|].
    destruct (p_yls q); [discriminate|].
    destruct (split_once_m (c0 :: s0) d) as [[a b]|] eqn:Es; [|discriminate]. inversion E; subst.
    rewrite <- Hq. eapply split_once_suffix; eauto.
  - (* rsplit_terminator *) apply frame_end_post; auto.
    intros q v s y E Hq. destruct (p_str q) as [|c0 s0] eqn:Eq; [discriminate|].
    destruct (p_yls q); [discriminate|].
    destruct (rsplit_once_m (c0 :: s0) d) as [[a b]|] eqn:Es; [|discriminate]. inversion E; subst.
    rewrite <- Hq. eapply rsplit_once_prefix; eauto.
  - (* split_keep *) apply frame_start_post; auto.
    intros q v s y E Hq. destruct (p_yls q); [discriminate|].
    destruct (find_m (p_str q) d) as [pos|] eqn:Es; inversion E; subst.
    + rewrite <- Hq. apply suffix_skipn.
    + apply suffix_nil.
  - (* parse_int *) apply frame_start_post; auto.
    intros q v s y E Hq. rewrite <- Hq.
    destruct (ParseInt.parse_int_m w sg (p_str q)) as [[z rest]|k] eqn:Es; [|discriminate].
    inversion E; subst. eapply parse_int_suffix; eauto.
  - (* parse_bool *) apply frame_start_post; auto.
    intros q v s y E Hq. rewrite <- Hq.
    destruct (ParseInt.parse_bool_m (p_str q)) as [[b rest]|k] eqn:Es; [|discriminate].
    inversion E; subst. eapply parse_bool_suffix; eauto.
Qed.

Theorem inv_init orig base : bounds orig base -> Inv orig base (parser_with_start_offset orig base).
Proof.
  intros [Hb0 Hb1]. exists 0%nat. cbn [parser_with_start_offset p_start p_str]. unfold zlen in *.
  split; [rewrite u32_small; lia|]. split; [lia|]. unfold sub. cbn [skipn]. now rewrite firstn_all.
Qed.
Theorem inv_init_new orig : Inv orig 0 (parser_new orig).
Proof.
  exists 0%nat. cbn. split; [reflexivity|]. split; [lia|]. unfold sub. cbn [skipn]. now rewrite firstn_all.
Qed.

(** every state reached by any operation sequence satisfies the invariant, and every error
    reports the start (end) offset of the parser it was raised on *)
Fixpoint trace_ok (orig : list Z) (base : Z) (p : parser) (ops : list pop) (rs : list pres) : Prop :=
  match ops, rs with
  | [], [] => True
  | o :: ops', r :: rs' =>
      step_post orig base p o r /\
      match r with POk _ q => trace_ok orig base q ops' rs' | _ => rs' = [] end
  | _, _ => False
  end.

Theorem inv_reachable orig base : bounds orig base -> forall ops p,
  Inv orig base p -> trace_ok orig base p ops (run_ops p ops).
Proof.
  intros Hb. induction ops as [|o ops IH]; intros p Hi; [exact I|].
  cbn [run_ops]. pose proof (inv_step orig base p o Hb Hi) as H.
  destruct (step p o) as [v q| e |] eqn:E; cbn [trace_ok].
  - split; [exact H|]. apply IH. exact (proj1 H).
  - split; [exact H | reflexivity].
  - split; [exact I | reflexivity].
Qed.

(** the [as u32] casts make the hypothesis necessary: beyond 2^32 the offsets wrap *)
Theorem parser_offsets_wrap_refuted :
  exists base, p_start (parser_with_start_offset [97] base) <> base.
Proof. exists 4294967296. cbn. discriminate. Qed.

(* ------------------------------------------------------------ C14 *)

Definition remainder_of (r : pres) : option (list Z) :=
  match r with POk _ q => Some (p_str q) | _ => None end.

(** the free string function each operation corresponds to (on the remainder) *)
Definition free_fn (o : pop) (s : list Z) : option (list Z) :=
  match o with
  | OTrim => Some (bytes_trim_end_m (bytes_trim_start_m s))
  | OTrimStart => Some (bytes_trim_start_m s)
  | OTrimEnd => Some (bytes_trim_end_m s)
  | OTrimMatches pat =>
      let m := unwrap_trim (trim_start_matches_m s pat) s in Some (unwrap_trim (trim_end_matches_m m pat) m)
  | OTrimStartMatches pat => Some (unwrap_trim (trim_start_matches_m s pat) s)
  | OTrimEndMatches pat => Some (unwrap_trim (trim_end_matches_m s pat) s)
  | OStripPrefix pat => strip_prefix_m s pat
  | OStripSuffix pat => strip_suffix_m s pat
  | OFindSkip pat => find_skip_m s pat
  | ORFindSkip pat => rfind_skip_m s pat
  | OSplitTerminator d => option_map snd (split_once_m s d)
  | ORSplitTerminator d => option_map fst (rsplit_once_m s d)
  | OParseInt w sg =>
      match ParseInt.parse_int_m w sg s with ParseInt.POk (_, rest) => Some rest | ParseInt.PErr _ => None end
  | OParseBool =>
      match ParseInt.parse_bool_m s with ParseInt.POk (_, rest) => Some rest | ParseInt.PErr _ => None end
  | _ => None
  end.

Definition has_free_fn (o : pop) : bool :=
  match o with
  | OSkip _ | OSkipBack _ | OSplit _ | ORSplit _ | OSplitKeep _ => false
  | _ => true
  end.

(** each such operation leaves exactly the remainder the free function computes and
    succeeds exactly when it finds something (terminators: on a non-empty remainder that has
    not yielded its last piece) *)
Theorem op_remainder_eq p o :
  has_free_fn o = true ->
  (match o with OSplitTerminator _ | ORSplitTerminator _ => p_yls p = false /\ p_str p <> [] | _ => True end) ->
  remainder_of (step p o) = free_fn o (p_str p).
Proof.
  destruct o; cbn [has_free_fn]; try discriminate; intros _ Hc; cbn [step free_fn];
    unfold op_start_trim, op_end_trim, frame; cbn [keep set_dir p_str p_yls p_dir p_start remainder_of advance_start].
  - reflexivity.
  - reflexivity.
  - reflexivity.
  - reflexivity.
  - reflexivity.
  - reflexivity.
  - destruct (strip_prefix_m (p_str p) pat); reflexivity.
  - destruct (strip_suffix_m (p_str p) pat); reflexivity.
  - destruct (find_skip_m (p_str p) pat); reflexivity.
  - destruct (rfind_skip_m (p_str p) pat); reflexivity.
  - destruct Hc as [Hy Hs]. rewrite Hy. destruct (p_str p) as [|c s] eqn:E; [congruence|].
    destruct (split_once_m (c :: s) d) as [[a b]|]; reflexivity.
  - destruct Hc as [Hy Hs]. rewrite Hy. destruct (p_str p) as [|c s] eqn:E; [congruence|].
    destruct (rsplit_once_m (c :: s) d) as [[a b]|]; reflexivity.
  - destruct (ParseInt.parse_int_m w sg (p_str p)) as [[z rest]|k]; reflexivity.
  - destruct (ParseInt.parse_bool_m (p_str p)) as [[b rest]|k]; reflexivity.
Qed.

(** only the split family touches [yielded_last_split] *)
Definition is_split_op (o : pop) : bool :=
  match o with OSplit _ | ORSplit _ | OSplitTerminator _ | ORSplitTerminator _ | OSplitKeep _ => true | _ => false end.

Theorem flag_only_set_by_split p o v q :
  is_split_op o = false -> step p o = POk v q -> p_yls q = p_yls p.
Proof.
  destruct o; cbn [is_split_op]; try discriminate; intros _; cbn [step];
    unfold op_start_trim, op_end_trim, frame; cbn [keep set_dir p_str p_yls p_dir p_start advance_start].
  - intro H; inversion H; reflexivity.
  - destruct (boundary_down _ _); intro H; inversion H; reflexivity.
  - intro H; inversion H; reflexivity.
  - intro H; inversion H; reflexivity.
  - intro H; inversion H; reflexivity.
  - intro H; inversion H; reflexivity.
  - intro H; inversion H; reflexivity.
  - intro H; inversion H; reflexivity.
  - destruct (strip_prefix_m _ _); intro H; inversion H; reflexivity.
  - destruct (strip_suffix_m _ _); intro H; inversion H; reflexivity.
  - destruct (find_skip_m _ _); intro H; inversion H; reflexivity.
  - destruct (rfind_skip_m _ _); intro H; inversion H; reflexivity.
  - destruct (ParseInt.parse_int_m _ _ _) as [[z rest]|k]; intro H; inversion H; reflexivity.
  - destruct (ParseInt.parse_bool_m _) as [[b rest]|k]; intro H; inversion H; reflexivity.
Qed.

(** what a protocol run looks like from outside: pieces, then an error kind *)
Inductive pevent : Type := EvPiece (s : list Z) | EvErr (k : ekind) | EvOther.
Definition event_of (r : pres) : pevent :=
  match r with
  | POk (VPiece s) _ => EvPiece s
  | PErr e => EvErr (e_kind e)
  | _ => EvOther
  end.

Lemma split_once_of_first h d i : d <> [] -> first_occ h d i ->
  split_once_m h d = Some (firstn i h, skipn (i + length d) h).
Proof. intros Hd Hi. apply split_once_m_some; [exact Hd|]. exists i. auto. Qed.
Lemma rsplit_once_of_last h d i : d <> [] -> last_occ h d i ->
  rsplit_once_m h d = Some (firstn i h, skipn (i + length d) h).
Proof. intros Hd Hi. apply rsplit_once_m_some; [exact Hd|]. exists i. auto. Qed.

(** repeating [split] yields exactly str::split's pieces, then SplitExhausted *)
Theorem split_protocol d : d <> [] -> forall s ps, split_rel d s ps ->
  forall p, p_str p = s -> p_yls p = false ->
  map event_of (run_ops p (repeat (OSplit d) (length ps + 1)))
  = map EvPiece ps ++ [EvErr ESplitExhausted].
Proof.
  intros Hd s ps Hr. induction Hr as [h Hn | h i rest Hi Hr IH]; intros p Hs Hy.
  - cbn [length Nat.add repeat run_ops step]. unfold frame. cbn [set_dir p_yls p_str]. rewrite Hy, Hs.
    apply split_once_m_none in Hn; [|exact Hd]. rewrite Hn. cbn [run_ops step]. unfold frame. cbn. reflexivity.
  - cbn [length Nat.add repeat run_ops step]. unfold frame at 1. cbn [set_dir p_yls p_str]. rewrite Hy, Hs.
    rewrite (split_once_of_first h d i Hd Hi). cbn [map event_of app]. f_equal.
    apply IH; reflexivity.
Qed.

Theorem rsplit_protocol d : d <> [] -> forall s ps, rsplit_rel d s ps ->
  forall p, p_str p = s -> p_yls p = false ->
  map event_of (run_ops p (repeat (ORSplit d) (length ps + 1)))
  = map EvPiece ps ++ [EvErr ESplitExhausted].
Proof.
  intros Hd s ps Hr. induction Hr as [h Hn | h i rest Hi Hr IH]; intros p Hs Hy.
  - cbn [length Nat.add repeat run_ops step]. unfold frame. cbn [set_dir p_yls p_str]. rewrite Hy, Hs.
    apply rsplit_once_m_none in Hn; [|exact Hd]. rewrite Hn. cbn [run_ops step]. unfold frame. cbn. reflexivity.
  - cbn [length Nat.add repeat run_ops step]. unfold frame at 1. cbn [set_dir p_yls p_str]. rewrite Hy, Hs.
    rewrite (rsplit_once_of_last h d i Hd Hi). cbn [map event_of app]. f_equal.
    apply IH; reflexivity.
Qed.

(** non-vacuity *)
Example parser_example :
  map event_of (run_ops (parser_new [97;45;98]%Z) (repeat (OSplit [45]%Z) 3))
  = [EvPiece [97]%Z; EvPiece [98]%Z; EvErr ESplitExhausted].
Proof. reflexivity. Qed.

(* ------------------------------------------------------------ terminator protocols *)

Definition is_nil {A} (l : list A) : bool := match l with [] => true | _ => false end.

(** [split_terminator] repeated: every piece that is FOLLOWED by a delimiter, then an error:
    SplitExhausted when the input ended with the delimiter, DelimiterNotFound otherwise *)
Definition term_events (ps : list (list Z)) : list pevent :=
  map EvPiece (removelast ps) ++
  [EvErr (if is_nil (last ps []) && Nat.ltb 1 (length ps) then ESplitExhausted else EDelimiterNotFound)].

Lemma split_rel_nil_inv d ps : d <> [] -> split_rel d [] ps -> ps = [[]].
Proof.
  intros Hd H. inversion H; subst; [reflexivity|].
  match goal with H : first_occ [] d _ |- _ => destruct H as [Ho _]; apply occ_bound in Ho end.
  destruct d; [congruence | cbn in Ho; lia].
Qed.
Lemma rsplit_rel_nil_inv d ps : d <> [] -> rsplit_rel d [] ps -> ps = [[]].
Proof.
  intros Hd H. inversion H; subst; [reflexivity|].
  match goal with H : last_occ [] d _ |- _ => destruct H as [Ho _]; apply occ_bound in Ho end.
  destruct d; [congruence | cbn in Ho; lia].
Qed.

Lemma term_events_cons_nonnil x rest : rest <> [] -> (rest <> [[]]) ->
  (forall y, rest = [y] -> y <> []) ->
  term_events (x :: rest) = EvPiece x :: term_events rest.
Proof.
  intros Hne _ Hsingle. unfold term_events.
  destruct rest as [|y rest']; [congruence|].
  change (removelast (x :: y :: rest')) with (x :: removelast (y :: rest')).
  change (last (x :: y :: rest') []) with (last (y :: rest') []).
  cbn [map app]. f_equal. f_equal. f_equal. f_equal.
  destruct rest' as [|z rest''].
  - cbn. destruct y; [exfalso; exact (Hsingle [] eq_refl eq_refl)|reflexivity].
  - cbn [length]. destruct (is_nil (last (y :: z :: rest'') [])); reflexivity.
Qed.

Lemma run_ops_repeat_err p o n e : step p o = PErr e -> run_ops p (repeat o (S n)) = [PErr e].
Proof. intros H. cbn [repeat run_ops]. now rewrite H. Qed.

Theorem split_terminator_protocol d : d <> [] -> forall s ps, split_rel d s ps ->
  forall p n, p_str p = s -> p_yls p = false -> (length ps <= n)%nat ->
  map event_of (run_ops p (repeat (OSplitTerminator d) n)) = term_events ps.
Proof.
  intros Hd s ps Hr. induction Hr as [h Hn | h i rest Hi Hr IH]; intros p n Hs Hy Hlen.
  - destruct n as [|n]; [cbn in Hlen; lia|].
    cbn [repeat run_ops step]. unfold frame. cbn [set_dir p_yls p_str]. rewrite Hy, Hs.
    destruct h as [|c h'].
    + reflexivity.
    + apply split_once_m_none in Hn; [|exact Hd]. rewrite Hn. reflexivity.
  - destruct n as [|n]; [cbn in Hlen; lia|].
    pose proof (occ_bound _ _ _ (proj1 Hi)) as B.
    assert (Hdl : (length d > 0)%nat) by (destruct d; [congruence | cbn; lia]).
    destruct h as [|c h']; [cbn in B; lia|]. set (h := c :: h') in *.
    cbn [repeat run_ops step]. unfold frame at 1. cbn [set_dir p_yls p_str]. rewrite Hy, Hs.
    unfold h at 1. fold h. rewrite (split_once_of_first h d i Hd Hi).
    set (after := skipn (i + length d) h) in *.
    cbn [map event_of]. destruct after as [|a0 after'] eqn:Ea.
    + (* the input ended with the delimiter *)
      apply split_rel_nil_inv in Hr; [|exact Hd]. subst rest.
      destruct n as [|n]; [cbn in Hlen; lia|].
      cbn [repeat run_ops step]. unfold frame. cbn. reflexivity.
    + rewrite (IH _ n); [| reflexivity | reflexivity | cbn in Hlen; lia].
      symmetry. apply term_events_cons_nonnil.
      * eapply split_rel_nonempty; eauto.
      * intro E. subst rest. inversion Hr; subst.
        match goal with H : split_rel d _ [] |- _ => now apply split_rel_nonempty in H end.
      * intros y E. subst rest. inversion Hr; subst; [discriminate|].
        match goal with H : split_rel d _ [] |- _ => now apply split_rel_nonempty in H end.
Qed.

(** the mirror image for [rsplit_terminator]: every piece PRECEDED by a delimiter *)
Theorem rsplit_terminator_protocol d : d <> [] -> forall s ps, rsplit_rel d s ps ->
  forall p n, p_str p = s -> p_yls p = false -> (length ps <= n)%nat ->
  map event_of (run_ops p (repeat (ORSplitTerminator d) n)) = term_events ps.
Proof.
  intros Hd s ps Hr. induction Hr as [h Hn | h i rest Hi Hr IH]; intros p n Hs Hy Hlen.
  - destruct n as [|n]; [cbn in Hlen; lia|].
    cbn [repeat run_ops step]. unfold frame. cbn [set_dir p_yls p_str]. rewrite Hy, Hs.
    destruct h as [|c h'].
    + reflexivity.
    + apply rsplit_once_m_none in Hn; [|exact Hd]. rewrite Hn. reflexivity.
  - destruct n as [|n]; [cbn in Hlen; lia|].
    pose proof (occ_bound _ _ _ (proj1 Hi)) as B.
    assert (Hdl : (length d > 0)%nat) by (destruct d; [congruence | cbn; lia]).
    destruct h as [|c h']; [cbn in B; lia|]. set (h := c :: h') in *.
    cbn [repeat run_ops step]. unfold frame at 1. cbn [set_dir p_yls p_str]. rewrite Hy, Hs.
    unfold h at 1. fold h. rewrite (rsplit_once_of_last h d i Hd Hi).
    set (after := firstn i h) in *.
    cbn [map event_of]. destruct after as [|a0 after'] eqn:Ea.
    + apply rsplit_rel_nil_inv in Hr; [|exact Hd]. subst rest.
      destruct n as [|n]; [cbn in Hlen; lia|].
      cbn [repeat run_ops step]. unfold frame. cbn. reflexivity.
    + rewrite (IH _ n); [| reflexivity | reflexivity | cbn in Hlen; lia].
      symmetry. apply term_events_cons_nonnil.
      * eapply rsplit_rel_nonempty; eauto.
      * intro E. subst rest. inversion Hr; subst.
        match goal with H : rsplit_rel d _ [] |- _ => now apply rsplit_rel_nonempty in H end.
      * intros y E. subst rest. inversion Hr; subst; [discriminate|].
        match goal with H : rsplit_rel d _ [] |- _ => now apply rsplit_rel_nonempty in H end.
Qed.

Example terminator_example :
  map event_of (run_ops (parser_new [97;45;98;45]%Z) (repeat (OSplitTerminator [45]%Z) 5))
  = [EvPiece [97]%Z; EvPiece [98]%Z; EvErr ESplitExhausted] /\
  map event_of (run_ops (parser_new [97;45;98]%Z) (repeat (OSplitTerminator [45]%Z) 5))
  = [EvPiece [97]%Z; EvErr EDelimiterNotFound].
Proof. split; reflexivity. Qed.
