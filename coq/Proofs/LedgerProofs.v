(** C15 / C11 — proofs about Model/Ledger.v: representation invariants of ArrayConsumer and
    ArrayBuilder, one-step refinements, exactly-once accounting of whole histories. *)
From KV Require Import Base.Prelude Model.Ledger.
Local Open Scope nat_scope.

(* ------------------------------------------------------------------ slots *)

Lemma repeat_snoc {A} (x : A) n l : repeat x n ++ x :: l = repeat x (S n) ++ l.
Proof. induction n as [|n IH]; cbn in *; [reflexivity | now rewrite IH]. Qed.

Lemma read_slot_mid p i b : read_slot (p ++ Live i :: b) (length p) = Some i.
Proof.
  unfold read_slot. rewrite nth_error_app2 by lia. now rewrite Nat.sub_diag.
Qed.

Lemma read_slot_moved p b : read_slot (p ++ Moved :: b) (length p) = None.
Proof.
  unfold read_slot. rewrite nth_error_app2 by lia. now rewrite Nat.sub_diag.
Qed.

Lemma set_slot_mid p x b v : set_slot (p ++ x :: b) (length p) v = p ++ v :: b.
Proof. induction p as [|y p IH]; cbn; [reflexivity | now rewrite IH]. Qed.

Lemma set_slot_length s k v : length (set_slot s k v) = length s.
Proof. revert k; induction s as [|x r IH]; intros [|k]; cbn; auto. Qed.

Lemma read_range_live : forall l p b,
  read_range (p ++ map Live l ++ b) (length p) (length l) = Some l.
Proof.
  induction l as [|x r IH]; intros p b; cbn [read_range map length app]; [reflexivity|].
  rewrite read_slot_mid.
  replace (p ++ Live x :: map Live r ++ b) with ((p ++ [Live x]) ++ map Live r ++ b)
    by (now rewrite <- app_assoc).
  replace (S (length p)) with (length (p ++ [Live x])) by (rewrite app_length; cbn; lia).
  now rewrite IH.
Qed.

(** the ids a slot array owns *)
Definition slot_ids (s : list slot) : list Z :=
  flat_map (fun x => match x with Live i => [i] | Moved => [] end) s.

Lemma slot_ids_app a b : slot_ids (a ++ b) = slot_ids a ++ slot_ids b.
Proof. unfold slot_ids. now rewrite flat_map_app. Qed.
Lemma slot_ids_moved n : slot_ids (repeat Moved n) = [].
Proof. induction n; cbn; auto. Qed.
Lemma slot_ids_live l : slot_ids (map Live l) = l.
Proof. induction l as [|x r IH]; cbn; [reflexivity | now f_equal]. Qed.

(* ------------------------------------------------------------------ ArrayConsumer *)

(** the invariant: exactly the slots [taken_front, N - taken_back) are initialised;
    [live] are their ids, front to back *)
Definition c_rep (c : consumer) (live : list Z) : Prop :=
  c_slots c = repeat Moved (c_tf c) ++ map Live live ++ repeat Moved (c_tb c).

Lemma c_rep_len c live : c_rep c live ->
  c_cap c = c_tf c + length live + c_tb c /\ c_len c = length live.
Proof.
  unfold c_rep, c_len, c_cap. intros ->.
  rewrite !app_length, map_length, !repeat_length. lia.
Qed.

Lemma c_rep_ids c live : c_rep c live -> slot_ids (c_slots c) = live.
Proof.
  unfold c_rep. intros ->. now rewrite !slot_ids_app, !slot_ids_moved, slot_ids_live, app_nil_r.
Qed.

Lemma c_new_rep ids : c_rep (c_new ids) ids.
Proof. unfold c_rep, c_new; cbn. now rewrite app_nil_r. Qed.

Lemma c_empty_rep N : c_rep (c_empty N) [].
Proof. unfold c_rep, c_empty; cbn. now rewrite app_nil_r. Qed.

Lemma c_as_slice_rep c live : c_rep c live -> c_as_slice c = Some live.
Proof.
  intro H. unfold c_as_slice. destruct (c_rep_len _ _ H) as [_ ->]. rewrite H.
  pose proof (read_range_live live (repeat Moved (c_tf c)) (repeat Moved (c_tb c))) as R.
  rewrite repeat_length in R. exact R.
Qed.

Lemma c_drop_rep c live : c_rep c live -> c_drop c = Some (map Drop live).
Proof.
  intro H. unfold c_drop. pose proof (c_as_slice_rep _ _ H) as Hs. unfold c_as_slice in Hs.
  now rewrite Hs.
Qed.

Lemma c_next_rep_nil c : c_rep c [] -> c_next c = Some (None, c).
Proof.
  intro H. unfold c_next, c_is_empty. destruct (c_rep_len _ _ H) as [_ ->]. reflexivity.
Qed.

Lemma c_next_rep_cons c x r : c_rep c (x :: r) ->
  exists c', c_next c = Some (Some x, c') /\ c_rep c' r /\ c_cap c' = c_cap c.
Proof.
  intro H. unfold c_next, c_is_empty. destruct (c_rep_len _ _ H) as [_ ->]. cbn [length Nat.eqb].
  rewrite H. cbn [map app].
  pose proof (read_slot_mid (repeat Moved (c_tf c)) x (map Live r ++ repeat Moved (c_tb c))) as R.
  rewrite repeat_length in R. rewrite R.
  eexists. split; [reflexivity|]. split.
  - unfold c_rep. cbn [c_slots c_tf c_tb].
    pose proof (set_slot_mid (repeat Moved (c_tf c)) (Live x) (map Live r ++ repeat Moved (c_tb c)) Moved) as S.
    rewrite repeat_length in S. rewrite S. apply repeat_snoc.
  - unfold c_cap. cbn [c_slots]. rewrite set_slot_length. now rewrite H.
Qed.

Lemma c_next_back_rep_nil c : c_rep c [] -> c_next_back c = Some (None, c).
Proof.
  intro H. unfold c_next_back, c_is_empty. destruct (c_rep_len _ _ H) as [_ ->]. reflexivity.
Qed.

Lemma c_next_back_rep_snoc c r x : c_rep c (r ++ [x]) ->
  exists c', c_next_back c = Some (Some x, c') /\ c_rep c' r /\ c_cap c' = c_cap c.
Proof.
  intro H. unfold c_next_back, c_is_empty. destruct (c_rep_len _ _ H) as [Hcap ->].
  rewrite app_length in *. cbn [length] in *.
  replace (length r + 1 =? 0) with false by (symmetry; apply Nat.eqb_neq; lia).
  replace (c_cap c - c_tb c - 1) with (length (repeat Moved (c_tf c) ++ map Live r))
    by (rewrite app_length, map_length, repeat_length; lia).
  assert (Hs : c_slots c = (repeat Moved (c_tf c) ++ map Live r) ++ Live x :: repeat Moved (c_tb c)).
  { rewrite H, map_app. cbn [map]. now rewrite <- !app_assoc. }
  rewrite Hs, read_slot_mid.
  eexists. split; [reflexivity|]. split.
  - unfold c_rep. cbn [c_slots c_tf c_tb]. rewrite set_slot_mid, <- app_assoc. reflexivity.
  - unfold c_cap. cbn [c_slots]. now rewrite set_slot_length, <- Hs.
Qed.

(* ------------------------------------------------------------------ ArrayBuilder *)

(** the invariant: exactly the first [inited] slots are initialised *)
Definition b_rep (b : builder) (live : list Z) : Prop :=
  b_inited b = length live /\
  b_slots b = map Live live ++ repeat Moved (b_cap b - length live) /\
  length live <= b_cap b.

Lemma b_rep_ids b live : b_rep b live -> slot_ids (b_slots b) = live.
Proof.
  intros [_ [H _]]. now rewrite H, slot_ids_app, slot_ids_moved, slot_ids_live, app_nil_r.
Qed.

Lemma b_new_rep N : b_rep (b_new N) [].
Proof.
  unfold b_rep, b_new, b_cap; cbn. rewrite repeat_length, Nat.sub_0_r. repeat split; lia.
Qed.

Lemma b_as_slice_rep b live : b_rep b live -> b_as_slice b = Some live.
Proof.
  intros [Hi [Hs _]]. unfold b_as_slice. rewrite Hi, Hs. exact (read_range_live live [] _).
Qed.

Lemma b_drop_rep b live : b_rep b live -> b_drop b = Some (map Drop live).
Proof.
  intro H. unfold b_drop. pose proof (b_as_slice_rep _ _ H) as Hs. unfold b_as_slice in Hs.
  now rewrite Hs.
Qed.

Lemma b_push_rep_room b live x : b_rep b live -> length live < b_cap b ->
  exists b', b_push b x = (b', false) /\ b_rep b' (live ++ [x]) /\ b_cap b' = b_cap b.
Proof.
  intros [Hi [Hs Hle]] Hlt. unfold b_push. rewrite Hi.
  replace (length live <? b_cap b) with true by (symmetry; now apply Nat.ltb_lt).
  eexists. split; [reflexivity|].
  assert (Hcap : b_cap (mkB (set_slot (b_slots b) (length live) (Live x)) (S (length live))) = b_cap b).
  { unfold b_cap. cbn [b_slots]. now rewrite set_slot_length. }
  split; [|exact Hcap].
  unfold b_rep. rewrite Hcap. cbn [b_inited b_slots]. rewrite app_length. cbn [length].
  split; [lia|]. split; [|lia].
  rewrite Hs. replace (b_cap b - length live) with (S (b_cap b - (length live + 1))) by lia.
  cbn [repeat]. rewrite <- (map_length Live live) at 2. rewrite set_slot_mid, map_app. cbn [map].
  now rewrite <- app_assoc.
Qed.

Lemma b_push_rep_full b live x : b_rep b live -> length live = b_cap b -> b_push b x = (b, true).
Proof.
  intros [Hi _] He. unfold b_push. rewrite Hi, He, Nat.ltb_irrefl. reflexivity.
Qed.

Lemma b_build_rep b live : b_rep b live ->
  b_build b = if length live =? b_cap b then Some (Some live) else Some None.
Proof.
  intros [Hi [Hs Hle]]. unfold b_build, b_is_full. rewrite Hi.
  destruct (length live =? b_cap b) eqn:He; [|reflexivity].
  apply Nat.eqb_eq in He. rewrite Hs, <- He. rewrite Nat.sub_diag. cbn [repeat].
  pose proof (read_range_live live [] []) as R. cbn [app length] in R. now rewrite R.
Qed.

(** pushing [xs] one after the other *)
Fixpoint b_pushes (b : builder) (xs : list Z) : builder * bool :=
  match xs with
  | [] => (b, false)
  | x :: r => match b_push b x with
              | (b', false) => b_pushes b' r
              | (b', true) => (b', true)
              end
  end.

Lemma b_pushes_rep : forall xs b live, b_rep b live -> length live + length xs <= b_cap b ->
  exists b', b_pushes b xs = (b', false) /\ b_rep b' (live ++ xs) /\ b_cap b' = b_cap b.
Proof.
  induction xs as [|x r IH]; intros b live Hrep Hle; cbn [b_pushes length] in *.
  - exists b. rewrite app_nil_r. auto.
  - destruct (b_push_rep_room b live x Hrep) as [b1 [Hp [Hr1 Hc1]]]; [lia|]. rewrite Hp.
    destruct (IH b1 (live ++ [x]) Hr1) as [b2 [Hp2 [Hr2 Hc2]]].
    + rewrite app_length, Hc1. cbn [length]. lia.
    + exists b2. rewrite <- app_assoc in Hr2. cbn [app] in Hr2. split; [assumption|]. split; [assumption | congruence].
Qed.

(** [build] succeeds iff the builder is full; it returns exactly the pushed values in push
    order; over-filling panics on the extra push (the builder is unchanged); under-filling
    panics in [build] *)
Theorem builder_build_iff_full : forall b live, b_rep b live ->
  (b_build b = Some (Some live) <-> length live = b_cap b) /\
  (b_build b = Some None <-> length live <> b_cap b).
Proof.
  intros b live H. rewrite (b_build_rep _ _ H).
  destruct (length live =? b_cap b) eqn:He.
  - apply Nat.eqb_eq in He. split; split; intro; try assumption; try reflexivity; try discriminate.
    contradiction.
  - apply Nat.eqb_neq in He. split; split; intro; try assumption; try reflexivity; try discriminate.
    contradiction.
Qed.

Theorem builder_order : forall xs,
  exists b, b_pushes (b_new (length xs)) xs = (b, false) /\ b_build b = Some (Some xs).
Proof.
  intro xs.
  destruct (b_pushes_rep xs (b_new (length xs)) [] (b_new_rep _)) as [b [Hp [Hr Hc]]].
  - unfold b_cap, b_new; cbn. rewrite repeat_length. lia.
  - exists b. split; [assumption|]. cbn [app] in Hr. rewrite (b_build_rep _ _ Hr), Hc.
    unfold b_cap, b_new; cbn [b_slots]. now rewrite repeat_length, Nat.eqb_refl.
Qed.

Theorem builder_underfill_panics : forall xs N, length xs < N ->
  exists b, b_pushes (b_new N) xs = (b, false) /\ b_build b = Some None /\
            b_drop b = Some (map Drop xs).
Proof.
  intros xs N Hlt.
  assert (HN : b_cap (b_new N) = N) by (unfold b_cap, b_new; cbn; apply repeat_length).
  destruct (b_pushes_rep xs (b_new N) [] (b_new_rep _)) as [b [Hp [Hr Hc]]].
  - rewrite HN. cbn. lia.
  - exists b. split; [assumption|]. cbn [app] in Hr. rewrite (b_build_rep _ _ Hr), Hc, HN.
    replace (length xs =? N) with false by (symmetry; apply Nat.eqb_neq; lia).
    split; [reflexivity | now apply b_drop_rep].
Qed.

Theorem builder_overfill_panics : forall xs y,
  exists b, b_pushes (b_new (length xs)) xs = (b, false) /\ b_push b y = (b, true).
Proof.
  intros xs y.
  assert (HN : b_cap (b_new (length xs)) = length xs) by (unfold b_cap, b_new; cbn; apply repeat_length).
  destruct (b_pushes_rep xs (b_new (length xs)) [] (b_new_rep _)) as [b [Hp [Hr Hc]]].
  - rewrite HN. cbn. lia.
  - exists b. split; [assumption|]. cbn [app] in Hr. apply (b_push_rep_full b xs y Hr). congruence.
Qed.
