(** C15 / C11 — proofs about Model/Ledger.v: representation invariants of ArrayConsumer and
    ArrayBuilder, one-step refinements, exactly-once accounting of whole histories. *)
From KV Require Import Base.Prelude Model.Ledger Spec.ArrayMacros.
Local Open Scope nat_scope.

(* ------------------------------------------------------------------ slots *)

Lemma repeat_snoc {A} (x : A) n l : repeat x n ++ x :: l = repeat x (S n) ++ l.
Proof. induction n as [|n IH]; cbn in *; [reflexivity | now rewrite IH]. Qed.

Lemma read_slot_mid p i b : read_slot (p ++ Live i :: b) (length p) = Some i.
Proof.
  unfold read_slot. rewrite nth_error_app2 by lia. now rewrite Nat.sub_diag.
Qed.

Lemma read_slot_moved p b : read_slot (p ++ Moved :: b) (length p) = None.
Proof.
  unfold read_slot. rewrite nth_error_app2 by lia. now rewrite Nat.sub_diag.
Qed.

Lemma set_slot_mid p x b v : set_slot (p ++ x :: b) (length p) v = p ++ v :: b.
Proof. induction p as [|y p IH]; cbn; [reflexivity | now rewrite IH]. Qed.

Lemma set_slot_length s k v : length (set_slot s k v) = length s.
Proof. revert k; induction s as [|x r IH]; intros [|k]; cbn; auto. Qed.

Lemma read_range_live : forall l p b,
  read_range (p ++ map Live l ++ b) (length p) (length l) = Some l.
Proof.
  induction l as [|x r IH]; intros p b; cbn [read_range map length app]; [reflexivity|].
  rewrite read_slot_mid.
  replace (p ++ Live x :: map Live r ++ b) with ((p ++ [Live x]) ++ map Live r ++ b)
    by (now rewrite <- app_assoc).
  replace (S (length p)) with (length (p ++ [Live x])) by (rewrite app_length; cbn; lia).
  now rewrite IH.
Qed.

(** the ids a slot array owns *)
Definition slot_ids (s : list slot) : list Z :=
  flat_map (fun x => match x with Live i => [i] | Moved => [] end) s.

Lemma slot_ids_app a b : slot_ids (a ++ b) = slot_ids a ++ slot_ids b.
Proof. unfold slot_ids. now rewrite flat_map_app. Qed.
Lemma slot_ids_moved n : slot_ids (repeat Moved n) = [].
Proof. induction n; cbn; auto. Qed.
Lemma slot_ids_live l : slot_ids (map Live l) = l.
Proof. induction l as [|x r IH]; cbn; [reflexivity | now f_equal]. Qed.

(* ------------------------------------------------------------------ ArrayConsumer *)

(** the invariant: exactly the slots [taken_front, N - taken_back) are initialised;
    [live] are their ids, front to back *)
Definition c_rep (c : consumer) (live : list Z) : Prop :=
  c_slots c = repeat Moved (c_tf c) ++ map Live live ++ repeat Moved (c_tb c).

Lemma c_rep_len c live : c_rep c live ->
  c_cap c = c_tf c + length live + c_tb c /\ c_len c = length live.
Proof.
  unfold c_rep, c_len, c_cap. intros ->.
  rewrite !app_length, map_length, !repeat_length. lia.
Qed.

Lemma c_rep_ids c live : c_rep c live -> slot_ids (c_slots c) = live.
Proof.
  unfold c_rep. intros ->. now rewrite !slot_ids_app, !slot_ids_moved, slot_ids_live, app_nil_r.
Qed.

Lemma c_new_rep ids : c_rep (c_new ids) ids.
Proof. unfold c_rep, c_new; cbn. now rewrite app_nil_r. Qed.

Lemma c_empty_rep N : c_rep (c_empty N) [].
Proof. unfold c_rep, c_empty; cbn. now rewrite app_nil_r. Qed.

Lemma c_as_slice_rep c live : c_rep c live -> c_as_slice c = Some live.
Proof.
  intro H. unfold c_as_slice. destruct (c_rep_len _ _ H) as [_ ->]. rewrite H.
  pose proof (read_range_live live (repeat Moved (c_tf c)) (repeat Moved (c_tb c))) as R.
  rewrite repeat_length in R. exact R.
Qed.

Lemma c_drop_rep c live : c_rep c live -> c_drop c = Some (map Drop live).
Proof.
  intro H. unfold c_drop. pose proof (c_as_slice_rep _ _ H) as Hs. unfold c_as_slice in Hs.
  now rewrite Hs.
Qed.

Lemma c_next_rep_nil c : c_rep c [] -> c_next c = Some (None, c).
Proof.
  intro H. unfold c_next, c_is_empty. destruct (c_rep_len _ _ H) as [_ ->]. reflexivity.
Qed.

Lemma c_next_rep_cons c x r : c_rep c (x :: r) ->
  exists c', c_next c = Some (Some x, c') /\ c_rep c' r /\ c_cap c' = c_cap c.
Proof.
  intro H. unfold c_next, c_is_empty. destruct (c_rep_len _ _ H) as [_ ->]. cbn [length Nat.eqb].
  rewrite H. cbn [map app].
  pose proof (read_slot_mid (repeat Moved (c_tf c)) x (map Live r ++ repeat Moved (c_tb c))) as R.
  rewrite repeat_length in R. rewrite R.
  eexists. split; [reflexivity|]. split.
  - unfold c_rep. cbn [c_slots c_tf c_tb].
    pose proof (set_slot_mid (repeat Moved (c_tf c)) (Live x) (map Live r ++ repeat Moved (c_tb c)) Moved) as S.
    rewrite repeat_length in S. rewrite S. apply repeat_snoc.
  - unfold c_cap. cbn [c_slots]. rewrite set_slot_length. now rewrite H.
Qed.

Lemma c_next_back_rep_nil c : c_rep c [] -> c_next_back c = Some (None, c).
Proof.
  intro H. unfold c_next_back, c_is_empty. destruct (c_rep_len _ _ H) as [_ ->]. reflexivity.
Qed.

Lemma c_next_back_rep_snoc c r x : c_rep c (r ++ [x]) ->
  exists c', c_next_back c = Some (Some x, c') /\ c_rep c' r /\ c_cap c' = c_cap c.
Proof.
  intro H. unfold c_next_back, c_is_empty. destruct (c_rep_len _ _ H) as [Hcap ->].
  rewrite app_length in *. cbn [length] in *.
  replace (length r + 1 =? 0) with false by (symmetry; apply Nat.eqb_neq; lia).
  replace (c_cap c - c_tb c - 1) with (length (repeat Moved (c_tf c) ++ map Live r))
    by (rewrite app_length, map_length, repeat_length; lia).
  assert (Hs : c_slots c = (repeat Moved (c_tf c) ++ map Live r) ++ Live x :: repeat Moved (c_tb c)).
  { rewrite H, map_app. cbn [map]. now rewrite <- !app_assoc. }
  rewrite Hs, read_slot_mid.
  eexists. split; [reflexivity|]. split.
  - unfold c_rep. cbn [c_slots c_tf c_tb]. rewrite set_slot_mid, <- app_assoc. reflexivity.
  - unfold c_cap. cbn [c_slots]. now rewrite set_slot_length, <- Hs.
Qed.

(* ------------------------------------------------------------------ ArrayBuilder *)

(** the invariant: exactly the first [inited] slots are initialised *)
Definition b_rep (b : builder) (live : list Z) : Prop :=
  b_inited b = length live /\
  b_slots b = map Live live ++ repeat Moved (b_cap b - length live) /\
  length live <= b_cap b.

Lemma b_rep_ids b live : b_rep b live -> slot_ids (b_slots b) = live.
Proof.
  intros [_ [H _]]. now rewrite H, slot_ids_app, slot_ids_moved, slot_ids_live, app_nil_r.
Qed.

Lemma b_new_rep N : b_rep (b_new N) [].
Proof.
  unfold b_rep, b_new, b_cap; cbn. rewrite repeat_length, Nat.sub_0_r. repeat split; lia.
Qed.

Lemma b_as_slice_rep b live : b_rep b live -> b_as_slice b = Some live.
Proof.
  intros [Hi [Hs _]]. unfold b_as_slice. rewrite Hi, Hs. exact (read_range_live live [] _).
Qed.

Lemma b_drop_rep b live : b_rep b live -> b_drop b = Some (map Drop live).
Proof.
  intro H. unfold b_drop. pose proof (b_as_slice_rep _ _ H) as Hs. unfold b_as_slice in Hs.
  now rewrite Hs.
Qed.

Lemma b_push_rep_room b live x : b_rep b live -> length live < b_cap b ->
  exists b', b_push b x = (b', false) /\ b_rep b' (live ++ [x]) /\ b_cap b' = b_cap b.
Proof.
  intros [Hi [Hs Hle]] Hlt. unfold b_push. rewrite Hi.
  replace (length live <? b_cap b) with true by (symmetry; now apply Nat.ltb_lt).
  eexists. split; [reflexivity|].
  assert (Hcap : b_cap (mkB (set_slot (b_slots b) (length live) (Live x)) (S (length live))) = b_cap b).
  { unfold b_cap. cbn [b_slots]. now rewrite set_slot_length. }
  split; [|exact Hcap].
  unfold b_rep. rewrite Hcap. cbn [b_inited b_slots]. rewrite app_length. cbn [length].
  split; [lia|]. split; [|lia].
  rewrite Hs. replace (b_cap b - length live) with (S (b_cap b - (length live + 1))) by lia.
  cbn [repeat]. rewrite <- (map_length Live live) at 2. rewrite set_slot_mid, map_app. cbn [map].
  now rewrite <- app_assoc.
Qed.

Lemma b_push_rep_full b live x : b_rep b live -> length live = b_cap b -> b_push b x = (b, true).
Proof.
  intros [Hi _] He. unfold b_push. rewrite Hi, He, Nat.ltb_irrefl. reflexivity.
Qed.

Lemma b_build_rep b live : b_rep b live ->
  b_build b = if length live =? b_cap b then Some (Some live) else Some None.
Proof.
  intros [Hi [Hs Hle]]. unfold b_build, b_is_full. rewrite Hi.
  destruct (length live =? b_cap b) eqn:He; [|reflexivity].
  apply Nat.eqb_eq in He. rewrite Hs, <- He. rewrite Nat.sub_diag. cbn [repeat].
  pose proof (read_range_live live [] []) as R. cbn [app length] in R. now rewrite R.
Qed.

(** pushing [xs] one after the other *)
Fixpoint b_pushes (b : builder) (xs : list Z) : builder * bool :=
  match xs with
  | [] => (b, false)
  | x :: r => match b_push b x with
              | (b', false) => b_pushes b' r
              | (b', true) => (b', true)
              end
  end.

Lemma b_pushes_rep : forall xs b live, b_rep b live -> length live + length xs <= b_cap b ->
  exists b', b_pushes b xs = (b', false) /\ b_rep b' (live ++ xs) /\ b_cap b' = b_cap b.
Proof.
  induction xs as [|x r IH]; intros b live Hrep Hle; cbn [b_pushes length] in *.
  - exists b. rewrite app_nil_r. auto.
  - destruct (b_push_rep_room b live x Hrep) as [b1 [Hp [Hr1 Hc1]]]; [lia|]. rewrite Hp.
    destruct (IH b1 (live ++ [x]) Hr1) as [b2 [Hp2 [Hr2 Hc2]]].
    + rewrite app_length, Hc1. cbn [length]. lia.
    + exists b2. rewrite <- app_assoc in Hr2. cbn [app] in Hr2. split; [assumption|]. split; [assumption | congruence].
Qed.

(** [build] succeeds iff the builder is full; it returns exactly the pushed values in push
    order; over-filling panics on the extra push (the builder is unchanged); under-filling
    panics in [build] *)
Theorem builder_build_iff_full : forall b live, b_rep b live ->
  (b_build b = Some (Some live) <-> length live = b_cap b) /\
  (b_build b = Some None <-> length live <> b_cap b).
Proof.
  intros b live H. rewrite (b_build_rep _ _ H).
  destruct (length live =? b_cap b) eqn:He.
  - apply Nat.eqb_eq in He. split; split; intro; try assumption; try reflexivity; try discriminate.
    contradiction.
  - apply Nat.eqb_neq in He. split; split; intro; try assumption; try reflexivity; try discriminate.
    contradiction.
Qed.

Theorem builder_order : forall xs,
  exists b, b_pushes (b_new (length xs)) xs = (b, false) /\ b_build b = Some (Some xs).
Proof.
  intro xs.
  destruct (b_pushes_rep xs (b_new (length xs)) [] (b_new_rep _)) as [b [Hp [Hr Hc]]].
  - unfold b_cap, b_new; cbn. rewrite repeat_length. lia.
  - exists b. split; [assumption|]. cbn [app] in Hr. rewrite (b_build_rep _ _ Hr), Hc.
    unfold b_cap, b_new; cbn [b_slots]. now rewrite repeat_length, Nat.eqb_refl.
Qed.

Theorem builder_underfill_panics : forall xs N, length xs < N ->
  exists b, b_pushes (b_new N) xs = (b, false) /\ b_build b = Some None /\
            b_drop b = Some (map Drop xs).
Proof.
  intros xs N Hlt.
  assert (HN : b_cap (b_new N) = N) by (unfold b_cap, b_new; cbn; apply repeat_length).
  destruct (b_pushes_rep xs (b_new N) [] (b_new_rep _)) as [b [Hp [Hr Hc]]].
  - rewrite HN. cbn. lia.
  - exists b. split; [assumption|]. cbn [app] in Hr. rewrite (b_build_rep _ _ Hr), Hc, HN.
    replace (length xs =? N) with false by (symmetry; apply Nat.eqb_neq; lia).
    split; [reflexivity | now apply b_drop_rep].
Qed.

Theorem builder_overfill_panics : forall xs y,
  exists b, b_pushes (b_new (length xs)) xs = (b, false) /\ b_push b y = (b, true).
Proof.
  intros xs y.
  assert (HN : b_cap (b_new (length xs)) = length xs) by (unfold b_cap, b_new; cbn; apply repeat_length).
  destruct (b_pushes_rep xs (b_new (length xs)) [] (b_new_rep _)) as [b [Hp [Hr Hc]]].
  - rewrite HN. cbn. lia.
  - exists b. split; [assumption|]. cbn [app] in Hr. apply (b_push_rep_full b xs y Hr). congruence.
Qed.

(* ------------------------------------------------------------------ consumer histories *)

(** take from the front / from the back *)
Inductive cend : Type := Fr | Bk.

(** run a history of takes; returns the elements handed out from the front (in take order),
    those handed out from the back (in take order) and the consumer afterwards; [None] = UB.
    Taking from an exhausted consumer yields nothing and changes nothing. *)
Fixpoint c_takes (c : consumer) (h : list cend) : option (list Z * list Z * consumer) :=
  match h with
  | [] => Some ([], [], c)
  | e :: h' =>
      match (match e with Fr => c_next c | Bk => c_next_back c end) with
      | None => None
      | Some (o, c') =>
          match c_takes c' h' with
          | None => None
          | Some (fs, bs, c'') =>
              match o, e with
              | None, _ => Some (fs, bs, c'')
              | Some x, Fr => Some (x :: fs, bs, c'')
              | Some x, Bk => Some (fs, x :: bs, c'')
              end
          end
      end
  end.

Lemma list_snoc_cases {A} (l : list A) : l = [] \/ exists r x, l = r ++ [x].
Proof.
  destruct l as [|a l]; [now left | right]. destruct (exists_last (l := a :: l)) as [r [x H]];
    [discriminate | eauto].
Qed.

(** the invariant is preserved by every history, no take is UB, and the elements are
    partitioned: front takes are a prefix of the original order, back takes the reversed
    suffix, and what a final drop destroys is exactly the middle, in order *)
Theorem consumer_takes_partition : forall h c live, c_rep c live ->
  exists fs bs c' mid,
    c_takes c h = Some (fs, bs, c') /\ c_rep c' mid /\ c_cap c' = c_cap c /\
    live = fs ++ mid ++ rev bs /\
    c_drop c' = Some (map Drop mid).
Proof.
  induction h as [|e h IH]; intros c live Hrep.
  - exists [], [], c, live. cbn. rewrite app_nil_r. repeat split; auto using c_drop_rep.
  - cbn [c_takes]. destruct e.
    + destruct live as [|x r].
      * rewrite (c_next_rep_nil _ Hrep).
        destruct (IH c [] Hrep) as [fs [bs [c' [mid [Ht [Hr [Hc [Hl Hd]]]]]]]].
        rewrite Ht. exists fs, bs, c', mid. auto.
      * destruct (c_next_rep_cons _ _ _ Hrep) as [c1 [Hn [Hr1 Hc1]]]. rewrite Hn.
        destruct (IH c1 r Hr1) as [fs [bs [c' [mid [Ht [Hr [Hc [Hl Hd]]]]]]]].
        rewrite Ht. exists (x :: fs), bs, c', mid. repeat split; auto; try congruence.
        cbn. now rewrite Hl.
    + destruct (list_snoc_cases live) as [-> | [r [x ->]]].
      * rewrite (c_next_back_rep_nil _ Hrep).
        destruct (IH c [] Hrep) as [fs [bs [c' [mid [Ht [Hr [Hc [Hl Hd]]]]]]]].
        rewrite Ht. exists fs, bs, c', mid. auto.
      * destruct (c_next_back_rep_snoc _ _ _ Hrep) as [c1 [Hn [Hr1 Hc1]]]. rewrite Hn.
        destruct (IH c1 r Hr1) as [fs [bs [c' [mid [Ht [Hr [Hc [Hl Hd]]]]]]]].
        rewrite Ht. exists fs, (x :: bs), c', mid. repeat split; auto; try congruence.
        cbn [rev]. rewrite Hl, <- !app_assoc. reflexivity.
Qed.

(* ------------------------------------------------------------------ map_! / from_fn_! *)

(** [ys] are the values of consecutive evaluations k, k+1, .. of the body on [xs] *)
Fixpoint vals_from (clo : nat -> Z -> outcome) (k : nat) (xs ys : list Z) : Prop :=
  match xs, ys with
  | [], [] => True
  | x :: r, y :: t => clo k x = OValue y /\ vals_from clo (S k) r t
  | _, _ => False
  end.

Lemma vals_from_length clo : forall xs ys k, vals_from clo k xs ys -> length xs = length ys.
Proof.
  induction xs as [|x r IH]; intros [|y t] k H; cbn in *; try contradiction; try reflexivity.
  destruct H as [_ H]. f_equal. eauto.
Qed.

Definition tr_hands (track : bool) (l : list Z) : list event := if track then map Hand l else [].

(** the loop of [__array_map2__with_parsed_closure], started with [rest] still in the
    consumer and [outs] already in the builder: it never reads a moved-out slot, never runs
    out of fuel, and when it evaluates to an array, that array is full, consists of [outs]
    followed by one value per remaining element, produced by consecutive evaluations; every
    remaining input was handed to the closure exactly once, in order; nothing was dropped
    or leaked. *)
Lemma map_loop_inv : forall fuel clo track k c b ev rest outs,
  c_rep c rest -> b_rep b outs -> length outs + length rest <= b_cap b -> length rest < fuel ->
  match map_loop fuel clo track k c b ev with
  | (r, ev', leak) =>
      r <> MUB /\ r <> MDiverged /\
      (r = MReturned -> leak = []) /\
      (forall l, r = MBuilt l ->
         exists ys, l = outs ++ ys /\ vals_from clo k rest ys /\ length l = b_cap b /\
                    leak = [] /\ ev' = ev ++ tr_hands track rest ++ map Hand l)
  end.
Proof.
  induction fuel as [|fuel IH]; intros clo track k c b ev rest outs Hc Hb Hroom Hfuel; [lia|].
  cbn [map_loop]. destruct rest as [|x r].
  - (* exhausted: forget the (empty) consumer, build *)
    rewrite (c_next_rep_nil _ Hc). unfold map_finish.
    rewrite (c_as_slice_rep _ _ Hc), (b_build_rep _ _ Hb).
    destruct (length outs =? b_cap b) eqn:He.
    + repeat split; try discriminate. intros l Hl. inversion Hl; subst l.
      exists []. rewrite app_nil_r. apply Nat.eqb_eq in He. cbn. destruct track; cbn; auto.
    + rewrite (b_drop_rep _ _ Hb). repeat split; try discriminate.
  - destruct (c_next_rep_cons _ _ _ Hc) as [c1 [Hn [Hc1 Hcap1]]]. rewrite Hn.
    cbn [length] in *.
    destruct (clo k x) as [y| | | |] eqn:Hclo.
    + (* value: push *)
      destruct (b_push_rep_room b outs y Hb) as [b1 [Hp [Hb1 Hbc]]]; [lia|]. rewrite Hp.
      specialize (IH clo track (S k) c1 b1 (ev ++ in_ev track (Hand x)) r (outs ++ [y]) Hc1 Hb1).
      rewrite app_length, Hbc in IH. cbn [length] in IH.
      specialize (IH ltac:(lia) ltac:(lia)).
      destruct (map_loop fuel clo track (S k) c1 b1 (ev ++ in_ev track (Hand x))) as [[r' ev'] leak].
      destruct IH as [H1 [H2 [H3 H4]]]. repeat split; try assumption.
      intros l Hl. destruct (H4 l Hl) as [ys [Hys [Hv [Hlen [Hleak Hev]]]]].
      exists (y :: ys). rewrite <- app_assoc in Hys. cbn [app] in Hys.
      repeat split; try assumption. rewrite Hev, <- !app_assoc. f_equal.
      destruct track; reflexivity.
    + (* break: the rest of the consumer is forgotten; build panics (not full) *)
      unfold map_finish. rewrite (c_as_slice_rep _ _ Hc1), (b_build_rep _ _ Hb).
      replace (length outs =? b_cap b) with false by (symmetry; apply Nat.eqb_neq; lia).
      rewrite (b_drop_rep _ _ Hb). repeat split; try discriminate.
    + (* continue: the element is dropped, nothing is pushed; the builder ends under-full *)
      specialize (IH clo track (S k) c1 b (ev ++ in_ev track (Drop x)) r outs Hc1 Hb ltac:(lia) ltac:(lia)).
      destruct (map_loop fuel clo track (S k) c1 b (ev ++ in_ev track (Drop x))) as [[r' ev'] leak].
      destruct IH as [H1 [H2 [H3 H4]]]. repeat split; try assumption.
      intros l Hl. exfalso. destruct (H4 l Hl) as [ys [Hys [Hv [Hlen _]]]].
      apply vals_from_length in Hv. subst l. rewrite app_length in Hlen. lia.
    + unfold map_unwind. rewrite (b_drop_rep _ _ Hb), (c_drop_rep _ _ Hc1).
      repeat split; try discriminate.
    + unfold map_unwind. rewrite (b_drop_rep _ _ Hb), (c_drop_rep _ _ Hc1).
      repeat split; try discriminate.
Qed.

(** array::map_!: when it evaluates to an array, the array has the input's length, element i
    is what the i-th evaluation of the body produced from input element i, every input
    element was handed to the body exactly once, in order, the outputs are handed to the
    caller in order, and nothing was dropped or leaked. It never reads a moved-out slot. *)
Theorem map_by_val_built : forall clo ids,
  match map_by_val clo ids with
  | (r, ev, leak) =>
      r <> MUB /\ r <> MDiverged /\ (r = MReturned -> leak = []) /\
      (forall l, r = MBuilt l ->
         vals_from clo 0 ids l /\ length l = length ids /\ leak = [] /\
         ev = map Hand ids ++ map Hand l)
  end.
Proof.
  intros clo ids. unfold map_by_val.
  assert (Hcap : b_cap (b_new (length ids)) = length ids)
    by (unfold b_cap, b_new; cbn; apply repeat_length).
  pose proof (map_loop_inv (S (length ids)) clo true 0 (c_new ids) (b_new (length ids)) [] ids []
                (c_new_rep ids) (b_new_rep _)) as H.
  rewrite Hcap in H. specialize (H ltac:(cbn; lia) ltac:(lia)).
  destruct (map_loop (S (length ids)) clo true 0 (c_new ids) (b_new (length ids)) []) as [[r ev] leak].
  destruct H as [H1 [H2 [H3 H4]]]. repeat split; try assumption;
    destruct (H4 l H) as [ys [Hys [Hv [Hlen [Hleak Hev]]]]]; cbn [app] in *; subst; auto.
Qed.

Theorem from_fn_by_val_built : forall clo N,
  match from_fn_by_val clo N with
  | (r, ev, _) =>
      r <> MUB /\ r <> MDiverged /\
      (forall l, r = MBuilt l ->
         length l = N /\ ev = map Hand l /\
         vals_from (fun k _ => clo k (Z.of_nat k)) 0 (repeat 0%Z N) l)
  end.
Proof.
  intros clo N. unfold from_fn_by_val.
  assert (Hcap : b_cap (b_new N) = N) by (unfold b_cap, b_new; cbn; apply repeat_length).
  pose proof (map_loop_inv (S N) (fun k _ => clo k (Z.of_nat k)) false 0 (c_new (repeat 0%Z N))
                (b_new N) [] (repeat 0%Z N) [] (c_new_rep _) (b_new_rep _)) as H.
  rewrite Hcap, repeat_length in H. specialize (H ltac:(cbn; lia) ltac:(lia)).
  destruct (map_loop (S N) (fun k _ => clo k (Z.of_nat k)) false 0 (c_new (repeat 0%Z N)) (b_new N) [])
    as [[r ev] leak].
  destruct H as [H1 [H2 [H3 H4]]]. repeat split; try assumption;
    destruct (H4 l H) as [ys [Hys [Hv [Hlen [Hleak Hev]]]]]; cbn [app tr_hands] in *; subst; auto.
Qed.

(* ------------------------------------------------------------------ all values: = std *)

(** a body that always evaluates to a value: map_! completes and IS std's map; every input
    is handed to the closure once, in order, every output to the caller, nothing leaks *)
Lemma map_loop_values : forall fuel clo (g : nat -> Z -> Z) track k c b ev rest outs,
  (forall j x, clo j x = OValue (g j x)) ->
  c_rep c rest -> b_rep b outs -> length outs + length rest = b_cap b -> length rest < fuel ->
  map_loop fuel clo track k c b ev =
    (MBuilt (outs ++ mapi_from k g rest),
     ev ++ tr_hands track rest ++ map Hand (outs ++ mapi_from k g rest), []).
Proof.
  induction fuel as [|fuel IH]; intros clo g track k c b ev rest outs Hg Hc Hb Hroom Hfuel; [lia|].
  cbn [map_loop]. destruct rest as [|x r].
  - rewrite (c_next_rep_nil _ Hc). unfold map_finish.
    rewrite (c_as_slice_rep _ _ Hc), (b_build_rep _ _ Hb). cbn [length] in Hroom.
    replace (length outs =? b_cap b) with true by (symmetry; apply Nat.eqb_eq; lia).
    cbn [mapi_from]. rewrite app_nil_r. destruct track; reflexivity.
  - destruct (c_next_rep_cons _ _ _ Hc) as [c1 [Hn [Hc1 Hcap1]]]. rewrite Hn, Hg.
    cbn [length] in *.
    destruct (b_push_rep_room b outs (g k x) Hb) as [b1 [Hp [Hb1 Hbc]]]; [lia|]. rewrite Hp.
    rewrite (IH clo g track (S k) c1 b1 (ev ++ in_ev track (Hand x)) r (outs ++ [g k x]) Hg Hc1 Hb1).
    + cbn [mapi_from]. rewrite <- !app_assoc. cbn [app]. destruct track; reflexivity.
    + rewrite app_length, Hbc. cbn [length]. lia.
    + lia.
Qed.

Theorem map_by_val_eq_std : forall clo (g : nat -> Z -> Z) ids,
  (forall j x, clo j x = OValue (g j x)) ->
  map_by_val clo ids =
    (MBuilt (std_map g ids), map Hand ids ++ map Hand (std_map g ids), []).
Proof.
  intros clo g ids Hg. unfold map_by_val, std_map.
  rewrite (map_loop_values (S (length ids)) clo g true 0 (c_new ids) (b_new (length ids)) [] ids []
             Hg (c_new_rep ids) (b_new_rep _)); [reflexivity | | lia].
  unfold b_cap, b_new; cbn. now rewrite repeat_length.
Qed.

Lemma mapi_from_units (g : nat -> Z -> Z) : forall n k,
  mapi_from k (fun j (_ : Z) => g j (Z.of_nat j)) (repeat 0%Z n)
  = map (fun j => g j (Z.of_nat j)) (seq k n).
Proof. induction n as [|n IH]; intro k; cbn; [reflexivity | now rewrite IH]. Qed.

Theorem from_fn_by_val_eq_std : forall clo (g : nat -> Z -> Z) N,
  (forall j x, clo j x = OValue (g j x)) ->
  from_fn_by_val clo N =
    (MBuilt (map (fun j => g j (Z.of_nat j)) (seq 0 N)),
     map Hand (map (fun j => g j (Z.of_nat j)) (seq 0 N)), []).
Proof.
  intros clo g N Hg. unfold from_fn_by_val.
  rewrite (map_loop_values (S N) (fun k _ => clo k (Z.of_nat k)) (fun j _ => g j (Z.of_nat j)) false 0
             (c_new (repeat 0%Z N)) (b_new N) [] (repeat 0%Z N) []).
  - cbn [app tr_hands]. now rewrite mapi_from_units.
  - intros j x. apply Hg.
  - apply c_new_rep.
  - apply b_new_rep.
  - unfold b_cap, b_new; cbn. now rewrite !repeat_length.
  - rewrite repeat_length. lia.
Qed.
