(** Lemmas about Model/ParserMethod.v (property C18). *)
From KV Require Import Base.Prelude Model.ParserMethod Spec.Search Spec.ParserMethod.
Local Open Scope nat_scope.

Definition end_of (s : side) : end_ := match s with AtStart => Front | AtEnd => Back end.

(* ------------------------------------------------------------------ the slice patterns *)

(** the generated slice pattern [[b0, .., bn, rem @ ..]] matches exactly the byte
    strings that start with the literal, and binds [rem] to the rest *)
Lemma pat_start_spec lit : forall bytes r, pat_start lit bytes = Some r <-> bytes = lit ++ r.
Proof.
  induction lit as [|b lit IH]; intros bytes r; cbn [pat_start app].
  - split; intro H; [now inversion H | now subst].
  - destruct bytes as [|x bytes].
    + split; intro H; discriminate.
    + destruct (Z.eqb_spec x b) as [->|Hne].
      * rewrite IH. split; intro H; [now subst | now inversion H].
      * split; intro H; [discriminate | inversion H; contradiction].
Qed.

Lemma pat_end_spec lit bytes r : pat_end lit bytes = Some r <-> bytes = r ++ lit.
Proof.
  unfold pat_end. split.
  - destruct (pat_start (rev lit) (rev bytes)) as [r'|] eqn:E; cbn [option_map]; intro H; [|discriminate].
    inversion H; subst r. apply pat_start_spec in E.
    apply (f_equal (@rev Z)) in E. rewrite rev_involutive, rev_app_distr, rev_involutive in E. exact E.
  - intros ->. rewrite rev_app_distr.
    assert (E : pat_start (rev lit) (rev lit ++ rev r) = Some (rev r)) by now apply pat_start_spec.
    rewrite E. cbn [option_map]. now rewrite rev_involutive.
Qed.

Lemma pat_spec s lit bytes r : pat s lit bytes = Some r <-> splits (end_of s) lit bytes r.
Proof. destruct s; cbn [pat end_of splits]; [apply pat_start_spec | apply pat_end_spec]. Qed.

Lemma pat_none s lit bytes : pat s lit bytes = None <-> ~ matches (end_of s) lit bytes.
Proof.
  split.
  - intros H [r Hr]. apply pat_spec in Hr. congruence.
  - intro H. destruct (pat s lit bytes) as [r|] eqn:E; [|reflexivity].
    exfalso. apply H. exists r. now apply pat_spec.
Qed.

(* ------------------------------------------------------------------ the match: first listed *)

Lemma match_arms_some s arms : forall bytes i r,
  match_arms s arms bytes = Some (i, r) <->
  exists j a, first_listed (fun a => matches (end_of s) a bytes) arms j i a /\
              splits (end_of s) a bytes r.
Proof.
  induction arms as [|[i0 a0] t IH]; intros bytes i r; cbn [match_arms].
  - split; [discriminate|]. intros (j & a & (Hn & _) & _). destruct j; discriminate.
  - destruct (pat s a0 bytes) as [r0|] eqn:E.
    + split.
      * intro H; inversion H; subst i0 r0. exists 0, a0. split.
        -- split; [reflexivity|]. split; [exists r; now apply pat_spec|]. intros j' i' a' Hlt; lia.
        -- now apply pat_spec.
      * intros (j & a & (Hn & Hm & Hfirst) & Hs). destruct j as [|j].
        -- cbn [nth_error] in Hn. inversion Hn; subst i0 a0.
           apply pat_spec in Hs. congruence.
        -- exfalso. apply (Hfirst 0 i0 a0); [lia | reflexivity |]. exists r0. now apply pat_spec.
    + rewrite IH. apply pat_none in E. split.
      * intros (j & a & (Hn & Hm & Hfirst) & Hs). exists (S j), a. split; [|exact Hs].
        split; [exact Hn|]. split; [exact Hm|].
        intros j' i' a' Hlt Hn'. destruct j' as [|j'].
        -- cbn [nth_error] in Hn'. inversion Hn'; subst. exact E.
        -- apply (Hfirst j' i' a'); [lia | exact Hn'].
      * intros (j & a & (Hn & Hm & Hfirst) & Hs). destruct j as [|j].
        -- cbn [nth_error] in Hn. inversion Hn; subst. contradiction.
        -- exists j, a. split; [|exact Hs]. split; [exact Hn|]. split; [exact Hm|].
           intros j' i' a' Hlt Hn'. apply (Hfirst (S j') i' a'); [lia | exact Hn'].
Qed.

Lemma match_arms_none s arms : forall bytes,
  match_arms s arms bytes = None <-> none_listed (fun a => matches (end_of s) a bytes) arms.
Proof.
  induction arms as [|[i0 a0] t IH]; intros bytes; cbn [match_arms].
  - split; [intros _ i a []|reflexivity].
  - destruct (pat s a0 bytes) as [r0|] eqn:E.
    + split; [discriminate|]. intro H. exfalso. apply (H i0 a0); [now left|].
      exists r0. now apply pat_spec.
    + rewrite IH. apply pat_none in E. split.
      * intros H i a [Hin|Hin]; [inversion Hin; subst; exact E | now apply (H i a)].
      * intros H i a Hin. apply (H i a). now right.
Qed.

(* ------------------------------------------------------------------ the scan loops *)

(** both loops of __priv_pa_find_skip_either are instances of: try [f] on the
    list, on failure drop one element and retry, give up on the empty list *)
Fixpoint scan {X} (f : list Z -> option X) (l : list Z) : option X :=
  match f l with
  | Some x => Some x
  | None => match l with _ :: t => scan f t | [] => None end
  end.

Lemma find_loop_start_scan arms bytes :
  find_loop_start arms bytes = scan (match_arms AtStart arms) bytes.
Proof. induction bytes as [|b t IH]; cbn [find_loop_start scan]; [reflexivity | now rewrite IH]. Qed.

Lemma find_loop_end_scan arms rbytes :
  find_loop_end arms rbytes = scan (fun rb => match_arms AtEnd arms (rev rb)) rbytes.
Proof. induction rbytes as [|b t IH]; cbn [find_loop_end scan]; [reflexivity | now rewrite IH]. Qed.

(** [scan] returns [f] at the least number of dropped elements at which [f] succeeds *)
Lemma scan_some {X} (f : list Z -> option X) l x :
  scan f l = Some x <->
  exists k, k <= length l /\ f (skipn k l) = Some x /\ forall k', k' < k -> f (skipn k' l) = None.
Proof.
  induction l as [|b t IH]; cbn [scan].
  - destruct (f []) as [y|] eqn:E.
    + split.
      * intro H; inversion H; subst y. exists 0. cbn [skipn length]. split; [lia|]. split; [exact E|]. intros; lia.
      * intros (k & Hk & Hf & _). cbn [length] in Hk. assert (k = 0) by lia; subst k. cbn [skipn] in Hf. congruence.
    + split; [discriminate|]. intros (k & Hk & Hf & _). rewrite skipn_nil in Hf. congruence.
  - destruct (f (b :: t)) as [y|] eqn:E.
    + split.
      * intro H; inversion H; subst y. exists 0. cbn [skipn]. split; [lia|]. split; [exact E|]. intros; lia.
      * intros (k & Hk & Hf & Hmin). destruct k as [|k]; [cbn [skipn] in Hf; congruence|].
        specialize (Hmin 0 ltac:(lia)). cbn [skipn] in Hmin. congruence.
    + rewrite IH. split.
      * intros (k & Hk & Hf & Hmin). exists (S k). cbn [skipn length]. split; [lia|]. split; [exact Hf|].
        intros k' Hlt. destruct k' as [|k']; [exact E|]. cbn [skipn]. apply Hmin; lia.
      * intros (k & Hk & Hf & Hmin). destruct k as [|k]; [cbn [skipn] in Hf; congruence|].
        exists k. cbn [skipn length] in *. split; [lia|]. split; [exact Hf|].
        intros k' Hlt. apply (Hmin (S k')). lia.
Qed.

Lemma scan_none {X} (f : list Z -> option X) l :
  scan f l = None <-> forall k, k <= length l -> f (skipn k l) = None.
Proof.
  induction l as [|b t IH]; cbn [scan].
  - destruct (f []) as [y|] eqn:E.
    + split; [discriminate|]. intro H. specialize (H 0 ltac:(cbn; lia)). cbn [skipn] in H. congruence.
    + split; [|reflexivity]. intros _ k _. now rewrite skipn_nil.
  - destruct (f (b :: t)) as [y|] eqn:E.
    + split; [discriminate|]. intro H. specialize (H 0 ltac:(cbn; lia)). cbn [skipn] in H. congruence.
    + rewrite IH. split.
      * intros H k Hk. destruct k as [|k]; [exact E|]. cbn [skipn]. apply H. cbn [length] in Hk; lia.
      * intros H k Hk. apply (H (S k)). cbn [length]; lia.
Qed.

(* ------------------------------------------------------------------ occurrences *)

Lemma matches_front_occ a h k : k <= length h -> (matches Front a (skipn k h) <-> occ h a k).
Proof.
  intro Hk. unfold matches, splits, occ. split.
  - intros [r Hr]. exists (firstn k h), r. split.
    + rewrite <- Hr. symmetry. apply firstn_skipn.
    + apply firstn_length_le. exact Hk.
  - intros (x & y & Hh & Hlen). exists y. subst h k.
    now rewrite skipn_app, skipn_all, Nat.sub_diag.
Qed.

Lemma occ_le h a k : occ h a k -> k + length a <= length h.
Proof. intros (x & y & -> & <-). rewrite !app_length. lia. Qed.

Lemma matches_back_occ a h m :
  m <= length h ->
  (matches Back a (rev (skipn m (rev h))) <-> occ_end h a (length h - m)).
Proof.
  intro Hm.
  assert (E : rev (skipn m (rev h)) = firstn (length h - m) h).
  { rewrite skipn_rev, rev_involutive. reflexivity. }
  rewrite E. unfold matches, splits, occ_end, occ. split.
  - intros [r Hr]. exists (length r). split.
    + exists r, (skipn (length h - m) h). split; [|reflexivity].
      rewrite app_assoc, <- Hr. symmetry. apply firstn_skipn.
    + apply (f_equal (@length Z)) in Hr. rewrite app_length, firstn_length_le in Hr by lia. lia.
  - intros (k & (x & y & Hh & Hlen) & He). exists x. subst h.
    rewrite app_assoc. rewrite firstn_app.
    rewrite !app_length in *. 
    replace (length x + length a + length y - m - (length x + length a)) with 0 by lia.
    cbn [firstn]. rewrite app_nil_r. apply firstn_all2. rewrite app_length. lia.
Qed.

Lemma first_listed_ext (P Q : list Z -> Prop) arms j i a :
  (forall x, P x <-> Q x) -> (first_listed P arms j i a <-> first_listed Q arms j i a).
Proof.
  intro H. unfold first_listed. split; intros (Hn & Hp & Hf); (split; [exact Hn|]); (split; [now apply H|]);
    intros j' i' a' Hlt Hn' Hx; apply (Hf j' i' a' Hlt Hn'); now apply H.
Qed.

Lemma none_listed_ext (P Q : list Z -> Prop) arms :
  (forall x, P x <-> Q x) -> (none_listed P arms <-> none_listed Q arms).
Proof.
  intro H. unfold none_listed. split; intros Hn i a Hin Hx; apply (Hn i a Hin); now apply H.
Qed.

Lemma occ_rest h a k r : occ h a k -> (skipn k h = a ++ r <-> r = skipn (k + length a) h).
Proof.
  intros (x & y & -> & <-).
  rewrite skipn_app, skipn_all, Nat.sub_diag. cbn [skipn app].
  replace (length x + length a) with (length (x ++ a)) by now rewrite app_length.
  rewrite app_assoc, skipn_app, skipn_all, Nat.sub_diag. cbn [skipn app].
  split; [intro H; apply app_inv_head in H; now subst | now intros ->].
Qed.

(* ------------------------------------------------------------------ find_skip *)

Lemma find_loop_start_some arms bytes i r :
  find_loop_start arms bytes = Some (i, r) <->
  exists k j a, first_listed (fun a => occ bytes a k) arms j i a /\
                r = skipn (k + length a) bytes /\
                forall k', k' < k -> none_listed (fun a => occ bytes a k') arms.
Proof.
  rewrite find_loop_start_scan, scan_some. split.
  - intros (k & Hk & Hf & Hmin). apply match_arms_some in Hf. destruct Hf as (j & a & Hfl & Hs).
    cbn [end_of] in *. exists k, j, a.
    assert (Hfl' : first_listed (fun a => occ bytes a k) arms j i a).
    { eapply first_listed_ext; [|exact Hfl]. intro x. symmetry. now apply matches_front_occ. }
    split; [exact Hfl'|]. split.
    + destruct Hfl' as (_ & Hocc & _). cbn [splits] in Hs. now apply (occ_rest bytes a k r Hocc).
    + intros k' Hlt. specialize (Hmin k' Hlt). apply match_arms_none in Hmin. cbn [end_of] in Hmin.
      eapply none_listed_ext; [|exact Hmin]. intro x. symmetry. apply matches_front_occ. lia.
  - intros (k & j & a & Hfl & Hr & Hmin).
    assert (Hocc : occ bytes a k) by now destruct Hfl as (_ & H & _).
    assert (Hk : k <= length bytes) by (apply occ_le in Hocc; lia).
    exists k. split; [exact Hk|]. split.
    + apply match_arms_some. exists j, a. cbn [end_of]. split.
      * eapply first_listed_ext; [|exact Hfl]. intro x. now apply matches_front_occ.
      * cbn [splits]. now apply (occ_rest bytes a k r Hocc).
    + intros k' Hlt. apply match_arms_none. cbn [end_of].
      eapply none_listed_ext; [|exact (Hmin k' Hlt)]. intro x. apply matches_front_occ. lia.
Qed.

Lemma find_loop_start_none arms bytes :
  find_loop_start arms bytes = None <-> forall k, none_listed (fun a => occ bytes a k) arms.
Proof.
  rewrite find_loop_start_scan, scan_none. split.
  - intros H k i a Hin Hocc. assert (Hk : k <= length bytes) by (apply occ_le in Hocc; lia).
    specialize (H k Hk). apply match_arms_none in H. apply (H i a Hin). cbn [end_of]. now apply matches_front_occ.
  - intros H k Hk. apply match_arms_none. cbn [end_of].
    eapply none_listed_ext; [|exact (H k)]. intro x. now apply matches_front_occ.
Qed.

(* ------------------------------------------------------------------ rfind_skip *)

Lemma occ_end_le h a e : occ_end h a e -> length a <= e <= length h.
Proof. intros (k & Hocc & <-). apply occ_le in Hocc. lia. Qed.

Lemma occ_end_rest h a e r : occ_end h a e -> (firstn e h = r ++ a <-> r = firstn (e - length a) h).
Proof.
  intros (k & (x & y & -> & <-) & <-).
  replace (length x + length a) with (length (x ++ a)) by now rewrite app_length.
  rewrite app_assoc, firstn_app, firstn_all, Nat.sub_diag. cbn [firstn]. rewrite app_nil_r.
  rewrite app_length. replace (length x + length a - length a) with (length x) by lia.
  rewrite <- app_assoc, firstn_app, firstn_all, Nat.sub_diag. cbn [firstn]. rewrite app_nil_r.
  split; [intro H; apply app_inv_tail in H; now subst | now intros ->].
Qed.

Lemma find_loop_end_some arms bytes i r :
  find_loop_end arms (rev bytes) = Some (i, r) <->
  exists e j a, first_listed (fun a => occ_end bytes a e) arms j i a /\
                r = firstn (e - length a) bytes /\
                forall e', e < e' -> none_listed (fun a => occ_end bytes a e') arms.
Proof.
  assert (E : forall m, rev (skipn m (rev bytes)) = firstn (length bytes - m) bytes).
  { intro m. now rewrite skipn_rev, rev_involutive. }
  rewrite find_loop_end_scan, scan_some, rev_length. split.
  - intros (m & Hm & Hf & Hmin). apply match_arms_some in Hf. destruct Hf as (j & a & Hfl & Hs).
    cbn [end_of] in *. exists (length bytes - m), j, a.
    assert (Hfl' : first_listed (fun a => occ_end bytes a (length bytes - m)) arms j i a).
    { eapply first_listed_ext; [|exact Hfl]. intro x. symmetry. now apply matches_back_occ. }
    split; [exact Hfl'|]. split.
    + destruct Hfl' as (_ & Hocc & _). cbn [splits] in Hs. rewrite E in Hs.
      now apply (occ_end_rest bytes a _ r Hocc).
    + intros e' Hlt i' a' Hin Hocc. pose proof (occ_end_le _ _ _ Hocc) as Hle.
      specialize (Hmin (length bytes - e') ltac:(lia)). apply match_arms_none in Hmin. cbn [end_of] in Hmin.
      apply (Hmin i' a' Hin). apply matches_back_occ; [lia|].
      replace (length bytes - (length bytes - e')) with e' by lia. exact Hocc.
  - intros (e & j & a & Hfl & Hr & Hmin).
    assert (Hocc : occ_end bytes a e) by now destruct Hfl as (_ & H & _).
    pose proof (occ_end_le _ _ _ Hocc) as Hle.
    exists (length bytes - e). split; [lia|].
    assert (Hee : length bytes - (length bytes - e) = e) by lia. split.
    + apply match_arms_some. exists j, a. cbn [end_of]. split.
      * eapply first_listed_ext; [|exact Hfl]. intro x. rewrite matches_back_occ by lia. now rewrite Hee.
      * cbn [splits]. rewrite E, Hee. now apply (occ_end_rest bytes a e r Hocc).
    + intros m' Hlt. apply match_arms_none. cbn [end_of].
      eapply none_listed_ext; [|exact (Hmin (length bytes - m') ltac:(lia))].
      intro x. apply matches_back_occ. lia.
Qed.

Lemma find_loop_end_none arms bytes :
  find_loop_end arms (rev bytes) = None <-> forall e, none_listed (fun a => occ_end bytes a e) arms.
Proof.
  rewrite find_loop_end_scan, scan_none, rev_length. split.
  - intros H e i a Hin Hocc. pose proof (occ_end_le _ _ _ Hocc) as Hle.
    specialize (H (length bytes - e) ltac:(lia)). apply match_arms_none in H. apply (H i a Hin). cbn [end_of].
    apply matches_back_occ; [lia|]. now replace (length bytes - (length bytes - e)) with e by lia.
  - intros H m Hm. apply match_arms_none. cbn [end_of].
    eapply none_listed_ext; [|exact (H (length bytes - m))]. intro x. now apply matches_back_occ.
Qed.

(* ------------------------------------------------------------------ trim_*_matches *)

Lemma splits_len e a bytes r : splits e a bytes r -> length bytes = length a + length r.
Proof. destruct e; cbn [splits]; intros ->; rewrite app_length; lia. Qed.

Lemma trim_loop_sound s arms : forall fuel bytes out,
  trim_loop fuel s arms bytes = Some out -> trims (end_of s) arms bytes out.
Proof.
  induction fuel as [|f IH]; intros bytes out; cbn [trim_loop]; [discriminate|].
  destruct (match_arms s arms bytes) as [[i r]|] eqn:E.
  - apply match_arms_some in E. destruct E as (j & a & Hfl & Hs).
    pose proof (splits_len _ _ _ _ Hs) as Hlen.
    destruct (Z.eqb_spec (zlen r) (zlen bytes)) as [Heq|Hne].
    + intro H; inversion H; subst out.
      assert (a = []) by (unfold zlen in Heq; destruct a; [reflexivity | cbn [length] in Hlen; lia]).
      subst a. eapply trims_empty. exact Hfl.
    + intro H. eapply trims_step; [exact Hfl | | exact Hs | now apply IH].
      intros ->. apply Hne. unfold zlen. cbn [length] in Hlen. lia.
  - intro H; inversion H; subst out. apply trims_none. now apply match_arms_none.
Qed.

Lemma first_listed_unique P arms j i a j' i' a' :
  first_listed P arms j i a -> first_listed P arms j' i' a' -> j = j' /\ i = i' /\ a = a'.
Proof.
  intros (Hn & Hp & Hf) (Hn' & Hp' & Hf').
  destruct (Nat.lt_trichotomy j j') as [Hlt|[Heq|Hgt]].
  - exfalso. exact (Hf' j i a Hlt Hn Hp).
  - subst j'. rewrite Hn in Hn'. inversion Hn'. auto.
  - exfalso. exact (Hf j' i' a' Hgt Hn' Hp').
Qed.

Lemma first_listed_match s arms bytes j i a r :
  first_listed (fun a => matches (end_of s) a bytes) arms j i a -> splits (end_of s) a bytes r ->
  match_arms s arms bytes = Some (i, r).
Proof. intros Hfl Hs. apply match_arms_some. now exists j, a. Qed.

Lemma trim_loop_complete s arms : forall bytes out,
  trims (end_of s) arms bytes out -> forall fuel, length bytes < fuel ->
  trim_loop fuel s arms bytes = Some out.
Proof.
  intros bytes out H. induction H as [bytes Hn | bytes j i Hfl | bytes j i a r out Hfl Hne Hs Ht IH];
    intros fuel Hfuel; (destruct fuel as [|f]; [lia|]); cbn [trim_loop].
  - apply match_arms_none in Hn. now rewrite Hn.
  - assert (Hs : splits (end_of s) [] bytes bytes) by (destruct s; cbn; [reflexivity | now rewrite app_nil_r]).
    rewrite (first_listed_match _ _ _ _ _ _ _ Hfl Hs). now rewrite Z.eqb_refl.
  - rewrite (first_listed_match _ _ _ _ _ _ _ Hfl Hs).
    pose proof (splits_len _ _ _ _ Hs) as Hlen.
    destruct (Z.eqb_spec (zlen r) (zlen bytes)) as [Heq|Hneq].
    + exfalso. unfold zlen in Heq. destruct a; [contradiction | cbn [length] in Hlen; lia].
    + apply IH. destruct a; [contradiction | cbn [length] in Hlen; lia].
Qed.

(** the fuel the macro model uses always suffices, and the loop computes [trims] *)
Lemma trim_loop_iff s arms bytes out :
  trim_loop (S (length bytes)) s arms bytes = Some out <-> trims (end_of s) arms bytes out.
Proof. split; [apply trim_loop_sound | intro H; apply (trim_loop_complete s arms bytes out H); lia]. Qed.

Lemma trims_total e arms : forall n bytes, length bytes < n -> exists out, trims e arms bytes out.
Proof.
  intros n bytes Hn.
  destruct e.
  - destruct (trim_loop n AtStart arms bytes) as [out|] eqn:E.
    + exists out. now apply (trim_loop_sound AtStart) in E.
    + exfalso. revert bytes Hn E. induction n as [|n IH]; intros bytes Hn; [lia|]. cbn [trim_loop].
      destruct (match_arms AtStart arms bytes) as [[i r]|] eqn:E; [|discriminate].
      apply match_arms_some in E. destruct E as (j & a & _ & Hs). pose proof (splits_len _ _ _ _ Hs) as Hlen.
      destruct (Z.eqb_spec (zlen r) (zlen bytes)); [discriminate|]. apply IH.
      unfold zlen in *. lia.
  - destruct (trim_loop n AtEnd arms bytes) as [out|] eqn:E.
    + exists out. now apply (trim_loop_sound AtEnd) in E.
    + exfalso. revert bytes Hn E. induction n as [|n IH]; intros bytes Hn; [lia|]. cbn [trim_loop].
      destruct (match_arms AtEnd arms bytes) as [[i r]|] eqn:E; [|discriminate].
      apply match_arms_some in E. destruct E as (j & a & _ & Hs). pose proof (splits_len _ _ _ _ Hs) as Hlen.
      destruct (Z.eqb_spec (zlen r) (zlen bytes)); [discriminate|]. apply IH.
      unfold zlen in *. lia.
Qed.

(** the while-let never runs out of the fuel given by the macro model *)
Lemma trim_loop_fuel s arms bytes : exists out, trim_loop (S (length bytes)) s arms bytes = Some out.
Proof.
  destruct (trims_total (end_of s) arms (S (length bytes)) bytes ltac:(lia)) as [out H].
  exists out. now apply trim_loop_iff.
Qed.

Lemma trims_functional e arms bytes o1 o2 : trims e arms bytes o1 -> trims e arms bytes o2 -> o1 = o2.
Proof.
  intros H1 H2. destruct e.
  - apply (trim_loop_iff AtStart) in H1, H2. congruence.
  - apply (trim_loop_iff AtEnd) in H1, H2. congruence.
Qed.
