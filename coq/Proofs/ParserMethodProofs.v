(** Lemmas about Model/ParserMethod.v (property C18). *)
From KV Require Import Base.Prelude Model.ParserMethod.
Local Open Scope nat_scope.

(** the generated slice pattern [[b0, .., bn, rem @ ..]] matches exactly the byte
    strings that start with the literal, and binds [rem] to the rest *)
Lemma pat_start_spec lit : forall bytes r, pat_start lit bytes = Some r <-> bytes = lit ++ r.
Proof.
  induction lit as [|b lit IH]; intros bytes r; cbn [pat_start app].
  - split; intro H; [now inversion H | now subst].
  - destruct bytes as [|x bytes].
    + split; intro H; discriminate.
    + destruct (Z.eqb_spec x b) as [->|Hne].
      * rewrite IH. split; intro H; [now subst | now inversion H].
      * split; intro H; [discriminate | inversion H; contradiction].
Qed.
