(** Proofs for C12: the model of [parse_integer!] / [parse_bool] / the whole-string wrappers
    equals the specification, for every string and every width [w >= 4]. *)
From KV Require Import Base.Prelude Model.ParseInt Spec.ParseInt.

(* ------------------------------------------------------------------ digits *)

Lemma is_digit_digitb b : is_digit b = digitb b.
Proof. reflexivity. Qed.

Lemma digitb_true b : digitb b = true <-> digit b.
Proof. unfold digitb, digit. lia. Qed.

Lemma digitb_false b : digitb b = false <-> ~ digit b.
Proof. unfold digitb, digit. lia. Qed.

Lemma forallb_digitb ds : forallb digitb ds = true <-> Forall digit ds.
Proof.
  rewrite forallb_forall, Forall_forall. split; intros H x Hx.
  - apply digitb_true, H, Hx.
  - apply digitb_true, H, Hx.
Qed.

Lemma digits_val_from_cons acc d ds :
  digits_val_from acc (d :: ds) = digits_val_from (10 * acc + (d - 48)) ds.
Proof. reflexivity. Qed.

Lemma digits_val_cons d ds : digits_val (d :: ds) = digits_val_from (d - 48) ds.
Proof.
  unfold digits_val. rewrite digits_val_from_cons. f_equal; try lia.
Qed.

Lemma digits_val_from_ge ds : forall acc,
  Forall digit ds -> 0 <= acc -> acc <= digits_val_from acc ds.
Proof.
  induction ds as [|d ds IH]; intros acc Hd Hacc.
  - cbn. lia.
  - rewrite digits_val_from_cons. inversion Hd as [|? ? Hd1 Hd2]; subst.
    unfold digit in Hd1. specialize (IH (10 * acc + (d - 48)) Hd2). lia.
Qed.

Lemma digits_val_nonneg ds : Forall digit ds -> 0 <= digits_val ds.
Proof. intro H. apply (digits_val_from_ge ds 0 H). lia. Qed.

(* ------------------------------------------------------------------ span_digits *)

Lemma span_digits_app s : s = fst (span_digits s) ++ snd (span_digits s).
Proof.
  induction s as [|b r IH]; [reflexivity|].
  cbn [span_digits]. destruct (digitb b).
  - destruct (span_digits r) as [ds rest]. cbn [fst snd app] in *. now f_equal.
  - reflexivity.
Qed.

Lemma span_digits_all s : Forall digit (fst (span_digits s)).
Proof.
  induction s as [|b r IH]; [constructor|].
  cbn [span_digits]. destruct (digitb b) eqn:E.
  - destruct (span_digits r) as [ds rest]. cbn [fst] in *. constructor; [now apply digitb_true|exact IH].
  - constructor.
Qed.

(** the run is the LONGEST one: what follows does not start with a digit *)
Definition no_leading_digit (rest : list Z) : Prop :=
  match rest with b :: _ => ~ digit b | [] => True end.

Lemma span_digits_longest s : no_leading_digit (snd (span_digits s)).
Proof.
  induction s as [|b r IH]; [exact I|].
  cbn [span_digits]. destruct (digitb b) eqn:E.
  - destruct (span_digits r) as [ds rest]. exact IH.
  - cbn [snd no_leading_digit]. now apply digitb_false.
Qed.

Lemma span_digits_unique ds : forall rest,
  Forall digit ds -> no_leading_digit rest -> span_digits (ds ++ rest) = (ds, rest).
Proof.
  induction ds as [|d ds IH]; intros rest Hd Hr.
  - cbn [app]. destruct rest as [|b r]; [reflexivity|].
    cbn [span_digits]. cbn [no_leading_digit] in Hr. apply digitb_false in Hr. now rewrite Hr.
  - inversion Hd as [|? ? Hd1 Hd2]; subst. cbn [app span_digits].
    apply digitb_true in Hd1. rewrite Hd1. now rewrite (IH rest Hd2 Hr).
Qed.

Lemma span_digits_forallb l : forallb digitb l = true -> span_digits l = (l, []).
Proof.
  intro H. apply forallb_digitb in H.
  rewrite <- (app_nil_r l) at 1. now apply span_digits_unique.
Qed.

Lemma span_digits_nil_rest l ds : span_digits l = (ds, []) -> l = ds /\ forallb digitb l = true.
Proof.
  intro H. pose proof (span_digits_app l) as Ha. pose proof (span_digits_all l) as Hd.
  rewrite H in Ha, Hd. cbn [fst snd] in *. rewrite app_nil_r in Ha. subst ds.
  split; [reflexivity|now apply forallb_digitb].
Qed.

(* ------------------------------------------------------------------ powers of two *)

Lemma pow_facts w : 4 <= w -> 2 ^ w = 2 * 2 ^ (w - 1) /\ 8 <= 2 ^ (w - 1).
Proof.
  intro Hw. split.
  - replace w with (Z.succ (w - 1)) at 1 by lia. apply Z.pow_succ_r. lia.
  - change 8 with (2 ^ 3). apply Z.pow_le_mono_r; lia.
Qed.

(* ------------------------------------------------------------------ the digit loop *)

Section Width.
  Variable w : Z.
  Hypothesis Hw : 4 <= w.

  Let P := 2 ^ w.
  Let H := 2 ^ (w - 1).

  Lemma P_H : P = 2 * H /\ 8 <= H.
  Proof. apply pow_facts, Hw. Qed.

  Lemma ty_mod_of sg : ty_mod (int_ty_of w sg) = P.
  Proof. reflexivity. Qed.
  Lemma ty_half_of sg : ty_half (int_ty_of w sg) = H.
  Proof. reflexivity. Qed.
  Lemma ty_signed_of sg : ty_signed (int_ty_of w sg) = sg.
  Proof. reflexivity. Qed.

  Lemma wrap_small sg x : 0 <= x < P -> wrap (int_ty_of w sg) x = x.
  Proof. intro Hx. rewrite wrap_mod, ty_mod_of. now apply Z.mod_small. Qed.

  (** The loop computes the value of the digit run in unbounded arithmetic and throws
      exactly when that value does not fit the unsigned twin: the two overflow flags fire
      iff [10 * num + d >= 2^w], and from then on the value can only grow. *)
  Lemma digit_loop_spec sg : forall bytes num,
    0 <= num < P ->
    digit_loop (int_ty_of w sg) num bytes =
      (if digits_val_from num (fst (span_digits bytes)) <? P
       then Some (digits_val_from num (fst (span_digits bytes)), snd (span_digits bytes))
       else None).
  Proof.
    pose proof P_H as [HP HH].
    induction bytes as [|b r IH]; intros num Hnum.
    - cbn [digit_loop span_digits fst snd digits_val_from fold_left].
      destruct (Z.ltb_spec num P); [reflexivity|lia].
    - cbn [digit_loop span_digits]. rewrite is_digit_digitb.
      destruct (digitb b) eqn:Eb.
      + pose proof (span_digits_all r) as Hall.
        destruct (span_digits r) as [ds rest] eqn:Esp. cbn [fst snd] in *.
        rewrite digits_val_from_cons.
        apply digitb_true in Eb. unfold digit in Eb.
        unfold overflowing_mul, overflowing_add. rewrite !ty_mod_of.
        rewrite (wrap_small sg (b - 48)) by lia.
        destruct (Z.leb_spec P (num * 10)) as [Hm|Hm].
        * (* the multiplication overflows *)
          cbn [orb].
          pose proof (digits_val_from_ge ds (10 * num + (b - 48)) Hall ltac:(lia)).
          destruct (Z.ltb_spec (digits_val_from (10 * num + (b - 48)) ds) P); [lia|reflexivity].
        * rewrite (wrap_small sg (num * 10)) by lia.
          destruct (Z.leb_spec P (num * 10 + (b - 48))) as [Ha|Ha].
          -- (* the addition overflows *)
             cbn [orb].
             pose proof (digits_val_from_ge ds (10 * num + (b - 48)) Hall ltac:(lia)).
             destruct (Z.ltb_spec (digits_val_from (10 * num + (b - 48)) ds) P); [lia|reflexivity].
          -- cbn [orb]. rewrite (wrap_small sg (num * 10 + (b - 48))) by lia.
             rewrite (IH (num * 10 + (b - 48))) by lia.
             replace (num * 10 + (b - 48)) with (10 * num + (b - 48)) by lia. reflexivity.
      + cbn [fst snd digits_val_from fold_left].
        destruct (Z.ltb_spec num P); [reflexivity|lia].
  Qed.

  (* ---------------------------------------------------------------- the sign *)

  Lemma sign_arm_strip sg s : sign_arm sg s = strip_minus sg s.
  Proof.
    unfold sign_arm, strip_minus. destruct sg.
    - destruct s as [|b r]; [reflexivity|]. now rewrite andb_true_r.
    - destruct s as [|b r]; [reflexivity|]. now rewrite andb_false_r.
  Qed.

  Lemma wrapping_neg_as_signed n :
    0 <= n <= H -> wrapping_neg (int_ty_of w true) (as_signed (int_ty_of w true) n) = - n.
  Proof.
    pose proof P_H as [HP HH]. intro Hn.
    unfold wrapping_neg, as_signed. rewrite wrap_mod, !ty_mod_of, !ty_half_of.
    destruct (Z.ltb_spec n H) as [Hlt|Hge].
    - destruct (Z.eq_dec n 0) as [->|Hnz].
      + change (- 0) with 0. rewrite Z.mod_0_l by lia.
        destruct (Z.ltb_spec 0 H); lia.
      + replace (- n mod P) with (P - n).
        * destruct (Z.ltb_spec (P - n) H); lia.
        * apply Z.mod_unique with (q := -1); lia.
    - assert (n = H) by lia. subst n.
      replace (- (H - P)) with H by lia.
      rewrite Z.mod_small by lia.
      destruct (Z.ltb_spec H H); lia.
  Qed.

  (** [@apply_sign] is the range check of the type, given that the magnitude fits the
      unsigned twin *)
  Lemma apply_sign_spec sg neg n :
    0 <= n < P -> (neg = true -> sg = true) ->
    apply_sign (int_ty_of w sg) neg n =
      (if in_range w sg (if neg then - n else n) then Some (if neg then - n else n) else None).
  Proof.
    pose proof P_H as [HP HH]. intros Hn Hneg.
    unfold apply_sign, in_range. rewrite ty_signed_of, ty_half_of. fold P H.
    destruct sg.
    - destruct neg.
      + destruct (Z.leb_spec n H) as [Hle|Hgt].
        * rewrite wrapping_neg_as_signed by lia.
          destruct (Z.leb_spec (- H) (- n)); [|lia]. destruct (Z.ltb_spec (- n) H); [reflexivity|lia].
        * destruct (Z.leb_spec (- H) (- n)); [lia|reflexivity].
      + destruct (Z.leb_spec n (H - 1)) as [Hle|Hgt].
        * unfold as_signed. rewrite ty_half_of. fold H.
          destruct (Z.ltb_spec n H); [|lia].
          destruct (Z.leb_spec (- H) n); [|lia]. reflexivity.
        * destruct (Z.ltb_spec n H); [lia|]. now rewrite andb_false_r.
    - destruct neg; [now specialize (Hneg eq_refl)|].
      destruct (Z.leb_spec 0 n); [|lia]. destruct (Z.ltb_spec n P); [reflexivity|lia].
  Qed.

  (** out of the unsigned twin's range means out of the type's range *)
  Lemma in_range_big sg (neg : bool) n : P <= n -> in_range w sg (if neg then - n else n) = false.
  Proof.
    pose proof P_H as [HP HH]. intro Hn. unfold in_range. fold P H.
    destruct sg, neg.
    - destruct (Z.leb_spec (- H) (- n)); [lia|reflexivity].
    - destruct (Z.ltb_spec n H); [lia|now rewrite andb_false_r].
    - destruct (Z.leb_spec 0 (- n)); [lia|reflexivity].
    - destruct (Z.ltb_spec n P); [lia|now rewrite andb_false_r].
  Qed.

  (* ---------------------------------------------------------------- str_from *)

  Lemma str_from_suffix (pre rest : list Z) :
    str_from (pre ++ rest) (zlen (pre ++ rest) - zlen rest) = rest.
  Proof.
    unfold str_from. rewrite zlen_app.
    replace (zlen pre + zlen rest - zlen rest) with (zlen pre) by lia.
    unfold zlen. rewrite Nat2Z.id, skipn_app, skipn_all, Nat.sub_diag. reflexivity.
  Qed.

  (* ---------------------------------------------------------------- prefix parsing *)

  Definition of_prefix_result (r : prefix_result) : pres (Z * list Z) :=
    match r with
    | Parsed v rest => POk (v, rest)
    | Failed => PErr ParseInteger
    end.

  Theorem parse_int_m_spec sg s : parse_int_m w sg s = of_prefix_result (prefix_spec w sg s).
  Proof.
    pose proof P_H as [HP HH].
    unfold parse_int_m, parse_int_t, prefix_spec, longest_numeric_prefix.
    rewrite ty_signed_of, sign_arm_strip.
    assert (Hsg : fst (strip_minus sg s) = true -> sg = true).
    { unfold strip_minus. destruct s as [|b r]; [discriminate|].
      destruct (b =? 45), sg; cbn; congruence. }
    assert (Hpre : exists sign, s = sign ++ snd (strip_minus sg s)).
    { unfold strip_minus. destruct s as [|b r]; [now exists []|].
      destruct ((b =? 45) && sg); [now exists [b]|now exists []]. }
    destruct (strip_minus sg s) as [neg s'] eqn:Estrip. cbn [fst snd] in *.
    destruct s' as [|b r].
    - reflexivity.
    - cbn [first_digit span_digits]. rewrite is_digit_digitb.
      destruct (digitb b) eqn:Eb; [|reflexivity].
      pose proof (span_digits_app r) as Happ.
      pose proof (span_digits_all r) as Hall.
      rewrite (digit_loop_spec sg r).
      2:{ apply digitb_true in Eb. unfold digit in Eb. rewrite wrap_small; lia. }
      destruct (span_digits r) as [ds rest] eqn:Esp. cbn [fst snd] in *.
      apply digitb_true in Eb. pose proof Eb as Eb'. unfold digit in Eb'.
      rewrite wrap_small by lia.
      unfold signed_val. rewrite digits_val_cons.
      pose proof (digits_val_from_ge ds (b - 48) Hall ltac:(lia)) as Hge.
      set (n := digits_val_from (b - 48) ds) in *.
      destruct (Z.ltb_spec n P) as [Hlt|Hbig].
      + rewrite apply_sign_spec by (try lia; exact Hsg).
        destruct (in_range w sg (if neg then - n else n)); [|reflexivity].
        cbn [of_prefix_result]. do 2 f_equal.
        destruct Hpre as [sign Hs]. rewrite Hs, Happ.
        replace (sign ++ b :: ds ++ rest) with ((sign ++ b :: ds) ++ rest)
          by (rewrite <- app_assoc; reflexivity).
        apply str_from_suffix.
      + rewrite in_range_big by lia. reflexivity.
  Qed.

  (** the same, as a characterisation without any function on the spec side *)
  Theorem parse_int_m_ok_iff sg s v rest :
    parse_int_m w sg s = POk (v, rest) <->
    exists (neg : bool) ds,
      s = (if neg then [45] else []) ++ ds ++ rest /\
      (neg = true -> sg = true) /\
      ds <> [] /\ Forall digit ds /\ no_leading_digit rest /\
      v = signed_val neg ds /\ in_range w sg v = true.
  Proof.
    rewrite parse_int_m_spec. unfold prefix_spec, longest_numeric_prefix. split.
    - intro Hok.
      assert (Hstrip : exists sign, s = (if fst (strip_minus sg s) then [45] else []) ++ snd (strip_minus sg s)
                       /\ (fst (strip_minus sg s) = true -> sg = true) /\ sign = fst (strip_minus sg s)).
      { exists (fst (strip_minus sg s)). unfold strip_minus. destruct s as [|b r]; [now cbn|].
        destruct (Z.eqb_spec b 45) as [->|Hne]; destruct sg; cbn; repeat split; congruence. }
      destruct Hstrip as [sign [Hs [Hsg _]]].
      destruct (strip_minus sg s) as [neg s'] eqn:Estrip. cbn [fst snd] in *.
      pose proof (span_digits_app s') as Happ.
      pose proof (span_digits_all s') as Hall.
      pose proof (span_digits_longest s') as Hlong.
      destruct (span_digits s') as [ds rest'] eqn:Esp. cbn [fst snd] in *.
      destruct ds as [|d ds]; [discriminate|].
      destruct (in_range w sg (signed_val neg (d :: ds))) eqn:Er; [|discriminate].
      cbn [of_prefix_result] in Hok. inversion Hok; subst v rest'.
      exists neg, (d :: ds). repeat split; try assumption.
      + rewrite Hs at 1. now rewrite Happ.
      + discriminate.
    - intros (neg & ds & Hs & Hsg & Hne & Hd & Hrest & Hv & Hr).
      assert (Hstrip : strip_minus sg s = (neg, ds ++ rest)).
      { subst s. destruct neg.
        - rewrite (Hsg eq_refl). reflexivity.
        - cbn [app]. destruct ds as [|d ds]; [congruence|].
          inversion Hd as [|? ? Hd1 _]; subst. unfold digit in Hd1.
          cbn [app strip_minus]. destruct (Z.eqb_spec d 45); [lia|reflexivity]. }
      rewrite Hstrip, (span_digits_unique ds rest Hd Hrest).
      destruct ds as [|d ds]; [congruence|].
      rewrite <- Hv, Hr. reflexivity.
  Qed.

  (** a failed parse: no digit where the number should start, or the number is not a value
      of the type *)
  Theorem parse_int_m_err_iff sg s :
    (exists k, parse_int_m w sg s = PErr k) <->
    match longest_numeric_prefix sg s with
    | None => True
    | Some (neg, ds, _) => in_range w sg (signed_val neg ds) = false
    end.
  Proof.
    rewrite parse_int_m_spec. unfold prefix_spec.
    destruct (longest_numeric_prefix sg s) as [[[neg ds] rest]|].
    - destruct (in_range w sg (signed_val neg ds)); cbn [of_prefix_result]; split.
      + intros [k Hk]. discriminate.
      + discriminate.
      + reflexivity.
      + intros _. now exists ParseInteger.
    - cbn [of_prefix_result]. split; [trivial|]. intros _. now exists ParseInteger.
  Qed.

  Theorem parse_int_m_err_kind sg s k : parse_int_m w sg s = PErr k -> k = ParseInteger.
  Proof.
    rewrite parse_int_m_spec. destruct (prefix_spec w sg s); cbn [of_prefix_result]; congruence.
  Qed.

  (* ---------------------------------------------------------------- the Parser frame *)

  (** success removes a non-empty prefix and advances [start_offset] by its length;
      failure reports the position the parser was at: nothing has been consumed *)
  Theorem parser_parse_int_frame sg so s :
    match parser_parse_int w sg (so, s) with
    | FOk v (so', s') =>
        exists consumed, s = consumed ++ s' /\ consumed <> [] /\ so' = so + zlen consumed /\
                         parse_int_m w sg s = POk (v, s')
    | FErr k off => k = ParseInteger /\ off = so /\ parse_int_m w sg s = PErr ParseInteger
    end.
  Proof.
    unfold parser_parse_int, parser_parse_int_t, try_parsing_start.
    change (parse_int_t (int_ty_of w sg) s) with (parse_int_m w sg s).
    destruct (parse_int_m w sg s) as [[v s']|k] eqn:E.
    - pose proof (proj1 (parse_int_m_ok_iff sg s v s') E)
        as (neg & ds & Hs & _ & Hne & _ & _ & _ & _).
      exists ((if neg then [45] else []) ++ ds). repeat split.
      + rewrite Hs. now rewrite app_assoc.
      + destruct neg; [discriminate|]. exact Hne.
      + rewrite Hs at 1. rewrite app_assoc, zlen_app. lia.
    - pose proof (parse_int_m_err_kind sg s k E). subst k. repeat split.
  Qed.

  (* ---------------------------------------------------------------- whole strings *)

  Lemma parse_whole_m_prefix sg s :
    parse_whole_m w sg s =
      match prefix_spec w sg s with Parsed v [] => Some v | _ => None end.
  Proof.
    unfold parse_whole_m, parse_whole_t.
    change (parse_int_t (int_ty_of w sg) s) with (parse_int_m w sg s).
    rewrite parse_int_m_spec. destruct (prefix_spec w sg s) as [v [|b r]|]; reflexivity.
  Qed.

  Lemma std_sign_strip sg s : hd_error s <> Some 43 -> std_sign sg s = strip_minus sg s.
  Proof.
    unfold std_sign, strip_minus. destruct s as [|b r]; [reflexivity|].
    cbn [hd_error]. intro Hp. destruct (Z.eqb_spec b 43); [congruence|reflexivity].
  Qed.

  Theorem parse_whole_eq_std sg s :
    hd_error s <> Some 43 -> parse_whole_m w sg s = std_parse w sg s.
  Proof.
    intro Hplus. rewrite parse_whole_m_prefix.
    unfold std_parse, prefix_spec, longest_numeric_prefix.
    rewrite (std_sign_strip sg s Hplus).
    destruct (strip_minus sg s) as [neg s'].
    destruct (forallb digitb s') eqn:Eall.
    - rewrite (span_digits_forallb s' Eall).
      destruct s' as [|b r]; [reflexivity|].
      destruct (in_range w sg (signed_val neg (b :: r))); reflexivity.
    - destruct (span_digits s') as [ds rest] eqn:Esp.
      destruct rest as [|c rest].
      + apply span_digits_nil_rest in Esp as [_ Hall]. congruence.
      + destruct s' as [|b r]; [now destruct ds|].
        destruct ds as [|d ds]; [reflexivity|].
        destruct (in_range w sg (signed_val neg (d :: ds))); reflexivity.
  Qed.

  (** the one place where konst deliberately differs from std: a leading '+' *)
  Theorem plus_rejected sg r :
    parse_int_m w sg (43 :: r) = PErr ParseInteger /\ parse_whole_m w sg (43 :: r) = None.
  Proof.
    assert (E : prefix_spec w sg (43 :: r) = Failed).
    { unfold prefix_spec, longest_numeric_prefix, strip_minus.
      change (43 =? 45) with false. cbn [andb span_digits].
      change (digitb 43) with false. reflexivity. }
    split.
    - rewrite parse_int_m_spec, E. reflexivity.
    - rewrite parse_whole_m_prefix, E. reflexivity.
  Qed.

  (** values: a non-empty digit string, optionally after '-' for signed types *)
  Theorem parse_whole_digits sg ds :
    ds <> [] -> Forall digit ds ->
    parse_whole_m w sg ds =
      (if in_range w sg (digits_val ds) then Some (digits_val ds) else None).
  Proof.
    intros Hne Hd. destruct ds as [|d ds]; [congruence|].
    inversion Hd as [|? ? Hd1 Hd2]; subst. pose proof Hd1 as Hd1'. unfold digit in Hd1'.
    rewrite parse_whole_eq_std by (cbn [hd_error]; intro E; inversion E; lia).
    unfold std_parse, std_sign.
    destruct (Z.eqb_spec d 43); [lia|]. destruct (Z.eqb_spec d 45); [lia|]. cbn [andb].
    apply forallb_digitb in Hd. rewrite Hd. reflexivity.
  Qed.

  Theorem parse_whole_minus_digits ds :
    ds <> [] -> Forall digit ds ->
    parse_whole_m w true (45 :: ds) =
      (if in_range w true (- digits_val ds) then Some (- digits_val ds) else None).
  Proof.
    intros Hne Hd.
    rewrite parse_whole_eq_std by (cbn [hd_error]; intro E; inversion E).
    unfold std_parse, std_sign. change (45 =? 43) with false. change (45 =? 45) with true.
    cbn [andb]. destruct ds as [|d ds]; [congruence|].
    apply forallb_digitb in Hd. rewrite Hd. reflexivity.
  Qed.

  Theorem unsigned_rejects_minus r : parse_whole_m w false (45 :: r) = None.
  Proof.
    rewrite parse_whole_eq_std by (cbn [hd_error]; intro E; inversion E).
    unfold std_parse, std_sign. change (45 =? 43) with false. rewrite andb_false_r.
    cbn [forallb]. change (digitb 45) with false. reflexivity.
  Qed.

  (** the asymmetric end of the signed range, and minus zero *)
  Theorem signed_min_ok ds :
    ds <> [] -> Forall digit ds -> digits_val ds = 2 ^ (w - 1) ->
    parse_whole_m w true (45 :: ds) = Some (- 2 ^ (w - 1)) /\
    parse_whole_m w true ds = None.
  Proof.
    pose proof P_H as [HP HH]. intros Hne Hd Hv. split.
    - rewrite (parse_whole_minus_digits ds Hne Hd), Hv. unfold in_range. fold H.
      destruct (Z.leb_spec (- H) (- H)); [|lia]. destruct (Z.ltb_spec (- H) H); [reflexivity|lia].
    - rewrite (parse_whole_digits true ds Hne Hd), Hv. unfold in_range. fold H.
      destruct (Z.ltb_spec H H); [lia|]. now rewrite andb_false_r.
  Qed.

  Theorem signed_below_min_rejected ds :
    ds <> [] -> Forall digit ds -> 2 ^ (w - 1) < digits_val ds ->
    parse_whole_m w true (45 :: ds) = None.
  Proof.
    intros Hne Hd Hv.
    rewrite (parse_whole_minus_digits ds Hne Hd). unfold in_range. fold H. fold H in Hv.
    destruct (Z.leb_spec (- H) (- digits_val ds)); [lia|reflexivity].
  Qed.

  Theorem minus_zero ds :
    ds <> [] -> Forall digit ds -> digits_val ds = 0 ->
    parse_whole_m w true (45 :: ds) = Some 0.
  Proof.
    pose proof P_H as [HP HH]. intros Hne Hd Hv.
    rewrite (parse_whole_minus_digits ds Hne Hd), Hv. change (- 0) with 0.
    unfold in_range. fold H.
    destruct (Z.leb_spec (- H) 0); [|lia]. destruct (Z.ltb_spec 0 H); [reflexivity|lia].
  Qed.

End Width.

(* ------------------------------------------------------------------ std_parse as a relation *)

Theorem std_parse_iff_accepts w sg s v : std_parse w sg s = Some v <-> std_accepts w sg s v.
Proof.
  unfold std_parse, std_accepts. split.
  - intro Hp.
    assert (Hs : exists sign, s = sign ++ snd (std_sign sg s) /\
                 (sign = [] \/ sign = [43] \/ (sign = [45] /\ sg = true)) /\
                 fst (std_sign sg s) = list_eqb Z.eqb sign [45]).
    { unfold std_sign. destruct s as [|b r]; [exists []; cbn; auto|].
      destruct (Z.eqb_spec b 43) as [->|H43]; [exists [43]; cbn; auto|].
      destruct (Z.eqb_spec b 45) as [->|H45]; destruct sg; cbn [andb];
        try (exists []; cbn; now auto).
      exists [45]. split; [reflexivity|]. split; [right; right; split; reflexivity|reflexivity]. }
    destruct Hs as (sign & Hs & Hsign & Hneg).
    destruct (std_sign sg s) as [neg ds]. cbn [fst snd] in *.
    destruct ds as [|d ds]; [discriminate|].
    destruct (forallb digitb (d :: ds)) eqn:Eall; [|discriminate].
    destruct (in_range w sg (signed_val neg (d :: ds))) eqn:Er; [|discriminate].
    inversion Hp; subst v. exists sign, (d :: ds). repeat split; try assumption.
    + discriminate.
    + now apply forallb_digitb.
    + unfold signed_val. now rewrite Hneg.
  - intros (sign & ds & Hs & Hsign & Hne & Hd & Hv & Hr).
    assert (Hstd : std_sign sg s = (list_eqb Z.eqb sign [45], ds)).
    { subst s. destruct ds as [|d ds]; [congruence|].
      inversion Hd as [|? ? Hd1 _]; subst. unfold digit in Hd1.
      destruct Hsign as [->|[->|[-> ->]]]; cbn [app std_sign].
      - destruct (Z.eqb_spec d 43); [lia|]. destruct (Z.eqb_spec d 45); [lia|]. reflexivity.
      - reflexivity.
      - reflexivity. }
    rewrite Hstd. destruct ds as [|d ds]; [congruence|].
    apply forallb_digitb in Hd. rewrite Hd.
    unfold signed_val. rewrite <- Hv, Hr. reflexivity.
Qed.

(* ------------------------------------------------------------------ bool *)

Lemma starts_with_iff lit : forall s, starts_with s lit = true <-> exists r, s = lit ++ r.
Proof.
  induction lit as [|c lit IH]; intro s; cbn [starts_with].
  - split; [intros _; now exists s|reflexivity].
  - destruct s as [|b s'].
    + split; [discriminate|intros [r Hr]; discriminate].
    + rewrite andb_true_iff, Z.eqb_eq, IH. split.
      * intros [-> [r ->]]. now exists r.
      * intros [r Hr]. inversion Hr; subst. split; [reflexivity|now exists r].
Qed.

Lemma str_from_app (lit r : list Z) : str_from (lit ++ r) (zlen lit) = r.
Proof.
  unfold str_from, zlen. rewrite Nat2Z.id, skipn_app, skipn_all, Nat.sub_diag. reflexivity.
Qed.

Lemma starts_with_app lit r : starts_with (lit ++ r) lit = true.
Proof. apply starts_with_iff. now exists r. Qed.

(** prefix parsing of bool: exactly the strings that start with [true] / [false] *)
Theorem parse_bool_m_ok_iff s b rest :
  parse_bool_m s = POk (b, rest) <-> s = (if b then str_true else str_false) ++ rest.
Proof.
  unfold parse_bool_m. split.
  - destruct (starts_with s [116; 114; 117; 101]) eqn:Et.
    + apply starts_with_iff in Et as [r ->]. intro Hok.
      change 4 with (zlen [116; 114; 117; 101]) in Hok. rewrite str_from_app in Hok.
      inversion Hok; subst. reflexivity.
    + destruct (starts_with s [102; 97; 108; 115; 101]) eqn:Ef; [|discriminate].
      apply starts_with_iff in Ef as [r ->]. intro Hok.
      change 5 with (zlen [102; 97; 108; 115; 101]) in Hok. rewrite str_from_app in Hok.
      inversion Hok; subst. reflexivity.
  - intros ->. destruct b.
    + unfold str_true. rewrite starts_with_app.
      change 4 with (zlen [116; 114; 117; 101]). now rewrite str_from_app.
    + unfold str_false. change (starts_with ([102; 97; 108; 115; 101] ++ rest) [116; 114; 117; 101]) with false.
      rewrite starts_with_app.
      change 5 with (zlen [102; 97; 108; 115; 101]). now rewrite str_from_app.
Qed.

Theorem parse_bool_m_err_iff s :
  (exists k, parse_bool_m s = PErr k) <->
  (forall r, s <> str_true ++ r) /\ (forall r, s <> str_false ++ r).
Proof.
  unfold parse_bool_m, str_true, str_false. split.
  - intros [k Hk].
    destruct (starts_with s [116; 114; 117; 101]) eqn:Et; [discriminate|].
    destruct (starts_with s [102; 97; 108; 115; 101]) eqn:Ef; [discriminate|].
    split; intros r ->; rewrite starts_with_app in *; discriminate.
  - intros [Ht Hf].
    destruct (starts_with s [116; 114; 117; 101]) eqn:Et.
    + apply starts_with_iff in Et as [r ->]. now specialize (Ht r).
    + destruct (starts_with s [102; 97; 108; 115; 101]) eqn:Ef.
      * apply starts_with_iff in Ef as [r ->]. now specialize (Hf r).
      * now exists ParseBool.
Qed.

Theorem parse_bool_m_err_kind s k : parse_bool_m s = PErr k -> k = ParseBool.
Proof.
  unfold parse_bool_m.
  destruct (starts_with s [116; 114; 117; 101]); [discriminate|].
  destruct (starts_with s [102; 97; 108; 115; 101]); [discriminate|]. congruence.
Qed.

Theorem parse_bool_whole_eq_std s : parse_bool_whole_m s = std_parse_bool s.
Proof.
  unfold parse_bool_whole_m, std_parse_bool.
  destruct (list_eqb Z.eqb s str_true) eqn:Et.
  - apply list_eqb_Z_spec in Et. subst s. reflexivity.
  - destruct (list_eqb Z.eqb s str_false) eqn:Ef.
    + apply list_eqb_Z_spec in Ef. subst s. reflexivity.
    + destruct (parse_bool_m s) as [[b rest]|k] eqn:E; [|reflexivity].
      destruct rest as [|c rest]; [|reflexivity].
      apply parse_bool_m_ok_iff in E. rewrite app_nil_r in E. subst s.
      destruct b.
      * rewrite (proj2 (list_eqb_Z_spec str_true str_true) eq_refl) in Et. discriminate.
      * rewrite (proj2 (list_eqb_Z_spec str_false str_false) eq_refl) in Ef. discriminate.
Qed.

Theorem parser_parse_bool_frame so s :
  match parser_parse_bool (so, s) with
  | FOk b (so', s') =>
      s = (if b then str_true else str_false) ++ s' /\ so' = so + (if b then 4 else 5)
  | FErr k off => k = ParseBool /\ off = so
  end.
Proof.
  unfold parser_parse_bool, try_parsing_start.
  destruct (parse_bool_m s) as [[b s']|k] eqn:E.
  - apply parse_bool_m_ok_iff in E. split; [exact E|].
    subst s. rewrite zlen_app.
    destruct b; [change (zlen str_true) with 4|change (zlen str_false) with 5]; lia.
  - apply parse_bool_m_err_kind in E. now subst k.
Qed.

(* ------------------------------------------------------------------ printing and parsing back *)

Lemma digits_val_snoc ds d : digits_val (ds ++ [d]) = 10 * digits_val ds + (d - 48).
Proof. unfold digits_val, digits_val_from. rewrite fold_left_app. reflexivity. Qed.

Lemma dec_digits_spec : forall fuel n,
  0 <= n < 10 ^ Z.of_nat fuel -> fuel <> O ->
  dec_digits fuel n <> [] /\ Forall digit (dec_digits fuel n) /\ digits_val (dec_digits fuel n) = n.
Proof.
  induction fuel as [|f IH]; intros n Hn Hf; [congruence|].
  cbn [dec_digits]. destruct (Z.ltb_spec n 10) as [Hlt|Hge].
  - split; [discriminate|]. split.
    + constructor; [unfold digit; lia|constructor].
    + unfold digits_val, digits_val_from. cbn [fold_left]. lia.
  - assert (Hpow : 10 ^ Z.of_nat (S f) = 10 * 10 ^ Z.of_nat f).
    { rewrite Nat2Z.inj_succ. apply Z.pow_succ_r. lia. }
    assert (Hq : 1 <= n / 10 < 10 ^ Z.of_nat f).
    { split; [apply Z.div_le_lower_bound; lia|apply Z.div_lt_upper_bound; lia]. }
    assert (Hf' : f <> O).
    { intros ->. change (10 ^ Z.of_nat 0) with 1 in Hq. lia. }
    destruct (IH (n / 10) ltac:(lia) Hf') as (Hne & Hd & Hv).
    pose proof (Z.mod_pos_bound n 10 ltac:(lia)) as Hm.
    split; [intro E; apply app_eq_nil in E as [_ E]; discriminate|]. split.
    + apply Forall_app. split; [exact Hd|]. constructor; [unfold digit; lia|constructor].
    + rewrite digits_val_snoc, Hv. pose proof (Z.div_mod n 10 ltac:(lia)). lia.
Qed.

Lemma dec_spec n : 0 <= n -> dec n <> [] /\ Forall digit (dec n) /\ digits_val (dec n) = n.
Proof.
  intro Hn. unfold dec. apply dec_digits_spec; [|discriminate].
  split; [exact Hn|].
  destruct (Z.eq_dec n 0) as [->|Hnz].
  - change (Z.log2 0) with 0. reflexivity.
  - pose proof (Z.log2_spec n ltac:(lia)) as [_ Hlog].
    pose proof (Z.log2_nonneg n) as Hl.
    rewrite Nat2Z.inj_succ, Z2Nat.id by exact Hl.
    eapply Z.lt_le_trans; [exact Hlog|].
    apply Z.pow_le_mono_l. lia.
Qed.

(** every value of the type, printed in decimal, parses back to itself; every other
    integer, printed, is rejected *)
Theorem parse_show_int w : 4 <= w -> forall sg v,
  parse_whole_m w sg (show_int v) = (if in_range w sg v then Some v else None).
Proof.
  intros Hw sg v. unfold show_int. destruct (Z.ltb_spec v 0) as [Hneg|Hpos].
  - destruct (dec_spec (- v) ltac:(lia)) as (Hne & Hd & Hv).
    destruct sg.
    + rewrite (parse_whole_minus_digits w Hw (dec (- v)) Hne Hd), Hv.
      replace (- - v) with v by lia. reflexivity.
    + rewrite unsigned_rejects_minus by exact Hw.
      unfold in_range. destruct (Z.leb_spec 0 v); [lia|reflexivity].
  - destruct (dec_spec v Hpos) as (Hne & Hd & Hv).
    rewrite (parse_whole_digits w Hw sg (dec v) Hne Hd), Hv. reflexivity.
Qed.

(** why the statements need [4 <= w]: in a 3-bit type the digit 9 itself wraps *)
Lemma width_bound_needed :
  parse_whole_m 3 false [57] = Some 1 /\ std_parse 3 false [57] = None.
Proof. split; vm_compute; reflexivity. Qed.
