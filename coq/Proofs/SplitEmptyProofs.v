(** C06, the EMPTY delimiter: on a valid UTF-8 string the split iterators yield an empty piece,
    then one piece per character, (then a final empty piece for split / rsplit). *)
From KV Require Import Base.Prelude Model.Utf8 Spec.Utf8 Proofs.Utf8Proofs Model.Search Model.Split.
Local Open Scope nat_scope.

Lemma firstn_app_exact' {A} (a r : list A) : firstn (length a) (a ++ r) = a.
Proof. rewrite firstn_app, firstn_all, Nat.sub_diag. cbn [firstn]. now rewrite app_nil_r. Qed.
Lemma skipn_app_exact' {A} (a r : list A) : skipn (length a) (a ++ r) = r.
Proof. rewrite skipn_app, skipn_all, Nat.sub_diag. reflexivity. Qed.

Lemma count_cont_app_nb t r : Forall nb t -> count_cont (t ++ r) = length t + count_cont r.
Proof.
  induction 1 as [|b t Hb _ IH]; [reflexivity|]. cbn [app count_cont length]. unfold nb in Hb. now rewrite Hb, IH.
Qed.

Lemma count_cont_chunks es : Forall chunk es -> count_cont (concat es) = 0.
Proof.
  intros F. destruct F as [|e es He _]; [reflexivity|]. cbn [concat].
  destruct e as [|a t]; [contradiction|]. destruct He as [Ha _]. cbn [app count_cont]. now rewrite Ha.
Qed.

(** the forward scanner stops exactly after the first character *)
Lemma next_boundary_chunk e es : chunk e -> Forall chunk es -> next_boundary (e ++ concat es) = length e.
Proof.
  intros He Fes. destruct e as [|a t]; [contradiction|]. destruct He as [_ Ht].
  cbn [app next_boundary length]. now rewrite count_cont_app_nb, count_cont_chunks, Nat.add_0_r.
Qed.

Lemma Forall_nb_rev t : Forall nb t -> Forall nb (rev t).
Proof. intros F. apply Forall_forall. intros x Hx. apply in_rev in Hx. revert x Hx. now apply Forall_forall. Qed.

(** the backward scanner stops exactly before the last character *)
Lemma prev_boundary_chunk es e : chunk e -> prev_boundary (concat es ++ e) = Some (length (concat es)).
Proof.
  intros He. destruct e as [|a t]; [contradiction|]. destruct He as [Ha Ht].
  unfold prev_boundary. destruct (concat es ++ a :: t) as [|x l] eqn:E; [destruct (concat es); discriminate|].
  rewrite <- E. rewrite rev_app_distr. cbn [rev]. rewrite <- app_assoc.
  rewrite count_cont_app_nb by now apply Forall_nb_rev. cbn [app count_cont]. rewrite Ha, Nat.add_0_r.
  rewrite rev_length, app_length. cbn [length].
  destruct (Nat.ltb_spec (length t) (length (concat es) + S (length t))); [|lia]. f_equal. lia.
Qed.

Definition wfs (es : list (list Z)) : Prop := Forall wf es.
Lemma wfs_chunks es : wfs es -> Forall chunk es.
Proof. apply Forall_wf_chunk. Qed.
Lemma wf_nonempty e : wf e -> e <> [].
Proof. intros H E. subst. discriminate. Qed.

(* ------------------------------------------------------------ split / split_terminator *)

Lemma collect_split_empty_cont : forall es fuel, wfs es -> length es + 2 <= fuel ->
  collect split_next fuel (mk_split (concat es) SEmptyCont) = Some (es ++ [[]]).
Proof.
  induction es as [|e es IH]; intros fuel F Hf.
  - destruct fuel as [|[|fuel]]; try lia. reflexivity.
  - destruct fuel as [|fuel]; [cbn in Hf; lia|]. inversion F as [|? ? He Fes]; subst.
    cbn [collect]. unfold split_next. cbn [s_this s_state concat].
    rewrite (next_boundary_chunk e es (wf_chunk e He) (wfs_chunks es Fes)).
    rewrite firstn_app_exact', skipn_app_exact'.
    destruct (e ++ concat es) as [|x l] eqn:E; [destruct e; [now apply wf_nonempty in He | discriminate]|].
    rewrite IH by (auto; cbn in Hf; lia). reflexivity.
Qed.

Theorem split_empty_exhaust h es : segs h = Some es ->
  collect split_next (split_fuel h) (split_init h []) = Some ([] :: es ++ [[]]).
Proof.
  intros S. apply segs_sound in S as [-> F]. unfold split_init, split_fuel.
  assert (Hl : length es <= length (concat es)).
  { clear -F. induction F as [|e es He _ IH]; [cbn; lia|]. cbn [concat length]. rewrite app_length.
    pose proof (wf_len e He) as L. unfold zlen in L. lia. }
  replace (length (concat es) + 3) with (S (length (concat es) + 2)) by lia.
  cbn [collect]. unfold split_next at 1. cbn [s_this s_state].
  rewrite collect_split_empty_cont by (auto; lia). reflexivity.
Qed.

Lemma collect_term_empty_cont : forall es fuel, wfs es -> length es + 1 <= fuel ->
  collect term_next fuel (mk_term (concat es) TEmptyCont) = Some es.
Proof.
  induction es as [|e es IH]; intros fuel F Hf.
  - destruct fuel as [|fuel]; [lia|]. reflexivity.
  - destruct fuel as [|fuel]; [cbn in Hf; lia|]. inversion F as [|? ? He Fes]; subst.
    cbn [collect]. unfold term_next. cbn [t_this t_state concat].
    destruct (e ++ concat es) as [|x l] eqn:E; [destruct e; [now apply wf_nonempty in He | discriminate]|].
    rewrite <- E. rewrite (next_boundary_chunk e es (wf_chunk e He) (wfs_chunks es Fes)).
    rewrite firstn_app_exact', skipn_app_exact'.
    rewrite IH by (auto; cbn in Hf; lia). reflexivity.
Qed.

Theorem split_terminator_empty_exhaust h es : segs h = Some es ->
  collect term_next (split_fuel h) (term_init h []) = Some ([] :: es).
Proof.
  intros S. apply segs_sound in S as [-> F]. unfold term_init, split_fuel.
  assert (Hl : length es <= length (concat es)).
  { clear -F. induction F as [|e es He _ IH]; [cbn; lia|]. cbn [concat length]. rewrite app_length.
    pose proof (wf_len e He) as L. unfold zlen in L. lia. }
  replace (length (concat es) + 3) with (S (length (concat es) + 2)) by lia.
  cbn [collect]. unfold term_next at 1. cbn [t_this t_state].
  rewrite collect_term_empty_cont by (auto; lia). reflexivity.
Qed.

(* ------------------------------------------------------------ rsplit / rsplit_terminator *)

Lemma concat_snoc {A} (es : list (list A)) e : concat (es ++ [e]) = concat es ++ e.
Proof. rewrite concat_app. cbn. now rewrite app_nil_r. Qed.

Lemma collect_rsplit_empty_cont : forall n es fuel, length es = n -> wfs es -> n + 2 <= fuel ->
  collect split_next_back fuel (mk_split (concat es) SEmptyCont) = Some (rev es ++ [[]]).
Proof.
  induction n as [|n IH]; intros es fuel Hn F Hf.
  - destruct es; [|discriminate]. destruct fuel as [|[|fuel]]; try lia. reflexivity.
  - destruct (rev es) as [|e res] eqn:Er.
    { apply (f_equal (@rev _)) in Er. rewrite rev_involutive in Er. subst. discriminate. }
    assert (Ees : es = rev res ++ [e]).
    { apply (f_equal (@rev _)) in Er. rewrite rev_involutive in Er. exact Er. }
    subst es. rewrite app_length in Hn. cbn in Hn.
    apply Forall_app in F as [Fr Fe]. inversion Fe as [|? ? He _]; subst.
    destruct fuel as [|fuel]; [lia|]. cbn [collect]. unfold split_next_back. cbn [s_this s_state].
    rewrite concat_snoc. rewrite (prev_boundary_chunk (rev res) e (wf_chunk e He)).
    rewrite firstn_app_exact', skipn_app_exact'.
    destruct (concat (rev res) ++ e) as [|x l] eqn:E; [destruct e; [now apply wf_nonempty in He | destruct (concat (rev res)); discriminate]|].
    rewrite (IH (rev res)) by (auto; lia). rewrite rev_involutive. reflexivity.
Qed.

Theorem rsplit_empty_exhaust h es : segs h = Some es ->
  collect split_next_back (split_fuel h) (split_init h []) = Some ([] :: rev es ++ [[]]).
Proof.
  intros S. apply segs_sound in S as [-> F]. unfold split_init, split_fuel.
  assert (Hl : length es <= length (concat es)).
  { clear -F. induction F as [|e es He _ IH]; [cbn; lia|]. cbn [concat length]. rewrite app_length.
    pose proof (wf_len e He) as L. unfold zlen in L. lia. }
  replace (length (concat es) + 3) with (S (length (concat es) + 2)) by lia.
  cbn [collect]. unfold split_next_back at 1. cbn [s_this s_state].
  rewrite (collect_rsplit_empty_cont (length es)) by (auto; lia). reflexivity.
Qed.

Lemma collect_rterm_empty_cont : forall n es fuel, length es = n -> wfs es -> n + 1 <= fuel ->
  collect rterm_next fuel (mk_term (concat es) TEmptyCont) = Some (rev es).
Proof.
  induction n as [|n IH]; intros es fuel Hn F Hf.
  - destruct es; [|discriminate]. destruct fuel as [|fuel]; [lia|]. reflexivity.
  - destruct (rev es) as [|e res] eqn:Er.
    { apply (f_equal (@rev _)) in Er. rewrite rev_involutive in Er. subst. discriminate. }
    assert (Ees : es = rev res ++ [e]).
    { apply (f_equal (@rev _)) in Er. rewrite rev_involutive in Er. exact Er. }
    subst es. rewrite app_length in Hn. cbn in Hn.
    apply Forall_app in F as [Fr Fe]. inversion Fe as [|? ? He _]; subst.
    destruct fuel as [|fuel]; [lia|]. cbn [collect]. unfold rterm_next. cbn [t_this t_state].
    rewrite concat_snoc.
    destruct (concat (rev res) ++ e) as [|x l] eqn:E; [destruct e; [now apply wf_nonempty in He | destruct (concat (rev res)); discriminate]|].
    rewrite <- E. rewrite (prev_boundary_chunk (rev res) e (wf_chunk e He)).
    rewrite firstn_app_exact', skipn_app_exact'.
    rewrite (IH (rev res)) by (auto; lia). rewrite rev_involutive. reflexivity.
Qed.

Theorem rsplit_terminator_empty_exhaust h es : segs h = Some es ->
  collect rterm_next (split_fuel h) (term_init h []) = Some ([] :: rev es).
Proof.
  intros S. apply segs_sound in S as [-> F]. unfold term_init, split_fuel.
  assert (Hl : length es <= length (concat es)).
  { clear -F. induction F as [|e es He _ IH]; [cbn; lia|]. cbn [concat length]. rewrite app_length.
    pose proof (wf_len e He) as L. unfold zlen in L. lia. }
  replace (length (concat es) + 3) with (S (length (concat es) + 2)) by lia.
  cbn [collect]. unfold rterm_next at 1. cbn [t_this t_state].
  rewrite (collect_rterm_empty_cont (length es)) by (auto; lia). reflexivity.
Qed.

(** "ab" split by "" *)
Example split_empty_example :
  collect split_next 10 (split_init [97; 195; 169]%Z []) = Some [[]; [97]; [195; 169]; []]%Z /\
  collect split_next_back 10 (split_init [97; 195; 169]%Z []) = Some [[]; [195; 169]; [97]; []]%Z.
Proof. split; reflexivity. Qed.
