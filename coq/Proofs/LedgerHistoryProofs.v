(** C15 — whole-table histories of the ledger machine (Model/Ledger.v [step] / [run]) over
    consumers, builders and their clones, and the exact accounting of map_! on every path.

    Part 1: an invariant over the whole object table ([world_ok]) preserved by every op;
    from it, for every history: no UB, and the identities handed over, dropped or leaked by
    an explicit [forget] are exactly the initial, pushed and cloned ones, each once; clone
    identities are fresh.
    Part 2: map_by_val on all paths (break / continue / return / panic included). *)
From Coq Require Import Permutation.
From KV Require Import Base.Prelude Model.Ledger Proofs.LedgerProofs.
Local Open Scope nat_scope.

(* ------------------------------------------------------------------ counting *)

(** number of occurrences of identity [i] in [l] *)
Definition occ (l : list Z) (i : Z) : nat := count_occ Z.eq_dec l i.

Lemma occ_app a b i : occ (a ++ b) i = occ a i + occ b i.
Proof. apply count_occ_app. Qed.
Lemma occ_nil i : occ [] i = 0.
Proof. reflexivity. Qed.
Lemma occ_cons x l i : occ (x :: l) i = occ [x] i + occ l i.
Proof. exact (occ_app [x] l i). Qed.
Lemma occ_one_le x i : occ [x] i <= 1.
Proof. unfold occ; cbn. destruct (Z.eq_dec x i); lia. Qed.
Lemma occ_one_eq x i : occ [x] i = if Z.eq_dec x i then 1 else 0.
Proof. reflexivity. Qed.
Lemma occ_In l i : In i l <-> occ l i > 0.
Proof. apply count_occ_In. Qed.
Lemma occ_not_In l i : ~ In i l <-> occ l i = 0.
Proof. apply count_occ_not_In. Qed.
Lemma occ_NoDup l : NoDup l <-> forall i, occ l i <= 1.
Proof. apply NoDup_count_occ. Qed.
Lemma occ_Permutation a b : Permutation a b <-> forall i, occ a i = occ b i.
Proof. apply Permutation_count_occ. Qed.

(** [1] when [a <= i < b], else [0]: the identities the counter hands out between two
    values of [w_next] *)
Definition between (a b i : Z) : nat := if ((a <=? i) && (i <? b))%Z then 1 else 0.

Lemma between_le a b i : between a b i <= 1.
Proof. unfold between. destruct ((a <=? i) && (i <? b))%Z; lia. Qed.
Lemma between_pos a b i : between a b i > 0 <-> (a <= i < b)%Z.
Proof. unfold between. destruct ((a <=? i) && (i <? b))%Z eqn:E; lia. Qed.
Lemma between_zero a b i : between a b i = 0 <-> ~ (a <= i < b)%Z.
Proof. unfold between. destruct ((a <=? i) && (i <? b))%Z eqn:E; lia. Qed.
Lemma between_empty a i : between a a i = 0.
Proof. apply between_zero. lia. Qed.
Lemma between_split a b c i : (a <= b)%Z -> (b <= c)%Z ->
  between a c i = between a b i + between b c i.
Proof.
  intros. unfold between.
  destruct ((a <=? i) && (i <? c))%Z eqn:E1, ((a <=? i) && (i <? b))%Z eqn:E2,
           ((b <=? i) && (i <? c))%Z eqn:E3; lia.
Qed.
Lemma between_one a i : between a (a + 1) i = occ [a] i.
Proof.
  rewrite occ_one_eq. unfold between.
  destruct (Z.eq_dec a i), ((a <=? i) && (i <? a + 1))%Z eqn:E; lia.
Qed.

(** [k] consecutive identities starting at [n] *)
Fixpoint zs (n : Z) (k : nat) : list Z :=
  match k with O => [] | S k' => n :: zs (n + 1) k' end.

Lemma zs_length n k : length (zs n k) = k.
Proof. revert n; induction k as [|k IH]; intro n; cbn; auto. Qed.
Lemma zs_snoc : forall k n, zs n (S k) = zs n k ++ [(n + Z.of_nat k)%Z].
Proof.
  induction k as [|k IH]; intro n.
  - cbn. f_equal. lia.
  - change (zs n (S (S k))) with (n :: zs (n + 1) (S k)). rewrite IH. cbn [zs app].
    do 3 f_equal. lia.
Qed.
Lemma occ_zs : forall k n i, occ (zs n k) i = between n (n + Z.of_nat k) i.
Proof.
  induction k as [|k IH]; intros n i.
  - cbn [zs]. rewrite Z.add_0_r, between_empty. reflexivity.
  - cbn [zs]. rewrite occ_cons, IH, (between_split n (n + 1) (n + Z.of_nat (S k))) by lia.
    rewrite between_one. do 2 f_equal. lia.
Qed.

(* ------------------------------------------------------------------ event lists *)

Lemma accounted_app a b : accounted (a ++ b) = accounted a ++ accounted b.
Proof. induction a as [|[i|i|s n] a IH]; cbn; now rewrite ?IH. Qed.
Lemma cloned_app a b : cloned (a ++ b) = cloned a ++ cloned b.
Proof. induction a as [|[i|i|s n] a IH]; cbn; now rewrite ?IH. Qed.
Lemma accounted_drops l : accounted (map Drop l) = l.
Proof. induction l as [|x l IH]; cbn; now rewrite ?IH. Qed.
Lemma accounted_hands l : accounted (map Hand l) = l.
Proof. induction l as [|x l IH]; cbn; now rewrite ?IH. Qed.
Lemma cloned_drops l : cloned (map Drop l) = [].
Proof. induction l as [|x l IH]; cbn; auto. Qed.
Lemma cloned_hands l : cloned (map Hand l) = [].
Proof. induction l as [|x l IH]; cbn; auto. Qed.

(** the [Clone::clone] calls of one clone loop: element [j] of [src] yields identity [n + j] *)
Fixpoint cl_events (src : list Z) (n : Z) : list event :=
  match src with [] => [] | x :: r => Cl x n :: cl_events r (n + 1) end.

Lemma cl_events_snoc : forall src n x,
  cl_events (src ++ [x]) n = cl_events src n ++ [Cl x (n + Z.of_nat (length src))%Z].
Proof.
  induction src as [|y r IH]; intros n x; cbn [cl_events app length].
  - do 2 f_equal. lia.
  - rewrite IH. cbn [app]. do 4 f_equal. lia.
Qed.
Lemma accounted_cl : forall src n, accounted (cl_events src n) = [].
Proof. induction src as [|x r IH]; intro n; cbn; auto. Qed.
Lemma cloned_cl : forall src n, cloned (cl_events src n) = zs n (length src).
Proof. induction src as [|x r IH]; intro n; cbn; [reflexivity | now rewrite IH]. Qed.

(** freshness of clone identities along a trace.  [b] is a strict upper bound of every
    identity that exists so far; a clone identity is at or above it.  (Pushed identities
    enter silently; they only ever raise the bound.) *)
Fixpoint fresh_tr (b : Z) (ev : list event) : Prop :=
  match ev with
  | [] => True
  | Cl _ n :: r => (b <= n)%Z /\ fresh_tr (n + 1) r
  | Hand i :: r | Drop i :: r => fresh_tr (Z.max b (i + 1)) r
  end.

Lemma fresh_tr_antitone : forall ev b b', (b' <= b)%Z -> fresh_tr b ev -> fresh_tr b' ev.
Proof.
  induction ev as [|[i|i|s n] ev IH]; intros b b' Hle H; cbn [fresh_tr] in *; auto.
  - apply (IH (Z.max b (i + 1))); [lia | assumption].
  - apply (IH (Z.max b (i + 1))); [lia | assumption].
  - destruct H as [H1 H2]. split; [lia | assumption].
Qed.

Lemma fresh_tr_app : forall a b b' c,
  fresh_tr b a -> (forall i, In i (accounted a) \/ In i (cloned a) -> (i < b')%Z) -> (b <= b')%Z ->
  fresh_tr b' c -> fresh_tr b (a ++ c).
Proof.
  induction a as [|[i|i|s n] a IH]; intros b b' c Ha Hlt Hle Hc; cbn [fresh_tr app] in *.
  - now apply (fresh_tr_antitone c b').
  - apply (IH _ b'); auto.
    + intros j Hj. apply Hlt. cbn. tauto.
    + specialize (Hlt i). cbn in Hlt. lia.
  - apply (IH _ b'); auto.
    + intros j Hj. apply Hlt. cbn. tauto.
    + specialize (Hlt i). cbn in Hlt. lia.
  - destruct Ha as [H1 H2]. split; [assumption|]. apply (IH _ b'); auto.
    + intros j Hj. apply Hlt. cbn. tauto.
    + specialize (Hlt n). cbn in Hlt. lia.
Qed.

Lemma fresh_tr_no_clone : forall ev b, cloned ev = [] -> fresh_tr b ev.
Proof.
  induction ev as [|[i|i|s n] ev IH]; intros b H; cbn in *; auto; discriminate.
Qed.

Lemma fresh_tr_cl : forall src n tail, cloned tail = [] -> fresh_tr n (cl_events src n ++ tail).
Proof.
  induction src as [|x r IH]; intros n tail Ht; cbn [cl_events app fresh_tr].
  - now apply fresh_tr_no_clone.
  - split; [lia | now apply IH].
Qed.

(** the readable form: a clone identity is at or above the bound and differs from every
    identity handed over, dropped or cloned earlier in the trace *)
Lemma fresh_tr_split : forall pre b s n post,
  fresh_tr b (pre ++ Cl s n :: post) ->
  (b <= n)%Z /\ ~ In n (accounted pre) /\ ~ In n (cloned pre).
Proof.
  induction pre as [|[i|i|s' n'] pre IH]; intros b s n post H; cbn [app fresh_tr] in H.
  - destruct H as [H _]. cbn. tauto.
  - apply IH in H. destruct H as [H1 [H2 H3]]. cbn. repeat split; [lia | | assumption].
    intros [E | E]; [lia | contradiction].
  - apply IH in H. destruct H as [H1 [H2 H3]]. cbn. repeat split; [lia | | assumption].
    intros [E | E]; [lia | contradiction].
  - destruct H as [H0 H]. apply IH in H. destruct H as [H1 [H2 H3]]. cbn.
    repeat split; [lia | assumption |]. intros [E | E]; [lia | contradiction].
Qed.

(* ------------------------------------------------------------------ the object table *)

(** the identities an object owns, in slot order *)
Definition obj_ids (o : obj) : list Z :=
  match o with
  | OC c => slot_ids (c_slots c)
  | OB b => slot_ids (b_slots b)
  | Gone => []
  end.

(** every live object satisfies its representation invariant *)
Definition obj_ok (o : obj) : Prop :=
  match o with
  | OC c => exists live, c_rep c live
  | OB b => exists live, b_rep b live
  | Gone => True
  end.

Definition objs_ids (os : list obj) : list Z := flat_map obj_ids os.
Definition world_ids (w : world) : list Z := objs_ids (w_objs w).

(** the invariant over the whole table: every object is well-formed, no identity is owned
    twice (within one object or by two objects), and every owned identity is below the
    fresh-identity counter *)
Definition world_ok (w : world) : Prop :=
  Forall obj_ok (w_objs w) /\ NoDup (world_ids w) /\ forall i, In i (world_ids w) -> (i < w_next w)%Z.

Lemma objs_ids_app a b : objs_ids (a ++ b) = objs_ids a ++ objs_ids b.
Proof. apply flat_map_app. Qed.

Lemma get_obj_ok w k : Forall obj_ok (w_objs w) -> obj_ok (get_obj w k).
Proof.
  intro H. unfold get_obj. destruct (nth_in_or_default k (w_objs w) Gone) as [Hin | ->]; [|exact I].
  rewrite Forall_forall in H. now apply H.
Qed.

(** a live object sits at a valid index; replacing it touches nothing else *)
Lemma nth_split_set : forall (l : list obj) k, nth k l Gone <> Gone ->
  exists a b, l = a ++ nth k l Gone :: b /\ length a = k /\ forall v, set_nth l k v = a ++ v :: b.
Proof.
  induction l as [|x l IH]; intros k H.
  - destruct k; cbn in H; congruence.
  - destruct k as [|k].
    + exists [], l. cbn. auto.
    + cbn [nth] in *. destruct (IH k H) as [a [b [E [L S]]]].
      exists (x :: a), b. cbn [app length set_nth]. repeat split; [congruence | congruence |].
      intro v. now rewrite S.
Qed.

Lemma set_obj_facts w k o' : get_obj w k <> Gone -> Forall obj_ok (w_objs w) -> obj_ok o' ->
  Forall obj_ok (w_objs (set_obj w k o')) /\
  forall i, occ (world_ids (set_obj w k o')) i + occ (obj_ids (get_obj w k)) i
            = occ (world_ids w) i + occ (obj_ids o') i.
Proof.
  intros Hg Hall Ho. unfold get_obj in *.
  destruct (nth_split_set (w_objs w) k Hg) as [a [b [E [L S]]]].
  unfold set_obj, world_ids. cbn [w_objs]. rewrite S.
  remember (nth k (w_objs w) Gone) as o eqn:Eo. clear Eo S Hg. rewrite E in *. clear E. split.
  - apply Forall_app in Hall as [Ha Hb]. inversion Hb; subst.
    apply Forall_app. split; [assumption | constructor; assumption].
  - intro i. rewrite !objs_ids_app. unfold objs_ids. cbn [flat_map].
    rewrite !occ_app. lia.
Qed.

Lemma obj_ok_view o : obj_ok o -> obj_view o <> None.
Proof.
  destruct o as [c|b|]; cbn; intro H; try discriminate.
  - destruct H as [live H]. now rewrite (c_as_slice_rep _ _ H).
  - destruct H as [live H]. now rewrite (b_as_slice_rep _ _ H).
Qed.

Lemma obj_ok_drop o : obj_ok o -> obj_drop o = Some (map Drop (obj_ids o)).
Proof.
  destruct o as [c|b|]; cbn; intro H; try reflexivity.
  - destruct H as [live H]. now rewrite (c_drop_rep _ _ H), (c_rep_ids _ _ H).
  - destruct H as [live H]. now rewrite (b_drop_rep _ _ H), (b_rep_ids _ _ H).
Qed.

(** dropping everything that is still alive destroys exactly what the table owns *)
Lemma drop_all_ok : forall os, Forall obj_ok os -> drop_all os = Some (map Drop (objs_ids os)).
Proof.
  induction os as [|o r IH]; intro H; [reflexivity|].
  inversion H; subst. cbn [drop_all]. rewrite (obj_ok_drop o), IH by assumption.
  unfold objs_ids. cbn [flat_map]. now rewrite map_app.
Qed.

(** the identity part of [world_ok] follows from the accounting equation of a step *)
Lemma ids_ok_from_equation w ids' n' :
  world_ok w -> (w_next w <= n')%Z ->
  (forall i, occ ids' i <= occ (world_ids w) i + between (w_next w) n' i) ->
  NoDup ids' /\ forall i, In i ids' -> (i < n')%Z.
Proof.
  intros [_ [Hnd Hlt]] Hle Heq. split.
  - apply occ_NoDup. intro i. specialize (Heq i).
    pose proof (proj1 (occ_NoDup _) Hnd i) as H1. pose proof (between_le (w_next w) n' i) as H2.
    destruct (Nat.eq_dec (occ (world_ids w) i) 0) as [E | E]; [lia|].
    assert (Hin : In i (world_ids w)) by (apply occ_In; lia).
    apply Hlt in Hin. assert (between (w_next w) n' i = 0) by (apply between_zero; lia). lia.
  - intros i Hin. apply occ_In in Hin. specialize (Heq i).
    destruct (Nat.eq_dec (occ (world_ids w) i) 0) as [E | E].
    + assert (between (w_next w) n' i > 0) by lia. apply between_pos in H. lia.
    + assert (Hin' : In i (world_ids w)) by (apply occ_In; lia). apply Hlt in Hin'. lia.
Qed.

(* ------------------------------------------------------------------ Clone *)

(** split conjunctions without unfolding definitions *)
Ltac splits := repeat match goal with |- _ /\ _ => split end.

(** the loop of [ArrayConsumer::clone]: with [done] already written, it clones a prefix
    [pre] of [src] (all of it unless a [T::clone] panicked) into fresh identities, and
    the partially built clone satisfies the invariant after every iteration *)
Lemma c_clone_loop_spec : forall src i this n bomb ev done,
  c_rep this done -> c_tf this = 0 -> length done = i -> length src <= c_tb this ->
  exists pre this' p,
    c_clone_loop src i this n bomb ev
      = (this', (n + Z.of_nat (length pre))%Z, ev ++ cl_events pre n, p) /\
    is_prefix pre src /\ (p = false -> pre = src) /\
    c_rep this' (done ++ zs n (length pre)) /\ c_cap this' = c_cap this.
Proof.
  induction src as [|x r IH]; intros i this n bomb ev done Hrep Htf Hlen Hroom.
  - exists [], this, false. cbn [c_clone_loop cl_events length zs]. rewrite Z.add_0_r, !app_nil_r.
    repeat split; auto. now exists [].
  - cbn [c_clone_loop].
    assert (Hstep : forall bomb',
      exists pre this' p,
        c_clone_loop r (S i) (mkC (set_slot (c_slots this) i (Live n)) (c_tf this) (c_tb this - 1))
          (n + 1)%Z bomb' (ev ++ [Cl x n])
          = (this', (n + Z.of_nat (length pre))%Z, ev ++ cl_events pre n, p) /\
        is_prefix pre (x :: r) /\ (p = false -> pre = x :: r) /\
        c_rep this' (done ++ zs n (length pre)) /\ c_cap this' = c_cap this).
    { intro bomb'. cbn [length] in Hroom.
      set (this1 := mkC (set_slot (c_slots this) i (Live n)) (c_tf this) (c_tb this - 1)).
      assert (Hrep1 : c_rep this1 (done ++ [n])).
      { unfold c_rep in *. cbn [c_slots c_tf c_tb this1]. rewrite Hrep, Htf. cbn [repeat app].
        replace (c_tb this) with (S (c_tb this - 1)) at 1 by lia. cbn [repeat].
        rewrite <- Hlen, <- (map_length Live done), set_slot_mid, map_app. cbn [map].
        now rewrite <- app_assoc. }
      assert (Hcap1 : c_cap this1 = c_cap this)
        by (unfold c_cap; cbn [c_slots this1]; apply set_slot_length).
      destruct (IH (S i) this1 (n + 1)%Z bomb' (ev ++ [Cl x n]) (done ++ [n]) Hrep1)
        as [pre [this' [p [E [[t Hpre] [Hp [Hrep' Hcap']]]]]]].
      - exact Htf.
      - rewrite app_length. cbn [length]. lia.
      - cbn [c_tb this1]. lia.
      - exists (x :: pre), this', p. cbn [length cl_events zs]. rewrite E. repeat split.
        + rewrite <- app_assoc. cbn [app].
          now replace (n + 1 + Z.of_nat (length pre))%Z with (n + Z.of_nat (S (length pre)))%Z by lia.
        + exists t. cbn. now rewrite Hpre.
        + intro Hf. now rewrite (Hp Hf).
        + now rewrite <- app_assoc in Hrep'.
        + congruence. }
    destruct bomb as [[|j]|].
    + exists [], this, true. cbn [cl_events length zs]. rewrite Z.add_0_r, !app_nil_r.
      repeat split; auto; [now exists (x :: r) | discriminate].
    + apply Hstep.
    + apply Hstep.
Qed.

(** [ArrayConsumer::clone]: never UB; either a well-formed clone owning one fresh identity
    per live element, or (a [T::clone] panicked) every identity cloned so far is dropped *)
Lemma c_clone_spec c live n bomb : c_rep c live ->
  exists pre oc tail,
    c_clone c n bomb = Some (oc, (n + Z.of_nat (length pre))%Z, cl_events pre n ++ tail) /\
    is_prefix pre live /\
    match oc with
    | Some c' => c_rep c' (zs n (length pre)) /\ pre = live /\ tail = []
    | None => tail = map Drop (zs n (length pre))
    end.
Proof.
  intro Hrep. unfold c_clone. rewrite (c_as_slice_rep _ _ Hrep).
  destruct (c_clone_loop_spec live 0 (mkC (repeat Moved (c_cap c)) 0 (c_cap c)) n bomb [] [])
    as [pre [this' [p [E [Hpre [Hp [Hrep' Hcap']]]]]]].
  - unfold c_rep. reflexivity.
  - reflexivity.
  - reflexivity.
  - cbn [c_tb]. destruct (c_rep_len _ _ Hrep) as [H _]. lia.
  - rewrite E. cbn [app] in *. destruct p.
    + rewrite (c_drop_rep _ _ Hrep'). exists pre, None, (map Drop (zs n (length pre))). auto.
    + exists pre, (Some this'), []. rewrite app_nil_r. repeat split; auto.
Qed.

Lemma b_clone_loop_spec : forall src this n bomb ev done,
  b_rep this done -> length done + length src <= b_cap this ->
  exists pre this' p,
    b_clone_loop src this n bomb ev
      = (this', (n + Z.of_nat (length pre))%Z, ev ++ cl_events pre n, p) /\
    is_prefix pre src /\ (p = false -> pre = src) /\
    b_rep this' (done ++ zs n (length pre)) /\ b_cap this' = b_cap this.
Proof.
  induction src as [|x r IH]; intros this n bomb ev done Hrep Hroom.
  - exists [], this, false. cbn [b_clone_loop cl_events length zs]. rewrite Z.add_0_r, !app_nil_r.
    splits; auto. now exists [].
  - cbn [b_clone_loop]. cbn [length] in Hroom.
    destruct (b_push_rep_room this done n Hrep) as [this1 [Hp1 [Hrep1 Hcap1]]]; [lia|].
    rewrite Hp1.
    assert (Hstep : forall bomb',
      exists pre this' p,
        b_clone_loop r this1 (n + 1)%Z bomb' (ev ++ [Cl x n])
          = (this', (n + Z.of_nat (length pre))%Z, ev ++ cl_events pre n, p) /\
        is_prefix pre (x :: r) /\ (p = false -> pre = x :: r) /\
        b_rep this' (done ++ zs n (length pre)) /\ b_cap this' = b_cap this).
    { intro bomb'.
      destruct (IH this1 (n + 1)%Z bomb' (ev ++ [Cl x n]) (done ++ [n]) Hrep1)
        as [pre [this' [p [E [[t Hpre] [Hp [Hrep' Hcap']]]]]]].
      - rewrite app_length, Hcap1. cbn [length]. lia.
      - exists (x :: pre), this', p. cbn [length cl_events zs]. rewrite E. splits.
        + rewrite <- app_assoc. cbn [app].
          now replace (n + 1 + Z.of_nat (length pre))%Z with (n + Z.of_nat (S (length pre)))%Z by lia.
        + exists t. cbn. now rewrite Hpre.
        + intro Hf. now rewrite (Hp Hf).
        + now rewrite <- app_assoc in Hrep'.
        + congruence. }
    destruct bomb as [[|j]|].
    + exists [], this, true. cbn [cl_events length zs]. rewrite Z.add_0_r, !app_nil_r.
      splits; auto; [now exists (x :: r) | discriminate].
    + apply Hstep.
    + apply Hstep.
Qed.

Lemma b_clone_spec b live n bomb : b_rep b live ->
  exists pre ob tail,
    b_clone b n bomb = Some (ob, (n + Z.of_nat (length pre))%Z, cl_events pre n ++ tail) /\
    is_prefix pre live /\
    match ob with
    | Some b' => b_rep b' (zs n (length pre)) /\ pre = live /\ tail = []
    | None => tail = map Drop (zs n (length pre))
    end.
Proof.
  intro Hrep. unfold b_clone. rewrite (b_as_slice_rep _ _ Hrep).
  destruct (b_clone_loop_spec live (b_new (b_cap b)) n bomb [] [] (b_new_rep _))
    as [pre [this' [p [E [Hpre [Hp [Hrep' Hcap']]]]]]].
  - destruct Hrep as [_ [_ Hle]]. cbn [length]. unfold b_cap at 1, b_new. cbn [b_slots].
    rewrite repeat_length. lia.
  - rewrite E. cbn [app] in *. destruct p.
    + rewrite (b_drop_rep _ _ Hrep'). exists pre, None, (map Drop (zs n (length pre))). auto.
    + exists pre, (Some this'), []. rewrite app_nil_r. splits; auto.
Qed.

(* ------------------------------------------------------------------ clone sources *)

(** the source of every [Cl] event of a step is owned by the table when the step starts,
    and the step hands over or drops nothing before its [T::clone] calls *)
Definition src_ok (w : world) (ev : list event) : Prop :=
  forall pre s n post, ev = pre ++ Cl s n :: post -> In s (world_ids w) /\ accounted pre = [].

Lemma src_ok_no_clone w ev : cloned ev = [] -> src_ok w ev.
Proof.
  intros H pre s n post E. rewrite E, cloned_app in H. cbn [cloned] in H.
  destruct (cloned pre); discriminate.
Qed.

Lemma cl_events_split : forall l m tail pre s n post,
  cloned tail = [] -> cl_events l m ++ tail = pre ++ Cl s n :: post ->
  In s l /\ accounted pre = [].
Proof.
  induction l as [|x r IH]; intros m tail pre s n post Ht E; cbn [cl_events app] in E.
  - exfalso. rewrite E, cloned_app in Ht. cbn [cloned] in Ht. destruct (cloned pre); discriminate.
  - destruct pre as [|e pre]; cbn [app] in E.
    + inversion E; subst. split; [now left | reflexivity].
    + inversion E; subst. destruct (IH _ _ _ _ _ _ Ht H1) as [H2 H3]. split; [now right | exact H3].
Qed.

Lemma get_obj_ids_in w k s : In s (obj_ids (get_obj w k)) -> In s (world_ids w).
Proof.
  unfold get_obj, world_ids, objs_ids. intro H.
  destruct (nth_in_or_default k (w_objs w) Gone) as [Hin | E].
  - apply in_flat_map. eauto.
  - rewrite E in H. contradiction.
Qed.

(* ------------------------------------------------------------------ one step *)

(** identities leaked by an explicit [mem::forget] of a whole object *)
Definition step_leak (w : world) (o : op) : list Z :=
  match o with OForget k => obj_ids (get_obj w k) | _ => [] end.

(** the identity created by a [push] (also when the push panics and drops it at once) *)
Definition step_pushed (w : world) (o : op) : list Z :=
  match o with
  | OPush k => match get_obj w k with OB _ => [w_next w] | _ => [] end
  | _ => []
  end.

(** what every step guarantees: the table stays well-formed, the counter only grows, and
    (1) what the table owned before plus the identities created by the step = what the
        step handed over or dropped + what the table owns afterwards + what it leaked;
    (2) the identities created by the step are exactly its clone and push identities;
    (3) its clone identities are fresh;
    (4) the sources of its clones are owned by the table when the step starts *)
Definition step_post (w : world) (o : op) (w' : world) (ev : list event) : Prop :=
  Forall obj_ok (w_objs w') /\ (w_next w <= w_next w')%Z /\
  (forall i, occ (world_ids w) i + between (w_next w) (w_next w') i
             = occ (accounted ev) i + occ (world_ids w') i + occ (step_leak w o) i) /\
  (forall i, between (w_next w) (w_next w') i = occ (cloned ev) i + occ (step_pushed w o) i) /\
  fresh_tr (w_next w) ev /\ src_ok w ev.

Lemma post_set w o k o' ev :
  Forall obj_ok (w_objs w) -> get_obj w k <> Gone -> obj_ok o' ->
  cloned ev = [] -> step_pushed w o = [] ->
  (forall i, occ (obj_ids (get_obj w k)) i
             = occ (accounted ev) i + occ (obj_ids o') i + occ (step_leak w o) i) ->
  step_post w o (set_obj w k o') ev.
Proof.
  intros Hall Hg Ho Hcl Hpu Heq.
  destruct (set_obj_facts w k o' Hg Hall Ho) as [Hall' Hids].
  unfold step_post. splits.
  - exact Hall'.
  - cbn. lia.
  - intro i. cbn [set_obj w_next]. rewrite between_empty.
    specialize (Hids i). specialize (Heq i). lia.
  - intro i. cbn [set_obj w_next]. now rewrite between_empty, Hcl, Hpu.
  - now apply fresh_tr_no_clone.
  - now apply src_ok_no_clone.
Qed.

(** a finished clone (new object appended) or a panicked one (everything cloned so far
    dropped again): the accounting of both *)
Lemma post_clone w k bomb (newo : option obj) pre tail :
  world_ok w -> (forall s, In s pre -> In s (world_ids w)) ->
  match newo with
  | Some o' => obj_ok o' /\ obj_ids o' = zs (w_next w) (length pre) /\ tail = []
  | None => tail = map Drop (zs (w_next w) (length pre))
  end ->
  step_post w (OClone k bomb)
    (mkW (match newo with Some o' => w_objs w ++ [o'] | None => w_objs w end)
         (w_next w + Z.of_nat (length pre))%Z)
    (cl_events pre (w_next w) ++ tail).
Proof.
  intros [Hall _] Hsrc Hnew. unfold step_post. cbn [w_next w_objs step_leak step_pushed].
  assert (Htl : cloned tail = []).
  { destruct newo as [o'|]; [now destruct Hnew as [_ [_ ->]] | rewrite Hnew; apply cloned_drops]. }
  assert (Hcl : cloned (cl_events pre (w_next w) ++ tail) = zs (w_next w) (length pre)).
  { rewrite cloned_app, cloned_cl. destruct newo as [o'|].
    - destruct Hnew as [_ [_ ->]]. apply app_nil_r.
    - rewrite Hnew, cloned_drops. apply app_nil_r. }
  splits.
  - destruct newo as [o'|]; [|assumption]. apply Forall_app. split; [assumption|].
    constructor; [tauto | constructor].
  - lia.
  - intro i. rewrite accounted_app, accounted_cl, <- occ_zs. cbn [app]. unfold world_ids. cbn [w_objs].
    destruct newo as [o'|].
    + destruct Hnew as [_ [Hids ->]]. rewrite objs_ids_app. unfold objs_ids at 3. cbn [flat_map accounted].
      rewrite app_nil_r, Hids, occ_app, !occ_nil. lia.
    + rewrite Hnew, accounted_drops, !occ_nil. lia.
  - intro i. rewrite Hcl, occ_zs, occ_nil. lia.
  - now apply fresh_tr_cl.
  - intros p s n post E. destruct (cl_events_split _ _ _ _ _ _ _ Htl E) as [H1 H2]. auto.
Qed.

Lemma step_ok w o : world_ok w ->
  match step w o with
  | StepUB => False
  | StepInvalid => True
  | StepOk w' _ ev => step_post w o w' ev
  end.
Proof.
  intros Hok. pose proof Hok as [Hall [Hnd Hlt]].
  destruct o as [k|k|k bomb|k|k|k|k|k]; cbn [step];
    pose proof (get_obj_ok w k Hall) as Hobj;
    destruct (get_obj w k) as [c|b|] eqn:Eg; try exact I;
    assert (Hg : get_obj w k <> Gone) by (rewrite Eg; discriminate);
    cbn [obj_ok] in Hobj; destruct Hobj as [live Hrep].
  - (* next *)
    destruct live as [|x r].
    + rewrite (c_next_rep_nil _ Hrep). apply post_set; auto; [cbn; eauto|].
      intro i. rewrite Eg. cbn. lia.
    + destruct (c_next_rep_cons _ _ _ Hrep) as [c' [Hn [Hrep' _]]]. rewrite Hn.
      apply post_set; auto; [cbn; eauto|].
      intro i. rewrite Eg. cbn [obj_ids accounted step_leak].
      rewrite (c_rep_ids _ _ Hrep), (c_rep_ids _ _ Hrep'), (occ_cons x r), occ_nil. lia.
  - (* next_back *)
    destruct (list_snoc_cases live) as [-> | [r [x ->]]].
    + rewrite (c_next_back_rep_nil _ Hrep). apply post_set; auto; [cbn; eauto|].
      intro i. rewrite Eg. cbn. lia.
    + destruct (c_next_back_rep_snoc _ _ _ Hrep) as [c' [Hn [Hrep' _]]]. rewrite Hn.
      apply post_set; auto; [cbn; eauto|].
      intro i. rewrite Eg. cbn [obj_ids accounted step_leak].
      rewrite (c_rep_ids _ _ Hrep), (c_rep_ids _ _ Hrep'), occ_app, occ_nil. lia.
  - (* clone of a consumer *)
    destruct (c_clone_spec c live (w_next w) bomb Hrep) as [pre [oc [tail [E [[t Hpre] Hoc]]]]].
    assert (Hsrc : forall s, In s pre -> In s (world_ids w)).
    { intros s Hs. apply (get_obj_ids_in w k). rewrite Eg. cbn [obj_ids].
      rewrite (c_rep_ids _ _ Hrep), Hpre. apply in_or_app. now left. }
    rewrite E. destruct oc as [c'|].
    + destruct Hoc as [Hrep' [_ Ht]].
      apply (post_clone w k bomb (Some (OC c')) pre tail Hok Hsrc). splits; [cbn; eauto | | assumption].
      cbn. apply (c_rep_ids _ _ Hrep').
    + apply (post_clone w k bomb None pre tail Hok Hsrc). assumption.
  - (* clone of a builder *)
    destruct (b_clone_spec b live (w_next w) bomb Hrep) as [pre [ob [tail [E [[t Hpre] Hob]]]]].
    assert (Hsrc : forall s, In s pre -> In s (world_ids w)).
    { intros s Hs. apply (get_obj_ids_in w k). rewrite Eg. cbn [obj_ids].
      rewrite (b_rep_ids _ _ Hrep), Hpre. apply in_or_app. now left. }
    rewrite E. destruct ob as [b'|].
    + destruct Hob as [Hrep' [_ Ht]].
      apply (post_clone w k bomb (Some (OB b')) pre tail Hok Hsrc). splits; [cbn; eauto | | assumption].
      cbn. apply (b_rep_ids _ _ Hrep').
    + apply (post_clone w k bomb None pre tail Hok Hsrc). assumption.
  - (* drop of a consumer *)
    cbn [obj_drop]. rewrite (c_drop_rep _ _ Hrep). apply post_set; auto; [exact I | apply cloned_drops |].
    intro i. rewrite Eg, accounted_drops. cbn [obj_ids step_leak]. rewrite (c_rep_ids _ _ Hrep), !occ_nil. lia.
  - (* drop of a builder *)
    cbn [obj_drop]. rewrite (b_drop_rep _ _ Hrep). apply post_set; auto; [exact I | apply cloned_drops |].
    intro i. rewrite Eg, accounted_drops. cbn [obj_ids step_leak]. rewrite (b_rep_ids _ _ Hrep), !occ_nil. lia.
  - (* assert_is_empty *)
    unfold c_is_empty. destruct (c_rep_len _ _ Hrep) as [_ ->].
    destruct live as [|x r]; cbn [length Nat.eqb].
    + apply post_set; auto; [exact I|].
      intro i. rewrite Eg. cbn [obj_ids]. rewrite (c_rep_ids _ _ Hrep). cbn. lia.
    + rewrite (c_drop_rep _ _ Hrep). apply post_set; auto; [exact I | apply cloned_drops |].
      intro i. rewrite Eg, accounted_drops. cbn [obj_ids step_leak].
      rewrite (c_rep_ids _ _ Hrep), !occ_nil. lia.
  - (* forget of a consumer *)
    apply post_set; auto; exact I.
  - (* forget of a builder *)
    apply post_set; auto; exact I.
  - (* push *)
    destruct (Nat.eq_dec (length live) (b_cap b)) as [Hfull | Hroom].
    + rewrite (b_push_rep_full b live (w_next w) Hrep Hfull).
      unfold step_post. cbn [w_next w_objs step_leak step_pushed accounted cloned fresh_tr].
      rewrite Eg. splits; [assumption | lia | | | exact I | now apply src_ok_no_clone].
      * intro i. unfold world_ids. cbn [w_objs]. rewrite between_one, occ_nil. lia.
      * intro i. rewrite between_one, occ_nil. lia.
    + destruct Hrep as [Hi [Hs Hle]].
      destruct (b_push_rep_room b live (w_next w) (conj Hi (conj Hs Hle))) as [b' [Hp [Hrep' _]]]; [lia|].
      rewrite Hp.
      destruct (set_obj_facts w k (OB b') Hg Hall) as [Hall' Hids]; [cbn; eauto|].
      unfold step_post. cbn [w_next w_objs step_leak step_pushed accounted cloned fresh_tr].
      rewrite Eg. splits; [exact Hall' | lia | | | exact I | now apply src_ok_no_clone].
      * intro i. specialize (Hids i). unfold set_obj, world_ids in *. cbn [w_objs] in *.
        rewrite Eg in Hids. cbn [obj_ids] in Hids.
        rewrite (b_rep_ids _ _ (conj Hi (conj Hs Hle))), (b_rep_ids _ _ Hrep'), occ_app in Hids.
        rewrite between_one, !occ_nil. lia.
      * intro i. rewrite between_one, occ_nil. lia.
  - (* build *)
    rewrite (b_build_rep _ _ Hrep). destruct (length live =? b_cap b).
    + apply post_set; auto; [exact I | apply cloned_hands |].
      intro i. rewrite Eg, accounted_hands. cbn [obj_ids step_leak]. rewrite (b_rep_ids _ _ Hrep), !occ_nil. lia.
    + rewrite (b_drop_rep _ _ Hrep). apply post_set; auto; [exact I | apply cloned_drops |].
      intro i. rewrite Eg, accounted_drops. cbn [obj_ids step_leak]. rewrite (b_rep_ids _ _ Hrep), !occ_nil. lia.
Qed.

Lemma step_post_world_ok w o w' ev : world_ok w -> step_post w o w' ev -> world_ok w'.
Proof.
  intros Hok [Hall' [Hle [Heq _]]].
  destruct (ids_ok_from_equation w (world_ids w') (w_next w') Hok Hle) as [Hnd Hlt].
  - intro i. specialize (Heq i). lia.
  - unfold world_ok. auto.
Qed.

(* ------------------------------------------------------------------ whole histories *)

(** replay of a history: the identities leaked by explicit forgets, and those created by
    pushes (the ledger has no event for either) *)
Fixpoint leaked (w : world) (ops : list op) : list Z :=
  match ops with
  | [] => []
  | o :: r => match step w o with
              | StepOk w' _ _ => step_leak w o ++ leaked w' r
              | _ => []
              end
  end.
Fixpoint pushed (w : world) (ops : list op) : list Z :=
  match ops with
  | [] => []
  | o :: r => match step w o with
              | StepOk w' _ _ => step_pushed w o ++ pushed w' r
              | _ => []
              end
  end.

Definition evs (os : list obs) : list event :=
  flat_map (fun o : ret * view * list event => snd o) os.

Lemma evs_lt n0 n ids0 ev :
  (n0 <= n)%Z -> (forall i, In i ids0 -> (i < n0)%Z) ->
  (forall i, occ ids0 i + between n0 n i >= occ (accounted ev) i) ->
  (forall i, between n0 n i >= occ (cloned ev) i) ->
  forall i, In i (accounted ev) \/ In i (cloned ev) -> (i < n)%Z.
Proof.
  intros Hle Hlt Ha Hc i [Hi | Hi]; apply occ_In in Hi.
  - specialize (Ha i). destruct (Nat.eq_dec (occ ids0 i) 0) as [E | E].
    + assert (H : between n0 n i > 0) by lia. apply between_pos in H. lia.
    + assert (Hin : In i ids0) by (apply occ_In; lia). apply Hlt in Hin. lia.
  - specialize (Hc i). assert (H : between n0 n i > 0) by lia. apply between_pos in H. lia.
Qed.

Lemma app_split_mid {A} : forall (a c pre : list A) x post,
  a ++ c = pre ++ x :: post ->
  (exists t, a = pre ++ x :: t) \/ (exists l, pre = a ++ l /\ c = l ++ x :: post).
Proof.
  intros a c pre x post E. apply app_eq_app in E. destruct E as [l [[E1 E2] | [E1 E2]]].
  - destruct l as [|e l]; cbn [app] in E2.
    + right. exists []. rewrite app_nil_r in *. subst. auto.
    + inversion E2; subst. left. now exists l.
  - right. now exists l.
Qed.

Lemma between_cases a b i :
  (between a b i = 1 /\ (a <= i < b)%Z) \/ (between a b i = 0 /\ ~ (a <= i < b)%Z).
Proof.
  pose proof (between_le a b i). destruct (Nat.eq_dec (between a b i) 0) as [E | E].
  - right. split; [assumption | now apply between_zero].
  - left. split; [lia | apply between_pos; lia].
Qed.

Lemma world_ok_occ w i : world_ok w ->
  occ (world_ids w) i <= 1 /\ (occ (world_ids w) i > 0 -> (i < w_next w)%Z).
Proof.
  intros [_ [Hnd Hlt]]. split; [now apply occ_NoDup|]. intro H. apply Hlt. now apply occ_In.
Qed.

(** where the source of a clone comes from: an identity created before (initial, pushed or
    cloned earlier) that has not been handed over or dropped so far *)
Definition srcs_live (ids0 pu : list Z) (ev : list event) : Prop :=
  forall pre s n post, ev = pre ++ Cl s n :: post ->
    In s (ids0 ++ pu ++ cloned pre) /\ ~ In s (accounted pre) /\ (s < n)%Z.

(** the invariant carried along a whole history *)
Lemma run_inv : forall ops w0, world_ok w0 ->
  match run w0 ops with
  | RunUB => False
  | RunInvalid => True
  | RunOk w os =>
      world_ok w /\ (w_next w0 <= w_next w)%Z /\
      (forall i, occ (world_ids w0) i + between (w_next w0) (w_next w) i
                 = occ (accounted (evs os)) i + occ (world_ids w) i + occ (leaked w0 ops) i) /\
      (forall i, between (w_next w0) (w_next w) i
                 = occ (cloned (evs os)) i + occ (pushed w0 ops) i) /\
      fresh_tr (w_next w0) (evs os) /\
      srcs_live (world_ids w0) (pushed w0 ops) (evs os)
  end.
Proof.
  induction ops as [|o r IH]; intros w0 Hok; cbn [run leaked pushed].
  - cbn [evs flat_map accounted cloned fresh_tr]. splits; auto; try lia.
    + intro i. rewrite between_empty, !occ_nil. lia.
    + intro i. rewrite between_empty, !occ_nil. lia.
    + intros pre s n post E. destruct pre; discriminate.
  - pose proof (step_ok w0 o Hok) as Hs. destruct (step w0 o) as [w1 rt ev| |]; try assumption.
    pose proof (step_post_world_ok _ _ _ _ Hok Hs) as Hok1.
    destruct Hs as [Hall1 [Hle1 [Heq1 [Hcl1 [Hfr1 Hsrc1]]]]].
    pose proof (obj_ok_view _ (get_obj_ok w1 (op_target o) Hall1)) as Hv.
    destruct (obj_view (get_obj w1 (op_target o))) as [sl|]; [|congruence].
    specialize (IH w1 Hok1). destruct (run w1 r) as [w os| |]; try assumption.
    destruct IH as [Hokw [Hle [Heq [Hcl [Hfr Hsrc]]]]].
    unfold evs in *. cbn [flat_map snd]. splits.
    + assumption.
    + lia.
    + intro i. rewrite accounted_app, !occ_app, (between_split _ (w_next w1)) by lia.
      specialize (Heq1 i). specialize (Heq i). lia.
    + intro i. rewrite cloned_app, !occ_app, (between_split _ (w_next w1)) by lia.
      specialize (Hcl1 i). specialize (Hcl i). lia.
    + apply (fresh_tr_app ev (w_next w0) (w_next w1)); auto.
      destruct Hok as [_ [_ Hlt0]].
      apply (evs_lt (w_next w0) (w_next w1) (world_ids w0)); auto.
      * intro i. specialize (Heq1 i). lia.
      * intro i. specialize (Hcl1 i). lia.
    + intros pre s n post E. apply app_split_mid in E. destruct E as [[t E] | [l [Ep E]]].
      * (* a clone of this very step *)
        destruct (Hsrc1 _ _ _ _ E) as [Hin Hacc]. rewrite Hacc. splits; [apply in_or_app; now left | intros [] |].
        destruct (world_ok_occ w0 s Hok) as [_ Hlt0]. apply occ_In in Hin.
        specialize (Hcl1 n). rewrite E, cloned_app in Hcl1. cbn [cloned] in Hcl1.
        rewrite occ_app, (occ_cons n) in Hcl1.
        assert (H1 : occ [n] n = 1) by (rewrite occ_one_eq; destruct (Z.eq_dec n n); congruence).
        destruct (between_cases (w_next w0) (w_next w1) n) as [[Hb Hr] | [Hb Hr]]; lia.
      * (* a clone of a later step *)
        destruct (Hsrc _ _ _ _ E) as [Hin [Hacc Hlt]]. subst pre.
        apply occ_In in Hin. apply occ_not_In in Hacc. rewrite !occ_app in Hin.
        pose proof (Heq1 s) as Heq1s. pose proof (Hcl1 s) as Hcl1s. pose proof (Hcl s) as Hcls.
        rewrite E, cloned_app, occ_app in Hcls.
        destruct (world_ok_occ w0 s Hok) as [Hw0a Hw0b].
        destruct (world_ok_occ w1 s Hok1) as [Hw1a Hw1b].
        destruct (between_cases (w_next w0) (w_next w1) s) as [[Hb1 Hr1] | [Hb1 Hr1]];
        destruct (between_cases (w_next w1) (w_next w) s) as [[Hb2 Hr2] | [Hb2 Hr2]];
          (splits; [apply occ_In; rewrite cloned_app, !occ_app; lia
                   | apply occ_not_In; rewrite accounted_app, occ_app; lia
                   | assumption]).
Qed.

(** no history from a well-formed table reads a moved-out or unwritten slot, the table is
    well-formed at the end, and the final drop of everything destroys exactly what it owns *)
Theorem history_no_ub : forall ops w0, world_ok w0 ->
  run w0 ops <> RunUB /\
  forall w os, run w0 ops = RunOk w os ->
    world_ok w /\ drop_all (w_objs w) = Some (map Drop (world_ids w)).
Proof.
  intros ops w0 Hok. pose proof (run_inv ops w0 Hok) as H. split.
  - intro E. now rewrite E in H.
  - intros w os E. rewrite E in H. destruct H as [Hw _]. split; [assumption|].
    apply drop_all_ok. now destruct Hw.
Qed.

Section History.
  Variables (w0 w : world) (ops : list op) (os : list obs) (fin : list event).
  Hypothesis Hok : world_ok w0.
  Hypothesis Hrun : run w0 ops = RunOk w os.
  Hypothesis Hfin : drop_all (w_objs w) = Some fin.

  Let ev := all_events os fin.

  Lemma history_facts :
    (w_next w0 <= w_next w)%Z /\
    (forall i, occ (accounted ev) i + occ (leaked w0 ops) i
               = occ (world_ids w0) i + between (w_next w0) (w_next w) i) /\
    (forall i, between (w_next w0) (w_next w) i = occ (cloned ev) i + occ (pushed w0 ops) i) /\
    fresh_tr (w_next w0) ev /\
    srcs_live (world_ids w0) (pushed w0 ops) ev.
  Proof.
    pose proof (run_inv ops w0 Hok) as H. rewrite Hrun in H.
    destruct H as [Hw [Hle [Heq [Hcl [Hfr Hsrc]]]]].
    assert (fin = map Drop (world_ids w)) as ->.
    { destruct Hw as [Hall _]. pose proof Hfin as Hf. rewrite (drop_all_ok _ Hall) in Hf.
      unfold world_ids. congruence. }
    subst ev. unfold all_events, evs in *. splits.
    - assumption.
    - intro i. rewrite accounted_app, accounted_drops, occ_app. specialize (Heq i). lia.
    - intro i. rewrite cloned_app, cloned_drops, app_nil_r. apply Hcl.
    - apply (fresh_tr_app _ (w_next w0) (w_next w)); auto.
      + destruct Hok as [_ [_ Hlt0]].
        apply (evs_lt (w_next w0) (w_next w) (world_ids w0)); auto.
        * intro i. specialize (Heq i). lia.
        * intro i. specialize (Hcl i). lia.
      + apply fresh_tr_no_clone, cloned_drops.
    - intros pre s n post E. apply app_split_mid in E. destruct E as [[t E] | [l [_ E]]].
      + exact (Hsrc _ _ _ _ E).
      + exfalso. apply (f_equal cloned) in E. rewrite cloned_drops, cloned_app in E.
        cbn [cloned] in E. destruct (cloned l); discriminate.
  Qed.

  (** the identities ever created: initial, pushed, cloned — pairwise distinct *)
  Definition created : list Z := world_ids w0 ++ pushed w0 ops ++ cloned ev.

  Lemma occ_created i : occ created i = occ (world_ids w0) i + between (w_next w0) (w_next w) i.
  Proof.
    destruct history_facts as [_ [_ [Hcl _]]]. unfold created. rewrite !occ_app, (Hcl i). lia.
  Qed.

  Theorem history_created_distinct : NoDup created.
  Proof.
    apply occ_NoDup. intro i. rewrite occ_created.
    destruct Hok as [_ [Hnd Hlt]].
    pose proof (proj1 (occ_NoDup _) Hnd i) as H1. pose proof (between_le (w_next w0) (w_next w) i) as H2.
    destruct (Nat.eq_dec (occ (world_ids w0) i) 0) as [E | E]; [lia|].
    assert (Hin : In i (world_ids w0)) by (apply occ_In; lia). apply Hlt in Hin.
    assert (between (w_next w0) (w_next w) i = 0) by (apply between_zero; lia). lia.
  Qed.

  (** THE history theorem: at the end of every history that drops everything, the
      identities handed over or dropped, together with those leaked by an explicit
      [forget], are exactly the identities ever created, each exactly once *)
  Theorem history_exactly_once : Permutation (accounted ev ++ leaked w0 ops) created.
  Proof.
    apply occ_Permutation. intro i. rewrite occ_app, occ_created.
    destruct history_facts as [_ [Heq _]]. apply Heq.
  Qed.

  Theorem history_exactly_once_count : forall i,
    (In i created -> occ (accounted ev) i + occ (leaked w0 ops) i = 1) /\
    (~ In i created -> occ (accounted ev) i + occ (leaked w0 ops) i = 0).
  Proof.
    intro i. pose proof (proj1 (occ_Permutation _ _) history_exactly_once i) as H.
    rewrite occ_app in H. split; intro Hin.
    - pose proof (proj1 (occ_NoDup _) history_created_distinct i). apply occ_In in Hin. lia.
    - apply occ_not_In in Hin. lia.
  Qed.

  (** without [forget] nothing is leaked: handed-or-dropped = created, no duplicates *)
  Theorem history_exactly_once_no_forget :
    (forall k, ~ In (OForget k) ops) ->
    leaked w0 ops = [] /\ NoDup (accounted ev) /\ Permutation (accounted ev) created.
  Proof.
    intro Hnf.
    assert (Hl : forall ops' w', (forall k, ~ In (OForget k) ops') -> leaked w' ops' = []).
    { induction ops' as [|o r IH]; intros w' H; cbn [leaked]; [reflexivity|].
      destruct (step w' o) as [w1 rt e| |]; try reflexivity.
      rewrite IH by (intros k Hk; apply (H k); now right).
      destruct o; try reflexivity. exfalso. apply (H k). now left. }
    pose proof history_exactly_once as P. rewrite (Hl ops w0 Hnf), app_nil_r in P.
    splits; [now apply Hl | | exact P].
    apply (Permutation_NoDup (Permutation_sym P)), history_created_distinct.
  Qed.

  (** clone identities are fresh: the identity returned by a [T::clone] lies in the range
      of the counter, is none of the initial or pushed identities, and has not been handed
      over, dropped or produced by an earlier clone *)
  Theorem history_clone_ids_fresh : forall pre s n post,
    ev = pre ++ Cl s n :: post ->
    (w_next w0 <= n < w_next w)%Z /\
    ~ In n (world_ids w0) /\ ~ In n (pushed w0 ops) /\
    ~ In n (accounted pre) /\ ~ In n (cloned pre) /\ ~ In n (cloned post).
  Proof.
    intros pre s n post E.
    destruct history_facts as [Hle [Heq [Hcl [Hfr _]]]].
    rewrite E in Hfr. apply fresh_tr_split in Hfr. destruct Hfr as [Hge [Hna Hnc]].
    pose proof (proj1 (occ_NoDup _) history_created_distinct n) as Hd.
    unfold created in Hd. rewrite !occ_app, E, cloned_app in Hd. cbn [cloned] in Hd.
    rewrite occ_app, (occ_cons n) in Hd.
    assert (H1 : occ [n] n = 1) by (rewrite occ_one_eq; destruct (Z.eq_dec n n); congruence).
    assert (Hb : between (w_next w0) (w_next w) n > 0).
    { rewrite (Hcl n), E, cloned_app. cbn [cloned]. rewrite occ_app, (occ_cons n). lia. }
    apply between_pos in Hb.
    splits; try assumption; try lia; apply occ_not_In; lia.
  Qed.

  (** the source of every [T::clone] call is a live element: an identity created earlier
      in the history (initial, pushed, or returned by an earlier clone) that has not been
      handed over or dropped before the call; it differs from the identity returned *)
  Theorem history_clone_sources_live : forall pre s n post,
    ev = pre ++ Cl s n :: post ->
    In s (world_ids w0 ++ pushed w0 ops ++ cloned pre) /\ ~ In s (accounted pre) /\ (s < n)%Z.
  Proof. destruct history_facts as [_ [_ [_ [_ H]]]]. exact H. Qed.
End History.

(* ------------------------------------------------------------------ map_! on every path *)

(** the values the closure body produced, in order: evaluations continue after a value or
    a [continue] and stop at the first break / return / panic *)
Fixpoint produced (clo : nat -> Z -> outcome) (k : nat) (xs : list Z) : list Z :=
  match xs with
  | [] => []
  | x :: r => match clo k x with
              | OValue y => y :: produced clo (S k) r
              | OContinue => produced clo (S k) r
              | _ => []
              end
  end.

(** what [mem::forget(consumer)] leaks: the elements after the one on which the body
    executed [break]; nothing on any other path *)
Fixpoint leak_of (clo : nat -> Z -> outcome) (k : nat) (xs : list Z) : list Z :=
  match xs with
  | [] => []
  | x :: r => match clo k x with
              | OValue _ | OContinue => leak_of clo (S k) r
              | OBreak => r
              | _ => []
              end
  end.

(** every evaluation on [xs] (numbered k, k+1, ..) ended with a value or [continue] *)
Fixpoint passes (clo : nat -> Z -> outcome) (k : nat) (xs : list Z) : Prop :=
  match xs with
  | [] => True
  | x :: r => ((exists y, clo k x = OValue y) \/ clo k x = OContinue) /\ passes clo (S k) r
  end.

Lemma leak_of_break : forall xs clo k, leak_of clo k xs <> [] ->
  exists pre x, xs = pre ++ x :: leak_of clo k xs /\ passes clo k pre /\
                clo (k + length pre) x = OBreak.
Proof.
  induction xs as [|x r IH]; intros clo k H; cbn [leak_of] in *; [congruence|].
  destruct (clo k x) as [y| | | |] eqn:E; try congruence.
  - destruct (IH clo (S k) H) as [pre [z [E1 [E2 E3]]]].
    exists (x :: pre), z. cbn [app length passes]. splits; eauto.
    + now rewrite <- E1.
    + now replace (k + S (length pre)) with (S k + length pre) by lia.
  - exists [], x. cbn [app length passes]. rewrite Nat.add_0_r. auto.
  - destruct (IH clo (S k) H) as [pre [z [E1 [E2 E3]]]].
    exists (x :: pre), z. cbn [app length passes]. splits; eauto.
    + now rewrite <- E1.
    + now replace (k + S (length pre)) with (S k + length pre) by lia.
Qed.

Lemma leak_of_suffix : forall xs clo k, is_suffix (leak_of clo k xs) xs.
Proof.
  induction xs as [|x r IH]; intros clo k; cbn [leak_of]; [now exists []|].
  destruct (clo k x); try (now exists (x :: r); rewrite app_nil_r).
  - destruct (IH clo (S k)) as [t Ht]. exists (x :: t). cbn. now rewrite <- Ht.
  - now exists [x].
  - destruct (IH clo (S k)) as [t Ht]. exists (x :: t). cbn. now rewrite <- Ht.
Qed.

(** the loop of map_! started with [rest] in the consumer and [outs] in the builder, on
    EVERY path: the events it adds contain no clone; what it leaks is [leak_of]; a
    non-empty leak comes with the panic of [build]; and every remaining input, every value
    already in the builder and every value the body produced is handed over or dropped
    exactly once or is in the leak list (counted with multiplicity) *)
Lemma map_loop_accounting : forall fuel clo k c b ev rest outs,
  c_rep c rest -> b_rep b outs -> length outs + length rest <= b_cap b -> length rest < fuel ->
  match map_loop fuel clo true k c b ev with
  | (r, ev', leak) =>
      exists new, ev' = ev ++ new /\ cloned new = [] /\
        leak = leak_of clo k rest /\ (leak <> [] -> r = MPanicked) /\
        forall i, occ (accounted new) i + occ leak i
                  = occ rest i + occ outs i + occ (produced clo k rest) i
  end.
Proof.
  induction fuel as [|fuel IH]; intros clo k c b ev rest outs Hc Hb Hroom Hfuel; [lia|].
  cbn [map_loop]. destruct rest as [|x r].
  - rewrite (c_next_rep_nil _ Hc). unfold map_finish.
    rewrite (c_as_slice_rep _ _ Hc), (b_build_rep _ _ Hb). cbn [leak_of produced].
    destruct (length outs =? b_cap b).
    + exists (map Hand outs). splits; auto using cloned_hands; [congruence|].
      intro i. rewrite accounted_hands, !occ_nil. lia.
    + rewrite (b_drop_rep _ _ Hb). exists (map Drop outs). splits; auto using cloned_drops.
      intro i. rewrite accounted_drops, !occ_nil. lia.
  - destruct (c_next_rep_cons _ _ _ Hc) as [c1 [Hn [Hc1 Hcap1]]]. rewrite Hn.
    cbn [length] in *. cbn [leak_of produced in_ev].
    destruct (clo k x) as [y| | | |] eqn:Hclo.
    + destruct (b_push_rep_room b outs y Hb) as [b1 [Hp [Hb1 Hbc]]]; [lia|]. rewrite Hp.
      specialize (IH clo (S k) c1 b1 (ev ++ [Hand x]) r (outs ++ [y]) Hc1 Hb1).
      rewrite app_length, Hbc in IH. cbn [length] in IH.
      specialize (IH ltac:(lia) ltac:(lia)).
      destruct (map_loop fuel clo true (S k) c1 b1 (ev ++ [Hand x])) as [[r' ev'] leak].
      destruct IH as [new [E [Hcl [Hleak [Hp' Heq]]]]].
      exists (Hand x :: new). splits; auto.
      * now rewrite E, <- app_assoc.
      * intro i. specialize (Heq i). cbn [accounted].
        rewrite occ_app in Heq. rewrite (occ_cons x (accounted new)), (occ_cons x r), (occ_cons y). lia.
    + unfold map_finish. rewrite (c_as_slice_rep _ _ Hc1), (b_build_rep _ _ Hb).
      replace (length outs =? b_cap b) with false by (symmetry; apply Nat.eqb_neq; lia).
      rewrite (b_drop_rep _ _ Hb). exists (Drop x :: map Drop outs). splits; auto.
      * now rewrite <- app_assoc.
      * cbn [cloned]. apply cloned_drops.
      * intro i. cbn [accounted]. rewrite accounted_drops, (occ_cons x outs), (occ_cons x r), occ_nil. lia.
    + specialize (IH clo (S k) c1 b (ev ++ [Drop x]) r outs Hc1 Hb ltac:(lia) ltac:(lia)).
      destruct (map_loop fuel clo true (S k) c1 b (ev ++ [Drop x])) as [[r' ev'] leak].
      destruct IH as [new [E [Hcl [Hleak [Hp' Heq]]]]].
      exists (Drop x :: new). splits; auto.
      * now rewrite E, <- app_assoc.
      * intro i. specialize (Heq i). cbn [accounted].
        rewrite (occ_cons x (accounted new)), (occ_cons x r). lia.
    + unfold map_unwind. rewrite (b_drop_rep _ _ Hb), (c_drop_rep _ _ Hc1). cbn [in_ev].
      exists (Drop x :: map Drop outs ++ map Drop r). splits; auto; try congruence.
      * cbn [cloned]. now rewrite cloned_app, !cloned_drops.
      * intro i. cbn [accounted]. rewrite accounted_app, !accounted_drops.
        rewrite (occ_cons x (outs ++ r)), (occ_cons x r), occ_app, !occ_nil. lia.
    + unfold map_unwind. rewrite (b_drop_rep _ _ Hb), (c_drop_rep _ _ Hc1). cbn [in_ev].
      exists (Drop x :: map Drop outs ++ map Drop r). splits; auto; try congruence.
      * cbn [cloned]. now rewrite cloned_app, !cloned_drops.
      * intro i. cbn [accounted]. rewrite accounted_app, !accounted_drops.
        rewrite (occ_cons x (outs ++ r)), (occ_cons x r), occ_app, !occ_nil. lia.
Qed.

(** array::map_! on every path (completing, break, continue, return, panic): the leak list
    is exactly [leak_of]; and, counted with multiplicity, every input identity and every
    value the body produced is handed over or dropped exactly once or is in the leak list *)
Theorem map_by_val_accounting : forall clo ids,
  match map_by_val clo ids with
  | (r, ev, leak) =>
      cloned ev = [] /\ leak = leak_of clo 0 ids /\ (leak <> [] -> r = MPanicked) /\
      forall i, occ (accounted ev) i + occ leak i = occ ids i + occ (produced clo 0 ids) i
  end.
Proof.
  intros clo ids. unfold map_by_val.
  assert (Hcap : b_cap (b_new (length ids)) = length ids)
    by (unfold b_cap, b_new; cbn; apply repeat_length).
  pose proof (map_loop_accounting (S (length ids)) clo 0 (c_new ids) (b_new (length ids)) [] ids []
                (c_new_rep ids) (b_new_rep _)) as H.
  rewrite Hcap in H. specialize (H ltac:(cbn; lia) ltac:(lia)).
  destruct (map_loop (S (length ids)) clo true 0 (c_new ids) (b_new (length ids)) []) as [[r ev] leak].
  destruct H as [new [E [Hcl [Hleak [Hp Heq]]]]]. cbn [app] in E. subst ev.
  splits; auto. intro i. specialize (Heq i). rewrite occ_nil in Heq. lia.
Qed.

(** the same as a permutation: handed-or-dropped ++ leaked = inputs ++ produced values *)
Theorem map_by_val_exactly_once : forall clo ids,
  match map_by_val clo ids with
  | (r, ev, leak) => Permutation (accounted ev ++ leak) (ids ++ produced clo 0 ids)
  end.
Proof.
  intros clo ids. pose proof (map_by_val_accounting clo ids) as H.
  destruct (map_by_val clo ids) as [[r ev] leak]. destruct H as [_ [_ [_ Heq]]].
  apply occ_Permutation. intro i. rewrite !occ_app. apply Heq.
Qed.

(** the leak list is non-empty only after [break]: then the body broke out on the element
    just before the leaked ones, after passing all earlier ones, and the macro panics *)
Theorem map_by_val_leak_only_after_break : forall clo ids,
  match map_by_val clo ids with
  | (r, ev, leak) =>
      is_suffix leak ids /\
      (leak <> [] ->
         r = MPanicked /\
         exists pre x, ids = pre ++ x :: leak /\ passes clo 0 pre /\ clo (length pre) x = OBreak)
  end.
Proof.
  intros clo ids. pose proof (map_by_val_accounting clo ids) as H.
  destruct (map_by_val clo ids) as [[r ev] leak]. destruct H as [_ [Hleak [Hp _]]].
  split; [rewrite Hleak; apply leak_of_suffix|].
  intro Hne. split; [auto|]. rewrite Hleak in Hne.
  destruct (leak_of_break ids clo 0 Hne) as [pre [x [E1 [E2 E3]]]].
  exists pre, x. rewrite Hleak. auto.
Qed.

(** distinct input identities, none of which the body returns as a value: every input is
    handed over or dropped exactly once, unless it is in the leak list — then never *)
Theorem map_by_val_inputs_exactly_once : forall clo ids,
  NoDup ids -> (forall i, In i (produced clo 0 ids) -> ~ In i ids) ->
  match map_by_val clo ids with
  | (r, ev, leak) =>
      forall i, In i ids ->
        (~ In i leak /\ occ (accounted ev) i = 1) \/ (In i leak /\ ~ In i (accounted ev))
  end.
Proof.
  intros clo ids Hnd Hdis. pose proof (map_by_val_accounting clo ids) as H.
  destruct (map_by_val clo ids) as [[r ev] leak]. destruct H as [_ [_ [_ Heq]]].
  intros i Hin. specialize (Heq i).
  assert (H1 : occ ids i = 1).
  { pose proof (proj1 (occ_NoDup _) Hnd i). apply occ_In in Hin. lia. }
  assert (H2 : occ (produced clo 0 ids) i = 0).
  { apply occ_not_In. intro Hp. now apply (Hdis i Hp). }
  destruct (Nat.eq_dec (occ leak i) 0) as [E | E].
  - left. split; [now apply occ_not_In | lia].
  - right. split; [apply occ_In; lia | apply occ_not_In; lia].
Qed.

(** the same loop when the inputs are not in the ledger (the [()]s of from_fn_!): on every
    path, every value already in the builder and every value the body produced is handed
    over or dropped exactly once, and nothing else happens *)
Lemma map_loop_accounting_untracked : forall fuel clo k c b ev rest outs,
  c_rep c rest -> b_rep b outs -> length outs + length rest <= b_cap b -> length rest < fuel ->
  match map_loop fuel clo false k c b ev with
  | (r, ev', leak) =>
      exists new, ev' = ev ++ new /\ cloned new = [] /\
        forall i, occ (accounted new) i = occ outs i + occ (produced clo k rest) i
  end.
Proof.
  induction fuel as [|fuel IH]; intros clo k c b ev rest outs Hc Hb Hroom Hfuel; [lia|].
  cbn [map_loop]. destruct rest as [|x r].
  - rewrite (c_next_rep_nil _ Hc). unfold map_finish.
    rewrite (c_as_slice_rep _ _ Hc), (b_build_rep _ _ Hb). cbn [produced].
    destruct (length outs =? b_cap b).
    + exists (map Hand outs). splits; auto using cloned_hands.
      intro i. rewrite accounted_hands, !occ_nil. lia.
    + rewrite (b_drop_rep _ _ Hb). exists (map Drop outs). splits; auto using cloned_drops.
      intro i. rewrite accounted_drops, !occ_nil. lia.
  - destruct (c_next_rep_cons _ _ _ Hc) as [c1 [Hn [Hc1 Hcap1]]]. rewrite Hn.
    cbn [length] in *. cbn [produced in_ev]. rewrite !app_nil_r.
    destruct (clo k x) as [y| | | |] eqn:Hclo.
    + destruct (b_push_rep_room b outs y Hb) as [b1 [Hp [Hb1 Hbc]]]; [lia|]. rewrite Hp.
      specialize (IH clo (S k) c1 b1 ev r (outs ++ [y]) Hc1 Hb1).
      rewrite app_length, Hbc in IH. cbn [length] in IH.
      specialize (IH ltac:(lia) ltac:(lia)).
      destruct (map_loop fuel clo false (S k) c1 b1 ev) as [[r' ev'] leak].
      destruct IH as [new [E [Hcl Heq]]].
      exists new. splits; auto.
      intro i. specialize (Heq i). rewrite occ_app in Heq. rewrite (occ_cons y). lia.
    + unfold map_finish. rewrite (c_as_slice_rep _ _ Hc1), (b_build_rep _ _ Hb).
      replace (length outs =? b_cap b) with false by (symmetry; apply Nat.eqb_neq; lia).
      rewrite (b_drop_rep _ _ Hb). exists (map Drop outs). splits; auto using cloned_drops.
      intro i. rewrite accounted_drops, occ_nil. lia.
    + specialize (IH clo (S k) c1 b ev r outs Hc1 Hb ltac:(lia) ltac:(lia)).
      destruct (map_loop fuel clo false (S k) c1 b ev) as [[r' ev'] leak].
      exact IH.
    + unfold map_unwind. rewrite (b_drop_rep _ _ Hb), (c_drop_rep _ _ Hc1). cbn [in_ev app].
      rewrite app_nil_r. exists (map Drop outs). splits; auto using cloned_drops.
      intro i. rewrite accounted_drops, occ_nil. lia.
    + unfold map_unwind. rewrite (b_drop_rep _ _ Hb), (c_drop_rep _ _ Hc1). cbn [in_ev app].
      rewrite app_nil_r. exists (map Drop outs). splits; auto using cloned_drops.
      intro i. rewrite accounted_drops, occ_nil. lia.
Qed.

(** array::from_fn_! on every path: the values the body produced are exactly what is handed
    over or dropped, each once (counted with multiplicity) *)
Theorem from_fn_by_val_accounting : forall clo N,
  match from_fn_by_val clo N with
  | (r, ev, _) =>
      cloned ev = [] /\
      Permutation (accounted ev) (produced (fun k _ => clo k (Z.of_nat k)) 0 (repeat 0%Z N))
  end.
Proof.
  intros clo N. unfold from_fn_by_val.
  assert (Hcap : b_cap (b_new N) = N) by (unfold b_cap, b_new; cbn; apply repeat_length).
  pose proof (map_loop_accounting_untracked (S N) (fun k _ => clo k (Z.of_nat k)) 0
                (c_new (repeat 0%Z N)) (b_new N) [] (repeat 0%Z N) [] (c_new_rep _) (b_new_rep _)) as H.
  rewrite Hcap, repeat_length in H. specialize (H ltac:(cbn; lia) ltac:(lia)).
  destruct (map_loop (S N) (fun k _ => clo k (Z.of_nat k)) false 0 (c_new (repeat 0%Z N)) (b_new N) [])
    as [[r ev] leak].
  destruct H as [new [E [Hcl Heq]]]. cbn [app] in E. subst ev. split; [assumption|].
  apply occ_Permutation. intro i. rewrite (Heq i), occ_nil. lia.
Qed.

(* ------------------------------------------------------------------ initial tables *)

Lemma world_ok_consumer ids n : NoDup ids -> (forall i, In i ids -> (i < n)%Z) ->
  world_ok (mkW [OC (c_new ids)] n).
Proof.
  intros Hnd Hlt. unfold world_ok, world_ids, objs_ids. cbn [w_objs w_next flat_map obj_ids c_new c_slots].
  rewrite slot_ids_live, app_nil_r. splits; auto.
  constructor; [|constructor]. exists ids. apply c_new_rep.
Qed.

Lemma world_ok_empty_consumer N n : world_ok (mkW [OC (c_empty N)] n).
Proof.
  unfold world_ok, world_ids, objs_ids. cbn [w_objs w_next flat_map obj_ids c_empty c_slots].
  rewrite slot_ids_moved. cbn [app]. splits; [| constructor | intros i []].
  constructor; [|constructor]. exists []. apply c_empty_rep.
Qed.

Lemma world_ok_builder N n : world_ok (mkW [OB (b_new N)] n).
Proof.
  unfold world_ok, world_ids, objs_ids. cbn [w_objs w_next flat_map obj_ids b_new b_slots].
  rewrite slot_ids_moved. cbn [app]. splits; [| constructor | intros i []].
  constructor; [|constructor]. exists []. apply b_new_rep.
Qed.

(** every op preserves the invariant over the whole table and is never UB *)
Theorem step_preserves : forall w o, world_ok w ->
  match step w o with
  | StepUB => False
  | StepInvalid => True
  | StepOk w' _ ev => world_ok w' /\ step_post w o w' ev
  end.
Proof.
  intros w o Hok. pose proof (step_ok w o Hok) as H.
  destruct (step w o) as [w' rt ev| |]; auto. split; [|assumption].
  now apply (step_post_world_ok w o w' ev).
Qed.
