(** Facts about the wrapper model (Model/MemCell.v): what the safe wrappers guarantee. *)
From KV Require Import Base.Prelude Model.MemCell.

Section Cell.
  Variable V : Type.

  (** [write] initialises the cell with exactly the value, and the reference it returns is the
      cell itself (offset 0) holding that value, whatever the cell held before *)
  Lemma write_then_read (c : option V) v :
    let '(c', (off, x)) := mu_write c v in
    off = 0 /\ x = v /\ mu_assume_init c' = Some v /\ mu_assume_init_ref c' = Some (0, v).
  Proof. cbn. repeat split. Qed.

  Lemma assume_init_ub_iff_uninit (c : option V) : mu_assume_init c = None <-> c = uninit.
  Proof. unfold mu_assume_init, uninit. tauto. Qed.

  Lemma uninit_array_length n : length (@uninit_array V n) = n.
  Proof. apply repeat_length. Qed.

  Lemma array_assume_init_some (cs : list (option V)) l :
    array_assume_init cs = Some l <-> cs = map Some l.
  Proof.
    revert l; induction cs as [|c r IH]; intros l; cbn [array_assume_init].
    - split; intros H.
      + injection H as <-. reflexivity.
      + destruct l; [reflexivity|discriminate].
    - destruct c as [v|].
      + destruct (array_assume_init r) as [l'|] eqn:E.
        * assert (Hr : r = map Some l') by (apply IH; reflexivity).
          split; intros H.
          -- injection H as <-. cbn [map]. f_equal. exact Hr.
          -- destruct l as [|x l2]; [discriminate|]. cbn [map] in H.
             injection H as Hx H2. apply (proj2 (IH l2)) in H2. congruence.
        * split; intros H; [discriminate|].
          destruct l as [|x l2]; [discriminate|]. cbn [map] in H.
          injection H as Hx H2. apply (proj2 (IH l2)) in H2. congruence.
      + split; intros H; [discriminate|]. destruct l; discriminate.
  Qed.

  (** UB exactly when some slot was never written *)
  Lemma array_assume_init_ub_iff (cs : list (option V)) :
    array_assume_init cs = None <-> In uninit cs.
  Proof.
    induction cs as [|c r IH]; cbn [array_assume_init In].
    - split; [discriminate|tauto].
    - destruct c as [v|].
      + destruct (array_assume_init r) eqn:E.
        * split; [discriminate|]. intros [H|H]; [discriminate|]. apply IH in H. discriminate.
        * split; [intros _; right; apply IH; reflexivity|reflexivity].
      + split; [intros _; left; reflexivity|reflexivity].
  Qed.

  Lemma write_slot_spec (pre : list (option V)) c post v k :
    k = length pre -> write_slot (pre ++ c :: post) k v = pre ++ Some v :: post.
  Proof. intros ->. induction pre as [|p pre IH]; cbn; [reflexivity|]. now rewrite IH. Qed.

  Lemma write_all_gen (ws : list V) : forall (done : list V) (rest tail : list (option V)),
    length rest = length ws ->
    write_all (map Some done ++ rest ++ tail) (length done) ws = map Some (done ++ ws) ++ tail.
  Proof.
    induction ws as [|w ws IH]; intros done rest tail Hl; cbn [write_all].
    - destruct rest; [|discriminate]. now rewrite app_nil_r.
    - destruct rest as [|c rest]; [discriminate|]. cbn [app].
      rewrite (write_slot_spec (map Some done) c (rest ++ tail) w (length done)) by (now rewrite map_length).
      specialize (IH (done ++ [w]) rest tail).
      rewrite map_app, <- app_assoc, app_length in IH. cbn [map app length] in IH.
      replace (length done + 1)%nat with (S (length done)) in IH by lia.
      rewrite IH by (cbn in Hl; lia). now rewrite <- app_assoc.
  Qed.

  Lemma write_all_spec (done : list V) (vs : list V) (rest : list (option V)) :
    length rest = length vs ->
    write_all (map Some done ++ rest) (length done) vs = map Some (done ++ vs).
  Proof.
    intros Hl. pose proof (write_all_gen vs done rest [] Hl) as H.
    now rewrite !app_nil_r in H.
  Qed.

  (** the pattern every array-building macro follows: [uninit_array], one [write] per slot in
      order, [array_assume_init] — never UB, and returns exactly the written values *)
  Theorem uninit_write_all_assume_init (vs : list V) :
    array_assume_init (write_all (uninit_array (length vs)) 0 vs) = Some vs.
  Proof.
    apply array_assume_init_some.
    apply (write_all_spec [] vs (uninit_array (length vs))). apply uninit_array_length.
  Qed.

  (** one slot short: UB *)
  Theorem uninit_write_prefix_ub (vs : list V) (n : nat) :
    (length vs < n)%nat -> array_assume_init (write_all (uninit_array n) 0 vs) = None.
  Proof.
    intros Hn. apply array_assume_init_ub_iff.
    assert (E : exists k, n = (length vs + S k)%nat) by (exists (n - length vs - 1)%nat; lia).
    destruct E as [k ->].
    unfold uninit_array. rewrite repeat_app.
    pose proof (write_all_gen vs [] (repeat uninit (length vs)) (repeat uninit (S k))
                  (repeat_length _ _)) as G.
    cbn [map app length] in G.
    match goal with |- In _ ?l => replace l with (map Some vs ++ repeat (@None V) (S k)) by (symmetry; exact G) end.
    apply in_or_app; right. cbn [repeat]. left; reflexivity.
  Qed.

  Lemma md_roundtrip (v : V) : md_as_inner v = (0, v) /\ md_take v = v.
  Proof. split; reflexivity. Qed.
End Cell.

(** [as_ref] / [as_mut] / [nonnull::new]: [None] exactly for the null pointer, otherwise the
    same address — a reference produced by them is never null *)
Lemma ptr_as_ref_spec addr :
  (ptr_as_ref addr = None <-> addr = 0) /\
  (forall r, ptr_as_ref addr = Some r -> r = addr /\ r <> 0).
Proof.
  unfold ptr_as_ref. destruct (addr =? 0) eqn:E.
  - apply Z.eqb_eq in E. split; [tauto|]. intros r H; discriminate.
  - apply Z.eqb_neq in E. split.
    + split; [discriminate|]. intros; contradiction.
    + intros r H. injection H as <-. tauto.
Qed.
Lemma ptr_is_null_iff addr : ptr_is_null addr = true <-> addr = 0.
Proof.
  unfold ptr_is_null, ptr_as_ref. destruct (addr =? 0) eqn:E.
  - apply Z.eqb_eq in E. tauto.
  - apply Z.eqb_neq in E. split; [discriminate|]. intros; contradiction.
Qed.
Lemma nonnull_roundtrip addr : addr <> 0 -> nonnull_new (nonnull_from_ref addr) = Some addr.
Proof. intros H. unfold nonnull_new, nonnull_from_ref, ptr_as_ref. apply Z.eqb_neq in H. now rewrite H. Qed.
