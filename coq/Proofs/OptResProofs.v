(** C19, Option/Result part: every macro arm = the std method call of the same name, as
    computations (same value AND same event log), for all payload types, all argument
    computations and all closures; laziness corollaries; try_! / try_opt! = [?]. *)
From KV Require Import Base.Prelude Model.OptRes Spec.OptRes.

Ltac split_m :=
  repeat first
  [ match goal with
    | |- context [match ?m with (_, _) => _ end] =>
        is_var m; let a := fresh "a" in let w := fresh "w" in destruct m as [a w]
    | |- context [match ?o with Some _ => _ | None => _ end] => is_var o; destruct o
    | |- context [match ?r with Ok _ => _ | Err _ => _ end] => is_var r; destruct r
    | |- context [if ?b then _ else _] => is_var b; destruct b
    end; cbn
  | match goal with
    | |- context [match ?f ?x with (_, _) => _ end] =>
        let a := fresh "a" in let w := fresh "w" in destruct (f x) as [a w]
    end; cbn ].

Ltac optres :=
  intros;
  unfold call1, call2, bind, ret;
  cbn;
  split_m; cbn;
  rewrite ?app_nil_r, ?app_nil_l, <- ?app_assoc;
  try reflexivity.

Section Proofs.
  Context {W : Type}.
  Notation M := (@M W).
  Context {A B E F : Type}.

  (* ------------------------------------------------------------ monad facts *)
  Lemma bind_ret_l {X Y} (x : X) (k : X -> M Y) : bind (ret x) k = k x.
  Proof. unfold bind, ret. destruct (k x). reflexivity. Qed.
  Lemma bind_ret_r {X} (m : M X) : bind m ret = m.
  Proof. unfold bind, ret. destruct m. now rewrite app_nil_r. Qed.
  Lemma bind_assoc {X Y Z} (m : M X) (k : X -> M Y) (h : Y -> M Z) :
    bind (bind m k) h = bind m (fun x => bind (k x) h).
  Proof.
    unfold bind. destruct m as [x w]. destruct (k x) as [y w']. destruct (h y) as [z w''].
    now rewrite app_assoc.
  Qed.

  (* ------------------------------------------------------------ Option *)
  Lemma opt_unwrap_eq_std (e : M (option A)) :
    opt_unwrap e = call1 e std_opt_unwrap.
  Proof. unfold opt_unwrap, std_opt_unwrap. optres. Qed.

  Lemma opt_unwrap_or_eq_std (e : M (option A)) (v : M A) :
    opt_unwrap_or e v = call2 e v std_opt_unwrap_or.
  Proof. unfold opt_unwrap_or, std_opt_unwrap_or. optres. Qed.

  Lemma opt_unwrap_or_else_c_eq_std (e : M (option A)) (v : M A) :
    opt_unwrap_or_else_c e v = call1 e (std_opt_unwrap_or_else (fun _ => v)).
  Proof. unfold opt_unwrap_or_else_c, std_opt_unwrap_or_else. optres. Qed.
  Lemma opt_unwrap_or_else_f_eq_std (e : M (option A)) (f : unit -> M A) :
    opt_unwrap_or_else_f e f = call1 e (std_opt_unwrap_or_else f).
  Proof. unfold opt_unwrap_or_else_f, std_opt_unwrap_or_else. optres. Qed.

  Lemma opt_ok_or_eq_std (e : M (option A)) (v : M E) :
    opt_ok_or e v = call2 e v std_opt_ok_or.
  Proof. unfold opt_ok_or, std_opt_ok_or. optres. Qed.

  Lemma opt_ok_or_else_c_eq_std (e : M (option A)) (v : M E) :
    opt_ok_or_else_c e v = call1 e (std_opt_ok_or_else (fun _ => v)).
  Proof. unfold opt_ok_or_else_c, std_opt_ok_or_else. optres. Qed.
  Lemma opt_ok_or_else_f_eq_std (e : M (option A)) (f : unit -> M E) :
    opt_ok_or_else_f e f = call1 e (std_opt_ok_or_else f).
  Proof. unfold opt_ok_or_else_f, std_opt_ok_or_else. optres. Qed.

  Lemma opt_map_c_eq_std (e : M (option A)) (f : A -> M B) :
    opt_map_c e f = call1 e (std_opt_map f).
  Proof. unfold opt_map_c, std_opt_map. optres. Qed.
  Lemma opt_map_f_eq_std (e : M (option A)) (f : A -> M B) :
    opt_map_f e f = call1 e (std_opt_map f).
  Proof. unfold opt_map_f, std_opt_map. optres. Qed.

  Lemma opt_and_then_c_eq_std (e : M (option A)) (f : A -> M (option B)) :
    opt_and_then_c e f = call1 e (std_opt_and_then f).
  Proof. unfold opt_and_then_c, std_opt_and_then. optres. Qed.
  Lemma opt_and_then_f_eq_std (e : M (option A)) (f : A -> M (option B)) :
    opt_and_then_f e f = call1 e (std_opt_and_then f).
  Proof. unfold opt_and_then_f, std_opt_and_then. optres. Qed.

  Lemma opt_or_else_c_eq_std (e : M (option A)) (v : M (option A)) :
    opt_or_else_c e v = call1 e (std_opt_or_else (fun _ => v)).
  Proof. unfold opt_or_else_c, std_opt_or_else. optres. Qed.
  Lemma opt_or_else_f_eq_std (e : M (option A)) (f : unit -> M (option A)) :
    opt_or_else_f e f = call1 e (std_opt_or_else f).
  Proof. unfold opt_or_else_f, std_opt_or_else. optres. Qed.

  Lemma opt_flatten_eq_std (e : M (option (option A))) :
    opt_flatten e = call1 e std_opt_flatten.
  Proof. unfold opt_flatten, std_opt_flatten. optres. Qed.

  Lemma opt_filter_c_eq_std (e : M (option A)) (p : A -> M bool) :
    opt_filter_c e p = call1 e (std_opt_filter p).
  Proof. unfold opt_filter_c, std_opt_filter. optres. Qed.
  Lemma opt_filter_f_eq_std (e : M (option A)) (p : A -> M bool) :
    opt_filter_f e p = call1 e (std_opt_filter p).
  Proof. unfold opt_filter_f, std_opt_filter. optres. Qed.

  Lemma opt_copied_eq_std (o : option A) : opt_copied o = std_opt_copied o.
  Proof. destruct o; reflexivity. Qed.

  (* ------------------------------------------------------------ Result *)
  Lemma res_unwrap_ctx_eq_std (e : M (result A E)) :
    res_unwrap_ctx e = call1 e std_res_unwrap.
  Proof. unfold res_unwrap_ctx, std_res_unwrap. optres. Qed.

  Lemma res_unwrap_or_eq_std (e : M (result A E)) (v : M A) :
    res_unwrap_or e v = call2 e v std_res_unwrap_or.
  Proof. unfold res_unwrap_or, std_res_unwrap_or. optres. Qed.

  Lemma res_unwrap_or_else_c_eq_std (e : M (result A E)) (f : E -> M A) :
    res_unwrap_or_else_c e f = call1 e (std_res_unwrap_or_else f).
  Proof. unfold res_unwrap_or_else_c, std_res_unwrap_or_else. optres. Qed.
  Lemma res_unwrap_or_else_f_eq_std (e : M (result A E)) (f : E -> M A) :
    res_unwrap_or_else_f e f = call1 e (std_res_unwrap_or_else f).
  Proof. unfold res_unwrap_or_else_f, std_res_unwrap_or_else. optres. Qed.

  Lemma res_unwrap_err_or_else_c_eq_std (e : M (result A E)) (f : A -> M E) :
    res_unwrap_err_or_else_c e f = call1 e (std_res_unwrap_err_or_else f).
  Proof.
    unfold res_unwrap_err_or_else_c, std_res_unwrap_err_or_else, std_res_map_or_else. optres.
  Qed.
  Lemma res_unwrap_err_or_else_f_eq_std (e : M (result A E)) (f : A -> M E) :
    res_unwrap_err_or_else_f e f = call1 e (std_res_unwrap_err_or_else f).
  Proof.
    unfold res_unwrap_err_or_else_f, std_res_unwrap_err_or_else, std_res_map_or_else. optres.
  Qed.

  Lemma res_ok_eq_std (e : M (result A E)) : res_ok e = call1 e std_res_ok.
  Proof. unfold res_ok, std_res_ok. optres. Qed.
  Lemma res_err_eq_std (e : M (result A E)) : res_err e = call1 e std_res_err.
  Proof. unfold res_err, std_res_err. optres. Qed.

  Lemma res_map_c_eq_std (e : M (result A E)) (f : A -> M B) :
    res_map_c e f = call1 e (std_res_map f).
  Proof. unfold res_map_c, std_res_map. optres. Qed.
  Lemma res_map_f_eq_std (e : M (result A E)) (f : A -> M B) :
    res_map_f e f = call1 e (std_res_map f).
  Proof. unfold res_map_f, std_res_map. optres. Qed.

  Lemma res_map_err_c_eq_std (e : M (result A E)) (f : E -> M F) :
    res_map_err_c e f = call1 e (std_res_map_err f).
  Proof. unfold res_map_err_c, std_res_map_err. optres. Qed.
  Lemma res_map_err_f_eq_std (e : M (result A E)) (f : E -> M F) :
    res_map_err_f e f = call1 e (std_res_map_err f).
  Proof. unfold res_map_err_f, std_res_map_err. optres. Qed.

  Lemma res_and_then_c_eq_std (e : M (result A E)) (f : A -> M (result B E)) :
    res_and_then_c e f = call1 e (std_res_and_then f).
  Proof. unfold res_and_then_c, std_res_and_then. optres. Qed.
  Lemma res_and_then_f_eq_std (e : M (result A E)) (f : A -> M (result B E)) :
    res_and_then_f e f = call1 e (std_res_and_then f).
  Proof. unfold res_and_then_f, std_res_and_then. optres. Qed.

  Lemma res_or_else_c_eq_std (e : M (result A E)) (f : E -> M (result A F)) :
    res_or_else_c e f = call1 e (std_res_or_else f).
  Proof. unfold res_or_else_c, std_res_or_else. optres. Qed.
  Lemma res_or_else_f_eq_std (e : M (result A E)) (f : E -> M (result A F)) :
    res_or_else_f e f = call1 e (std_res_or_else f).
  Proof. unfold res_or_else_f, std_res_or_else. optres. Qed.

  (* ------------------------------------------------------------ laziness, spelled out *)
  (** the events of a lazy fallback appear after those of [$e] exactly when the variant is
      the one std would call the closure for, and not at all otherwise; an eager argument is
      always evaluated, after [$e] *)
  Lemma opt_fallback_lazy (o : option A) (w : list W) (f : unit -> M A) :
    snd (opt_unwrap_or_else_f (o, w) f) =
    w ++ match o with Some _ => [] | None => snd (f tt) end.
  Proof.
    unfold opt_unwrap_or_else_f, bind, ret. destruct o; cbn; [reflexivity|].
    destruct (f tt); reflexivity.
  Qed.
  Lemma opt_fallback_eager (o : option A) (w : list W) (d : A) (wv : list W) :
    snd (opt_unwrap_or (o, w) (d, wv)) = w ++ wv.
  Proof. unfold opt_unwrap_or, bind, ret. destruct o; cbn; now rewrite !app_nil_r. Qed.
  Lemma opt_map_calls (o : option A) (w : list W) (f : A -> M B) :
    snd (opt_map_c (o, w) f) = w ++ match o with Some x => snd (f x) | None => [] end.
  Proof.
    unfold opt_map_c, bind, ret. destruct o; cbn; [|reflexivity].
    destruct (f a); cbn. now rewrite app_nil_r.
  Qed.
  Lemma opt_filter_calls (o : option A) (w : list W) (p : A -> M bool) :
    snd (opt_filter_c (o, w) p) = w ++ match o with Some x => snd (p x) | None => [] end /\
    fst (opt_filter_c (o, w) p) =
      match o with Some x => if fst (p x) then Some x else None | None => None end.
  Proof.
    unfold opt_filter_c, bind, ret. destruct o; cbn; [|split; reflexivity].
    destruct (p a) as [[|] wp]; cbn; now rewrite app_nil_r.
  Qed.
  Lemma res_fallback_lazy (r : result A E) (w : list W) (f : E -> M A) :
    snd (res_unwrap_or_else_f (r, w) f) =
    w ++ match r with Ok _ => [] | Err x => snd (f x) end.
  Proof.
    unfold res_unwrap_or_else_f, bind, ret. destruct r; cbn; [reflexivity|].
    destruct (f e); reflexivity.
  Qed.
  Lemma res_fallback_eager (r : result A E) (w : list W) (d : A) (wv : list W) :
    snd (res_unwrap_or (r, w) (d, wv)) = w ++ wv.
  Proof. unfold res_unwrap_or, bind, ret. destruct r; cbn; now rewrite !app_nil_r. Qed.

  (* ------------------------------------------------------------ try_! / try_opt! = ? *)
  Lemma try_eq_question_mark (e : M (result A E)) (k : A -> M (result B E)) :
    try_m e k = question_res (fun x => x) e k.
  Proof. unfold try_m, question_res, res_branch, res_from_residual. optres. Qed.

  (** [try_!(e, map_err = |p| v)] is [e.map_err(|p| v)?] *)
  Lemma try_map_err_eq_question_mark (e : M (result A E)) (f : E -> M F)
        (k : A -> M (result B F)) :
    try_map_err_m e f k = question_res (fun x => x) (call1 e (std_res_map_err f)) k.
  Proof.
    unfold try_map_err_m, question_res, res_branch, res_from_residual, std_res_map_err.
    optres.
  Qed.
  Lemma try_map_err0_eq_question_mark (e : M (result A E)) (v : M F)
        (k : A -> M (result B F)) :
    try_map_err0_m e v k = question_res (fun x => x) (call1 e (std_res_map_err (fun _ => v))) k.
  Proof.
    unfold try_map_err0_m, question_res, res_branch, res_from_residual, std_res_map_err.
    optres.
  Qed.

  Lemma try_opt_eq_question_mark (e : M (option A)) (k : A -> M (option B)) :
    try_opt_m e k = question_opt e k.
  Proof. unfold try_opt_m, question_opt, opt_branch, opt_from_residual. optres. Qed.

  (** the code after the macro runs iff the variant is Ok / Some *)
  Lemma try_continues_iff (r : result A E) (w : list W) (k : A -> M (result B E)) :
    try_m (r, w) k = match r with
                     | Ok x => let (b, w') := k x in (b, w ++ w')
                     | Err x => (Err x, w)
                     end.
  Proof. unfold try_m, bind, ret. destruct r; cbn; [reflexivity|]. now rewrite app_nil_r. Qed.
End Proofs.
