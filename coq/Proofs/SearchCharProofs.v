(** C04, char patterns: konst turns a [char] pattern into the bytes [encode_utf8] writes
    ([encode_m c]) and then runs the byte-pattern search.  By C07 ([encode_scalar]) those
    bytes are the UTF-8 encoding of the specification ([Spec.Utf8.encode c]), which is never
    empty, so every theorem about non-empty byte needles applies to char patterns with the
    needle "the UTF-8 encoding of [c]". *)
From KV Require Import Base.Prelude Model.Utf8 Model.Search Spec.Search Spec.Utf8
  Proofs.SearchProofs Proofs.CharsProofs.

Lemma encode_nonempty c : encode c <> [].
Proof.
  unfold encode.
  destruct (c <? 128); [discriminate|]. destruct (c <? 2048); [discriminate|].
  destruct (c <? 65536); discriminate.
Qed.

Lemma encode_m_nonempty c : encode_m c <> [].
Proof.
  unfold encode_m.
  destruct (c <=? 127); [discriminate|]. destruct (c <=? 2047); [discriminate|].
  destruct (c <=? 65535); discriminate.
Qed.

Local Open Scope nat_scope.

(** forward search for a char = first occurrence of its UTF-8 encoding *)
Theorem char_pattern_find c : is_scalar c -> forall h,
  (forall z, find_m h (encode_m c) = Some z <->
             exists i, z = Z.of_nat i /\ first_occ h (encode c) i) /\
  (find_m h (encode_m c) = None <-> no_occ h (encode c)) /\
  encode_m c <> [].
Proof.
  intros S h. split; [|split].
  - intros z. rewrite (encode_scalar c S). apply find_m_some.
  - rewrite (encode_scalar c S). apply find_m_none.
  - apply encode_m_nonempty.
Qed.

(** reverse search for a char = last occurrence of its UTF-8 encoding *)
Theorem char_pattern_rfind c : is_scalar c -> forall h,
  (forall z, rfind_m h (encode_m c) = Some z <->
             exists i, z = Z.of_nat i /\ last_occ h (encode c) i) /\
  (rfind_m h (encode_m c) = None <-> no_occ h (encode c)).
Proof.
  intros S h. rewrite (encode_scalar c S). split.
  - intros z. apply rfind_m_some, encode_nonempty.
  - apply rfind_m_none, encode_nonempty.
Qed.

(** the hypothesis is satisfiable and the statement computes: 'é' (U+00E9) in "aé" *)
Lemma char_pattern_example :
  (is_scalar 233 /\ find_m [97; 195; 169] (encode_m 233) = Some 1 /\ encode 233 = [195; 169])%Z.
Proof. split; [unfold is_scalar; lia | split; vm_compute; reflexivity]. Qed.
