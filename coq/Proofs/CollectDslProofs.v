(** C11 x C10: [collect_const!] of an iterator-DSL chain, end to end.

    [collect_const!] const-evaluates ONE function twice (ComputeLength, then BuildArray CAP);
    what each evaluation pushes through [@each] is what the chain's loop nest yields, i.e.
    [as_dlist (macro_sem ms CForEach src)] (Model/Dsl.v).  Both evaluations are of the same
    pure function on the same constant source, so they yield the same items; the array is
    therefore fully written and holds exactly what the identical std chain collects. *)
From KV Require Import Base.Prelude Model.Dsl Spec.Dsl Proofs.DslFusion Proofs.DslStd
  Model.ArrayMacros Spec.ArrayMacros Proofs.ArrayMacrosProofs.

Definition collect_const_dsl (ms : list adapter) (src : list dval) : cres dval :=
  let items := as_dlist (macro_sem ms CForEach src) in
  collect_const_m items items.

(** every chain (also the known-finding class): the array holds the items of the loop nest *)
Theorem collect_const_dsl_built ms src :
  collect_const_dsl ms src = CBuilt (map Some (as_dlist (macro_sem ms CForEach src))).
Proof. unfold collect_const_dsl. apply collect_two_pass_agree. Qed.

(** and those are the items the identical std chain collects, outside the known-finding class *)
Theorem collect_const_dsl_eq_std ms src :
  accepted ms CForEach = true -> no_rev_after_positional ms CForEach src ->
  collect_const_dsl ms src = CBuilt (map Some (as_dlist (std_sem ms CForEach src))).
Proof.
  intros Ha Hn. rewrite collect_const_dsl_built. now rewrite (dsl_eq_std ms CForEach src Ha Hn).
Qed.

Theorem collect_const_dsl_eq_std_forward ms src :
  reverses ms CForEach = false ->
  collect_const_dsl ms src = CBuilt (map Some (as_dlist (std_sem ms CForEach src))).
Proof.
  intros Hr. rewrite collect_const_dsl_built. now rewrite (dsl_eq_std_forward ms CForEach src Hr).
Qed.

(** in particular the array's length is the number of items std yields: never a partly
    written array, never a length mismatch *)
Corollary collect_const_dsl_fully_init ms src slots :
  collect_const_dsl ms src = CBuilt slots -> fully_init slots.
Proof.
  rewrite collect_const_dsl_built. intros H. injection H as <-. apply fully_init_map_Some.
Qed.
