(** The two independent UTF-8 well-formedness tests of this development agree:
    [Model.Utf8Check.utf8_ok] (one scalar value per step, lead-byte ranges first; used by C20)
    and [Spec.Utf8.utf8] (segmentation by the rows of Table 3-7; used by C01/C03/C07).

    Method: (1) how [utf8] steps over one row ([utf8_step1..4], short inputs);
    (2) for each lead-byte class (ASCII, C2..DF, E0..EF, F0..F4, everything else) how
    the row tests [wf1..wf4] and the range tests of [utf8_ok] reduce; (3) strong induction
    on the length. *)
From KV Require Import Base.Prelude Model.Utf8 Model.Utf8Check Spec.Utf8 Spec.Concat
  Proofs.ConcatProofs Proofs.Utf8CheckProofs.

Module S := KV.Spec.Utf8.
Module M := KV.Model.Utf8Check.

(* ------------------------------------------------------------------ (1) steps of [utf8] *)

Lemma utf8_consopt {A} (e : A) (o : option (list A)) :
  match consopt e o with Some _ => true | None => false end =
  match o with Some _ => true | None => false end.
Proof. destruct o; reflexivity. Qed.

Lemma utf8_step1 a r : wf1 a = true -> utf8 (a :: r) = utf8 r.
Proof. intros H. unfold utf8. cbn [segs]. rewrite H. apply utf8_consopt. Qed.

Lemma utf8_short1 a : wf1 a = false -> utf8 [a] = false.
Proof. intros H. unfold utf8. cbn [segs]. rewrite H. reflexivity. Qed.

Lemma utf8_step2 a b r : wf1 a = false -> wf2 a b = true -> utf8 (a :: b :: r) = utf8 r.
Proof. intros H1 H2. unfold utf8. cbn [segs]. rewrite H1, H2. apply utf8_consopt. Qed.

Lemma utf8_short2 a b : wf1 a = false -> wf2 a b = false -> utf8 [a; b] = false.
Proof. intros H1 H2. unfold utf8. cbn [segs]. rewrite H1, H2. reflexivity. Qed.

Lemma utf8_step3 a b c r : wf1 a = false -> wf2 a b = false -> wf3 a b c = true ->
  utf8 (a :: b :: c :: r) = utf8 r.
Proof. intros H1 H2 H3. unfold utf8. cbn [segs]. rewrite H1, H2, H3. apply utf8_consopt. Qed.

Lemma utf8_short3 a b c : wf1 a = false -> wf2 a b = false -> wf3 a b c = false ->
  utf8 [a; b; c] = false.
Proof. intros H1 H2 H3. unfold utf8. cbn [segs]. rewrite H1, H2, H3. reflexivity. Qed.

Lemma utf8_step4 a b c d r : wf1 a = false -> wf2 a b = false -> wf3 a b c = false ->
  utf8 (a :: b :: c :: d :: r) = wf4 a b c d && utf8 r.
Proof.
  intros H1 H2 H3. unfold utf8. cbn [segs]. rewrite H1, H2, H3.
  destruct (wf4 a b c d); [apply utf8_consopt | reflexivity].
Qed.

(* ------------------------------------------------------------------ (2) lead-byte classes *)

Lemma cont_eq b : M.cont b = S.cont b.
Proof. reflexivity. Qed.

Ltac unfb := unfold wf1, wf2, wf3, wf4, S.cont, inr, second3, second4, M.cont, in_rng.

(** ASCII *)
Lemma lead1 a : 0 <= a <= 127 -> in_rng 0 127 a = true /\ wf1 a = true.
Proof. intros H. unfb. lia. Qed.

(** everything that is not ASCII fails the first tests of both checkers *)
Lemma lead_not1 a : ~ 0 <= a <= 127 -> in_rng 0 127 a = false /\ wf1 a = false.
Proof. intros H. unfb. lia. Qed.

(** C2..DF *)
Lemma lead2 a : 194 <= a <= 223 -> in_rng 194 223 a = true /\ forall b, wf2 a b = S.cont b.
Proof. intros H. unfb. split; [lia | intros b; lia]. Qed.

Lemma lead_not2 a : ~ 194 <= a <= 223 -> in_rng 194 223 a = false /\ forall b, wf2 a b = false.
Proof. intros H. unfb. split; [lia | intros b; lia]. Qed.

(** E0..EF: the four rows of the table collapse to the [second3] test *)
Lemma lead3 a : 224 <= a <= 239 ->
  in_rng 224 239 a = true /\ forall b c, wf3 a b c = second3 a b && M.cont c.
Proof.
  intros H. split; [unfb; lia|]. intros b c. unfold second3.
  destruct (Z.eqb_spec a 224) as [E|N1]; [subst a; unfb; lia|].
  destruct (Z.eqb_spec a 237) as [E|N2]; [subst a; unfb; lia|].
  unfb. lia.
Qed.

Lemma lead_not3 a : ~ 224 <= a <= 239 ->
  in_rng 224 239 a = false /\ forall b c, wf3 a b c = false.
Proof. intros H. unfb. split; [lia | intros b c; lia]. Qed.

(** F0..F4 *)
Lemma lead4 a : 240 <= a <= 244 ->
  in_rng 240 244 a = true /\ forall b c d, wf4 a b c d = second4 a b && M.cont c && M.cont d.
Proof.
  intros H. split; [unfb; lia|]. intros b c d. unfold second4.
  destruct (Z.eqb_spec a 240) as [E|N1]; [subst a; unfb; lia|].
  destruct (Z.eqb_spec a 244) as [E|N2]; [subst a; unfb; lia|].
  unfb. lia.
Qed.

Lemma lead_not4 a : ~ 240 <= a <= 244 ->
  in_rng 240 244 a = false /\ forall b c d, wf4 a b c d = false.
Proof. intros H. unfb. split; [lia | intros b c d; lia]. Qed.

(** the five classes *)
Lemma lead_classes a :
  0 <= a <= 127 \/ 194 <= a <= 223 \/ 224 <= a <= 239 \/ 240 <= a <= 244 \/
  (~ 0 <= a <= 127 /\ ~ 194 <= a <= 223 /\ ~ 224 <= a <= 239 /\ ~ 240 <= a <= 244).
Proof. lia. Qed.

(* ------------------------------------------------------------------ (3) the equivalence *)

Lemma utf8_ok_is_utf8_n n : forall l, (length l <= n)%nat -> utf8_ok l = utf8 l.
Proof.
  induction n as [|n IH]; intros l L.
  { destruct l; [reflexivity | cbn [length] in L; lia]. }
  destruct l as [|a r0]; [reflexivity|]. cbn [length] in L.
  destruct (lead_classes a) as [C|[C|[C|[C|(N1 & N2 & N3 & N4)]]]].
  - (* ASCII *)
    destruct (lead1 a C) as [R W1]. cbn [utf8_ok]. rewrite R, (utf8_step1 _ _ W1).
    apply IH. lia.
  - (* two bytes *)
    destruct (lead_not1 a ltac:(lia)) as [R1 W1]. destruct (lead2 a C) as [R2 W2].
    cbn [utf8_ok]. rewrite R1.
    destruct r0 as [|b r1]; [now rewrite utf8_short1|]. cbn [length] in L. rewrite R2.
    destruct (S.cont b) eqn:Cb.
    + rewrite utf8_step2 by (rewrite ?W2; assumption). rewrite cont_eq, Cb. cbn [andb].
      apply IH. lia.
    + rewrite cont_eq, Cb. cbn [andb]. symmetry.
      assert (W2b : wf2 a b = false) by (rewrite W2; exact Cb).
      destruct (lead_not3 a ltac:(lia)) as [_ W3]. destruct (lead_not4 a ltac:(lia)) as [_ W4].
      destruct r1 as [|c r2]; [now apply utf8_short2|].
      destruct r2 as [|d r3]; [apply utf8_short3; auto|].
      rewrite utf8_step4 by auto. now rewrite W4.
  - (* three bytes *)
    destruct (lead_not1 a ltac:(lia)) as [R1 W1]. destruct (lead_not2 a ltac:(lia)) as [R2 W2].
    destruct (lead3 a C) as [R3 W3]. destruct (lead_not4 a ltac:(lia)) as [_ W4].
    cbn [utf8_ok]. rewrite R1.
    destruct r0 as [|b r1]; [now rewrite utf8_short1|]. rewrite R2.
    destruct r1 as [|c r2]; [now rewrite utf8_short2|]. rewrite R3. cbn [length] in L.
    destruct (wf3 a b c) eqn:E3.
    + rewrite utf8_step3 by auto. rewrite <- W3, E3. cbn [andb]. apply IH. lia.
    + rewrite <- W3, E3. cbn [andb]. symmetry.
      destruct r2 as [|d r3]; [apply utf8_short3; auto|].
      rewrite utf8_step4 by auto. now rewrite W4.
  - (* four bytes *)
    destruct (lead_not1 a ltac:(lia)) as [R1 W1]. destruct (lead_not2 a ltac:(lia)) as [R2 W2].
    destruct (lead_not3 a ltac:(lia)) as [R3 W3]. destruct (lead4 a C) as [R4 W4].
    cbn [utf8_ok]. rewrite R1.
    destruct r0 as [|b r1]; [now rewrite utf8_short1|]. rewrite R2.
    destruct r1 as [|c r2]; [now rewrite utf8_short2|]. rewrite R3.
    destruct r2 as [|d r3]; [now rewrite utf8_short3|]. rewrite R4. cbn [length] in L.
    rewrite utf8_step4 by auto. rewrite <- W4. f_equal. apply IH. lia.
  - (* no lead byte: 80..C1, F5.., and anything outside a byte *)
    destruct (lead_not1 a N1) as [R1 W1]. destruct (lead_not2 a N2) as [R2 W2].
    destruct (lead_not3 a N3) as [R3 W3]. destruct (lead_not4 a N4) as [R4 W4].
    cbn [utf8_ok]. rewrite R1.
    destruct r0 as [|b r1]; [now rewrite utf8_short1|]. rewrite R2.
    destruct r1 as [|c r2]; [now rewrite utf8_short2|]. rewrite R3.
    destruct r2 as [|d r3]; [now rewrite utf8_short3|]. rewrite R4.
    rewrite utf8_step4 by auto. now rewrite W4.
Qed.

Theorem utf8_ok_is_utf8 l : utf8_ok l = utf8 l.
Proof. apply (utf8_ok_is_utf8_n (length l)). lia. Qed.

(* ------------------------------------------------------------------ consequences for C20 *)

Lemma Forall_utf8_ok ss :
  Forall (fun s => utf8 s = true) ss -> Forall (fun s => utf8_ok s = true) ss.
Proof. intros F. eapply Forall_impl; [|exact F]. intros s H. now rewrite utf8_ok_is_utf8. Qed.

(** the validity theorems of C20 in the vocabulary of [Spec.Utf8]: concatenating / joining
    valid strings gives a valid string *)
Theorem concat_valid_spec :
  (forall ss, Forall (fun s => utf8 s = true) ss -> utf8 (flat ss) = true) /\
  (forall sep ss, utf8 sep = true -> Forall (fun s => utf8 s = true) ss ->
     utf8 (intercalate sep ss) = true).
Proof.
  split.
  - intros ss F. rewrite <- utf8_ok_is_utf8. apply utf8_ok_flat, Forall_utf8_ok, F.
  - intros sep ss Hs F. rewrite <- utf8_ok_is_utf8.
    apply utf8_ok_intercalate; [now rewrite utf8_ok_is_utf8 | apply Forall_utf8_ok, F].
Qed.

(** and so is the encoding of a scalar value *)
Theorem encode_valid_spec c : is_scalar c -> utf8 (encode_m c) = true.
Proof. intros H. rewrite <- utf8_ok_is_utf8. now apply utf8_ok_encode. Qed.
