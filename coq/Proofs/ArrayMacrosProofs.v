(** C11 — proofs about Model/ArrayMacros.v (array::map!, array::from_fn!, collect_const!). *)
From KV Require Import Base.Prelude Model.ArrayMacros Spec.ArrayMacros.
Local Open Scope nat_scope.

(* ------------------------------------------------------------------ list facts *)

Lemma set_nth_length {A} (l : list A) k v : length (set_nth l k v) = length l.
Proof. revert k; induction l as [|x r IH]; intros [|k]; cbn; auto. Qed.

Lemma set_nth_app_mid {A} (a : list A) x b v : set_nth (a ++ x :: b) (length a) v = a ++ v :: b.
Proof. induction a as [|y a IH]; cbn; [reflexivity | now rewrite IH]. Qed.

Lemma firstn_S_nth_error {A} (l : list A) i x :
  nth_error l i = Some x -> firstn (S i) l = firstn i l ++ [x].
Proof.
  revert i; induction l as [|y r IH]; intros [|i] H; cbn in *; try discriminate.
  - now inversion H.
  - f_equal. now apply IH.
Qed.

Lemma skipn_nth_error {A} (l : list A) i x :
  nth_error l i = Some x -> skipn i l = x :: skipn (S i) l.
Proof.
  revert i; induction l as [|y r IH]; intros [|i] H; cbn in *; try discriminate.
  - now inversion H.
  - now apply IH.
Qed.

Lemma nth_error_lt_some {A} (l : list A) i : i < length l -> exists x, nth_error l i = Some x.
Proof.
  intro H. destruct (nth_error l i) eqn:E; [eauto|].
  apply nth_error_None in E. lia.
Qed.

Lemma Forall2_len {A B} (R : A -> B -> Prop) l1 l2 : Forall2 R l1 l2 -> length l1 = length l2.
Proof. induction 1; cbn; congruence. Qed.

Lemma repeat_S_cons {A} (x : A) n : repeat x (S n) = x :: repeat x n.
Proof. reflexivity. Qed.

(** writing slot [i] of an array whose first [i] slots are written *)
Lemma write_next_slot {B} (done : list B) (m : nat) v :
  set_nth (map Some done ++ repeat None (S m)) (length done) (Some v)
  = map Some (done ++ [v]) ++ repeat None m.
Proof.
  rewrite repeat_S_cons.
  replace (length done) with (length (map Some done)) by apply map_length.
  rewrite set_nth_app_mid, map_app. cbn. now rewrite <- app_assoc.
Qed.

(* ------------------------------------------------------------------ array::map! *)

Section Map.
  Context {A B : Type}.
  Implicit Types (clo : nat -> A -> outcome B) (input : list A).

  (** [v] is what some evaluation of the closure body on [x] produced *)
  Definition produced clo (x : A) (v : B) : Prop := exists k, clo k x = Value v.

  (** THE safety lemma: whatever the closure does and whatever the fuel, reaching
      [array_assume_init] means every slot was written, with a value the closure produced
      for the input element of the same index. *)
  Lemma amap_loop_built : forall fuel clo input i calls done slots,
    length done = i -> i <= length input ->
    Forall2 (produced clo) (firstn i input) done ->
    amap_loop fuel clo input i calls (map Some done ++ repeat None (length input - i)) = Built slots ->
    exists l, slots = map Some l /\ Forall2 (produced clo) input l.
  Proof.
    assert (Hfin : forall clo input (done : list B) slots,
      length done <= length input ->
      Forall2 (produced clo) (firstn (length done) input) done ->
      (length done <? length input) = false ->
      after_loop (length input) (length done)
        (map Some done ++ repeat None (length input - length done)) = Built slots ->
      exists l, slots = map Some l /\ Forall2 (produced clo) input l).
    { intros clo input done slots Hle HF Hlt Hrun.
      apply Nat.ltb_ge in Hlt. assert (He : length done = length input) by lia.
      unfold after_loop in Hrun. rewrite He, Nat.eqb_refl in Hrun. inversion Hrun; subst.
      rewrite Nat.sub_diag. cbn [repeat]. rewrite app_nil_r. exists done. split; [reflexivity|].
      rewrite He in HF. now rewrite firstn_all in HF. }
    induction fuel as [|fuel IH]; intros clo input i calls done slots Hlen Hle HF Hrun; subst i.
    - cbn [amap_loop] in Hrun. destruct (length done <? length input) eqn:Hlt; [discriminate|].
      now apply (Hfin clo input done slots).
    - cbn [amap_loop] in Hrun. destruct (length done <? length input) eqn:Hlt.
      + apply Nat.ltb_lt in Hlt.
        destruct (nth_error_lt_some input _ Hlt) as [x Hx]. rewrite Hx in Hrun.
        destruct (clo calls x) as [v| | | |] eqn:Hc.
        * rewrite app_length, map_length, repeat_length in Hrun.
          replace (length done <? length done + (length input - length done)) with true in Hrun
            by (symmetry; apply Nat.ltb_lt; lia).
          replace (length input - length done) with (S (length input - S (length done))) in Hrun by lia.
          rewrite write_next_slot in Hrun.
          assert (Hl : length (done ++ [v]) = S (length done)) by (rewrite app_length; cbn; lia).
          rewrite <- Hl in Hrun.
          apply (IH clo input (length (done ++ [v])) (S calls) (done ++ [v]) slots); try assumption.
          -- reflexivity.
          -- lia.
          -- rewrite Hl, (firstn_S_nth_error _ _ _ Hx). apply Forall2_app; [assumption|].
             constructor; [|constructor]. now exists calls.
        * unfold after_loop in Hrun. replace (length done =? length input) with false in Hrun
            by (symmetry; apply Nat.eqb_neq; lia). discriminate.
        * now apply (IH clo input (length done) (S calls) done slots).
        * discriminate.
        * discriminate.
      + now apply (Hfin clo input done slots).
  Qed.

  Theorem map_built_produced : forall fuel clo input slots,
    array_map_m fuel clo input = Built slots ->
    exists l, slots = map Some l /\ Forall2 (produced clo) input l.
  Proof.
    intros fuel clo input slots H. unfold array_map_m in H.
    apply (amap_loop_built fuel clo input 0 0 [] slots); try reflexivity; try lia.
    - constructor.
    - now rewrite Nat.sub_0_r.
  Qed.

  (** ... hence fully initialised, of the input's length, and equal to [map f] as soon as
      the closure body, whenever it yields a value, yields [f x] *)
  Theorem map_built_full : forall fuel clo input slots (f : A -> B),
    (forall k x v, clo k x = Value v -> v = f x) ->
    array_map_m fuel clo input = Built slots ->
    fully_init slots /\ slots = map Some (map f input).
  Proof.
    intros fuel clo input slots f Hf H.
    destruct (map_built_produced _ _ _ _ H) as [l [-> HF]].
    assert (l = map f input) as ->.
    { clear H. induction HF as [|x v xs vs [k Hk] _ IH]; cbn; [reflexivity|].
      f_equal; [now apply (Hf k)|assumption]. }
    split; [apply fully_init_map_Some | reflexivity].
  Qed.

  Theorem map_built_length : forall fuel clo input slots,
    array_map_m fuel clo input = Built slots -> fully_init slots /\ length slots = length input.
  Proof.
    intros fuel clo input slots H.
    destruct (map_built_produced _ _ _ _ H) as [l [-> HF]].
    split; [apply fully_init_map_Some|]. rewrite map_length. symmetry. eapply Forall2_len; eauto.
  Qed.

  (** a closure whose body always evaluates to a value: the macro is std's map, the k-th
      evaluation being applied to element k *)
  Lemma amap_loop_values : forall fuel clo (g : nat -> A -> B) input i done,
    (forall k x, clo k x = Value (g k x)) ->
    length done = i -> i <= length input -> length input - i <= fuel ->
    amap_loop fuel clo input i i (map Some done ++ repeat None (length input - i))
    = Built (map Some (done ++ mapi_from i g (skipn i input))).
  Proof.
    assert (Hfin : forall (g : nat -> A -> B) input (done : list B),
      length done = length input ->
      after_loop (length input) (length done)
        (map Some done ++ repeat None (length input - length done))
      = Built (map Some (done ++ mapi_from (length done) g (skipn (length done) input)))).
    { intros g input done He. unfold after_loop. rewrite He, Nat.eqb_refl.
      rewrite skipn_all, Nat.sub_diag. cbn. now rewrite !app_nil_r. }
    induction fuel as [|fuel IH]; intros clo g input i done Hg Hlen Hle Hfuel; subst i.
    - assert (He : length done = length input) by lia. cbn [amap_loop].
      replace (length done <? length input) with false by (symmetry; apply Nat.ltb_ge; lia).
      now apply Hfin.
    - cbn [amap_loop]. destruct (length done <? length input) eqn:Hlt.
      + apply Nat.ltb_lt in Hlt.
        destruct (nth_error_lt_some input _ Hlt) as [x Hx]. rewrite Hx, Hg.
        rewrite app_length, map_length, repeat_length.
        replace (length done <? length done + (length input - length done)) with true
          by (symmetry; apply Nat.ltb_lt; lia).
        replace (length input - length done) with (S (length input - S (length done))) by lia.
        rewrite write_next_slot.
        assert (Hl : length (done ++ [g (length done) x]) = S (length done))
          by (rewrite app_length; cbn; lia).
        rewrite <- Hl.
        rewrite (IH clo g input (length (done ++ [g (length done) x])) (done ++ [g (length done) x]));
          try assumption; try reflexivity; try lia.
        rewrite Hl, (skipn_nth_error _ _ _ Hx). cbn [mapi_from]. now rewrite <- app_assoc.
      + apply Nat.ltb_ge in Hlt. apply Hfin. lia.
  Qed.

  Theorem map_value_eq_std_indexed : forall fuel clo (g : nat -> A -> B) input,
    (forall k x, clo k x = Value (g k x)) -> length input <= fuel ->
    array_map_m fuel clo input = Built (map Some (std_map g input)).
  Proof.
    intros fuel clo g input Hg Hfuel. unfold array_map_m.
    pose proof (amap_loop_values fuel clo g input 0 [] Hg eq_refl) as H.
    rewrite Nat.sub_0_r in H. cbn [map app skipn] in H. apply H; lia.
  Qed.

  Theorem map_value_eq_std : forall fuel clo (f : A -> B) input,
    (forall k x, clo k x = Value (f x)) -> length input <= fuel ->
    array_map_m fuel clo input = Built (map Some (map f input)).
  Proof.
    intros fuel clo f input Hf Hfuel.
    rewrite (map_value_eq_std_indexed fuel clo (fun _ x => f x)); try assumption.
    unfold std_map. now rewrite mapi_from_pure.
  Qed.

  (** [continue] does not advance the index: a body that always continues never finishes *)
  Lemma amap_loop_continue : forall fuel clo input i calls out,
    (forall k x, clo k x = Continue) -> i < length input ->
    amap_loop fuel clo input i calls out = Diverged.
  Proof.
    induction fuel as [|fuel IH]; intros clo input i calls out Hc Hlt; cbn [amap_loop];
      replace (i <? length input) with true by (symmetry; now apply Nat.ltb_lt).
    - reflexivity.
    - destruct (nth_error_lt_some input i Hlt) as [x Hx]. rewrite Hx, Hc. now apply IH.
  Qed.

  Theorem continue_diverges : forall fuel clo input,
    (forall k x, clo k x = Continue) -> input <> [] ->
    array_map_m fuel clo input = Diverged.
  Proof.
    intros fuel clo input Hc Hne. apply amap_loop_continue; [assumption|].
    destruct input; [contradiction | cbn; lia].
  Qed.

  (** run through [n] value-producing evaluations *)
  Lemma amap_loop_prefix : forall n fuel clo (g : nat -> A -> B) input i out,
    (forall j x, j < i + n -> clo j x = Value (g j x)) ->
    i + n <= length input -> length out = length input ->
    exists out', length out' = length input /\
      amap_loop (n + fuel) clo input i i out = amap_loop fuel clo input (i + n) (i + n) out'.
  Proof.
    induction n as [|n IH]; intros fuel clo g input i out Hg Hle Hout.
    - exists out. rewrite !Nat.add_0_r. auto.
    - cbn [Nat.add amap_loop].
      replace (i <? length input) with true by (symmetry; apply Nat.ltb_lt; lia).
      destruct (nth_error_lt_some input i) as [x Hx]; [lia|]. rewrite Hx, Hg by lia.
      replace (i <? length out) with true by (symmetry; apply Nat.ltb_lt; lia).
      destruct (IH fuel clo g input (S i) (set_nth out i (Some (g i x)))) as [out' [Hl He]].
      + intros j y Hj. apply Hg. lia.
      + lia.
      + now rewrite set_nth_length.
      + exists out'. split; [assumption|]. rewrite He. f_equal; lia.
  Qed.

  (** the first evaluation that does not yield a value decides the result, and it is never
      [Built]: [break] trips the post-loop assertion *)
  Theorem exit_decides : forall k fuel clo (g : nat -> A -> B) input,
    (forall j x, j < k -> clo j x = Value (g j x)) -> k < length input -> k < fuel ->
    forall x, nth_error input k = Some x ->
    array_map_m fuel clo input =
      match clo k x with
      | Break => Panicked
      | Return => Returned
      | Panic => Panicked
      | _ => array_map_m fuel clo input
      end.
  Proof.
    intros k fuel clo g input Hg Hlt Hfuel x Hx.
    destruct (clo k x) eqn:Hc; try reflexivity; unfold array_map_m;
      (destruct (amap_loop_prefix k (fuel - k) clo g input 0 (repeat None (length input)))
         as [out' [Hl He]];
       [intros j y Hj; apply Hg; lia | lia | apply repeat_length |]);
      replace (k + (fuel - k)) with fuel in He by lia; rewrite He; cbn [Nat.add];
      (destruct (fuel - k) as [|f'] eqn:Hf; [lia|]); cbn [amap_loop];
      replace (k <? length input) with true by (symmetry; now apply Nat.ltb_lt);
      rewrite Hx, Hc; try reflexivity.
    unfold after_loop. replace (k =? length input) with false by (symmetry; apply Nat.eqb_neq; lia).
    reflexivity.
  Qed.

  Theorem break_panics : forall k fuel clo (g : nat -> A -> B) input x,
    (forall j y, j < k -> clo j y = Value (g j y)) -> k < fuel ->
    nth_error input k = Some x -> clo k x = Break ->
    array_map_m fuel clo input = Panicked.
  Proof.
    intros k fuel clo g input x Hg Hfuel Hx Hc.
    assert (k < length input) by (apply nth_error_Some; congruence).
    rewrite (exit_decides k fuel clo g input Hg H Hfuel x Hx). now rewrite Hc.
  Qed.
End Map.

(* ------------------------------------------------------------------ array::from_fn! *)

Theorem from_fn_built_full : forall {B} fuel (clo : nat -> nat -> outcome B) N slots (f : nat -> B),
  (forall k i v, clo k i = Value v -> v = f i) ->
  array_from_fn_m fuel clo N = Built slots ->
  fully_init slots /\ slots = map Some (map f (seq 0 N)).
Proof. intros B fuel clo N slots f Hf H. exact (map_built_full fuel clo (seq 0 N) slots f Hf H). Qed.

Theorem from_fn_eq_std : forall {B} fuel (clo : nat -> nat -> outcome B) N (g : nat -> nat -> B),
  (forall k i, clo k i = Value (g k i)) -> N <= fuel ->
  array_from_fn_m fuel clo N = Built (map Some (std_from_fn g N)).
Proof.
  intros B fuel clo N g Hg Hfuel. unfold array_from_fn_m, std_from_fn.
  apply map_value_eq_std_indexed; [assumption | now rewrite seq_length].
Qed.

(* ------------------------------------------------------------------ collect_const! *)

Lemma build_loop_spec {A} : forall (items done : list A) cap,
  length done <= cap ->
  build_loop items (map Some done ++ repeat None (cap - length done)) (length done)
  = if length done + length items <=? cap
    then Some (map Some (done ++ items) ++ repeat None (cap - length done - length items),
               length done + length items)
    else None.
Proof.
  induction items as [|x r IH]; intros done cap Hle; cbn [build_loop length].
  - rewrite Nat.add_0_r. replace (length done <=? cap) with true by (symmetry; now apply Nat.leb_le).
    now rewrite app_nil_r, Nat.sub_0_r.
  - rewrite app_length, map_length, repeat_length.
    destruct (length done <? length done + (cap - length done)) eqn:Hlt.
    + apply Nat.ltb_lt in Hlt.
      replace (cap - length done) with (S (cap - S (length done))) by lia.
      rewrite write_next_slot.
      replace (S (length done)) with (length (done ++ [x])) by (rewrite app_length; cbn; lia).
      replace (cap - length (done ++ [x])) with (cap - length (done ++ [x])) by reflexivity.
      assert (Hl : length (done ++ [x]) = S (length done)) by (rewrite app_length; cbn; lia).
      replace (cap - S (length done)) with (cap - length (done ++ [x])) by (rewrite Hl; reflexivity).
      rewrite IH by (rewrite Hl; lia). rewrite Hl.
      replace (S (length done) + length r <=? cap) with (length done + S (length r) <=? cap)
        by (f_equal; lia).
      destruct (length done + S (length r) <=? cap); [|reflexivity].
      rewrite <- app_assoc. cbn [app].
      replace (S (cap - S (length done)) - S (length r)) with (cap - S (length done) - length r) by lia.
      replace (S (length done) + length r) with (length done + S (length r)) by lia.
      reflexivity.
    + apply Nat.ltb_ge in Hlt.
      replace (length done + S (length r) <=? cap) with false by (symmetry; apply Nat.leb_gt; lia).
      reflexivity.
Qed.

Lemma build_array_spec {A} : forall cap (items : list A),
  build_array cap items = if length items =? cap then CBuilt (map Some items) else CPanicked.
Proof.
  intros cap items. unfold build_array.
  pose proof (build_loop_spec items [] cap (Nat.le_0_l _)) as H. cbn [length map app] in H.
  rewrite Nat.sub_0_r in H. rewrite H. cbn [Nat.add].
  destruct (length items <=? cap) eqn:Hle.
  - destruct (length items =? cap) eqn:He; [|reflexivity].
    apply Nat.eqb_eq in He. rewrite He, Nat.sub_diag. cbn. now rewrite app_nil_r.
  - apply Nat.leb_gt in Hle. replace (length items =? cap) with false
      by (symmetry; apply Nat.eqb_neq; lia). reflexivity.
Qed.

(** a [Built] result has every slot written, by the second pass's items, and the two
    passes saw the same number of items *)
Theorem collect_built_full {A} : forall (items1 items2 : list A) slots,
  collect_const_m items1 items2 = CBuilt slots ->
  fully_init slots /\ slots = map Some items2 /\ length items2 = length items1.
Proof.
  intros items1 items2 slots H. unfold collect_const_m, compute_length in H.
  rewrite build_array_spec in H. destruct (length items2 =? length items1) eqn:He; [|discriminate].
  inversion H; subst. apply Nat.eqb_eq in He.
  split; [apply fully_init_map_Some | split; [reflexivity | assumption]].
Qed.

(** a deterministic chain (both const evaluations yield the same items): the array is
    exactly what std's collect gives *)
Theorem collect_two_pass_agree {A} : forall (items : list A),
  collect_const_m items items = CBuilt (map Some (std_collect items)).
Proof.
  intro items. unfold collect_const_m, compute_length, std_collect.
  now rewrite build_array_spec, Nat.eqb_refl.
Qed.

(** passes that disagree on the count are caught by [assert!(length == CAP)] (or by the
    array index) instead of returning a partly written array *)
Theorem collect_disagree_panics {A} : forall (items1 items2 : list A),
  length items1 <> length items2 -> collect_const_m items1 items2 = CPanicked.
Proof.
  intros items1 items2 H. unfold collect_const_m, compute_length. rewrite build_array_spec.
  replace (length items2 =? length items1) with false by (symmetry; apply Nat.eqb_neq; lia).
  reflexivity.
Qed.
