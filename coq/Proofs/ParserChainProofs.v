(** parser_method! = the chain of Parser method calls, at the level of the Parser
    (remainder, start_offset, direction), for remainders and literals that are UTF-8
    shaped: Parser::skip / skip_back never have to round (matched_bytes_on_boundaries). *)
From KV Require Import Base.Prelude Model.Literal Model.ParserMethod Spec.Search Spec.Literal
  Spec.ParserMethod Spec.ParserChain Proofs.LiteralProofs Proofs.ParserMethodProofs.
Local Open Scope nat_scope.

Lemma lead_not_cont b n : lead_len b = Some n -> is_cont b = false.
Proof.
  unfold lead_len, is_cont. intro H.
  destruct (Z.ltb_spec b 128); [destruct (Z.leb_spec 128 b); [lia | reflexivity]|].
  destruct (Z.leb_spec 192 b); cbn [andb] in H.
  - destruct (Z.ltb_spec b 192); [lia|]. now rewrite andb_false_r.
  - destruct (Z.leb_spec 224 b); [lia|]. destruct (Z.leb_spec 240 b); [lia|]. cbn [andb] in H. discriminate.
Qed.

Lemma shape_head b t : str_shape (b :: t) -> is_cont b = false.
Proof. intro H. inversion H; subst. eapply lead_not_cont; eassumption. Qed.

Lemma shape_round_up r : str_shape r -> round_up r = 0.
Proof.
  intro H. destruct r as [|b t]; [reflexivity|]. cbn [round_up]. now rewrite (shape_head b t H).
Qed.

Lemma app_eq_len {A} (a a' b b' : list A) : a ++ b = a' ++ b' -> length a = length a' -> a = a' /\ b = b'.
Proof.
  revert a'. induction a as [|x a IH]; intros [|y a'] H Hl; cbn in *; try discriminate.
  - auto.
  - inversion H; subst. destruct (IH a' H2 ltac:(lia)) as [-> ->]. auto.
Qed.

(** text that starts with shaped text continues, after it, with shaped text:
    a matched literal ends on a char boundary of the remainder *)
Lemma shape_inv b l :
  str_shape (b :: l) ->
  exists cs rest, l = cs ++ rest /\ lead_len b = Some (length cs) /\ str_shape rest.
Proof. intro H. inversion H; subst. eexists _, _. split; [reflexivity|]. split; assumption. Qed.

Lemma shape_app_inv a : str_shape a -> forall r, str_shape (a ++ r) -> str_shape r.
Proof.
  induction 1 as [|b cs rest Hl Hc _ IH]; intros r H; [exact H|].
  apply IH. cbn [app] in H. rewrite <- app_assoc in H.
  apply shape_inv in H. destruct H as (cs' & rest' & E & Hl' & Hr').
  rewrite Hl in Hl'. inversion Hl' as [Hlen].
  destruct (app_eq_len _ _ _ _ E Hlen) as [_ ->]. exact Hr'.
Qed.

(* ------------------------------------------------------------------ skip / skip_back *)

Lemma set_rem_start p a r :
  p_rem p = a ++ r -> round_up r = 0 ->
  set_rem AtStart p r = mkP r (p_off p + zlen a)%Z FromStart.
Proof.
  intros E Hr. unfold set_rem, skip_m. rewrite E.
  replace (zlen (a ++ r) - zlen r)%Z with (zlen a) by (rewrite zlen_app; lia).
  destruct (Z.ltb_spec (zlen (a ++ r)) (zlen a)) as [Hlt|_]; [rewrite zlen_app in Hlt; pose proof (zlen_nonneg r); lia|].
  assert (En : Z.to_nat (zlen a) = length a) by (unfold zlen; apply Nat2Z.id).
  assert (Es : skipn (length a) (a ++ r) = r) by (rewrite skipn_app, skipn_all, Nat.sub_diag; reflexivity).
  rewrite En, Es, Hr, Nat.add_0_r, Es. reflexivity.
Qed.

Lemma round_down_boundary bytes pos : is_boundary_at bytes pos = true -> round_down bytes pos = pos.
Proof. intro H. destruct pos; [reflexivity|]. cbn [round_down]. now rewrite H. Qed.

Lemma set_rem_end p a r :
  p_rem p = r ++ a -> (forall b t, a = b :: t -> is_cont b = false) ->
  set_rem AtEnd p r = mkP r (p_off p) FromEnd.
Proof.
  intros E Ha. unfold set_rem, skip_back_m. rewrite E.
  replace (zlen (r ++ a) - (zlen (r ++ a) - zlen r))%Z with (zlen r) by lia.
  rewrite Z.max_r by apply zlen_nonneg. unfold zlen. rewrite Nat2Z.id.
  rewrite round_down_boundary.
  - rewrite firstn_app, firstn_all, Nat.sub_diag. cbn [firstn]. now rewrite app_nil_r.
  - unfold is_boundary_at. rewrite skipn_app, skipn_all, Nat.sub_diag. cbn [skipn app].
    destruct a as [|b t].
    + rewrite app_nil_r. apply Nat.eqb_refl.
    + now rewrite (Ha b t eq_refl).
Qed.

Lemma shape_head_fact a : str_shape a -> forall b t, a = b :: t -> is_cont b = false.
Proof. intros H b t ->. now apply shape_head in H. Qed.

(** the parser after a match at either end is what Parser::strip_prefix / strip_suffix returns *)
Lemma set_rem_strip s p a r :
  str_shape (p_rem p) -> str_shape a -> splits (end_of s) a (p_rem p) r ->
  P_strip (end_of s) p a (set_rem s p r).
Proof.
  intros Hp Ha Hs. destruct s; cbn [end_of splits P_strip] in *.
  - exists r. split; [exact Hs|]. apply (set_rem_start p a r); [exact Hs|].
    apply shape_round_up. apply (shape_app_inv a Ha). now rewrite <- Hs.
  - exists r. split; [exact Hs|]. apply (set_rem_end p a r); [exact Hs|]. now apply shape_head_fact.
Qed.

Lemma P_strip_matches e p a : (exists q, P_strip e p a q) <-> matches e a (p_rem p).
Proof.
  destruct e; cbn [P_strip]; unfold P_strip_prefix, P_strip_suffix, matches, splits; split.
  - intros (q & r & E & _). now exists r.
  - intros (r & E). eexists. exists r. split; [exact E | reflexivity].
  - intros (q & r & E & _). now exists r.
  - intros (r & E). eexists. exists r. split; [exact E | reflexivity].
Qed.

Lemma P_strip_fun e p a q q' : P_strip e p a q -> P_strip e p a q' -> q = q'.
Proof.
  destruct e; cbn [P_strip]; intros (r & E & ->) (r' & E' & ->); rewrite E in E'.
  - apply app_inv_head in E'. now subst.
  - apply app_inv_tail in E'. now subst.
Qed.

Definition arms_shaped (arms : arm_list) : Prop := forall i a, In (i, a) arms -> str_shape a.

(* ------------------------------------------------------------------ strip_prefix / strip_suffix *)

(** strip_eq_chain: the branch that runs is the first listed alternative for which
    Parser::strip_prefix (strip_suffix) returns Ok, and the parser becomes what that call
    returned ... *)
Lemma strip_macro_some s brs p i q :
  str_shape (p_rem p) -> arms_shaped (arms_of brs) ->
  (strip_macro s brs p = (Some i, q) <->
   exists j a, first_listed (fun a => exists q', P_strip (end_of s) p a q') (arms_of brs) j i a /\
               P_strip (end_of s) p a q).
Proof.
  intros Hp Harms. unfold strip_macro.
  destruct (match_arms s (arms_of brs) (p_rem p)) as [[i0 r]|] eqn:E.
  - apply match_arms_some in E. destruct E as (j & a & Hfl & Hs).
    assert (Ha : str_shape a).
    { destruct Hfl as (Hn & _). apply nth_error_In in Hn. now apply (Harms i0 a). }
    pose proof (set_rem_strip s p a r Hp Ha Hs) as Hq.
    assert (Hfl' : first_listed (fun a => exists q', P_strip (end_of s) p a q') (arms_of brs) j i0 a).
    { eapply first_listed_ext; [|exact Hfl]. intro x. apply P_strip_matches. }
    split.
    + intro H; inversion H; subst. now exists j, a.
    + intros (j' & a' & Hfl2 & Hq2).
      destruct (first_listed_unique _ _ _ _ _ _ _ _ Hfl' Hfl2) as (-> & -> & ->).
      now rewrite (P_strip_fun _ _ _ _ _ Hq Hq2).
  - split; [discriminate|]. intros (j & a & Hfl & _). exfalso.
    apply match_arms_none in E. destruct Hfl as (Hn & Hm & _). apply nth_error_In in Hn.
    apply (E i a Hn). now apply P_strip_matches.
Qed.

(** ... and the default branch runs, with the parser unchanged, exactly when every call fails *)
Lemma strip_macro_none s brs p q :
  strip_macro s brs p = (None, q) <->
  q = p /\ none_listed (fun a => exists q', P_strip (end_of s) p a q') (arms_of brs).
Proof.
  unfold strip_macro.
  destruct (match_arms s (arms_of brs) (p_rem p)) as [[i0 r]|] eqn:E.
  - split; [discriminate|]. intros (_ & Hn). exfalso.
    apply match_arms_some in E. destruct E as (j & a & (Hnth & Hm & _) & _).
    apply nth_error_In in Hnth. apply (Hn i0 a Hnth). now apply P_strip_matches.
  - apply match_arms_none in E. split.
    + intro H; inversion H; subst. split; [reflexivity|].
      eapply none_listed_ext; [|exact E]. intro x. apply P_strip_matches.
    + intros (-> & _). reflexivity.
Qed.

(* ------------------------------------------------------------------ no rounding, all forms *)

(** the parser cut exactly in front of / behind the remainder [r] the macro selected *)
Definition cut (s : side) (p : parser) (r : list Z) : parser :=
  match s with
  | AtStart => mkP r (p_off p + (zlen (p_rem p) - zlen r))%Z FromStart
  | AtEnd => mkP r (p_off p) FromEnd
  end.

Lemma cut_start p x r : p_rem p = x ++ r -> str_shape r -> set_rem AtStart p r = cut AtStart p r.
Proof.
  intros E Hr. rewrite (set_rem_start p x r E (shape_round_up r Hr)). cbn [cut].
  rewrite E, zlen_app. f_equal. lia.
Qed.

Lemma cut_end p r y :
  p_rem p = r ++ y -> (forall b t, y = b :: t -> is_cont b = false) -> set_rem AtEnd p r = cut AtEnd p r.
Proof. intros E Hy. now rewrite (set_rem_end p y r E Hy). Qed.

Lemma conts_split cs : Forall (fun c => is_cont c = true) cs -> forall rest x b y,
  cs ++ rest = x ++ b :: y -> is_cont b = false -> exists x', rest = x' ++ b :: y.
Proof.
  induction 1 as [|c cs Hc _ IH]; intros rest x b y E Hb; cbn [app] in E.
  - now exists x.
  - destruct x as [|c' x]; cbn [app] in E; inversion E; subst.
    + congruence.
    + eapply IH; eassumption.
Qed.

(** in shaped text every non-continuation byte starts a char *)
Lemma shape_at_lead l : str_shape l -> forall x b y,
  l = x ++ b :: y -> is_cont b = false -> str_shape (b :: y).
Proof.
  induction 1 as [|b0 cs rest Hl Hc Hr IH]; intros x b y E Hb.
  - destruct x; discriminate.
  - destruct x as [|b1 x]; cbn [app] in E; inversion E; subst.
    + now constructor.
    + destruct (conts_split cs Hc rest x b y H1 Hb) as [x' ->]. eapply IH; [reflexivity | exact Hb].
Qed.

Lemma occ_nil h k : k <= length h -> occ h [] k.
Proof.
  intro Hk. exists (firstn k h), (skipn k h). cbn [app]. split; [symmetry; apply firstn_skipn | now apply firstn_length_le].
Qed.

(** find_skip: the selected remainder starts on a char boundary *)
Lemma find_start_shape arms bytes i r :
  str_shape bytes -> arms_shaped arms -> find_loop_start arms bytes = Some (i, r) ->
  str_shape r /\ exists x, bytes = x ++ r.
Proof.
  intros Hb Harms H. apply find_loop_start_some in H.
  destruct H as (k & j & a & (Hn & Hocc & _) & -> & Hmin).
  apply nth_error_In in Hn. pose proof (Harms i a Hn) as Ha.
  destruct Hocc as (x & y & E & Hk). subst bytes k.
  assert (Er : skipn (length x + length a) (x ++ a ++ y) = y).
  { replace (length x + length a) with (length (x ++ a)) by now rewrite app_length.
    rewrite app_assoc, skipn_app, skipn_all, Nat.sub_diag. reflexivity. }
  rewrite Er. split; [|exists (x ++ a); now rewrite <- app_assoc].
  destruct a as [|b a'].
  - (* an empty literal matches at offset 0 already *)
    destruct x as [|x0 x'].
    + exact Hb.
    + exfalso. apply (Hmin 0 ltac:(cbn [length]; lia) i [] Hn). apply occ_nil. lia.
  - apply (shape_app_inv (b :: a') Ha).
    apply (shape_at_lead _ Hb x b (a' ++ y)); [reflexivity|]. now apply shape_head in Ha.
Qed.

Lemma find_macro_start_cut brs p :
  str_shape (p_rem p) -> arms_shaped (arms_of brs) ->
  find_macro AtStart brs p =
  match find_loop_start (arms_of brs) (p_rem p) with
  | Some (i, r) => (Some i, cut AtStart p r)
  | None => (None, p)
  end.
Proof.
  intros Hp Ha. unfold find_macro, find_loop.
  destruct (find_loop_start (arms_of brs) (p_rem p)) as [[i r]|] eqn:E; [|reflexivity].
  destruct (find_start_shape _ _ _ _ Hp Ha E) as (Hr & x & Ex).
  now rewrite (cut_start p x r Ex Hr).
Qed.

Lemma occ_end_nil h e : e <= length h -> occ_end h [] e.
Proof. intro He. exists e. split; [now apply occ_nil | cbn [length]; lia]. Qed.

(** rfind_skip: the selected remainder ends on a char boundary *)
Lemma find_macro_end_cut brs p :
  arms_shaped (arms_of brs) ->
  find_macro AtEnd brs p =
  match find_loop_end (arms_of brs) (rev (p_rem p)) with
  | Some (i, r) => (Some i, cut AtEnd p r)
  | None => (None, p)
  end.
Proof.
  intros Ha. unfold find_macro, find_loop.
  destruct (find_loop_end (arms_of brs) (rev (p_rem p))) as [[i r]|] eqn:E; [|reflexivity].
  f_equal. apply find_loop_end_some in E.
  destruct E as (e & j & a & (Hn & Hocc & _) & -> & Hmax).
  apply nth_error_In in Hn. pose proof (Ha i a Hn) as Hsa.
  destruct Hocc as (k & (x & y & E & Hk) & He). subst k e.
  replace (length x + length a - length a) with (length x) by lia.
  assert (Er : firstn (length x) (p_rem p) = x).
  { rewrite E, firstn_app, firstn_all, Nat.sub_diag. cbn [firstn]. now rewrite app_nil_r. }
  rewrite Er. apply (cut_end p x (a ++ y) E).
  intros b t Eb. destruct a as [|b0 a'].
  - (* an empty literal matches at the very end already *)
    cbn [app] in Eb. subst y. exfalso.
    apply (Hmax (S (length x)) ltac:(cbn [length]; lia) i [] Hn).
    apply occ_end_nil. rewrite E, app_length. cbn [app length]. lia.
  - cbn [app] in Eb. inversion Eb; subst. now apply shape_head in Hsa.
Qed.

(** strip forms *)
Lemma strip_macro_cut s brs p :
  str_shape (p_rem p) -> arms_shaped (arms_of brs) ->
  strip_macro s brs p =
  match match_arms s (arms_of brs) (p_rem p) with
  | Some (i, r) => (Some i, cut s p r)
  | None => (None, p)
  end.
Proof.
  intros Hp Ha. unfold strip_macro.
  destruct (match_arms s (arms_of brs) (p_rem p)) as [[i r]|] eqn:E; [|reflexivity].
  f_equal. apply match_arms_some in E. destruct E as (j & a & (Hn & _) & Hs).
  apply nth_error_In in Hn. pose proof (Ha i a Hn) as Hsa.
  destruct s; cbn [end_of splits] in Hs.
  - apply (cut_start p a r Hs). apply (shape_app_inv a Hsa). now rewrite <- Hs.
  - apply (cut_end p r a Hs). now apply shape_head_fact.
Qed.

(** trim forms *)
Lemma trims_front_shape arms bytes out :
  arms_shaped arms -> trims Front arms bytes out -> str_shape bytes ->
  str_shape out /\ exists x, bytes = x ++ out.
Proof.
  intros Ha H. induction H as [bytes _ | bytes j i _ | bytes j i a r out (Hn & _) _ Hs _ IH]; intro Hb.
  - split; [exact Hb | now exists []].
  - split; [exact Hb | now exists []].
  - cbn [splits] in Hs. apply nth_error_In in Hn.
    assert (Hr : str_shape r) by (apply (shape_app_inv a (Ha i a Hn)); now rewrite <- Hs).
    destruct (IH Hr) as (Ho & x & ->). split; [exact Ho|]. exists (a ++ x). rewrite Hs. now rewrite <- app_assoc.
Qed.

Lemma trims_back_boundary arms bytes out :
  arms_shaped arms -> trims Back arms bytes out ->
  exists y, bytes = out ++ y /\ forall b t, y = b :: t -> is_cont b = false.
Proof.
  intros Ha H. induction H as [bytes _ | bytes j i _ | bytes j i a r out (Hn & _) Hne Hs _ IH].
  - exists []. split; [now rewrite app_nil_r | discriminate].
  - exists []. split; [now rewrite app_nil_r | discriminate].
  - cbn [splits] in Hs. apply nth_error_In in Hn. destruct IH as (y & -> & Hy).
    exists (y ++ a). split; [rewrite Hs; now rewrite app_assoc|].
    intros b t E. destruct y as [|b0 y'].
    + cbn [app] in E. apply (shape_head_fact a (Ha i a Hn) b t E).
    + cbn [app] in E. inversion E; subst. now apply (Hy b y').
Qed.

Lemma trim_macro_cut s alts p :
  str_shape (p_rem p) -> arms_shaped (arms_of [alts]) ->
  exists out, trims (end_of s) (arms_of [alts]) (p_rem p) out /\ trim_macro s alts p = Some (cut s p out).
Proof.
  intros Hp Ha. unfold trim_macro.
  destruct (trim_loop_fuel s (arms_of [alts]) (p_rem p)) as [out E]. rewrite E.
  apply trim_loop_iff in E. exists out. split; [exact E|]. f_equal.
  destruct s; cbn [end_of] in E.
  - destruct (trims_front_shape _ _ _ Ha E Hp) as (Ho & x & Ex). now apply (cut_start p x out Ex Ho).
  - destruct (trims_back_boundary _ _ _ Ha E) as (y & Ey & Hy). now apply (cut_end p out y Ey Hy).
Qed.

(* ------------------------------------------------------------------ UTF-8 text is shaped *)
Local Open Scope Z_scope.

Ltac dec :=
  repeat match goal with
         | |- context [Z.ltb ?a ?b] => destruct (Z.ltb_spec a b); try lia
         | |- context [Z.leb ?a ?b] => destruct (Z.leb_spec a b); try lia
         end; cbn [andb]; try reflexivity.

Lemma utf8_char_shape c rest : scalar c -> str_shape rest -> str_shape (utf8_char c ++ rest).
Proof.
  intros Hc Hr. apply scalar_range in Hc. unfold utf8_char.
  destruct (Z.ltb_spec c 128).
  - apply (shape_char c [] rest); [unfold lead_len; dec | constructor | exact Hr].
  - destruct (Z.ltb_spec c 2048).
    + apply (shape_char (192 + c / 64) [128 + c mod 64] rest);
        [unfold lead_len; dec | repeat constructor; unfold is_cont; dec | exact Hr].
    + destruct (Z.ltb_spec c 65536).
      * apply (shape_char (224 + c / 4096) [128 + (c / 64) mod 64; 128 + c mod 64] rest);
          [unfold lead_len; dec | repeat constructor; unfold is_cont; dec | exact Hr].
      * apply (shape_char (240 + c / 262144)
                 [128 + (c / 4096) mod 64; 128 + (c / 64) mod 64; 128 + c mod 64] rest);
          [unfold lead_len; dec | repeat constructor; unfold is_cont; dec | exact Hr].
Qed.

(** every &str (UTF-8 of scalar values) has the shape the no-rounding lemmas ask for *)
Lemma utf8_shape v : Forall scalar v -> str_shape (utf8 v).
Proof.
  induction 1 as [|c v Hc _ IH]; [constructor|]. rewrite utf8_cons. now apply utf8_char_shape.
Qed.

(** and so have the bytes the proc macro produces for a well-formed literal *)
Lemma literal_shaped src v :
  rustc_string src v -> exists bytes, parse_literal (utf8 src) = Some bytes /\ str_shape bytes.
Proof.
  intro H. exists (utf8 v). split; [now apply parse_literal_string|].
  destruct H as (body & _ & Hb). apply utf8_shape. eapply str_body_scalar; eassumption.
Qed.
