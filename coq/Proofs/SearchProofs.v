From KV Require Import Base.Prelude Model.Search Spec.Search.
Local Open Scope nat_scope.

(* ------------------------------------------------------------ occurrences *)

Lemma occ_bound h n i : occ h n i -> i + length n <= length h.
Proof. intros (a & b & -> & <-). rewrite !app_length. lia. Qed.

Lemma occ_0 h n : occ h n 0 <-> is_prefix n h.
Proof.
  split.
  - intros (a & b & -> & Ha). apply length_zero_iff_nil in Ha; subst. now exists b.
  - intros [r ->]. now exists [], r.
Qed.

Lemma occ_S x h n i : occ (x :: h) n (S i) <-> occ h n i.
Proof.
  split.
  - intros (a & b & E & Ha). destruct a as [|y a]; [discriminate|].
    cbn in E. inversion E; subst. exists a, b. split; [reflexivity|]. cbn in Ha; lia.
  - intros (a & b & -> & <-). now exists (x :: a), b.
Qed.

Lemma occ_0_1 h n : occ h n 0 -> is_prefix n h.  Proof. apply occ_0. Qed.
Lemma occ_0_2 h n : is_prefix n h -> occ h n 0.  Proof. apply occ_0. Qed.
Lemma occ_S_1 x h n i : occ (x :: h) n (S i) -> occ h n i.  Proof. apply occ_S. Qed.
Lemma occ_S_2 x h n i : occ h n i -> occ (x :: h) n (S i).  Proof. apply occ_S. Qed.

Lemma occ_nil_needle h i : i <= length h -> occ h [] i.
Proof.
  intros Hi. exists (firstn i h), (skipn i h). cbn [app]. rewrite firstn_skipn.
  split; [reflexivity|]. rewrite firstn_length. lia.
Qed.

Lemma occ_skipn h n i : occ h n i <-> (i <= length h /\ is_prefix n (skipn i h)).
Proof.
  split.
  - intros (a & b & -> & <-). split; [rewrite app_length; lia|].
    exists b. rewrite skipn_app, skipn_all, Nat.sub_diag. reflexivity.
  - intros [Hi [r Hr]]. exists (firstn i h), r. rewrite <- Hr, firstn_skipn.
    split; [reflexivity|]. rewrite firstn_length; lia.
Qed.

Lemma occ_rev h n i : occ h n i -> occ (rev h) (rev n) (length h - i - length n).
Proof.
  intros (a & b & -> & <-). exists (rev b), (rev a).
  rewrite !rev_app_distr, <- app_assoc. split; [reflexivity|].
  rewrite rev_length, !app_length. lia.
Qed.

Lemma occ_rev_inv h n k : occ (rev h) (rev n) k -> occ h n (length h - k - length n).
Proof.
  intros H. apply occ_rev in H. now rewrite !rev_involutive, !rev_length in H.
Qed.

Lemma first_occ_unique h n i j : first_occ h n i -> first_occ h n j -> i = j.
Proof.
  intros [Hi Hmi] [Hj Hmj].
  destruct (Nat.lt_trichotomy i j) as [L|[E|L]]; [exfalso; eapply Hmj; eauto | exact E | exfalso; eapply Hmi; eauto].
Qed.

Lemma last_occ_unique h n i j : last_occ h n i -> last_occ h n j -> i = j.
Proof.
  intros [Hi Hmi] [Hj Hmj].
  destruct (Nat.lt_trichotomy i j) as [L|[E|L]]; [exfalso; eapply Hmi; eauto | exact E | exfalso; eapply Hmj; eauto].
Qed.

(** first occurrence in the mirror image = last occurrence *)
Lemma first_occ_rev h n k :
  first_occ (rev h) (rev n) k -> last_occ h n (length h - k - length n).
Proof.
  intros [Ho Hmin]. split; [now apply occ_rev_inv|].
  intros j Hj Hoj. pose proof (occ_bound _ _ _ Hoj) as Bj.
  pose proof (occ_bound _ _ _ Ho) as Bk. rewrite !rev_length in Bk.
  apply occ_rev in Hoj. apply (Hmin (length h - j - length n)); [lia | exact Hoj].
Qed.

Lemma last_occ_rev h n i :
  last_occ h n i -> first_occ (rev h) (rev n) (length h - i - length n).
Proof.
  intros [Ho Hmax]. split; [now apply occ_rev|].
  intros j Hj Hoj. pose proof (occ_bound _ _ _ Hoj) as Bj. rewrite !rev_length in Bj.
  pose proof (occ_bound _ _ _ Ho) as Bi.
  apply occ_rev_inv in Hoj. apply (Hmax (length h - j - length n)); [lia | exact Hoj].
Qed.

Lemma no_occ_rev h n : no_occ (rev h) (rev n) <-> no_occ h n.
Proof.
  split; intros H j Hj.
  - apply occ_rev in Hj. exact (H _ Hj).
  - apply occ_rev_inv in Hj. exact (H _ Hj).
Qed.

(* ------------------------------------------------------------ strip_prefix *)

Lemma strip_prefix_loop_spec l p r :
  length p <= length l -> (strip_prefix_loop l p = Some r <-> l = p ++ r).
Proof.
  revert p; induction l as [|x l IH]; intros [|y p] Hlen; cbn [strip_prefix_loop length] in *.
  - cbn. split; intro H; [now inversion H | now subst].
  - lia.
  - cbn. split; intro H; [now inversion H | now subst].
  - destruct (Z.eqb_spec x y) as [->|Hne].
    + rewrite IH by lia. cbn. split; intro H; [now subst | now inversion H].
    + split; [discriminate|]. cbn. intro H; inversion H; contradiction.
Qed.

Lemma strip_prefix_m_spec l p r : strip_prefix_m l p = Some r <-> l = p ++ r.
Proof.
  unfold strip_prefix_m, zlen. destruct (Z.ltb_spec (Z.of_nat (length l)) (Z.of_nat (length p))) as [H|H].
  - split; [discriminate|]. intros ->. rewrite app_length in H. lia.
  - apply strip_prefix_loop_spec. lia.
Qed.

Lemma strip_prefix_m_none l p : strip_prefix_m l p = None <-> ~ is_prefix p l.
Proof.
  split.
  - intros H [r Hr]. apply strip_prefix_m_spec in Hr. congruence.
  - intros H. destruct (strip_prefix_m l p) as [r|] eqn:E; [|reflexivity].
    exfalso. apply H. exists r. now apply strip_prefix_m_spec.
Qed.

Lemma strip_suffix_m_spec l p r : strip_suffix_m l p = Some r <-> l = r ++ p.
Proof.
  unfold strip_suffix_m.
  destruct (strip_prefix_m (rev l) (rev p)) as [q|] eqn:E; cbn [option_map].
  - apply strip_prefix_m_spec in E. apply (f_equal (@rev Z)) in E.
    rewrite rev_involutive, rev_app_distr, rev_involutive in E. subst l.
    split; intro H.
    + now inversion H.
    + apply app_inv_tail in H. now subst.
  - split; [discriminate|]. intros ->.
    apply strip_prefix_m_none in E. exfalso. apply E. exists (rev r). now rewrite rev_app_distr.
Qed.

Lemma starts_with_m_spec l p : starts_with_m l p = true <-> is_prefix p l.
Proof.
  unfold starts_with_m. destruct (strip_prefix_m l p) as [r|] eqn:E; cbn [is_some].
  - split; [|reflexivity]. intros _. exists r. now apply strip_prefix_m_spec.
  - split; [discriminate|]. intro H. now apply strip_prefix_m_none in E.
Qed.

Lemma ends_with_m_spec l p : ends_with_m l p = true <-> is_suffix p l.
Proof.
  unfold ends_with_m. destruct (strip_suffix_m l p) as [r|] eqn:E; cbn [is_some].
  - split; [|reflexivity]. intros _. exists r. now apply strip_suffix_m_spec.
  - split; [discriminate|]. intros [r Hr]. apply strip_suffix_m_spec in Hr. congruence.
Qed.

(* ------------------------------------------------------------ find *)

Lemma first_occ_cons_0 x h n : is_prefix n (x :: h) -> first_occ (x :: h) n 0.
Proof. intros H. split; [now apply occ_0_2 | intros j Hj; lia]. Qed.

Lemma first_occ_cons_S x h n k :
  ~ is_prefix n (x :: h) -> (first_occ (x :: h) n (S k) <-> first_occ h n k).
Proof.
  intros Hnp. split; intros [Ho Hmin]; split.
  - now apply occ_S_1 in Ho.
  - intros j Hj Hoj. apply (Hmin (S j)); [lia | now apply occ_S_2].
  - now apply occ_S_2.
  - intros [|j] Hj Hoj; [now apply occ_0_1 in Hoj|]. apply occ_S_1 in Hoj. apply (Hmin j); [lia|exact Hoj].
Qed.

Lemma find_from_some i rem p z :
  find_from i rem p = Some z <-> exists k, z = (i + Z.of_nat k)%Z /\ first_occ rem p k.
Proof.
  revert i; induction rem as [|x rem IH]; intros i; cbn [find_from].
  - destruct (starts_with_m [] p) eqn:E.
    + apply starts_with_m_spec in E. split.
      * intros H; inversion H; subst. exists 0. split; [lia|]. split; [now apply occ_0_2| intros; lia].
      * intros (k & -> & [Ho _]). apply occ_bound in Ho. cbn in Ho. f_equal. lia.
    + split; [discriminate|]. intros (k & -> & [Ho _]).
      pose proof (occ_bound _ _ _ Ho) as B. cbn in B. assert (k = 0) by lia; subst.
      apply occ_0_1, starts_with_m_spec in Ho. congruence.
  - destruct (starts_with_m (x :: rem) p) eqn:E.
    + apply starts_with_m_spec in E. split.
      * intros H; inversion H; subst. exists 0. split; [lia | now apply first_occ_cons_0].
      * intros (k & -> & Hk). pose proof (first_occ_unique _ _ _ _ Hk (first_occ_cons_0 _ _ _ E)). subst. f_equal; lia.
    + assert (Hnp : ~ is_prefix p (x :: rem)).
      { intro H. apply starts_with_m_spec in H. congruence. }
      rewrite IH. split.
      * intros (k & -> & Hk). exists (S k). split; [lia | now apply first_occ_cons_S].
      * intros (k & -> & Hk). destruct k as [|k].
        { destruct Hk as [Ho _]. now apply occ_0_1 in Ho. }
        exists k. split; [lia | now apply first_occ_cons_S in Hk].
Qed.

Lemma find_from_none i rem p : find_from i rem p = None <-> no_occ rem p.
Proof.
  revert i; induction rem as [|x rem IH]; intros i; cbn [find_from].
  - destruct (starts_with_m [] p) eqn:E.
    + split; [discriminate|]. intros H. exfalso. apply (H 0). now apply occ_0_2, starts_with_m_spec.
    + split; [|reflexivity]. intros _ j Hj. pose proof (occ_bound _ _ _ Hj) as B. cbn in B.
      assert (j = 0) by lia; subst. apply occ_0_1, starts_with_m_spec in Hj. congruence.
  - destruct (starts_with_m (x :: rem) p) eqn:E.
    + split; [discriminate|]. intros H. exfalso. apply (H 0). now apply occ_0_2, starts_with_m_spec.
    + rewrite IH. split; intros H j Hj.
      * destruct j as [|j]; [apply occ_0_1, starts_with_m_spec in Hj; congruence|].
        apply occ_S_1 in Hj. exact (H _ Hj).
      * apply (H (S j)). now apply occ_S_2.
Qed.

Theorem find_m_some h n z :
  find_m h n = Some z <-> exists i, z = Z.of_nat i /\ first_occ h n i.
Proof.
  unfold find_m. rewrite find_from_some. split; intros (k & -> & H); exists k; (split; [lia|exact H]).
Qed.

Theorem find_m_none h n : find_m h n = None <-> no_occ h n.
Proof. apply find_from_none. Qed.

Theorem find_m_empty h : find_m h [] = Some 0%Z.
Proof.
  apply find_m_some. exists 0. split; [reflexivity|]. split; [|intros; lia].
  apply occ_nil_needle. lia.
Qed.

(* ------------------------------------------------------------ rfind *)

Lemma rfind_from_some R rp z :
  rfind_from R rp = Some z <->
  exists k, first_occ R rp k /\ z = (zlen R - Z.of_nat k - zlen rp)%Z.
Proof.
  induction R as [|x R IH]; cbn [rfind_from].
  - destruct (starts_with_m [] rp) eqn:E.
    + apply starts_with_m_spec in E. split.
      * intros H; inversion H; subst. exists 0. split; [split; [now apply occ_0_2| intros; lia]|].
        unfold zlen; cbn [length]; lia.
      * intros (k & [Ho _] & ->). apply occ_bound in Ho. cbn in Ho. f_equal. unfold zlen; cbn [length]; lia.
    + split; [discriminate|]. intros (k & [Ho _] & _).
      pose proof (occ_bound _ _ _ Ho) as B. cbn in B. assert (k = 0) by lia; subst.
      apply occ_0_1, starts_with_m_spec in Ho. congruence.
  - destruct (starts_with_m (x :: R) rp) eqn:E.
    + apply starts_with_m_spec in E. split.
      * intros H; inversion H; subst. exists 0. split; [now apply first_occ_cons_0 | lia].
      * intros (k & Hk & ->). pose proof (first_occ_unique _ _ _ _ Hk (first_occ_cons_0 _ _ _ E)). subst. f_equal; lia.
    + assert (Hnp : ~ is_prefix rp (x :: R)).
      { intro H. apply starts_with_m_spec in H. congruence. }
      rewrite IH. split.
      * intros (k & Hk & ->). exists (S k). split; [now apply first_occ_cons_S|]. rewrite zlen_cons. lia.
      * intros (k & Hk & ->). destruct k as [|k].
        { destruct Hk as [Ho _]. now apply occ_0_1 in Ho. }
        exists k. split; [now apply first_occ_cons_S in Hk|]. rewrite zlen_cons. lia.
Qed.

Lemma rfind_from_none R rp : rfind_from R rp = None <-> no_occ R rp.
Proof.
  induction R as [|x R IH]; cbn [rfind_from].
  - destruct (starts_with_m [] rp) eqn:E.
    + split; [discriminate|]. intros H. exfalso. apply (H 0). now apply occ_0_2, starts_with_m_spec.
    + split; [|reflexivity]. intros _ j Hj. pose proof (occ_bound _ _ _ Hj) as B. cbn in B.
      assert (j = 0) by lia; subst. apply occ_0_1, starts_with_m_spec in Hj. congruence.
  - destruct (starts_with_m (x :: R) rp) eqn:E.
    + split; [discriminate|]. intros H. exfalso. apply (H 0). now apply occ_0_2, starts_with_m_spec.
    + rewrite IH. split; intros H j Hj.
      * destruct j as [|j]; [apply occ_0_1, starts_with_m_spec in Hj; congruence|].
        apply occ_S_1 in Hj. exact (H _ Hj).
      * apply (H (S j)). now apply occ_S_2.
Qed.

Theorem rfind_m_some h n z : n <> [] ->
  (rfind_m h n = Some z <-> exists i, z = Z.of_nat i /\ last_occ h n i).
Proof.
  intros Hn. unfold rfind_m. destruct n as [|c n']; [congruence|]. set (n := c :: n') in *.
  rewrite rfind_from_some. split.
  - intros (k & Hk & ->). exists (length h - k - length n). split.
    + destruct Hk as [Ho _]. apply occ_bound in Ho. rewrite !rev_length in Ho.
      rewrite !zlen_rev. unfold zlen. lia.
    + now apply first_occ_rev.
  - intros (i & -> & Hi). exists (length h - i - length n). split; [now apply last_occ_rev|].
    destruct Hi as [Ho _]. apply occ_bound in Ho. rewrite !zlen_rev. unfold zlen. lia.
Qed.

Theorem rfind_m_none h n : n <> [] -> (rfind_m h n = None <-> no_occ h n).
Proof.
  intros Hn. unfold rfind_m. destruct n as [|c n']; [congruence|].
  rewrite rfind_from_none. apply no_occ_rev.
Qed.

(* ------------------------------------------------------------ byte_find_then! *)

Lemma find_then_fwd_some skip this p r :
  find_then_fwd skip this p = Some r <->
  exists k, first_occ this p k /\
            r = if skip then skipn (k + length p) this else skipn k this.
Proof.
  induction this as [|x this IH]; cbn [find_then_fwd].
  - destruct (strip_prefix_m [] p) as [nx|] eqn:E.
    + apply strip_prefix_m_spec in E. symmetry in E. apply app_eq_nil in E as [-> ->]. split.
      * intros H; inversion H; subst. exists 0. split; [split; [now apply occ_0_2; exists []|intros; lia]|].
        now destruct skip.
      * intros (k & [Ho _] & ->). apply occ_bound in Ho. cbn in Ho. assert (k = 0) by lia; subst. now destruct skip.
    + split; [discriminate|]. intros (k & [Ho _] & _).
      pose proof (occ_bound _ _ _ Ho) as B. cbn in B. assert (k = 0) by lia; subst.
      apply occ_0_1 in Ho. now apply strip_prefix_m_none in E.
  - destruct (strip_prefix_m (x :: this) p) as [nx|] eqn:E.
    + apply strip_prefix_m_spec in E.
      assert (Hp : is_prefix p (x :: this)) by (now exists nx).
      assert (Hr : (if skip then skipn (0 + length p) (x :: this) else skipn 0 (x :: this))
                   = if skip then nx else x :: this).
      { destruct skip; [|reflexivity]. rewrite E. cbn [Nat.add].
        rewrite skipn_app, skipn_all, Nat.sub_diag. reflexivity. }
      split.
      * intros H; inversion H; subst r. exists 0. split; [now apply first_occ_cons_0|]. now rewrite Hr.
      * intros (k & Hk & ->). pose proof (first_occ_unique _ _ _ _ Hk (first_occ_cons_0 _ _ _ Hp)); subst k.
        now rewrite Hr.
    + apply strip_prefix_m_none in E. rewrite IH. split.
      * intros (k & Hk & ->). exists (S k). split; [now apply first_occ_cons_S|]. now destruct skip.
      * intros (k & Hk & ->). destruct k as [|k].
        { destruct Hk as [Ho _]. now apply occ_0_1 in Ho. }
        exists k. split; [now apply first_occ_cons_S in Hk|]. now destruct skip.
Qed.

Lemma find_then_fwd_none skip this p : find_then_fwd skip this p = None <-> no_occ this p.
Proof.
  induction this as [|x this IH]; cbn [find_then_fwd].
  - destruct (strip_prefix_m [] p) as [nx|] eqn:E.
    + split; [discriminate|]. intros H. exfalso. apply (H 0), occ_0_2. exists nx. now apply strip_prefix_m_spec.
    + split; [|reflexivity]. intros _ j Hj. pose proof (occ_bound _ _ _ Hj) as B. cbn in B.
      assert (j = 0) by lia; subst. apply occ_0_1 in Hj. now apply strip_prefix_m_none in E.
  - destruct (strip_prefix_m (x :: this) p) as [nx|] eqn:E.
    + split; [discriminate|]. intros H. exfalso. apply (H 0), occ_0_2. exists nx. now apply strip_prefix_m_spec.
    + apply strip_prefix_m_none in E. rewrite IH. split; intros H j Hj.
      * destruct j as [|j]; [now apply occ_0_1 in Hj|]. apply occ_S_1 in Hj. exact (H _ Hj).
      * apply (H (S j)). now apply occ_S_2.
Qed.

Theorem find_skip_m_some h n r : n <> [] ->
  (find_skip_m h n = Some r <-> exists i, first_occ h n i /\ r = skipn (i + length n) h).
Proof. intros Hn. unfold find_skip_m. destruct n; [congruence|]. apply (find_then_fwd_some true). Qed.

Theorem find_keep_m_some h n r : n <> [] ->
  (find_keep_m h n = Some r <-> exists i, first_occ h n i /\ r = skipn i h).
Proof. intros Hn. unfold find_keep_m. destruct n; [congruence|]. apply (find_then_fwd_some false). Qed.

Theorem find_skip_m_none h n : n <> [] -> (find_skip_m h n = None <-> no_occ h n).
Proof. intros Hn. unfold find_skip_m. destruct n; [congruence|]. apply find_then_fwd_none. Qed.

Theorem find_keep_m_none h n : n <> [] -> (find_keep_m h n = None <-> no_occ h n).
Proof. intros Hn. unfold find_keep_m. destruct n; [congruence|]. apply find_then_fwd_none. Qed.

Lemma rev_skipn_rev (h : list Z) k : rev (skipn k (rev h)) = firstn (length h - k) h.
Proof. rewrite skipn_rev, rev_involutive. reflexivity. Qed.

Lemma rfind_then_some skip h n r : n <> [] ->
  (option_map (@rev Z) (find_then_fwd skip (rev h) (rev n)) = Some r <->
   exists i, last_occ h n i /\ r = if skip then firstn i h else firstn (i + length n) h).
Proof.
  intros Hn. destruct (find_then_fwd skip (rev h) (rev n)) as [q|] eqn:E; cbn [option_map].
  - apply find_then_fwd_some in E as (k & Hk & ->).
    pose proof (first_occ_rev _ _ _ Hk) as HL.
    assert (B : k + length n <= length h).
    { destruct Hk as [Ho _]. apply occ_bound in Ho. now rewrite !rev_length in Ho. }
    assert (Hq : rev (if skip then skipn (k + length (rev n)) (rev h) else skipn k (rev h)) =
                 if skip then firstn (length h - k - length n) h
                 else firstn (length h - k - length n + length n) h).
    { destruct skip; rewrite rev_skipn_rev, ?rev_length; f_equal; lia. }
    rewrite Hq. split.
    + intros H; inversion H; subst r. eexists; split; [exact HL|reflexivity].
    + intros (i & Hi & ->). pose proof (last_occ_unique _ _ _ _ Hi HL); subst i. reflexivity.
  - split; [discriminate|]. intros (i & Hi & _). apply find_then_fwd_none in E.
    destruct Hi as [Ho _]. apply occ_rev in Ho. exfalso. exact (E _ Ho).
Qed.

Theorem rfind_skip_m_some h n r : n <> [] ->
  (rfind_skip_m h n = Some r <-> exists i, last_occ h n i /\ r = firstn i h).
Proof. intros Hn. unfold rfind_skip_m. destruct n as [|c n']; [congruence|]. now apply (rfind_then_some true). Qed.

Theorem rfind_keep_m_some h n r : n <> [] ->
  (rfind_keep_m h n = Some r <-> exists i, last_occ h n i /\ r = firstn (i + length n) h).
Proof. intros Hn. unfold rfind_keep_m. destruct n as [|c n']; [congruence|]. now apply (rfind_then_some false). Qed.

Lemma rfind_then_none skip h n :
  option_map (@rev Z) (find_then_fwd skip (rev h) (rev n)) = None <-> no_occ h n.
Proof.
  destruct (find_then_fwd skip (rev h) (rev n)) as [q|] eqn:E; cbn [option_map].
  - split; [discriminate|]. intros H. apply (proj2 (no_occ_rev h n)) in H.
    apply (proj2 (find_then_fwd_none skip _ _)) in H. rewrite H in E. discriminate.
  - split; [|reflexivity]. intros _. apply (proj1 (no_occ_rev h n)).
    now apply (proj1 (find_then_fwd_none skip _ _)).
Qed.

Theorem rfind_skip_m_none h n : n <> [] -> (rfind_skip_m h n = None <-> no_occ h n).
Proof. intros Hn. unfold rfind_skip_m. destruct n as [|c n']; [congruence|]. apply rfind_then_none. Qed.
Theorem rfind_keep_m_none h n : n <> [] -> (rfind_keep_m h n = None <-> no_occ h n).
Proof. intros Hn. unfold rfind_keep_m. destruct n as [|c n']; [congruence|]. apply rfind_then_none. Qed.

Theorem find_then_empty h :
  find_skip_m h [] = Some h /\ find_keep_m h [] = Some h /\
  rfind_skip_m h [] = Some h /\ rfind_keep_m h [] = Some h.
Proof. repeat split. Qed.

(* ------------------------------------------------------------ contains / split_once *)

Theorem contains_m_iff h n : contains_m h n = true <-> exists i, occ h n i.
Proof.
  unfold contains_m. destruct (find_m h n) as [z|] eqn:E; cbn [is_some].
  - split; [|reflexivity]. intros _. apply find_m_some in E as (i & _ & [Ho _]). now exists i.
  - split; [discriminate|]. intros [i Hi]. apply find_m_none in E. exfalso. exact (E _ Hi).
Qed.

Theorem rcontains_m_iff h n : n <> [] -> (rcontains_m h n = true <-> exists i, occ h n i).
Proof.
  intros Hn. unfold rcontains_m. destruct (rfind_m h n) as [z|] eqn:E; cbn [is_some].
  - split; [|reflexivity]. intros _. apply rfind_m_some in E as (i & _ & [Ho _]); [now exists i|exact Hn].
  - split; [discriminate|]. intros [i Hi]. apply rfind_m_none in E; [|exact Hn]. exfalso. exact (E _ Hi).
Qed.

Theorem split_once_m_some h n a b : n <> [] ->
  (split_once_m h n = Some (a, b) <->
   exists i, first_occ h n i /\ a = firstn i h /\ b = skipn (i + length n) h).
Proof.
  intros Hn. unfold split_once_m. destruct n as [|c n']; [congruence|]. set (n := c :: n') in *.
  destruct (find_m h n) as [z|] eqn:E.
  - apply find_m_some in E as (i & -> & Hi).
    replace (Z.to_nat (Z.of_nat i)) with i by lia.
    replace (Z.to_nat (Z.of_nat i + zlen n)) with (i + length n) by (unfold zlen; lia).
    split.
    + intros H; inversion H; subst. exists i. auto.
    + intros (j & Hj & -> & ->). pose proof (first_occ_unique _ _ _ _ Hi Hj); now subst.
  - split; [discriminate|]. intros (i & [Ho _] & _). apply find_m_none in E. exfalso. exact (E _ Ho).
Qed.

Theorem rsplit_once_m_some h n a b : n <> [] ->
  (rsplit_once_m h n = Some (a, b) <->
   exists i, last_occ h n i /\ a = firstn i h /\ b = skipn (i + length n) h).
Proof.
  intros Hn. unfold rsplit_once_m. destruct n as [|c n']; [congruence|]. set (n := c :: n') in *.
  destruct (rfind_m h n) as [z|] eqn:E.
  - apply rfind_m_some in E as (i & -> & Hi); [|exact Hn].
    replace (Z.to_nat (Z.of_nat i)) with i by lia.
    replace (Z.to_nat (Z.of_nat i + zlen n)) with (i + length n) by (unfold zlen; lia).
    split.
    + intros H; inversion H; subst. exists i. auto.
    + intros (j & Hj & -> & ->). pose proof (last_occ_unique _ _ _ _ Hi Hj); now subst.
  - split; [discriminate|]. intros (i & [Ho _] & _). apply rfind_m_none in E; [|exact Hn]. exfalso. exact (E _ Ho).
Qed.

Theorem split_once_m_none h n : n <> [] -> (split_once_m h n = None <-> no_occ h n).
Proof.
  intros Hn. unfold split_once_m. destruct n as [|c n']; [congruence|].
  destruct (find_m h (c :: n')) eqn:E; [split; [discriminate|]|split; [|reflexivity]].
  - intro H. apply find_m_none in H. congruence.
  - intros _. now apply find_m_none.
Qed.

Theorem rsplit_once_m_none h n : n <> [] -> (rsplit_once_m h n = None <-> no_occ h n).
Proof.
  intros Hn. unfold rsplit_once_m. destruct n as [|c n']; [congruence|].
  destruct (rfind_m h (c :: n')) eqn:E; [split; [discriminate|]|split; [|reflexivity]].
  - intro H. apply rfind_m_none in H; [congruence|discriminate].
  - intros _. apply rfind_m_none; [discriminate|exact E].
Qed.

(* ------------------------------------------------------------ the old matcher is wrong *)

(** "aaab" / "aab": the pre-fix matcher reports absence, the needle occurs at 1 *)
Theorem heuristic_find_refuted :
  exists h n, heuristic_find h n = None /\ find_m h n = Some 1%Z /\ occ h n 1.
Proof.
  exists [97;97;97;98]%Z, [97;97;98]%Z. split; [reflexivity|]. split; [reflexivity|].
  exists [97%Z], []. split; reflexivity.
Qed.

(** non-vacuity: a self-overlapping needle found inside a failed partial match *)
Example find_overlap : find_m [97;97;97;98]%Z [97;97;98]%Z = Some 1%Z /\
                       rfind_m [97;98;98;98]%Z [97;98;98]%Z = Some 0%Z.
Proof. split; reflexivity. Qed.
