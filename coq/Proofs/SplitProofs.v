From KV Require Import Base.Prelude Model.Search Spec.Search Proofs.SearchProofs Model.Split Spec.Split.
Local Open Scope nat_scope.

(* ------------------------------------------------------------ the spec relations *)

Lemma split_rel_nonempty d h ps : split_rel d h ps -> ps <> [].
Proof. intros H; inversion H; discriminate. Qed.
Lemma rsplit_rel_nonempty d h ps : rsplit_rel d h ps -> ps <> [].
Proof. intros H; inversion H; discriminate. Qed.

Lemma no_occ_first_occ_absurd h d i : no_occ h d -> first_occ h d i -> False.
Proof. intros Hn [Ho _]. exact (Hn _ Ho). Qed.
Lemma no_occ_last_occ_absurd h d i : no_occ h d -> last_occ h d i -> False.
Proof. intros Hn [Ho _]. exact (Hn _ Ho). Qed.

Theorem split_rel_functional d h ps1 ps2 : split_rel d h ps1 -> split_rel d h ps2 -> ps1 = ps2.
Proof.
  intros H1; revert ps2; induction H1 as [h Hn | h i rest Hi Hr IH]; intros ps2 H2; inversion H2; subst.
  - reflexivity.
  - exfalso; eauto using no_occ_first_occ_absurd.
  - exfalso; eauto using no_occ_first_occ_absurd.
  - match goal with H : first_occ h d ?j |- _ => pose proof (first_occ_unique _ _ _ _ Hi H); subst end.
    f_equal. now apply IH.
Qed.

Theorem rsplit_rel_functional d h ps1 ps2 : rsplit_rel d h ps1 -> rsplit_rel d h ps2 -> ps1 = ps2.
Proof.
  intros H1; revert ps2; induction H1 as [h Hn | h i rest Hi Hr IH]; intros ps2 H2; inversion H2; subst.
  - reflexivity.
  - exfalso; eauto using no_occ_last_occ_absurd.
  - exfalso; eauto using no_occ_last_occ_absurd.
  - match goal with H : last_occ h d ?j |- _ => pose proof (last_occ_unique _ _ _ _ Hi H); subst end.
    f_equal. now apply IH.
Qed.

Lemma occ_split h d i : occ h d i -> h = firstn i h ++ d ++ skipn (i + length d) h.
Proof.
  intros (a & b & -> & <-).
  rewrite firstn_app, firstn_all, Nat.sub_diag. cbn [firstn]. rewrite app_nil_r.
  rewrite skipn_app. rewrite skipn_all2 by lia. cbn [app].
  replace (length a + length d - length a) with (length d) by lia.
  rewrite skipn_app, skipn_all, Nat.sub_diag. reflexivity.
Qed.

(** the pieces, joined by the delimiter, are the input *)
Theorem split_rel_join d h ps : split_rel d h ps -> join d ps = h.
Proof.
  induction 1 as [h Hn | h i rest [Ho _] Hr IH]; [reflexivity|].
  cbn [join]. destruct rest as [|r rest']; [now apply split_rel_nonempty in Hr|].
  rewrite IH. symmetry. now apply occ_split.
Qed.

Lemma join_cons d q rest : rest <> [] -> join d (q :: rest) = q ++ d ++ join d rest.
Proof. destruct rest; [congruence | reflexivity]. Qed.

Lemma join_snoc d ps p : ps <> [] -> join d (ps ++ [p]) = join d ps ++ d ++ p.
Proof.
  induction ps as [|q ps IH]; [congruence|]. intros _. destruct ps as [|q' ps'].
  - reflexivity.
  - change ((q :: q' :: ps') ++ [p]) with (q :: ((q' :: ps') ++ [p])).
    rewrite join_cons by (destruct ps'; discriminate).
    rewrite IH by discriminate. rewrite (join_cons d q (q' :: ps')) by discriminate.
    rewrite <- !app_assoc. reflexivity.
Qed.

(** rsplit's pieces, reversed and joined, are the input *)
Theorem rsplit_rel_join d h ps : rsplit_rel d h ps -> join d (rev ps) = h.
Proof.
  induction 1 as [h Hn | h i rest [Ho _] Hr IH]; [reflexivity|].
  cbn [rev]. rewrite join_snoc.
  - rewrite IH. symmetry. now apply occ_split.
  - intro E. apply (f_equal (@rev _)) in E. rewrite rev_involutive in E. cbn in E.
    now apply rsplit_rel_nonempty in Hr.
Qed.

(* ------------------------------------------------------------ split / rsplit to exhaustion *)

Lemma to_nat_pos i (d : list Z) : Z.to_nat (Z.of_nat i + zlen d) = i + length d.
Proof. unfold zlen. lia. Qed.

Lemma collect_split_normal d : d <> [] -> forall fuel h, length h + 2 <= fuel ->
  exists ps, collect split_next fuel (mk_split h (SNormal d)) = Some ps /\ split_rel d h ps.
Proof.
  intros Hd. induction fuel as [|fuel IH]; intros h Hf; [lia|].
  cbn [collect]. unfold split_next at 1. cbn [s_this s_state].
  destruct (find_m h d) as [pos|] eqn:E.
  - apply find_m_some in E as (i & -> & Hi).
    pose proof (occ_bound _ _ _ (proj1 Hi)) as B.
    assert (length d > 0) by (destruct d; [congruence | cbn; lia]).
    rewrite Nat2Z.id, to_nat_pos.
    destruct (IH (skipn (i + length d) h)) as (ps & Hc & Hr).
    { rewrite skipn_length. lia. }
    exists (firstn i h :: ps). rewrite Hc. split; [reflexivity | now constructor].
  - apply find_m_none in E. exists [h]. split; [|now constructor].
    destruct fuel as [|fuel]; [lia|]. reflexivity.
Qed.

Theorem split_exhaust h d : d <> [] ->
  exists ps, collect split_next (split_fuel h) (split_init h d) = Some ps /\ split_rel d h ps.
Proof.
  intros Hd. unfold split_init. destruct d as [|c d']; [congruence|].
  apply collect_split_normal; [exact Hd | unfold split_fuel; lia].
Qed.

Lemma collect_rsplit_normal d : d <> [] -> forall fuel h, length h + 2 <= fuel ->
  exists ps, collect split_next_back fuel (mk_split h (SNormal d)) = Some ps /\ rsplit_rel d h ps.
Proof.
  intros Hd. induction fuel as [|fuel IH]; intros h Hf; [lia|].
  cbn [collect]. unfold split_next_back at 1. cbn [s_this s_state].
  destruct (rfind_m h d) as [pos|] eqn:E.
  - apply rfind_m_some in E as (i & -> & Hi); [|exact Hd].
    pose proof (occ_bound _ _ _ (proj1 Hi)) as B.
    assert (length d > 0) by (destruct d; [congruence | cbn; lia]).
    rewrite Nat2Z.id, to_nat_pos.
    destruct (IH (firstn i h)) as (ps & Hc & Hr).
    { rewrite firstn_length. lia. }
    exists (skipn (i + length d) h :: ps). rewrite Hc. split; [reflexivity | now constructor].
  - apply rfind_m_none in E; [|exact Hd]. exists [h]. split; [|now constructor].
    destruct fuel as [|fuel]; [lia|]. reflexivity.
Qed.

(** [rsplit] is [split(..).rev()], whose [next] is the [next_back] block *)
Theorem rsplit_exhaust h d : d <> [] ->
  exists ps, collect split_next_back (split_fuel h) (split_init h d) = Some ps /\ rsplit_rel d h ps.
Proof.
  intros Hd. unfold split_init. destruct d as [|c d']; [congruence|].
  apply collect_rsplit_normal; [exact Hd | unfold split_fuel; lia].
Qed.

(* ------------------------------------------------------------ terminator forms *)

Lemma drop_last_empty_cons p ps : ps <> [] -> drop_last_empty (p :: ps) = p :: drop_last_empty ps.
Proof.
  intros Hne. unfold drop_last_empty. cbn [rev].
  destruct (rev ps) as [|q r] eqn:E.
  - apply (f_equal (@rev _)) in E. rewrite rev_involutive in E. now subst.
  - cbn [app]. destruct q; [|reflexivity]. rewrite rev_app_distr. reflexivity.
Qed.

Lemma collect_term_normal d : d <> [] -> forall h ps, split_rel d h ps ->
  forall fuel, length h + 2 <= fuel ->
  collect term_next fuel (mk_term h (TNormal d)) = Some (drop_last_empty ps).
Proof.
  intros Hd h ps Hr. induction Hr as [h Hn | h i rest Hi Hr IH]; intros fuel Hf.
  - destruct fuel as [|fuel]; [lia|]. cbn [collect]. unfold term_next at 1. cbn [t_this t_state].
    destruct h as [|b h']; [reflexivity|]. set (h := b :: h') in *.
    apply find_m_none in Hn. rewrite Hn.
    unfold zlen. rewrite Nat2Z.id, firstn_all, skipn_all.
    destruct fuel as [|fuel]; [cbn in Hf; lia|]. reflexivity.
  - destruct fuel as [|fuel]; [lia|]. cbn [collect]. unfold term_next at 1. cbn [t_this t_state].
    pose proof (occ_bound _ _ _ (proj1 Hi)) as B.
    assert (length d > 0) by (destruct d; [congruence | cbn; lia]).
    destruct h as [|b h']; [cbn in B; lia|]. set (h := b :: h') in *.
    assert (E : find_m h d = Some (Z.of_nat i)) by (apply find_m_some; eauto).
    rewrite E, Nat2Z.id, to_nat_pos.
    rewrite IH by (rewrite skipn_length; lia). cbn [option_map].
    rewrite drop_last_empty_cons by (eapply split_rel_nonempty; eauto). reflexivity.
Qed.

Theorem split_terminator_exhaust h d ps : d <> [] -> split_rel d h ps ->
  collect term_next (split_fuel h) (term_init h d) = Some (drop_last_empty ps).
Proof.
  intros Hd Hr. unfold term_init. destruct d as [|c d']; [congruence|].
  eapply collect_term_normal; eauto. unfold split_fuel; lia.
Qed.

Lemma collect_rterm_normal d : d <> [] -> forall h ps, rsplit_rel d h ps ->
  forall fuel, length h + 2 <= fuel ->
  collect rterm_next fuel (mk_term h (TNormal d)) = Some (drop_last_empty ps).
Proof.
  intros Hd h ps Hr. induction Hr as [h Hn | h i rest Hi Hr IH]; intros fuel Hf.
  - destruct fuel as [|fuel]; [lia|]. cbn [collect]. unfold rterm_next at 1. cbn [t_this t_state].
    destruct h as [|b h']; [reflexivity|]. set (h := b :: h') in *.
    apply rfind_m_none in Hn; [|exact Hd]. rewrite Hn.
    change (Z.to_nat 0) with 0. cbn [skipn firstn].
    destruct fuel as [|fuel]; [cbn in Hf; lia|]. reflexivity.
  - destruct fuel as [|fuel]; [lia|]. cbn [collect]. unfold rterm_next at 1. cbn [t_this t_state].
    pose proof (occ_bound _ _ _ (proj1 Hi)) as B.
    assert (length d > 0) by (destruct d; [congruence | cbn; lia]).
    destruct h as [|b h']; [cbn in B; lia|]. set (h := b :: h') in *.
    assert (E : rfind_m h d = Some (Z.of_nat i)) by (apply rfind_m_some; eauto).
    rewrite E, Nat2Z.id, to_nat_pos.
    rewrite IH by (rewrite firstn_length; lia). cbn [option_map].
    rewrite drop_last_empty_cons by (eapply rsplit_rel_nonempty; eauto). reflexivity.
Qed.

Theorem rsplit_terminator_exhaust h d ps : d <> [] -> rsplit_rel d h ps ->
  collect rterm_next (split_fuel h) (term_init h d) = Some (drop_last_empty ps).
Proof.
  intros Hd Hr. unfold term_init. destruct d as [|c d']; [congruence|].
  eapply collect_rterm_normal; eauto. unfold split_fuel; lia.
Qed.

(* ------------------------------------------------------------ remainder after every step *)

(** [k] steps of an iterator: the pieces so far and the state reached *)
Fixpoint steps {A} (next : A -> step_res A) (k : nat) (s : A) : option (list (list Z) * A) :=
  match k with
  | O => Some ([], s)
  | S k' =>
      match next s with
      | Yield p s' => option_map (fun r => (p :: fst r, snd r)) (steps next k' s')
      | _ => None
      end
  end.

Lemma steps_nil_inv {A} (next : A -> step_res A) k s0 s :
  steps next k s0 = Some ([], s) -> s = s0.
Proof.
  destruct k as [|k]; cbn [steps]; intro H; [now inversion H|].
  destruct (next s0) as [p s'| |]; try discriminate.
  destruct (steps next k s') as [[? ?]|]; cbn in H; discriminate.
Qed.

(** forward: after any number of steps that did not end the iteration, the input is the
    yielded pieces (each followed by the delimiter) followed by the remainder *)
Theorem split_remainder d : d <> [] -> forall k h ps s,
  steps split_next k (mk_split h (SNormal d)) = Some (ps, s) ->
  (s_state s = SNormal d /\ h = concat (map (fun p => p ++ d) ps) ++ s_this s) \/
  (s_state s = SFinished /\ s_this s = [] /\ join d ps = h).
Proof.
  intros Hd. induction k as [|k IH]; intros h ps s H.
  - cbn in H. inversion H; subst. left. split; reflexivity.
  - cbn [steps] in H.
    change (split_next (mk_split h (SNormal d))) with
      (match find_m h d with
       | Some pos => Yield (firstn (Z.to_nat pos) h) (mk_split (skipn (Z.to_nat (pos + zlen d)) h) (SNormal d))
       | None => Yield h (mk_split [] SFinished)
       end) in H.
    destruct (find_m h d) as [pos|] eqn:E.
    + apply find_m_some in E as (i & -> & Hi). rewrite Nat2Z.id, to_nat_pos in H.
      destruct (steps split_next k _) as [[ps' s']|] eqn:Ek; [|discriminate].
      cbn in H. inversion H; subst. pose proof (occ_split _ _ _ (proj1 Hi)) as Hsplit.
      destruct (IH _ _ _ Ek) as [[Hs Hh] | (Hs & Ht & Hj)].
      * left. split; [exact Hs|]. cbn [map concat]. rewrite <- !app_assoc, <- Hh. exact Hsplit.
      * right. split; [exact Hs|]. split; [exact Ht|]. cbn [join].
        destruct ps' as [|q ps''].
        { apply steps_nil_inv in Ek. subst. cbn in Hs. discriminate. }
        rewrite Hj. symmetry. exact Hsplit.
    + destruct k as [|k]; cbn in H.
      * inversion H; subst. right. cbn. auto.
      * discriminate.
Qed.

(** backward (rsplit): the input is the remainder followed by the yielded pieces in reverse,
    each preceded by the delimiter *)
Theorem rsplit_remainder d : d <> [] -> forall k h ps s,
  steps split_next_back k (mk_split h (SNormal d)) = Some (ps, s) ->
  (s_state s = SNormal d /\ h = s_this s ++ concat (map (fun p => d ++ p) (rev ps))) \/
  (s_state s = SFinished /\ s_this s = [] /\ join d (rev ps) = h).
Proof.
  intros Hd. induction k as [|k IH]; intros h ps s H.
  - cbn in H. inversion H; subst. left. split; [reflexivity|]. cbn. now rewrite app_nil_r.
  - cbn [steps] in H.
    change (split_next_back (mk_split h (SNormal d))) with
      (match rfind_m h d with
       | Some pos => Yield (skipn (Z.to_nat (pos + zlen d)) h) (mk_split (firstn (Z.to_nat pos) h) (SNormal d))
       | None => Yield h (mk_split [] SFinished)
       end) in H.
    destruct (rfind_m h d) as [pos|] eqn:E.
    + apply rfind_m_some in E as (i & -> & Hi); [|exact Hd]. rewrite Nat2Z.id, to_nat_pos in H.
      destruct (steps split_next_back k _) as [[ps' s']|] eqn:Ek; [|discriminate].
      cbn in H. inversion H; subst. pose proof (occ_split _ _ _ (proj1 Hi)) as Hsplit.
      destruct (IH _ _ _ Ek) as [[Hs Hh] | (Hs & Ht & Hj)].
      * left. split; [exact Hs|]. cbn [rev]. rewrite map_app, concat_app. cbn [map concat].
        rewrite app_nil_r, app_assoc, <- Hh. exact Hsplit.
      * right. split; [exact Hs|]. split; [exact Ht|]. cbn [rev].
        destruct ps' as [|q ps''].
        { apply steps_nil_inv in Ek. subst. cbn in Hs. discriminate. }
        rewrite join_snoc.
        { rewrite Hj. symmetry. exact Hsplit. }
        { intro E0. apply (f_equal (@rev _)) in E0. rewrite rev_involutive in E0. discriminate. }
    + destruct k as [|k]; cbn in H.
      * inversion H; subst. right. cbn. auto.
      * discriminate.
Qed.

(* ------------------------------------------------------------ non-vacuity *)

Example split_example :
  collect split_next 10 (split_init [44;97;44;44;98;44]%Z [44]%Z)
  = Some [[]; [97]; []; [98]; []]%Z /\
  collect term_next 10 (term_init [44;97;44;44;98;44]%Z [44]%Z)
  = Some [[]; [97]; []; [98]]%Z /\
  collect rterm_next 10 (term_init [44;97;44;44;98;44]%Z [44]%Z)
  = Some [[]; [98]; []; [97]]%Z.
Proof. repeat split; reflexivity. Qed.
