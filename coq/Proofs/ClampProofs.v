(** Counter arguments beyond the number of elements: why the glue may evaluate the model of
    take / skip / nth at a clamped argument (Glue/C10.v, [cnat]). *)
From Coq Require Import List Arith Lia.
Import ListNotations.

Lemma firstn_clamp {A} (l : list A) (n m : nat) :
  length l <= n -> length l <= m -> firstn n l = firstn m l.
Proof. intros Hn Hm. rewrite !firstn_all2 by assumption. reflexivity. Qed.

Lemma skipn_clamp {A} (l : list A) (n m : nat) :
  length l <= n -> length l <= m -> skipn n l = skipn m l.
Proof. intros Hn Hm. rewrite !skipn_all2 by assumption. reflexivity. Qed.

Lemma nth_error_clamp {A} (l : list A) (n m : nat) :
  length l <= n -> length l <= m -> nth_error l n = nth_error l m.
Proof.
  intros Hn Hm.
  assert (E1 : nth_error l n = None) by (apply nth_error_None; exact Hn).
  assert (E2 : nth_error l m = None) by (apply nth_error_None; exact Hm).
  congruence.
Qed.
