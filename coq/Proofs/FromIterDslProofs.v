(** C20 x C10: [string::from_iter!] of an iterator-DSL chain, end to end.  The macro's two const
    evaluations push through the item closure what the chain's loop nest yields
    ([Model.Dsl.macro_sem] with the for_each/collect consumer); those are the items the identical
    std chain yields (C10), so the result is std's [collect::<String>] of that chain. *)
From KV Require Import Base.Prelude Model.Dsl Spec.Dsl Proofs.DslFusion Proofs.DslStd
  Model.Utf8 Model.Utf8Check Model.Concat Spec.Concat Proofs.ConcatProofs Proofs.Utf8CheckProofs.

(** a DSL value as a [from_iter!] element: a scalar is a [char], a list of bytes a [&str] *)
Fixpoint dbytes (l : list dval) : list Z :=
  match l with
  | DInt b :: r => b :: dbytes r
  | _ :: r => dbytes r
  | [] => []
  end.
Definition elem_of_dval (v : dval) : elem :=
  match v with
  | DInt c => EChr c
  | DList l => EStr (dbytes l)
  | _ => EStr []
  end.
Definition dsl_items (ms : list adapter) (src : list dval) : list elem :=
  map elem_of_dval (as_dlist (macro_sem ms CForEach src)).
Definition std_items (ms : list adapter) (src : list dval) : list elem :=
  map elem_of_dval (as_dlist (std_sem ms CForEach src)).

Definition from_iter_dsl (w : Z) (ms : list adapter) (src : list dval) : res (list Z) :=
  from_iter_m w (dsl_items ms src).

Theorem from_iter_dsl_eq_std w ms src :
  accepted ms CForEach = true -> no_rev_after_positional ms CForEach src ->
  Forall elem_ok (std_items ms src) -> total_len (map elem_bytes (std_items ms src)) < 2 ^ w ->
  from_iter_dsl w ms src = Done (flat (map elem_bytes (std_items ms src))).
Proof.
  intros Ha Hn Hok Hlen. unfold from_iter_dsl, dsl_items.
  rewrite (dsl_eq_std ms CForEach src Ha Hn). now apply from_iter_total.
Qed.

Theorem from_iter_dsl_eq_std_forward w ms src :
  reverses ms CForEach = false ->
  Forall elem_ok (std_items ms src) -> total_len (map elem_bytes (std_items ms src)) < 2 ^ w ->
  from_iter_dsl w ms src = Done (flat (map elem_bytes (std_items ms src))).
Proof.
  intros Hr Hok Hlen. unfold from_iter_dsl, dsl_items.
  rewrite (dsl_eq_std_forward ms CForEach src Hr). now apply from_iter_total.
Qed.
