(** Lemmas for C16: the comparison models equal the std meaning (list equality, lexicographic
    order, None < Some, integer order) for ALL inputs, never panic, and are lawful orders. *)
From KV Require Import Base.Prelude Model.Cmp Spec.Cmp.

(* ------------------------------------------------------------------ equality tests *)

(** equality test of Option from one of the content *)
Definition opt_eqb {A} (e : A -> A -> bool) (l r : option A) : bool :=
  match l, r with
  | Some a, Some b => e a b
  | None, None => true
  | _, _ => false
  end.

Lemma list_eqb_spec {A} (e : A -> A -> bool) :
  (forall x y, e x y = true <-> x = y) -> forall a b, list_eqb e a b = true <-> a = b.
Proof.
  intros He a; induction a as [|x a IH]; intros [|y b]; cbn [list_eqb]; split; intro H;
    try reflexivity; try discriminate.
  - apply andb_true_iff in H as [H1 H2]. apply He in H1. apply IH in H2. now subst.
  - inversion H; subst. apply andb_true_iff; split; [now apply He | now apply IH].
Qed.

Lemma opt_eqb_spec {A} (e : A -> A -> bool) :
  (forall x y, e x y = true <-> x = y) -> forall a b, opt_eqb e a b = true <-> a = b.
Proof.
  intros He [a|] [b|]; cbn [opt_eqb]; split; intro H; try reflexivity; try discriminate.
  - apply He in H. now subst.
  - inversion H; subst. now apply He.
Qed.

Lemma Zeqb_spec' : forall x y : Z, (x =? y) = true <-> x = y.
Proof. intros; apply Z.eqb_eq. Qed.

Lemma list_eqb_length {A} (e : A -> A -> bool) a b :
  length a <> length b -> list_eqb e a b = false.
Proof.
  revert b; induction a as [|x a IH]; intros [|y b] H; cbn [list_eqb length] in *;
    try reflexivity; try congruence.
  rewrite IH by congruence. apply andb_false_r.
Qed.

(* ------------------------------------------------------------------ U8Ordering, ret_if_ne *)

Lemma to_ordering_codes :
  to_ordering U8_LESS = Lt /\ to_ordering U8_GREATER = Gt /\ to_ordering U8_EQUAL = Eq.
Proof. repeat split. Qed.

Lemma ret_if_ne_same x : ret_if_ne x x = None.
Proof. unfold ret_if_ne. now rewrite Z.eqb_refl. Qed.

Lemma ret_if_ne_none x y : ret_if_ne x y = None -> x = y.
Proof.
  unfold ret_if_ne. destruct (Z.eqb_spec x y); cbn [negb]; [trivial | discriminate].
Qed.

Lemma ret_if_ne_some x y c :
  ret_if_ne x y = Some c -> x <> y /\ to_ordering c = (x ?= y).
Proof.
  unfold ret_if_ne. destruct (Z.eqb_spec x y) as [E|N]; cbn [negb]; [discriminate|].
  intros H; inversion H; subst c; clear H. split; [exact N|].
  unfold Z.gtb. destruct (x ?= y) eqn:C; cbn [bool_as_u8]; try reflexivity.
  apply Z.compare_eq in C. contradiction.
Qed.

(* ------------------------------------------------------------------ the element loops *)

(** comparison of lengths as a [comparison] *)
Definition len_cmp {A B} (l : list A) (r : list B) : comparison :=
  Nat.compare (length l) (length r).

(** the loop over the common prefix either returns the lexicographic answer or falls through
    exactly when one list is a prefix of the other, in which case the lengths decide *)
Lemma cmp_loop_lex : forall l r,
  match cmp_loop (Nat.min (length l) (length r)) l r with
  | Return c => to_ordering c = lex Z.compare l r
  | FallThrough => lex Z.compare l r = len_cmp l r
  | IndexPanic => False
  end.
Proof.
  induction l as [|x l IH]; intros [|y r]; unfold len_cmp; cbn [length Nat.min cmp_loop lex Nat.compare];
    try reflexivity.
  destruct (ret_if_ne x y) as [c|] eqn:E.
  - apply ret_if_ne_some in E as [N E]. rewrite E.
    destruct (x ?= y) eqn:C; try reflexivity. apply Z.compare_eq in C. contradiction.
  - apply ret_if_ne_none in E. subst y. rewrite Z.compare_refl. apply IH.
Qed.

Lemma len_cmp_Z {A B} (l : list A) (r : list B) : (zlen l ?= zlen r) = len_cmp l r.
Proof. unfold zlen, len_cmp. apply Nat2Z.inj_compare. Qed.

Lemma min_len_nat {A B} (l : list A) (r : list B) :
  Z.to_nat (if zlen l <? zlen r then zlen l else zlen r) = Nat.min (length l) (length r).
Proof. unfold zlen. destruct (Z.ltb_spec (Z.of_nat (length l)) (Z.of_nat (length r))); lia. Qed.

(** [cmp_inner] (slices of primitives) = lexicographic order; never panics *)
Lemma cmp_inner_lex l r :
  exists c, cmp_inner_m l r = Some c /\ to_ordering c = lex Z.compare l r.
Proof.
  unfold cmp_inner_m. rewrite min_len_nat.
  pose proof (cmp_loop_lex l r) as H.
  destruct (cmp_loop (Nat.min (length l) (length r)) l r) as [c| |].
  - exists c; split; [reflexivity | exact H].
  - rewrite H, <- len_cmp_Z.
    destruct (ret_if_ne (zlen l) (zlen r)) as [c|] eqn:E.
    + exists c; split; [reflexivity|]. now apply ret_if_ne_some in E as [_ E].
    + apply ret_if_ne_none in E. rewrite E, Z.compare_refl. exists U8_EQUAL. now split.
  - contradiction.
Qed.

Lemma cmp_slice_eq_lex l r : cmp_slice_m l r = Some (lex Z.compare l r).
Proof.
  unfold cmp_slice_m. destruct (cmp_inner_lex l r) as [c [H1 H2]].
  rewrite H1. cbn [option_map]. now rewrite H2.
Qed.

(** [cmp_str_inner] = lexicographic order of the bytes; never panics *)
Lemma cmp_str_inner_lex l r :
  exists c, cmp_str_inner_m l r = Some c /\ to_ordering c = lex Z.compare l r.
Proof.
  unfold cmp_str_inner_m.
  replace (fst (if zlen l <? zlen r then (zlen l, U8_LESS) else (zlen r, U8_GREATER)))
    with (if zlen l <? zlen r then zlen l else zlen r) by (destruct (zlen l <? zlen r); reflexivity).
  rewrite min_len_nat.
  pose proof (cmp_loop_lex l r) as H.
  destruct (cmp_loop (Nat.min (length l) (length r)) l r) as [c| |].
  - exists c; split; [reflexivity | exact H].
  - rewrite H, <- len_cmp_Z. eexists; split; [reflexivity|].
    destruct (Z.eqb_spec (zlen l) (zlen r)) as [E|N].
    + rewrite E, Z.compare_refl. reflexivity.
    + destruct (Z.ltb_spec (zlen l) (zlen r)) as [L|G]; cbn [snd].
      * symmetry. now apply Z.compare_lt_iff.
      * symmetry. apply Z.compare_gt_iff. lia.
  - contradiction.
Qed.

Lemma cmp_str_eq_lex l r : cmp_str_m l r = Some (lex Z.compare l r).
Proof.
  unfold cmp_str_m. destruct (cmp_str_inner_lex l r) as [c [H1 H2]].
  rewrite H1. cbn [option_map]. now rewrite H2.
Qed.

Lemma eq_loop_eqb : forall l r, length l = length r ->
  eq_loop (length l) l r = Some (list_eqb Z.eqb l r).
Proof.
  induction l as [|x l IH]; intros [|y r] H; cbn [length] in H; try discriminate;
    cbn [length eq_loop list_eqb]; [reflexivity|].
  destruct (Z.eqb_spec x y); cbn [negb andb]; [|reflexivity].
  apply IH. congruence.
Qed.

Lemma eq_slice_eqb l r : eq_slice_m l r = Some (list_eqb Z.eqb l r).
Proof.
  unfold eq_slice_m, zlen. destruct (Z.eqb_spec (Z.of_nat (length l)) (Z.of_nat (length r))) as [E|N];
    cbn [negb].
  - apply eq_loop_eqb. lia.
  - rewrite list_eqb_length by lia. reflexivity.
Qed.

Lemma eq_str_eqb l r : eq_str_m l r = Some (list_eqb Z.eqb l r).
Proof. exact (eq_slice_eqb l r). Qed.

Lemma eq_slice_iff_eq l r : eq_slice_m l r = Some true <-> l = r.
Proof.
  rewrite eq_slice_eqb. split; intro H.
  - apply list_eqb_Z_spec. congruence.
  - f_equal. now apply list_eqb_Z_spec.
Qed.

Lemma eq_slice_false_iff_ne l r : eq_slice_m l r = Some false <-> l <> r.
Proof.
  rewrite eq_slice_eqb. split; intro H.
  - intro E. apply list_eqb_Z_spec in E. congruence.
  - f_equal. destruct (list_eqb Z.eqb l r) eqn:E; [|reflexivity].
    apply list_eqb_Z_spec in E. contradiction.
Qed.

Lemma eq_str_iff_eq l r : eq_str_m l r = Some true <-> l = r.
Proof. exact (eq_slice_iff_eq l r). Qed.

(* ------------------------------------------------------------------ primitives, Ordering, ranges *)

Lemma cmp_int_eq_compare l r : cmp_int_m l r = (l ?= r).
Proof.
  unfold cmp_int_m. destruct (Z.eqb_spec l r) as [E|N].
  - subst. now rewrite Z.compare_refl.
  - destruct (Z.ltb_spec l r) as [L|G]; symmetry.
    + now apply Z.compare_lt_iff.
    + apply Z.compare_gt_iff. lia.
Qed.

Lemma prim_eq_iff l r : prim_eq_m l r = true <-> l = r.
Proof. apply Z.eqb_eq. Qed.

Lemma ordering_cmp_eq a b : cmp_ordering_m a b = ordering_cmp a b.
Proof. destruct a, b; reflexivity. Qed.

Lemma eq_ordering_iff a b : eq_ordering_m a b = true <-> a = b.
Proof. destruct a, b; cbv; split; intro H; congruence. Qed.

Lemma eq_range_iff l r : eq_range_m l r = true <-> l = r.
Proof.
  destruct l as [s1 e1], r as [s2 e2]. unfold eq_range_m; cbn [fst snd].
  rewrite andb_true_iff, !Z.eqb_eq. split; [intros [-> ->]; reflexivity | intro H; inversion H; auto].
Qed.

Lemma eq_for_range_prim l r : eq_for_range_m prim_eq_o l r = Some (eq_range_m l r).
Proof.
  unfold eq_for_range_m, prim_eq_o, eq_range_m, prim_eq_m.
  destruct (fst l =? fst r); reflexivity.
Qed.

(* ------------------------------------------------------------------ generic macro arms *)

Section Generic.
  Context {A : Type}.
  Variable eqE : A -> A -> option bool.
  Variable cmpE : A -> A -> option comparison.
  Variable e : A -> A -> bool.
  Variable c : A -> A -> comparison.
  Hypothesis eqE_total : forall x y, eqE x y = Some (e x y).
  Hypothesis cmpE_total : forall x y, cmpE x y = Some (c x y).

  Lemma eq_for_loop_eqb : forall l r, length l = length r ->
    eq_for_loop eqE (length l) l r = Some (list_eqb e l r).
  Proof.
    induction l as [|x l IH]; intros [|y r] H; cbn [length] in H; try discriminate;
      cbn [length eq_for_loop list_eqb]; [reflexivity|].
    rewrite eqE_total. destruct (e x y); cbn [negb andb]; [|reflexivity].
    apply IH. congruence.
  Qed.

  Lemma eq_for_slice_eqb l r : eq_for_slice_m eqE l r = Some (list_eqb e l r).
  Proof.
    unfold eq_for_slice_m, zlen.
    destruct (Z.eqb_spec (Z.of_nat (length l)) (Z.of_nat (length r))) as [E|N].
    - apply eq_for_loop_eqb. lia.
    - rewrite list_eqb_length by lia. reflexivity.
  Qed.

  Lemma cmp_for_slice_lex : forall l r, cmp_for_slice_m cmpE l r = Some (lex c l r).
  Proof.
    induction l as [|x l IH]; intros [|y r]; cbn [cmp_for_slice_m lex]; try reflexivity.
    rewrite cmpE_total. destruct (c x y); [apply IH | reflexivity | reflexivity].
  Qed.

  Lemma option_eq_eqb l r : option_eq_m eqE l r = Some (opt_eqb e l r).
  Proof. destruct l, r; cbn [option_eq_m opt_eqb]; auto. Qed.

  Lemma option_cmp_eq l r : option_cmp_m cmpE l r = Some (opt_cmp c l r).
  Proof. destruct l, r; cbn [option_cmp_m opt_cmp]; auto. Qed.

  Lemma eq_for_range_eqb l r :
    eq_for_range_m eqE l r = Some (e (fst l) (fst r) && e (snd l) (snd r)).
  Proof.
    unfold eq_for_range_m. rewrite eqE_total. destruct (e (fst l) (fst r)); cbn [andb]; auto.
  Qed.
End Generic.

Lemma prim_eq_o_total x y : prim_eq_o x y = Some (Z.eqb x y).
Proof. reflexivity. Qed.
Lemma prim_cmp_o_total x y : prim_cmp_o x y = Some (Z.compare x y).
Proof. unfold prim_cmp_o. now rewrite cmp_int_eq_compare. Qed.

(** [const_eq_for!(slice; ..)] / [const_cmp_for!(slice; ..)] on slices of primitives *)
Lemma eq_for_slice_prim l r : eq_for_slice_m prim_eq_o l r = Some (list_eqb Z.eqb l r).
Proof. apply eq_for_slice_eqb. exact prim_eq_o_total. Qed.
Lemma cmp_for_slice_prim l r : cmp_for_slice_m prim_cmp_o l r = Some (lex Z.compare l r).
Proof. apply cmp_for_slice_lex. exact prim_cmp_o_total. Qed.

(** slices of strings / byte slices *)
Lemma cmp_slice_str_eq_lex l r : cmp_slice_str_m l r = Some (lex (lex Z.compare) l r).
Proof. apply cmp_for_slice_lex. exact cmp_str_eq_lex. Qed.
Lemma cmp_slice_bytes_eq_lex l r : cmp_slice_bytes_m l r = Some (lex (lex Z.compare) l r).
Proof. apply cmp_for_slice_lex. exact cmp_slice_eq_lex. Qed.
Lemma eq_slice_str_eqb l r : eq_slice_str_m l r = Some (list_eqb (list_eqb Z.eqb) l r).
Proof. apply eq_for_slice_eqb. exact eq_str_eqb. Qed.
Lemma eq_slice_bytes_eqb l r : eq_slice_bytes_m l r = Some (list_eqb (list_eqb Z.eqb) l r).
Proof. apply eq_for_slice_eqb. exact eq_slice_eqb. Qed.

Lemma list_list_eqb_spec (a b : list (list Z)) : list_eqb (list_eqb Z.eqb) a b = true <-> a = b.
Proof. apply list_eqb_spec. exact list_eqb_Z_spec. Qed.

Lemma eq_slice_str_iff_eq l r : eq_slice_str_m l r = Some true <-> l = r.
Proof.
  rewrite eq_slice_str_eqb. split; intro H.
  - apply list_list_eqb_spec. congruence.
  - f_equal. now apply list_list_eqb_spec.
Qed.
Lemma eq_slice_bytes_iff_eq l r : eq_slice_bytes_m l r = Some true <-> l = r.
Proof.
  rewrite eq_slice_bytes_eqb. split; intro H.
  - apply list_list_eqb_spec. congruence.
  - f_equal. now apply list_list_eqb_spec.
Qed.

(* ------------------------------------------------------------------ order laws *)

Lemma lawful_Zcompare : lawful Z.compare.
Proof.
  constructor.
  - intros x y. apply Z.compare_eq_iff.
  - intros x y. apply Z.compare_antisym.
  - intros x y z H1 H2. rewrite Z.compare_lt_iff in *. lia.
Qed.

Lemma lawful_ordering_cmp : lawful ordering_cmp.
Proof.
  constructor.
  - intros [] []; cbv; split; intro H; congruence.
  - intros [] []; reflexivity.
  - intros [] [] []; cbv; congruence.
Qed.

Section LexLaws.
  Context {A : Type}.
  Variable cmpA : A -> A -> comparison.
  Hypothesis HA : lawful cmpA.

  Lemma cmpA_refl x : cmpA x x = Eq.
  Proof. now apply (law_eq _ HA). Qed.

  Lemma lex_eq_iff : forall l r, lex cmpA l r = Eq <-> l = r.
  Proof.
    induction l as [|x l IH]; intros [|y r]; cbn [lex]; split; intro H;
      try reflexivity; try discriminate.
    - destruct (cmpA x y) eqn:C; try discriminate.
      apply (law_eq _ HA) in C. apply IH in H. now subst.
    - inversion H; subst. rewrite cmpA_refl. now apply IH.
  Qed.

  Lemma lex_opp : forall l r, lex cmpA r l = CompOpp (lex cmpA l r).
  Proof.
    induction l as [|x l IH]; intros [|y r]; cbn [lex]; try reflexivity.
    rewrite (law_opp _ HA x y). destruct (cmpA x y); cbn [CompOpp]; auto.
  Qed.

  Lemma lex_trans_lt : forall a b c,
    lex cmpA a b = Lt -> lex cmpA b c = Lt -> lex cmpA a c = Lt.
  Proof.
    induction a as [|x a IH]; intros [|y b] [|z c]; cbn [lex]; intros H1 H2;
      try reflexivity; try discriminate.
    destruct (cmpA x y) eqn:C1; try discriminate.
    - apply (law_eq _ HA) in C1. subst y.
      destruct (cmpA x z) eqn:C2; try discriminate; [eapply IH; eauto | reflexivity].
    - destruct (cmpA y z) eqn:C2; try discriminate.
      + apply (law_eq _ HA) in C2. subst z. now rewrite C1.
      + now rewrite (law_trans _ HA x y z C1 C2).
  Qed.

  Lemma lawful_lex : lawful (lex cmpA).
  Proof. constructor; [exact lex_eq_iff | exact lex_opp | exact lex_trans_lt]. Qed.

  Lemma lawful_opt : lawful (opt_cmp cmpA).
  Proof.
    constructor.
    - intros [x|] [y|]; cbn [opt_cmp]; split; intro H; try reflexivity; try discriminate.
      + apply (law_eq _ HA) in H. now subst.
      + inversion H; subst. apply cmpA_refl.
    - intros [x|] [y|]; cbn [opt_cmp CompOpp]; try reflexivity. apply (law_opp _ HA).
    - intros [x|] [y|] [z|]; cbn [opt_cmp]; intros H1 H2; try reflexivity; try discriminate.
      eapply (law_trans _ HA); eauto.
  Qed.

  (** a lawful three-way comparison with a correct equality test satisfies the order laws of
      the property text *)
  Lemma order_laws_of_lawful (e : A -> A -> bool) :
    (forall x y, e x y = true <-> x = y) -> order_laws cmpA e.
  Proof.
    intro He. constructor.
    - exact (law_opp _ HA).
    - unfold le_of. intros x y H1 H2. rewrite (law_opp _ HA x y) in H2.
      destruct (cmpA x y) eqn:C; cbn [CompOpp] in H2; try congruence.
      now apply (law_eq _ HA).
    - unfold le_of. intros x y z H1 H2.
      destruct (cmpA x y) eqn:C1; try congruence.
      + apply (law_eq _ HA) in C1. now subst.
      + destruct (cmpA y z) eqn:C2; try congruence.
        * apply (law_eq _ HA) in C2. subst. congruence.
        * rewrite (law_trans _ HA x y z C1 C2). discriminate.
    - exact (law_trans _ HA).
    - intros x y. rewrite (law_eq _ HA), He. tauto.
    - exact He.
  Qed.

  (** lexicographic = "proper prefix, or smaller at the first differing position" *)
  Lemma lex_prefix_lt : forall l y t, lex cmpA l (l ++ y :: t) = Lt.
  Proof.
    induction l as [|x l IH]; intros y t; cbn [lex app]; [reflexivity|].
    rewrite cmpA_refl. apply IH.
  Qed.

  Lemma lex_common_prefix : forall p l r, lex cmpA (p ++ l) (p ++ r) = lex cmpA l r.
  Proof.
    induction p as [|x p IH]; intros l r; cbn [lex app]; [reflexivity|].
    rewrite cmpA_refl. apply IH.
  Qed.

  Lemma lex_lt_iff : forall l r,
    lex cmpA l r = Lt <-> lex_lt_spec (fun x y => cmpA x y = Lt) l r.
  Proof.
    intros l r; split.
    - revert r; induction l as [|x l IH]; intros [|y r]; cbn [lex]; intro H; try discriminate.
      + left. exists y, r. reflexivity.
      + destruct (cmpA x y) eqn:C; try discriminate.
        * apply (law_eq _ HA) in C. subst y.
          destruct (IH r H) as [[y' [t Hr]] | [p [x' [y' [l' [r' [Hl [Hr Hlt]]]]]]]].
          -- left. exists y', t. now rewrite Hr.
          -- right. exists (x :: p), x', y', l', r'. subst. auto.
        * right. exists [], x, y, l, r. auto.
    - intros [[y [t Hr]] | [p [x [y [l' [r' [Hl [Hr Hlt]]]]]]]].
      + subst r. apply lex_prefix_lt.
      + subst l r. rewrite lex_common_prefix. cbn [lex]. now rewrite Hlt.
  Qed.
End LexLaws.

(** [try_equal!] chains: the lexicographic product of lawful field orders is lawful *)
Lemma try_equal_lexprod a k : try_equal_m (Some a) (Some k) = Some (lexprod a k).
Proof. destruct a; reflexivity. Qed.

Lemma lawful_pair {A B} (cA : A -> A -> comparison) (cB : B -> B -> comparison) :
  lawful cA -> lawful cB -> lawful (pair_cmp cA cB).
Proof.
  intros HA HB. constructor.
  - intros [a1 b1] [a2 b2]; unfold pair_cmp, lexprod; cbn [fst snd]. split; intro H.
    + destruct (cA a1 a2) eqn:C; try discriminate.
      apply (law_eq _ HA) in C. apply (law_eq _ HB) in H. now subst.
    + inversion H; subst. rewrite (proj2 (law_eq _ HA a2 a2) eq_refl). now apply (law_eq _ HB).
  - intros [a1 b1] [a2 b2]; unfold pair_cmp, lexprod; cbn [fst snd].
    rewrite (law_opp _ HA a1 a2). destruct (cA a1 a2); cbn [CompOpp]; auto. apply (law_opp _ HB).
  - intros [a1 b1] [a2 b2] [a3 b3]; unfold pair_cmp, lexprod; cbn [fst snd]. intros H1 H2.
    destruct (cA a1 a2) eqn:C1; try discriminate.
    + apply (law_eq _ HA) in C1. subst a2.
      destruct (cA a1 a3) eqn:C2; try discriminate; [eapply (law_trans _ HB); eauto | reflexivity].
    + destruct (cA a2 a3) eqn:C2; try discriminate.
      * apply (law_eq _ HA) in C2. subst a3. now rewrite C1.
      * now rewrite (law_trans _ HA a1 a2 a3 C1 C2).
Qed.

Lemma lawful_lexZ : lawful (lex Z.compare).
Proof. apply lawful_lex. exact lawful_Zcompare. Qed.
Lemma lawful_lexlexZ : lawful (lex (lex Z.compare)).
Proof. apply lawful_lex. exact lawful_lexZ. Qed.

(** "the model is a lawful order": the model functions are total (never panic) and their
    results satisfy the order laws *)
Definition model_order_laws {A} (cmpm : A -> A -> option comparison) (eqm : A -> A -> option bool) : Prop :=
  exists c e, (forall x y, cmpm x y = Some (c x y)) /\ (forall x y, eqm x y = Some (e x y)) /\
              order_laws c e.

Lemma slice_order_laws : model_order_laws cmp_slice_m eq_slice_m.
Proof.
  exists (lex Z.compare), (list_eqb Z.eqb). split; [exact cmp_slice_eq_lex|].
  split; [exact eq_slice_eqb|].
  apply order_laws_of_lawful; [exact lawful_lexZ | exact list_eqb_Z_spec].
Qed.

Lemma str_order_laws : model_order_laws cmp_str_m eq_str_m.
Proof.
  exists (lex Z.compare), (list_eqb Z.eqb). split; [exact cmp_str_eq_lex|].
  split; [exact eq_str_eqb|].
  apply order_laws_of_lawful; [exact lawful_lexZ | exact list_eqb_Z_spec].
Qed.

Lemma for_slice_order_laws :
  model_order_laws (cmp_for_slice_m prim_cmp_o) (eq_for_slice_m prim_eq_o).
Proof.
  exists (lex Z.compare), (list_eqb Z.eqb). split; [exact cmp_for_slice_prim|].
  split; [exact eq_for_slice_prim|].
  apply order_laws_of_lawful; [exact lawful_lexZ | exact list_eqb_Z_spec].
Qed.

Lemma slice_str_order_laws : model_order_laws cmp_slice_str_m eq_slice_str_m.
Proof.
  exists (lex (lex Z.compare)), (list_eqb (list_eqb Z.eqb)). split; [exact cmp_slice_str_eq_lex|].
  split; [exact eq_slice_str_eqb|].
  apply order_laws_of_lawful; [exact lawful_lexlexZ | exact list_list_eqb_spec].
Qed.

Lemma slice_bytes_order_laws : model_order_laws cmp_slice_bytes_m eq_slice_bytes_m.
Proof.
  exists (lex (lex Z.compare)), (list_eqb (list_eqb Z.eqb)). split; [exact cmp_slice_bytes_eq_lex|].
  split; [exact eq_slice_bytes_eqb|].
  apply order_laws_of_lawful; [exact lawful_lexlexZ | exact list_list_eqb_spec].
Qed.

Lemma prim_order_laws : model_order_laws prim_cmp_o prim_eq_o.
Proof.
  exists Z.compare, Z.eqb. split; [exact prim_cmp_o_total|]. split; [exact prim_eq_o_total|].
  apply order_laws_of_lawful; [exact lawful_Zcompare | exact Zeqb_spec'].
Qed.

Lemma ordering_order_laws :
  model_order_laws (fun x y => Some (cmp_ordering_m x y)) (fun x y => Some (eq_ordering_m x y)).
Proof.
  exists ordering_cmp, eq_ordering_m. split; [intros; now rewrite ordering_cmp_eq|].
  split; [reflexivity|].
  apply order_laws_of_lawful; [exact lawful_ordering_cmp | exact eq_ordering_iff].
Qed.

(** Option of anything whose model is a lawful order is a lawful order (None < Some) *)
Lemma option_order_laws {A} (cmpm : A -> A -> option comparison) (eqm : A -> A -> option bool)
    (c : A -> A -> comparison) (e : A -> A -> bool) :
  (forall x y, cmpm x y = Some (c x y)) -> (forall x y, eqm x y = Some (e x y)) ->
  lawful c -> (forall x y, e x y = true <-> x = y) ->
  model_order_laws (option_cmp_m cmpm) (option_eq_m eqm).
Proof.
  intros Hc He Hl Hs. exists (opt_cmp c), (opt_eqb e).
  split; [intros; now apply option_cmp_eq|]. split; [intros; now apply option_eq_eqb|].
  apply order_laws_of_lawful; [now apply lawful_opt | now apply opt_eqb_spec].
Qed.

Lemma option_slice_order_laws :
  model_order_laws (option_cmp_m cmp_slice_m) (option_eq_m eq_slice_m).
Proof.
  apply (option_order_laws _ _ (lex Z.compare) (list_eqb Z.eqb));
    [exact cmp_slice_eq_lex | exact eq_slice_eqb | exact lawful_lexZ | exact list_eqb_Z_spec].
Qed.
Lemma option_str_order_laws :
  model_order_laws (option_cmp_m cmp_str_m) (option_eq_m eq_str_m).
Proof.
  apply (option_order_laws _ _ (lex Z.compare) (list_eqb Z.eqb));
    [exact cmp_str_eq_lex | exact eq_str_eqb | exact lawful_lexZ | exact list_eqb_Z_spec].
Qed.
Lemma option_prim_order_laws :
  model_order_laws (option_cmp_m prim_cmp_o) (option_eq_m prim_eq_o).
Proof.
  apply (option_order_laws _ _ Z.compare Z.eqb);
    [exact prim_cmp_o_total | exact prim_eq_o_total | exact lawful_Zcompare | exact Zeqb_spec'].
Qed.
Lemma option_slice_str_order_laws :
  model_order_laws (option_cmp_m cmp_slice_str_m) (option_eq_m eq_slice_str_m).
Proof.
  apply (option_order_laws _ _ (lex (lex Z.compare)) (list_eqb (list_eqb Z.eqb)));
    [exact cmp_slice_str_eq_lex | exact eq_slice_str_eqb | exact lawful_lexlexZ | exact list_list_eqb_spec].
Qed.
Lemma option_slice_bytes_order_laws :
  model_order_laws (option_cmp_m cmp_slice_bytes_m) (option_eq_m eq_slice_bytes_m).
Proof.
  apply (option_order_laws _ _ (lex (lex Z.compare)) (list_eqb (list_eqb Z.eqb)));
    [exact cmp_slice_bytes_eq_lex | exact eq_slice_bytes_eqb | exact lawful_lexlexZ | exact list_list_eqb_spec].
Qed.
Lemma option_ordering_order_laws :
  model_order_laws (option_cmp_m (fun x y => Some (cmp_ordering_m x y)))
                   (option_eq_m (fun x y => Some (eq_ordering_m x y))).
Proof.
  apply (option_order_laws _ _ ordering_cmp eq_ordering_m);
    [intros; now rewrite ordering_cmp_eq | reflexivity | exact lawful_ordering_cmp | exact eq_ordering_iff].
Qed.

(** Option functions of each type = None < Some over the content's order *)
Lemma option_cmp_slice l r :
  option_cmp_m cmp_slice_m l r = Some (opt_cmp (lex Z.compare) l r).
Proof. apply option_cmp_eq. exact cmp_slice_eq_lex. Qed.
Lemma option_cmp_str l r :
  option_cmp_m cmp_str_m l r = Some (opt_cmp (lex Z.compare) l r).
Proof. apply option_cmp_eq. exact cmp_str_eq_lex. Qed.
Lemma option_cmp_prim l r : option_cmp_m prim_cmp_o l r = Some (opt_cmp Z.compare l r).
Proof. apply option_cmp_eq. exact prim_cmp_o_total. Qed.
Lemma option_cmp_slice_str l r :
  option_cmp_m cmp_slice_str_m l r = Some (opt_cmp (lex (lex Z.compare)) l r).
Proof. apply option_cmp_eq. exact cmp_slice_str_eq_lex. Qed.
Lemma option_cmp_ordering l r :
  option_cmp_m (fun x y => Some (cmp_ordering_m x y)) l r = Some (opt_cmp ordering_cmp l r).
Proof. apply option_cmp_eq. intros; now rewrite ordering_cmp_eq. Qed.

Lemma option_eq_iff {A} (eqm : A -> A -> option bool) (e : A -> A -> bool) :
  (forall x y, eqm x y = Some (e x y)) -> (forall x y, e x y = true <-> x = y) ->
  forall l r, option_eq_m eqm l r = Some true <-> l = r.
Proof.
  intros He Hs l r. rewrite (option_eq_eqb eqm e He). split; intro H.
  - apply (opt_eqb_spec e Hs). congruence.
  - f_equal. now apply (opt_eqb_spec e Hs).
Qed.

Lemma option_eq_slice_iff l r : option_eq_m eq_slice_m l r = Some true <-> l = r.
Proof. apply (option_eq_iff _ (list_eqb Z.eqb)); [exact eq_slice_eqb | exact list_eqb_Z_spec]. Qed.
Lemma option_eq_prim_iff l r : option_eq_m prim_eq_o l r = Some true <-> l = r.
Proof. apply (option_eq_iff _ Z.eqb); [exact prim_eq_o_total | exact Zeqb_spec']. Qed.

(* ------------------------------------------------------------------ assertions *)

Lemma assertc_eq_panics_iff b : assertc_eq_panics_m b = true <-> b = false.
Proof. destruct b; cbn; split; congruence. Qed.
Lemma assertc_ne_panics_iff b : assertc_ne_panics_m b = true <-> b = true.
Proof. destruct b; cbn; split; congruence. Qed.

(** [assertc_eq!(l, r)] on strings panics exactly when [l <> r]; [assertc_ne!] exactly when
    [l = r]; the comparison itself never panics *)
Lemma assertc_str_panics_iff l r :
  exists b, const_eq_str_m l r = Some b /\
    (assertc_eq_panics_m b = true <-> l <> r) /\ (assertc_ne_panics_m b = true <-> l = r).
Proof.
  exists (list_eqb Z.eqb l r). split; [exact (eq_str_eqb l r)|].
  rewrite assertc_eq_panics_iff, assertc_ne_panics_iff, list_eqb_Z_spec.
  split; [|tauto].
  split; intro H.
  - intro E. apply list_eqb_Z_spec in E. congruence.
  - destruct (list_eqb Z.eqb l r) eqn:E; [|reflexivity]. apply list_eqb_Z_spec in E. contradiction.
Qed.

Lemma assertc_prim_panics_iff l r :
  (assertc_eq_panics_m (const_eq_prim_m l r) = true <-> l <> r) /\
  (assertc_ne_panics_m (const_eq_prim_m l r) = true <-> l = r).
Proof.
  rewrite assertc_eq_panics_iff, assertc_ne_panics_iff. unfold const_eq_prim_m, prim_eq_m.
  split; [|apply Z.eqb_eq]. apply Z.eqb_neq.
Qed.

(* ------------------------------------------------------------------ regression of finding F4 *)

(** the length-first comparison used before the repair is NOT the lexicographic order *)
Lemma length_first_refuted :
  cmp_slice_length_first [2] [1; 1] = Some Lt /\
  lex Z.compare [2] [1; 1] = Gt /\
  cmp_slice_m [2] [1; 1] = Some Gt.
Proof. repeat split. Qed.

(** and is not even an order compatible with prefixes: it is refuted although it is total *)
Lemma length_first_not_lex : exists l r, cmp_slice_length_first l r <> Some (lex Z.compare l r).
Proof. exists [2], [1; 1]. cbv. discriminate. Qed.

(* ------------------------------------------------------------------ cmp = Equal exactly when eq *)

Lemma cmp_eq_iff_eq_slice l r : cmp_slice_m l r = Some Eq <-> eq_slice_m l r = Some true.
Proof.
  rewrite cmp_slice_eq_lex, eq_slice_iff_eq. split; intro H.
  - apply (lex_eq_iff _ lawful_Zcompare). congruence.
  - f_equal. now apply (lex_eq_iff _ lawful_Zcompare).
Qed.

Lemma cmp_eq_iff_eq_str l r : cmp_str_m l r = Some Eq <-> eq_str_m l r = Some true.
Proof.
  rewrite cmp_str_eq_lex, eq_str_iff_eq. split; intro H.
  - apply (lex_eq_iff _ lawful_Zcompare). congruence.
  - f_equal. now apply (lex_eq_iff _ lawful_Zcompare).
Qed.

Lemma cmp_eq_iff_eq_slice_str l r : cmp_slice_str_m l r = Some Eq <-> eq_slice_str_m l r = Some true.
Proof.
  rewrite cmp_slice_str_eq_lex, eq_slice_str_iff_eq. split; intro H.
  - apply (lex_eq_iff _ lawful_lexZ). congruence.
  - f_equal. now apply (lex_eq_iff _ lawful_lexZ).
Qed.

(** the lexicographic order on integer lists, read independently of the recursion *)
Lemma lexZ_lt_iff l r :
  lex Z.compare l r = Lt <-> lex_lt_spec Z.lt l r.
Proof.
  rewrite (lex_lt_iff _ lawful_Zcompare). unfold lex_lt_spec. split.
  - intros [H | [p [x [y [l' [r' [Hl [Hr Hlt]]]]]]]]; [now left | right].
    exists p, x, y, l', r'. repeat split; auto.
  - intros [H | [p [x [y [l' [r' [Hl [Hr Hlt]]]]]]]]; [now left | right].
    exists p, x, y, l', r'. repeat split; auto.
Qed.
