(** Finding F10 (repaired): array::map! / from_fn! obtained the loop bound with the method call
    [$array.len()], which a user trait with a [len] method implemented for arrays hijacks. *)
From KV Require Import Base.Prelude Model.ArrayMacros Spec.ArrayMacros.
Local Open Scope nat_scope.

(** with the array's real length the old loop IS the model the C11 theorems are about *)
Lemma amap_loop_len_eq {A B} fuel (clo : nat -> A -> outcome B) input : forall i calls out,
  amap_loop_len (length input) fuel clo input i calls out = amap_loop fuel clo input i calls out.
Proof.
  induction fuel as [|fuel IH]; intros i calls out; cbn [amap_loop_len amap_loop]; [reflexivity|].
  destruct (i <? length input); [|reflexivity].
  destruct (nth_error input i); [|reflexivity].
  destruct (clo calls a); try reflexivity.
  - destruct (i <? length out); [apply IH | reflexivity].
  - apply IH.
Qed.
Theorem array_map_len_real {A B} fuel (clo : nat -> A -> outcome B) input :
  array_map_len_m (length input) fuel clo input = array_map_m fuel clo input.
Proof. apply amap_loop_len_eq. Qed.

(** the witness: a [len] that reports 0 makes the macro return an array none of whose slots was
    written (observed on the real crate before the repair: map!([1u64, 2, 3], |x| x + 1) gave
    three garbage values) *)
Theorem array_map_len_hijack_refuted :
  array_map_len_m 0 5 (fun _ (x : Z) => Value (x + 1)%Z) [1; 2; 3]%Z = Built [None; None; None]
  /\ ~ fully_init (@nil (option Z) ++ [None; None; None]).
Proof.
  split; [reflexivity|]. unfold fully_init. intros H. inversion H as [|x l Hx Hl]. now destruct Hx.
Qed.
