(** Lemmas for C20, concatenation half: the two-pass evaluation (sum the lengths, then fill
    an array of exactly that length) produces the plain concatenation / intercalation. *)
From KV Require Import Base.Prelude Model.Utf8 Model.Utf8Check Model.Concat Spec.Concat.

(* ------------------------------------------------------------------ small list facts *)

Lemma skipn_repeat {A} (x : A) : forall k m, skipn k (repeat x m) = repeat x (m - k).
Proof.
  induction k as [|k IH]; intros m.
  - now rewrite Nat.sub_0_r.
  - destruct m as [|m]; [reflexivity|]. cbn [repeat skipn]. now rewrite IH.
Qed.

Lemma skipn_skipn {A} : forall x y (l : list A), skipn x (skipn y l) = skipn (y + x) l.
Proof.
  intros x y; revert x. induction y as [|y IH]; intros x l; [reflexivity|].
  destruct l as [|a l]; [now rewrite !skipn_nil|]. cbn [skipn Nat.add]. apply IH.
Qed.

Lemma zlen_repeat {A} (x : A) n : zlen (repeat x n) = Z.of_nat n.
Proof. unfold zlen. now rewrite repeat_length. Qed.

Lemma zlen_arr_repeat {A} (x : A) n : 0 <= n -> zlen (arr_repeat x n) = n.
Proof. intros H. unfold arr_repeat. rewrite zlen_repeat. lia. Qed.

Lemma zlen_map {A B} (f : A -> B) l : zlen (map f l) = zlen l.
Proof. unfold zlen. now rewrite map_length. Qed.

Lemma zlen_0_nil {A} (l : list A) : zlen l = 0 -> l = [].
Proof. destruct l; [reflexivity|]. rewrite zlen_cons. pose proof (zlen_nonneg l). lia. Qed.

Lemma flat_cons {A} (c : list A) r : flat (c :: r) = c ++ flat r.
Proof. reflexivity. Qed.

Lemma flat_map_map {A B} (f : A -> B) (l : list (list A)) : flat (map (map f) l) = map f (flat l).
Proof. unfold flat. now rewrite concat_map. Qed.

(* ------------------------------------------------------------------ array writes *)

Lemma set_nth_app {A} (a : list A) x r v : set_nth (a ++ x :: r) (length a) v = Some (a ++ v :: r).
Proof.
  induction a as [|y a IH]; cbn [app length set_nth]; [reflexivity|]. now rewrite IH.
Qed.

Lemma set_nth_oob {A} (a : list A) v : set_nth a (length a) v = None.
Proof.
  induction a as [|y a IH]; cbn [length set_nth]; [reflexivity|]. now rewrite IH.
Qed.

Lemma arr_set_app {A} (a : list A) x r v : arr_set (a ++ x :: r) (zlen a) v = Some (a ++ v :: r).
Proof.
  unfold arr_set. pose proof (zlen_nonneg a).
  destruct (zlen a <? 0) eqn:E; [lia|].
  unfold zlen. rewrite Nat2Z.id. apply set_nth_app.
Qed.

Lemma arr_set_oob {A} (a : list A) v : arr_set a (zlen a) v = None.
Proof.
  unfold arr_set. destruct (zlen a <? 0); [reflexivity|].
  unfold zlen. rewrite Nat2Z.id. apply set_nth_oob.
Qed.

(** the inner loop: writing [bs] at the end of the written part [a] of an array whose
    unwritten rest is [zs] succeeds iff [bs] fits, and then lands exactly behind [a] *)
Lemma write_elems_spec {A} (bs : list A) : forall a zs,
  write_elems bs (a ++ zs) (zlen a) =
  if zlen bs <=? zlen zs
  then Done (a ++ bs ++ skipn (length bs) zs, zlen a + zlen bs)
  else Panic.
Proof.
  induction bs as [|b bs IH]; intros a zs.
  - cbn [write_elems length skipn app]. rewrite zlen_nil.
    pose proof (zlen_nonneg zs). destruct (0 <=? zlen zs) eqn:E; [|lia].
    now rewrite Z.add_0_r.
  - cbn [write_elems]. destruct zs as [|z zs].
    + rewrite app_nil_r, arr_set_oob. rewrite zlen_cons, zlen_nil.
      pose proof (zlen_nonneg bs). destruct (zlen bs + 1 <=? 0) eqn:E; [lia|reflexivity].
    + rewrite arr_set_app.
      replace (a ++ b :: zs) with ((a ++ [b]) ++ zs) by now rewrite <- app_assoc.
      replace (zlen a + 1) with (zlen (a ++ [b])) by (rewrite zlen_app, zlen_cons, zlen_nil; lia).
      rewrite IH. rewrite !zlen_cons, zlen_app, zlen_cons, zlen_nil.
      destruct (zlen bs <=? zlen zs) eqn:E1; destruct (zlen bs + 1 <=? zlen zs + 1) eqn:E2; try lia.
      * cbn [length skipn]. rewrite <- !app_assoc. cbn [app]. f_equal. f_equal. lia.
      * reflexivity.
Qed.

(** a sequence of such writes, chunk after chunk *)
Fixpoint fill_chunks {A} (chunks : list (list A)) (out : list A) (i : Z) : res (list A * Z) :=
  match chunks with
  | [] => Done (out, i)
  | c :: r => bind (write_elems c out i) (fun '(o, i') => fill_chunks r o i')
  end.

Lemma fill_chunks_spec {A} (chunks : list (list A)) : forall a zs,
  fill_chunks chunks (a ++ zs) (zlen a) =
  if total_len chunks <=? zlen zs
  then Done (a ++ flat chunks ++ skipn (length (flat chunks)) zs, zlen a + total_len chunks)
  else Panic.
Proof.
  unfold total_len.
  induction chunks as [|c r IH]; intros a zs.
  - cbn [fill_chunks flat concat length skipn app]. rewrite zlen_nil.
    pose proof (zlen_nonneg zs). destruct (0 <=? zlen zs) eqn:E; [|lia]. now rewrite Z.add_0_r.
  - cbn [fill_chunks]. rewrite write_elems_spec. rewrite flat_cons, zlen_app.
    pose proof (zlen_nonneg (flat r)). pose proof (zlen_nonneg c).
    destruct (zlen c <=? zlen zs) eqn:E1.
    + cbn [bind]. rewrite app_assoc.
      replace (zlen a + zlen c) with (zlen (a ++ c)) by (rewrite zlen_app; lia).
      rewrite IH.
      assert (Hs : zlen (skipn (length c) zs) = zlen zs - zlen c).
      { unfold zlen in *. rewrite skipn_length. lia. }
      rewrite Hs.
      destruct (zlen (flat r) <=? zlen zs - zlen c) eqn:E2;
        destruct (zlen c + zlen (flat r) <=? zlen zs) eqn:E3; try lia.
      * rewrite skipn_skipn, app_length, zlen_app, <- !app_assoc.
        do 2 f_equal. lia.
      * reflexivity.
    + cbn [bind]. destruct (zlen c + zlen (flat r) <=? zlen zs) eqn:E3; [lia|reflexivity].
Qed.

(** filling a fresh array [[x; n]] *)
Lemma fill_chunks_fresh {A} (chunks : list (list A)) (x : A) n : 0 <= n ->
  fill_chunks chunks (arr_repeat x n) 0 =
  if total_len chunks <=? n
  then Done (flat chunks ++ arr_repeat x (n - total_len chunks), total_len chunks)
  else Panic.
Proof.
  intros Hn.
  pose proof (fill_chunks_spec chunks [] (arr_repeat x n)) as H.
  cbn [app] in H. rewrite zlen_nil in H. rewrite H. rewrite zlen_arr_repeat by exact Hn.
  destruct (total_len chunks <=? n) eqn:E; [|reflexivity].
  unfold arr_repeat at 1. rewrite skipn_repeat. unfold arr_repeat, total_len, zlen in *.
  f_equal. f_equal. f_equal. f_equal. lia.
Qed.

(* ------------------------------------------------------------------ summing lengths *)

Definition zsum (l : list Z) : Z := fold_right Z.add 0 l.

Lemma zsum_map_zlen {A} (chunks : list (list A)) : zsum (map (@zlen A) chunks) = total_len chunks.
Proof.
  unfold total_len. induction chunks as [|c r IH]; [reflexivity|].
  cbn [map zsum fold_right]. rewrite flat_cons, zlen_app. unfold zsum in IH. now rewrite IH.
Qed.

(** no wrap-around happens when the true total is representable *)
Lemma sum_lens_exact w (lens : list Z) : forall s,
  Forall (fun n => 0 <= n) lens -> 0 <= s -> s + zsum lens < 2 ^ w ->
  sum_lens w lens s = s + zsum lens.
Proof.
  induction lens as [|n r IH]; intros s Hpos Hs Hb.
  - cbn. lia.
  - cbn [sum_lens zsum fold_right] in *. inversion Hpos as [|? ? Hn Hr]; subst.
    assert (Hr0 : 0 <= fold_right Z.add 0 r).
    { clear -Hr. induction r as [|m r IH]; cbn [fold_right]; [lia|].
      inversion Hr; subst. specialize (IH H2). lia. }
    unfold wrap. rewrite Z.mod_small by lia.
    rewrite IH; [unfold zsum; lia|exact Hr|lia|unfold zsum; lia].
Qed.

Lemma sum_lens_chunks {A} w (chunks : list (list A)) :
  total_len chunks < 2 ^ w -> sum_lens w (map (@zlen A) chunks) 0 = total_len chunks.
Proof.
  intros H. rewrite sum_lens_exact.
  - rewrite zsum_map_zlen. lia.
  - apply Forall_forall. intros n Hin. apply in_map_iff in Hin as [c [<- _]]. apply zlen_nonneg.
  - lia.
  - rewrite zsum_map_zlen. lia.
Qed.

(* ------------------------------------------------------------------ elements *)

(** the length [char::len_utf8] announces is the number of bytes [encode_utf8] produces *)
Lemma len_utf8_encode c : zlen (encode_m c) = len_utf8_m c.
Proof.
  unfold encode_m, len_utf8_m.
  destruct (c <=? 127) eqn:E1; destruct (c <? 128) eqn:F1; try lia; [reflexivity|].
  destruct (c <=? 2047) eqn:E2; destruct (c <? 2048) eqn:F2; try lia; [reflexivity|].
  destruct (c <=? 65535) eqn:E3; destruct (c <? 65536) eqn:F3; try lia; reflexivity.
Qed.

Lemma elem_len_bytes e : elem_len e = zlen (elem_bytes e).
Proof. destruct e; cbn [elem_len elem_bytes]; [reflexivity|]. now rewrite len_utf8_encode. Qed.

Lemma map_elem_len es : map elem_len es = map (@zlen Z) (map elem_bytes es).
Proof. rewrite map_map. apply map_ext. apply elem_len_bytes. Qed.

Lemma sep_len_bytes s : sep_len s = zlen (sep_bytes s).
Proof. destruct s; cbn [sep_len sep_bytes]; [now rewrite len_utf8_encode|reflexivity]. Qed.

(** the pieces of a concat argument as byte strings *)
Definition arg_bytes (arg : concat_arg) : list (list Z) := map elem_bytes (arg_elems arg).

(* ------------------------------------------------------------------ str_concat! *)

Lemma concat_sum_lengths_exact w arg :
  total_len (arg_bytes arg) < 2 ^ w -> concat_sum_lengths_m w arg = total_len (arg_bytes arg).
Proof.
  intros H. unfold concat_sum_lengths_m. rewrite map_elem_len. now apply sum_lens_chunks.
Qed.

Lemma concat_fill_chunks es : forall out i,
  concat_fill es out i = fill_chunks (map elem_bytes es) out i.
Proof.
  induction es as [|e es IH]; intros out i; [reflexivity|].
  cbn [concat_fill map fill_chunks]. destruct (write_elems (elem_bytes e) out i) as [[o i']| |]; cbn [bind];
    [apply IH|reflexivity|reflexivity].
Qed.

(** the fill loop on a fresh [[0u8; n]]: it panics iff the pieces do not fit, and otherwise
    writes exactly [total] bytes ([out_i] ends at [total]), the concatenation, in front *)
Lemma concat_fill_spec es n : 0 <= n ->
  concat_fill es (arr_repeat 0 n) 0 =
  let pieces := map elem_bytes es in
  if total_len pieces <=? n
  then Done (flat pieces ++ arr_repeat 0 (n - total_len pieces), total_len pieces)
  else Panic.
Proof. intros Hn. rewrite concat_fill_chunks. now apply fill_chunks_fresh. Qed.

Lemma concat_strs_spec n arg : 0 <= n ->
  concat_strs_m n arg =
  if total_len (arg_bytes arg) <=? n
  then Done (flat (arg_bytes arg) ++ arr_repeat 0 (n - total_len (arg_bytes arg)))
  else Panic.
Proof.
  intros Hn. unfold concat_strs_m. rewrite concat_fill_spec by exact Hn. cbv zeta.
  fold (arg_bytes arg). destruct (total_len (arg_bytes arg) <=? n); reflexivity.
Qed.

Lemma total_len_nonneg {A} (chunks : list (list A)) : 0 <= total_len chunks.
Proof. apply zlen_nonneg. Qed.

Lemma arr_repeat_0 {A} (x : A) : arr_repeat x 0 = [].
Proof. reflexivity. Qed.

(** with N = the computed length the array is exactly the concatenation *)
Lemma concat_strs_exact w arg : total_len (arg_bytes arg) < 2 ^ w ->
  concat_strs_m (concat_sum_lengths_m w arg) arg = Done (flat (arg_bytes arg)).
Proof.
  intros H. rewrite concat_sum_lengths_exact by exact H.
  rewrite concat_strs_spec by apply total_len_nonneg.
  rewrite Z.leb_refl, Z.sub_diag, arr_repeat_0. now rewrite app_nil_r.
Qed.

Lemma str_concat_eq w lit arg :
  total_len (arg_bytes arg) < 2 ^ w ->
  (lit = true -> arg_elems arg = []) ->
  str_concat_m w lit arg = as_str_m (flat (arg_bytes arg)).
Proof.
  intros H Hl. unfold str_concat_m. destruct lit.
  - unfold arg_bytes. rewrite (Hl eq_refl). reflexivity.
  - rewrite concat_strs_exact by exact H. reflexivity.
Qed.

(* ------------------------------------------------------------------ str_join! *)

(** the chunks [join_strs] writes, in order *)
Definition join_chunks (sep : list Z) (slices : list (list Z)) : list (list Z) :=
  match slices with
  | [] => []
  | first :: rem => first :: flat_map (fun s => [sep; s]) rem
  end.

Lemma flat_join_chunks sep slices : flat (join_chunks sep slices) = intercalate sep slices.
Proof.
  destruct slices as [|first rem]; [reflexivity|]. cbn [join_chunks]. rewrite flat_cons.
  revert first. induction rem as [|s rem IH]; intros first.
  - cbn. now rewrite app_nil_r.
  - cbn [flat_map app intercalate]. rewrite !flat_cons. rewrite (IH s). reflexivity.
Qed.

Lemma join_rem_chunks sep rem : forall out i,
  join_rem sep rem out i = fill_chunks (flat_map (fun s => [sep; s]) rem) out i.
Proof.
  induction rem as [|s rem IH]; intros out i; [reflexivity|].
  cbn [join_rem flat_map app fill_chunks].
  destruct (write_elems sep out i) as [[o1 i1]| |]; cbn [bind]; [|reflexivity|reflexivity].
  destruct (write_elems s o1 i1) as [[o2 i2]| |]; cbn [bind]; [apply IH|reflexivity|reflexivity].
Qed.

Lemma join_strs_chunks n sep slices :
  join_strs_m n sep slices =
  bind (fill_chunks (join_chunks (sep_bytes sep) slices) (arr_repeat 0 n) 0) (fun '(o, _) => Done o).
Proof.
  unfold join_strs_m. destruct slices as [|first rem]; [reflexivity|].
  cbn [join_chunks fill_chunks].
  destruct (write_elems first (arr_repeat 0 n) 0) as [[o1 i1]| |]; cbn [bind]; [|reflexivity|reflexivity].
  now rewrite join_rem_chunks.
Qed.

Lemma join_strs_spec n sep slices : 0 <= n ->
  let r := intercalate (sep_bytes sep) slices in
  join_strs_m n sep slices =
  if zlen r <=? n then Done (r ++ arr_repeat 0 (n - zlen r)) else Panic.
Proof.
  intros Hn r. rewrite join_strs_chunks, fill_chunks_fresh by exact Hn.
  unfold total_len. rewrite flat_join_chunks. fold r.
  destruct (zlen r <=? n); reflexivity.
Qed.

Lemma intercalate_len {A} (sep : list A) x rest :
  zlen (intercalate sep (x :: rest)) = total_len (x :: rest) + zlen sep * zlen rest.
Proof.
  unfold total_len. revert x. induction rest as [|y rest IH]; intros x.
  - cbn [intercalate]. rewrite flat_cons. cbn [flat concat]. rewrite app_nil_r, zlen_nil. lia.
  - change (intercalate sep (x :: y :: rest)) with (x ++ sep ++ intercalate sep (y :: rest)).
    rewrite !zlen_app, IH, !flat_cons, !zlen_app, zlen_cons. lia.
Qed.

Lemma join_sum_lengths_exact w sep slices :
  zlen (intercalate (sep_bytes sep) slices) < 2 ^ w ->
  join_sum_lengths_m w sep slices = zlen (intercalate (sep_bytes sep) slices).
Proof.
  destruct slices as [|x rest]; [reflexivity|]. intros H.
  rewrite intercalate_len in H |- *.
  pose proof (total_len_nonneg (x :: rest)) as Ht.
  pose proof (zlen_nonneg (sep_bytes sep)) as Hsp. pose proof (zlen_nonneg rest) as Hr.
  assert (Hm : 0 <= zlen (sep_bytes sep) * zlen rest) by (apply Z.mul_nonneg_nonneg; assumption).
  unfold join_sum_lengths_m.
  assert (Hb : total_len (arg_bytes (AStr (x :: rest))) = total_len (x :: rest)).
  { unfold arg_bytes. cbn [arg_elems]. rewrite map_map. cbn [elem_bytes]. now rewrite map_id. }
  rewrite concat_sum_lengths_exact by (rewrite Hb; lia). rewrite Hb.
  rewrite sep_len_bytes, zlen_cons.
  replace (zlen rest + 1 - 1) with (zlen rest) by lia.
  unfold wrap. rewrite (Z.mod_small (zlen (sep_bytes sep) * zlen rest)) by lia.
  rewrite Z.mod_small by lia. reflexivity.
Qed.

Lemma str_join_eq w lit sep slices :
  zlen (intercalate (sep_bytes sep) slices) < 2 ^ w ->
  (lit = true -> slices = []) ->
  str_join_m w lit sep slices = as_str_m (intercalate (sep_bytes sep) slices).
Proof.
  intros H Hl. unfold str_join_m. destruct lit.
  - rewrite (Hl eq_refl). reflexivity.
  - rewrite join_sum_lengths_exact by exact H.
    pose proof (join_strs_spec (zlen (intercalate (sep_bytes sep) slices)) sep slices (zlen_nonneg _)) as E.
    cbv zeta in E. rewrite E, Z.leb_refl, Z.sub_diag, arr_repeat_0, app_nil_r. reflexivity.
Qed.

(* ------------------------------------------------------------------ string::from_iter! *)

Lemma collect_count_spec w items : forall arr len,
  0 <= len -> len + total_len (map elem_bytes items) < 2 ^ w ->
  collect_loop w false items arr len = Done (arr, len + total_len (map elem_bytes items)).
Proof.
  unfold total_len.
  induction items as [|it items IH]; intros arr len Hl Hb.
  - cbn. now rewrite Z.add_0_r.
  - cbn [collect_loop bind map] in *. rewrite flat_cons, zlen_app in *.
    pose proof (zlen_nonneg (elem_bytes it)). pose proof (zlen_nonneg (flat (map elem_bytes items))).
    rewrite elem_len_bytes. unfold wrap. rewrite Z.mod_small by lia.
    rewrite IH by lia. f_equal. f_equal. lia.
Qed.

Lemma collect_build_loop_spec w items : forall a zs,
  zlen a + total_len (map elem_bytes items) < 2 ^ w ->
  collect_loop w true items (map (@Some Z) a ++ zs) (zlen a) =
  let pieces := map elem_bytes items in
  if total_len pieces <=? zlen zs
  then Done (map (@Some Z) (a ++ flat pieces) ++ skipn (length (flat pieces)) zs, zlen a + total_len pieces)
  else Panic.
Proof.
  unfold total_len. cbv zeta.
  induction items as [|it items IH]; intros a zs Hb.
  - cbn [collect_loop map flat concat length skipn]. rewrite zlen_nil, app_nil_r, Z.add_0_r.
    pose proof (zlen_nonneg zs). destruct (0 <=? zlen zs) eqn:E; [reflexivity|lia].
  - cbn [collect_loop map] in *. rewrite flat_cons, zlen_app in *.
    pose proof (zlen_nonneg (elem_bytes it)) as H1.
    pose proof (zlen_nonneg (flat (map elem_bytes items))) as H2. pose proof (zlen_nonneg a) as H3.
    unfold write_cells.
    replace (zlen a) with (zlen (map (@Some Z) a)) at 1 by apply zlen_map.
    rewrite write_elems_spec, !zlen_map.
    destruct (zlen (elem_bytes it) <=? zlen zs) eqn:E1.
    + cbn [bind]. rewrite app_assoc, <- map_app, map_length.
      rewrite elem_len_bytes. unfold wrap. rewrite Z.mod_small by lia.
      replace (zlen a + zlen (elem_bytes it)) with (zlen (a ++ elem_bytes it)) by (rewrite zlen_app; lia).
      rewrite IH by (rewrite zlen_app; lia).
      assert (Hs : zlen (skipn (length (elem_bytes it)) zs) = zlen zs - zlen (elem_bytes it)).
      { unfold zlen in *. rewrite skipn_length. lia. }
      rewrite Hs.
      destruct (zlen (flat (map elem_bytes items)) <=? zlen zs - zlen (elem_bytes it)) eqn:E2;
        destruct (zlen (elem_bytes it) + zlen (flat (map elem_bytes items)) <=? zlen zs) eqn:E3; try lia.
      * rewrite skipn_skipn, app_length, zlen_app, <- !app_assoc.
        do 2 f_equal. lia.
      * reflexivity.
    + cbn [bind].
      destruct (zlen (elem_bytes it) + zlen (flat (map elem_bytes items)) <=? zlen zs) eqn:E3; [lia|reflexivity].
Qed.

Lemma assume_init_map l : assume_init (map (@Some Z) l) = Done l.
Proof. induction l as [|b l IH]; [reflexivity|]. cbn [map assume_init]. now rewrite IH. Qed.

Lemma collect_count_exact w items :
  total_len (map elem_bytes items) < 2 ^ w ->
  collect_count_m w items = Done (total_len (map elem_bytes items)).
Proof.
  intros H. unfold collect_count_m. rewrite collect_count_spec by lia. reflexivity.
Qed.

(** BuildArray with capacity [cap]: anything but the exact total panics
    (index out of bounds, or "initialization was skipped somehow") *)
Lemma collect_build_spec w cap items : 0 <= cap ->
  total_len (map elem_bytes items) < 2 ^ w ->
  collect_build_m w cap items =
  if total_len (map elem_bytes items) =? cap then Done (flat (map elem_bytes items)) else Panic.
Proof.
  intros Hc H. unfold collect_build_m.
  pose proof (collect_build_loop_spec w items [] (arr_repeat None cap)) as E.
  cbn [map app] in E. rewrite zlen_nil in E. rewrite E by lia. clear E. cbv zeta.
  rewrite zlen_arr_repeat by exact Hc.
  pose proof (total_len_nonneg (map elem_bytes items)) as Hn.
  destruct (total_len (map elem_bytes items) <=? cap) eqn:E1.
  - cbn [bind]. rewrite Z.add_0_l.
    destruct (total_len (map elem_bytes items) =? cap) eqn:E2; [|reflexivity].
    assert (Hsk : skipn (length (flat (map elem_bytes items))) (arr_repeat (@None Z) cap) = []).
    { apply skipn_all2. unfold arr_repeat. rewrite repeat_length. unfold total_len, zlen in *. lia. }
    rewrite Hsk, app_nil_r. apply assume_init_map.
  - cbn [bind]. destruct (total_len (map elem_bytes items) =? cap) eqn:E2; [lia|reflexivity].
Qed.

Lemma from_iter_eq w items :
  total_len (map elem_bytes items) < 2 ^ w ->
  from_iter_m w items = as_str_m (flat (map elem_bytes items)).
Proof.
  intros H. unfold from_iter_m. rewrite collect_count_exact by exact H. cbn [bind].
  rewrite collect_build_spec by (try apply total_len_nonneg; exact H).
  rewrite Z.eqb_refl. reflexivity.
Qed.

(* ------------------------------------------------------------------ slice_concat! *)

Section SliceConcatProofs.
  Context {A : Type}.

  Lemma slices_fill_chunks (slices : list (list A)) : forall out i,
    slices_fill slices out i = fill_chunks slices out i.
  Proof.
    induction slices as [|s r IH]; intros out i; [reflexivity|].
    cbn [slices_fill fill_chunks]. destruct (write_elems s out i) as [[o i']| |]; cbn [bind];
      [apply IH|reflexivity|reflexivity].
  Qed.

  (** [first_elem] finds the head of the concatenation, and panics only when there is none *)
  Lemma first_elem_spec (slices : list (list A)) :
    first_elem_m slices = match flat slices with x :: _ => Done x | [] => Panic end.
  Proof.
    induction slices as [|s r IH]; [reflexivity|].
    cbn [first_elem_m]. rewrite flat_cons. destruct s as [|x s]; [exact IH|reflexivity].
  Qed.

  (** the [N = 0] early return: no element is needed *)
  Lemma concat_slices_zero (slices : list (list A)) : concat_slices_m 0 slices = Done [].
  Proof. reflexivity. Qed.

  Lemma concat_slices_spec n (slices : list (list A)) : 0 <= n ->
    concat_slices_m n slices =
    if n =? 0 then Done []
    else match flat slices with
         | [] => Panic
         | first :: _ =>
             if total_len slices <=? n
             then Done (flat slices ++ arr_repeat first (n - total_len slices))
             else Panic
         end.
  Proof.
    intros Hn. unfold concat_slices_m. rewrite (Z.eqb_sym 0 n).
    destruct (n =? 0); [reflexivity|].
    rewrite first_elem_spec. destruct (flat slices) as [|first rest] eqn:Ef; [reflexivity|].
    cbn [bind]. rewrite slices_fill_chunks, fill_chunks_fresh by exact Hn. rewrite Ef.
    destruct (total_len slices <=? n); reflexivity.
  Qed.

  Lemma slice_concat_eq w (slices : list (list A)) :
    total_len slices < 2 ^ w -> slice_concat_m w slices = Done (flat slices).
  Proof.
    intros H. unfold slice_concat_m, slice_sum_lengths_m. rewrite sum_lens_chunks by exact H.
    rewrite concat_slices_spec by apply total_len_nonneg.
    destruct (total_len slices =? 0) eqn:E0.
    - apply Z.eqb_eq in E0. unfold total_len in E0. now rewrite (zlen_0_nil _ E0).
    - destruct (flat slices) as [|first rest] eqn:Ef.
      + unfold total_len in E0. rewrite Ef, zlen_nil in E0. discriminate.
      + rewrite Z.leb_refl, Z.sub_diag, arr_repeat_0, app_nil_r. reflexivity.
  Qed.
End SliceConcatProofs.

(* ------------------------------------------------------------------ UTF-8 re-validation *)

(** a well-formed string followed by anything is judged like the rest alone *)
Lemma utf8_ok_app_aux n : forall a b,
  (length a <= n)%nat -> utf8_ok a = true -> utf8_ok (a ++ b) = utf8_ok b.
Proof.
  induction n as [|n IH]; intros a b Hl Ha.
  - destruct a; [reflexivity|cbn [length] in Hl; lia].
  - destruct a as [|b0 r0]; [reflexivity|].
    cbn [length] in Hl. cbn [app]. cbn [utf8_ok] in Ha |- *.
    destruct (in_rng 0 127 b0). { apply IH; [lia|exact Ha]. }
    destruct r0 as [|b1 r1]; [discriminate|]. cbn [length] in Hl. cbn [app].
    destruct (in_rng 194 223 b0).
    { apply andb_true_iff in Ha as [H1 H2]. rewrite H1. cbn [andb]. apply IH; [lia|exact H2]. }
    destruct r1 as [|b2 r2]; [discriminate|]. cbn [length] in Hl. cbn [app].
    destruct (in_rng 224 239 b0).
    { apply andb_true_iff in Ha as [H1 H2]. rewrite H1. cbn [andb]. apply IH; [lia|exact H2]. }
    destruct r2 as [|b3 r3]; [discriminate|]. cbn [length] in Hl. cbn [app].
    destruct (in_rng 240 244 b0); [|discriminate].
    apply andb_true_iff in Ha as [H1 H2]. rewrite H1. cbn [andb]. apply IH; [lia|exact H2].
Qed.

Lemma utf8_ok_app a b : utf8_ok a = true -> utf8_ok (a ++ b) = utf8_ok b.
Proof. apply (utf8_ok_app_aux (length a)). lia. Qed.

Lemma utf8_ok_flat ss : Forall (fun s => utf8_ok s = true) ss -> utf8_ok (flat ss) = true.
Proof.
  induction 1 as [|s r Hs Hr IH]; [reflexivity|].
  rewrite flat_cons, utf8_ok_app by exact Hs. exact IH.
Qed.

Lemma utf8_ok_intercalate sep ss :
  utf8_ok sep = true -> Forall (fun s => utf8_ok s = true) ss -> utf8_ok (intercalate sep ss) = true.
Proof.
  intros Hsep. induction 1 as [|s r Hs Hr IH]; [reflexivity|].
  destruct r as [|s' r]; [exact Hs|].
  change (intercalate sep (s :: s' :: r)) with (s ++ sep ++ intercalate sep (s' :: r)).
  rewrite utf8_ok_app by exact Hs. rewrite utf8_ok_app by exact Hsep. exact IH.
Qed.

Lemma arg_bytes_str ss : arg_bytes (AStr ss) = ss.
Proof. unfold arg_bytes. cbn [arg_elems]. rewrite map_map. cbn [elem_bytes]. apply map_id. Qed.

Lemma str_concat_strs_total w ss :
  Forall (fun s => utf8_ok s = true) ss -> total_len ss < 2 ^ w ->
  str_concat_m w false (AStr ss) = Done (flat ss).
Proof.
  intros Hu Hb. rewrite str_concat_eq; rewrite ?arg_bytes_str; [|exact Hb|discriminate].
  unfold as_str_m. now rewrite utf8_ok_flat.
Qed.

Lemma str_join_strs_total w sep ss :
  utf8_ok sep = true -> Forall (fun s => utf8_ok s = true) ss ->
  zlen (intercalate sep ss) < 2 ^ w ->
  str_join_m w false (SStr sep) ss = Done (intercalate sep ss).
Proof.
  intros Hsep Hu Hb. rewrite str_join_eq; cbn [sep_bytes]; [|exact Hb|discriminate].
  unfold as_str_m. now rewrite utf8_ok_intercalate.
Qed.

Lemma str_join_nil w lit sep : str_join_m w lit sep [] = Done [].
Proof. destruct lit; reflexivity. Qed.

Lemma concat_example :
  str_join_m 64 false (SChar 233) [[97]; []; [240; 159; 167; 160; 120]]
  = Done [97; 195; 169; 195; 169; 240; 159; 167; 160; 120].
Proof. vm_compute. reflexivity. Qed.
