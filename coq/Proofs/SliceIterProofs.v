(** Proofs for C08: every slice iterator of the model refines the deque of items its std
    counterpart yields, for every slice length, every size >= 1 and every interleaving of
    front and back calls; no call panics; [rev] swaps the ends; [copy] is a value copy;
    the remainder never changes. *)
From KV Require Import Base.Prelude Base.Deque Model.SliceIter Spec.SliceIter.

(* ------------------------------------------------------------------------------------ *)
(** * [ziota] *)

Lemma ziota_nonpos k : k <= 0 -> ziota k = [].
Proof. intro H. unfold ziota. replace (Z.to_nat k) with O by lia. reflexivity. Qed.

Lemma seq_shift_Z (len : nat) : forall start,
  map Z.of_nat (seq (S start) len) = map (fun i => i + 1) (map Z.of_nat (seq start len)).
Proof.
  induction len as [|len IH]; intro start; [reflexivity|].
  cbn [seq map]. f_equal; [lia | apply IH].
Qed.

Lemma ziota_front k : 0 < k -> ziota k = 0 :: map (fun i => i + 1) (ziota (k - 1)).
Proof.
  intro H. unfold ziota. replace (Z.to_nat k) with (S (Z.to_nat (k - 1))) by lia.
  cbn [seq map]. f_equal. apply seq_shift_Z.
Qed.

Lemma ziota_back k : 0 < k -> ziota k = ziota (k - 1) ++ [k - 1].
Proof.
  intro H. unfold ziota. replace (Z.to_nat k) with (Z.to_nat (k - 1) + 1)%nat by lia.
  rewrite seq_app, map_app. cbn [seq map]. do 2 f_equal. lia.
Qed.

Lemma In_ziota i k : In i (ziota k) <-> 0 <= i < k.
Proof.
  unfold ziota. rewrite in_map_iff. split.
  - intros [j [E Hj]]. apply in_seq in Hj. lia.
  - intro H. exists (Z.to_nat i). split; [lia | apply in_seq; lia].
Qed.

Lemma map_ziota_eq {B} (f g : Z -> B) k k' :
  k = k' -> (forall i, 0 <= i < k -> f i = g i) -> map f (ziota k) = map g (ziota k').
Proof. intros <- H. apply map_ext_in. intros i Hi. apply H. now apply In_ziota. Qed.

Lemma map_ziota_front {B} (f : Z -> B) k :
  0 < k -> map f (ziota k) = f 0 :: map (fun i => f (i + 1)) (ziota (k - 1)).
Proof. intro H. rewrite (ziota_front k H). cbn [map]. now rewrite map_map. Qed.

Lemma map_ziota_back {B} (f : Z -> B) k :
  0 < k -> map f (ziota k) = map f (ziota (k - 1)) ++ [f (k - 1)].
Proof. intro H. rewrite (ziota_back k H) at 1. now rewrite map_app. Qed.

Lemma map_ziota_nil {B} (f : Z -> B) k : k <= 0 -> map f (ziota k) = [].
Proof. intro H. now rewrite ziota_nonpos. Qed.

Lemma length_ziota k : 0 <= k -> zlen (ziota k) = k.
Proof. intro H. unfold zlen, ziota. rewrite map_length, seq_length. lia. Qed.

(* ------------------------------------------------------------------------------------ *)
(** * deques *)

Lemma deque_run_rev {A} : forall h (l : list A),
  deque_run h (rev l) = deque_run (map swap_end h) l.
Proof.
  induction h as [|e h IH]; intro l; [reflexivity|].
  destruct e; cbn [map swap_end deque_run].
  - unfold pop_back. destruct (rev l) as [|x r] eqn:E.
    + rewrite <- E. now rewrite IH.
    + f_equal. rewrite <- (rev_involutive r) at 1. apply IH.
  - unfold pop_back. rewrite rev_involutive. destruct l as [|x r].
    + f_equal. apply (IH []).
    + f_equal. apply IH.
Qed.

Lemma swap_end_involutive h : map swap_end (map swap_end h) = h.
Proof. induction h as [|[|] h IH]; cbn; now rewrite ?IH. Qed.

(* ------------------------------------------------------------------------------------ *)
(** * iterator_shared!: from the two blocks to the forward and the reversed iterator *)

Definition step_opt {I S} (s : step I S) : option (I * S) :=
  match s with Yield x s' => Some (x, s') | _ => None end.

Lemma it_copy_id {C} (it : iter C) : it_copy it = it.
Proof. now destruct it. Qed.
Lemma it_rev_rev {C} (it : iter C) : it_rev (it_rev it) = it.
Proof. destruct it as [f c]. unfold it_rev. cbn. now rewrite negb_involutive. Qed.

Section SharedProofs.
  Variables C I : Type.
  Variable nb bb : C -> step I C.
  (** the items a state has not yielded yet, in [next_block] order; the states the two
      facts are claimed for *)
  Variable cabs : C -> list I.
  Variable cinv : C -> Prop.
  Hypothesis nb_ok : forall c, cinv c ->
    match nb c with
    | Stop => cabs c = []
    | Yield x c' => cabs c = x :: cabs c' /\ cinv c'
    | Panic => False
    end.
  Hypothesis bb_ok : forall c, cinv c ->
    match bb c with
    | Stop => cabs c = []
    | Yield x c' => cabs c = cabs c' ++ [x] /\ cinv c'
    | Panic => False
    end.

  Definition it_abs (it : iter C) : list I :=
    if is_forward it then cabs (core it) else rev (cabs (core it)).
  Definition it_inv (it : iter C) : Prop := cinv (core it).

  Lemma it_next_ok it : it_inv it ->
    match it_next nb bb it with
    | Stop => it_abs it = []
    | Yield x it' => it_abs it = x :: it_abs it' /\ it_inv it'
    | Panic => False
    end.
  Proof.
    destruct it as [[|] c]; unfold it_inv, it_abs, it_next; cbn [is_forward core]; intro Hc.
    - pose proof (nb_ok c Hc) as H. destruct (nb c); cbn [lift is_forward core]; auto.
    - pose proof (bb_ok c Hc) as H. destruct (bb c); cbn [lift is_forward core].
      + now rewrite H.
      + destruct H as [E Hi]. split; [|exact Hi]. rewrite E, rev_app_distr. reflexivity.
      + exact H.
  Qed.

  Lemma it_next_back_ok it : it_inv it ->
    match it_next_back nb bb it with
    | Stop => it_abs it = []
    | Yield x it' => it_abs it = it_abs it' ++ [x] /\ it_inv it'
    | Panic => False
    end.
  Proof.
    destruct it as [[|] c]; unfold it_inv, it_abs, it_next_back; cbn [is_forward core]; intro Hc.
    - pose proof (bb_ok c Hc) as H. destruct (bb c); cbn [lift is_forward core]; auto.
    - pose proof (nb_ok c Hc) as H. destruct (nb c); cbn [lift is_forward core].
      + now rewrite H.
      + destruct H as [E Hi]. split; [|exact Hi]. rewrite E. reflexivity.
      + exact H.
  Qed.

  Definition nexto (it : iter C) := step_opt (it_next nb bb it).
  Definition backo (it : iter C) := step_opt (it_next_back nb bb it).

  Lemma nexto_ok it : it_inv it ->
    match nexto it with
    | None => it_abs it = []
    | Some (x, it') => it_abs it = x :: it_abs it' /\ it_inv it'
    end.
  Proof.
    intro Hi. pose proof (it_next_ok it Hi) as H. unfold nexto.
    destruct (it_next nb bb it); cbn [step_opt]; auto. contradiction.
  Qed.
  Lemma backo_ok it : it_inv it ->
    match backo it with
    | None => it_abs it = []
    | Some (x, it') => it_abs it = it_abs it' ++ [x] /\ it_inv it'
    end.
  Proof.
    intro Hi. pose proof (it_next_back_ok it Hi) as H. unfold backo.
    destruct (it_next_back nb bb it); cbn [step_opt]; auto. contradiction.
  Qed.

  (** the model's run never panics and is the generic run of Base/Deque.v *)
  Lemma run_m_is_run : forall h it, it_inv it ->
    run_m nb bb h it = Some (run (iter C) I nexto backo h it).
  Proof.
    induction h as [|e h IH]; intros it Hi; [reflexivity|].
    cbn [run_m run]. rewrite it_copy_id. unfold nexto, backo.
    destruct e; cbn [it_step].
    - pose proof (it_next_ok it Hi) as H.
      destruct (it_next nb bb it) as [|x it'|]; cbn [step_opt].
      + now rewrite IH.
      + destruct H as [_ Hi']. now rewrite IH.
      + contradiction.
    - pose proof (it_next_back_ok it Hi) as H.
      destruct (it_next_back nb bb it) as [|x it'|]; cbn [step_opt].
      + now rewrite IH.
      + destruct H as [_ Hi']. now rewrite IH.
      + contradiction.
  Qed.

  (** EVERY interleaving of front and back calls: same items, same order, ends at the
      same call, no panic *)
  Theorem run_m_refines : forall h it, it_inv it ->
    run_m nb bb h it = Some (deque_run h (it_abs it)).
  Proof.
    intros h it Hi. rewrite run_m_is_run by exact Hi. f_equal.
    apply (run_refines (iter C) I nexto backo it_abs it_inv nexto_ok backo_ok h it Hi).
  Qed.

  (** the iterator held after a history still satisfies the invariant and has exactly the
      rest of the deque ahead of it *)
  Theorem final_m_refines : forall h it, it_inv it ->
    exists it', final_m nb bb h it = Some it' /\ it_inv it' /\
                it_abs it' = deque_rest h (it_abs it) /\ is_forward it' = is_forward it.
  Proof.
    induction h as [|e h IH]; intros it Hi.
    - exists it. cbn. auto.
    - cbn [final_m deque_rest]. rewrite it_copy_id. destruct e; cbn [it_step].
      + pose proof (it_next_ok it Hi) as H.
        destruct (it_next nb bb it) as [|x it'|] eqn:E.
        * rewrite H. rewrite <- H. now apply IH.
        * destruct H as [Ea Hi']. rewrite Ea.
          destruct (IH it' Hi') as [it2 [F [I2 [A2 D2]]]]. exists it2. repeat split; auto.
          rewrite D2. unfold it_next in E. destruct it as [f c]. cbn [is_forward core] in *.
          destruct (if f then nb c else bb c); cbn [lift] in E; inversion E; reflexivity.
        * contradiction.
      + pose proof (it_next_back_ok it Hi) as H.
        destruct (it_next_back nb bb it) as [|x it'|] eqn:E.
        * rewrite H, pop_back_nil. rewrite <- H. now apply IH.
        * destruct H as [Ea Hi']. rewrite Ea, pop_back_app.
          destruct (IH it' Hi') as [it2 [F [I2 [A2 D2]]]]. exists it2. repeat split; auto.
          rewrite D2. unfold it_next_back in E. destruct it as [f c]. cbn [is_forward core] in *.
          destruct (if f then bb c else nb c); cbn [lift] in E; inversion E; reflexivity.
        * contradiction.
  Qed.

  Lemma it_abs_rev it : it_abs (it_rev it) = rev (it_abs it).
  Proof.
    destruct it as [[|] c]; unfold it_abs, it_rev; cbn [is_forward core negb]; [reflexivity|].
    now rewrite rev_involutive.
  Qed.
  Lemma it_inv_rev it : it_inv (it_rev it) <-> it_inv it.
  Proof. destruct it; unfold it_inv, it_rev; cbn. tauto. Qed.

  (** reversing swaps the two ends: [next] of the reversed iterator is [next_back] of
      the original, for whole histories *)
  Theorem rev_swaps_ends : forall h it, it_inv it ->
    run_m nb bb h (it_rev it) = run_m nb bb (map swap_end h) it.
  Proof.
    intros h it Hi. rewrite (run_m_refines h (it_rev it)) by now apply it_inv_rev.
    rewrite (run_m_refines _ it Hi), it_abs_rev. f_equal. apply deque_run_rev.
  Qed.

  (** a field that neither block changes is the same after every history *)
  Section Preserved.
    Variable R : Type.
    Variable g : C -> R.
    Hypothesis nb_pres : forall c x c', nb c = Yield x c' -> g c' = g c.
    Hypothesis bb_pres : forall c x c', bb c = Yield x c' -> g c' = g c.

    Lemma step_pres e it x it' : it_step nb bb e it = Yield x it' -> g (core it') = g (core it).
    Proof.
      destruct it as [f c]. unfold it_step, it_next, it_next_back. cbn [is_forward core].
      intro E.
      assert (H : forall s, lift C I f s = Yield x it' -> exists c', s = Yield x c' /\ it' = mk_iter f c').
      { intros [|y c1|]; cbn [lift]; intro E1; inversion E1; eauto. }
      destruct e, f; apply H in E; destruct E as [c' [E ->]]; cbn [core]; eauto.
    Qed.

    Theorem final_m_preserves : forall h it it',
      final_m nb bb h it = Some it' -> g (core it') = g (core it).
    Proof.
      induction h as [|e h IH]; intros it it' F.
      - cbn in F. now inversion F.
      - cbn [final_m] in F. rewrite it_copy_id in F.
        destruct (it_step nb bb e it) as [|x it1|] eqn:E.
        + now apply IH.
        + rewrite (IH it1 it' F). eapply step_pres; eauto.
        + discriminate.
    Qed.
  End Preserved.
  (** both directions at once, from a core state *)
  Lemma both_refine h c : cinv c ->
    run_m nb bb h (fwd c) = Some (deque_run h (cabs c)) /\
    run_m nb bb h (it_rev (fwd c)) = Some (deque_run h (rev (cabs c))).
  Proof.
    intro Hc. split.
    - now rewrite (run_m_refines h (fwd c)) by exact Hc.
    - now rewrite (run_m_refines h (it_rev (fwd c))) by exact Hc.
  Qed.
End SharedProofs.

(* ------------------------------------------------------------------------------------ *)
(** * arithmetic of the split points *)

Ltac zcase :=
  repeat match goal with
  | |- context [if ?a <? ?b then _ else _] => destruct (Z.ltb_spec a b)
  | |- context [if ?a <=? ?b then _ else _] => destruct (Z.leb_spec a b)
  | |- context [if ?a =? ?b then _ else _] => destruct (Z.eqb_spec a b)
  end.

Lemma cnt_pos n l : 1 <= n -> 0 < l -> chunks_count n l = (l - 1) / n + 1.
Proof.
  intros Hn Hl. unfold chunks_count. replace (l + n - 1) with ((l - 1) + 1 * n) by lia.
  rewrite Z.div_add by lia. reflexivity.
Qed.
Lemma cnt_mul n q : 1 <= n -> chunks_count n (q * n) = q.
Proof.
  intros Hn. unfold chunks_count. replace (q * n + n - 1) with ((n - 1) + q * n) by lia.
  rewrite Z.div_add by lia. rewrite Z.div_small by lia. lia.
Qed.
Lemma cnt_zero n : 1 <= n -> chunks_count n 0 = 0.
Proof. intro Hn. apply (cnt_mul n 0 Hn). Qed.
Lemma cnt_sub n l : 1 <= n -> chunks_count n (l - n) = chunks_count n l - 1.
Proof.
  intros Hn. unfold chunks_count. replace (l - n + n - 1) with ((l + n - 1) + (-1) * n) by lia.
  rewrite Z.div_add by lia. lia.
Qed.
Lemma cnt_small n l : 1 <= n -> 0 < l <= n -> chunks_count n l = 1.
Proof. intros Hn Hl. rewrite cnt_pos by lia. rewrite Z.div_small by lia. reflexivity. Qed.
Lemma cnt_nonneg n l : 1 <= n -> 0 <= l -> 0 <= chunks_count n l.
Proof. intros. unfold chunks_count. apply Z.div_pos; lia. Qed.

(** q = (l-1)/n is the index of the last chunk: q*n < l <= q*n + n *)
Lemma last_chunk_bounds n l : 1 <= n -> 0 < l ->
  0 <= (l - 1) / n /\ (l - 1) / n * n < l /\ l <= (l - 1) / n * n + n.
Proof.
  intros Hn Hl. pose proof (Z.div_mod (l - 1) n ltac:(lia)) as E.
  pose proof (Z.mod_pos_bound (l - 1) n ltac:(lia)) as B.
  assert (0 <= (l - 1) / n) by (apply Z.div_pos; lia).
  rewrite (Z.mul_comm n) in E. lia.
Qed.

Lemma mul_step n i q : 0 <= n -> i + 1 <= q -> i * n + n <= q * n.
Proof. intros Hn H. replace (i * n + n) with ((i + 1) * n) by lia. apply Z.mul_le_mono_nonneg_r; lia. Qed.

(** every step of a division by n *)
Lemma div_exact_sub n l : 1 <= n -> (l - n) / n = l / n - 1.
Proof. intro Hn. replace (l - n) with (l + (-1) * n) by lia. rewrite Z.div_add by lia. lia. Qed.
Lemma mod_exact_sub n l : 1 <= n -> (l - n) mod n = l mod n.
Proof. intro Hn. replace (l - n) with (l + (-1) * n) by lia. now rewrite Z.mod_add by lia. Qed.
Lemma exact_len n l : 1 <= n -> l mod n = 0 -> l = l / n * n.
Proof. intros Hn Hm. pose proof (Z.div_mod l n ltac:(lia)) as E. rewrite (Z.mul_comm n) in E. lia. Qed.
Lemma exact_ge n l : 1 <= n -> 0 <= l -> l mod n = 0 -> l <> 0 -> n <= l /\ 1 <= l / n.
Proof.
  intros Hn Hl Hm Hz. pose proof (exact_len n l Hn Hm) as E.
  assert (0 <= l / n) by (apply Z.div_pos; lia).
  assert (l / n <> 0) by (intro Z0; rewrite Z0 in E; lia).
  split; [|lia]. rewrite E. replace n with (1 * n) at 1 by lia. apply Z.mul_le_mono_nonneg_r; lia.
Qed.

(* ------------------------------------------------------------------------------------ *)
(** * Iter / IterRev *)

Definition iter_abs (s : view) : list Z := view_indices s.
Definition iter_inv (_ : view) : Prop := True.

Lemma iter_next_ok s : iter_inv s ->
  match iter_next s with
  | Stop => iter_abs s = []
  | Yield x s' => iter_abs s = x :: iter_abs s' /\ iter_inv s'
  | Panic => False
  end.
Proof.
  intros _. destruct s as [o l]. unfold iter_next, iter_abs, view_indices, iter_inv. cbn [voff vlen].
  zcase.
  - apply map_ziota_nil; lia.
  - split; [|exact Logic.I]. rewrite map_ziota_front by lia. cbn [voff vlen]. f_equal; [lia|].
    apply map_ziota_eq; [reflexivity | intros; lia].
Qed.
Lemma iter_next_back_ok s : iter_inv s ->
  match iter_next_back s with
  | Stop => iter_abs s = []
  | Yield x s' => iter_abs s = iter_abs s' ++ [x] /\ iter_inv s'
  | Panic => False
  end.
Proof.
  intros _. destruct s as [o l]. unfold iter_next_back, iter_abs, view_indices, iter_inv. cbn [voff vlen].
  zcase.
  - apply map_ziota_nil; lia.
  - split; [|exact Logic.I]. rewrite map_ziota_back by lia. cbn [voff vlen]. f_equal. f_equal. lia.
Qed.
Lemma iter_abs_new len : iter_abs (iter_new len) = iter_spec len.
Proof.
  unfold iter_abs, view_indices, iter_new, iter_spec. cbn [voff vlen].
  rewrite <- (map_id (ziota len)) at 2. apply map_ziota_eq; [reflexivity | intros; lia].
Qed.

Theorem iter_refines len h :
  run_m iter_next iter_next_back h (fwd (iter_new len)) = Some (deque_run h (iter_spec len)).
Proof.
  rewrite (run_m_refines _ _ _ _ iter_abs iter_inv iter_next_ok iter_next_back_ok) by exact Logic.I.
  unfold it_abs, fwd. cbn [is_forward core]. now rewrite iter_abs_new.
Qed.
Theorem iter_rev_refines len h :
  run_m iter_next iter_next_back h (it_rev (fwd (iter_new len))) = Some (deque_run h (rev (iter_spec len))).
Proof.
  rewrite (run_m_refines _ _ _ _ iter_abs iter_inv iter_next_ok iter_next_back_ok) by exact Logic.I.
  unfold it_abs, fwd, it_rev. cbn [is_forward core negb]. now rewrite iter_abs_new.
Qed.
(** as_slice() after any history covers exactly the elements not yet yielded *)
Theorem iter_as_slice_rest len h :
  exists it', final_m iter_next iter_next_back h (fwd (iter_new len)) = Some it' /\
              view_indices (iter_as_slice (core it')) = deque_rest h (iter_spec len).
Proof.
  destruct (final_m_refines _ _ _ _ iter_abs iter_inv iter_next_ok iter_next_back_ok h (fwd (iter_new len)) Logic.I)
    as [it' [F [_ [A D]]]].
  exists it'. split; [exact F|]. unfold it_abs in A. rewrite D in A. cbn [fwd is_forward core] in A.
  rewrite iter_abs_new in A. exact A.
Qed.
Theorem iter_rev_as_slice_rest len h :
  exists it', final_m iter_next iter_next_back h (it_rev (fwd (iter_new len))) = Some it' /\
              rev (view_indices (iter_as_slice (core it'))) = deque_rest h (rev (iter_spec len)).
Proof.
  destruct (final_m_refines _ _ _ _ iter_abs iter_inv iter_next_ok iter_next_back_ok h (it_rev (fwd (iter_new len))) Logic.I)
    as [it' [F [_ [A D]]]].
  exists it'. split; [exact F|]. unfold it_abs in A. rewrite D in A. cbn [fwd it_rev is_forward core negb] in A.
  rewrite iter_abs_new in A. exact A.
Qed.

(* ------------------------------------------------------------------------------------ *)
(** * IterCopied / IterCopiedRev (element type abstract) *)

Section CopiedProofs.
  Variable A : Type.
  Variable l : list A.

  Definition copied_abs (s : cslice A) : list A := c_elems s.
  (** the view [as_slice()] reports covers exactly the remaining elements of [l] *)
  Definition copied_inv (s : cslice A) : Prop :=
    exists pre post, l = pre ++ c_elems s ++ post /\
                     voff (c_view s) = zlen pre /\ vlen (c_view s) = zlen (c_elems s).

  Lemma copied_next_ok s : copied_inv s ->
    match copied_next s with
    | Stop => copied_abs s = []
    | Yield x s' => copied_abs s = x :: copied_abs s' /\ copied_inv s'
    | Panic => False
    end.
  Proof.
    destruct s as [[o n] es]. unfold copied_next, copied_abs, copied_inv. cbn [c_elems c_view voff vlen].
    intros [pre [post [E [Ho Hn]]]]. destruct es as [|x r]; [reflexivity|].
    split; [reflexivity|]. exists (pre ++ [x]), post. cbn [c_elems c_view voff vlen].
    rewrite zlen_app, zlen_cons, zlen_nil. rewrite zlen_cons in Hn.
    repeat split; try lia. rewrite <- app_assoc. exact E.
  Qed.

  Lemma copied_next_back_ok s : copied_inv s ->
    match copied_next_back s with
    | Stop => copied_abs s = []
    | Yield x s' => copied_abs s = copied_abs s' ++ [x] /\ copied_inv s'
    | Panic => False
    end.
  Proof.
    destruct s as [[o n] es]. unfold copied_next_back, copied_abs, copied_inv. cbn [c_elems c_view voff vlen].
    intros [pre [post [E [Ho Hn]]]]. destruct (rev es) as [|x r] eqn:R.
    - rewrite <- (rev_involutive es), R. reflexivity.
    - assert (Es : es = rev r ++ [x]) by (rewrite <- (rev_involutive es), R; reflexivity).
      split; [exact Es|]. exists pre, (x :: post). cbn [c_elems c_view voff vlen].
      rewrite Es, zlen_app, zlen_cons, zlen_nil in Hn.
      repeat split; try lia. rewrite E, Es, <- app_assoc. reflexivity.
  Qed.

  Lemma copied_inv_new : copied_inv (copied_new l).
  Proof.
    exists [], []. unfold copied_new. cbn [c_elems c_view voff vlen app].
    split; [symmetry; apply app_nil_r | split; reflexivity].
  Qed.

  Theorem copied_refines h :
    run_m copied_next copied_next_back h (fwd (copied_new l)) = Some (deque_run h l).
  Proof.
    now rewrite (run_m_refines _ _ _ _ copied_abs copied_inv copied_next_ok copied_next_back_ok)
      by exact copied_inv_new.
  Qed.
  Theorem copied_rev_refines h :
    run_m copied_next copied_next_back h (it_rev (fwd (copied_new l))) = Some (deque_run h (rev l)).
  Proof.
    now rewrite (run_m_refines _ _ _ _ copied_abs copied_inv copied_next_ok copied_next_back_ok)
      by exact copied_inv_new.
  Qed.

  Lemma copied_inv_sub s : copied_inv s -> sub l (copied_as_slice s) = c_elems s.
  Proof.
    intros [pre [post [E [Ho Hn]]]]. unfold sub, copied_as_slice. rewrite Ho, Hn, E. unfold zlen.
    rewrite !Nat2Z.id. rewrite skipn_app, skipn_all, Nat.sub_diag. cbn [skipn app].
    rewrite firstn_app, firstn_all, Nat.sub_diag. cbn [firstn]. now rewrite app_nil_r.
  Qed.

  (** as_slice() after any history is exactly the part of the slice not yet yielded *)
  Theorem copied_as_slice_rest h :
    exists it', final_m copied_next copied_next_back h (fwd (copied_new l)) = Some it' /\
                sub l (copied_as_slice (core it')) = deque_rest h l.
  Proof.
    destruct (final_m_refines _ _ _ _ copied_abs copied_inv copied_next_ok copied_next_back_ok h
                (fwd (copied_new l)) copied_inv_new) as [it' [F [Iv [Ab D]]]].
    exists it'. split; [exact F|]. rewrite (copied_inv_sub _ Iv).
    unfold it_abs in Ab. rewrite D in Ab. exact Ab.
  Qed.
  Theorem copied_rev_as_slice_rest h :
    exists it', final_m copied_next copied_next_back h (it_rev (fwd (copied_new l))) = Some it' /\
                rev (sub l (copied_as_slice (core it'))) = deque_rest h (rev l).
  Proof.
    destruct (final_m_refines _ _ _ _ copied_abs copied_inv copied_next_ok copied_next_back_ok h
                (it_rev (fwd (copied_new l))) copied_inv_new) as [it' [F [Iv [Ab D]]]].
    exists it'. split; [exact F|]. rewrite (copied_inv_sub _ Iv).
    unfold it_abs in Ab. rewrite D in Ab. exact Ab.
  Qed.
End CopiedProofs.

(* ------------------------------------------------------------------------------------ *)
(** * Windows / WindowsRev *)

Definition windows_abs (w : windows) : list view :=
  map (fun i => mkv (voff (w_slice w) + i) (w_size w))
      (ziota (vlen (w_slice w) - w_size w + 1)).
Definition windows_inv (w : windows) : Prop := 1 <= w_size w.

Lemma windows_next_ok w : windows_inv w ->
  match windows_next w with
  | Stop => windows_abs w = []
  | Yield x w' => windows_abs w = x :: windows_abs w' /\ windows_inv w'
  | Panic => False
  end.
Proof.
  destruct w as [[o l] n].
  unfold windows_next, windows_abs, windows_inv, slice_up_to, slice_from. cbn [w_slice w_size voff vlen].
  intro Hn. zcase; try (exfalso; lia).
  - apply map_ziota_nil; lia.
  - split; [|exact Hn]. rewrite map_ziota_front by lia. cbn [w_slice w_size voff vlen].
    f_equal; [f_equal; lia|]. apply map_ziota_eq; [lia | intros; f_equal; lia].
Qed.

Lemma windows_next_back_ok w : windows_inv w ->
  match windows_next_back w with
  | Stop => windows_abs w = []
  | Yield x w' => windows_abs w = windows_abs w' ++ [x] /\ windows_inv w'
  | Panic => False
  end.
Proof.
  destruct w as [[o l] n].
  unfold windows_next_back, windows_abs, windows_inv, slice_up_to, slice_from, usub. cbn [w_slice w_size voff vlen].
  intro Hn. zcase; cbn [w_slice w_size voff vlen]; zcase; try (exfalso; lia).
  - apply map_ziota_nil; lia.
  - split; [|exact Hn]. rewrite map_ziota_back by lia.
    f_equal; [apply map_ziota_eq; [lia | intros; reflexivity] | f_equal; f_equal; lia].
Qed.

Lemma windows_abs_new len n : windows_abs (mk_windows (mkv 0 len) n) = windows_spec n len.
Proof.
  unfold windows_abs, windows_spec. cbn [w_slice w_size voff vlen].
  apply map_ziota_eq; [reflexivity | intros; f_equal; lia].
Qed.

Theorem windows_refines len n h : 1 <= n ->
  exists w, windows_new len n = Some w /\
    run_m windows_next windows_next_back h (fwd w) = Some (deque_run h (windows_spec n len)) /\
    run_m windows_next windows_next_back h (it_rev (fwd w)) = Some (deque_run h (rev (windows_spec n len))).
Proof.
  intro Hn. unfold windows_new. destruct (Z.eqb_spec n 0); [lia|].
  eexists; split; [reflexivity|]. rewrite <- windows_abs_new.
  apply (both_refine _ _ _ _ windows_abs windows_inv windows_next_ok windows_next_back_ok). exact Hn.
Qed.

(* ------------------------------------------------------------------------------------ *)
(** * Chunks / ChunksRev *)

Definition chunks_abs_v (n : Z) (s : view) : list view :=
  map (fun i => mkv (voff s + i * n) (Z.min n (vlen s - i * n))) (ziota (chunks_count n (vlen s))).
Definition chunks_abs (c : chunks) : list view :=
  match c_slice c with None => [] | Some s => chunks_abs_v (c_size c) s end.
Definition chunks_inv (c : chunks) : Prop :=
  1 <= c_size c /\ match c_slice c with None => True | Some s => 0 < vlen s end.

Lemma chunks_abs_v_empty n s : 1 <= n -> vlen s = 0 -> chunks_abs_v n s = [].
Proof. intros Hn E. unfold chunks_abs_v. rewrite E, cnt_zero by exact Hn. reflexivity. Qed.

Lemma chunks_sine n s : 1 <= n -> 0 <= vlen s ->
  chunks_abs (mk_chunks (some_if_nonempty s) n) = chunks_abs_v n s /\
  chunks_inv (mk_chunks (some_if_nonempty s) n).
Proof.
  intros Hn Hs. unfold some_if_nonempty, chunks_abs, chunks_inv. destruct (Z.eqb_spec (vlen s) 0) as [E|E];
    cbn [c_slice c_size].
  - split; [symmetry; now apply chunks_abs_v_empty | auto].
  - split; [reflexivity | split; lia].
Qed.

Lemma chunks_abs_v_single n o l : 1 <= n -> 0 < l <= n -> chunks_abs_v n (mkv o l) = [mkv o l].
Proof.
  intros Hn Hl. unfold chunks_abs_v. cbn [voff vlen]. rewrite cnt_small by lia.
  rewrite map_ziota_front by lia. rewrite map_ziota_nil by lia. f_equal. f_equal; lia.
Qed.

Lemma chunks_next_ok c : chunks_inv c ->
  match chunks_next c with
  | Stop => chunks_abs c = []
  | Yield x c' => chunks_abs c = x :: chunks_abs c' /\ chunks_inv c'
  | Panic => False
  end.
Proof.
  destruct c as [[[o l]|] n]; unfold chunks_next, chunks_inv; cbn [c_slice c_size voff vlen];
    [|reflexivity].
  intros [Hn Hl]. unfold split_at, slice_up_to, slice_from. cbn [voff vlen].
  destruct (Z.ltb_spec l n) as [Hlt|Hge].
  - destruct (chunks_sine n empty_static Hn ltac:(cbn; lia)) as [Ea Ei]. rewrite Ea.
    split; [|exact Ei]. unfold chunks_abs. cbn [c_slice c_size].
    rewrite chunks_abs_v_single by lia. rewrite chunks_abs_v_empty by (cbn; lia). reflexivity.
  - destruct (chunks_sine n (mkv (o + n) (l - n)) Hn ltac:(cbn; lia)) as [Ea Ei]. rewrite Ea.
    split; [|exact Ei]. unfold chunks_abs, chunks_abs_v. cbn [c_slice c_size voff vlen].
    pose proof (cnt_nonneg n (l - n) Hn ltac:(lia)) as Hc. rewrite cnt_sub in Hc by lia.
    rewrite map_ziota_front by lia.
    f_equal; [f_equal; lia|]. apply map_ziota_eq; [now rewrite cnt_sub | intros; f_equal; lia].
Qed.

Lemma chunks_next_back_ok c : chunks_inv c ->
  match chunks_next_back c with
  | Stop => chunks_abs c = []
  | Yield x c' => chunks_abs c = chunks_abs c' ++ [x] /\ chunks_inv c'
  | Panic => False
  end.
Proof.
  destruct c as [[[o l]|] n]; unfold chunks_next_back, chunks_inv; cbn [c_slice c_size voff vlen];
    [|reflexivity].
  intros [Hn Hl]. unfold usub, udiv. zcase; try (exfalso; lia).
  destruct (last_chunk_bounds n l Hn Hl) as [Hq [Hlo Hhi]].
  set (q := (l - 1) / n) in *.
  unfold split_at, slice_up_to, slice_from. cbn [voff vlen]. zcase; try (exfalso; lia).
  destruct (chunks_sine n (mkv o (q * n)) Hn ltac:(cbn; lia)) as [Ea Ei]. rewrite Ea.
  split; [|exact Ei]. unfold chunks_abs, chunks_abs_v. cbn [c_slice c_size voff vlen].
  rewrite (cnt_pos n l Hn Hl). fold q. rewrite cnt_mul by exact Hn.
  rewrite map_ziota_back by lia. replace (q + 1 - 1) with q by lia.
  f_equal.
  - apply map_ziota_eq; [reflexivity|]. intros i Hi. f_equal.
    pose proof (mul_step n i q ltac:(lia) ltac:(lia)). lia.
  - f_equal. f_equal. lia.
Qed.

Lemma chunks_abs_new len n : 1 <= n -> 0 <= len ->
  exists c, chunks_new len n = Some c /\ chunks_abs c = chunks_spec n len /\ chunks_inv c.
Proof.
  intros Hn Hl. unfold chunks_new. destruct (Z.eqb_spec n 0); [lia|].
  eexists; split; [reflexivity|].
  destruct (chunks_sine n (mkv 0 len) Hn Hl) as [Ea Ei]. split; [|exact Ei]. rewrite Ea.
  unfold chunks_abs_v, chunks_spec. cbn [voff vlen].
  apply map_ziota_eq; [reflexivity | intros; f_equal; lia].
Qed.

Theorem chunks_refines len n h : 1 <= n -> 0 <= len ->
  exists c, chunks_new len n = Some c /\
    run_m chunks_next chunks_next_back h (fwd c) = Some (deque_run h (chunks_spec n len)) /\
    run_m chunks_next chunks_next_back h (it_rev (fwd c)) = Some (deque_run h (rev (chunks_spec n len))).
Proof.
  intros Hn Hl. destruct (chunks_abs_new len n Hn Hl) as [c [E [A Iv]]].
  exists c; split; [exact E|]. rewrite <- A.
  apply (both_refine _ _ _ _ chunks_abs chunks_inv chunks_next_ok chunks_next_back_ok). exact Iv.
Qed.

(* ------------------------------------------------------------------------------------ *)
(** * RChunks / RChunksRev *)

Definition rchunks_abs_v (n : Z) (s : view) : list view :=
  map (fun i => mkv (voff s + Z.max 0 (vlen s - (i + 1) * n)) (Z.min n (vlen s - i * n)))
      (ziota (chunks_count n (vlen s))).
Definition rchunks_abs (c : chunks) : list view :=
  match c_slice c with None => [] | Some s => rchunks_abs_v (c_size c) s end.

Lemma rchunks_abs_v_empty n s : 1 <= n -> vlen s = 0 -> rchunks_abs_v n s = [].
Proof. intros Hn E. unfold rchunks_abs_v. rewrite E, cnt_zero by exact Hn. reflexivity. Qed.

Lemma rchunks_sine n s : 1 <= n -> 0 <= vlen s ->
  rchunks_abs (mk_chunks (some_if_nonempty s) n) = rchunks_abs_v n s /\
  chunks_inv (mk_chunks (some_if_nonempty s) n).
Proof.
  intros Hn Hs. unfold some_if_nonempty, rchunks_abs, chunks_inv. destruct (Z.eqb_spec (vlen s) 0) as [E|E];
    cbn [c_slice c_size].
  - split; [symmetry; now apply rchunks_abs_v_empty | auto].
  - split; [reflexivity | split; lia].
Qed.

Lemma rchunks_abs_v_single n o l : 1 <= n -> 0 < l <= n -> rchunks_abs_v n (mkv o l) = [mkv (o + 0) (l - 0)].
Proof.
  intros Hn Hl. unfold rchunks_abs_v. cbn [voff vlen]. rewrite cnt_small by lia.
  rewrite map_ziota_front by lia. rewrite map_ziota_nil by lia. f_equal. f_equal; lia.
Qed.

Lemma rchunks_next_ok c : chunks_inv c ->
  match rchunks_next c with
  | Stop => rchunks_abs c = []
  | Yield x c' => rchunks_abs c = x :: rchunks_abs c' /\ chunks_inv c'
  | Panic => False
  end.
Proof.
  destruct c as [[[o l]|] n]; unfold rchunks_next, chunks_inv; cbn [c_slice c_size voff vlen];
    [|reflexivity].
  intros [Hn Hl]. unfold saturating_sub, split_at, slice_up_to, slice_from. cbn [voff vlen].
  destruct (Z.ltb_spec l n) as [Hlt|Hge]; cbn [voff vlen]; zcase; try (exfalso; lia).
  - destruct (rchunks_sine n (mkv o 0) Hn ltac:(cbn; lia)) as [Ea Ei]. rewrite Ea.
    split; [|exact Ei]. unfold rchunks_abs. cbn [c_slice c_size].
    rewrite rchunks_abs_v_single by lia. rewrite rchunks_abs_v_empty by (cbn; lia). reflexivity.
  - destruct (rchunks_sine n (mkv o (l - n)) Hn ltac:(cbn; lia)) as [Ea Ei]. rewrite Ea.
    split; [|exact Ei]. unfold rchunks_abs, rchunks_abs_v. cbn [c_slice c_size voff vlen].
    pose proof (cnt_nonneg n (l - n) Hn ltac:(lia)) as Hc. rewrite cnt_sub in Hc by lia.
    rewrite map_ziota_front by lia.
    f_equal; [f_equal; lia|]. apply map_ziota_eq; [now rewrite cnt_sub | intros; f_equal; lia].
Qed.

(** the front split of rchunks: len % n, or n when that is 0 *)
Lemma rsplit n l : 1 <= n -> 0 < l ->
  l = (l - 1) / n * n + (if l mod n =? 0 then n else l mod n) /\
  1 <= (if l mod n =? 0 then n else l mod n) <= n.
Proof.
  intros Hn Hl. pose proof (Z.div_mod l n ltac:(lia)) as E.
  pose proof (Z.mod_pos_bound l n ltac:(lia)) as B.
  destruct (Z.eqb_spec (l mod n) 0) as [R|R].
  - assert (Q : (l - 1) / n = l / n - 1).
    { symmetry. apply (Z.div_unique_pos (l - 1) n (l / n - 1) (n - 1)); [lia|]. rewrite R in E.
      rewrite Z.mul_sub_distr_l. lia. }
    rewrite Q. rewrite R in E. rewrite Z.mul_sub_distr_r, (Z.mul_comm (l / n)). lia.
  - assert (Q : (l - 1) / n = l / n).
    { symmetry. apply (Z.div_unique_pos (l - 1) n (l / n) (l mod n - 1)); lia. }
    rewrite Q, (Z.mul_comm (l / n)). lia.
Qed.

Lemma rchunks_next_back_ok c : chunks_inv c ->
  match rchunks_next_back c with
  | Stop => rchunks_abs c = []
  | Yield x c' => rchunks_abs c = rchunks_abs c' ++ [x] /\ chunks_inv c'
  | Panic => False
  end.
Proof.
  destruct c as [[[o l]|] n]; unfold rchunks_next_back, chunks_inv; cbn [c_slice c_size voff vlen];
    [|reflexivity].
  intros [Hn Hl]. unfold urem. destruct (Z.eqb_spec n 0); [lia|].
  destruct (rsplit n l Hn Hl) as [El [Ha1 Ha2]].
  destruct (last_chunk_bounds n l Hn Hl) as [Hq _].
  set (q := (l - 1) / n) in *.
  set (at_ := if l mod n =? 0 then n else l mod n) in *. clearbody at_ q.
  unfold split_at, slice_up_to, slice_from. cbn [voff vlen]. zcase; try (exfalso; lia).
  destruct (rchunks_sine n (mkv (o + at_) (l - at_)) Hn ltac:(cbn; lia)) as [Ea Ei]. rewrite Ea.
  split; [|exact Ei]. unfold rchunks_abs, rchunks_abs_v. cbn [c_slice c_size voff vlen].
  assert (C1 : chunks_count n l = q + 1).
  { replace l with ((q + 1) * n - (n - at_)) by lia. unfold chunks_count.
    replace ((q + 1) * n - (n - at_) + n - 1) with ((at_ - 1) + (q + 1) * n) by lia.
    rewrite Z.div_add by lia. rewrite Z.div_small by lia. lia. }
  assert (C2 : chunks_count n (l - at_) = q).
  { replace (l - at_) with (q * n) by lia. now apply cnt_mul. }
  rewrite C1. rewrite map_ziota_back by lia. replace (q + 1 - 1) with q by lia.
  f_equal.
  - apply map_ziota_eq; [now rewrite C2|]. intros i Hi.
    pose proof (mul_step n i q ltac:(lia) ltac:(lia)). f_equal; lia.
  - f_equal. f_equal; lia.
Qed.

Lemma rchunks_abs_new len n : 1 <= n -> 0 <= len ->
  exists c, rchunks_new len n = Some c /\ rchunks_abs c = rchunks_spec n len /\ chunks_inv c.
Proof.
  intros Hn Hl. unfold rchunks_new, chunks_new. destruct (Z.eqb_spec n 0); [lia|].
  eexists; split; [reflexivity|].
  destruct (rchunks_sine n (mkv 0 len) Hn Hl) as [Ea Ei]. split; [|exact Ei]. rewrite Ea.
  unfold rchunks_abs_v, rchunks_spec. cbn [voff vlen].
  apply map_ziota_eq; [reflexivity | intros; f_equal; lia].
Qed.

Theorem rchunks_refines len n h : 1 <= n -> 0 <= len ->
  exists c, rchunks_new len n = Some c /\
    run_m rchunks_next rchunks_next_back h (fwd c) = Some (deque_run h (rchunks_spec n len)) /\
    run_m rchunks_next rchunks_next_back h (it_rev (fwd c)) = Some (deque_run h (rev (rchunks_spec n len))).
Proof.
  intros Hn Hl. destruct (rchunks_abs_new len n Hn Hl) as [c [E [A Iv]]].
  exists c; split; [exact E|]. rewrite <- A.
  apply (both_refine _ _ _ _ rchunks_abs chunks_inv rchunks_next_ok rchunks_next_back_ok). exact Iv.
Qed.

(* ------------------------------------------------------------------------------------ *)
(** * ChunksExact / RChunksExact (+ Rev) *)

Definition exact_inv (e : exact) : Prop :=
  1 <= e_size e /\ 0 <= vlen (e_slice e) /\ vlen (e_slice e) mod e_size e = 0.
(** in the order chunks_exact yields them ... *)
Definition exact_abs (e : exact) : list view :=
  map (fun i => mkv (voff (e_slice e) + i * e_size e) (e_size e)) (ziota (vlen (e_slice e) / e_size e)).
(** ... and in the order rchunks_exact yields them *)
Definition rexact_abs (e : exact) : list view :=
  map (fun i => mkv (voff (e_slice e) + vlen (e_slice e) - (i + 1) * e_size e) (e_size e))
      (ziota (vlen (e_slice e) / e_size e)).

Lemma exact_take_front_ok e : exact_inv e ->
  match exact_take_front e with
  | Stop => exact_abs e = [] /\ rexact_abs e = []
  | Yield x e' => exact_abs e = x :: exact_abs e' /\ rexact_abs e = rexact_abs e' ++ [x] /\ exact_inv e'
  | Panic => False
  end.
Proof.
  destruct e as [[o l] r n]. unfold exact_take_front, exact_inv, exact_abs, rexact_abs.
  cbn [e_slice e_rem e_size voff vlen]. intros [Hn [Hl Hm]].
  destruct (Z.eqb_spec l 0) as [Z0|NZ].
  - subst l. rewrite Z.div_0_l by lia. split; reflexivity.
  - destruct (exact_ge n l Hn Hl Hm NZ) as [Hge Hq].
    pose proof (exact_len n l Hn Hm) as El.
    unfold split_at, slice_up_to, slice_from. cbn [voff vlen]. zcase; try (exfalso; lia).
    cbn [e_slice e_rem e_size voff vlen].
    rewrite (div_exact_sub n l Hn), (mod_exact_sub n l Hn).
    split; [|split; [|repeat split; lia]].
    + rewrite map_ziota_front by lia. f_equal; [f_equal; lia|].
      apply map_ziota_eq; [reflexivity | intros; f_equal; lia].
    + rewrite map_ziota_back by lia. f_equal.
      * apply map_ziota_eq; [reflexivity | intros; f_equal; lia].
      * f_equal. f_equal. lia.
Qed.

Lemma exact_take_back_ok e : exact_inv e ->
  match exact_take_back e with
  | Stop => exact_abs e = [] /\ rexact_abs e = []
  | Yield x e' => exact_abs e = exact_abs e' ++ [x] /\ rexact_abs e = x :: rexact_abs e' /\ exact_inv e'
  | Panic => False
  end.
Proof.
  destruct e as [[o l] r n]. unfold exact_take_back, exact_inv, exact_abs, rexact_abs.
  cbn [e_slice e_rem e_size voff vlen]. intros [Hn [Hl Hm]].
  destruct (Z.eqb_spec l 0) as [Z0|NZ].
  - subst l. rewrite Z.div_0_l by lia. split; reflexivity.
  - destruct (exact_ge n l Hn Hl Hm NZ) as [Hge Hq].
    pose proof (exact_len n l Hn Hm) as El.
    unfold usub, split_at, slice_up_to, slice_from. cbn [voff vlen]. zcase; try (exfalso; lia).
    cbn [e_slice e_rem e_size voff vlen]. zcase; try (exfalso; lia).
    cbn [e_slice e_rem e_size voff vlen].
    rewrite (div_exact_sub n l Hn), (mod_exact_sub n l Hn).
    split; [|split; [|repeat split; lia]].
    + rewrite map_ziota_back by lia. f_equal. f_equal. f_equal; lia.
    + rewrite map_ziota_front by lia. f_equal; [f_equal; lia|].
      apply map_ziota_eq; [reflexivity | intros; f_equal; lia].
Qed.

Lemma chunks_exact_next_ok e : exact_inv e ->
  match chunks_exact_next e with
  | Stop => exact_abs e = [] | Yield x e' => exact_abs e = x :: exact_abs e' /\ exact_inv e' | Panic => False end.
Proof. intro H. pose proof (exact_take_front_ok e H) as P. unfold chunks_exact_next. destruct (exact_take_front e); tauto. Qed.
Lemma chunks_exact_next_back_ok e : exact_inv e ->
  match chunks_exact_next_back e with
  | Stop => exact_abs e = [] | Yield x e' => exact_abs e = exact_abs e' ++ [x] /\ exact_inv e' | Panic => False end.
Proof. intro H. pose proof (exact_take_back_ok e H) as P. unfold chunks_exact_next_back. destruct (exact_take_back e); tauto. Qed.
Lemma rchunks_exact_next_ok e : exact_inv e ->
  match rchunks_exact_next e with
  | Stop => rexact_abs e = [] | Yield x e' => rexact_abs e = x :: rexact_abs e' /\ exact_inv e' | Panic => False end.
Proof. intro H. pose proof (exact_take_back_ok e H) as P. unfold rchunks_exact_next. destruct (exact_take_back e); tauto. Qed.
Lemma rchunks_exact_next_back_ok e : exact_inv e ->
  match rchunks_exact_next_back e with
  | Stop => rexact_abs e = [] | Yield x e' => rexact_abs e = rexact_abs e' ++ [x] /\ exact_inv e' | Panic => False end.
Proof. intro H. pose proof (exact_take_front_ok e H) as P. unfold rchunks_exact_next_back. destruct (exact_take_front e); tauto. Qed.

Lemma chunks_exact_abs_new len n : 1 <= n -> 0 <= len ->
  exists e, chunks_exact_new len n = Some e /\ exact_abs e = chunks_exact_spec n len /\
            exact_inv e /\ exact_remainder e = chunks_exact_rem n len.
Proof.
  intros Hn Hl. unfold chunks_exact_new, urem, usub. destruct (Z.eqb_spec n 0); [lia|].
  pose proof (Z.div_mod len n ltac:(lia)) as E. pose proof (Z.mod_pos_bound len n ltac:(lia)) as B.
  assert (0 <= len / n) by (apply Z.div_pos; lia).
  assert (Hr : len mod n <= len).
  { rewrite E at 2. assert (0 <= n * (len / n)) by (apply Z.mul_nonneg_nonneg; lia). lia. }
  zcase; try (exfalso; lia).
  unfold split_at, slice_up_to, slice_from. cbn [voff vlen]. zcase; try (exfalso; lia).
  eexists; split; [reflexivity|].
  assert (Ed : len - len mod n = len / n * n) by (rewrite (Z.mul_comm (len / n)); lia).
  unfold exact_abs, exact_inv, exact_remainder, chunks_exact_spec, chunks_exact_rem.
  cbn [e_slice e_rem e_size voff vlen]. rewrite Ed. rewrite Z.div_mul by lia. rewrite Z.mod_mul by lia.
  repeat split; try lia;
    try (apply map_ziota_eq; [reflexivity | intros; f_equal; lia]);
    try (f_equal; lia).
Qed.

Lemma rchunks_exact_abs_new len n : 1 <= n -> 0 <= len ->
  exists e, rchunks_exact_new len n = Some e /\ rexact_abs e = rchunks_exact_spec n len /\
            exact_inv e /\ exact_remainder e = rchunks_exact_rem n len.
Proof.
  intros Hn Hl. unfold rchunks_exact_new, urem. destruct (Z.eqb_spec n 0); [lia|].
  pose proof (Z.div_mod len n ltac:(lia)) as E. pose proof (Z.mod_pos_bound len n ltac:(lia)) as B.
  assert (0 <= len / n) by (apply Z.div_pos; lia).
  assert (Hr : len mod n <= len).
  { rewrite E at 2. assert (0 <= n * (len / n)) by (apply Z.mul_nonneg_nonneg; lia). lia. }
  unfold split_at, slice_up_to, slice_from. cbn [voff vlen]. zcase; try (exfalso; lia).
  eexists; split; [reflexivity|].
  assert (Ed : len - len mod n = len / n * n) by (rewrite (Z.mul_comm (len / n)); lia).
  unfold rexact_abs, exact_inv, exact_remainder, rchunks_exact_spec, rchunks_exact_rem.
  cbn [e_slice e_rem e_size voff vlen]. rewrite Ed. rewrite Z.div_mul by lia. rewrite Z.mod_mul by lia.
  repeat split; try lia;
    try (apply map_ziota_eq; [reflexivity | intros; f_equal; lia]);
    try (f_equal; lia).
Qed.

Lemma exact_front_pres e x e' : exact_take_front e = Yield x e' -> e_rem e' = e_rem e.
Proof.
  unfold exact_take_front. destruct (vlen (e_slice e) =? 0); [discriminate|].
  destruct (split_at (e_slice e) (e_size e)). intro H; inversion H. reflexivity.
Qed.
Lemma exact_back_pres e x e' : exact_take_back e = Yield x e' -> e_rem e' = e_rem e.
Proof.
  unfold exact_take_back. destruct (vlen (e_slice e) =? 0); [discriminate|].
  destruct (usub (vlen (e_slice e)) (e_size e)); [|discriminate].
  destruct (split_at (e_slice e) z). intro H; inversion H. reflexivity.
Qed.

Theorem chunks_exact_refines len n h : 1 <= n -> 0 <= len ->
  exists e, chunks_exact_new len n = Some e /\
    run_m chunks_exact_next chunks_exact_next_back h (fwd e) = Some (deque_run h (chunks_exact_spec n len)) /\
    run_m chunks_exact_next chunks_exact_next_back h (it_rev (fwd e)) = Some (deque_run h (rev (chunks_exact_spec n len))).
Proof.
  intros Hn Hl. destruct (chunks_exact_abs_new len n Hn Hl) as [e [E [A [Iv _]]]].
  exists e; split; [exact E|]. rewrite <- A.
  apply (both_refine _ _ _ _ exact_abs exact_inv chunks_exact_next_ok chunks_exact_next_back_ok). exact Iv.
Qed.
Theorem rchunks_exact_refines len n h : 1 <= n -> 0 <= len ->
  exists e, rchunks_exact_new len n = Some e /\
    run_m rchunks_exact_next rchunks_exact_next_back h (fwd e) = Some (deque_run h (rchunks_exact_spec n len)) /\
    run_m rchunks_exact_next rchunks_exact_next_back h (it_rev (fwd e)) = Some (deque_run h (rev (rchunks_exact_spec n len))).
Proof.
  intros Hn Hl. destruct (rchunks_exact_abs_new len n Hn Hl) as [e [E [A [Iv _]]]].
  exists e; split; [exact E|]. rewrite <- A.
  apply (both_refine _ _ _ _ rexact_abs exact_inv rchunks_exact_next_ok rchunks_exact_next_back_ok). exact Iv.
Qed.

(** remainder() is the same after every history, for the forward and the reversed type *)
Theorem chunks_exact_remainder len n h rv : 1 <= n -> 0 <= len ->
  exists e, chunks_exact_new len n = Some e /\
    forall it', final_m chunks_exact_next chunks_exact_next_back h (if rv : bool then it_rev (fwd e) else fwd e) = Some it' ->
                exact_remainder (core it') = chunks_exact_rem n len.
Proof.
  intros Hn Hl. destruct (chunks_exact_abs_new len n Hn Hl) as [e [E [_ [_ R]]]].
  exists e; split; [exact E|]. intros it' F. rewrite <- R. unfold exact_remainder.
  rewrite (final_m_preserves _ _ chunks_exact_next chunks_exact_next_back _ e_rem exact_front_pres exact_back_pres h _ it' F).
  now destruct rv.
Qed.
Theorem rchunks_exact_remainder len n h rv : 1 <= n -> 0 <= len ->
  exists e, rchunks_exact_new len n = Some e /\
    forall it', final_m rchunks_exact_next rchunks_exact_next_back h (if rv : bool then it_rev (fwd e) else fwd e) = Some it' ->
                exact_remainder (core it') = rchunks_exact_rem n len.
Proof.
  intros Hn Hl. destruct (rchunks_exact_abs_new len n Hn Hl) as [e [E [_ [_ R]]]].
  exists e; split; [exact E|]. intros it' F. rewrite <- R. unfold exact_remainder.
  rewrite (final_m_preserves _ _ rchunks_exact_next rchunks_exact_next_back _ e_rem exact_back_pres exact_front_pres h _ it' F).
  now destruct rv.
Qed.

(* ------------------------------------------------------------------------------------ *)
(** * as_chunks / as_rchunks / ArrayChunks (+ Rev) *)

Definition ac_abs (a : array_chunks) : list view :=
  map (fun i => mkv (a_off (ac_arrays a) + i * ac_n a) (ac_n a)) (ziota (a_cnt (ac_arrays a))).
Definition ac_inv (_ : array_chunks) : Prop := True.

Lemma array_chunks_next_ok a : ac_inv a ->
  match array_chunks_next a with
  | Stop => ac_abs a = []
  | Yield x a' => ac_abs a = x :: ac_abs a' /\ ac_inv a'
  | Panic => False
  end.
Proof.
  intros _. destruct a as [[o k] r n]. unfold array_chunks_next, ac_abs, ac_inv.
  cbn [ac_arrays ac_rem ac_n a_off a_cnt]. zcase.
  - apply map_ziota_nil; lia.
  - split; [|exact Logic.I]. rewrite map_ziota_front by lia. cbn [ac_arrays ac_rem ac_n a_off a_cnt].
    f_equal; [f_equal; lia|]. apply map_ziota_eq; [reflexivity | intros; f_equal; lia].
Qed.
Lemma array_chunks_next_back_ok a : ac_inv a ->
  match array_chunks_next_back a with
  | Stop => ac_abs a = []
  | Yield x a' => ac_abs a = ac_abs a' ++ [x] /\ ac_inv a'
  | Panic => False
  end.
Proof.
  intros _. destruct a as [[o k] r n]. unfold array_chunks_next_back, ac_abs, ac_inv.
  cbn [ac_arrays ac_rem ac_n a_off a_cnt]. zcase.
  - apply map_ziota_nil; lia.
  - split; [|exact Logic.I]. rewrite map_ziota_back by lia. cbn [ac_arrays ac_rem ac_n a_off a_cnt].
    reflexivity.
Qed.

(** as_chunks = (the exact chunks as arrays, the remainder) *)
Theorem as_chunks_spec len n : 1 <= n -> 0 <= len ->
  as_chunks_m len n = Some (mk_arrays 0 (len / n), chunks_exact_rem n len).
Proof.
  intros Hn Hl. unfold as_chunks_m, udiv. destruct (Z.eqb_spec n 0); [lia|].
  pose proof (Z.div_mod len n ltac:(lia)) as E. pose proof (Z.mod_pos_bound len n ltac:(lia)) as B.
  assert (0 <= len / n) by (apply Z.div_pos; lia).
  assert (Hr : len / n * n <= len).
  { rewrite E at 2. rewrite (Z.mul_comm n). lia. }
  unfold split_at, slice_up_to, slice_from, chunks_exact_rem. cbn [voff vlen]. zcase; try (exfalso; lia).
  cbn [voff]. f_equal. f_equal. f_equal; lia.
Qed.
Theorem as_rchunks_spec len n : 1 <= n -> 0 <= len ->
  as_rchunks_m len n = Some (rchunks_exact_rem n len, mk_arrays (len mod n) (len / n)).
Proof.
  intros Hn Hl. unfold as_rchunks_m, udiv, urem. destruct (Z.eqb_spec n 0); [lia|].
  pose proof (Z.div_mod len n ltac:(lia)) as E. pose proof (Z.mod_pos_bound len n ltac:(lia)) as B.
  assert (0 <= len / n) by (apply Z.div_pos; lia).
  assert (Hr : len mod n <= len).
  { rewrite E at 2. assert (0 <= n * (len / n)) by (apply Z.mul_nonneg_nonneg; lia). lia. }
  unfold split_at, slice_up_to, slice_from, rchunks_exact_rem. cbn [voff vlen]. zcase; try (exfalso; lia).
  cbn [voff]. reflexivity.
Qed.

Lemma array_chunks_abs_new len n : 1 <= n -> 0 <= len ->
  exists a, array_chunks_new len n = Some a /\ ac_abs a = array_chunks_spec n len /\
            array_chunks_remainder a = array_chunks_rem n len.
Proof.
  intros Hn Hl. unfold array_chunks_new. rewrite as_chunks_spec by assumption.
  eexists; split; [reflexivity|]. split; [|reflexivity].
  unfold ac_abs, array_chunks_spec, chunks_exact_spec. cbn [ac_arrays ac_rem ac_n a_off a_cnt].
  apply map_ziota_eq; [reflexivity | intros; f_equal; lia].
Qed.

Theorem array_chunks_refines len n h : 1 <= n -> 0 <= len ->
  exists a, array_chunks_new len n = Some a /\
    run_m array_chunks_next array_chunks_next_back h (fwd a) = Some (deque_run h (array_chunks_spec n len)) /\
    run_m array_chunks_next array_chunks_next_back h (it_rev (fwd a)) = Some (deque_run h (rev (array_chunks_spec n len))).
Proof.
  intros Hn Hl. destruct (array_chunks_abs_new len n Hn Hl) as [a [E [A _]]].
  exists a; split; [exact E|]. rewrite <- A.
  apply (both_refine _ _ _ _ ac_abs ac_inv array_chunks_next_ok array_chunks_next_back_ok). exact Logic.I.
Qed.

Lemma ac_front_pres a x a' : array_chunks_next a = Yield x a' -> ac_rem a' = ac_rem a.
Proof. unfold array_chunks_next. destruct (a_cnt (ac_arrays a) <=? 0); [discriminate|]. intro H; inversion H. reflexivity. Qed.
Lemma ac_back_pres a x a' : array_chunks_next_back a = Yield x a' -> ac_rem a' = ac_rem a.
Proof. unfold array_chunks_next_back. destruct (a_cnt (ac_arrays a) <=? 0); [discriminate|]. intro H; inversion H. reflexivity. Qed.

Theorem array_chunks_remainder_const len n h : 1 <= n -> 0 <= len ->
  exists a, array_chunks_new len n = Some a /\
    forall it', final_m array_chunks_next array_chunks_next_back h (fwd a) = Some it' ->
                array_chunks_remainder (core it') = array_chunks_rem n len.
Proof.
  intros Hn Hl. destruct (array_chunks_abs_new len n Hn Hl) as [a [E [_ R]]].
  exists a; split; [exact E|]. intros it' F. rewrite <- R. unfold array_chunks_remainder.
  now rewrite (final_m_preserves _ _ array_chunks_next array_chunks_next_back _ ac_rem ac_front_pres ac_back_pres h _ it' F).
Qed.

(* ------------------------------------------------------------------------------------ *)
(** * size 0: every constructor panics (like std's) *)
Theorem size_zero_panics len :
  windows_new len 0 = None /\ chunks_new len 0 = None /\ rchunks_new len 0 = None /\
  chunks_exact_new len 0 = None /\ rchunks_exact_new len 0 = None /\ array_chunks_new len 0 = None /\
  as_chunks_m len 0 = None /\ as_rchunks_m len 0 = None.
Proof. repeat split. Qed.

(* ------------------------------------------------------------------------------------ *)
(** * the specs are what std documents, in list vocabulary *)

(** every yielded view lies inside the slice *)
Definition inside (len : Z) (v : view) : Prop := 0 <= voff v /\ 0 <= vlen v /\ voff v + vlen v <= len.

Lemma Forall_map_ziota {B} (P : B -> Prop) (f : Z -> B) k :
  (forall i, 0 <= i < k -> P (f i)) -> Forall P (map f (ziota k)).
Proof.
  intro H. apply Forall_forall. intros x Hx. apply in_map_iff in Hx as [i [<- Hi]].
  apply H. now apply In_ziota.
Qed.

(* ------------------------------------------------------------------------------------ *)
(** * rev in mid-stream: after ANY history, reversing swaps the two ends *)

Lemma rev_swaps_after {C I} (nb bb : C -> step I C) (cabs : C -> list I) (cinv : C -> Prop)
  (nb_ok : forall c, cinv c ->
     match nb c with Stop => cabs c = [] | Yield x c' => cabs c = x :: cabs c' /\ cinv c' | Panic => False end)
  (bb_ok : forall c, cinv c ->
     match bb c with Stop => cabs c = [] | Yield x c' => cabs c = cabs c' ++ [x] /\ cinv c' | Panic => False end)
  g h c it' :
  cinv c -> final_m nb bb g (fwd c) = Some it' ->
  run_m nb bb h (it_rev it') = run_m nb bb (map swap_end h) it'.
Proof.
  intros Hc F.
  destruct (final_m_refines _ _ nb bb cabs cinv nb_ok bb_ok g (fwd c) Hc) as [it2 [F2 [I2 _]]].
  rewrite F in F2. inversion F2; subst it2.
  apply (rev_swaps_ends _ _ nb bb cabs cinv nb_ok bb_ok). exact I2.
Qed.

Theorem iter_rev_swaps len g h it' :
  final_m iter_next iter_next_back g (fwd (iter_new len)) = Some it' ->
  run_m iter_next iter_next_back h (it_rev it') = run_m iter_next iter_next_back (map swap_end h) it'.
Proof. apply (rev_swaps_after _ _ iter_abs iter_inv iter_next_ok iter_next_back_ok). exact Logic.I. Qed.

Theorem copied_rev_swaps {A} (l : list A) g h it' :
  final_m copied_next copied_next_back g (fwd (copied_new l)) = Some it' ->
  run_m copied_next copied_next_back h (it_rev it') = run_m copied_next copied_next_back (map swap_end h) it'.
Proof.
  apply (rev_swaps_after _ _ (copied_abs A) (copied_inv A l) (copied_next_ok A l) (copied_next_back_ok A l)).
  apply copied_inv_new.
Qed.

Theorem windows_rev_swaps len n g h w it' : 1 <= n -> windows_new len n = Some w ->
  final_m windows_next windows_next_back g (fwd w) = Some it' ->
  run_m windows_next windows_next_back h (it_rev it') = run_m windows_next windows_next_back (map swap_end h) it'.
Proof.
  intros Hn E. apply (rev_swaps_after _ _ windows_abs windows_inv windows_next_ok windows_next_back_ok).
  unfold windows_new in E. destruct (n =? 0); inversion E. exact Hn.
Qed.

Theorem chunks_rev_swaps len n g h c it' : 1 <= n -> 0 <= len -> chunks_new len n = Some c ->
  final_m chunks_next chunks_next_back g (fwd c) = Some it' ->
  run_m chunks_next chunks_next_back h (it_rev it') = run_m chunks_next chunks_next_back (map swap_end h) it'.
Proof.
  intros Hn Hl E. apply (rev_swaps_after _ _ chunks_abs chunks_inv chunks_next_ok chunks_next_back_ok).
  destruct (chunks_abs_new len n Hn Hl) as [c' [E' [_ Iv]]]. rewrite E in E'. now inversion E'.
Qed.
Theorem rchunks_rev_swaps len n g h c it' : 1 <= n -> 0 <= len -> rchunks_new len n = Some c ->
  final_m rchunks_next rchunks_next_back g (fwd c) = Some it' ->
  run_m rchunks_next rchunks_next_back h (it_rev it') = run_m rchunks_next rchunks_next_back (map swap_end h) it'.
Proof.
  intros Hn Hl E. apply (rev_swaps_after _ _ rchunks_abs chunks_inv rchunks_next_ok rchunks_next_back_ok).
  destruct (rchunks_abs_new len n Hn Hl) as [c' [E' [_ Iv]]]. rewrite E in E'. now inversion E'.
Qed.
Theorem chunks_exact_rev_swaps len n g h e it' : 1 <= n -> 0 <= len -> chunks_exact_new len n = Some e ->
  final_m chunks_exact_next chunks_exact_next_back g (fwd e) = Some it' ->
  run_m chunks_exact_next chunks_exact_next_back h (it_rev it') =
  run_m chunks_exact_next chunks_exact_next_back (map swap_end h) it'.
Proof.
  intros Hn Hl E. apply (rev_swaps_after _ _ exact_abs exact_inv chunks_exact_next_ok chunks_exact_next_back_ok).
  destruct (chunks_exact_abs_new len n Hn Hl) as [c' [E' [_ [Iv _]]]]. rewrite E in E'. now inversion E'.
Qed.
Theorem rchunks_exact_rev_swaps len n g h e it' : 1 <= n -> 0 <= len -> rchunks_exact_new len n = Some e ->
  final_m rchunks_exact_next rchunks_exact_next_back g (fwd e) = Some it' ->
  run_m rchunks_exact_next rchunks_exact_next_back h (it_rev it') =
  run_m rchunks_exact_next rchunks_exact_next_back (map swap_end h) it'.
Proof.
  intros Hn Hl E. apply (rev_swaps_after _ _ rexact_abs exact_inv rchunks_exact_next_ok rchunks_exact_next_back_ok).
  destruct (rchunks_exact_abs_new len n Hn Hl) as [c' [E' [_ [Iv _]]]]. rewrite E in E'. now inversion E'.
Qed.
Theorem array_chunks_rev_swaps g h a it' :
  final_m array_chunks_next array_chunks_next_back g (fwd a) = Some it' ->
  run_m array_chunks_next array_chunks_next_back h (it_rev it') =
  run_m array_chunks_next array_chunks_next_back (map swap_end h) it'.
Proof. apply (rev_swaps_after _ _ ac_abs ac_inv array_chunks_next_ok array_chunks_next_back_ok). exact Logic.I. Qed.

(** copy(): a value copy — same future, and (the model being a pure function of the
    value) stepping one of the two cannot affect the other *)
Theorem copy_same_future {C I} (nb bb : C -> step I C) h it :
  run_m nb bb h (it_copy it) = run_m nb bb h it /\ final_m nb bb h (it_copy it) = final_m nb bb h it.
Proof. now rewrite it_copy_id. Qed.
(** every view the std-spec lists lies inside the slice (so does every view the model
    yields, by the refinement theorems) *)
Lemma cnt_index_bound n len i : 1 <= n -> 0 <= len -> 0 <= i < chunks_count n len -> i * n < len.
Proof.
  intros Hn Hl Hi. destruct (Z.eqb_spec len 0) as [->|NZ]; [rewrite cnt_zero in Hi; lia|].
  rewrite cnt_pos in Hi by lia. destruct (last_chunk_bounds n len Hn ltac:(lia)) as [Hq [Hlo _]].
  assert (i * n <= (len - 1) / n * n) by (apply Z.mul_le_mono_nonneg_r; lia). lia.
Qed.
Lemma div_index_bound n len i : 1 <= n -> 0 <= len -> 0 <= i < len / n -> (i + 1) * n <= len.
Proof.
  intros Hn Hl Hi. pose proof (Z.div_mod len n ltac:(lia)) as E.
  pose proof (Z.mod_pos_bound len n ltac:(lia)) as B. rewrite (Z.mul_comm n) in E.
  assert ((i + 1) * n <= len / n * n) by (apply Z.mul_le_mono_nonneg_r; lia). lia.
Qed.

Theorem specs_inside n len : 1 <= n -> 0 <= len ->
  Forall (inside len) (windows_spec n len) /\ Forall (inside len) (chunks_spec n len) /\
  Forall (inside len) (rchunks_spec n len) /\ Forall (inside len) (chunks_exact_spec n len) /\
  Forall (inside len) (rchunks_exact_spec n len) /\
  inside len (chunks_exact_rem n len) /\ inside len (rchunks_exact_rem n len).
Proof.
  intros Hn Hl. unfold inside.
  pose proof (Z.div_mod len n ltac:(lia)) as E. pose proof (Z.mod_pos_bound len n ltac:(lia)) as B.
  rewrite (Z.mul_comm n) in E. assert (0 <= len / n) by (apply Z.div_pos; lia).
  assert (0 <= len / n * n) by (apply Z.mul_nonneg_nonneg; lia).
  refine (conj _ (conj _ (conj _ (conj _ (conj _ (conj _ _))))));
    try (apply Forall_map_ziota; intros i Hi); unfold chunks_exact_rem, rchunks_exact_rem; cbn [voff vlen].
  - lia.
  - pose proof (cnt_index_bound n len i Hn Hl Hi). assert (0 <= i * n) by (apply Z.mul_nonneg_nonneg; lia). lia.
  - pose proof (cnt_index_bound n len i Hn Hl Hi). assert (0 <= i * n) by (apply Z.mul_nonneg_nonneg; lia). lia.
  - pose proof (div_index_bound n len i Hn Hl Hi). assert (0 <= i * n) by (apply Z.mul_nonneg_nonneg; lia). lia.
  - pose proof (div_index_bound n len i Hn Hl Hi). assert (0 <= i * n) by (apply Z.mul_nonneg_nonneg; lia). lia.
  - lia.
  - lia.
Qed.
(* ------------------------------------------------------------------------------------ *)
(** * the chunks formula read on lists: [firstn n], then the same on [skipn n] *)

Lemma chunks_abs_v_unfold n o k : 1 <= n -> 0 < k ->
  chunks_abs_v n (mkv o k) = mkv o (Z.min n k) :: chunks_abs_v n (mkv (o + n) (k - n)).
Proof.
  intros Hn Hk. unfold chunks_abs_v. cbn [voff vlen].
  assert (0 < chunks_count n k).
  { rewrite cnt_pos by lia. destruct (last_chunk_bounds n k Hn Hk). lia. }
  rewrite map_ziota_front by lia. f_equal; [f_equal; lia|].
  apply map_ziota_eq; [now rewrite cnt_sub | intros; f_equal; lia].
Qed.
Lemma chunks_abs_v_nonpos n o k : 1 <= n -> k <= 0 -> chunks_abs_v n (mkv o k) = [].
Proof.
  intros Hn Hk. unfold chunks_abs_v. cbn [voff vlen]. apply map_ziota_nil. unfold chunks_count.
  assert ((k + n - 1) / n < 1) by (apply Z.div_lt_upper_bound; lia). lia.
Qed.

Lemma skipn_skipn' {A} (a : nat) : forall b (l : list A), skipn a (skipn b l) = skipn (b + a) l.
Proof.
  induction b as [|b IH]; intro l; [reflexivity|]. destruct l as [|x l]; cbn [skipn Nat.add].
  - now rewrite skipn_nil.
  - apply IH.
Qed.

Section Contents.
  Variable A : Type.

  Lemma chunks_contents_gen n : 1 <= n -> forall fuel (l : list A) o k,
    0 <= o -> o + k = zlen l -> k <= Z.of_nat fuel ->
    map (sub l) (chunks_abs_v n (mkv o k)) = chunks_list fuel (Z.to_nat n) (skipn (Z.to_nat o) l).
  Proof.
    intros Hn. induction fuel as [|f IH]; intros l o k Ho Hs Hf.
    - rewrite chunks_abs_v_nonpos by lia. reflexivity.
    - destruct (Z.leb_spec k 0) as [Hk|Hk].
      + rewrite chunks_abs_v_nonpos by lia. rewrite skipn_all2 by (unfold zlen in Hs; lia). reflexivity.
      + rewrite chunks_abs_v_unfold by lia. cbn [map chunks_list].
        assert (Ht : length (skipn (Z.to_nat o) l) = Z.to_nat k) by (rewrite skipn_length; unfold zlen in Hs; lia).
        destruct (skipn (Z.to_nat o) l) as [|x r] eqn:Et; [cbn in Ht; lia|]. rewrite <- Et in *.
        f_equal.
        * unfold sub. cbn [voff vlen]. destruct (Z.leb_spec n k).
          -- replace (Z.min n k) with n by lia. reflexivity.
          -- replace (Z.min n k) with k by lia. rewrite !firstn_all2 by lia. reflexivity.
        * rewrite (IH l (o + n) (k - n)) by lia. f_equal.
          rewrite skipn_skipn'. f_equal. lia.
  Qed.

  (** chunks(n) of a list = its first n elements, then chunks(n) of the rest *)
  Theorem chunks_contents n (l : list A) : 1 <= n ->
    map (sub l) (chunks_spec n (zlen l)) = chunks_list (length l) (Z.to_nat n) l.
  Proof.
    intro Hn. replace (chunks_spec n (zlen l)) with (chunks_abs_v n (mkv 0 (zlen l))).
    - rewrite (chunks_contents_gen n Hn (length l) l 0 (zlen l)); unfold zlen; try lia. reflexivity.
    - unfold chunks_abs_v, chunks_spec. cbn [voff vlen]. apply map_ziota_eq; [reflexivity | intros; f_equal; lia].
  Qed.

  Lemma chunks_list_concat n : (1 <= n)%nat -> forall fuel (l : list A),
    (length l <= fuel)%nat -> concat (chunks_list fuel n l) = l.
  Proof.
    intros Hn. induction fuel as [|f IH]; intros l Hl.
    - destruct l; [reflexivity | cbn in Hl; lia].
    - destruct l as [|x r]; [reflexivity|]. cbn [chunks_list concat].
      rewrite IH; [apply firstn_skipn|]. rewrite skipn_length. cbn [length] in *. lia.
  Qed.

  (** ... so the chunks tile the slice: concatenated they give it back *)
  Theorem chunks_tile n (l : list A) : 1 <= n ->
    concat (map (sub l) (chunks_spec n (zlen l))) = l.
  Proof. intro Hn. rewrite chunks_contents by exact Hn. apply chunks_list_concat; lia. Qed.
End Contents.

(* ------------------------------------------------------------------------------------ *)
(** * the other formulas reduced to chunks *)

(** the same sub-slice counted from the other end of a slice of [len] elements *)
Definition mirror (len : Z) (v : view) : view := mkv (len - voff v - vlen v) (vlen v).

(** rchunks = chunks of the mirrored slice *)
Theorem rchunks_is_mirrored_chunks n len :
  rchunks_spec n len = map (mirror len) (chunks_spec n len).
Proof.
  unfold rchunks_spec, chunks_spec. rewrite map_map. apply map_ziota_eq; [reflexivity|].
  intros i _. unfold mirror. cbn [voff vlen]. f_equal; lia.
Qed.
Theorem rchunks_exact_is_mirrored_chunks_exact n len : 1 <= n -> 0 <= len ->
  rchunks_exact_spec n len = map (mirror len) (chunks_exact_spec n len) /\
  rchunks_exact_rem n len = mirror len (chunks_exact_rem n len).
Proof.
  intros Hn Hl. unfold rchunks_exact_spec, chunks_exact_spec, rchunks_exact_rem, chunks_exact_rem, mirror.
  cbn [voff vlen]. split.
  - rewrite map_map. apply map_ziota_eq; [reflexivity|]. intros i _. cbn [voff vlen]. f_equal; lia.
  - pose proof (Z.div_mod len n ltac:(lia)) as E. rewrite (Z.mul_comm n) in E. f_equal; lia.
Qed.
(** chunks_exact = chunks of the slice cut down to a multiple of n; remainder = the rest *)
Theorem chunks_exact_is_chunks_of_cut n len : 1 <= n -> 0 <= len ->
  chunks_exact_spec n len = chunks_spec n (len / n * n) /\
  chunks_exact_rem n len = mkv (len / n * n) (len - len / n * n).
Proof.
  intros Hn Hl. unfold chunks_exact_spec, chunks_spec, chunks_exact_rem. split.
  - apply map_ziota_eq; [now rewrite cnt_mul|]. intros i Hi.
    pose proof (mul_step n i (len / n) ltac:(lia) ltac:(lia)). f_equal; lia.
  - pose proof (Z.div_mod len n ltac:(lia)) as E. rewrite (Z.mul_comm n) in E. f_equal; lia.
Qed.

(** the mirrored view of the reversed list covers the reversed elements *)
Theorem sub_mirror {A} (l : list A) v : inside (zlen l) v ->
  sub (rev l) v = rev (sub l (mirror (zlen l) v)).
Proof.
  destruct v as [o k]. unfold inside, sub, mirror, zlen. cbn [voff vlen]. intros [Ho [Hk Hs]].
  rewrite skipn_rev, firstn_rev, firstn_length. f_equal.
  replace (Z.to_nat (Z.of_nat (length l) - o - k)) with (length l - Z.to_nat o - Z.to_nat k)%nat by lia.
  rewrite firstn_skipn_comm. f_equal; [lia|]. f_equal. lia.
Qed.

(* ------------------------------------------------------------------------------------ *)
(** * windows on lists *)
Lemma windows_abs_unfold n o k : 1 <= n -> n <= k ->
  windows_abs (mk_windows (mkv o k) n) = mkv o n :: windows_abs (mk_windows (mkv (o + 1) (k - 1)) n).
Proof.
  intros Hn Hk. unfold windows_abs. cbn [w_slice w_size voff vlen].
  rewrite map_ziota_front by lia. f_equal; [f_equal; lia|].
  apply map_ziota_eq; [lia | intros; f_equal; lia].
Qed.

Lemma skipn_S_tl {A} : forall a (l : list A), skipn (S a) l = tl (skipn a l).
Proof.
  induction a as [|a IH]; intros [|x l]; try reflexivity. cbn [skipn]. rewrite <- IH. reflexivity.
Qed.

Section WindowsContents.
  Variable A : Type.
  Lemma windows_contents_gen n : 1 <= n -> forall fuel (l : list A) o k,
    0 <= o -> 0 <= k -> o + k = zlen l -> k <= Z.of_nat fuel ->
    map (sub l) (windows_abs (mk_windows (mkv o k) n)) = windows_list fuel (Z.to_nat n) (skipn (Z.to_nat o) l).
  Proof.
    intros Hn. induction fuel as [|f IH]; intros l o k Ho Hk Hs Hf.
    - unfold windows_abs. cbn [w_slice w_size voff vlen]. rewrite map_ziota_nil by lia. reflexivity.
    - assert (Ht : length (skipn (Z.to_nat o) l) = Z.to_nat k) by (rewrite skipn_length; unfold zlen in Hs; lia).
      cbn [windows_list]. destruct (Nat.ltb_spec (length (skipn (Z.to_nat o) l)) (Z.to_nat n)) as [Hlt|Hge].
      + unfold windows_abs. cbn [w_slice w_size voff vlen]. rewrite map_ziota_nil by lia. reflexivity.
      + rewrite windows_abs_unfold by lia. cbn [map]. f_equal.
        rewrite (IH l (o + 1) (k - 1)) by lia. f_equal.
        replace (Z.to_nat (o + 1)) with (S (Z.to_nat o)) by lia. apply skipn_S_tl.
  Qed.

  (** windows(n) of a list = its first n elements, then windows(n) of its tail *)
  Theorem windows_contents n (l : list A) : 1 <= n ->
    map (sub l) (windows_spec n (zlen l)) = windows_list (length l) (Z.to_nat n) l.
  Proof.
    intro Hn. rewrite <- windows_abs_new.
    rewrite (windows_contents_gen n Hn (length l) l 0 (zlen l)); unfold zlen; try lia. reflexivity.
  Qed.
End WindowsContents.
