(** Proofs for C08: every slice iterator of the model refines the deque of items its std
    counterpart yields, for every slice length, every size >= 1 and every interleaving of
    front and back calls; no call panics; [rev] swaps the ends; [copy] is a value copy;
    the remainder never changes. *)
From KV Require Import Base.Prelude Base.Deque Model.SliceIter Spec.SliceIter.

(* ------------------------------------------------------------------------------------ *)
(** * [ziota] *)

Lemma ziota_nonpos k : k <= 0 -> ziota k = [].
Proof. intro H. unfold ziota. replace (Z.to_nat k) with O by lia. reflexivity. Qed.

Lemma seq_shift_Z (len : nat) : forall start,
  map Z.of_nat (seq (S start) len) = map (fun i => i + 1) (map Z.of_nat (seq start len)).
Proof.
  induction len as [|len IH]; intro start; [reflexivity|].
  cbn [seq map]. f_equal; [lia | apply IH].
Qed.

Lemma ziota_front k : 0 < k -> ziota k = 0 :: map (fun i => i + 1) (ziota (k - 1)).
Proof.
  intro H. unfold ziota. replace (Z.to_nat k) with (S (Z.to_nat (k - 1))) by lia.
  cbn [seq map]. f_equal. apply seq_shift_Z.
Qed.

Lemma ziota_back k : 0 < k -> ziota k = ziota (k - 1) ++ [k - 1].
Proof.
  intro H. unfold ziota. replace (Z.to_nat k) with (Z.to_nat (k - 1) + 1)%nat by lia.
  rewrite seq_app, map_app. cbn [seq map]. do 2 f_equal. lia.
Qed.

Lemma In_ziota i k : In i (ziota k) <-> 0 <= i < k.
Proof.
  unfold ziota. rewrite in_map_iff. split.
  - intros [j [E Hj]]. apply in_seq in Hj. lia.
  - intro H. exists (Z.to_nat i). split; [lia | apply in_seq; lia].
Qed.

Lemma map_ziota_eq {B} (f g : Z -> B) k k' :
  k = k' -> (forall i, 0 <= i < k -> f i = g i) -> map f (ziota k) = map g (ziota k').
Proof. intros <- H. apply map_ext_in. intros i Hi. apply H. now apply In_ziota. Qed.

Lemma map_ziota_front {B} (f : Z -> B) k :
  0 < k -> map f (ziota k) = f 0 :: map (fun i => f (i + 1)) (ziota (k - 1)).
Proof. intro H. rewrite (ziota_front k H). cbn [map]. now rewrite map_map. Qed.

Lemma map_ziota_back {B} (f : Z -> B) k :
  0 < k -> map f (ziota k) = map f (ziota (k - 1)) ++ [f (k - 1)].
Proof. intro H. rewrite (ziota_back k H) at 1. now rewrite map_app. Qed.

Lemma map_ziota_nil {B} (f : Z -> B) k : k <= 0 -> map f (ziota k) = [].
Proof. intro H. now rewrite ziota_nonpos. Qed.

Lemma length_ziota k : 0 <= k -> zlen (ziota k) = k.
Proof. intro H. unfold zlen, ziota. rewrite map_length, seq_length. lia. Qed.

(* ------------------------------------------------------------------------------------ *)
(** * deques *)

Lemma deque_run_rev {A} : forall h (l : list A),
  deque_run h (rev l) = deque_run (map swap_end h) l.
Proof.
  induction h as [|e h IH]; intro l; [reflexivity|].
  destruct e; cbn [map swap_end deque_run].
  - unfold pop_back. destruct (rev l) as [|x r] eqn:E.
    + rewrite <- E. now rewrite IH.
    + f_equal. rewrite <- (rev_involutive r) at 1. apply IH.
  - unfold pop_back. rewrite rev_involutive. destruct l as [|x r].
    + f_equal. apply (IH []).
    + f_equal. apply IH.
Qed.

Lemma swap_end_involutive h : map swap_end (map swap_end h) = h.
Proof. induction h as [|[|] h IH]; cbn; now rewrite ?IH. Qed.

(* ------------------------------------------------------------------------------------ *)
(** * iterator_shared!: from the two blocks to the forward and the reversed iterator *)

Definition step_opt {I S} (s : step I S) : option (I * S) :=
  match s with Yield x s' => Some (x, s') | _ => None end.

Lemma it_copy_id {C} (it : iter C) : it_copy it = it.
Proof. now destruct it. Qed.
Lemma it_rev_rev {C} (it : iter C) : it_rev (it_rev it) = it.
Proof. destruct it as [f c]. unfold it_rev. cbn. now rewrite negb_involutive. Qed.

Section SharedProofs.
  Variables C I : Type.
  Variable nb bb : C -> step I C.
  (** the items a state has not yielded yet, in [next_block] order; the states the two
      facts are claimed for *)
  Variable cabs : C -> list I.
  Variable cinv : C -> Prop.
  Hypothesis nb_ok : forall c, cinv c ->
    match nb c with
    | Stop => cabs c = []
    | Yield x c' => cabs c = x :: cabs c' /\ cinv c'
    | Panic => False
    end.
  Hypothesis bb_ok : forall c, cinv c ->
    match bb c with
    | Stop => cabs c = []
    | Yield x c' => cabs c = cabs c' ++ [x] /\ cinv c'
    | Panic => False
    end.

  Definition it_abs (it : iter C) : list I :=
    if is_forward it then cabs (core it) else rev (cabs (core it)).
  Definition it_inv (it : iter C) : Prop := cinv (core it).

  Lemma it_next_ok it : it_inv it ->
    match it_next nb bb it with
    | Stop => it_abs it = []
    | Yield x it' => it_abs it = x :: it_abs it' /\ it_inv it'
    | Panic => False
    end.
  Proof.
    destruct it as [[|] c]; unfold it_inv, it_abs, it_next; cbn [is_forward core]; intro Hc.
    - pose proof (nb_ok c Hc) as H. destruct (nb c); cbn [lift is_forward core]; auto.
    - pose proof (bb_ok c Hc) as H. destruct (bb c); cbn [lift is_forward core].
      + now rewrite H.
      + destruct H as [E Hi]. split; [|exact Hi]. rewrite E, rev_app_distr. reflexivity.
      + exact H.
  Qed.

  Lemma it_next_back_ok it : it_inv it ->
    match it_next_back nb bb it with
    | Stop => it_abs it = []
    | Yield x it' => it_abs it = it_abs it' ++ [x] /\ it_inv it'
    | Panic => False
    end.
  Proof.
    destruct it as [[|] c]; unfold it_inv, it_abs, it_next_back; cbn [is_forward core]; intro Hc.
    - pose proof (bb_ok c Hc) as H. destruct (bb c); cbn [lift is_forward core]; auto.
    - pose proof (nb_ok c Hc) as H. destruct (nb c); cbn [lift is_forward core].
      + now rewrite H.
      + destruct H as [E Hi]. split; [|exact Hi]. rewrite E. reflexivity.
      + exact H.
  Qed.

  Definition nexto (it : iter C) := step_opt (it_next nb bb it).
  Definition backo (it : iter C) := step_opt (it_next_back nb bb it).

  Lemma nexto_ok it : it_inv it ->
    match nexto it with
    | None => it_abs it = []
    | Some (x, it') => it_abs it = x :: it_abs it' /\ it_inv it'
    end.
  Proof.
    intro Hi. pose proof (it_next_ok it Hi) as H. unfold nexto.
    destruct (it_next nb bb it); cbn [step_opt]; auto. contradiction.
  Qed.
  Lemma backo_ok it : it_inv it ->
    match backo it with
    | None => it_abs it = []
    | Some (x, it') => it_abs it = it_abs it' ++ [x] /\ it_inv it'
    end.
  Proof.
    intro Hi. pose proof (it_next_back_ok it Hi) as H. unfold backo.
    destruct (it_next_back nb bb it); cbn [step_opt]; auto. contradiction.
  Qed.

  (** the model's run never panics and is the generic run of Base/Deque.v *)
  Lemma run_m_is_run : forall h it, it_inv it ->
    run_m nb bb h it = Some (run (iter C) I nexto backo h it).
  Proof.
    induction h as [|e h IH]; intros it Hi; [reflexivity|].
    cbn [run_m run]. rewrite it_copy_id. unfold nexto, backo.
    destruct e; cbn [it_step].
    - pose proof (it_next_ok it Hi) as H.
      destruct (it_next nb bb it) as [|x it'|]; cbn [step_opt].
      + now rewrite IH.
      + destruct H as [_ Hi']. now rewrite IH.
      + contradiction.
    - pose proof (it_next_back_ok it Hi) as H.
      destruct (it_next_back nb bb it) as [|x it'|]; cbn [step_opt].
      + now rewrite IH.
      + destruct H as [_ Hi']. now rewrite IH.
      + contradiction.
  Qed.

  (** EVERY interleaving of front and back calls: same items, same order, ends at the
      same call, no panic *)
  Theorem run_m_refines : forall h it, it_inv it ->
    run_m nb bb h it = Some (deque_run h (it_abs it)).
  Proof.
    intros h it Hi. rewrite run_m_is_run by exact Hi. f_equal.
    apply (run_refines (iter C) I nexto backo it_abs it_inv nexto_ok backo_ok h it Hi).
  Qed.

  (** the iterator held after a history still satisfies the invariant and has exactly the
      rest of the deque ahead of it *)
  Theorem final_m_refines : forall h it, it_inv it ->
    exists it', final_m nb bb h it = Some it' /\ it_inv it' /\
                it_abs it' = deque_rest h (it_abs it) /\ is_forward it' = is_forward it.
  Proof.
    induction h as [|e h IH]; intros it Hi.
    - exists it. cbn. auto.
    - cbn [final_m deque_rest]. rewrite it_copy_id. destruct e; cbn [it_step].
      + pose proof (it_next_ok it Hi) as H.
        destruct (it_next nb bb it) as [|x it'|] eqn:E.
        * rewrite H. rewrite <- H. now apply IH.
        * destruct H as [Ea Hi']. rewrite Ea.
          destruct (IH it' Hi') as [it2 [F [I2 [A2 D2]]]]. exists it2. repeat split; auto.
          rewrite D2. unfold it_next in E. destruct it as [f c]. cbn [is_forward core] in *.
          destruct (if f then nb c else bb c); cbn [lift] in E; inversion E; reflexivity.
        * contradiction.
      + pose proof (it_next_back_ok it Hi) as H.
        destruct (it_next_back nb bb it) as [|x it'|] eqn:E.
        * rewrite H, pop_back_nil. rewrite <- H. now apply IH.
        * destruct H as [Ea Hi']. rewrite Ea, pop_back_app.
          destruct (IH it' Hi') as [it2 [F [I2 [A2 D2]]]]. exists it2. repeat split; auto.
          rewrite D2. unfold it_next_back in E. destruct it as [f c]. cbn [is_forward core] in *.
          destruct (if f then bb c else nb c); cbn [lift] in E; inversion E; reflexivity.
        * contradiction.
  Qed.

  Lemma it_abs_rev it : it_abs (it_rev it) = rev (it_abs it).
  Proof.
    destruct it as [[|] c]; unfold it_abs, it_rev; cbn [is_forward core negb]; [reflexivity|].
    now rewrite rev_involutive.
  Qed.
  Lemma it_inv_rev it : it_inv (it_rev it) <-> it_inv it.
  Proof. destruct it; unfold it_inv, it_rev; cbn. tauto. Qed.

  (** reversing swaps the two ends: [next] of the reversed iterator is [next_back] of
      the original, for whole histories *)
  Theorem rev_swaps_ends : forall h it, it_inv it ->
    run_m nb bb h (it_rev it) = run_m nb bb (map swap_end h) it.
  Proof.
    intros h it Hi. rewrite (run_m_refines h (it_rev it)) by now apply it_inv_rev.
    rewrite (run_m_refines _ it Hi), it_abs_rev. f_equal. apply deque_run_rev.
  Qed.

  (** a field that neither block changes is the same after every history *)
  Section Preserved.
    Variable R : Type.
    Variable g : C -> R.
    Hypothesis nb_pres : forall c x c', nb c = Yield x c' -> g c' = g c.
    Hypothesis bb_pres : forall c x c', bb c = Yield x c' -> g c' = g c.

    Lemma step_pres e it x it' : it_step nb bb e it = Yield x it' -> g (core it') = g (core it).
    Proof.
      destruct it as [f c]. unfold it_step, it_next, it_next_back. cbn [is_forward core].
      intro E.
      assert (H : forall s, lift C I f s = Yield x it' -> exists c', s = Yield x c' /\ it' = mk_iter f c').
      { intros [|y c1|]; cbn [lift]; intro E1; inversion E1; eauto. }
      destruct e, f; apply H in E; destruct E as [c' [E ->]]; cbn [core]; eauto.
    Qed.

    Theorem final_m_preserves : forall h it it',
      final_m nb bb h it = Some it' -> g (core it') = g (core it).
    Proof.
      induction h as [|e h IH]; intros it it' F.
      - cbn in F. now inversion F.
      - cbn [final_m] in F. rewrite it_copy_id in F.
        destruct (it_step nb bb e it) as [|x it1|] eqn:E.
        + now apply IH.
        + rewrite (IH it1 it' F). eapply step_pres; eauto.
        + discriminate.
    Qed.
  End Preserved.
  (** both directions at once, from a core state *)
  Lemma both_refine h c : cinv c ->
    run_m nb bb h (fwd c) = Some (deque_run h (cabs c)) /\
    run_m nb bb h (it_rev (fwd c)) = Some (deque_run h (rev (cabs c))).
  Proof.
    intro Hc. split.
    - now rewrite (run_m_refines h (fwd c)) by exact Hc.
    - now rewrite (run_m_refines h (it_rev (fwd c))) by exact Hc.
  Qed.
End SharedProofs.

(* ------------------------------------------------------------------------------------ *)
(** * arithmetic of the split points *)

Ltac zcase :=
  repeat match goal with
  | |- context [if ?a <? ?b then _ else _] => destruct (Z.ltb_spec a b)
  | |- context [if ?a <=? ?b then _ else _] => destruct (Z.leb_spec a b)
  | |- context [if ?a =? ?b then _ else _] => destruct (Z.eqb_spec a b)
  end.

Lemma cnt_pos n l : 1 <= n -> 0 < l -> chunks_count n l = (l - 1) / n + 1.
Proof.
  intros Hn Hl. unfold chunks_count. replace (l + n - 1) with ((l - 1) + 1 * n) by lia.
  rewrite Z.div_add by lia. reflexivity.
Qed.
Lemma cnt_mul n q : 1 <= n -> chunks_count n (q * n) = q.
Proof.
  intros Hn. unfold chunks_count. replace (q * n + n - 1) with ((n - 1) + q * n) by lia.
  rewrite Z.div_add by lia. rewrite Z.div_small by lia. lia.
Qed.
Lemma cnt_zero n : 1 <= n -> chunks_count n 0 = 0.
Proof. intro Hn. apply (cnt_mul n 0 Hn). Qed.
Lemma cnt_sub n l : 1 <= n -> chunks_count n (l - n) = chunks_count n l - 1.
Proof.
  intros Hn. unfold chunks_count. replace (l - n + n - 1) with ((l + n - 1) + (-1) * n) by lia.
  rewrite Z.div_add by lia. lia.
Qed.
Lemma cnt_small n l : 1 <= n -> 0 < l <= n -> chunks_count n l = 1.
Proof. intros Hn Hl. rewrite cnt_pos by lia. rewrite Z.div_small by lia. reflexivity. Qed.
Lemma cnt_nonneg n l : 1 <= n -> 0 <= l -> 0 <= chunks_count n l.
Proof. intros. unfold chunks_count. apply Z.div_pos; lia. Qed.

(** q = (l-1)/n is the index of the last chunk: q*n < l <= q*n + n *)
Lemma last_chunk_bounds n l : 1 <= n -> 0 < l ->
  0 <= (l - 1) / n /\ (l - 1) / n * n < l /\ l <= (l - 1) / n * n + n.
Proof.
  intros Hn Hl. pose proof (Z.div_mod (l - 1) n ltac:(lia)) as E.
  pose proof (Z.mod_pos_bound (l - 1) n ltac:(lia)) as B.
  assert (0 <= (l - 1) / n) by (apply Z.div_pos; lia).
  rewrite (Z.mul_comm n) in E. lia.
Qed.

Lemma mul_step n i q : 0 <= n -> i + 1 <= q -> i * n + n <= q * n.
Proof. intros Hn H. replace (i * n + n) with ((i + 1) * n) by lia. apply Z.mul_le_mono_nonneg_r; lia. Qed.

(** every step of a division by n *)
Lemma div_exact_sub n l : 1 <= n -> (l - n) / n = l / n - 1.
Proof. intro Hn. replace (l - n) with (l + (-1) * n) by lia. rewrite Z.div_add by lia. lia. Qed.
Lemma mod_exact_sub n l : 1 <= n -> (l - n) mod n = l mod n.
Proof. intro Hn. replace (l - n) with (l + (-1) * n) by lia. now rewrite Z.mod_add by lia. Qed.
Lemma exact_len n l : 1 <= n -> l mod n = 0 -> l = l / n * n.
Proof. intros Hn Hm. pose proof (Z.div_mod l n ltac:(lia)) as E. rewrite (Z.mul_comm n) in E. lia. Qed.
Lemma exact_ge n l : 1 <= n -> 0 <= l -> l mod n = 0 -> l <> 0 -> n <= l /\ 1 <= l / n.
Proof.
  intros Hn Hl Hm Hz. pose proof (exact_len n l Hn Hm) as E.
  assert (0 <= l / n) by (apply Z.div_pos; lia).
  assert (l / n <> 0) by (intro Z0; rewrite Z0 in E; lia).
  split; [|lia]. rewrite E. replace n with (1 * n) at 1 by lia. apply Z.mul_le_mono_nonneg_r; lia.
Qed.

(* ------------------------------------------------------------------------------------ *)
(** * Iter / IterRev *)

Definition iter_abs (s : view) : list Z := view_indices s.
Definition iter_inv (_ : view) : Prop := True.

Lemma iter_next_ok s : iter_inv s ->
  match iter_next s with
  | Stop => iter_abs s = []
  | Yield x s' => iter_abs s = x :: iter_abs s' /\ iter_inv s'
  | Panic => False
  end.
Proof.
  intros _. destruct s as [o l]. unfold iter_next, iter_abs, view_indices, iter_inv. cbn [voff vlen].
  zcase.
  - apply map_ziota_nil; lia.
  - split; [|exact Logic.I]. rewrite map_ziota_front by lia. cbn [voff vlen]. f_equal; [lia|].
    apply map_ziota_eq; [reflexivity | intros; lia].
Qed.
Lemma iter_next_back_ok s : iter_inv s ->
  match iter_next_back s with
  | Stop => iter_abs s = []
  | Yield x s' => iter_abs s = iter_abs s' ++ [x] /\ iter_inv s'
  | Panic => False
  end.
Proof.
  intros _. destruct s as [o l]. unfold iter_next_back, iter_abs, view_indices, iter_inv. cbn [voff vlen].
  zcase.
  - apply map_ziota_nil; lia.
  - split; [|exact Logic.I]. rewrite map_ziota_back by lia. cbn [voff vlen]. f_equal. f_equal. lia.
Qed.
Lemma iter_abs_new len : iter_abs (iter_new len) = iter_spec len.
Proof.
  unfold iter_abs, view_indices, iter_new, iter_spec. cbn [voff vlen].
  rewrite <- (map_id (ziota len)) at 2. apply map_ziota_eq; [reflexivity | intros; lia].
Qed.

Theorem iter_refines len h :
  run_m iter_next iter_next_back h (fwd (iter_new len)) = Some (deque_run h (iter_spec len)).
Proof.
  rewrite (run_m_refines _ _ _ _ iter_abs iter_inv iter_next_ok iter_next_back_ok) by exact Logic.I.
  unfold it_abs, fwd. cbn [is_forward core]. now rewrite iter_abs_new.
Qed.
Theorem iter_rev_refines len h :
  run_m iter_next iter_next_back h (it_rev (fwd (iter_new len))) = Some (deque_run h (rev (iter_spec len))).
Proof.
  rewrite (run_m_refines _ _ _ _ iter_abs iter_inv iter_next_ok iter_next_back_ok) by exact Logic.I.
  unfold it_abs, fwd, it_rev. cbn [is_forward core negb]. now rewrite iter_abs_new.
Qed.
(** as_slice() after any history covers exactly the elements not yet yielded *)
Theorem iter_as_slice_rest len h :
  exists it', final_m iter_next iter_next_back h (fwd (iter_new len)) = Some it' /\
              view_indices (iter_as_slice (core it')) = deque_rest h (iter_spec len).
Proof.
  destruct (final_m_refines _ _ _ _ iter_abs iter_inv iter_next_ok iter_next_back_ok h (fwd (iter_new len)) Logic.I)
    as [it' [F [_ [A D]]]].
  exists it'. split; [exact F|]. unfold it_abs in A. rewrite D in A. cbn [fwd is_forward core] in A.
  rewrite iter_abs_new in A. exact A.
Qed.
Theorem iter_rev_as_slice_rest len h :
  exists it', final_m iter_next iter_next_back h (it_rev (fwd (iter_new len))) = Some it' /\
              rev (view_indices (iter_as_slice (core it'))) = deque_rest h (rev (iter_spec len)).
Proof.
  destruct (final_m_refines _ _ _ _ iter_abs iter_inv iter_next_ok iter_next_back_ok h (it_rev (fwd (iter_new len))) Logic.I)
    as [it' [F [_ [A D]]]].
  exists it'. split; [exact F|]. unfold it_abs in A. rewrite D in A. cbn [fwd it_rev is_forward core negb] in A.
  rewrite iter_abs_new in A. exact A.
Qed.

(* ------------------------------------------------------------------------------------ *)
(** * IterCopied / IterCopiedRev (element type abstract) *)

Section CopiedProofs.
  Variable A : Type.
  Variable l : list A.

  Definition copied_abs (s : cslice A) : list A := c_elems s.
  (** the view [as_slice()] reports covers exactly the remaining elements of [l] *)
  Definition copied_inv (s : cslice A) : Prop :=
    exists pre post, l = pre ++ c_elems s ++ post /\
                     voff (c_view s) = zlen pre /\ vlen (c_view s) = zlen (c_elems s).

  Lemma copied_next_ok s : copied_inv s ->
    match copied_next s with
    | Stop => copied_abs s = []
    | Yield x s' => copied_abs s = x :: copied_abs s' /\ copied_inv s'
    | Panic => False
    end.
  Proof.
    destruct s as [[o n] es]. unfold copied_next, copied_abs, copied_inv. cbn [c_elems c_view voff vlen].
    intros [pre [post [E [Ho Hn]]]]. destruct es as [|x r]; [reflexivity|].
    split; [reflexivity|]. exists (pre ++ [x]), post. cbn [c_elems c_view voff vlen].
    rewrite zlen_app, zlen_cons, zlen_nil. rewrite zlen_cons in Hn.
    repeat split; try lia. rewrite <- app_assoc. exact E.
  Qed.

  Lemma copied_next_back_ok s : copied_inv s ->
    match copied_next_back s with
    | Stop => copied_abs s = []
    | Yield x s' => copied_abs s = copied_abs s' ++ [x] /\ copied_inv s'
    | Panic => False
    end.
  Proof.
    destruct s as [[o n] es]. unfold copied_next_back, copied_abs, copied_inv. cbn [c_elems c_view voff vlen].
    intros [pre [post [E [Ho Hn]]]]. destruct (rev es) as [|x r] eqn:R.
    - rewrite <- (rev_involutive es), R. reflexivity.
    - assert (Es : es = rev r ++ [x]) by (rewrite <- (rev_involutive es), R; reflexivity).
      split; [exact Es|]. exists pre, (x :: post). cbn [c_elems c_view voff vlen].
      rewrite Es, zlen_app, zlen_cons, zlen_nil in Hn.
      repeat split; try lia. rewrite E, Es, <- app_assoc. reflexivity.
  Qed.

  Lemma copied_inv_new : copied_inv (copied_new l).
  Proof.
    exists [], []. unfold copied_new. cbn [c_elems c_view voff vlen app].
    split; [symmetry; apply app_nil_r | split; reflexivity].
  Qed.

  Theorem copied_refines h :
    run_m copied_next copied_next_back h (fwd (copied_new l)) = Some (deque_run h l).
  Proof.
    now rewrite (run_m_refines _ _ _ _ copied_abs copied_inv copied_next_ok copied_next_back_ok)
      by exact copied_inv_new.
  Qed.
  Theorem copied_rev_refines h :
    run_m copied_next copied_next_back h (it_rev (fwd (copied_new l))) = Some (deque_run h (rev l)).
  Proof.
    now rewrite (run_m_refines _ _ _ _ copied_abs copied_inv copied_next_ok copied_next_back_ok)
      by exact copied_inv_new.
  Qed.

  Lemma copied_inv_sub s : copied_inv s -> sub l (copied_as_slice s) = c_elems s.
  Proof.
    intros [pre [post [E [Ho Hn]]]]. unfold sub, copied_as_slice. rewrite Ho, Hn, E. unfold zlen.
    rewrite !Nat2Z.id. rewrite skipn_app, skipn_all, Nat.sub_diag. cbn [skipn app].
    rewrite firstn_app, firstn_all, Nat.sub_diag. cbn [firstn]. now rewrite app_nil_r.
  Qed.

  (** as_slice() after any history is exactly the part of the slice not yet yielded *)
  Theorem copied_as_slice_rest h :
    exists it', final_m copied_next copied_next_back h (fwd (copied_new l)) = Some it' /\
                sub l (copied_as_slice (core it')) = deque_rest h l.
  Proof.
    destruct (final_m_refines _ _ _ _ copied_abs copied_inv copied_next_ok copied_next_back_ok h
                (fwd (copied_new l)) copied_inv_new) as [it' [F [Iv [Ab D]]]].
    exists it'. split; [exact F|]. rewrite (copied_inv_sub _ Iv).
    unfold it_abs in Ab. rewrite D in Ab. exact Ab.
  Qed.
  Theorem copied_rev_as_slice_rest h :
    exists it', final_m copied_next copied_next_back h (it_rev (fwd (copied_new l))) = Some it' /\
                rev (sub l (copied_as_slice (core it'))) = deque_rest h (rev l).
  Proof.
    destruct (final_m_refines _ _ _ _ copied_abs copied_inv copied_next_ok copied_next_back_ok h
                (it_rev (fwd (copied_new l))) copied_inv_new) as [it' [F [Iv [Ab D]]]].
    exists it'. split; [exact F|]. rewrite (copied_inv_sub _ Iv).
    unfold it_abs in Ab. rewrite D in Ab. exact Ab.
  Qed.
End CopiedProofs.

(* ------------------------------------------------------------------------------------ *)
(** * Windows / WindowsRev *)

Definition windows_abs (w : windows) : list view :=
  map (fun i => mkv (voff (w_slice w) + i) (w_size w))
      (ziota (vlen (w_slice w) - w_size w + 1)).
Definition windows_inv (w : windows) : Prop := 1 <= w_size w.

Lemma windows_next_ok w : windows_inv w ->
  match windows_next w with
  | Stop => windows_abs w = []
  | Yield x w' => windows_abs w = x :: windows_abs w' /\ windows_inv w'
  | Panic => False
  end.
Proof.
  destruct w as [[o l] n].
  unfold windows_next, windows_abs, windows_inv, slice_up_to, slice_from. cbn [w_slice w_size voff vlen].
  intro Hn. zcase; try (exfalso; lia).
  - apply map_ziota_nil; lia.
  - split; [|exact Hn]. rewrite map_ziota_front by lia. cbn [w_slice w_size voff vlen].
    f_equal; [f_equal; lia|]. apply map_ziota_eq; [lia | intros; f_equal; lia].
Qed.

Lemma windows_next_back_ok w : windows_inv w ->
  match windows_next_back w with
  | Stop => windows_abs w = []
  | Yield x w' => windows_abs w = windows_abs w' ++ [x] /\ windows_inv w'
  | Panic => False
  end.
Proof.
  destruct w as [[o l] n].
  unfold windows_next_back, windows_abs, windows_inv, slice_up_to, slice_from, usub. cbn [w_slice w_size voff vlen].
  intro Hn. zcase; cbn [w_slice w_size voff vlen]; zcase; try (exfalso; lia).
  - apply map_ziota_nil; lia.
  - split; [|exact Hn]. rewrite map_ziota_back by lia.
    f_equal; [apply map_ziota_eq; [lia | intros; reflexivity] | f_equal; f_equal; lia].
Qed.

Lemma windows_abs_new len n : windows_abs (mk_windows (mkv 0 len) n) = windows_spec n len.
Proof.
  unfold windows_abs, windows_spec. cbn [w_slice w_size voff vlen].
  apply map_ziota_eq; [reflexivity | intros; f_equal; lia].
Qed.

Theorem windows_refines len n h : 1 <= n ->
  exists w, windows_new len n = Some w /\
    run_m windows_next windows_next_back h (fwd w) = Some (deque_run h (windows_spec n len)) /\
    run_m windows_next windows_next_back h (it_rev (fwd w)) = Some (deque_run h (rev (windows_spec n len))).
Proof.
  intro Hn. unfold windows_new. destruct (Z.eqb_spec n 0); [lia|].
  eexists; split; [reflexivity|]. rewrite <- windows_abs_new.
  apply (both_refine _ _ _ _ windows_abs windows_inv windows_next_ok windows_next_back_ok). exact Hn.
Qed.

(* ------------------------------------------------------------------------------------ *)
(** * Chunks / ChunksRev *)

Definition chunks_abs_v (n : Z) (s : view) : list view :=
  map (fun i => mkv (voff s + i * n) (Z.min n (vlen s - i * n))) (ziota (chunks_count n (vlen s))).
Definition chunks_abs (c : chunks) : list view :=
  match c_slice c with None => [] | Some s => chunks_abs_v (c_size c) s end.
Definition chunks_inv (c : chunks) : Prop :=
  1 <= c_size c /\ match c_slice c with None => True | Some s => 0 < vlen s end.

Lemma chunks_abs_v_empty n s : 1 <= n -> vlen s = 0 -> chunks_abs_v n s = [].
Proof. intros Hn E. unfold chunks_abs_v. rewrite E, cnt_zero by exact Hn. reflexivity. Qed.

Lemma chunks_sine n s : 1 <= n -> 0 <= vlen s ->
  chunks_abs (mk_chunks (some_if_nonempty s) n) = chunks_abs_v n s /\
  chunks_inv (mk_chunks (some_if_nonempty s) n).
Proof.
  intros Hn Hs. unfold some_if_nonempty, chunks_abs, chunks_inv. destruct (Z.eqb_spec (vlen s) 0) as [E|E];
    cbn [c_slice c_size].
  - split; [symmetry; now apply chunks_abs_v_empty | auto].
  - split; [reflexivity | split; lia].
Qed.

Lemma chunks_abs_v_single n o l : 1 <= n -> 0 < l <= n -> chunks_abs_v n (mkv o l) = [mkv o l].
Proof.
  intros Hn Hl. unfold chunks_abs_v. cbn [voff vlen]. rewrite cnt_small by lia.
  rewrite map_ziota_front by lia. rewrite map_ziota_nil by lia. f_equal. f_equal; lia.
Qed.

Lemma chunks_next_ok c : chunks_inv c ->
  match chunks_next c with
  | Stop => chunks_abs c = []
  | Yield x c' => chunks_abs c = x :: chunks_abs c' /\ chunks_inv c'
  | Panic => False
  end.
Proof.
  destruct c as [[[o l]|] n]; unfold chunks_next, chunks_inv; cbn [c_slice c_size voff vlen];
    [|reflexivity].
  intros [Hn Hl]. unfold split_at, slice_up_to, slice_from. cbn [voff vlen].
  destruct (Z.ltb_spec l n) as [Hlt|Hge].
  - destruct (chunks_sine n empty_static Hn ltac:(cbn; lia)) as [Ea Ei]. rewrite Ea.
    split; [|exact Ei]. unfold chunks_abs. cbn [c_slice c_size].
    rewrite chunks_abs_v_single by lia. rewrite chunks_abs_v_empty by (cbn; lia). reflexivity.
  - destruct (chunks_sine n (mkv (o + n) (l - n)) Hn ltac:(cbn; lia)) as [Ea Ei]. rewrite Ea.
    split; [|exact Ei]. unfold chunks_abs, chunks_abs_v. cbn [c_slice c_size voff vlen].
    pose proof (cnt_nonneg n (l - n) Hn ltac:(lia)) as Hc. rewrite cnt_sub in Hc by lia.
    rewrite map_ziota_front by lia.
    f_equal; [f_equal; lia|]. apply map_ziota_eq; [now rewrite cnt_sub | intros; f_equal; lia].
Qed.

Lemma chunks_next_back_ok c : chunks_inv c ->
  match chunks_next_back c with
  | Stop => chunks_abs c = []
  | Yield x c' => chunks_abs c = chunks_abs c' ++ [x] /\ chunks_inv c'
  | Panic => False
  end.
Proof.
  destruct c as [[[o l]|] n]; unfold chunks_next_back, chunks_inv; cbn [c_slice c_size voff vlen];
    [|reflexivity].
  intros [Hn Hl]. unfold usub, udiv. zcase; try (exfalso; lia).
  destruct (last_chunk_bounds n l Hn Hl) as [Hq [Hlo Hhi]].
  set (q := (l - 1) / n) in *.
  unfold split_at, slice_up_to, slice_from. cbn [voff vlen]. zcase; try (exfalso; lia).
  destruct (chunks_sine n (mkv o (q * n)) Hn ltac:(cbn; lia)) as [Ea Ei]. rewrite Ea.
  split; [|exact Ei]. unfold chunks_abs, chunks_abs_v. cbn [c_slice c_size voff vlen].
  rewrite (cnt_pos n l Hn Hl). fold q. rewrite cnt_mul by exact Hn.
  rewrite map_ziota_back by lia. replace (q + 1 - 1) with q by lia.
  f_equal.
  - apply map_ziota_eq; [reflexivity|]. intros i Hi. f_equal.
    pose proof (mul_step n i q ltac:(lia) ltac:(lia)). lia.
  - f_equal. f_equal. lia.
Qed.

Lemma chunks_abs_new len n : 1 <= n -> 0 <= len ->
  exists c, chunks_new len n = Some c /\ chunks_abs c = chunks_spec n len /\ chunks_inv c.
Proof.
  intros Hn Hl. unfold chunks_new. destruct (Z.eqb_spec n 0); [lia|].
  eexists; split; [reflexivity|].
  destruct (chunks_sine n (mkv 0 len) Hn Hl) as [Ea Ei]. split; [|exact Ei]. rewrite Ea.
  unfold chunks_abs_v, chunks_spec. cbn [voff vlen].
  apply map_ziota_eq; [reflexivity | intros; f_equal; lia].
Qed.

Theorem chunks_refines len n h : 1 <= n -> 0 <= len ->
  exists c, chunks_new len n = Some c /\
    run_m chunks_next chunks_next_back h (fwd c) = Some (deque_run h (chunks_spec n len)) /\
    run_m chunks_next chunks_next_back h (it_rev (fwd c)) = Some (deque_run h (rev (chunks_spec n len))).
Proof.
  intros Hn Hl. destruct (chunks_abs_new len n Hn Hl) as [c [E [A Iv]]].
  exists c; split; [exact E|]. rewrite <- A.
  apply (both_refine _ _ _ _ chunks_abs chunks_inv chunks_next_ok chunks_next_back_ok). exact Iv.
Qed.
