(** C15 — proofs about Model/Destructure.v: every element of the destructured value is
    either bound (moved into exactly one new variable) or dropped at once, exactly once. *)
From KV Require Import Base.Prelude Model.Destructure.
Local Open Scope nat_scope.

Definition cnt (l : list Z) (i : Z) : nat := count_occ Z.eq_dec l i.

Lemma cnt_app a b i : cnt (a ++ b) i = cnt a i + cnt b i.
Proof. unfold cnt. apply count_occ_app. Qed.
Lemma cnt_nil i : cnt [] i = 0.
Proof. reflexivity. Qed.
Lemma concat_app_cnt (a b : list (list Z)) i : cnt (concat (a ++ b)) i = cnt (concat a) i + cnt (concat b) i.
Proof. now rewrite concat_app, cnt_app. Qed.
Lemma concat_rev_cnt (b : list (list Z)) i : cnt (concat (rev b)) i = cnt (concat b) i.
Proof.
  induction b as [|x r IH]; [reflexivity|]. cbn [rev concat].
  rewrite concat_app_cnt, cnt_app, IH. cbn [concat]. rewrite app_nil_r. lia.
Qed.

(** induction over patterns with the nested list *)
Section DpatInd.
  Variable P : dpat -> Prop.
  Hypothesis HB : P PBind.
  Hypothesis HU : P PUnder.
  Hypothesis HN : forall l, Forall P l -> P (PNest l).
  Hypothesis HRB : P PRestBind.
  Hypothesis HRS : P PRestSkip.
  Fixpoint dpat_ind2 (p : dpat) : P p :=
    match p with
    | PBind => HB
    | PUnder => HU
    | PRestBind => HRB
    | PRestSkip => HRS
    | PNest l =>
        HN l ((fix go (l : list dpat) : Forall P l :=
                 match l with
                 | [] => Forall_nil P
                 | x :: r => Forall_cons x (dpat_ind2 x) (go r)
                 end) l)
    end.
End DpatInd.

(** the nested loop of [apply_pat], as a function of its own *)
Fixpoint apply_pats (ps : list dpat) (vs : list dval) : option (list (list Z) * list Z) :=
  match ps, vs with
  | [], [] => Some ([], [])
  | p :: ps', v :: vs' =>
      match apply_pat p v, apply_pats ps' vs' with
      | Some (b1, d1), Some (b2, d2) => Some (b1 ++ b2, d1 ++ d2)
      | _, _ => None
      end
  | _, _ => None
  end.

Lemma apply_pat_nest : forall ps vs, apply_pat (PNest ps) (DNode vs) = apply_pats ps vs.
Proof.
  induction ps as [|p ps IH]; intros [|v vs]; reflexivity.
Qed.

Definition accounts (v_ids : list Z) (r : list (list Z) * list Z) : Prop :=
  forall i, cnt (concat (fst r)) i + cnt (snd r) i = cnt v_ids i.

Lemma apply_pat_count : forall p v r, apply_pat p v = Some r -> accounts (dids v) r.
Proof.
  induction p as [| |ps IH| |] using dpat_ind2; intros v r H.
  - inversion H; subst. intro i. cbn. rewrite app_nil_r. unfold cnt. lia.
  - inversion H; subst. intro i. cbn. reflexivity.
  - destruct v as [j|vs]; [discriminate|]. rewrite apply_pat_nest in H. cbn [dids].
    revert vs r H. induction IH as [|p ps Hp _ IHps]; intros [|v vs] r H; cbn [apply_pats] in H;
      try discriminate.
    + inversion H; subst. intro i. reflexivity.
    + destruct (apply_pat p v) as [[b1 d1]|] eqn:E1; [|discriminate].
      destruct (apply_pats ps vs) as [[b2 d2]|] eqn:E2; [|discriminate].
      inversion H; subst. intro i. cbn [fst snd flat_map].
      specialize (Hp v _ E1 i). specialize (IHps vs _ E2 i). cbn [fst snd] in *.
      rewrite concat_app_cnt, !cnt_app. lia.
  - discriminate.
  - discriminate.
Qed.

Lemma flat_map_firstn_skipn (vals : list dval) k i :
  cnt (flat_map dids vals) i = cnt (flat_map dids (firstn k vals)) i + cnt (flat_map dids (skipn k vals)) i.
Proof. rewrite <- cnt_app, <- flat_map_app, firstn_skipn. reflexivity. Qed.

Lemma reads_count : forall pats arr vals r, reads arr pats vals = Some r -> accounts (flat_map dids vals) r.
Proof.
  induction pats as [|p ps IH]; intros arr vals r H.
  - cbn [reads] in H. destruct vals; [|discriminate]. inversion H; subst. intro i. reflexivity.
  - assert (Hgen : forall v vs, vals = v :: vs ->
              match apply_pat p v, reads arr ps vs with
              | Some (b1, d1), Some (b2, d2) => Some (b1 ++ b2, d1 ++ d2)
              | _, _ => None
              end = Some r -> accounts (flat_map dids vals) r).
    { intros v vs -> H'.
      destruct (apply_pat p v) as [[b1 d1]|] eqn:E1; [|discriminate].
      destruct (reads arr ps vs) as [[b2 d2]|] eqn:E2; [|discriminate].
      inversion H'; subst. intro i. cbn [fst snd flat_map].
      pose proof (apply_pat_count _ _ _ E1 i) as H1. pose proof (IH _ _ _ E2 i) as H2.
      cbn [fst snd] in *. rewrite concat_app_cnt, !cnt_app. lia. }
    destruct p; cbn [reads] in H;
      try (destruct vals as [|v vs]; [discriminate | now apply (Hgen v vs)]).
    + destruct (arr && (length ps <=? length vals)); [|discriminate].
      destruct (reads false ps (skipn (length vals - length ps) vals)) as [[b d]|] eqn:E; [|discriminate].
      inversion H; subst. intro i. cbn [fst snd concat].
      pose proof (IH _ _ _ E i) as H2. cbn [fst snd] in H2.
      rewrite cnt_app, (flat_map_firstn_skipn vals (length vals - length ps)). lia.
    + destruct (arr && (length ps <=? length vals)); [|discriminate].
      destruct (reads false ps (skipn (length vals - length ps) vals)) as [[b d]|] eqn:E; [|discriminate].
      inversion H; subst. intro i. cbn [fst snd].
      pose proof (IH _ _ _ E i) as H2. cbn [fst snd] in H2.
      rewrite cnt_app, (flat_map_firstn_skipn vals (length vals - length ps)). lia.
Qed.

(** every identity of the value is accounted for exactly as often as it occurs in the value
    (once, for distinct elements): either dropped during the statement or owned by exactly
    one new variable; and the end of the scope drops exactly what the variables own *)
Theorem destructure_exactly_once : forall kind vals pats r,
  destructure_m kind vals pats = Some r ->
  forall i, cnt (d_imm r) i + cnt (concat (d_bound r)) i = cnt (flat_map dids vals) i /\
            cnt (d_end r) i = cnt (concat (d_bound r)) i.
Proof.
  intros kind vals pats r H i. unfold destructure_m in H.
  destruct (reads (kind =? 4) pats vals) as [[b d]|] eqn:E; [|discriminate].
  inversion H; subst. cbn [d_imm d_bound d_end].
  pose proof (reads_count _ _ _ _ E i) as Hc. cbn [fst snd] in Hc.
  split; [lia | apply concat_rev_cnt].
Qed.

(** with distinct elements: no identity is dropped twice, bound twice, or both *)
Corollary destructure_no_duplicates : forall kind vals pats r,
  destructure_m kind vals pats = Some r -> NoDup (flat_map dids vals) ->
  NoDup (d_imm r ++ concat (d_bound r)) /\ NoDup (d_imm r ++ d_end r).
Proof.
  intros kind vals pats r H Hnd.
  split; apply (proj2 (NoDup_count_occ Z.eq_dec _)); intro i;
    destruct (destructure_exactly_once _ _ _ _ H i) as [H1 H2];
    pose proof (proj1 (NoDup_count_occ Z.eq_dec _) Hnd i) as H3;
    fold (cnt (flat_map dids vals) i) in H3;
    [fold (cnt (d_imm r ++ concat (d_bound r)) i) | fold (cnt (d_imm r ++ d_end r) i)];
    rewrite cnt_app; lia.
Qed.

(** [_] (and [..] in an array pattern) drops at once; an identifier moves the whole value *)
Theorem underscore_dropped_immediately : forall v, apply_pat PUnder v = Some ([], dids v).
Proof. reflexivity. Qed.
Theorem bind_moves_whole_value : forall v, apply_pat PBind v = Some ([dids v], []).
Proof. reflexivity. Qed.

(** a pattern that binds every field: the variables receive the fields in the order
    listed, nothing is dropped by the statement *)
Theorem all_bind_in_order : forall vals arr,
  reads arr (repeat PBind (length vals)) vals = Some (map dids vals, []).
Proof.
  induction vals as [|v vs IH]; intro arr; [reflexivity|].
  cbn [length repeat reads apply_pat map]. now rewrite IH.
Qed.
