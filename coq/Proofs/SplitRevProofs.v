(** C06: reversing a split iterator AT ANY POINT of its iteration yields the pieces of the
    r-counterpart on the not-yet-split remainder (and nothing once it has finished). *)
From KV Require Import Base.Prelude Model.Search Spec.Search Model.Split Spec.Split Proofs.SplitProofs.
Local Open Scope nat_scope.

Lemma split_st_eta s : s = mk_split (s_this s) (s_state s).
Proof. destruct s; reflexivity. Qed.

Lemma collect_finished_back fuel : collect split_next_back (S fuel) (mk_split [] SFinished) = Some [].
Proof. reflexivity. Qed.
Lemma collect_finished_front fuel : collect split_next (S fuel) (mk_split [] SFinished) = Some [].
Proof. reflexivity. Qed.

(** k steps from the front, then [rev()] and run to exhaustion (= next_back to exhaustion) *)
Theorem split_rev_after_steps d : d <> [] -> forall k h ps s,
  steps split_next k (split_init h d) = Some (ps, s) ->
  exists qs, collect split_next_back (split_fuel (s_this s)) s = Some qs /\
    ((s_state s = SNormal d /\ h = concat (map (fun p => p ++ d) ps) ++ s_this s /\ rsplit_rel d (s_this s) qs) \/
     (s_state s = SFinished /\ join d ps = h /\ qs = [])).
Proof.
  intros Hd k h ps s H.
  assert (Hinit : split_init h d = mk_split h (SNormal d)) by (unfold split_init; destruct d; [contradiction|reflexivity]).
  rewrite Hinit in H.
  destruct (split_remainder d Hd k h ps s H) as [[Hs Hh] | (Hs & Ht & Hj)].
  - destruct (rsplit_exhaust (s_this s) d Hd) as (qs & Hc & Hr).
    exists qs. split.
    + rewrite (split_st_eta s) at 2. rewrite Hs.
      replace (mk_split (s_this s) (SNormal d)) with (split_init (s_this s) d)
        by (unfold split_init; destruct d; [contradiction|reflexivity]).
      exact Hc.
    + left. auto.
  - exists []. split.
    + rewrite (split_st_eta s) at 2. rewrite Hs, Ht. reflexivity.
    + right. auto.
Qed.

(** k steps from the back, then [rev()] and run to exhaustion (= next to exhaustion) *)
Theorem rsplit_rev_after_steps d : d <> [] -> forall k h ps s,
  steps split_next_back k (split_init h d) = Some (ps, s) ->
  exists qs, collect split_next (split_fuel (s_this s)) s = Some qs /\
    ((s_state s = SNormal d /\ h = s_this s ++ concat (map (fun p => d ++ p) (rev ps)) /\ split_rel d (s_this s) qs) \/
     (s_state s = SFinished /\ join d (rev ps) = h /\ qs = [])).
Proof.
  intros Hd k h ps s H.
  assert (Hinit : split_init h d = mk_split h (SNormal d)) by (unfold split_init; destruct d; [contradiction|reflexivity]).
  rewrite Hinit in H.
  destruct (rsplit_remainder d Hd k h ps s H) as [[Hs Hh] | (Hs & Ht & Hj)].
  - destruct (split_exhaust (s_this s) d Hd) as (qs & Hc & Hr).
    exists qs. split.
    + rewrite (split_st_eta s) at 2. rewrite Hs.
      replace (mk_split (s_this s) (SNormal d)) with (split_init (s_this s) d)
        by (unfold split_init; destruct d; [contradiction|reflexivity]).
      exact Hc.
    + left. auto.
  - exists []. split.
    + rewrite (split_st_eta s) at 2. rewrite Hs, Ht. reflexivity.
    + right. auto.
Qed.
