(** UTF-8 facts shared by C03, C07 and (exported) C01:
    - the segmentation of a valid string into well-formed characters ([segs]) is sound and
      complete, so "valid" = "a concatenation of Table 3-7 sequences";
    - konst's byte test [(b as i8) >= -0x40] holds exactly at the segment starts
      ([boundary_chunks]), hence equals the decoder-defined [std_boundary] and
      "both halves are valid UTF-8" ([boundary_iff_split]);
    - a valid needle occurring in a valid haystack starts and ends on boundaries
      ([match_on_boundaries]). *)
From KV Require Import Base.Prelude Model.Utf8 Spec.Utf8.

Ltac unf := unfold wf1, wf2, wf3, wf4, cont, inr in *.

Definition wf (e : list Z) : Prop := wf_char e = true.

(* ------------------------------------------------------------------ segmentation *)

Lemma segs_step e x : wf e -> segs (e ++ x) = consopt e (segs x).
Proof.
  unfold wf. intros H.
  destruct e as [|a [|b [|c [|d [|? ?]]]]]; cbn [wf_char] in H; try discriminate.
  - cbn [app segs]. now rewrite H.
  - assert (W1 : wf1 a = false) by (unf; lia).
    cbn [app segs]. now rewrite W1, H.
  - assert (W1 : wf1 a = false) by (unf; lia).
    assert (W2 : wf2 a b = false) by (unf; lia).
    cbn [app segs]. now rewrite W1, W2, H.
  - assert (W1 : wf1 a = false) by (unf; lia).
    assert (W2 : wf2 a b = false) by (unf; lia).
    assert (W3 : wf3 a b c = false) by (unf; lia).
    cbn [app segs]. now rewrite W1, W2, W3, H.
Qed.

Lemma segs_complete es : Forall wf es -> segs (concat es) = Some es.
Proof.
  induction 1 as [|e es He _ IH]; [reflexivity|].
  cbn [concat]. now rewrite segs_step, IH.
Qed.

Lemma segs_sound_n n : forall l es, (length l <= n)%nat -> segs l = Some es ->
  l = concat es /\ Forall wf es.
Proof.
  induction n as [|n IH]; intros l es Hl H.
  - destruct l; [|cbn in Hl; lia]. cbn in H. inversion H; subst. split; [reflexivity|constructor].
  - destruct l as [|a r1].
    { cbn in H. inversion H; subst. split; [reflexivity|constructor]. }
    cbn [segs] in H. cbn [length] in Hl.
    assert (K : forall e r, (length r <= n)%nat -> wf e -> consopt e (segs r) = Some es ->
                e ++ r = concat es /\ Forall wf es).
    { intros e r Hr We Hc. destruct (segs r) as [es1|] eqn:E; cbn [consopt] in Hc; [|discriminate].
      inversion Hc; subst. destruct (IH r es1 Hr E) as [-> F].
      split; [reflexivity | now constructor]. }
    destruct (wf1 a) eqn:W1.
    { apply (K [a] r1); [lia | exact W1 | exact H]. }
    destruct r1 as [|b r2]; [discriminate|]. cbn [length] in Hl.
    destruct (wf2 a b) eqn:W2.
    { apply (K [a; b] r2); [lia | exact W2 | exact H]. }
    destruct r2 as [|c r3]; [discriminate|]. cbn [length] in Hl.
    destruct (wf3 a b c) eqn:W3.
    { apply (K [a; b; c] r3); [lia | exact W3 | exact H]. }
    destruct r3 as [|d r4]; [discriminate|]. cbn [length] in Hl.
    destruct (wf4 a b c d) eqn:W4; [|discriminate].
    apply (K [a; b; c; d] r4); [lia | exact W4 | exact H].
Qed.

Lemma segs_sound l es : segs l = Some es -> l = concat es /\ Forall wf es.
Proof. apply (segs_sound_n (length l)). lia. Qed.

(** valid UTF-8 = a concatenation of well-formed characters *)
Lemma utf8_iff l : utf8 l = true <-> exists es, l = concat es /\ Forall wf es.
Proof.
  unfold utf8. split.
  - destruct (segs l) as [es|] eqn:E; [|discriminate]. intros _. exists es. now apply segs_sound.
  - intros (es & -> & F). now rewrite segs_complete.
Qed.

Lemma utf8_segs l : utf8 l = true -> exists es, segs l = Some es /\ l = concat es /\ Forall wf es.
Proof.
  unfold utf8. destruct (segs l) as [es|] eqn:E; [|discriminate]. intros _.
  exists es. split; [reflexivity | now apply segs_sound].
Qed.

Lemma utf8_concat es : Forall wf es -> utf8 (concat es) = true.
Proof. intros F. apply utf8_iff. now exists es. Qed.

Lemma utf8_nil : utf8 [] = true.
Proof. reflexivity. Qed.

Lemma utf8_app a b : utf8 a = true -> utf8 b = true -> utf8 (a ++ b) = true.
Proof.
  intros Ha Hb. apply utf8_iff in Ha as (ea & -> & Fa). apply utf8_iff in Hb as (eb & -> & Fb).
  rewrite <- concat_app. apply utf8_concat. now apply Forall_app.
Qed.

(** a valid prefix can be cancelled *)
Lemma utf8_app_inv a b : utf8 a = true -> utf8 (a ++ b) = true -> utf8 b = true.
Proof.
  intros Ha. apply utf8_iff in Ha as (ea & -> & Fa).
  induction Fa as [|e ea He _ IH]; [trivial|].
  cbn [concat]. rewrite <- app_assoc. unfold utf8 at 1. rewrite segs_step by exact He.
  intros H. apply IH. unfold utf8. destruct (segs (concat ea ++ b)); [reflexivity | discriminate].
Qed.

Lemma chars_app_wf e x : wf e -> utf8 x = true -> chars (e ++ x) = dec_char e :: chars x.
Proof.
  intros He Hx. unfold chars, utf8 in *. rewrite segs_step by exact He.
  destruct (segs x); [reflexivity | discriminate].
Qed.

Lemma chars_concat es : Forall wf es -> chars (concat es) = map dec_char es.
Proof. intros F. unfold chars. now rewrite segs_complete. Qed.

(* ------------------------------------------------------------------ the byte test *)

Lemma bib_true b : 0 <= b <= 127 \/ 192 <= b -> byte_is_boundary b = true.
Proof. unfold byte_is_boundary, as_i8. destruct (Z.ltb_spec b 128); lia. Qed.
Lemma bib_false b : 128 <= b <= 191 -> byte_is_boundary b = false.
Proof. unfold byte_is_boundary, as_i8. destruct (Z.ltb_spec b 128); lia. Qed.

Definition nb (b : Z) : Prop := byte_is_boundary b = false.
(** a lead (or ASCII) byte followed by continuation bytes *)
Definition chunk (e : list Z) : Prop :=
  match e with [] => False | a :: t => byte_is_boundary a = true /\ Forall nb t end.

Lemma wf_chunk e : wf e -> chunk e.
Proof.
  unfold wf. intros H.
  destruct e as [|a [|b [|c [|d [|? ?]]]]]; cbn [wf_char] in H; try discriminate; cbn [chunk];
    (split; [apply bib_true; unf; lia | repeat constructor; apply bib_false; unf; lia]).
Qed.

Lemma wf_len e : wf e -> 1 <= zlen e <= 4.
Proof.
  unfold wf. intros H.
  destruct e as [|a [|b [|c [|d [|? ?]]]]]; cbn [wf_char] in H; try discriminate; unfold zlen; cbn [length]; lia.
Qed.

Lemma Forall_wf_chunk es : Forall wf es -> Forall chunk es.
Proof. intros F. eapply Forall_impl; [|exact F]. apply wf_chunk. Qed.

(* ------------------------------------------------------------------ boundaries = segment starts *)

(** length of the first [k] segments *)
Definition psum (es : list (list Z)) (k : nat) : Z := zlen (concat (firstn k es)).

Lemma psum_0 es : psum es 0 = 0.
Proof. reflexivity. Qed.
Lemma psum_S e es k : psum (e :: es) (S k) = zlen e + psum es k.
Proof. unfold psum. cbn [firstn concat]. now rewrite zlen_app. Qed.
Lemma psum_all es : psum es (length es) = zlen (concat es).
Proof. unfold psum. now rewrite firstn_all. Qed.
Lemma psum_nonneg es k : 0 <= psum es k.
Proof. apply zlen_nonneg. Qed.

Lemma concat_firstn_skipn {A} (es : list (list A)) k :
  concat es = concat (firstn k es) ++ concat (skipn k es).
Proof. now rewrite <- concat_app, firstn_skipn. Qed.

Lemma firstn_psum es k : firstn (Z.to_nat (psum es k)) (concat es) = concat (firstn k es).
Proof.
  rewrite (concat_firstn_skipn es k) at 1. unfold psum, zlen. rewrite Nat2Z.id.
  rewrite firstn_app, Nat.sub_diag, firstn_all. cbn [firstn]. apply app_nil_r.
Qed.
Lemma skipn_psum es k : skipn (Z.to_nat (psum es k)) (concat es) = concat (skipn k es).
Proof.
  rewrite (concat_firstn_skipn es k) at 1. unfold psum, zlen. rewrite Nat2Z.id.
  rewrite skipn_app, Nat.sub_diag, skipn_all. reflexivity.
Qed.

Lemma in_offs es : forall o i,
  In i (offs o es) <-> exists k, (k < length es)%nat /\ i = o + psum es k.
Proof.
  induction es as [|e es IH]; intros o i; cbn [offs In length].
  - split; [tauto | intros (k & Hk & _); lia].
  - rewrite IH. split.
    + intros [<- | (k & Hk & ->)].
      * exists 0%nat. rewrite psum_0. split; lia.
      * exists (S k). rewrite psum_S. split; lia.
    + intros (k & Hk & ->). destruct k as [|k].
      * left. rewrite psum_0. lia.
      * right. exists k. rewrite psum_S. split; lia.
Qed.

Lemma byte_at_app_l e r i : 0 <= i < zlen e -> byte_at (e ++ r) i = byte_at e i.
Proof. unfold byte_at, zlen. intros H. apply app_nth1. lia. Qed.
Lemma byte_at_app_r e r i : zlen e <= i -> byte_at (e ++ r) i = byte_at r (i - zlen e).
Proof.
  unfold byte_at, zlen. intros H. rewrite app_nth2 by lia. f_equal. lia.
Qed.

Lemma icb_app_r e r i : zlen e <= i ->
  is_char_boundary_m (e ++ r) i = is_char_boundary_m r (i - zlen e).
Proof.
  intros H. unfold is_char_boundary_m. rewrite zlen_app.
  assert (E1 : (i =? zlen e + zlen r) = (i - zlen e =? zlen r)) by lia.
  assert (E2 : (i <? zlen e + zlen r) = (i - zlen e <? zlen r)) by lia.
  rewrite E1, E2, byte_at_app_r by lia. reflexivity.
Qed.

Lemma chunk_len e : chunk e -> 1 <= zlen e.
Proof. destruct e; [intros []|]. intros _. rewrite zlen_cons. pose proof (zlen_nonneg e). lia. Qed.

Lemma chunk_head e r : chunk e -> byte_is_boundary (byte_at (e ++ r) 0) = true.
Proof. destruct e as [|a t]; [intros []|]. intros [H _]. exact H. Qed.

Lemma chunk_inner e r i : chunk e -> 0 < i < zlen e -> byte_is_boundary (byte_at (e ++ r) i) = false.
Proof.
  destruct e as [|a t]; [intros []|]. intros [_ F] Hi.
  rewrite byte_at_app_l by lia. unfold byte_at.
  rewrite zlen_cons in Hi. unfold zlen in Hi.
  replace (Z.to_nat i) with (S (Z.to_nat i - 1)) by lia. cbn [nth].
  rewrite Forall_forall in F. apply F. apply nth_In. lia.
Qed.

(** THE lemma: on a concatenation of chunks the byte test holds exactly at the chunk
    starts and at the end *)
Lemma boundary_chunks es : Forall chunk es -> forall i, 0 <= i ->
  (is_char_boundary_m (concat es) i = true <-> exists k, (k <= length es)%nat /\ i = psum es k).
Proof.
  induction 1 as [|e es He F IH]; intros i Hi.
  - cbn [concat length]. unfold is_char_boundary_m. rewrite zlen_nil. split.
    + destruct (Z.eqb_spec i 0) as [->|]; [|destruct (Z.ltb_spec i 0); [lia | discriminate]].
      intros _. exists 0%nat. rewrite psum_0. split; lia.
    + intros (k & Hk & ->). assert (k = 0)%nat as -> by lia. reflexivity.
  - cbn [concat length]. pose proof (chunk_len e He) as Le.
    destruct (Z.eq_dec i 0) as [->|N0]; [|destruct (Z.lt_ge_cases i (zlen e)) as [Lt|Ge]].
    + split; [intros _; exists 0%nat; rewrite psum_0; split; lia|]. intros _.
      unfold is_char_boundary_m. rewrite zlen_app. pose proof (zlen_nonneg (concat es)).
      destruct (Z.eqb_spec 0 (zlen e + zlen (concat es))); [reflexivity|].
      destruct (Z.ltb_spec 0 (zlen e + zlen (concat es))); [|lia]. now apply chunk_head.
    + split.
      * unfold is_char_boundary_m. rewrite zlen_app. pose proof (zlen_nonneg (concat es)).
        destruct (Z.eqb_spec i (zlen e + zlen (concat es))); [lia|].
        destruct (Z.ltb_spec i (zlen e + zlen (concat es))); [|discriminate].
        rewrite chunk_inner by (trivial; lia). discriminate.
      * intros (k & Hk & E). exfalso. destruct k as [|k]; [rewrite psum_0 in E; lia|].
        rewrite psum_S in E. pose proof (psum_nonneg es k). lia.
    + rewrite icb_app_r by lia. rewrite IH by lia. split.
      * intros (k & Hk & E). exists (S k). rewrite psum_S. split; lia.
      * intros (k & Hk & E). destruct k as [|k]; [rewrite psum_0 in E; lia|].
        rewrite psum_S in E. exists k. split; lia.
Qed.

(** the decoder-defined boundary predicate, in the same terms *)
Lemma map_fst_combine {A B} (a : list A) (b : list B) : length a = length b -> map fst (combine a b) = a.
Proof.
  revert b; induction a as [|x a IH]; intros [|y b] H; cbn in *; try reflexivity; try discriminate.
  f_equal. apply IH. lia.
Qed.
Lemma offs_length es : forall o, length (offs o es) = length es.
Proof. induction es; intros o; cbn [offs length]; [reflexivity | now rewrite IHes]. Qed.

Lemma char_starts_segs s es : segs s = Some es -> map fst (char_indices s) = offs 0 es.
Proof.
  intros E. unfold char_indices. rewrite E. apply map_fst_combine.
  now rewrite offs_length, map_length.
Qed.

Lemma std_boundary_iff s es i : segs s = Some es ->
  (std_boundary s i = true <-> exists k, (k <= length es)%nat /\ i = psum es k).
Proof.
  intros E. pose proof (segs_sound _ _ E) as [Hs _].
  unfold std_boundary. rewrite (char_starts_segs _ _ E), orb_true_iff, existsb_exists. split.
  - intros [H | (x & Hin & H)].
    + apply Z.eqb_eq in H. exists (length es). rewrite psum_all, <- Hs. split; [lia | exact H].
    + apply Z.eqb_eq in H. subst x. apply in_offs in Hin as (k & Hk & ->). exists k. split; lia.
  - intros (k & Hk & ->). destruct (Nat.eq_dec k (length es)) as [->|N].
    + left. rewrite psum_all, <- Hs. apply Z.eqb_refl.
    + right. exists (psum es k). split; [|apply Z.eqb_refl]. apply in_offs. exists k. split; lia.
Qed.

(** C03: the byte test equals std's is_char_boundary on every valid string *)
Theorem boundary_eq_std s i : utf8 s = true -> 0 <= i ->
  is_char_boundary_m s i = std_boundary s i.
Proof.
  intros U Hi. destruct (utf8_segs s U) as (es & E & Hs & F).
  apply eq_true_iff_eq. rewrite (std_boundary_iff s es i E). subst s.
  apply boundary_chunks; [now apply Forall_wf_chunk | exact Hi].
Qed.

Lemma boundary_beyond s i : zlen s < i -> is_char_boundary_m s i = false.
Proof.
  intros H. unfold is_char_boundary_m.
  destruct (Z.eqb_spec i (zlen s)); [lia|]. destruct (Z.ltb_spec i (zlen s)); [lia | reflexivity].
Qed.

(** the forgiving variant is the strict one at the clamped index *)
Lemma forgiving_clamp s i : forgiving_m s i = is_char_boundary_m s (Z.min i (zlen s)).
Proof.
  unfold forgiving_m, is_char_boundary_m.
  destruct (Z.leb_spec (zlen s) i).
  - rewrite Z.min_r by lia. now rewrite Z.eqb_refl.
  - rewrite Z.min_l by lia. destruct (Z.eqb_spec i (zlen s)); [lia|].
    destruct (Z.ltb_spec i (zlen s)); [reflexivity | lia].
Qed.

Lemma boundary_0 s : utf8 s = true -> is_char_boundary_m s 0 = true.
Proof.
  intros U. destruct (utf8_segs s U) as (es & _ & -> & F).
  apply boundary_chunks; [now apply Forall_wf_chunk | lia |]. exists 0%nat. split; [lia | reflexivity].
Qed.

Lemma Forall_firstn' {A} (P : A -> Prop) l : forall k, Forall P l -> Forall P (firstn k l).
Proof.
  induction l as [|x l IH]; intros [|k] F; cbn [firstn]; try constructor; inversion F; subst; auto.
Qed.
Lemma Forall_skipn' {A} (P : A -> Prop) l : forall k, Forall P l -> Forall P (skipn k l).
Proof.
  induction l as [|x l IH]; intros [|k] F; cbn [skipn]; auto. inversion F; subst; auto.
Qed.

(** for C01: a position is a boundary iff both halves are valid UTF-8 *)
Theorem boundary_iff_split s i : utf8 s = true -> 0 <= i <= zlen s ->
  (is_char_boundary_m s i = true <->
   utf8 (firstn (Z.to_nat i) s) && utf8 (skipn (Z.to_nat i) s) = true).
Proof.
  intros U Hi. split.
  - destruct (utf8_segs s U) as (es & _ & -> & F). intros B.
    apply boundary_chunks in B as (k & Hk & ->); [|now apply Forall_wf_chunk | lia].
    rewrite firstn_psum, skipn_psum. apply andb_true_iff. split; apply utf8_concat.
    + now apply Forall_firstn'.
    + now apply Forall_skipn'.
  - intros H. apply andb_true_iff in H as [H1 H2].
    apply utf8_iff in H1 as (e1 & E1 & F1). apply utf8_iff in H2 as (e2 & E2 & F2).
    assert (Es : s = concat (e1 ++ e2)).
    { rewrite concat_app, <- E1, <- E2. symmetry. apply firstn_skipn. }
    rewrite Es. apply boundary_chunks; [apply Forall_wf_chunk; now apply Forall_app | lia |].
    exists (length e1). split; [rewrite app_length; lia|].
    unfold psum. rewrite firstn_app, Nat.sub_diag, firstn_all. cbn [firstn]. rewrite app_nil_r, <- E1.
    unfold zlen. rewrite firstn_length. unfold zlen in Hi. lia.
Qed.

(** the [<-] direction needs no validity of [s] itself *)
Lemma split_valid_boundary a b : utf8 a = true -> utf8 b = true ->
  is_char_boundary_m (a ++ b) (zlen a) = true.
Proof.
  intros Ha Hb. pose proof (utf8_app a b Ha Hb) as U. pose proof (zlen_nonneg a). pose proof (zlen_nonneg b).
  apply (boundary_iff_split _ _ U); [rewrite zlen_app; lia|].
  unfold zlen. rewrite Nat2Z.id, firstn_app, Nat.sub_diag, firstn_all, skipn_app, Nat.sub_diag, skipn_all.
  cbn [firstn skipn app]. rewrite app_nil_r. now rewrite Ha, Hb.
Qed.

(** for C01: where a valid non-empty needle occurs in a valid haystack, it starts and
    ends on char boundaries *)
Lemma icb_head_chunk e r : chunk e -> is_char_boundary_m (e ++ r) 0 = true.
Proof.
  intros He. pose proof (chunk_len e He). pose proof (zlen_nonneg r).
  unfold is_char_boundary_m. rewrite zlen_app.
  destruct (Z.eqb_spec 0 (zlen e + zlen r)); [reflexivity|].
  destruct (Z.ltb_spec 0 (zlen e + zlen r)); [|lia]. now apply chunk_head.
Qed.

Theorem match_on_boundaries h n p q :
  utf8 h = true -> utf8 n = true -> n <> [] -> h = p ++ n ++ q ->
  is_char_boundary_m h (zlen p) = true /\ is_char_boundary_m h (zlen p + zlen n) = true.
Proof.
  intros Uh Un Nn ->.
  assert (B1 : is_char_boundary_m (p ++ n ++ q) (zlen p) = true).
  { rewrite icb_app_r by lia. rewrite Z.sub_diag.
    apply utf8_iff in Un as (ns & -> & Fn). destruct Fn as [|e ns He Fn]; [now contradiction Nn|].
    cbn [concat]. rewrite <- app_assoc. apply icb_head_chunk. now apply wf_chunk. }
  split; [exact B1|].
  pose proof (zlen_nonneg p). pose proof (zlen_nonneg n). pose proof (zlen_nonneg q).
  apply (boundary_iff_split _ _ Uh) in B1; [|rewrite !zlen_app; lia].
  unfold zlen in B1 at 1 2. rewrite Nat2Z.id in B1.
  rewrite firstn_app, Nat.sub_diag, firstn_all, skipn_app, Nat.sub_diag, skipn_all in B1.
  cbn [firstn skipn app] in B1. rewrite app_nil_r in B1.
  apply andb_true_iff in B1 as [Up Unq].
  pose proof (utf8_app_inv n q Un Unq) as Uq.
  pose proof (split_valid_boundary (p ++ n) q (utf8_app p n Up Un) Uq) as B2.
  now rewrite <- app_assoc, zlen_app in B2.
Qed.

(** satisfiability of the hypotheses / non-vacuity *)
Example match_on_boundaries_ex :
  (utf8 [97; 195; 169; 98] = true) /\ (utf8 [195; 169] = true) /\
  (is_char_boundary_m [97; 195; 169; 98] 1 = true) /\
  (is_char_boundary_m [97; 195; 169; 98] 3 = true) /\
  (is_char_boundary_m [97; 195; 169; 98] 2 = false).
Proof. repeat split. Qed.
