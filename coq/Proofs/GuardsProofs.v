(** C17 — proofs: the guards' decisions (Model/Guards.v) = well-formedness (Spec/Guards.v). *)
From KV Require Import Base.Prelude Model.Guards Spec.Guards.
Import ListNotations.
Local Open Scope nat_scope.

(* ================================================================== iterator DSL *)

Definition known (m : mname) : bool := in_list1 m || in_list2 m.

(** state variables / `return` entries the pre-processing of [l] creates *)
Fixpoint varsum (l : list meth) : nat :=
  match l with
  | [] => 0
  | x :: r => (var_of (fst x) + (if in_list2 (fst x) then 1 else 0)) + varsum r
  end.
Fixpoint retsum (l : list meth) : nat :=
  match l with [] => 0 | x :: r => ret_of (fst x) + retsum r end.

Fixpoint rev_ok_b (prev : bool) (l : list meth) : bool :=
  match l with
  | [] => true
  | x :: r => if reversing (fst x) then negb prev && rev_ok_b true r else rev_ok_b prev r
  end.

Definition arg_ok_b (x : meth) : bool :=
  match snd x, argless (fst x) with
  | Empty, true => true
  | Given, false => true
  | _, _ => false
  end.

(** adapters (well-formed arguments), then — only where consumers are allowed — one consumer *)
Fixpoint chain_ok_b (cm : bool) (l : list meth) : bool :=
  match l with
  | [] => true
  | x :: r =>
      if is_adapter (fst x) then arg_ok_b x && chain_ok_b cm r
      else cm && is_consumer (fst x) && arg_ok_b x && is_nil r
  end.

(** the same, but the argument of zip/take/skip/nth is not looked at by __call_iter_methods /
    __iter_eval: it sits in the initialiser of the state variable ([var_init_diag]) *)
Definition var_init_meth (m : mname) : bool :=
  match m with Zip | Take | Skip | Nth => true | _ => false end.
Definition arg_ok_call (x : meth) : bool := var_init_meth (fst x) || arg_ok_b x.
Fixpoint chain_ok_call (cm : bool) (l : list meth) : bool :=
  match l with
  | [] => true
  | x :: r =>
      if is_adapter (fst x) then arg_ok_call x && chain_ok_call cm r
      else cm && is_consumer (fst x) && arg_ok_call x && is_nil r
  end.
Definition parens (x : meth) : Prop := snd x <> NoParens.

Lemma list1_not_list2 m : in_list1 m = true -> in_list2 m = false.
Proof. destruct m; cbn; congruence. Qed.

Lemma app_nil_iff {A} (a b : list A) : a ++ b = [] <-> a = [] /\ b = [].
Proof. split. - apply app_eq_nil. - intros [-> ->]; reflexivity. Qed.

(* ------------------------------------------------------------------ __call_iter_methods *)

Ltac nonnil := split; [ discriminate | intros [_ H]; discriminate H ].

Lemma eval_fallthrough_cons n x l : eval_fallthrough n (x :: l) <> [].
Proof. destruct n; cbn; discriminate. Qed.

(** one method left for __iter_eval, with exactly the variables its pre-processing created *)
Lemma iter_eval_single d m a : a <> NoParens ->
  iter_eval (varsum [(m, a)] + retsum [(m, a)]) d [(m, a)] = [] <->
  d = [] /\ (is_consumer m && arg_ok_call (m, a)) = true.
Proof.
  intros Ha.
  destruct m; destruct a; try congruence; cbn;
    try (split; [ discriminate | intros [_ H]; discriminate H ]);
    try (split; [ intros ->; split; reflexivity | intros [-> _]; reflexivity ]).
Qed.

Lemma iter_eval_many n d x y l : iter_eval n d (x :: y :: l) <> [].
Proof. destruct x as [m a]. cbn. apply eval_fallthrough_cons. Qed.

Lemma non_adapter_cons cm d m a r :
  is_adapter m = false -> a <> NoParens ->
  non_adapter cm (varsum ((m, a) :: r) + retsum ((m, a) :: r)) d ((m, a) :: r) = [] <->
  d = [] /\ (cm && is_consumer m && arg_ok_call (m, a) && is_nil r) = true.
Proof.
  intros Had Ha. unfold non_adapter. destruct cm.
  - destruct r as [| y r].
    + rewrite iter_eval_single by exact Ha. cbn [andb]. rewrite andb_true_r. reflexivity.
    + split.
      * intros H. exfalso. revert H. apply iter_eval_many.
      * intros [_ H]. cbn in H. rewrite andb_false_r in H. discriminate H.
  - cbn [andb]. split; [ discriminate | intros [_ H]; discriminate H ].
Qed.

Lemma call_non_adapter cm n d m a r : is_adapter m = false ->
  call_iter_methods cm n d ((m, a) :: r) = non_adapter cm n d ((m, a) :: r).
Proof. intros Had. destruct m; try discriminate Had; reflexivity. Qed.

Lemma call_iter_methods_nil cm : forall l d, Forall parens l ->
  call_iter_methods cm (varsum l + retsum l) d l = [] <-> d = [] /\ chain_ok_call cm l = true.
Proof.
  induction l as [| [m a] r IH]; intros d Hp.
  - cbn. destruct cm; cbn; split; try (intros ->; split; reflexivity); intros [-> _]; reflexivity.
  - inversion Hp as [| ? ? Ha Hr]; subst. unfold parens in Ha. cbn in Ha.
    destruct (is_adapter m) eqn:Had.
    + cbn [chain_ok_call fst]. rewrite Had.
      destruct m; try discriminate Had; cbn [varsum retsum fst snd var_of ret_of in_list2 Nat.add];
        destruct a; try congruence;
        cbn [call_iter_methods error_on_args closure_err];
        repeat rewrite app_nil_iff; rewrite ?IH by exact Hr; repeat rewrite app_nil_iff;
        cbn; intuition (try discriminate; try reflexivity; auto).
    + cbn [chain_ok_call fst]. rewrite Had.
      rewrite call_non_adapter by exact Had. apply non_adapter_cons; [ exact Had | exact Ha ].
Qed.

(** with the initialisers of the state variables, the argument of every method is checked *)
Lemma chain_ok_call_var_init cm : forall l, Forall parens l ->
  (flat_map var_init_diag l = [] /\ chain_ok_call cm l = true) <-> chain_ok_b cm l = true.
Proof.
  induction l as [| [m a] r IH]; intros Hp.
  - cbn. intuition.
  - inversion Hp as [| ? ? Ha Hr]; subst. unfold parens in Ha. cbn in Ha. specialize (IH Hr).
    cbn [flat_map chain_ok_call chain_ok_b fst]. rewrite app_nil_iff.
    destruct (is_adapter m) eqn:Had.
    + rewrite !andb_true_iff, <- IH.
      destruct m; try discriminate Had; destruct a; try congruence; cbn;
        intuition (try discriminate; auto).
    + destruct r as [| y r].
      * destruct cm; destruct m; try discriminate Had; destruct a; try congruence; cbn;
          intuition (try discriminate; auto).
      * cbn [is_nil]. rewrite !andb_false_r. intuition discriminate.
Qed.

(* ------------------------------------------------------------------ __cim_preprocess_methods *)

Lemma preprocess_nil cm all : forall l prev nret nvars,
  preprocess cm all l prev nret nvars = [] <->
  forallb (fun x => known (fst x)) l = true /\ rev_ok_b prev l = true /\ nret + retsum l <= 1 /\
  call_iter_methods cm ((nvars + varsum l) + (nret + retsum l)) (flat_map var_init_diag all) all = [].
Proof.
  induction l as [| [m a] r IH]; intros prev nret nvars.
  - cbn [preprocess forallb rev_ok_b retsum varsum]. rewrite !Nat.add_0_r.
    destruct (Nat.leb nret 1) eqn:E.
    + apply Nat.leb_le in E. intuition.
    + apply Nat.leb_gt in E. split; [ discriminate | intros (_ & _ & H & _); lia ].
  - cbn [preprocess forallb rev_ok_b retsum varsum fst]. unfold known at 1.
    destruct (in_list1 m) eqn:E1.
    + pose proof (list1_not_list2 m E1) as E2. rewrite E2. cbn [orb andb].
      rewrite app_nil_iff, IH.
      replace (nvars + var_of m + varsum r + (nret + ret_of m + retsum r))
        with (nvars + (var_of m + 0 + varsum r) + (nret + (ret_of m + retsum r))) by lia.
      replace (nret + ret_of m + retsum r) with (nret + (ret_of m + retsum r)) by lia.
      destruct (reversing m); destruct prev; cbn [andb orb negb];
        intuition (try discriminate; auto).
    + cbn [orb]. destruct (in_list2 m) eqn:E2.
      * assert (Hv : var_of m = 0) by (destruct m; try discriminate E2; reflexivity).
        assert (Hr : ret_of m = 0) by (destruct m; try discriminate E2; reflexivity).
        assert (Hrv : reversing m = false) by (destruct m; try discriminate E2; reflexivity).
        rewrite Hv, Hr, Hrv. cbn [andb Nat.add]. rewrite IH.
        replace (nvars + 1 + varsum r) with (nvars + S (varsum r)) by lia.
        intuition.
      * cbn [andb]. split; [ discriminate | intros (H & _); discriminate H ].
Qed.

(* ------------------------------------------------------------------ pieces of the final statement *)

Lemma rev_ok_true l : rev_ok_b true l = true <-> reversing_count l = 0.
Proof.
  unfold reversing_count. induction l as [| x r IH]; cbn.
  - intuition.
  - destruct (reversing (fst x)); cbn; [ split; [ discriminate | lia ] | exact IH ].
Qed.

Lemma rev_ok_false l : rev_ok_b false l = true <-> reversing_count l <= 1.
Proof.
  induction l as [| x r IH]; cbn.
  - unfold reversing_count; cbn. intuition.
  - unfold reversing_count in *. cbn. destruct (reversing (fst x)); cbn.
    + pose proof (rev_ok_true r) as H. unfold reversing_count in H. rewrite H. lia.
    + exact IH.
Qed.

Lemma arg_ok_iff x : arg_ok_b x = true <-> args_ok x.
Proof.
  unfold arg_ok_b, args_ok. destruct x as [m a]. cbn.
  destruct a; destruct (argless m); split; intros H; try discriminate H; reflexivity.
Qed.

Lemma adapter_known m : is_adapter m = true -> known m = true.
Proof. destruct m; cbn; congruence. Qed.
Lemma consumer_known m : is_consumer m = true -> known m = true.
Proof. destruct m; cbn; congruence. Qed.
Lemma adapter_ret m : is_adapter m = true -> ret_of m = 0.
Proof. destruct m; cbn; congruence. Qed.
Lemma consumer_ret m : ret_of m <= 1.
Proof. destruct m; cbn; lia. Qed.

(** what a well-formed chain implies for the other guards *)
Lemma chain_ok_facts cm : forall l, chain_ok_b cm l = true ->
  forallb (fun x => known (fst x)) l = true /\ retsum l <= 1 /\
  flat_map assert_has_args l = [] /\ map norm_meth l = l /\ flat_map var_init_diag l = [] /\
  Forall parens l.
Proof.
  induction l as [| [m a] r IH]; cbn [chain_ok_b fst]; intros H.
  - cbn. repeat split; try lia. constructor.
  - destruct (is_adapter m) eqn:Had.
    + apply andb_prop in H. destruct H as [Ha Hr]. specialize (IH Hr).
      destruct IH as (I1 & I2 & I3 & I4 & I5 & I6).
      cbn [forallb retsum flat_map map fst]. rewrite I1, I3, I4, I5, (adapter_known m Had), (adapter_ret m Had).
      unfold arg_ok_b in Ha. cbn in Ha.
      destruct m; try discriminate Had; destruct a; try discriminate Ha; cbn; repeat split; try lia;
        constructor; try exact I6; unfold parens; cbn; discriminate.
    + apply andb_prop in H. destruct H as [H Hnil]. apply andb_prop in H. destruct H as [H Harg].
      apply andb_prop in H. destruct H as [Hcm Hcons].
      destruct r; [ | discriminate ].
      cbn [forallb retsum flat_map map fst]. rewrite (consumer_known m Hcons).
      unfold arg_ok_b in Harg. cbn in Harg.
      destruct m; try discriminate Hcons; destruct a; try discriminate Harg; cbn; repeat split; try lia;
        constructor; try constructor; unfold parens; cbn; discriminate.
Qed.

Lemma chain_ok_adapters l : chain_ok_b false l = true <->
  Forall (fun x => is_adapter (fst x) = true) l /\ Forall args_ok l.
Proof.
  induction l as [| x r IH]; cbn [chain_ok_b].
  - intuition.
  - destruct (is_adapter (fst x)) eqn:Had.
    + rewrite andb_true_iff, IH, arg_ok_iff. split.
      * intros (Ha & Hf & Hg). split; constructor; auto.
      * intros (Hf & Hg). inversion Hf; inversion Hg; subst. auto.
    + cbn. split; [ discriminate | ]. intros (Hf & _). inversion Hf; subst. congruence.
Qed.

Lemma adapter_not_consumer m : is_adapter m = true -> is_consumer m = true -> False.
Proof. destruct m; cbn; congruence. Qed.

Lemma chain_ok_eval l : chain_ok_b true l = true <-> supported_at PEval l /\ Forall args_ok l.
Proof.
  induction l as [| x r IH]; cbn [chain_ok_b].
  - split; [ | reflexivity ]. intros _. split; [ | constructor ].
    exists [], []. repeat split; auto.
  - destruct (is_adapter (fst x)) eqn:Had.
    + rewrite andb_true_iff, IH, arg_ok_iff. split.
      * intros (Ha & (ads & tl & -> & Hads & Htl) & Hg). split; [ | constructor; auto ].
        exists (x :: ads), tl. repeat split; auto.
      * intros ((ads & tl & Heq & Hads & Htl) & Hg). inversion Hg as [| ? ? Hx Hr]; subst.
        split; [ exact Hx | ]. split; [ | exact Hr ].
        destruct ads as [| y ads].
        -- cbn in Heq. destruct Htl as [-> | (c & -> & Hc)]; [ discriminate Heq | ].
           inversion Heq; subst. exfalso. eapply adapter_not_consumer; eauto.
        -- cbn in Heq. inversion Heq; subst. inversion Hads; subst.
           exists ads, tl. repeat split; auto.
    + cbn [andb]. split.
      * intros H. apply andb_prop in H. destruct H as [H Hnil]. apply andb_prop in H.
        destruct H as [Hcons Harg].
        destruct r; [ | discriminate ]. apply arg_ok_iff in Harg.
        split; [ | repeat constructor; auto ].
        exists [], [x]. repeat split; auto. right. exists x. auto.
      * intros ((ads & tl & Heq & Hads & Htl) & Hg). inversion Hg as [| ? ? Hx Hr]; subst.
        destruct ads as [| y ads].
        -- cbn in Heq. destruct Htl as [-> | (c & -> & Hc)]; [ discriminate Heq | ].
           inversion Heq; subst. rewrite Hc. apply arg_ok_iff in Hx. rewrite Hx. reflexivity.
        -- cbn in Heq. inversion Heq; subst. inversion Hads; subst. congruence.
Qed.

Lemma chain_ok_supported p l :
  chain_ok_b (consumer_mode p) l = true <-> supported_at p l /\ Forall args_ok l.
Proof.
  destruct p; cbn [consumer_mode supported_at].
  - apply chain_ok_adapters.
  - apply chain_ok_adapters.
  - apply chain_ok_eval.
Qed.

(** the expansion of an iterator-DSL macro produces no diagnostic exactly for the well-formed
    method lists *)
Theorem dsl_accepts_iff p ms : dsl_expands p ms = [] <-> dsl_ok p ms.
Proof.
  unfold dsl_expands, dsl_ok. rewrite app_nil_iff.
  rewrite <- chain_ok_supported, <- rev_ok_false. split.
  - intros (Hargs & Hpre).
    assert (Hnorm : map norm_meth ms = ms).
    { clear Hpre. induction ms as [| [m a] r IH]; [ reflexivity | ].
      cbn in Hargs. apply app_eq_nil in Hargs. destruct Hargs as [H1 H2].
      cbn. rewrite (IH H2). destruct a; try discriminate H1; reflexivity. }
    assert (Hpar : Forall parens ms).
    { clear Hpre Hnorm. induction ms as [| [m a] r IH]; constructor.
      - unfold parens. cbn. cbn in Hargs. destruct a; [ discriminate Hargs | discriminate | discriminate ].
      - apply IH. cbn in Hargs. apply app_eq_nil in Hargs. tauto. }
    rewrite Hnorm in Hpre. apply preprocess_nil in Hpre.
    destruct Hpre as (_ & Hrev & _ & Hcall). cbn [Nat.add] in Hcall.
    apply call_iter_methods_nil in Hcall; [ | exact Hpar ].
    split; [ exact Hrev | ]. apply chain_ok_call_var_init; [ exact Hpar | exact Hcall ].
  - intros (Hrev & Hchain).
    destruct (chain_ok_facts _ _ Hchain) as (Hk & Hret & Hnp & Hnorm & Hvi & Hpar).
    split; [ exact Hnp | ]. rewrite Hnorm. apply preprocess_nil.
    repeat split; auto. cbn [Nat.add]. apply call_iter_methods_nil; [ exact Hpar | ].
    apply chain_ok_call_var_init; auto.
Qed.

(** each misuse class rejects, whatever else the chain contains ... *)
Lemma dsl_rejects p ms : ~ dsl_ok p ms -> dsl_expands p ms <> [].
Proof. intros H E. apply H. apply dsl_accepts_iff. exact E. Qed.

Lemma dsl_rejects_two_reversals p ms : 2 <= reversing_count ms -> dsl_expands p ms <> [].
Proof. intros H. apply dsl_rejects. intros (H1 & _). lia. Qed.

Lemma dsl_rejects_bad_args p ms x : In x ms -> ~ args_ok x -> dsl_expands p ms <> [].
Proof.
  intros Hin Hx. apply dsl_rejects. intros (_ & _ & H). rewrite Forall_forall in H. auto.
Qed.

Lemma supported_known p ms x : supported_at p ms -> In x ms -> known (fst x) = true.
Proof.
  intros Hs Hin. destruct p; cbn in Hs.
  1,2: rewrite Forall_forall in Hs; apply adapter_known; auto.
  destruct Hs as (ads & tl & -> & Hads & Htl). apply in_app_or in Hin. destruct Hin as [Hin | Hin].
  - rewrite Forall_forall in Hads. apply adapter_known; auto.
  - destruct Htl as [-> | (c & -> & Hc)]; [ destruct Hin | ].
    destruct Hin as [<- | []]. apply consumer_known; auto.
Qed.

Lemma dsl_rejects_unsupported p ms a : In (Other, a) ms -> dsl_expands p ms <> [].
Proof.
  intros Hin. apply dsl_rejects. intros (_ & Hs & _).
  pose proof (supported_known _ _ _ Hs Hin) as H. discriminate H.
Qed.

Lemma dsl_rejects_consumer_in_adapter_macro p ms x :
  p <> PEval -> In x ms -> is_consumer (fst x) = true -> dsl_expands p ms <> [].
Proof.
  intros Hp Hin Hc. apply dsl_rejects. intros (_ & Hs & _).
  destruct p; try congruence; cbn in Hs; rewrite Forall_forall in Hs;
    eapply adapter_not_consumer; eauto.
Qed.

Lemma reversing_count_app a b : reversing_count (a ++ b) = reversing_count a + reversing_count b.
Proof. unfold reversing_count. rewrite filter_app, app_length. reflexivity. Qed.

(** verdict flips: take any accepted chain [pre ++ post] (the control) and add the offending
    element at any position *)
Theorem dsl_flip_second_reversal p pre x post :
  dsl_expands p (pre ++ post) = [] -> reversing (fst x) = true -> 1 <= reversing_count (pre ++ post) ->
  dsl_expands p (pre ++ x :: post) <> [] /\ dsl_expands p (pre ++ post) = [].
Proof.
  intros Hc Hr Hn. split; [ | exact Hc ]. apply dsl_rejects_two_reversals.
  rewrite reversing_count_app in *. unfold reversing_count in *. cbn. rewrite Hr. cbn. lia.
Qed.

Theorem dsl_flip_unsupported p pre a post :
  dsl_expands p (pre ++ post) = [] ->
  dsl_expands p (pre ++ (Other, a) :: post) <> [] /\ dsl_expands p (pre ++ post) = [].
Proof.
  intros Hc. split; [ | exact Hc ]. apply dsl_rejects_unsupported with (a := a).
  apply in_or_app. right. left. reflexivity.
Qed.

Theorem dsl_flip_consumer_in_adapter_macro p pre x post :
  p <> PEval -> dsl_expands p (pre ++ post) = [] -> is_consumer (fst x) = true ->
  dsl_expands p (pre ++ x :: post) <> [] /\ dsl_expands p (pre ++ post) = [].
Proof.
  intros Hp Hc Hx. split; [ | exact Hc ].
  apply dsl_rejects_consumer_in_adapter_macro with (x := x); auto.
  apply in_or_app. right. left. reflexivity.
Qed.

(** arguments: the accepted chain has [m] with the right argument shape; any other shape
    (arguments to an argument-less method, `()` for a method that needs arguments, or no
    parentheses at all) is rejected *)
Theorem dsl_flip_args p pre m a a' post :
  dsl_expands p (pre ++ (m, a) :: post) = [] -> a' <> a ->
  dsl_expands p (pre ++ (m, a') :: post) <> [] /\ dsl_expands p (pre ++ (m, a) :: post) = [].
Proof.
  intros Hc Hne. split; [ | exact Hc ].
  apply dsl_accepts_iff in Hc. destruct Hc as (_ & _ & Hargs).
  rewrite Forall_forall in Hargs.
  assert (Ha : args_ok (m, a)) by (apply Hargs; apply in_or_app; right; left; reflexivity).
  apply dsl_rejects_bad_args with (x := (m, a')).
  - apply in_or_app. right. left. reflexivity.
  - unfold args_ok in *. cbn in *. congruence.
Qed.
