(** C17 — proofs: the guards' decisions (Model/Guards.v) = well-formedness (Spec/Guards.v). *)
From KV Require Import Base.Prelude Model.Guards Spec.Guards.
Import ListNotations.
Local Open Scope nat_scope.

(* ================================================================== iterator DSL *)

Definition known (m : mname) : bool := in_list1 m || in_list2 m.

(** state variables / `return` entries the pre-processing of [l] creates *)
Fixpoint varsum (l : list meth) : nat :=
  match l with
  | [] => 0
  | x :: r => (var_of (fst x) + (if in_list2 (fst x) then 1 else 0)) + varsum r
  end.
Fixpoint retsum (l : list meth) : nat :=
  match l with [] => 0 | x :: r => ret_of (fst x) + retsum r end.

Fixpoint rev_ok_b (prev : bool) (l : list meth) : bool :=
  match l with
  | [] => true
  | x :: r => if reversing (fst x) then negb prev && rev_ok_b true r else rev_ok_b prev r
  end.

Definition arg_ok_b (x : meth) : bool :=
  match snd x, argless (fst x) with
  | Empty, true => true
  | Given, false => true
  | _, _ => false
  end.

(** adapters (well-formed arguments), then — only where consumers are allowed — one consumer *)
Fixpoint chain_ok_b (cm : bool) (l : list meth) : bool :=
  match l with
  | [] => true
  | x :: r =>
      if is_adapter (fst x) then arg_ok_b x && chain_ok_b cm r
      else cm && is_consumer (fst x) && arg_ok_b x && is_nil r
  end.

(** the same, but the argument of zip/take/skip/nth is not looked at by __call_iter_methods /
    __iter_eval: it sits in the initialiser of the state variable ([var_init_diag]) *)
Definition var_init_meth (m : mname) : bool :=
  match m with Zip | Take | Skip | Nth => true | _ => false end.
Definition arg_ok_call (x : meth) : bool := var_init_meth (fst x) || arg_ok_b x.
Fixpoint chain_ok_call (cm : bool) (l : list meth) : bool :=
  match l with
  | [] => true
  | x :: r =>
      if is_adapter (fst x) then arg_ok_call x && chain_ok_call cm r
      else cm && is_consumer (fst x) && arg_ok_call x && is_nil r
  end.
Definition parens (x : meth) : Prop := snd x <> NoParens.

Lemma list1_not_list2 m : in_list1 m = true -> in_list2 m = false.
Proof. destruct m; cbn; congruence. Qed.

Lemma app_nil_iff {A} (a b : list A) : a ++ b = [] <-> a = [] /\ b = [].
Proof. split. - apply app_eq_nil. - intros [-> ->]; reflexivity. Qed.

(* ------------------------------------------------------------------ __call_iter_methods *)

Ltac nonnil := split; [ discriminate | intros [_ H]; discriminate H ].

Lemma eval_fallthrough_cons n x l : eval_fallthrough n (x :: l) <> [].
Proof. destruct n; cbn; discriminate. Qed.

(** one method left for __iter_eval, with exactly the variables its pre-processing created *)
Lemma iter_eval_single d m a : a <> NoParens ->
  iter_eval (varsum [(m, a)] + retsum [(m, a)]) d [(m, a)] = [] <->
  d = [] /\ (is_consumer m && arg_ok_call (m, a)) = true.
Proof.
  intros Ha.
  destruct m; destruct a; try congruence; cbn;
    try (split; [ discriminate | intros [_ H]; discriminate H ]);
    try (split; [ intros ->; split; reflexivity | intros [-> _]; reflexivity ]).
Qed.

Lemma iter_eval_many n d x y l : iter_eval n d (x :: y :: l) <> [].
Proof. destruct x as [m a]. cbn. apply eval_fallthrough_cons. Qed.

Lemma non_adapter_cons cm d m a r :
  is_adapter m = false -> a <> NoParens ->
  non_adapter cm (varsum ((m, a) :: r) + retsum ((m, a) :: r)) d ((m, a) :: r) = [] <->
  d = [] /\ (cm && is_consumer m && arg_ok_call (m, a) && is_nil r) = true.
Proof.
  intros Had Ha. unfold non_adapter. destruct cm.
  - destruct r as [| y r].
    + rewrite iter_eval_single by exact Ha. cbn [andb]. rewrite andb_true_r. reflexivity.
    + split.
      * intros H. exfalso. revert H. apply iter_eval_many.
      * intros [_ H]. cbn in H. rewrite andb_false_r in H. discriminate H.
  - cbn [andb]. split; [ discriminate | intros [_ H]; discriminate H ].
Qed.

Lemma call_non_adapter cm n d m a r : is_adapter m = false ->
  call_iter_methods cm n d ((m, a) :: r) = non_adapter cm n d ((m, a) :: r).
Proof. intros Had. destruct m; try discriminate Had; reflexivity. Qed.

Lemma call_iter_methods_nil cm : forall l d, Forall parens l ->
  call_iter_methods cm (varsum l + retsum l) d l = [] <-> d = [] /\ chain_ok_call cm l = true.
Proof.
  induction l as [| [m a] r IH]; intros d Hp.
  - cbn. destruct cm; cbn; split; try (intros ->; split; reflexivity); intros [-> _]; reflexivity.
  - inversion Hp as [| ? ? Ha Hr]; subst. unfold parens in Ha. cbn in Ha.
    destruct (is_adapter m) eqn:Had.
    + cbn [chain_ok_call fst]. rewrite Had.
      destruct m; try discriminate Had; cbn [varsum retsum fst snd var_of ret_of in_list2 Nat.add];
        destruct a; try congruence;
        cbn [call_iter_methods error_on_args closure_err];
        repeat rewrite app_nil_iff; rewrite ?IH by exact Hr; repeat rewrite app_nil_iff;
        cbn; intuition (try discriminate; try reflexivity; auto).
    + cbn [chain_ok_call fst]. rewrite Had.
      rewrite call_non_adapter by exact Had. apply non_adapter_cons; [ exact Had | exact Ha ].
Qed.

(** with the initialisers of the state variables, the argument of every method is checked *)
Lemma chain_ok_call_var_init cm : forall l, Forall parens l ->
  (flat_map var_init_diag l = [] /\ chain_ok_call cm l = true) <-> chain_ok_b cm l = true.
Proof.
  induction l as [| [m a] r IH]; intros Hp.
  - cbn. intuition.
  - inversion Hp as [| ? ? Ha Hr]; subst. unfold parens in Ha. cbn in Ha. specialize (IH Hr).
    cbn [flat_map chain_ok_call chain_ok_b fst]. rewrite app_nil_iff.
    destruct (is_adapter m) eqn:Had.
    + rewrite !andb_true_iff, <- IH.
      destruct m; try discriminate Had; destruct a; try congruence; cbn;
        intuition (try discriminate; auto).
    + destruct r as [| y r].
      * destruct cm; destruct m; try discriminate Had; destruct a; try congruence; cbn;
          intuition (try discriminate; auto).
      * cbn [is_nil]. rewrite !andb_false_r. intuition discriminate.
Qed.

(* ------------------------------------------------------------------ __cim_preprocess_methods *)

Lemma preprocess_nil cm all : forall l prev nret nvars,
  preprocess cm all l prev nret nvars = [] <->
  forallb (fun x => known (fst x)) l = true /\ rev_ok_b prev l = true /\ nret + retsum l <= 1 /\
  call_iter_methods cm ((nvars + varsum l) + (nret + retsum l)) (flat_map var_init_diag all) all = [].
Proof.
  induction l as [| [m a] r IH]; intros prev nret nvars.
  - cbn [preprocess forallb rev_ok_b retsum varsum]. rewrite !Nat.add_0_r.
    destruct (Nat.leb nret 1) eqn:E.
    + apply Nat.leb_le in E. intuition.
    + apply Nat.leb_gt in E. split; [ discriminate | intros (_ & _ & H & _); lia ].
  - cbn [preprocess forallb rev_ok_b retsum varsum fst]. unfold known at 1.
    destruct (in_list1 m) eqn:E1.
    + pose proof (list1_not_list2 m E1) as E2. rewrite E2. cbn [orb andb].
      rewrite app_nil_iff, IH.
      replace (nvars + var_of m + varsum r + (nret + ret_of m + retsum r))
        with (nvars + (var_of m + 0 + varsum r) + (nret + (ret_of m + retsum r))) by lia.
      replace (nret + ret_of m + retsum r) with (nret + (ret_of m + retsum r)) by lia.
      destruct (reversing m); destruct prev; cbn [andb orb negb];
        intuition (try discriminate; auto).
    + cbn [orb]. destruct (in_list2 m) eqn:E2.
      * assert (Hv : var_of m = 0) by (destruct m; try discriminate E2; reflexivity).
        assert (Hr : ret_of m = 0) by (destruct m; try discriminate E2; reflexivity).
        assert (Hrv : reversing m = false) by (destruct m; try discriminate E2; reflexivity).
        rewrite Hv, Hr, Hrv. cbn [andb Nat.add]. rewrite IH.
        replace (nvars + 1 + varsum r) with (nvars + S (varsum r)) by lia.
        intuition.
      * cbn [andb]. split; [ discriminate | intros (H & _); discriminate H ].
Qed.

(* ------------------------------------------------------------------ pieces of the final statement *)

Lemma rev_ok_true l : rev_ok_b true l = true <-> reversing_count l = 0.
Proof.
  unfold reversing_count. induction l as [| x r IH]; cbn.
  - intuition.
  - destruct (reversing (fst x)); cbn; [ split; [ discriminate | lia ] | exact IH ].
Qed.

Lemma rev_ok_false l : rev_ok_b false l = true <-> reversing_count l <= 1.
Proof.
  induction l as [| x r IH]; cbn.
  - unfold reversing_count; cbn. intuition.
  - unfold reversing_count in *. cbn. destruct (reversing (fst x)); cbn.
    + pose proof (rev_ok_true r) as H. unfold reversing_count in H. rewrite H. lia.
    + exact IH.
Qed.

Lemma arg_ok_iff x : arg_ok_b x = true <-> args_ok x.
Proof.
  unfold arg_ok_b, args_ok. destruct x as [m a]. cbn.
  destruct a; destruct (argless m); split; intros H; try discriminate H; reflexivity.
Qed.

Lemma adapter_known m : is_adapter m = true -> known m = true.
Proof. destruct m; cbn; congruence. Qed.
Lemma consumer_known m : is_consumer m = true -> known m = true.
Proof. destruct m; cbn; congruence. Qed.
Lemma adapter_ret m : is_adapter m = true -> ret_of m = 0.
Proof. destruct m; cbn; congruence. Qed.
Lemma consumer_ret m : ret_of m <= 1.
Proof. destruct m; cbn; lia. Qed.

(** what a well-formed chain implies for the other guards *)
Lemma chain_ok_facts cm : forall l, chain_ok_b cm l = true ->
  forallb (fun x => known (fst x)) l = true /\ retsum l <= 1 /\
  flat_map assert_has_args l = [] /\ map norm_meth l = l /\ flat_map var_init_diag l = [] /\
  Forall parens l.
Proof.
  induction l as [| [m a] r IH]; cbn [chain_ok_b fst]; intros H.
  - cbn. repeat split; try lia. constructor.
  - destruct (is_adapter m) eqn:Had.
    + apply andb_prop in H. destruct H as [Ha Hr]. specialize (IH Hr).
      destruct IH as (I1 & I2 & I3 & I4 & I5 & I6).
      cbn [forallb retsum flat_map map fst]. rewrite I1, I3, I4, I5, (adapter_known m Had), (adapter_ret m Had).
      unfold arg_ok_b in Ha. cbn in Ha.
      destruct m; try discriminate Had; destruct a; try discriminate Ha; cbn; repeat split; try lia;
        constructor; try exact I6; unfold parens; cbn; discriminate.
    + apply andb_prop in H. destruct H as [H Hnil]. apply andb_prop in H. destruct H as [H Harg].
      apply andb_prop in H. destruct H as [Hcm Hcons].
      destruct r; [ | discriminate ].
      cbn [forallb retsum flat_map map fst]. rewrite (consumer_known m Hcons).
      unfold arg_ok_b in Harg. cbn in Harg.
      destruct m; try discriminate Hcons; destruct a; try discriminate Harg; cbn; repeat split; try lia;
        constructor; try constructor; unfold parens; cbn; discriminate.
Qed.

Lemma chain_ok_adapters l : chain_ok_b false l = true <->
  Forall (fun x => is_adapter (fst x) = true) l /\ Forall args_ok l.
Proof.
  induction l as [| x r IH]; cbn [chain_ok_b].
  - intuition.
  - destruct (is_adapter (fst x)) eqn:Had.
    + rewrite andb_true_iff, IH, arg_ok_iff. split.
      * intros (Ha & Hf & Hg). split; constructor; auto.
      * intros (Hf & Hg). inversion Hf; inversion Hg; subst. auto.
    + cbn. split; [ discriminate | ]. intros (Hf & _). inversion Hf; subst. congruence.
Qed.

Lemma adapter_not_consumer m : is_adapter m = true -> is_consumer m = true -> False.
Proof. destruct m; cbn; congruence. Qed.

Lemma chain_ok_eval l : chain_ok_b true l = true <-> supported_at PEval l /\ Forall args_ok l.
Proof.
  induction l as [| x r IH]; cbn [chain_ok_b].
  - split; [ | reflexivity ]. intros _. split; [ | constructor ].
    exists [], []. repeat split; auto.
  - destruct (is_adapter (fst x)) eqn:Had.
    + rewrite andb_true_iff, IH, arg_ok_iff. split.
      * intros (Ha & (ads & tl & -> & Hads & Htl) & Hg). split; [ | constructor; auto ].
        exists (x :: ads), tl. repeat split; auto.
      * intros ((ads & tl & Heq & Hads & Htl) & Hg). inversion Hg as [| ? ? Hx Hr]; subst.
        split; [ exact Hx | ]. split; [ | exact Hr ].
        destruct ads as [| y ads].
        -- cbn in Heq. destruct Htl as [-> | (c & -> & Hc)]; [ discriminate Heq | ].
           inversion Heq; subst. exfalso. eapply adapter_not_consumer; eauto.
        -- cbn in Heq. inversion Heq; subst. inversion Hads; subst.
           exists ads, tl. repeat split; auto.
    + cbn [andb]. split.
      * intros H. apply andb_prop in H. destruct H as [H Hnil]. apply andb_prop in H.
        destruct H as [Hcons Harg].
        destruct r; [ | discriminate ]. apply arg_ok_iff in Harg.
        split; [ | repeat constructor; auto ].
        exists [], [x]. repeat split; auto. right. exists x. auto.
      * intros ((ads & tl & Heq & Hads & Htl) & Hg). inversion Hg as [| ? ? Hx Hr]; subst.
        destruct ads as [| y ads].
        -- cbn in Heq. destruct Htl as [-> | (c & -> & Hc)]; [ discriminate Heq | ].
           inversion Heq; subst. rewrite Hc. apply arg_ok_iff in Hx. rewrite Hx. reflexivity.
        -- cbn in Heq. inversion Heq; subst. inversion Hads; subst. congruence.
Qed.

Lemma chain_ok_supported p l :
  chain_ok_b (consumer_mode p) l = true <-> supported_at p l /\ Forall args_ok l.
Proof.
  destruct p; cbn [consumer_mode supported_at].
  - apply chain_ok_adapters.
  - apply chain_ok_adapters.
  - apply chain_ok_eval.
Qed.

(** the expansion of an iterator-DSL macro produces no diagnostic exactly for the well-formed
    method lists *)
Theorem dsl_accepts_iff p ms : dsl_expands p ms = [] <-> dsl_ok p ms.
Proof.
  unfold dsl_expands, dsl_ok. rewrite app_nil_iff.
  rewrite <- chain_ok_supported, <- rev_ok_false. split.
  - intros (Hargs & Hpre).
    assert (Hnorm : map norm_meth ms = ms).
    { clear Hpre. induction ms as [| [m a] r IH]; [ reflexivity | ].
      cbn in Hargs. apply app_eq_nil in Hargs. destruct Hargs as [H1 H2].
      cbn. rewrite (IH H2). destruct a; try discriminate H1; reflexivity. }
    assert (Hpar : Forall parens ms).
    { clear Hpre Hnorm. induction ms as [| [m a] r IH]; constructor.
      - unfold parens. cbn. cbn in Hargs. destruct a; [ discriminate Hargs | discriminate | discriminate ].
      - apply IH. cbn in Hargs. apply app_eq_nil in Hargs. tauto. }
    rewrite Hnorm in Hpre. apply preprocess_nil in Hpre.
    destruct Hpre as (_ & Hrev & _ & Hcall). cbn [Nat.add] in Hcall.
    apply call_iter_methods_nil in Hcall; [ | exact Hpar ].
    split; [ exact Hrev | ]. apply chain_ok_call_var_init; [ exact Hpar | exact Hcall ].
  - intros (Hrev & Hchain).
    destruct (chain_ok_facts _ _ Hchain) as (Hk & Hret & Hnp & Hnorm & Hvi & Hpar).
    split; [ exact Hnp | ]. rewrite Hnorm. apply preprocess_nil.
    repeat split; auto. cbn [Nat.add]. apply call_iter_methods_nil; [ exact Hpar | ].
    apply chain_ok_call_var_init; auto.
Qed.

(** each misuse class rejects, whatever else the chain contains ... *)
Lemma dsl_rejects p ms : ~ dsl_ok p ms -> dsl_expands p ms <> [].
Proof. intros H E. apply H. apply dsl_accepts_iff. exact E. Qed.

Lemma dsl_rejects_two_reversals p ms : 2 <= reversing_count ms -> dsl_expands p ms <> [].
Proof. intros H. apply dsl_rejects. intros (H1 & _). lia. Qed.

Lemma dsl_rejects_bad_args p ms x : In x ms -> ~ args_ok x -> dsl_expands p ms <> [].
Proof.
  intros Hin Hx. apply dsl_rejects. intros (_ & _ & H). rewrite Forall_forall in H. auto.
Qed.

Lemma supported_known p ms x : supported_at p ms -> In x ms -> known (fst x) = true.
Proof.
  intros Hs Hin. destruct p; cbn in Hs.
  1,2: rewrite Forall_forall in Hs; apply adapter_known; auto.
  destruct Hs as (ads & tl & -> & Hads & Htl). apply in_app_or in Hin. destruct Hin as [Hin | Hin].
  - rewrite Forall_forall in Hads. apply adapter_known; auto.
  - destruct Htl as [-> | (c & -> & Hc)]; [ destruct Hin | ].
    destruct Hin as [<- | []]. apply consumer_known; auto.
Qed.

Lemma dsl_rejects_unsupported p ms a : In (Other, a) ms -> dsl_expands p ms <> [].
Proof.
  intros Hin. apply dsl_rejects. intros (_ & Hs & _).
  pose proof (supported_known _ _ _ Hs Hin) as H. discriminate H.
Qed.

Lemma dsl_rejects_consumer_in_adapter_macro p ms x :
  p <> PEval -> In x ms -> is_consumer (fst x) = true -> dsl_expands p ms <> [].
Proof.
  intros Hp Hin Hc. apply dsl_rejects. intros (_ & Hs & _).
  destruct p; try congruence; cbn in Hs; rewrite Forall_forall in Hs;
    eapply adapter_not_consumer; eauto.
Qed.

Lemma reversing_count_app a b : reversing_count (a ++ b) = reversing_count a + reversing_count b.
Proof. unfold reversing_count. rewrite filter_app, app_length. reflexivity. Qed.

(** verdict flips: take any accepted chain [pre ++ post] (the control) and add the offending
    element at any position *)
Theorem dsl_flip_second_reversal p pre x post :
  dsl_expands p (pre ++ post) = [] -> reversing (fst x) = true -> 1 <= reversing_count (pre ++ post) ->
  dsl_expands p (pre ++ x :: post) <> [] /\ dsl_expands p (pre ++ post) = [].
Proof.
  intros Hc Hr Hn. split; [ | exact Hc ]. apply dsl_rejects_two_reversals.
  rewrite reversing_count_app in *. unfold reversing_count in *. cbn. rewrite Hr. cbn. lia.
Qed.

Theorem dsl_flip_unsupported p pre a post :
  dsl_expands p (pre ++ post) = [] ->
  dsl_expands p (pre ++ (Other, a) :: post) <> [] /\ dsl_expands p (pre ++ post) = [].
Proof.
  intros Hc. split; [ | exact Hc ]. apply dsl_rejects_unsupported with (a := a).
  apply in_or_app. right. left. reflexivity.
Qed.

Theorem dsl_flip_consumer_in_adapter_macro p pre x post :
  p <> PEval -> dsl_expands p (pre ++ post) = [] -> is_consumer (fst x) = true ->
  dsl_expands p (pre ++ x :: post) <> [] /\ dsl_expands p (pre ++ post) = [].
Proof.
  intros Hp Hc Hx. split; [ | exact Hc ].
  apply dsl_rejects_consumer_in_adapter_macro with (x := x); auto.
  apply in_or_app. right. left. reflexivity.
Qed.

(** arguments: the accepted chain has [m] with the right argument shape; any other shape
    (arguments to an argument-less method, `()` for a method that needs arguments, or no
    parentheses at all) is rejected *)
Theorem dsl_flip_args p pre m a a' post :
  dsl_expands p (pre ++ (m, a) :: post) = [] -> a' <> a ->
  dsl_expands p (pre ++ (m, a') :: post) <> [] /\ dsl_expands p (pre ++ (m, a) :: post) = [].
Proof.
  intros Hc Hne. split; [ | exact Hc ].
  apply dsl_accepts_iff in Hc. destruct Hc as (_ & _ & Hargs).
  rewrite Forall_forall in Hargs.
  assert (Ha : args_ok (m, a)) by (apply Hargs; apply in_or_app; right; left; reflexivity).
  apply dsl_rejects_bad_args with (x := (m, a')).
  - apply in_or_app. right. left. reflexivity.
  - unfold args_ok in *. cbn in *. congruence.
Qed.

(* ================================================================== parser_method! *)

Definition lits (b : branch) : Prop :=
  b_pats b <> [] /\ Forall (fun p => lit_ok p = true) (b_pats b).

Lemma pats_diag_nil ps :
  pats_diag ps = [] <-> ps <> [] /\ Forall (fun p => lit_ok p = true) ps.
Proof.
  unfold pats_diag. destruct ps as [| p r].
  - split; [ discriminate | intros [H _]; congruence ].
  - destruct (forallb lit_ok (p :: r)) eqn:Hf.
    + split; [ | reflexivity ]. intros _. split; [ discriminate | ].
      apply Forall_forall. apply forallb_forall. exact Hf.
    + split; [ discriminate | ]. intros [_ H]. rewrite Forall_forall in H.
      rewrite <- forallb_forall in H. congruence.
Qed.

Lemma mm_branches_nil f prev : trim_form f = false ->
  (method_macro_branches f prev = [] <-> Forall lits prev).
Proof.
  intros Hf. unfold method_macro_branches. rewrite Hf.
  induction prev as [| b r IH]; cbn.
  - split; [ constructor | reflexivity ].
  - rewrite app_nil_iff, pats_diag_nil, IH. split.
    + intros [H1 H2]. constructor; auto.
    + intros H. inversion H; subst. auto.
Qed.

Lemma wild_only_iff b : wild_only b = true <-> b_pats b = [PWild].
Proof.
  unfold wild_only. destruct (b_pats b) as [| p [| q r]].
  - split; [ discriminate | discriminate ].
  - destruct p; split; intros H; try discriminate H; try reflexivity; inversion H.
  - destruct p; split; intros H; try discriminate H; inversion H.
Qed.

Lemma is_nil_iff {A} (l : list A) : is_nil l = true <-> l = [].
Proof. destruct l; cbn; split; intros H; try reflexivity; discriminate H. Qed.

Lemma mid_not_wild b : mid_ok b -> wild_only b = false.
Proof.
  intros (_ & Hl & _). destruct (wild_only b) eqn:E; [ | reflexivity ].
  apply wild_only_iff in E. rewrite E in Hl. inversion Hl as [| ? ? H1 _]; subst. discriminate H1.
Qed.

Lemma normalize_nil f : trim_form f = false -> forall bs prev,
  normalize f prev bs = [] <->
  exists init d, bs = init ++ [d] /\ b_pats d = [PWild] /\ Forall mid_ok init /\ Forall lits prev.
Proof.
  intros Hf. induction bs as [| b rest IH]; intros prev.
  - cbn [normalize]. split.
    + destruct prev; unfold method_macro_pats; rewrite ?Hf; discriminate.
    + intros (init & d & H & _). destruct init; discriminate H.
  - cbn [normalize].
    destruct (wild_only b && (b_comma b || is_nil rest)) eqn:Harm2.
    + apply andb_prop in Harm2. destruct Harm2 as [Hw Hc].
      rewrite app_nil_iff, (mm_branches_nil f prev Hf). split.
      * intros [Hafter Hprev].
        assert (Hrest : rest = []).
        { destruct rest; [ reflexivity | ]. cbn [is_nil] in *. rewrite orb_false_r in Hc.
          rewrite Hc in Hafter. discriminate Hafter. }
        subst rest. exists [], b. repeat split; auto. apply wild_only_iff; exact Hw.
      * intros (init & d & Heq & Hd & Hinit & Hprev). destruct init as [| b' init].
        -- cbn in Heq. inversion Heq; subst. split; [ | exact Hprev ].
           cbn [is_nil negb]. rewrite andb_false_r. reflexivity.
        -- cbn in Heq. inversion Heq; subst. inversion Hinit as [| ? ? Hb _]; subst.
           apply mid_not_wild in Hb. congruence.
    + assert (Hnotdefault : forall d, b :: rest = [] ++ [d] -> b_pats d = [PWild] -> False).
      { intros d Heq Hd. cbn in Heq. inversion Heq; subst.
        apply wild_only_iff in Hd. rewrite Hd in Harm2. cbn in Harm2. rewrite orb_true_r in Harm2.
        discriminate Harm2. }
      assert (Hstep : (if is_nil rest then [d0 KPmMore] else []) ++ normalize f (prev ++ [b]) rest = [] <->
                      exists init d, rest = init ++ [d] /\ b_pats d = [PWild] /\ Forall mid_ok init /\
                                     Forall lits (prev ++ [b])).
      { rewrite app_nil_iff, IH. split.
        - intros [_ H]. exact H.
        - intros (init & d & -> & H). split; [ | exists init, d; tauto ].
          destruct init; reflexivity. }
      assert (Hfin : (b_comma b = true \/ b_body b = BBlock) ->
                     ((exists init d, rest = init ++ [d] /\ b_pats d = [PWild] /\ Forall mid_ok init /\
                                      Forall lits (prev ++ [b])) <->
                      (exists init d, b :: rest = init ++ [d] /\ b_pats d = [PWild] /\ Forall mid_ok init /\
                                      Forall lits prev))).
      { intros Hcb. split.
        - intros (init & d & -> & Hd & Hinit & Hprev). apply Forall_app in Hprev.
          destruct Hprev as [Hprev Hb]. inversion Hb as [| ? ? [Hb1 Hb2] _]; subst.
          exists (b :: init), d. repeat split; auto. constructor; [ | exact Hinit ].
          repeat split; auto.
        - intros (init & d & Heq & Hd & Hinit & Hprev). destruct init as [| b' init].
          + exfalso. eapply Hnotdefault; eauto.
          + cbn in Heq. inversion Heq; subst. inversion Hinit as [| ? ? (Hb1 & Hb2 & _) Hinit']; subst.
            exists init, d. repeat split; auto. apply Forall_app. split; [ exact Hprev | ].
            constructor; [ split; auto | constructor ]. }
      destruct (b_comma b) eqn:Hcomma.
      * rewrite Hstep. apply Hfin. left. reflexivity.
      * destruct (b_body b) eqn:Hbody.
        -- split; [ discriminate | ]. intros (init & d & Heq & Hd & Hinit & _).
           destruct init as [| b' init].
           ++ exfalso. eapply Hnotdefault; eauto.
           ++ cbn in Heq. inversion Heq; subst. inversion Hinit as [| ? ? (_ & _ & [Hc | Hc]) _]; subst; congruence.
        -- rewrite Hstep. apply Hfin. right. reflexivity.
Qed.

Lemma normalize_trim f : trim_form f = true -> forall bs prev, normalize f prev bs <> [].
Proof.
  intros Hf. induction bs as [| b rest IH]; intros prev; cbn [normalize].
  - destruct prev; unfold method_macro_pats; rewrite ?Hf; cbn; discriminate.
  - destruct (wild_only b && (b_comma b || is_nil rest)).
    + unfold method_macro_branches. rewrite Hf. intros H. apply app_eq_nil in H. destruct H as [_ H].
      discriminate H.
    + destruct (b_comma b).
      * intros H. apply app_eq_nil in H. destruct H as [_ H]. revert H. apply IH.
      * destruct (b_body b); [ discriminate | ].
        intros H. apply app_eq_nil in H. destruct H as [_ H]. revert H. apply IH.
Qed.

Theorem parser_method_accepts_iff f inp : pm_expands f inp = [] <-> pm_ok f inp.
Proof.
  assert (Hmatch : trim_form f = false -> f <> Bogus ->
                   (pm_expands f inp = [] <->
                    exists init d, inp = Branches (init ++ [d]) /\ Forall mid_ok init /\ b_pats d = [PWild])).
  { intros Hf Hb.
    assert (Hexp : pm_expands f inp = match inp with
                                      | PatsOnly ps => method_macro_pats f ps
                                      | Branches bs => normalize f [] bs end)
      by (destruct f; try congruence; reflexivity).
    rewrite Hexp. destruct inp as [ps | bs].
    - unfold method_macro_pats. rewrite Hf. split; [ discriminate | ].
      intros (init & d & H & _). discriminate H.
    - rewrite (normalize_nil f Hf). split.
      + intros (init & d & -> & Hd & Hi & _). exists init, d. auto.
      + intros (init & d & Heq & Hi & Hd). inversion Heq; subst. exists init, d. repeat split; auto. }
  assert (Htrim : trim_form f = true ->
                  (pm_expands f inp = [] <->
                   exists ps, ps <> [] /\ Forall (fun p => lit_ok p = true) ps /\ inp = PatsOnly ps)).
  { intros Hf.
    assert (Hexp : pm_expands f inp = match inp with
                                      | PatsOnly ps => method_macro_pats f ps
                                      | Branches bs => normalize f [] bs end)
      by (destruct f; try discriminate Hf; reflexivity).
    rewrite Hexp. destruct inp as [ps | bs].
    - unfold method_macro_pats. rewrite Hf, pats_diag_nil. split.
      + intros [H1 H2]. exists ps. auto.
      + intros (ps' & H1 & H2 & Heq). inversion Heq; subst. auto.
    - split.
      + intros H. exfalso. revert H. apply normalize_trim. exact Hf.
      + intros (ps & _ & _ & H). discriminate H. }
  destruct f; cbn [pm_ok];
    try (apply Hmatch; [ reflexivity | discriminate ]);
    try (apply Htrim; reflexivity).
  cbn. split; [ discriminate | intros [] ].
Qed.

Lemma pm_rejects f inp : ~ pm_ok f inp -> pm_expands f inp <> [].
Proof. intros H E. apply H. apply parser_method_accepts_iff. exact E. Qed.

Definition match_form (f : pm_form) : Prop := trim_form f = false /\ f <> Bogus.

Lemma pm_ok_match f inp : match_form f ->
  (pm_ok f inp <-> exists init d, inp = Branches (init ++ [d]) /\ Forall mid_ok init /\ b_pats d = [PWild]).
Proof. intros [Hf Hb]. destruct f; try discriminate Hf; try congruence; reflexivity. Qed.

(** no default branch at all: rejected; with the default appended: accepted *)
Theorem pm_flip_missing_default f init d :
  match_form f -> Forall mid_ok init -> b_pats d = [PWild] ->
  pm_expands f (Branches init) <> [] /\ pm_expands f (Branches (init ++ [d])) = [].
Proof.
  intros Hf Hi Hd. split.
  - apply pm_rejects. rewrite (pm_ok_match f _ Hf). intros (init' & d' & Heq & _ & Hd').
    inversion Heq as [Heq']. subst init. apply Forall_app in Hi. destruct Hi as [_ Hi].
    inversion Hi as [| ? ? Hm _]; subst. apply mid_not_wild in Hm.
    apply wild_only_iff in Hd'. congruence.
  - apply parser_method_accepts_iff. rewrite (pm_ok_match f _ Hf). exists init, d. auto.
Qed.

(** anything after the default branch: rejected *)
Theorem pm_flip_misplaced_default f init d b post :
  match_form f -> Forall mid_ok init -> b_pats d = [PWild] -> mid_ok b ->
  pm_expands f (Branches (init ++ d :: b :: post)) <> [] /\ pm_expands f (Branches (init ++ [d])) = [].
Proof.
  intros Hf Hi Hd Hb. split.
  - apply pm_rejects. rewrite (pm_ok_match f _ Hf). intros (init' & d' & Heq & Hi' & Hd').
    inversion Heq as [Heq']. clear Heq.
    assert (Hin : In d init').
    { assert (Hr : removelast (init ++ d :: b :: post) = init') by (rewrite Heq'; apply removelast_last).
      rewrite removelast_app in Hr by discriminate. cbn [removelast] in Hr.
      rewrite <- Hr. apply in_or_app. right. left. reflexivity. }
    rewrite Forall_forall in Hi'. specialize (Hi' d Hin). apply mid_not_wild in Hi'.
    apply wild_only_iff in Hd. congruence.
  - apply parser_method_accepts_iff. rewrite (pm_ok_match f _ Hf). exists init, d. auto.
Qed.

(** a pattern that is not a string literal, anywhere before the default: rejected *)
Theorem pm_rejects_nonliteral f pre b post d p :
  match_form f -> In p (b_pats b) -> lit_ok p = false ->
  pm_expands f (Branches (pre ++ b :: post ++ [d])) <> [].
Proof.
  intros Hf Hin Hp. apply pm_rejects. rewrite (pm_ok_match f _ Hf).
  intros (init' & d' & Heq & Hi' & _). inversion Heq as [Heq']. clear Heq.
  replace (pre ++ b :: post ++ [d]) with ((pre ++ b :: post) ++ [d]) in Heq'
    by (rewrite <- app_assoc; reflexivity).
  apply app_inj_tail in Heq'. destruct Heq' as [<- _].
  rewrite Forall_forall in Hi'.
  assert (Hm : mid_ok b) by (apply Hi'; apply in_or_app; right; left; reflexivity).
  destruct Hm as (_ & Hl & _). rewrite Forall_forall in Hl. specialize (Hl p Hin). congruence.
Qed.

Theorem pm_trim_accepts_iff f ps : trim_form f = true ->
  (pm_expands f (PatsOnly ps) = [] <-> ps <> [] /\ Forall (fun p => lit_ok p = true) ps).
Proof.
  intros Hf. rewrite parser_method_accepts_iff.
  destruct f; try discriminate Hf; cbn [pm_ok]; split.
  1,3: intros (ps' & H1 & H2 & Heq); inversion Heq; subst; auto.
  all: intros [H1 H2]; exists ps; auto.
Qed.

(* ================================================================== destructure! *)

(** R1: what "the pattern fits the type" means (the type is already stripped of references) *)
Definition pat_fits (E : env) (ps : pshape) (t : ty) : Prop :=
  match ps, t with
  | PSStruct p fs, TNamed q => p = q /\ forall f, In f fs <-> In f (fields E q)
  | PSTuple k, TTuple k' => k = k'
  | PSArray k false, TArray n => k = n
  | PSArray k true, TArray n => k <= n
  | _, _ => False
  end.

Lemma existsb_rest_false es : existsb is_rest es = false <-> no_rest es.
Proof.
  unfold no_rest. induction es as [| e r IH]; cbn.
  - split; [ constructor | reflexivity ].
  - rewrite orb_false_iff, IH. split.
    + intros [H1 H2]. constructor; auto.
    + intros H. inversion H; subst. auto.
Qed.

Lemma no_rest_filter es : no_rest es -> filter is_rest es = [].
Proof.
  unfold no_rest. induction 1 as [| e r He _ IH]; cbn; [ reflexivity | ]. rewrite He. exact IH.
Qed.

Lemma walk_no_rest : forall es n, no_rest es ->
  walk_names n es = if Nat.leb (length es) n then WOk else WNoMatch.
Proof.
  unfold no_rest. induction es as [| e r IH]; intros n H.
  - cbn. reflexivity.
  - inversion H as [| ? ? He Hr]; subst. cbn [walk_names length].
    destruct e; try discriminate He. destruct n; [ cbn; reflexivity | ].
    rewrite (IH n Hr). cbn. reflexivity.
Qed.

Section RustcOracle.
  (** The type checker, as far as the expansion of [destructure!] relies on it.  These three
      behaviours of rustc are ASSUMED here (they are what the compile runs of the
      correspondence validate, and what [check_diag] reads concretely):
      - R1_exhaustive_patterns : a struct pattern WITHOUT `..`, a tuple pattern, an array
        pattern is accepted for a value of type T, &T, &&T.. exactly when it names every
        declared field and no other / has the arity / fits the length;
      - R2_no_ref_coercion : where the expansion equates two types (assert_same_type,
        `let _: T = v`, array_into_phantom) T and &T are different types;
      - R3_inherent_iff_drop : method resolution on __GetImpls_IWRHQLPNNIEU8C6W<T> picks the
        inherent method (declared `where T: Drop`) exactly when T implements Drop. *)
  Variable E : env.
  Variable rustc_pat : pshape -> ty -> bool.
  Variable rustc_same : ty -> ty -> bool.
  Variable rustc_probe_inherent : ty -> bool.
  Hypothesis R1_exhaustive_patterns : forall ps t, rustc_pat ps t = true <-> pat_fits E ps (peel t).
  Hypothesis R2_no_ref_coercion : forall a b, rustc_same a b = true <-> a = b.
  Hypothesis R3_inherent_iff_drop : forall t, rustc_probe_inherent t = true <-> impls_drop_ty E t.

  Definition check_holds (c : check) : bool :=
    match c with
    | CPat ps t => rustc_pat ps t
    | CSame a b => rustc_same a b
    | CNotDrop t => negb (rustc_probe_inherent t)     (* the trait method's return type is expected *)
    end.

  (** the program compiles: the expansion is not a compile_error! and every check passes *)
  Definition accepts (d : destr) : bool :=
    match destructure_expands d with
    | inl _ => false
    | inr cs => forallb check_holds cs
    end.

  Lemma ann_check_holds d :
    forallb check_holds (ann_check d) = true <-> (forall a, d_ann d = Some a -> a = d_ty d).
  Proof.
    unfold ann_check. destruct (d_ann d) as [a |]; cbn.
    - rewrite andb_true_r, R2_no_ref_coercion. split.
      + intros -> a' H. inversion H. reflexivity.
      + intros H. apply H. reflexivity.
    - split; [ intros _ a H; discriminate H | reflexivity ].
  Qed.

  Lemma declared_ann d dflt : (forall a, d_ann d = Some a -> a = d_ty d) ->
    declared d dflt = match d_ann d with Some _ => d_ty d | None => dflt end.
  Proof. unfold declared. intros H. destruct (d_ann d); [ apply H; reflexivity | reflexivity ]. Qed.

  Lemma not_drop_iff t : negb (rustc_probe_inherent t) = true <-> ~ impls_drop_ty E t.
  Proof.
    rewrite negb_true_iff, <- R3_inherent_iff_drop. destruct (rustc_probe_inherent t); split; congruence.
  Qed.

  Lemma struct_checks_iff d fs : d_ann d = None \/ (exists a, d_ann d = Some a) ->
    forallb check_holds
      (ann_check d ++ [CPat (PSStruct (d_path d) fs) (declared d (d_ty d));
                       CSame (TNamed (d_path d)) (declared d (d_ty d));
                       CNotDrop (declared d (d_ty d))]) = true <->
    (forall a, d_ann d = Some a -> a = d_ty d) /\ d_ty d = TNamed (d_path d) /\
    ~ impls_drop_ty E (d_ty d) /\ (forall f, In f fs <-> In f (fields E (d_path d))).
  Proof.
    intros _. rewrite forallb_app, andb_true_iff, ann_check_holds. cbn [forallb check_holds].
    rewrite !andb_true_iff, R1_exhaustive_patterns, R2_no_ref_coercion, not_drop_iff. split.
    - intros (Hann & Hpat & Hsame & Hdrop & _).
      rewrite (declared_ann d _ Hann) in *.
      assert (Ht : d_ty d = TNamed (d_path d)) by (destruct (d_ann d); congruence).
      assert (Hdecl : match d_ann d with Some _ => d_ty d | None => d_ty d end = d_ty d) by (destruct (d_ann d); reflexivity).
      rewrite Hdecl in *. rewrite Ht in Hpat, Hdrop. cbn in Hpat. destruct Hpat as [_ Hf].
      split; [ exact Hann | split; [ exact Ht | split; [ rewrite Ht; exact Hdrop | exact Hf ] ] ].
    - intros (Hann & Ht & Hdrop & Hf). split; [ exact Hann | ].
      rewrite (declared_ann d _ Hann).
      assert (Hdecl : match d_ann d with Some _ => d_ty d | None => d_ty d end = d_ty d) by (destruct (d_ann d); reflexivity).
      rewrite Hdecl, Ht. cbn. rewrite Ht in Hdrop.
      split; [ split; [ reflexivity | exact Hf ] | split; [ reflexivity | split; [ exact Hdrop | reflexivity ] ] ].
  Qed.

  Lemma ann_cases d : d_ann d = None \/ (exists a, d_ann d = Some a).
  Proof. destruct (d_ann d); [ right; eauto | left; reflexivity ]. Qed.

  (** destructure! compiles exactly for a by-value, non-Drop value whose fields / elements the
      pattern lists completely, without `..` (one `..` allowed in arrays) — for patterns with
      at least one element (the empty patterns are a separate, weaker case: see
      [empty_pattern_unguarded]) *)
  Theorem accepts_iff d : d_elems d <> [] -> (accepts d = true <-> destr_ok E d).
  Proof.
    intros Hne. unfold accepts, destructure_expands, destr_ok, rest_ok, fields_match.
    destruct (d_shape d) eqn:Hshape.
    - (* braced *)
      destruct (d_elems d) as [| e0 es0] eqn:Hes; [ congruence | ].
      destruct (existsb is_rest (e0 :: es0)) eqn:Hrest.
      + split; [ discriminate | ]. intros (Hr & _). apply existsb_rest_false in Hr. congruence.
      + apply existsb_rest_false in Hrest. rewrite struct_checks_iff by apply ann_cases. split.
        * intros (Hann & Ht & Hdrop & Hf).
          split; [ exact Hrest | split; [ exact Hann | ] ]. rewrite Ht. cbn [is_ref]. rewrite Ht in Hdrop.
          split; [ reflexivity | split; [ exact Hdrop | split; [ reflexivity | exact Hf ] ] ].
        * intros (_ & Hann & Href & Hdrop & Hfm).
          destruct (d_ty d) as [q | | |] eqn:Ht; try contradiction. destruct Hfm as [<- Hf].
          split; [ exact Hann | split; [ reflexivity | split; [ exact Hdrop | exact Hf ] ] ].
    - (* tuple struct *)
      destruct (d_elems d) as [| e0 es0] eqn:Hes; [ congruence | ].
      destruct (existsb is_rest (e0 :: es0)) eqn:Hrest.
      + assert (Hno : ~ no_rest (e0 :: es0)) by (intros H; apply existsb_rest_false in H; congruence).
        destruct (walk_names 16 (e0 :: es0)); (split; [ discriminate | intros ((Hr & _) & _); contradiction ]).
      + apply existsb_rest_false in Hrest. rewrite (walk_no_rest _ 16 Hrest).
        destruct (Nat.leb (length (e0 :: es0)) 16) eqn:Hlen.
        * apply Nat.leb_le in Hlen. rewrite struct_checks_iff by apply ann_cases. split.
          -- intros (Hann & Ht & Hdrop & Hf).
             split; [ split; [ exact Hrest | exact Hlen ] | split; [ exact Hann | ] ].
             rewrite Ht. cbn [is_ref]. rewrite Ht in Hdrop.
             split; [ reflexivity | split; [ exact Hdrop | split; [ reflexivity | exact Hf ] ] ].
          -- intros (_ & Hann & Href & Hdrop & Hfm).
             destruct (d_ty d) as [q | | |] eqn:Ht; try contradiction. destruct Hfm as [<- Hf].
             split; [ exact Hann | split; [ reflexivity | split; [ exact Hdrop | exact Hf ] ] ].
        * apply Nat.leb_gt in Hlen. split; [ discriminate | ]. intros ((_ & Hl) & _). lia.
    - (* tuple *)
      destruct (d_elems d) as [| e0 es0] eqn:Hes; [ congruence | ].
      destruct (existsb is_rest (e0 :: es0)) eqn:Hrest.
      + assert (Hno : ~ no_rest (e0 :: es0)) by (intros H; apply existsb_rest_false in H; congruence).
        destruct (walk_names 16 (e0 :: es0)); (split; [ discriminate | intros ((Hr & _) & _); contradiction ]).
      + apply existsb_rest_false in Hrest. rewrite (walk_no_rest _ 16 Hrest).
        destruct (Nat.leb (length (e0 :: es0)) 16) eqn:Hlen.
        * apply Nat.leb_le in Hlen. cbn [forallb check_holds].
          rewrite !andb_true_iff, R1_exhaustive_patterns, !R2_no_ref_coercion.
          set (k := length (e0 :: es0)) in *. split.
          -- intros (Hdecl & Hpat & Hsame & _). rewrite <- Hsame in Hdecl. rewrite <- Hdecl.
             cbn [is_ref]. repeat split; auto.
             ++ intros a Ha. unfold declared in Hsame. rewrite Ha in Hsame. congruence.
             ++ intros (q & Hq & _). discriminate Hq.
          -- intros (_ & Hann & Href & _ & Hfm).
             destruct (d_ty d) as [| k' | |] eqn:Ht; try contradiction. subst k'.
             assert (Hd : declared d (TTuple k) = TTuple k).
             { unfold declared. destruct (d_ann d) as [a |] eqn:Ha; [ apply Hann; reflexivity | reflexivity ]. }
             rewrite Hd. cbn. auto.
        * apply Nat.leb_gt in Hlen. split; [ discriminate | ]. intros ((_ & Hl) & _). lia.
    - (* array *)
      destruct (d_elems d) as [| e0 es0] eqn:Hes; [ congruence | ].
      remember (e0 :: es0) as es eqn:Hesdef.
      remember (length (filter is_rest es)) as nrest eqn:Hnrest.
      destruct (Nat.ltb 1 nrest) eqn:Hn.
      + apply Nat.ltb_lt in Hn. split; [ discriminate | ]. intros (Hr & _). lia.
      + apply Nat.ltb_ge in Hn. rewrite forallb_app, andb_true_iff, ann_check_holds.
        cbn [forallb check_holds]. rewrite !andb_true_iff, R1_exhaustive_patterns, R2_no_ref_coercion.
        assert (Hdecl : forall (Hann : forall a, d_ann d = Some a -> a = d_ty d), declared d (d_ty d) = d_ty d).
        { intros Hann. rewrite (declared_ann d _ Hann). destruct (d_ann d); reflexivity. }
        split.
        * intros (Hann & Hsame & Hpat & _). rewrite (Hdecl Hann) in *.
          destruct (d_ty d) as [| | n |] eqn:Ht; try discriminate Hsame.
          unfold pat_fits in Hpat. cbn [peel] in Hpat. cbn [is_ref].
          split; [ exact Hn | split; [ exact Hann | split; [ reflexivity | split ] ] ].
          -- intros (q & Hq & _). discriminate Hq.
          -- revert Hpat. destruct (Nat.eqb_spec nrest 1); destruct (Nat.eqb_spec nrest 0); intros Hpat; lia.
        * intros (_ & Hann & Href & _ & Hfm). split; [ exact Hann | ].
          rewrite (Hdecl Hann). destruct (d_ty d) as [| | n |] eqn:Ht; try contradiction.
          cbn [peel]. split; [ reflexivity | ]. split; [ | reflexivity ].
          unfold pat_fits. revert Hfm.
          destruct (Nat.eqb_spec nrest 1); destruct (Nat.eqb_spec nrest 0); intros Hfm; lia.
  Qed.
End RustcOracle.

(* ------------------------------------------------------------------ the executable reading *)

Lemma mem_iff x l : mem x l = true <-> In x l.
Proof.
  unfold mem. rewrite existsb_exists. split.
  - intros (y & Hy & He). apply Z.eqb_eq in He. subst. exact Hy.
  - intros H. exists x. split; [ exact H | apply Z.eqb_refl ].
Qed.

Lemma ty_eqb_iff : forall a b, ty_eqb a b = true <-> a = b.
Proof.
  induction a as [x | x | x | a IH]; destruct b as [y | y | y | b]; cbn;
    try (split; intros H; [ discriminate H | inversion H ]).
  - rewrite Z.eqb_eq. split; [ intros ->; reflexivity | intros H; inversion H; reflexivity ].
  - rewrite Nat.eqb_eq. split; [ intros ->; reflexivity | intros H; inversion H; reflexivity ].
  - rewrite Nat.eqb_eq. split; [ intros ->; reflexivity | intros H; inversion H; reflexivity ].
  - rewrite IH. split; [ intros ->; reflexivity | intros H; inversion H; reflexivity ].
Qed.

Lemma drops_iff E t : drops E t = true <-> impls_drop_ty E t.
Proof.
  unfold drops, impls_drop_ty. destruct t as [q | | |].
  - split; [ intros H; exists q; auto | intros (q' & Hq & H); inversion Hq; subst; exact H ].
  - split; [ discriminate | intros (q & H & _); discriminate H ].
  - split; [ discriminate | intros (q & H & _); discriminate H ].
  - split; [ discriminate | intros (q & H & _); discriminate H ].
Qed.

Lemma pat_diag_nil E ps t : pat_diag E ps t = [] <-> pat_fits E ps (peel t).
Proof.
  unfold pat_diag, pat_fits. destruct ps as [p fs | k | k [|]]; destruct (peel t) as [q | k' | n | t'];
    try (split; [ discriminate | intros [] ]).
  - destruct (Z.eqb_spec p q) as [-> | Hne].
    + destruct fs as [| f0 fs0].
      * destruct (fields E q) as [| g0 gs] eqn:Hg.
        -- split; [ intros _; split; [ reflexivity | intros f; reflexivity ] | reflexivity ].
        -- split; [ discriminate | ]. intros [_ H]. specialize (H g0). cbn in H.
           exfalso. apply H. left. reflexivity.
      * rewrite app_nil_iff.
        assert (H1 : (if forallb (fun f => mem f (fields E q)) (f0 :: fs0) then [] else [d0 KE0026]) = [] <->
                     forall f, In f (f0 :: fs0) -> In f (fields E q)).
        { destruct (forallb (fun f => mem f (fields E q)) (f0 :: fs0)) eqn:Hf.
          - rewrite forallb_forall in Hf. split; [ | reflexivity ]. intros _ f Hin. apply mem_iff. auto.
          - split; [ discriminate | ]. intros H. exfalso.
            assert (Ht : forallb (fun f => mem f (fields E q)) (f0 :: fs0) = true)
              by (apply forallb_forall; intros f Hin; apply mem_iff; auto).
            congruence. }
        assert (H2 : (if forallb (fun f => mem f (f0 :: fs0)) (fields E q) then [] else [d0 KE0027]) = [] <->
                     forall f, In f (fields E q) -> In f (f0 :: fs0)).
        { destruct (forallb (fun f => mem f (f0 :: fs0)) (fields E q)) eqn:Hf.
          - rewrite forallb_forall in Hf. split; [ | reflexivity ]. intros _ f Hin. apply mem_iff. auto.
          - split; [ discriminate | ]. intros H. exfalso.
            assert (Ht : forallb (fun f => mem f (f0 :: fs0)) (fields E q) = true)
              by (apply forallb_forall; intros f Hin; apply mem_iff; auto).
            congruence. }
        rewrite H1, H2. split.
        -- intros [Ha Hb]. split; [ reflexivity | ]. intros f. split; auto.
        -- intros [_ H]. split; intros f Hin; apply H; exact Hin.
    + split; [ discriminate | intros [H _]; congruence ].
  - destruct (Nat.eqb_spec k k'); split; try discriminate; try reflexivity; auto; intros; congruence.
  - destruct (Nat.leb_spec k n); split; try discriminate; try reflexivity; auto; intros; lia.
  - destruct (Nat.eqb_spec k n); split; try discriminate; try reflexivity; auto; intros; congruence.
Qed.

(** the concrete oracles of the executable model satisfy R1, R2, R3 (so the hypotheses of
    Section RustcOracle are satisfiable), and the model's verdict is [accepts] with them *)
Definition conc_pat (E : env) (ps : pshape) (t : ty) : bool := is_nil (pat_diag E ps t).

Lemma conc_R1 E ps t : conc_pat E ps t = true <-> pat_fits E ps (peel t).
Proof. unfold conc_pat. rewrite is_nil_iff. apply pat_diag_nil. Qed.

Lemma expands_inl_nonempty d ds : destructure_expands d = inl ds -> ds <> [].
Proof.
  unfold destructure_expands.
  destruct (d_shape d); destruct (d_elems d) as [| e0 es0];
    repeat match goal with
           | |- context [ if ?c then _ else _ ] => destruct c
           | |- context [ match walk_names ?a ?b with _ => _ end ] => destruct (walk_names a b)
           end;
    intros H; inversion H; discriminate.
Qed.

Lemma diags_accepts E d :
  destructure_diags E d = [] <-> accepts (conc_pat E) ty_eqb (drops E) d = true.
Proof.
  unfold destructure_diags, accepts. destruct (destructure_expands d) as [ds | cs] eqn:He.
  - split; [ | discriminate ]. intros ->. exfalso. exact (expands_inl_nonempty d [] He eq_refl).
  - clear He. induction cs as [| c r IH]; cbn [flat_map forallb].
    + split; reflexivity.
    + rewrite app_nil_iff, andb_true_iff, IH.
      assert (Hc : check_diag E c = [] <-> check_holds (conc_pat E) ty_eqb (drops E) c = true).
      { destruct c as [ps t | a b | t]; cbn [check_diag check_holds].
        - unfold conc_pat. rewrite is_nil_iff. reflexivity.
        - destruct (ty_eqb a b); split; try discriminate; reflexivity.
        - destruct (drops E t); cbn; split; try discriminate; reflexivity. }
      rewrite Hc. reflexivity.
Qed.

(** closed form: no hypothesis left, the three rustc behaviours are the ones [check_diag] computes *)
Theorem destructure_accepts_iff E d :
  d_elems d <> [] -> (destructure_diags E d = [] <-> destr_ok E d).
Proof.
  intros Hne. rewrite diags_accepts.
  apply (accepts_iff E (conc_pat E) ty_eqb (drops E) (conc_R1 E) ty_eqb_iff (drops_iff E) d Hne).
Qed.

(** `..` in a struct / tuple struct / tuple pattern is always rejected *)
Theorem destructure_rejects_rest E d :
  d_shape d <> Array -> (exists e, In e (d_elems d) /\ is_rest e = true) -> destructure_diags E d <> [].
Proof.
  intros Hs (e & Hin & He) Hd.
  assert (Hne : d_elems d <> []) by (intros H; rewrite H in Hin; destruct Hin).
  apply (destructure_accepts_iff E d Hne) in Hd. destruct Hd as (Hr & _).
  unfold rest_ok in Hr.
  assert (Hno : no_rest (d_elems d)) by (destruct (d_shape d); try congruence; tauto).
  unfold no_rest in Hno. rewrite Forall_forall in Hno. specialize (Hno e Hin). congruence.
Qed.

(** ... in a braced struct by the compile_error! arm, whatever the types are *)
Theorem destructure_rest_struct_arm E d :
  d_shape d = Braced -> (exists e, In e (d_elems d) /\ is_rest e = true) ->
  destructure_diags E d = [d0 KRestStruct].
Proof.
  intros Hs (e & Hin & He). unfold destructure_diags, destructure_expands. rewrite Hs.
  destruct (d_elems d) as [| e0 es0] eqn:Hes; [ destruct Hin | ].
  assert (Hex : existsb is_rest (e0 :: es0) = true) by (apply existsb_exists; exists e; auto).
  rewrite Hex. reflexivity.
Qed.

Theorem destructure_rejects_reference E d :
  d_elems d <> [] -> is_ref (d_ty d) = true -> destructure_diags E d <> [].
Proof.
  intros Hne Hr Hd. apply (destructure_accepts_iff E d Hne) in Hd.
  destruct Hd as (_ & _ & H & _). congruence.
Qed.

Theorem destructure_rejects_drop E d :
  d_elems d <> [] -> impls_drop_ty E (d_ty d) -> destructure_diags E d <> [].
Proof.
  intros Hne Hr Hd. apply (destructure_accepts_iff E d Hne) in Hd.
  destruct Hd as (_ & _ & _ & H & _). contradiction.
Qed.

Theorem destructure_rejects_field_mismatch E d :
  d_elems d <> [] -> ~ fields_match E d (d_ty d) -> destructure_diags E d <> [].
Proof.
  intros Hne Hr Hd. apply (destructure_accepts_iff E d Hne) in Hd.
  destruct Hd as (_ & _ & _ & _ & H). contradiction.
Qed.

(** FINDING (harmless): the EMPTY patterns `P {}`, `P()`, `()`, `[]` expand to a plain
    `let <pattern> = <value>;` — no guard is expanded, so a reference (and, for structs, a Drop
    type) is accepted.  Nothing is moved out of the value, so no double drop or leak can
    follow; but the statement "destructure! applied to a reference / to a Drop type does not
    compile" fails for them.  Witnesses (they replay on rustc: `destructure!{() = &()}`,
    `destructure!{[] = &[0u8; 0]}`, `struct F {} impl Drop for F ..; destructure!{F {} = F {}}`). *)
Definition env0 (drop : bool) : env :=
  {| fields := fun _ => []; impls_drop := fun _ => drop; tuple_like := fun _ => false |}.

Theorem empty_pattern_unguarded :
  (exists E d, d_elems d = [] /\ is_ref (d_ty d) = true /\ destructure_diags E d = []) /\
  (exists E d, d_elems d = [] /\ impls_drop_ty E (d_ty d) /\ destructure_diags E d = []).
Proof.
  split.
  - exists (env0 false),
      {| d_shape := Tuple; d_pk := PkPath; d_path := 0%Z; d_ann := None; d_elems := [];
         d_ty := TRef (TTuple 0) |}.
    repeat split; reflexivity.
  - exists (env0 true),
      {| d_shape := Braced; d_pk := PkPath; d_path := 0%Z; d_ann := None; d_elems := [];
         d_ty := TNamed 0%Z |}.
    repeat split; try reflexivity. exists 0%Z. split; reflexivity.
Qed.
