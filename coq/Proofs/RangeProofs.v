(** Proofs for C09: the range iterators of Model/Range.v refine the std lists of
    Spec/Range.v, for every width, both signednesses and char. *)
From KV Require Import Base.Prelude Base.Deque Model.Range Spec.Range.

(* ------------------------------------------------------------------ the types *)

(** widths that exist: at least one bit *)
Definition wf (t : ty) : Prop := match t with Int w _ => 1 <= w | Char => True end.

(** the values of the type *)
Definition valid (t : ty) (x : Z) : Prop :=
  match t with
  | Int w sg => min_val t <= x <= max_val t
  | Char => is_scalar x = true
  end.

(** rank of a value in its type: the identity for integers, closing the surrogate gap
    for char *)
Definition idx (t : ty) (x : Z) : Z := match t with Int _ _ => x | Char => char_idx x end.
Definition unidx (t : ty) (i : Z) : Z := match t with Int _ _ => i | Char => char_unidx i end.
Definition lo (t : ty) : Z := idx t (min_val t).
Definition hi (t : ty) : Z := idx t (max_val t).

Ltac split_if :=
  repeat first
    [ match goal with H : context [if _ then _ else _] |- _ => revert H end
    | match goal with
      | |- context [if ?b then _ else _] => let E := fresh "E" in destruct b eqn:E; cbv iota
      end ];
  intros.

Lemma pow2_eq w : pow2 w = 2 ^ w.
Proof. apply two_p_equiv. Qed.

Lemma pow2_split w : 1 <= w -> 2 ^ w = 2 * 2 ^ (w - 1) /\ 1 <= 2 ^ (w - 1).
Proof.
  intro H. split.
  - replace w with (Z.succ (w - 1)) at 1 by lia. rewrite Z.pow_succ_r by lia. reflexivity.
  - assert (0 < 2 ^ (w - 1)) by (apply Z.pow_pos_nonneg; lia). lia.
Qed.

Lemma in_int_valid w sg x : in_int w sg x = true <-> valid (Int w sg) x.
Proof. unfold in_int, valid. lia. Qed.

Lemma lo_lt_hi t : wf t -> lo t < hi t.
Proof.
  destruct t as [w [|]|]; unfold lo, hi, idx, min_val, max_val, wf; intro H;
    rewrite ?pow2_eq; try (destruct (pow2_split w H); lia).
  vm_compute. reflexivity.
Qed.

Lemma idx_range t x : valid t x -> lo t <= idx t x <= hi t.
Proof.
  destruct t as [w sg|]; unfold lo, hi, idx, valid; [lia|].
  unfold is_scalar, char_idx, min_val, max_val. intros; split_if; lia.
Qed.

Lemma unidx_idx t x : valid t x -> unidx t (idx t x) = x.
Proof.
  destruct t as [w sg|]; unfold unidx, idx, valid; [reflexivity|].
  unfold is_scalar, char_idx, char_unidx. intros; split_if; lia.
Qed.

Lemma idx_unidx t i : lo t <= i <= hi t -> idx t (unidx t i) = i.
Proof.
  destruct t as [w sg|]; unfold lo, hi, unidx, idx; [reflexivity|].
  unfold char_idx, char_unidx, min_val, max_val. intros; split_if; lia.
Qed.

Lemma valid_unidx t i : lo t <= i <= hi t -> valid t (unidx t i).
Proof.
  destruct t as [w sg|]; unfold lo, hi, unidx, valid, idx; [lia|].
  unfold is_scalar, char_idx, char_unidx, min_val, max_val. intros; split_if; lia.
Qed.

Lemma unidx_lo t : unidx t (lo t) = min_val t.
Proof. destruct t as [w sg|]; reflexivity. Qed.
Lemma unidx_hi t : unidx t (hi t) = max_val t.
Proof. destruct t as [w sg|]; reflexivity. Qed.

Lemma valid_min t : wf t -> valid t (min_val t).
Proof.
  intro H. rewrite <- unidx_lo. apply valid_unidx. pose proof (lo_lt_hi t H). lia.
Qed.
Lemma valid_max t : wf t -> valid t (max_val t).
Proof.
  intro H. rewrite <- unidx_hi. apply valid_unidx. pose proof (lo_lt_hi t H). lia.
Qed.

(** comparisons of values are comparisons of ranks *)
Lemma idx_ltb t x y : valid t x -> valid t y -> (x <? y) = (idx t x <? idx t y).
Proof.
  destruct t as [w sg|]; unfold idx, valid; [reflexivity|].
  unfold is_scalar, char_idx. intros; split_if; lia.
Qed.
Lemma idx_leb t x y : valid t x -> valid t y -> (x <=? y) = (idx t x <=? idx t y).
Proof.
  destruct t as [w sg|]; unfold idx, valid; [reflexivity|].
  unfold is_scalar, char_idx. intros; split_if; lia.
Qed.

(* ------------------------------------------------------------------ wrap-around arithmetic *)

Lemma wrap_int_in w sg x : 1 <= w -> valid (Int w sg) x -> wrap_int w sg x = x.
Proof.
  intros Hw Hv. destruct (pow2_split w Hw) as [E P].
  unfold valid, min_val, max_val in Hv. unfold wrap_int. rewrite !pow2_eq in *.
  destruct sg.
  - rewrite Z.mod_small by lia. lia.
  - apply Z.mod_small. lia.
Qed.

(** one past MAX wraps to MIN, one before MIN wraps to MAX *)
Lemma wrap_int_above w sg : 1 <= w ->
  wrap_int w sg (max_val (Int w sg) + 1) = min_val (Int w sg).
Proof.
  intros Hw. destruct (pow2_split w Hw) as [E P].
  unfold wrap_int, min_val, max_val. rewrite !pow2_eq. destruct sg.
  - replace (2 ^ (w - 1) - 1 + 1 + 2 ^ (w - 1)) with (2 ^ w) by lia.
    rewrite Z.mod_same by lia. lia.
  - replace (2 ^ w - 1 + 1) with (2 ^ w) by lia. apply Z.mod_same. lia.
Qed.
Lemma wrap_int_below w sg : 1 <= w ->
  wrap_int w sg (min_val (Int w sg) - 1) = max_val (Int w sg).
Proof.
  intros Hw. destruct (pow2_split w Hw) as [E P].
  unfold wrap_int, min_val, max_val. rewrite !pow2_eq. destruct sg.
  - replace (- 2 ^ (w - 1) - 1 + 2 ^ (w - 1)) with (-1) by lia.
    rewrite <- (Z.mod_unique_pos (-1) (2 ^ w) (-1) (2 ^ w - 1)); lia.
  - symmetry. apply (Z.mod_unique_pos (0 - 1) (2 ^ w) (-1) (2 ^ w - 1)); lia.
Qed.

(* ------------------------------------------------------------------ increment / decrement *)

Lemma increment_spec t s e : wf t -> valid t s -> valid t e ->
  increment t s e =
  Ok (mk_step (idx t e <? idx t s) (idx t e <=? idx t s) (idx t s =? hi t)
              (if idx t s =? hi t then min_val t else unidx t (idx t s + 1))).
Proof.
  intros Hw Hs He. destruct t as [w sg|].
  - cbn [wf] in Hw. unfold increment, overflowing_add, in_int. cbn [idx unidx hi].
    unfold valid in Hs.
    destruct (Z.eqb_spec s (max_val (Int w sg))) as [E|N].
    + subst s. rewrite wrap_int_above by exact Hw. f_equal. f_equal. lia.
    + rewrite wrap_int_in; [|exact Hw| unfold valid; lia]. f_equal. f_equal. lia.
  - unfold increment. rewrite (idx_ltb Char e s He Hs), (idx_leb Char e s He Hs).
    unfold valid, is_scalar in Hs. cbn [idx unidx hi min_val max_val].
    change (char_idx 1114111) with 1112063.
    destruct (Z.eqb_spec s 55295) as [E1|N1].
    + subst s. reflexivity.
    + destruct (Z.eqb_spec s 1114111) as [E2|N2].
      * subst s. reflexivity.
      * unfold char_from_u32.
        replace ((s + 1 <? 55296) || (57344 <=? s + 1) && (s + 1 <=? 1114111)) with true by lia.
        f_equal. f_equal; unfold char_idx, char_unidx; split_if; lia.
Qed.

Lemma decrement_spec t s e : wf t -> valid t s -> valid t e ->
  decrement t s e =
  Ok (mk_step (idx t e <? idx t s) (idx t e <=? idx t s) (idx t e =? lo t)
              (if idx t e =? lo t then max_val t else unidx t (idx t e - 1))).
Proof.
  intros Hw Hs He. destruct t as [w sg|].
  - cbn [wf] in Hw. unfold decrement, overflowing_sub, in_int. cbn [idx unidx lo].
    unfold valid in He.
    destruct (Z.eqb_spec e (min_val (Int w sg))) as [E|N].
    + subst e. rewrite wrap_int_below by exact Hw. f_equal. f_equal. lia.
    + rewrite wrap_int_in; [|exact Hw| unfold valid; lia]. f_equal. f_equal. lia.
  - unfold decrement. rewrite (idx_ltb Char e s He Hs), (idx_leb Char e s He Hs).
    unfold valid, is_scalar in He. cbn [idx unidx lo min_val max_val].
    change (char_idx 0) with 0.
    destruct (Z.eqb_spec e 0) as [E1|N1].
    + subst e. reflexivity.
    + destruct (Z.eqb_spec e 57344) as [E2|N2].
      * subst e. reflexivity.
      * unfold char_from_u32.
        replace ((e - 1 <? 55296) || (57344 <=? e - 1) && (e - 1 <=? 1114111)) with true by lia.
        f_equal. f_equal; unfold char_idx, char_unidx; split_if; lia.
Qed.

(** the char arm's [opt_unwrap!] never panics; the integer arm has nothing to panic on *)
Lemma step_never_panics t s e : wf t -> valid t s -> valid t e ->
  (exists r, increment t s e = Ok r) /\ (exists r, decrement t s e = Ok r).
Proof.
  intros Hw Hs He. rewrite increment_spec, decrement_spec by assumption. eauto.
Qed.

(* ------------------------------------------------------------------ consecutive integers *)

Lemma zseq_length a n : length (zseq a n) = n.
Proof. revert a; induction n as [|n IH]; intro a; cbn [zseq length]; [reflexivity|now rewrite IH]. Qed.

Lemma zseq_snoc a n : zseq a (S n) = zseq a n ++ [a + Z.of_nat n].
Proof.
  revert a; induction n as [|n IH]; intro a.
  - cbn [zseq app]. f_equal. lia.
  - change (zseq a (S (S n))) with (a :: zseq (a + 1) (S n)). rewrite IH.
    cbn [zseq app]. do 2 f_equal. f_equal. lia.
Qed.

Lemma range_spec_nil a b : b <= a -> range_spec a b = [].
Proof. intro H. unfold range_spec. replace (Z.to_nat (b - a)) with O by lia. reflexivity. Qed.

Lemma range_spec_cons a b : a < b -> range_spec a b = a :: range_spec (a + 1) b.
Proof.
  intro H. unfold range_spec. replace (Z.to_nat (b - a)) with (S (Z.to_nat (b - (a + 1)))) by lia.
  reflexivity.
Qed.

Lemma range_spec_snoc a b : a < b -> range_spec a b = range_spec a (b - 1) ++ [b - 1].
Proof.
  intro H. unfold range_spec. replace (Z.to_nat (b - a)) with (S (Z.to_nat (b - 1 - a))) by lia.
  rewrite zseq_snoc. do 2 f_equal. lia.
Qed.

Lemma range_inc_spec_eq a b : range_inc_spec a b = range_spec a (b + 1).
Proof. reflexivity. Qed.

Lemma range_spec_In a b x : In x (range_spec a b) <-> a <= x < b.
Proof.
  unfold range_spec. remember (Z.to_nat (b - a)) as n eqn:En. revert a b En.
  induction n as [|n IH]; intros a b En; cbn [zseq In].
  - lia.
  - rewrite (IH (a + 1) b) by lia. lia.
Qed.

(* ------------------------------------------------------------------ the generic refinement *)

(** the items an iterator over [start..end] / [start..=end] still has to yield *)
Definition gspec (t : ty) (st : rstate) : list Z :=
  map (unidx t) (range_spec (idx t (fst st)) (idx t (snd st))).
Definition gspec_inc (t : ty) (st : rstate) : list Z :=
  map (unidx t) (range_inc_spec (idx t (fst st)) (idx t (snd st))).
Definition vstate (t : ty) (st : rstate) : Prop := valid t (fst st) /\ valid t (snd st).

(** a step function that never panics on [Inv] states and pops the front of [abs] *)
Definition pops_front {St} (Inv : St -> Prop) (abs : St -> list Z)
    (f : St -> res (option (Z * St))) : Prop :=
  forall st, Inv st ->
    match f st with
    | Ok None => abs st = []
    | Ok (Some (x, st')) => abs st = x :: abs st' /\ Inv st'
    | _ => False
    end.
Definition pops_back {St} (Inv : St -> Prop) (abs : St -> list Z)
    (f : St -> res (option (Z * St))) : Prop :=
  forall st, Inv st ->
    match f st with
    | Ok None => abs st = []
    | Ok (Some (x, st')) => abs st = abs st' ++ [x] /\ Inv st'
    | _ => False
    end.

Lemma range_next_pops dbg t : wf t -> pops_front (vstate t) (gspec t) (it_next dbg t KRange true).
Proof.
  intros Hw [s e] [Hs He]. cbn [fst snd] in *. cbn [it_next]. unfold range_next.
  rewrite increment_spec by assumption. cbn [bind finished_exclusive next_val].
  pose proof (idx_range t s Hs) as Rs. pose proof (idx_range t e He) as Re.
  unfold gspec; cbn [fst snd].
  destruct (Z.leb_spec (idx t e) (idx t s)) as [L|L].
  - now rewrite range_spec_nil.
  - replace (idx t s =? hi t) with false by lia. cbv beta iota; cbn [fst snd].
    rewrite range_spec_cons by exact L. cbn [map]. rewrite unidx_idx by exact Hs.
    rewrite idx_unidx by lia. split; [reflexivity|].
    split; cbn [fst snd]; [apply valid_unidx; lia | exact He].
Qed.

Lemma range_next_back_pops dbg t : wf t -> pops_back (vstate t) (gspec t) (it_next dbg t KRange false).
Proof.
  intros Hw [s e] [Hs He]. cbn [fst snd] in *. cbn [it_next]. unfold range_next_back.
  rewrite decrement_spec by assumption. cbn [bind finished_exclusive next_val overflowed].
  pose proof (idx_range t s Hs) as Rs. pose proof (idx_range t e He) as Re.
  unfold gspec; cbn [fst snd].
  destruct (Z.leb_spec (idx t e) (idx t s)) as [L|L].
  - now rewrite range_spec_nil.
  - replace (idx t e =? lo t) with false by lia. rewrite andb_false_r. cbv beta iota; cbn [fst snd].
    rewrite (range_spec_snoc _ (idx t e)) by exact L. rewrite map_app. cbn [map].
    rewrite idx_unidx by lia. split; [reflexivity|].
    split; cbn [fst snd]; [exact Hs | apply valid_unidx; lia].
Qed.

Lemma gspec_inc_exhausted t : wf t -> gspec_inc t (max_val t, min_val t) = [].
Proof.
  intro Hw. unfold gspec_inc. cbn [fst snd]. rewrite range_inc_spec_eq, range_spec_nil; [reflexivity|].
  pose proof (lo_lt_hi t Hw). unfold lo, hi in *. lia.
Qed.

Lemma range_inc_next_pops dbg t : wf t ->
  pops_front (vstate t) (gspec_inc t) (it_next dbg t KRangeInc true).
Proof.
  intros Hw [s e] [Hs He]. cbn [fst snd] in *. cbn [it_next]. unfold range_inc_next.
  rewrite increment_spec by assumption. cbn [bind finished_inclusive next_val overflowed].
  pose proof (idx_range t s Hs) as Rs. pose proof (idx_range t e He) as Re.
  destruct (Z.ltb_spec (idx t e) (idx t s)) as [L|L].
  - unfold gspec_inc; cbn [fst snd]. rewrite range_inc_spec_eq, range_spec_nil by lia. reflexivity.
  - destruct (Z.eqb_spec (idx t s) (hi t)) as [E|N].
    + (* the last item was MAX: the (MAX, MIN) encoding *)
      cbv beta iota. rewrite gspec_inc_exhausted by exact Hw.
      unfold gspec_inc; cbn [fst snd]. rewrite range_inc_spec_eq, range_spec_cons by lia.
      rewrite range_spec_nil by lia. cbn [map]. rewrite unidx_idx by exact Hs.
      split; [reflexivity|]. split; cbn [fst snd]; [now apply valid_max | now apply valid_min].
    + cbv beta iota. unfold gspec_inc; cbn [fst snd]. rewrite !range_inc_spec_eq, range_spec_cons by lia.
      cbn [map]. rewrite unidx_idx by exact Hs. rewrite idx_unidx by lia.
      split; [reflexivity|]. split; cbn [fst snd]; [apply valid_unidx; lia | exact He].
Qed.

Lemma range_inc_next_back_pops dbg t : wf t ->
  pops_back (vstate t) (gspec_inc t) (it_next dbg t KRangeInc false).
Proof.
  intros Hw [s e] [Hs He]. cbn [fst snd] in *. cbn [it_next]. unfold range_inc_next_back.
  rewrite decrement_spec by assumption. cbn [bind finished_inclusive next_val overflowed].
  pose proof (idx_range t s Hs) as Rs. pose proof (idx_range t e He) as Re.
  destruct (Z.ltb_spec (idx t e) (idx t s)) as [L|L].
  - unfold gspec_inc; cbn [fst snd]. rewrite range_inc_spec_eq, range_spec_nil by lia. reflexivity.
  - destruct (Z.eqb_spec (idx t e) (lo t)) as [E|N].
    + rewrite gspec_inc_exhausted by exact Hw.
      unfold gspec_inc; cbn [fst snd]. rewrite range_inc_spec_eq, range_spec_cons by lia.
      rewrite range_spec_nil by lia. cbn [map app].
      replace (idx t s) with (idx t e) by lia. rewrite unidx_idx by exact He.
      split; [reflexivity|]. split; cbn [fst snd]; [now apply valid_max | now apply valid_min].
    + cbv beta iota. unfold gspec_inc; cbn [fst snd]. rewrite !range_inc_spec_eq.
      rewrite (range_spec_snoc _ (idx t e + 1)) by lia. rewrite map_app. cbn [map].
      replace (idx t e + 1 - 1) with (idx t e) by lia. rewrite unidx_idx by exact He.
      rewrite idx_unidx by lia. replace (idx t e - 1 + 1) with (idx t e) by lia.
      split; [reflexivity|]. split; cbn [fst snd]; [exact Hs | apply valid_unidx; lia].
Qed.

(* ------------------------------------------------------------------ histories *)

Section ResRun.
  Context {St : Type}.
  Variables nx nb : St -> res (option (Z * St)).
  Variable Inv : St -> Prop.
  Variable abs : St -> list Z.
  Hypothesis nx_ok : pops_front Inv abs nx.
  Hypothesis nb_ok : pops_back Inv abs nb.

  (** the panic-free reading of a step function *)
  Definition strip (f : St -> res (option (Z * St))) (st : St) : option (Z * St) :=
    match f st with Ok o => o | _ => None end.

  Lemma strip_front : forall st, Inv st ->
    match strip nx st with
    | None => abs st = []
    | Some (x, st') => abs st = x :: abs st' /\ Inv st'
    end.
  Proof.
    intros st Hi. unfold strip. pose proof (nx_ok st Hi) as H.
    destruct (nx st) as [[[x st']|]| |]; try exact H; contradiction.
  Qed.
  Lemma strip_back : forall st, Inv st ->
    match strip nb st with
    | None => abs st = []
    | Some (x, st') => abs st = abs st' ++ [x] /\ Inv st'
    end.
  Proof.
    intros st Hi. unfold strip. pose proof (nb_ok st Hi) as H.
    destruct (nb st) as [[[x st']|]| |]; try exact H; contradiction.
  Qed.

  (** no step of a run panics, so the run is the run of the stripped functions *)
  Lemma run_res_strip : forall h st, Inv st ->
    run_res nx nb h st = map Ok (run St Z (strip nx) (strip nb) h st).
  Proof.
    induction h as [|e h IH]; intros st Hi; [reflexivity|].
    cbn [run_res run map]. unfold strip at 1 2.
    destruct e.
    - pose proof (nx_ok st Hi) as H.
      destruct (nx st) as [[[x st']|]| |]; try contradiction; cbn [map]; f_equal.
      + apply IH. apply H.
      + now apply IH.
    - pose proof (nb_ok st Hi) as H.
      destruct (nb st) as [[[x st']|]| |]; try contradiction; cbn [map]; f_equal.
      + apply IH. apply H.
      + now apply IH.
  Qed.

  (** EVERY interleaving of front and back steps behaves like popping a deque *)
  Theorem run_res_refines : forall h st, Inv st ->
    run_res nx nb h st = map Ok (deque_run h (abs st)).
  Proof.
    intros h st Hi. rewrite run_res_strip by exact Hi. f_equal.
    exact (run_refines St Z (strip nx) (strip nb) abs Inv strip_front strip_back h st Hi).
  Qed.

  (** the loop of [for_each!]: all remaining items, then [None] *)
  Theorem collect_res_all : forall fuel st, Inv st -> (length (abs st) < fuel)%nat ->
    collect_res nx fuel st = (abs st, Ok false).
  Proof.
    induction fuel as [|f IH]; intros st Hi Hl; [inversion Hl|].
    cbn [collect_res]. pose proof (nx_ok st Hi) as H.
    destruct (nx st) as [[[x st']|]| |]; try contradiction.
    - destruct H as [E Hi']. rewrite (IH st' Hi'), E; [reflexivity|].
      rewrite E in Hl. cbn [length] in Hl. now apply PeanoNat.Nat.succ_lt_mono.
    - now rewrite H.
  Qed.
End ResRun.

(** swapping the two step functions = flipping every step of the history *)
Definition flip_end (e : end_) : end_ := match e with Front => Back | Back => Front end.

Lemma run_res_flip {St} (nx nb : St -> res (option (Z * St))) h st :
  run_res nb nx h st = run_res nx nb (map flip_end h) st.
Proof.
  revert st; induction h as [|e h IH]; intro st; [reflexivity|].
  cbn [map run_res]. destruct e; cbn [flip_end].
  - destruct (nb st) as [[[x st']|]| |]; try reflexivity; f_equal; apply IH.
  - destruct (nx st) as [[[x st']|]| |]; try reflexivity; f_equal; apply IH.
Qed.

Lemma pop_back_rev_cons {A} (x : A) l : pop_back (rev (x :: l)) = Some (x, rev l).
Proof. cbn [rev]. apply pop_back_app. Qed.

(** flipping the history = reversing the deque *)
Lemma deque_run_flip {A} (h : list end_) (l : list A) :
  deque_run (map flip_end h) l = deque_run h (rev l).
Proof.
  revert l; induction h as [|e h IH]; intro l; [reflexivity|].
  cbn [map deque_run]. destruct e; cbn [flip_end].
  - (* Front on the reversed list = Back on the list *)
    destruct (rev l) as [|x r] eqn:E.
    + assert (l = []) as -> by (apply (f_equal (@rev A)) in E; rewrite rev_involutive in E; exact E).
      cbn [pop_back rev]. f_equal. rewrite IH. reflexivity.
    + unfold pop_back. rewrite E. f_equal. rewrite IH, rev_involutive. reflexivity.
  - destruct l as [|x r].
    + cbn [rev]. rewrite pop_back_nil. f_equal. apply IH.
    + rewrite pop_back_rev_cons. f_equal. apply IH.
Qed.

(* ------------------------------------------------------------------ the four iterator types *)

Definition items (t : ty) (k : kind) (st : rstate) : list Z :=
  match k with KRange => gspec t st | KRangeInc => gspec_inc t st end.

Lemma it_front_pops dbg t k : wf t -> pops_front (vstate t) (items t k) (it_next dbg t k true).
Proof.
  destruct k; intro Hw; [now apply range_next_pops | now apply range_inc_next_pops].
Qed.
Lemma it_back_pops dbg t k : wf t -> pops_back (vstate t) (items t k) (it_next dbg t k false).
Proof.
  destruct k; intro Hw; [now apply range_next_back_pops | now apply range_inc_next_back_pops].
Qed.

(** forward iterator types (RangeIter, RangeInclusiveIter): every history *)
Theorem it_refines dbg t k h st : wf t -> vstate t st ->
  run_res (it_next dbg t k true) (it_next_back dbg t k true) h st =
  map Ok (deque_run h (items t k st)).
Proof.
  intros Hw Hv. unfold it_next_back. cbn [negb].
  exact (run_res_refines _ _ (vstate t) (items t k) (it_front_pops dbg t k Hw) (it_back_pops dbg t k Hw) h st Hv).
Qed.

(** reversed iterator types (RangeIterRev, RangeInclusiveIterRev): the reversed deque *)
Theorem it_rev_refines dbg t k h st : wf t -> vstate t st ->
  run_res (it_next dbg t k false) (it_next_back dbg t k false) h st =
  map Ok (deque_run h (rev (items t k st))).
Proof.
  intros Hw Hv. unfold it_next_back. cbn [negb].
  rewrite run_res_flip, <- deque_run_flip.
  exact (run_res_refines _ _ (vstate t) (items t k) (it_front_pops dbg t k Hw) (it_back_pops dbg t k Hw) _ st Hv).
Qed.

(** for_each! over the forward / reversed iterator *)
Theorem it_collect dbg t k fuel st : wf t -> vstate t st -> (length (items t k st) < fuel)%nat ->
  collect_res (it_next dbg t k true) fuel st = (items t k st, Ok false).
Proof.
  intros Hw Hv Hl.
  exact (collect_res_all _ (vstate t) (items t k) (it_front_pops dbg t k Hw) fuel st Hv Hl).
Qed.

(** the generic facts for [collect_res] with the back step need the reversed abstraction *)
Lemma pops_back_as_front {St} (Inv : St -> Prop) (abs : St -> list Z) f :
  pops_back Inv abs f -> pops_front Inv (fun st => rev (abs st)) f.
Proof.
  intros H st Hi. specialize (H st Hi). destruct (f st) as [[[x st']|]| |]; try exact H.
  - destruct H as [E Hi']. split; [|exact Hi']. rewrite E, rev_app_distr. reflexivity.
  - now rewrite H.
Qed.

Theorem it_collect_rev dbg t k fuel st : wf t -> vstate t st -> (length (items t k st) < fuel)%nat ->
  collect_res (it_next dbg t k false) fuel st = (rev (items t k st), Ok false).
Proof.
  intros Hw Hv Hl.
  apply (collect_res_all _ (vstate t) (fun st => rev (items t k st))
           (pops_back_as_front _ _ _ (it_back_pops dbg t k Hw)) fuel st Hv).
  now rewrite rev_length.
Qed.

(* ---- integers: the abstraction is literally [a; a+1; ..] *)

Lemma items_int w sg k a b :
  items (Int w sg) k (a, b) = match k with KRange => range_spec a b | KRangeInc => range_inc_spec a b end.
Proof. destruct k; unfold items, gspec, gspec_inc; cbn [fst snd idx unidx]; apply map_id. Qed.

Lemma vstate_int w sg a b : in_int w sg a = true -> in_int w sg b = true -> vstate (Int w sg) (a, b).
Proof. intros Ha Hb. split; cbn [fst snd]; now apply in_int_valid. Qed.

Theorem range_refines dbg w sg a b h : 1 <= w -> in_int w sg a = true -> in_int w sg b = true ->
  run_res (it_next dbg (Int w sg) KRange true) (it_next_back dbg (Int w sg) KRange true) h (a, b) =
  map Ok (deque_run h (range_spec a b)).
Proof.
  intros Hw Ha Hb. rewrite it_refines by (try exact Hw; now apply vstate_int). now rewrite items_int.
Qed.
Theorem range_inc_refines dbg w sg a b h : 1 <= w -> in_int w sg a = true -> in_int w sg b = true ->
  run_res (it_next dbg (Int w sg) KRangeInc true) (it_next_back dbg (Int w sg) KRangeInc true) h (a, b) =
  map Ok (deque_run h (range_inc_spec a b)).
Proof.
  intros Hw Ha Hb. rewrite it_refines by (try exact Hw; now apply vstate_int). now rewrite items_int.
Qed.
Theorem range_rev_refines dbg w sg a b h : 1 <= w -> in_int w sg a = true -> in_int w sg b = true ->
  run_res (it_next dbg (Int w sg) KRange false) (it_next_back dbg (Int w sg) KRange false) h (a, b) =
  map Ok (deque_run h (rev (range_spec a b))).
Proof.
  intros Hw Ha Hb. rewrite it_rev_refines by (try exact Hw; now apply vstate_int). now rewrite items_int.
Qed.
Theorem range_inc_rev_refines dbg w sg a b h : 1 <= w -> in_int w sg a = true -> in_int w sg b = true ->
  run_res (it_next dbg (Int w sg) KRangeInc false) (it_next_back dbg (Int w sg) KRangeInc false) h (a, b) =
  map Ok (deque_run h (rev (range_inc_spec a b))).
Proof.
  intros Hw Ha Hb. rewrite it_rev_refines by (try exact Hw; now apply vstate_int). now rewrite items_int.
Qed.

(* ---- char *)

Lemma items_char k a b :
  items Char k (a, b) = match k with KRange => char_range_spec a b | KRangeInc => char_range_inc_spec a b end.
Proof. destruct k; reflexivity. Qed.

Lemma vstate_char a b : is_scalar a = true -> is_scalar b = true -> vstate Char (a, b).
Proof. intros Ha Hb. split; assumption. Qed.

Theorem char_range_refines dbg a b h : is_scalar a = true -> is_scalar b = true ->
  run_res (it_next dbg Char KRange true) (it_next_back dbg Char KRange true) h (a, b) =
  map Ok (deque_run h (char_range_spec a b)).
Proof. intros Ha Hb. now rewrite it_refines by (try exact I; now apply vstate_char). Qed.
Theorem char_range_inc_refines dbg a b h : is_scalar a = true -> is_scalar b = true ->
  run_res (it_next dbg Char KRangeInc true) (it_next_back dbg Char KRangeInc true) h (a, b) =
  map Ok (deque_run h (char_range_inc_spec a b)).
Proof. intros Ha Hb. now rewrite it_refines by (try exact I; now apply vstate_char). Qed.
Theorem char_range_rev_refines dbg a b h : is_scalar a = true -> is_scalar b = true ->
  run_res (it_next dbg Char KRange false) (it_next_back dbg Char KRange false) h (a, b) =
  map Ok (deque_run h (rev (char_range_spec a b))).
Proof. intros Ha Hb. now rewrite it_rev_refines by (try exact I; now apply vstate_char). Qed.
Theorem char_range_inc_rev_refines dbg a b h : is_scalar a = true -> is_scalar b = true ->
  run_res (it_next dbg Char KRangeInc false) (it_next_back dbg Char KRangeInc false) h (a, b) =
  map Ok (deque_run h (rev (char_range_inc_spec a b))).
Proof. intros Ha Hb. now rewrite it_rev_refines by (try exact I; now apply vstate_char). Qed.

(** in particular no [debug_assert!] fires and nothing panics, whatever the history *)
Theorem no_panic dbg t k f h st : wf t -> vstate t st ->
  ~ In Panic (run_res (it_next dbg t k f) (it_next_back dbg t k f) h st) /\
  ~ In DebugPanic (run_res (it_next dbg t k f) (it_next_back dbg t k f) h st).
Proof.
  intros Hw Hv.
  assert (forall l : list (option Z), ~ In Panic (map Ok l) /\ ~ In DebugPanic (map Ok l)) as N.
  { intro l. split; intro H; apply in_map_iff in H; destruct H as [x [E _]]; discriminate. }
  destruct f; [rewrite it_refines | rewrite it_rev_refines]; try assumption; apply N.
Qed.

(* ------------------------------------------------------------------ RangeFrom *)

(** one step below MAX: the successor, in every profile *)
Lemma range_from_next_below dbg t s : wf t -> valid t s -> idx t s < hi t ->
  range_from_next dbg t s = Ok (Some (s, unidx t (idx t s + 1))).
Proof.
  intros Hw Hs L. unfold range_from_next.
  rewrite increment_spec by (try assumption; now apply valid_max).
  cbn [bind overflowed next_val]. replace (idx t s =? hi t) with false by lia.
  now rewrite andb_false_r.
Qed.

(** the step that yields MAX: [debug_assert!(!overflowed)] fires with debug assertions,
    otherwise MAX is yielded and the iterator wraps to MIN *)
Theorem range_from_at_max t : wf t ->
  range_from_next true t (max_val t) = DebugPanic /\
  range_from_next false t (max_val t) = Ok (Some (max_val t, min_val t)).
Proof.
  intro Hw. unfold range_from_next.
  rewrite increment_spec by (try assumption; now apply valid_max).
  cbn [bind overflowed next_val]. fold (hi t). rewrite Z.eqb_refl. split; reflexivity.
Qed.

(** every prefix that stays below MAX is [a; a+1; ..] (through the rank for char) *)
Theorem range_from_prefix dbg t : wf t -> forall k a, valid t a -> idx t a + Z.of_nat k <= hi t ->
  range_from_take dbg t k a = (map (unidx t) (zseq (idx t a) k), Ok true).
Proof.
  intro Hw. unfold range_from_take. induction k as [|k IH]; intros a Ha Hk; [reflexivity|].
  cbn [collect_res]. rewrite range_from_next_below by (try assumption; lia).
  pose proof (idx_range t a Ha) as Ra.
  rewrite IH.
  - cbn [zseq map]. rewrite unidx_idx by exact Ha. rewrite idx_unidx by lia. reflexivity.
  - apply valid_unidx. lia.
  - rewrite idx_unidx by lia. lia.
Qed.

(** without debug assertions the prefix may include MAX itself *)
Theorem range_from_prefix_release t : wf t -> forall k a, valid t a -> idx t a + Z.of_nat k <= hi t + 1 ->
  range_from_take false t k a = (map (unidx t) (zseq (idx t a) k), Ok true).
Proof.
  intro Hw. unfold range_from_take. induction k as [|k IH]; intros a Ha Hk; [reflexivity|].
  pose proof (idx_range t a Ha) as Ra.
  destruct (Z.eq_dec (idx t a) (hi t)) as [E|N].
  - (* a = MAX, so k = 0 *)
    assert (k = O) as -> by lia.
    assert (a = max_val t) as -> by (rewrite <- (unidx_idx t a Ha), E; apply unidx_hi).
    cbn [collect_res]. rewrite (proj2 (range_from_at_max t Hw)). cbn [zseq map].
    rewrite unidx_idx by (now apply valid_max). reflexivity.
  - cbn [collect_res]. rewrite range_from_next_below by (try assumption; lia).
    rewrite IH.
    + cbn [zseq map]. rewrite unidx_idx by exact Ha. rewrite idx_unidx by lia. reflexivity.
    + apply valid_unidx. lia.
    + rewrite idx_unidx by lia. lia.
Qed.

(** with debug assertions the call that would yield MAX panics, after the items below MAX *)
Theorem range_from_prefix_debug_panics t : wf t -> forall k a, valid t a ->
  idx t a + Z.of_nat k = hi t ->
  forall extra, range_from_take true t (S k + extra) a = (map (unidx t) (zseq (idx t a) k), DebugPanic).
Proof.
  intro Hw. unfold range_from_take. induction k as [|k IH]; intros a Ha Hk extra.
  - pose proof (idx_range t a Ha) as Ra.
    assert (a = max_val t) as -> by (rewrite <- (unidx_idx t a Ha); replace (idx t a) with (hi t) by lia; apply unidx_hi).
    cbn [plus collect_res]. rewrite (proj1 (range_from_at_max t Hw)). reflexivity.
  - pose proof (idx_range t a Ha) as Ra.
    change (S (S k) + extra)%nat with (S (S k + extra)). cbn [collect_res].
    rewrite range_from_next_below by (try assumption; lia).
    rewrite IH.
    + cbn [zseq map]. rewrite unidx_idx by exact Ha. rewrite idx_unidx by lia. reflexivity.
    + apply valid_unidx. lia.
    + rewrite idx_unidx by lia. lia.
Qed.

(** integer reading of the prefix theorem *)
Theorem range_from_prefix_int dbg w sg k a : 1 <= w -> in_int w sg a = true ->
  a + Z.of_nat k <= max_val (Int w sg) ->
  range_from_take dbg (Int w sg) k a = (range_from_spec a k, Ok true).
Proof.
  intros Hw Ha Hk. rewrite range_from_prefix; try assumption.
  - cbn [idx unidx]. now rewrite map_id.
  - now apply in_int_valid.
Qed.
Theorem range_from_prefix_char dbg k a : is_scalar a = true ->
  char_idx a + Z.of_nat k <= char_idx 1114111 ->
  range_from_take dbg Char k a = (char_range_from_spec a k, Ok true).
Proof. intros Ha Hk. now rewrite range_from_prefix. Qed.

(* ------------------------------------------------------------------ the char spec, said without ranks *)

Lemma range_spec_app a c b : a <= c <= b -> range_spec a b = range_spec a c ++ range_spec c b.
Proof.
  intro H. remember (Z.to_nat (c - a)) as n eqn:En. revert a En H.
  induction n as [|n IH]; intros a En H.
  - assert (a = c) by lia. subst a. rewrite (range_spec_nil c c) by lia. reflexivity.
  - rewrite (range_spec_cons a b), (range_spec_cons a c) by lia. cbn [app]. f_equal. apply IH; lia.
Qed.

Lemma surrogates_filtered : filter is_scalar (range_spec 55296 57344) = [].
Proof. vm_compute. reflexivity. Qed.

Lemma char_spec_filter_aux n : forall i b, is_scalar b = true -> 0 <= i ->
  Z.to_nat (char_idx b - i) = n ->
  map char_unidx (range_spec i (char_idx b)) = filter is_scalar (range_spec (char_unidx i) b).
Proof.
  induction n as [|n IH]; intros i b Hb Hi En.
  - rewrite !range_spec_nil; [reflexivity| |lia].
    revert En. unfold is_scalar in Hb. unfold char_idx, char_unidx. split_if; lia.
  - assert (i < char_idx b) as L by lia.
    rewrite range_spec_cons by exact L. cbn [map]. rewrite (IH (i + 1) b Hb) by lia.
    assert (char_unidx i < b) as L'.
    { revert L. unfold is_scalar in Hb. unfold char_idx, char_unidx. split_if; lia. }
    assert (is_scalar (char_unidx i) = true) as Si.
    { revert L. unfold is_scalar in *. unfold char_idx, char_unidx. split_if; lia. }
    rewrite (range_spec_cons (char_unidx i) b) by exact L'. cbn [filter]. rewrite Si. f_equal.
    destruct (Z.eq_dec i 55295) as [E|N].
    + subst i. change (char_unidx 55295 + 1) with 55296. change (char_unidx (55295 + 1)) with 57344.
      assert (57344 <= b) as Hge.
      { revert L. unfold is_scalar in Hb. unfold char_idx. split_if; lia. }
      rewrite (range_spec_app 55296 57344 b) by lia.
      rewrite filter_app, surrogates_filtered. reflexivity.
    + f_equal. f_equal. unfold char_unidx. split_if; lia.
Qed.

(** [a..b] over char = the scalar values among [a; a+1; ..; b-1], in increasing order *)
Theorem char_range_spec_filter a b : is_scalar a = true -> is_scalar b = true ->
  char_range_spec a b = filter is_scalar (range_spec a b).
Proof.
  intros Ha Hb. unfold char_range_spec.
  rewrite (char_spec_filter_aux (Z.to_nat (char_idx b - char_idx a)) (char_idx a) b Hb); [| |reflexivity].
  - f_equal. f_equal. exact (unidx_idx Char a Ha).
  - unfold is_scalar in Ha. unfold char_idx. split_if; lia.
Qed.

Theorem char_range_inc_spec_filter a b : is_scalar a = true -> is_scalar b = true ->
  char_range_inc_spec a b = filter is_scalar (range_inc_spec a b).
Proof.
  intros Ha Hb. unfold char_range_inc_spec. rewrite !range_inc_spec_eq.
  destruct (Z.le_gt_cases a b) as [L|L].
  - assert (char_idx a <= char_idx b) as Li.
    { pose proof (idx_leb Char a b Ha Hb) as E. cbn [idx] in E. lia. }
    rewrite (range_spec_snoc _ (char_idx b + 1)), (range_spec_snoc a (b + 1)) by lia.
    rewrite map_app, filter_app. replace (char_idx b + 1 - 1) with (char_idx b) by lia.
    replace (b + 1 - 1) with b by lia.
    fold (char_range_spec a b). rewrite char_range_spec_filter by assumption.
    cbn [map filter]. rewrite Hb. do 2 f_equal. exact (unidx_idx Char b Hb).
  - assert (char_idx b < char_idx a) as Li.
    { pose proof (idx_ltb Char b a Hb Ha) as E. cbn [idx] in E. lia. }
    rewrite !range_spec_nil by lia. reflexivity.
Qed.
