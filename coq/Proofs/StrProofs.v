(** C03: the string getters equal [str::get], the clamping variants clamp, return std's
    sub-string on boundaries and panic exactly inside a multi-byte character. *)
From KV Require Import Base.Prelude Model.Utf8 Model.Str Spec.Utf8 Proofs.Utf8Proofs.

Lemma boundary_len s : is_char_boundary_m s (zlen s) = true.
Proof. unfold is_char_boundary_m. now rewrite Z.eqb_refl. Qed.

Lemma forgiving_strict s i : forgiving_m s i = (zlen s <=? i) || is_char_boundary_m s i.
Proof.
  unfold forgiving_m, is_char_boundary_m.
  destruct (Z.leb_spec (zlen s) i); [reflexivity|]. cbn [orb].
  destruct (Z.eqb_spec i (zlen s)); [lia|]. destruct (Z.ltb_spec i (zlen s)); [reflexivity | lia].
Qed.

Lemma forgiving_std s i : utf8 s = true -> 0 <= i ->
  forgiving_m s i = (zlen s <=? i) || std_boundary s i.
Proof. intros U Hi. now rewrite forgiving_strict, boundary_eq_std. Qed.

(* ------------------------------------------------------------------ fallible getters = str::get *)

Theorem get_up_to_eq_std s n : utf8 s = true -> 0 <= n -> get_up_to_m s n = std_get s 0 n.
Proof.
  intros U Hn. unfold get_up_to_m, std_get, sget_up_to_v, whole.
  rewrite <- !(boundary_eq_std s) by (trivial; lia). rewrite (boundary_0 s U), Z.sub_0_r.
  destruct (Z.ltb_spec (zlen s) n).
  - replace ((0 <=? n) && (n <=? zlen s)) with false by lia. reflexivity.
  - replace ((0 <=? n) && (n <=? zlen s)) with true by lia. cbn [andb].
    now destruct (is_char_boundary_m s n).
Qed.

Theorem get_from_eq_std s i : utf8 s = true -> 0 <= i -> get_from_m s i = std_get s i (zlen s).
Proof.
  intros U Hi. unfold get_from_m, std_get, sget_from_v, whole. pose proof (zlen_nonneg s).
  rewrite <- !(boundary_eq_std s) by (trivial; lia). rewrite boundary_len, Z.add_0_l.
  destruct (Z.ltb_spec (zlen s) i).
  - replace ((i <=? zlen s) && (zlen s <=? zlen s)) with false by lia. reflexivity.
  - replace ((i <=? zlen s) && (zlen s <=? zlen s)) with true by lia. cbn [andb].
    rewrite andb_true_r. now destruct (is_char_boundary_m s i).
Qed.

Theorem get_range_eq_std s a b : utf8 s = true -> 0 <= a -> 0 <= b ->
  get_range_m s a b = std_get s a b.
Proof.
  intros U Ha Hb. unfold get_range_m, std_get, sget_range_v, sget_up_to_v, sget_from_v, whole.
  rewrite <- !(boundary_eq_std s) by (trivial; lia).
  destruct (Z.ltb_spec (zlen s) b).
  - replace ((a <=? b) && (b <=? zlen s)) with false by lia. reflexivity.
  - destruct (Z.ltb_spec b a).
    + replace ((a <=? b) && (b <=? zlen s)) with false by lia. reflexivity.
    + replace ((a <=? b) && (b <=? zlen s)) with true by lia. cbn [andb]. rewrite Z.add_0_l.
      destruct (is_char_boundary_m s a), (is_char_boundary_m s b); reflexivity.
Qed.

(** ... and [Some] results denote std's sub-string *)
Lemma std_get_sub s a b v : std_get s a b = Some v ->
  sub s v = firstn (Z.to_nat (b - a)) (skipn (Z.to_nat a) s).
Proof.
  unfold std_get. destruct (_ && _); [|discriminate]. intros E. inversion E; subst. reflexivity.
Qed.

(* ------------------------------------------------------------------ clamping variants *)

Theorem str_up_to_clamped s n : utf8 s = true -> 0 <= n ->
  str_up_to_m s n =
    if zlen s <? n then Ok (0, zlen s)
    else if std_boundary s n then Ok (0, n) else Panic (PBoundary BIndex n).
Proof.
  intros U Hn. unfold str_up_to_m, slice_up_to_v, whole. rewrite forgiving_std by trivial.
  destruct (Z.ltb_spec (zlen s) n).
  - replace (zlen s <=? n) with true by lia. reflexivity.
  - destruct (Z.leb_spec (zlen s) n); [|reflexivity]. assert (n = zlen s) as -> by lia.
    cbn [orb]. rewrite <- boundary_eq_std, boundary_len by trivial. reflexivity.
Qed.

Theorem str_from_clamped s i : utf8 s = true -> 0 <= i ->
  str_from_m s i =
    if zlen s <? i then Ok empty_view
    else if std_boundary s i then Ok (i, zlen s - i) else Panic (PBoundary BStart i).
Proof.
  intros U Hi. unfold str_from_m, slice_from_v, whole. rewrite forgiving_std by trivial.
  rewrite Z.add_0_l.
  destruct (Z.ltb_spec (zlen s) i).
  - replace (zlen s <=? i) with true by lia. reflexivity.
  - destruct (Z.leb_spec (zlen s) i); [|reflexivity]. assert (i = zlen s) as -> by lia.
    cbn [orb]. rewrite <- boundary_eq_std, boundary_len by trivial. reflexivity.
Qed.

(** an index is acceptable to the clamping functions when it is beyond the end or on a boundary *)
Definition acceptable (s : list Z) (i : Z) : bool := (zlen s <=? i) || std_boundary s i.

Theorem str_range_clamped s a b : utf8 s = true -> 0 <= a -> 0 <= b ->
  str_range_m s a b =
    if acceptable s a && acceptable s b then
      Ok (let e := Z.min b (zlen s) in if e <? a then empty_view else (a, e - a))
    else if acceptable s a then Panic (PBoundary BEnd b)
    else Panic (PBoundary BStart a).
Proof.
  intros U Ha Hb. unfold str_range_m, acceptable. rewrite !forgiving_std by trivial.
  destruct ((zlen s <=? a) || std_boundary s a); [|reflexivity].
  cbn [andb]. destruct ((zlen s <=? b) || std_boundary s b); [|reflexivity].
  unfold slice_range_v, slice_up_to_v, slice_from_v, whole. f_equal.
  destruct (Z.ltb_spec (zlen s) b).
  - rewrite Z.min_r by lia. rewrite Z.add_0_l. reflexivity.
  - rewrite Z.min_l by lia. rewrite Z.add_0_l. reflexivity.
Qed.

Theorem split_at_clamped s i : utf8 s = true -> 0 <= i ->
  split_at_m s i =
    if zlen s <? i then Ok ((0, zlen s), empty_view)
    else if std_boundary s i then Ok ((0, i), (i, zlen s - i)) else Panic (PBoundary BIndex i).
Proof.
  intros U Hi. unfold split_at_m. rewrite str_up_to_clamped, str_from_clamped by trivial.
  destruct (zlen s <? i); [reflexivity|]. destruct (std_boundary s i); reflexivity.
Qed.

(** the sub-strings are std's: [..n], [i..], [a..b] after clamping to the length *)
Lemma sub_up_to s n : 0 <= n -> sub s (0, n) = firstn (Z.to_nat n) s.
Proof. reflexivity. Qed.
Lemma sub_from s i : 0 <= i <= zlen s -> sub s (i, zlen s - i) = skipn (Z.to_nat i) s.
Proof.
  intros H. unfold sub. cbn [fst snd]. apply firstn_all2. rewrite skipn_length. unfold zlen in *. lia.
Qed.
Lemma sub_whole s : sub s (0, zlen s) = s.
Proof. unfold sub, zlen. cbn [fst snd skipn Z.to_nat]. rewrite Nat2Z.id. apply firstn_all. Qed.

(** panics happen exactly when an in-range index is strictly inside a character *)
Definition inside_char (s : list Z) (i : Z) : Prop := i < zlen s /\ std_boundary s i = false.

Lemma acceptable_iff s i : acceptable s i = false <-> inside_char s i.
Proof.
  unfold acceptable, inside_char. rewrite orb_false_iff. split; intros [A B]; split; trivial; lia.
Qed.

Theorem panic_iff_inside_char s i : utf8 s = true -> 0 <= i ->
  ((exists p, str_up_to_m s i = Panic p) <-> inside_char s i) /\
  ((exists p, str_from_m s i = Panic p) <-> inside_char s i) /\
  ((exists p, split_at_m s i = Panic p) <-> inside_char s i).
Proof.
  intros U Hi. rewrite str_up_to_clamped, str_from_clamped, split_at_clamped by trivial.
  unfold inside_char.
  destruct (Z.ltb_spec (zlen s) i); [|destruct (std_boundary s i) eqn:B].
  - split; [|split]; (split; [intros [p Hp]; discriminate | intros [? _]; lia]).
  - split; [|split]; (split; [intros [p Hp]; discriminate | intros [_ ?]; discriminate]).
  - assert (i <> zlen s).
    { intros ->. rewrite <- boundary_eq_std, boundary_len in B by trivial. discriminate. }
    split; [|split]; (split; [intros _; split; [lia | reflexivity] | intros _; eexists; reflexivity]).
Qed.

Theorem range_panic_iff_inside_char s a b : utf8 s = true -> 0 <= a -> 0 <= b ->
  ((exists p, str_range_m s a b = Panic p) <-> inside_char s a \/ inside_char s b) /\
  (str_range_m s a b = Panic (PBoundary BStart a) <-> inside_char s a) /\
  (str_range_m s a b = Panic (PBoundary BEnd b) <-> ~ inside_char s a /\ inside_char s b).
Proof.
  intros U Ha Hb. rewrite str_range_clamped by trivial. rewrite <- !acceptable_iff.
  destruct (acceptable s a), (acceptable s b); cbn [andb];
    (split; [|split]; split;
     first [ solve [intros [p Hp]; discriminate]
           | solve [intros [H|H]; discriminate]
           | solve [intros [_ H]; discriminate]
           | solve [intros [H _]; exfalso; apply H; reflexivity]
           | solve [discriminate]
           | solve [intros _; eexists; reflexivity]
           | solve [intros _; split; [discriminate | reflexivity]]
           | solve [intros _; left; reflexivity]
           | solve [intros _; right; reflexivity]
           | solve [intros _; reflexivity] ]).
Qed.

(** no function ever runs out of range when the index is acceptable: the getters never panic *)
Example clamp_examples :
  let s := [97; 195; 169; 98] in
  (str_range_m s 3 1 = Ok empty_view) /\ (str_range_m s 1 100 = Ok (1, 3)) /\
  (str_range_m s 2 3 = Panic (PBoundary BStart 2)) /\ (str_range_m s 1 2 = Panic (PBoundary BEnd 2)) /\
  (str_range_m s 2 2 = Panic (PBoundary BStart 2)) /\ (get_range_m s 1 3 = Some (1, 2)) /\
  (get_range_m s 3 1 = None) /\ (split_at_m s 9 = Ok ((0, 4), empty_view)).
Proof. repeat split. Qed.
