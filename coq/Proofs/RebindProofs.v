(** C19, rebind part: the token walker emits exactly one assignment per component, in
    order, to the listed target, for every arity 1..6 and every kind of target; the two
    public macros therefore behave like [if let Ok] / [?] followed by those assignments. *)
From KV Require Import Base.Prelude Model.OptRes Model.Rebind Spec.Rebind.
Local Open Scope nat_scope.

(* ------------------------------------------------------------------ one target, one arm *)

Lemma span_comma_expr (e tail : list tok) rem :
  forallb tok_in_expr e = true -> tail_rem tail = Some rem ->
  span_comma (e ++ tail) = (e, tail).
Proof.
  intros He Ht. induction e as [|t e IH]; cbn [app].
  - destruct tail as [|x tail']; [reflexivity|].
    destruct x; cbn in Ht; try discriminate. reflexivity.
  - cbn [forallb] in He. apply andb_true_iff in He as [Ht1 He].
    cbn [span_comma]. rewrite (IH He).
    destruct t; cbn in Ht1; try discriminate; reflexivity.
Qed.

(** whatever follows the target (nothing, or a comma and the remaining targets), the arm
    that macro_rules selects hands on this target's left-hand side *)
Lemma first_arm_target (t : target) (tail rem : list tok) :
  wf_target t -> tail_rem tail = Some rem ->
  first_arm (target_toks t ++ tail) = Some (pre_of t, lhs_of t, rem).
Proof.
  intros Hwf Ht.
  assert (Hcases : tail = [] /\ rem = [] \/ tail = KComma :: rem).
  { destruct tail as [|x tail']; cbn in Ht.
    - left. split; congruence.
    - destruct x; try discriminate. right. congruence. }
  destruct t as [e | n ty | p | p ty | | ty]; cbn [target_toks pre_of lhs_of wf_target] in *.
  - (* place expression *)
    destruct e as [|h rest]; [contradiction|].
    destruct h; try contradiction.
    destruct rest as [|t2 rest'].
    + (* a single identifier: fourth arm *)
      cbn [app]. unfold first_arm. cbn [arm1 arm2 arm3].
      destruct Hcases as [[-> ->] | ->]; reflexivity.
    + (* several tokens: only the [$e:expr] arm matches *)
      pose proof Hwf as Hwf'. cbn [forallb] in Hwf'. apply andb_true_iff in Hwf' as [H2 Hr].
      set (e := KIdent n :: t2 :: rest') in *.
      assert (H1 : arm1 (e ++ tail) = None) by reflexivity.
      assert (H2' : arm2 (e ++ tail) = None) by reflexivity.
      assert (H3 : arm3 (e ++ tail) = None) by reflexivity.
      assert (H4 : arm4 (e ++ tail) = None).
      { unfold e. cbn [app arm4]. destruct t2; cbn in H2; try discriminate; reflexivity. }
      unfold first_arm. rewrite H1, H2', H3, H4. unfold arm5.
      assert (He : forallb tok_in_expr e = true) by (unfold e; cbn [forallb tok_in_expr andb]; exact Hwf).
      rewrite (span_comma_expr e tail rem He Ht).
      unfold e at 1. cbn [expr_head andb]. rewrite He, Ht. reflexivity.
  - destruct Hcases as [[-> ->] | ->]; reflexivity.
  - unfold first_arm.
    assert (H1 : arm1 ([KLet; p] ++ tail) = None).
    { destruct Hcases as [[-> _] | ->]; reflexivity. }
    rewrite H1. cbn [app arm2]. rewrite Hwf, Ht. reflexivity.
  - unfold first_arm. cbn [app arm1]. rewrite Ht. reflexivity.
  - destruct Hcases as [[-> ->] | ->]; reflexivity.
  - unfold first_arm. cbn [app arm1 arm2 arm3]. rewrite Ht. reflexivity.
Qed.

(* ------------------------------------------------------------------ the walk *)

Lemma target_toks_nonempty t : wf_target t -> target_toks t <> [].
Proof. destruct t as [[|h r]| | | | |]; cbn; try discriminate. contradiction. Qed.

Lemma render_nonempty t ts : wf_target t -> render (t :: ts) <> [].
Proof.
  intros H. cbn [render]. destruct ts.
  - now apply target_toks_nonempty.
  - pose proof (target_toks_nonempty t H). destruct (target_toks t); [congruence | discriminate].
Qed.

Lemma length_le_render ts : Forall wf_target ts -> length ts <= length (render ts).
Proof.
  induction 1 as [|t ts Ht _ IH]; [cbn; lia|].
  cbn [render]. destruct ts as [|t' ts'].
  - pose proof (target_toks_nonempty t Ht). destruct (target_toks t); [congruence | cbn; lia].
  - rewrite app_length. cbn [length] in *. lia.
Qed.

Lemma render_cons2 t t' r : render (t :: t' :: r) = target_toks t ++ KComma :: render (t' :: r).
Proof. reflexivity. Qed.
Lemma steps_cons2 k t t' r :
  steps k (t :: t' :: r) = pre_of t ++ SAssign (lhs_of t) (Field (KNum k)) :: steps (S k) (t' :: r).
Proof. reflexivity. Qed.

Definition nums (k m : nat) : list tok := map KNum (seq k m).

(** [trailing] is nothing or the optional trailing comma *)
Lemma walk_steps (ts : list target) : forall (k m fuel : nat) (trailing : list tok),
  ts <> [] -> Forall wf_target ts -> length ts <= m -> length ts <= fuel ->
  tail_rem trailing = Some [] ->
  assign_tuple tr_fixed fuel (nums k m) (render ts ++ trailing) = Some (steps k ts).
Proof.
  induction ts as [|t ts IH]; intros k m fuel trailing Hne Hwf Hm Hfuel Htr; [congruence|].
  inversion Hwf as [|? ? Hwt Hwts]; subst.
  destruct fuel as [|fuel']; [cbn in Hfuel; lia|].
  destruct m as [|m']; [cbn in Hm; lia|].
  destruct ts as [|t' ts'].
  - (* last target *)
    cbn [render steps assign_tuple].
    rewrite (first_arm_target t trailing [] Hwt Htr).
    unfold nums. cbn [seq map next_ai_access].
    destruct k; reflexivity.
  - rewrite render_cons2, steps_cons2. rewrite <- app_assoc.
    change ((KComma :: render (t' :: ts')) ++ trailing) with (KComma :: render (t' :: ts') ++ trailing).
    cbn [assign_tuple].
    rewrite (first_arm_target t (KComma :: render (t' :: ts') ++ trailing)
               (render (t' :: ts') ++ trailing) Hwt eq_refl).
    unfold nums. cbn [seq map]. fold (nums (S k) m').
    pose proof (render_nonempty t' ts' ltac:(inversion Hwts; assumption)) as Hr.
    assert (Hrem : exists x r, render (t' :: ts') ++ trailing = x :: r).
    { destruct (render (t' :: ts')) as [|x r]; [congruence|]. exists x, (r ++ trailing). reflexivity. }
    destruct Hrem as (x & r & Hxr).
    assert (Hrec : assign_tuple tr_fixed fuel' (tr_fixed (nums (S k) m'))
                     (render (t' :: ts') ++ trailing) = Some (steps (S k) (t' :: ts'))).
    { unfold tr_fixed. apply IH; try assumption; try discriminate; cbn [length] in *; lia. }
    rewrite Hxr in *.
    unfold next_ai_access. rewrite Hrec. destruct k; reflexivity.
Qed.

(** rebind_assigns_all: arity 1..6, every position any kind of target, with or without a
    trailing comma *)
Theorem rebind_assigns_all (ts : list target) :
  Forall wf_target ts -> 1 <= length ts <= 6 ->
  walk (render ts) = Some (steps 0 ts) /\
  walk (render ts ++ [KComma]) = Some (steps 0 ts).
Proof.
  intros Hwf Hlen.
  assert (Hne : ts <> []) by (destruct ts; [cbn in Hlen; lia | discriminate]).
  pose proof (length_le_render ts Hwf) as Hl.
  split; unfold walk, walk_with, fields0.
  - rewrite <- (app_nil_r (render ts)) at 2.
    apply (walk_steps ts 0 6); try assumption; try reflexivity; try lia.
  - apply (walk_steps ts 0 6); try assumption; try reflexivity; try lia.
    rewrite app_length. lia.
Qed.

(** more than six components: the field list is exhausted and no arm matches *)
Lemma rebind_seven_rejected :
  walk (render [TgWild; TgWild; TgWild; TgWild; TgWild; TgWild; TgWild]) = None.
Proof. reflexivity. Qed.

(* ------------------------------------------------------------------ meaning *)

Lemma exec_app a b payload st :
  exec (a ++ b) payload st =
  match exec a payload st with Some st' => exec b payload st' | None => None end.
Proof.
  revert st. induction a as [|s a IH]; intros st; [reflexivity|].
  cbn [app exec]. destruct s as [lhs acc | ty]; [|apply IH].
  destruct (read_access payload acc); [|reflexivity].
  destruct (lhs_place lhs); apply IH.
Qed.

Lemma exec_pre t payload st : exec (pre_of t) payload st = Some st.
Proof. destruct t; reflexivity. Qed.

Lemma exec_assign lhs acc v payload st :
  read_access payload acc = Some v ->
  exec [SAssign lhs acc] payload st = Some (write lhs v st).
Proof. intros H. cbn [exec]. rewrite H. unfold write. destruct (lhs_place lhs); reflexivity. Qed.

(** components [k ..] of the tuple go to the targets, in order *)
Lemma exec_steps (ts : list target) : forall (k : nat) (before vals : list Z) (st : store),
  length before = k -> length vals = length ts ->
  (k <> 0 \/ 2 <= length ts) ->
  exec (steps k ts) (VTup (before ++ vals)) st = Some (assign_each ts vals st).
Proof.
  induction ts as [|t ts IH]; intros k before vals st Hk Hlen Hnz.
  - destruct vals; [reflexivity | discriminate].
  - destruct vals as [|v vals]; [discriminate|]. cbn [length] in Hlen.
    assert (Hread : read_access (VTup (before ++ v :: vals)) (Field (KNum k)) = Some (VInt v)).
    { cbn [read_access]. rewrite nth_error_app2 by lia.
      replace (k - length before) with 0 by lia. reflexivity. }
    destruct ts as [|t' ts'].
    + destruct vals; [|discriminate].
      cbn [steps assign_each]. rewrite exec_app, exec_pre.
      destruct k as [|k']; [cbn [length] in Hnz; lia|].
      cbn [Nat.eqb]. rewrite (exec_assign _ _ (VInt v)); [reflexivity | exact Hread].
    + change (steps k (t :: t' :: ts'))
        with (pre_of t ++ SAssign (lhs_of t) (Field (KNum k)) :: steps (S k) (t' :: ts')).
      rewrite exec_app, exec_pre.
      change (SAssign (lhs_of t) (Field (KNum k)) :: steps (S k) (t' :: ts'))
        with ([SAssign (lhs_of t) (Field (KNum k))] ++ steps (S k) (t' :: ts')).
      rewrite exec_app, (exec_assign _ _ (VInt v)) by exact Hread.
      cbn [assign_each].
      replace (before ++ v :: vals) with ((before ++ [v]) ++ vals) by (rewrite <- app_assoc; reflexivity).
      apply IH.
      * rewrite app_length. cbn. lia.
      * lia.
      * left. lia.
Qed.

Lemma exec_steps_single t payload st :
  exec (steps 0 [t]) payload st = Some (write (lhs_of t) payload st).
Proof.
  cbn [steps Nat.eqb]. rewrite exec_app, exec_pre.
  apply exec_assign. destruct payload; reflexivity.
Qed.

Lemma exec_steps_rebound ts payload st :
  1 <= length ts ->
  (forall l, payload = VTup l -> 2 <= length ts -> length l = length ts) ->
  (2 <= length ts -> exists l, payload = VTup l) ->
  exec (steps 0 ts) payload st = rebound ts payload st.
Proof.
  intros H1 Hlen Htup.
  destruct ts as [|t [|t' ts']]; [cbn in H1; lia | apply exec_steps_single |].
  destruct (Htup ltac:(cbn; lia)) as [l ->].
  specialize (Hlen l eq_refl ltac:(cbn; lia)).
  unfold rebound. rewrite Hlen, Nat.eqb_refl.
  apply (exec_steps (t :: t' :: ts') 0 [] l st); [reflexivity | exact Hlen | right; cbn; lia].
Qed.

(** a payload fits a pattern: a single target takes anything, [n >= 2] targets take an
    [n]-tuple *)
Definition fits (ts : list target) (payload : rval) : Prop :=
  match ts with
  | [_] => True
  | _ => exists l, payload = VTup l /\ length l = length ts
  end.

Lemma fits_rebound ts payload st :
  1 <= length ts -> fits ts payload ->
  exec (steps 0 ts) payload st = rebound ts payload st.
Proof.
  intros H1 Hf. apply exec_steps_rebound; [exact H1 | |].
  - intros l -> H2. destruct ts as [|t [|t' ts']]; cbn in H2; try lia.
    destruct Hf as (l' & Heq & Hl). inversion Heq; subst. exact Hl.
  - intros H2. destruct ts as [|t [|t' ts']]; cbn in H2; try lia.
    destruct Hf as (l' & Heq & _). eauto.
Qed.

(** rebind_if_ok!{( targets ) = e => code}  is  if let Ok(t) = e { assignments; code } *)
Theorem rebind_if_ok_eq_if_let {E} (ts : list target) (e : result rval E) (st : store) :
  Forall wf_target ts -> 1 <= length ts <= 6 ->
  (forall payload, e = Ok payload -> fits ts payload) ->
  rebind_if_ok_m (RP (KParen (render ts)) None) e st = spec_if_let ts e st /\
  rebind_if_ok_m (RP (KParen (render ts ++ [KComma])) None) e st = spec_if_let ts e st.
Proof.
  intros Hwf Hlen Hfit.
  destruct (rebind_assigns_all ts Hwf Hlen) as [Hw Hwc].
  unfold rebind_if_ok_m, rebind_if_ok_with, spec_if_let. cbn [preprocess].
  fold walk. rewrite Hw, Hwc.
  destruct e as [payload | x]; [|split; reflexivity].
  rewrite (fits_rebound ts payload st) by (try apply Hfit; try reflexivity; lia).
  split; reflexivity.
Qed.

(** try_rebind!{( targets ) = e}  is  let t = e?; assignments *)
Theorem try_rebind_eq_question_mark {E} (ts : list target) (e : result rval E) (st : store) :
  Forall wf_target ts -> 1 <= length ts <= 6 ->
  (forall payload, e = Ok payload -> fits ts payload) ->
  try_rebind_m (KParen (render ts)) e st = spec_question ts e st /\
  try_rebind_m (KParen (render ts ++ [KComma])) e st = spec_question ts e st.
Proof.
  intros Hwf Hlen Hfit.
  destruct (rebind_assigns_all ts Hwf Hlen) as [Hw Hwc].
  unfold try_rebind_m, try_rebind_with, spec_question. cbn [preprocess].
  fold walk. rewrite Hw, Hwc.
  destruct e as [payload | x]; [|split; reflexivity].
  rewrite (fits_rebound ts payload st) by (try apply Hfit; try reflexivity; lia).
  split; reflexivity.
Qed.

(** the bare forms [x = e], [_ = e], [x: T = e] (no parentheses): one target, whole payload *)
Theorem rebind_bare_eq_if_let {E} (e : result rval E) (st : store) :
  (forall n, rebind_if_ok_m (RP (KIdent n) None) e st = spec_if_let [TgPlace [KIdent n]] e st) /\
  (forall n ty, rebind_if_ok_m (RP (KIdent n) (Some (KTy ty))) e st = spec_if_let [TgPlaceTy n ty] e st) /\
  rebind_if_ok_m (RP KUnd None) e st = spec_if_let [TgWild] e st /\
  (forall ty, rebind_if_ok_m (RP KUnd (Some (KTy ty))) e st = spec_if_let [TgWildTy ty] e st) /\
  (forall n, try_rebind_m (KIdent n) e st = spec_question [TgPlace [KIdent n]] e st) /\
  try_rebind_m KUnd e st = spec_question [TgWild] e st.
Proof.
  repeat split; intros; destruct e as [[z|l]|x]; reflexivity.
Qed.

(* ------------------------------------------------------------------ "in order" made visible *)

(** the value a place holds afterwards is the component of the LAST target naming it *)
Lemma assign_each_lookup_last (ts1 ts2 : list target) (t : target) (pl : list tok)
      (vs1 vs2 : list Z) (v : Z) (st : store) :
  length vs1 = length ts1 ->
  lhs_place (lhs_of t) = Some pl ->
  Forall (fun t' => forall pl', lhs_place (lhs_of t') = Some pl' -> toks_eqb pl' pl = false) ts2 ->
  length vs2 = length ts2 ->
  toks_eqb pl pl = true ->
  lookup pl (assign_each (ts1 ++ t :: ts2) (vs1 ++ v :: vs2) st) = Some (VInt v).
Proof.
  intros H1 Hpl Hlater H2 Hrefl.
  revert vs1 st H1. induction ts1 as [|a ts1 IH]; intros vs1 st H1.
  - destruct vs1; [|discriminate]. cbn [app assign_each].
    unfold write at 1. rewrite Hpl.
    set (st0 := (pl, VInt v) :: st).
    assert (Hst0 : lookup pl st0 = Some (VInt v)) by (unfold st0; cbn [lookup]; now rewrite Hrefl).
    clearbody st0. clear Hpl.
    revert vs2 st0 H2 Hst0. induction Hlater as [|b ts2 Hb _ IH2]; intros vs2 st0 H2 Hst0.
    + destruct vs2; [exact Hst0 | discriminate].
    + destruct vs2 as [|w vs2]; [discriminate|]. cbn [assign_each].
      apply IH2; [cbn in H2; lia|].
      unfold write. destruct (lhs_place (lhs_of b)) as [pl'|] eqn:Eb; [|exact Hst0].
      cbn [lookup]. rewrite (Hb pl' eq_refl). exact Hst0.
  - destruct vs1 as [|w vs1]; [discriminate|]. cbn [app assign_each].
    apply IH. cbn in H1. lia.
Qed.

(* ------------------------------------------------------------------ finding F5 (repaired) *)

(** the transcriber used before the repair re-emitted [: tt] after every remaining field:
    the third component is read through the "field" [:] *)
Lemma rebind_arity3_refuted :
  let ts := [TgPlace [KIdent 0]; TgPlace [KIdent 1]; TgPlace [KIdent 2]] in
  walk_old (render ts) =
    Some [SAssign [KIdent 0] (Field (KNum 0)); SAssign [KIdent 1] (Field (KNum 1));
          SAssign [KIdent 2] (Field KColon)] /\
  walk_old (render ts) <> Some (steps 0 ts) /\
  @rebind_if_ok_with unit tr_old (RP (KParen (render ts)) None) (Ok (VTup [1; 2; 3]%Z)) [] = Rejected /\
  @rebind_if_ok_with unit tr_fixed (RP (KParen (render ts)) None) (Ok (VTup [1; 2; 3]%Z)) [] =
    Rebound [([KIdent 2], VInt 3%Z); ([KIdent 1], VInt 2%Z); ([KIdent 0], VInt 1%Z)] /\
  (* two components never reach the broken transcription of a third field *)
  walk_old (render [TgPlace [KIdent 0]; TgPlace [KIdent 1]]) =
    Some (steps 0 [TgPlace [KIdent 0]; TgPlace [KIdent 1]]).
Proof. cbv zeta. repeat split; try reflexivity. discriminate. Qed.
