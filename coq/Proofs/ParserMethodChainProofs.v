(** parser_method! = the chain / loop of Parser method calls, where "Parser method" is the
    executable model of the real methods, [Model.Parser.step] (property C13's record),
    for every form of the macro.

    The macro model (Model/ParserMethod.v) keeps the parser as (remainder, start_offset,
    direction); [abs] forgets the one further field of Model.Parser's record
    (yielded_last_split, which neither the macro nor any of the six methods touches:
    see [*_keeps_flag]).  Names of Model.Parser are used qualified ([Parser.step] ..):
    both models have a [parser], a [pdir], a [FromStart].

    Which call "wins":
    - strip_prefix / strip_suffix: the first listed alternative whose call returns Ok;
    - find_skip: every alternative's [Parser::find_skip] is (conceptually) called on the
      SAME parser; among those that return Ok the one whose match STARTS earliest
      (start_offset of the returned parser minus the literal's length), ties: first
      listed;
    - rfind_skip: same with [Parser::rfind_skip], the match that ENDS latest
      (end offset of the returned parser plus the literal's length), ties: first listed;
    - trim_*_matches: the loop "strip the first listed alternative whose
      [Parser::strip_prefix] ([strip_suffix]) returns Ok, stop when none does or when the
      one that does is empty", then the direction is set; with ONE alternative this is
      [Parser::trim_start_matches] ([trim_end_matches]) itself. *)
From KV Require Import Base.Prelude Model.Search Spec.Search Proofs.SearchProofs
  Model.Trim Spec.Trim Proofs.TrimProofs
  Model.ParserMethod Spec.ParserMethod Spec.ParserChain
  Proofs.ParserMethodProofs Proofs.ParserChainProofs.
From KV Require Model.Parser.
Local Open Scope Z_scope.

(* ------------------------------------------------------------------ the bridge *)

Definition abs_dir (d : Parser.pdir) : pdir :=
  match d with
  | Parser.FromStart => FromStart
  | Parser.FromEnd => FromEnd
  | Parser.FromBoth => FromBoth
  end.

(** the macro model's view of a Model.Parser parser *)
Definition abs (P : Parser.parser) : parser :=
  mkP (Parser.p_str P) (Parser.p_start P) (abs_dir (Parser.p_dir P)).

(** the u32 bookkeeping of start_offset does not wrap on this parser (C13's hypothesis) *)
Definition fits (P : Parser.parser) : Prop :=
  0 <= Parser.p_start P /\ Parser.p_start P + zlen (Parser.p_str P) < 4294967296.

(** only the forward forms move start_offset *)
Definition fits_for (s : side) (P : Parser.parser) : Prop :=
  match s with AtStart => fits P | AtEnd => True end.

Lemma u32_id x : 0 <= x < 4294967296 -> Parser.u32 x = x.
Proof. intro H. unfold Parser.u32. now apply Z.mod_small. Qed.

(** what a [FromStart] / [FromEnd] frame returns when its body leaves [r] *)
Definition start_to (P : Parser.parser) (r : list Z) : Parser.parser :=
  Parser.mk_parser Parser.FromStart (Parser.p_yls P)
    (Parser.u32 (Parser.p_start P + Parser.u32 (zlen (Parser.p_str P) - zlen r))) r.
Definition end_to (P : Parser.parser) (r : list Z) : Parser.parser :=
  Parser.mk_parser Parser.FromEnd (Parser.p_yls P) (Parser.p_start P) r.

Lemma start_to_eq P x r : fits P -> Parser.p_str P = x ++ r ->
  start_to P r = Parser.mk_parser Parser.FromStart (Parser.p_yls P) (Parser.p_start P + zlen x) r.
Proof.
  intros [H0 H1] E. unfold start_to. rewrite E in H1 |- *. rewrite zlen_app in H1 |- *.
  pose proof (zlen_nonneg x). pose proof (zlen_nonneg r).
  replace (zlen x + zlen r - zlen r) with (zlen x) by lia.
  rewrite (u32_id (zlen x)) by lia. rewrite u32_id by lia. reflexivity.
Qed.

Lemma abs_start_to P x r : fits P -> Parser.p_str P = x ++ r ->
  abs (start_to P r) = cut AtStart (abs P) r.
Proof.
  intros Hf E. rewrite (start_to_eq P x r Hf E). unfold abs, cut. cbn.
  rewrite E, zlen_app. f_equal. lia.
Qed.

Lemma abs_end_to P r : abs (end_to P r) = cut AtEnd (abs P) r.
Proof. reflexivity. Qed.

Lemma fits_start_to P x r : fits P -> Parser.p_str P = x ++ r -> fits (start_to P r).
Proof.
  intros Hf E. rewrite (start_to_eq P x r Hf E). destruct Hf as [H0 H1]. unfold fits. cbn.
  rewrite E, zlen_app in H1. pose proof (zlen_nonneg x). pose proof (zlen_nonneg r). lia.
Qed.

(* ------------------------------------------------------------------ the six methods, unfolded *)

Lemma step_find P a : Parser.step P (Parser.OFindSkip a) =
  match find_skip_m (Parser.p_str P) a with
  | Some r => Parser.POk Parser.VNone (start_to P r)
  | None => Parser.PErr (Parser.err_new (Parser.set_dir P Parser.FromStart) Parser.EFind)
  end.
Proof.
  unfold Parser.step, Parser.frame. cbn [Parser.set_dir Parser.p_str].
  destruct (find_skip_m (Parser.p_str P) a); reflexivity.
Qed.

Lemma step_rfind P a : Parser.step P (Parser.ORFindSkip a) =
  match rfind_skip_m (Parser.p_str P) a with
  | Some r => Parser.POk Parser.VNone (end_to P r)
  | None => Parser.PErr (Parser.err_new (Parser.set_dir P Parser.FromEnd) Parser.EFind)
  end.
Proof.
  unfold Parser.step, Parser.frame. cbn [Parser.set_dir Parser.p_str].
  destruct (rfind_skip_m (Parser.p_str P) a); reflexivity.
Qed.

Lemma step_strip_prefix P a : Parser.step P (Parser.OStripPrefix a) =
  match strip_prefix_m (Parser.p_str P) a with
  | Some r => Parser.POk Parser.VNone (start_to P r)
  | None => Parser.PErr (Parser.err_new (Parser.set_dir P Parser.FromStart) Parser.EStrip)
  end.
Proof.
  unfold Parser.step, Parser.frame. cbn [Parser.set_dir Parser.p_str].
  destruct (strip_prefix_m (Parser.p_str P) a); reflexivity.
Qed.

Lemma step_strip_suffix P a : Parser.step P (Parser.OStripSuffix a) =
  match strip_suffix_m (Parser.p_str P) a with
  | Some r => Parser.POk Parser.VNone (end_to P r)
  | None => Parser.PErr (Parser.err_new (Parser.set_dir P Parser.FromEnd) Parser.EStrip)
  end.
Proof.
  unfold Parser.step, Parser.frame. cbn [Parser.set_dir Parser.p_str].
  destruct (strip_suffix_m (Parser.p_str P) a); reflexivity.
Qed.

Lemma step_trim_start P a : Parser.step P (Parser.OTrimStartMatches a) =
  Parser.POk Parser.VNone
    (start_to P (Parser.unwrap_trim (trim_start_matches_m (Parser.p_str P) a) (Parser.p_str P))).
Proof. reflexivity. Qed.

Lemma step_trim_end P a : Parser.step P (Parser.OTrimEndMatches a) =
  Parser.POk Parser.VNone
    (end_to P (Parser.unwrap_trim (trim_end_matches_m (Parser.p_str P) a) (Parser.p_str P))).
Proof. reflexivity. Qed.

(* ------------------------------------------------------------------ find_skip_m / rfind_skip_m, any needle *)

Lemma first_occ_nil h k : first_occ h [] k -> k = 0%nat.
Proof.
  intros [_ Hmin]. destruct k as [|k]; [reflexivity|]. exfalso.
  apply (Hmin 0%nat ltac:(lia)). apply occ_nil_needle. lia.
Qed.

Lemma last_occ_nil h k : last_occ h [] k -> k = length h.
Proof.
  intros [Ho Hmax]. apply occ_bound in Ho. cbn [length] in Ho.
  destruct (Nat.eq_dec k (length h)) as [E|N]; [exact E|]. exfalso.
  apply (Hmax (length h) ltac:(lia)). apply occ_nil_needle. lia.
Qed.

Lemma find_skip_m_iff h a r :
  find_skip_m h a = Some r <-> exists k, first_occ h a k /\ r = skipn (k + length a) h.
Proof.
  destruct a as [|c a'].
  - cbn [find_skip_m]. split.
    + intro H; inversion H; subst. exists 0%nat. split; [|reflexivity].
      split; [apply occ_nil_needle; lia | intros; lia].
    + intros (k & Hk & ->). apply first_occ_nil in Hk. subst k. reflexivity.
  - apply find_skip_m_some. discriminate.
Qed.

Lemma find_skip_m_none_iff h a : find_skip_m h a = None <-> no_occ h a.
Proof.
  destruct a as [|c a'].
  - cbn [find_skip_m]. split; [discriminate|]. intro H. exfalso.
    apply (H 0%nat). apply occ_nil_needle. lia.
  - apply find_skip_m_none. discriminate.
Qed.

Lemma rfind_skip_m_iff h a r :
  rfind_skip_m h a = Some r <-> exists k, last_occ h a k /\ r = firstn k h.
Proof.
  destruct a as [|c a'].
  - cbn [rfind_skip_m]. split.
    + intro H; inversion H; subst. exists (length r). split; [|now rewrite firstn_all].
      split; [apply occ_nil_needle; lia|]. intros j Hj Ho. apply occ_bound in Ho. cbn [length] in Ho. lia.
    + intros (k & Hk & ->). apply last_occ_nil in Hk. subst k. now rewrite firstn_all.
  - apply rfind_skip_m_some. discriminate.
Qed.

Lemma rfind_skip_m_none_iff h a : rfind_skip_m h a = None <-> no_occ h a.
Proof.
  destruct a as [|c a'].
  - cbn [rfind_skip_m]. split; [discriminate|]. intro H. exfalso.
    apply (H 0%nat). apply occ_nil_needle. lia.
  - apply rfind_skip_m_none. discriminate.
Qed.

Lemma occ_split h a k : occ h a k ->
  h = firstn (k + length a) h ++ skipn (k + length a) h /\ zlen (firstn (k + length a) h) = Z.of_nat k + zlen a.
Proof.
  intro Ho. apply occ_bound in Ho. split; [symmetry; apply firstn_skipn|].
  unfold zlen. rewrite firstn_length. lia.
Qed.

(** [Parser::find_skip(a)] returns [Ok Q]: [a] occurs first at offset [k], [Q] starts after it *)
Lemma step_find_ok P a Q : fits P ->
  (Parser.step P (Parser.OFindSkip a) = Parser.POk Parser.VNone Q <->
   exists k, first_occ (Parser.p_str P) a k /\
     Q = Parser.mk_parser Parser.FromStart (Parser.p_yls P) (Parser.p_start P + Z.of_nat k + zlen a)
           (skipn (k + length a) (Parser.p_str P))).
Proof.
  intro Hf. rewrite step_find. split.
  - destruct (find_skip_m (Parser.p_str P) a) as [r|] eqn:E; [|discriminate].
    intro H. inversion H; subst Q. apply find_skip_m_iff in E. destruct E as (k & Hk & ->).
    exists k. split; [exact Hk|]. destruct (occ_split _ _ _ (proj1 Hk)) as [E1 E2].
    rewrite (start_to_eq P _ _ Hf E1), E2. f_equal. lia.
  - intros (k & Hk & ->).
    assert (E : find_skip_m (Parser.p_str P) a = Some (skipn (k + length a) (Parser.p_str P)))
      by (apply find_skip_m_iff; now exists k).
    rewrite E. destruct (occ_split _ _ _ (proj1 Hk)) as [E1 E2].
    rewrite (start_to_eq P _ _ Hf E1), E2. do 2 f_equal. lia.
Qed.

Lemma step_find_err P a :
  (exists e, Parser.step P (Parser.OFindSkip a) = Parser.PErr e) <-> no_occ (Parser.p_str P) a.
Proof.
  rewrite step_find, <- find_skip_m_none_iff.
  destruct (find_skip_m (Parser.p_str P) a); split; try discriminate; eauto.
  intros (e & H). discriminate.
Qed.

(** [Parser::rfind_skip(a)] returns [Ok Q]: [a] occurs last at offset [k], [Q] ends before it *)
Lemma step_rfind_ok P a Q :
  Parser.step P (Parser.ORFindSkip a) = Parser.POk Parser.VNone Q <->
  exists k, last_occ (Parser.p_str P) a k /\
    Q = Parser.mk_parser Parser.FromEnd (Parser.p_yls P) (Parser.p_start P) (firstn k (Parser.p_str P)).
Proof.
  rewrite step_rfind. split.
  - destruct (rfind_skip_m (Parser.p_str P) a) as [r|] eqn:E; [|discriminate].
    intro H. inversion H; subst Q. apply rfind_skip_m_iff in E. destruct E as (k & Hk & ->). now exists k.
  - intros (k & Hk & ->).
    assert (E : rfind_skip_m (Parser.p_str P) a = Some (firstn k (Parser.p_str P)))
      by (apply rfind_skip_m_iff; now exists k).
    now rewrite E.
Qed.

Lemma step_rfind_err P a :
  (exists e, Parser.step P (Parser.ORFindSkip a) = Parser.PErr e) <-> no_occ (Parser.p_str P) a.
Proof.
  rewrite step_rfind, <- rfind_skip_m_none_iff.
  destruct (rfind_skip_m (Parser.p_str P) a); split; try discriminate; eauto.
  intros (e & H). discriminate.
Qed.

(* ------------------------------------------------------------------ find_skip *)

(** where the match consumed by [Parser::find_skip(a)] = [Ok Q] started *)
Definition match_start (Q : Parser.parser) (a : list Z) : Z := Parser.p_start Q - zlen a.

(** arm [j] = [(i, a)] wins the find_skip chain on [P] with result [Q]: its call returns
    [Ok Q] and every other call that returns Ok matched no earlier, and strictly later
    if it is listed before *)
Definition find_winner (P : Parser.parser) (arms : arm_list) (j i : nat) (a : list Z)
           (Q : Parser.parser) : Prop :=
  nth_error arms j = Some (i, a) /\
  Parser.step P (Parser.OFindSkip a) = Parser.POk Parser.VNone Q /\
  forall j' i' a' Q', nth_error arms j' = Some (i', a') ->
    Parser.step P (Parser.OFindSkip a') = Parser.POk Parser.VNone Q' ->
    match_start Q a <= match_start Q' a' /\ ((j' < j)%nat -> match_start Q a < match_start Q' a').

Lemma find_winner_unique P arms j i a Q j2 i2 a2 Q2 :
  find_winner P arms j i a Q -> find_winner P arms j2 i2 a2 Q2 ->
  j = j2 /\ i = i2 /\ a = a2 /\ Q = Q2.
Proof.
  intros (Hn & Hs & Hw) (Hn2 & Hs2 & Hw2).
  destruct (Hw _ _ _ _ Hn2 Hs2) as [L1 S1]. destruct (Hw2 _ _ _ _ Hn Hs) as [L2 S2].
  assert (j = j2).
  { destruct (Nat.lt_trichotomy j j2) as [L|[E|L]]; [specialize (S2 L); lia | exact E | specialize (S1 L); lia]. }
  subst j2. rewrite Hn in Hn2. inversion Hn2; subst. rewrite Hs in Hs2. inversion Hs2. auto.
Qed.

Lemma first_listed_first_occ h arms k j i a :
  first_listed (fun a => occ h a k) arms j i a ->
  (forall k', (k' < k)%nat -> none_listed (fun a => occ h a k') arms) -> first_occ h a k.
Proof.
  intros (Hn & Ho & _) Hmin. split; [exact Ho|]. intros k' Hk'.
  apply (Hmin k' Hk' i a). eapply nth_error_In; eassumption.
Qed.

(** the arm the scan loop selects wins the chain *)
Lemma find_selected_wins P arms k j i a : fits P ->
  first_listed (fun a => occ (Parser.p_str P) a k) arms j i a ->
  (forall k', (k' < k)%nat -> none_listed (fun a => occ (Parser.p_str P) a k') arms) ->
  exists Q, find_winner P arms j i a Q /\ Parser.p_str Q = skipn (k + length a) (Parser.p_str P).
Proof.
  intros Hf Hfl Hmin. pose proof (first_listed_first_occ _ _ _ _ _ _ Hfl Hmin) as Hfo.
  exists (Parser.mk_parser Parser.FromStart (Parser.p_yls P) (Parser.p_start P + Z.of_nat k + zlen a)
            (skipn (k + length a) (Parser.p_str P))).
  split; [|reflexivity]. split; [exact (proj1 Hfl)|]. split.
  - apply (step_find_ok _ _ _ Hf). exists k. split; [exact Hfo | reflexivity].
  - intros j' i' a' Q' Hn' Hs'. apply (step_find_ok _ _ _ Hf) in Hs'. destruct Hs' as (k' & Hfo' & ->).
    unfold match_start. cbn [Parser.p_start].
    assert (Hle : (k <= k')%nat).
    { destruct (Nat.le_gt_cases k k') as [L|L]; [exact L|]. exfalso.
      apply (Hmin k' L i' a'); [eapply nth_error_In; eassumption | exact (proj1 Hfo')]. }
    split; [lia|]. intro Hj.
    assert (k <> k').
    { intro E. subst k'. destruct Hfl as (_ & _ & Hbefore). apply (Hbefore j' i' a' Hj Hn'). exact (proj1 Hfo'). }
    lia.
Qed.

Lemma skipn_split {A} n (l : list A) : l = firstn n l ++ skipn n l.
Proof. symmetry. apply firstn_skipn. Qed.

(** the whole find_skip form against the chain, in one statement *)
Lemma find_macro_chain_cases brs P :
  fits P -> str_shape (Parser.p_str P) -> arms_shaped (arms_of brs) ->
  (exists j i a Q, find_winner P (arms_of brs) j i a Q /\
                   find_macro AtStart brs (abs P) = (Some i, abs Q)) \/
  ((forall i a, In (i, a) (arms_of brs) -> exists e, Parser.step P (Parser.OFindSkip a) = Parser.PErr e) /\
   find_macro AtStart brs (abs P) = (None, abs P)).
Proof.
  intros Hf Hp Ha. rewrite (find_macro_start_cut brs (abs P) Hp Ha). cbn [abs p_rem].
  destruct (find_loop_start (arms_of brs) (Parser.p_str P)) as [[i r]|] eqn:E.
  - left. apply find_loop_start_some in E. destruct E as (k & j & a & Hfl & -> & Hmin).
    destruct (find_selected_wins P _ k j i a Hf Hfl Hmin) as (Q & HW & HQ).
    exists j, i, a, Q. split; [exact HW|]. f_equal.
    destruct HW as (_ & Hs & _). rewrite step_find in Hs.
    destruct (find_skip_m (Parser.p_str P) a) as [r|]; [|discriminate]. inversion Hs; subst Q.
    cbn [start_to Parser.p_str] in HQ. subst r. symmetry.
    apply (abs_start_to P (firstn (k + length a) (Parser.p_str P))); [exact Hf | apply skipn_split].
  - right. split; [|reflexivity]. intros i a Hin. apply step_find_err. intros k Hk.
    pose proof (proj1 (find_loop_start_none _ _) E k i a Hin). contradiction.
Qed.

(** find_eq_chain: the branch that runs is the winner's, the parser is what the winner's
    [Parser::find_skip] returned ... *)
Lemma find_macro_some brs P i q :
  fits P -> str_shape (Parser.p_str P) -> arms_shaped (arms_of brs) ->
  (find_macro AtStart brs (abs P) = (Some i, q) <->
   exists j a Q, find_winner P (arms_of brs) j i a Q /\ q = abs Q).
Proof.
  intros Hf Hp Ha.
  destruct (find_macro_chain_cases brs P Hf Hp Ha) as [(j0 & i0 & a0 & Q0 & HW & E)|[Hall E]]; rewrite E.
  - split.
    + intro H; inversion H; subst. now exists j0, a0, Q0.
    + intros (j & a & Q & HW' & ->).
      destruct (find_winner_unique _ _ _ _ _ _ _ _ _ _ HW HW') as (_ & -> & _ & ->). reflexivity.
  - split; [discriminate|]. intros (j & a & Q & (Hn & Hs & _) & _). exfalso.
    apply nth_error_In in Hn. destruct (Hall i a Hn) as [e He]. congruence.
Qed.

(** ... and the default branch runs, parser unchanged, exactly when every call fails *)
Lemma find_macro_none brs P q :
  fits P -> str_shape (Parser.p_str P) -> arms_shaped (arms_of brs) ->
  (find_macro AtStart brs (abs P) = (None, q) <->
   q = abs P /\ forall i a, In (i, a) (arms_of brs) ->
                  exists e, Parser.step P (Parser.OFindSkip a) = Parser.PErr e).
Proof.
  intros Hf Hp Ha.
  destruct (find_macro_chain_cases brs P Hf Hp Ha) as [(j0 & i0 & a0 & Q0 & HW & E)|[Hall E]]; rewrite E.
  - split; [discriminate|]. intros (_ & Hall). exfalso. destruct HW as (Hn & Hs & _).
    apply nth_error_In in Hn. destruct (Hall i0 a0 Hn) as [e He]. congruence.
  - split; [intro H; inversion H; auto | intros (-> & _); reflexivity].
Qed.

(* ------------------------------------------------------------------ rfind_skip *)

(** where the match consumed by [Parser::rfind_skip(a)] = [Ok Q] ended *)
Definition match_end (Q : Parser.parser) (a : list Z) : Z := Parser.end_offset Q + zlen a.

(** arm [j] = [(i, a)] wins the rfind_skip chain on [P] with result [Q]: its call returns
    [Ok Q] and every other call that returns Ok matched no later, and strictly earlier
    if it is listed before *)
Definition rfind_winner (P : Parser.parser) (arms : arm_list) (j i : nat) (a : list Z)
           (Q : Parser.parser) : Prop :=
  nth_error arms j = Some (i, a) /\
  Parser.step P (Parser.ORFindSkip a) = Parser.POk Parser.VNone Q /\
  forall j' i' a' Q', nth_error arms j' = Some (i', a') ->
    Parser.step P (Parser.ORFindSkip a') = Parser.POk Parser.VNone Q' ->
    match_end Q' a' <= match_end Q a /\ ((j' < j)%nat -> match_end Q' a' < match_end Q a).

Lemma rfind_winner_unique P arms j i a Q j2 i2 a2 Q2 :
  rfind_winner P arms j i a Q -> rfind_winner P arms j2 i2 a2 Q2 ->
  j = j2 /\ i = i2 /\ a = a2 /\ Q = Q2.
Proof.
  intros (Hn & Hs & Hw) (Hn2 & Hs2 & Hw2).
  destruct (Hw _ _ _ _ Hn2 Hs2) as [L1 S1]. destruct (Hw2 _ _ _ _ Hn Hs) as [L2 S2].
  assert (j = j2).
  { destruct (Nat.lt_trichotomy j j2) as [L|[E|L]]; [specialize (S2 L); lia | exact E | specialize (S1 L); lia]. }
  subst j2. rewrite Hn in Hn2. inversion Hn2; subst. rewrite Hs in Hs2. inversion Hs2. auto.
Qed.

Lemma match_end_firstn P a k : (k + length a <= length (Parser.p_str P))%nat ->
  match_end (Parser.mk_parser Parser.FromEnd (Parser.p_yls P) (Parser.p_start P) (firstn k (Parser.p_str P))) a
  = Parser.p_start P + Z.of_nat (k + length a).
Proof.
  intro Hk. unfold match_end, Parser.end_offset, zlen. cbn [Parser.p_start Parser.p_str].
  rewrite firstn_length. lia.
Qed.

(** the arm the backward scan loop selects wins the chain *)
Lemma rfind_selected_wins P arms e j i a :
  first_listed (fun a => occ_end (Parser.p_str P) a e) arms j i a ->
  (forall e', (e < e')%nat -> none_listed (fun a => occ_end (Parser.p_str P) a e') arms) ->
  rfind_winner P arms j i a (end_to P (firstn (e - length a) (Parser.p_str P))).
Proof.
  intros Hfl Hmax. destruct Hfl as (Hn & (k & Ho & Hk) & Hbefore).
  assert (Ek : (e - length a = k)%nat) by lia. rewrite Ek.
  assert (Hlo : last_occ (Parser.p_str P) a k).
  { split; [exact Ho|]. intros k2 Hk2 Ho2.
    apply (Hmax (k2 + length a)%nat ltac:(lia) i a); [eapply nth_error_In; eassumption | now exists k2]. }
  split; [exact Hn|]. split.
  - apply step_rfind_ok. exists k. split; [exact Hlo | reflexivity].
  - intros j' i' a' Q' Hn' Hs'. apply step_rfind_ok in Hs'. destruct Hs' as (k' & Hlo' & ->).
    unfold end_to. rewrite !match_end_firstn by (apply occ_bound; [exact (proj1 Hlo') || exact Ho]).
    assert (Hle : (k' + length a' <= e)%nat).
    { destruct (Nat.le_gt_cases (k' + length a') e) as [L|L]; [exact L|]. exfalso.
      apply (Hmax _ L i' a'); [eapply nth_error_In; eassumption | exists k'; split; [exact (proj1 Hlo') | reflexivity]]. }
    split; [lia|]. intro Hj.
    assert ((k' + length a')%nat <> e).
    { intro E. apply (Hbefore j' i' a' Hj Hn'). exists k'. split; [exact (proj1 Hlo') | exact E]. }
    lia.
Qed.

(** the whole rfind_skip form against the chain, in one statement *)
Lemma rfind_macro_chain_cases brs P :
  arms_shaped (arms_of brs) ->
  (exists j i a Q, rfind_winner P (arms_of brs) j i a Q /\
                   find_macro AtEnd brs (abs P) = (Some i, abs Q)) \/
  ((forall i a, In (i, a) (arms_of brs) -> exists e, Parser.step P (Parser.ORFindSkip a) = Parser.PErr e) /\
   find_macro AtEnd brs (abs P) = (None, abs P)).
Proof.
  intros Ha. rewrite (find_macro_end_cut brs (abs P) Ha). cbn [abs p_rem].
  destruct (find_loop_end (arms_of brs) (rev (Parser.p_str P))) as [[i r]|] eqn:E.
  - left. apply find_loop_end_some in E. destruct E as (e & j & a & Hfl & -> & Hmax).
    exists j, i, a, (end_to P (firstn (e - length a) (Parser.p_str P))).
    split; [exact (rfind_selected_wins P _ e j i a Hfl Hmax) | reflexivity].
  - right. split; [|reflexivity]. intros i a Hin. apply step_rfind_err. intros k Hk.
    apply (proj1 (find_loop_end_none _ _) E (k + length a)%nat i a Hin). now exists k.
Qed.

(** rfind_eq_chain *)
Lemma rfind_macro_some brs P i q :
  arms_shaped (arms_of brs) ->
  (find_macro AtEnd brs (abs P) = (Some i, q) <->
   exists j a Q, rfind_winner P (arms_of brs) j i a Q /\ q = abs Q).
Proof.
  intros Ha.
  destruct (rfind_macro_chain_cases brs P Ha) as [(j0 & i0 & a0 & Q0 & HW & E)|[Hall E]]; rewrite E.
  - split.
    + intro H; inversion H; subst. now exists j0, a0, Q0.
    + intros (j & a & Q & HW' & ->).
      destruct (rfind_winner_unique _ _ _ _ _ _ _ _ _ _ HW HW') as (_ & -> & _ & ->). reflexivity.
  - split; [discriminate|]. intros (j & a & Q & (Hn & Hs & _) & _). exfalso.
    apply nth_error_In in Hn. destruct (Hall i a Hn) as [e He]. congruence.
Qed.

Lemma rfind_macro_none brs P q :
  arms_shaped (arms_of brs) ->
  (find_macro AtEnd brs (abs P) = (None, q) <->
   q = abs P /\ forall i a, In (i, a) (arms_of brs) ->
                  exists e, Parser.step P (Parser.ORFindSkip a) = Parser.PErr e).
Proof.
  intros Ha.
  destruct (rfind_macro_chain_cases brs P Ha) as [(j0 & i0 & a0 & Q0 & HW & E)|[Hall E]]; rewrite E.
  - split; [discriminate|]. intros (_ & Hall). exfalso. destruct HW as (Hn & Hs & _).
    apply nth_error_In in Hn. destruct (Hall i0 a0 Hn) as [e He]. congruence.
  - split; [intro H; inversion H; auto | intros (-> & _); reflexivity].
Qed.

(* ------------------------------------------------------------------ strip_prefix / strip_suffix *)

Definition strip_op (s : side) (a : list Z) : Parser.pop :=
  match s with AtStart => Parser.OStripPrefix a | AtEnd => Parser.OStripSuffix a end.
Definition dir_of (s : side) : Parser.pdir :=
  match s with AtStart => Parser.FromStart | AtEnd => Parser.FromEnd end.

(** [Parser::strip_prefix(a)] / [strip_suffix(a)] returns Ok *)
Definition strip_ok (s : side) (P : Parser.parser) (a : list Z) : Prop :=
  exists Q, Parser.step P (strip_op s a) = Parser.POk Parser.VNone Q.

Definition after_strip (s : side) (P : Parser.parser) (a r : list Z) : Parser.parser :=
  match s with
  | AtStart => Parser.mk_parser Parser.FromStart (Parser.p_yls P) (Parser.p_start P + zlen a) r
  | AtEnd => Parser.mk_parser Parser.FromEnd (Parser.p_yls P) (Parser.p_start P) r
  end.

Lemma step_strip_ok s P a Q : fits_for s P ->
  (Parser.step P (strip_op s a) = Parser.POk Parser.VNone Q <->
   exists r, splits (end_of s) a (Parser.p_str P) r /\ Q = after_strip s P a r).
Proof.
  intro Hf. destruct s; cbn [strip_op end_of splits after_strip fits_for] in *.
  - rewrite step_strip_prefix. split.
    + destruct (strip_prefix_m (Parser.p_str P) a) as [r|] eqn:E; [|discriminate].
      apply strip_prefix_m_spec in E. intro H; inversion H; subst Q. exists r. split; [exact E|].
      apply (start_to_eq P a r Hf E).
    + intros (r & E & ->). pose proof (proj2 (strip_prefix_m_spec _ _ _) E) as E'. rewrite E'.
      now rewrite (start_to_eq P a r Hf E).
  - rewrite step_strip_suffix. split.
    + destruct (strip_suffix_m (Parser.p_str P) a) as [r|] eqn:E; [|discriminate].
      apply strip_suffix_m_spec in E. intro H; inversion H; subst Q. now exists r.
    + intros (r & E & ->). pose proof (proj2 (strip_suffix_m_spec _ _ _) E) as E'. now rewrite E'.
Qed.

Lemma abs_after_strip s P a r : splits (end_of s) a (Parser.p_str P) r ->
  P_strip (end_of s) (abs P) a (abs (after_strip s P a r)).
Proof. intro E. destruct s; cbn [end_of splits P_strip after_strip] in *; exists r; split; [exact E | reflexivity | exact E | reflexivity]. Qed.

(** the list-vocabulary [P_strip] of Spec/ParserChain.v is the executable method *)
Lemma P_strip_step s P a q : fits_for s P ->
  (P_strip (end_of s) (abs P) a q <->
   exists Q, Parser.step P (strip_op s a) = Parser.POk Parser.VNone Q /\ q = abs Q).
Proof.
  intro Hf. split.
  - intro H. assert (Hs : exists r, splits (end_of s) a (Parser.p_str P) r).
    { destruct s; cbn [end_of P_strip splits] in *; destruct H as (r & E & _); now exists r. }
    destruct Hs as [r Hr]. exists (after_strip s P a r). split.
    + apply (step_strip_ok s P a _ Hf). now exists r.
    + eapply P_strip_fun; [exact H | now apply abs_after_strip].
  - intros (Q & Hs & ->). apply (step_strip_ok s P a Q Hf) in Hs. destruct Hs as (r & Hr & ->).
    now apply abs_after_strip.
Qed.

Lemma strip_ok_P_strip s P a : fits_for s P ->
  ((exists q', P_strip (end_of s) (abs P) a q') <-> strip_ok s P a).
Proof.
  intro Hf. unfold strip_ok. split.
  - intros (q' & H). apply (P_strip_step s P a q' Hf) in H. destruct H as (Q & H & _). now exists Q.
  - intros (Q & H). exists (abs Q). apply (P_strip_step s P a _ Hf). now exists Q.
Qed.

Lemma strip_ok_matches s P a : fits_for s P -> (strip_ok s P a <-> matches (end_of s) a (Parser.p_str P)).
Proof.
  intro Hf. rewrite <- (strip_ok_P_strip s P a Hf). apply (P_strip_matches (end_of s) (abs P) a).
Qed.

(** strip_eq_chain on Model.Parser: the if-else chain of strip_prefix (strip_suffix) calls *)
Lemma strip_macro_step_some s brs P i q :
  fits_for s P -> str_shape (Parser.p_str P) -> arms_shaped (arms_of brs) ->
  (strip_macro s brs (abs P) = (Some i, q) <->
   exists j a Q, first_listed (strip_ok s P) (arms_of brs) j i a /\
                 Parser.step P (strip_op s a) = Parser.POk Parser.VNone Q /\ q = abs Q).
Proof.
  intros Hf Hp Ha. rewrite (strip_macro_some s brs (abs P) i q Hp Ha). split.
  - intros (j & a & Hfl & Hq). apply (P_strip_step s P a q Hf) in Hq. destruct Hq as (Q & Hs & ->).
    exists j, a, Q. split; [|now split].
    eapply first_listed_ext; [|exact Hfl]. intro x. symmetry. apply (strip_ok_P_strip s P x Hf).
  - intros (j & a & Q & Hfl & Hs & ->). exists j, a. split.
    + eapply first_listed_ext; [|exact Hfl]. intro x. apply (strip_ok_P_strip s P x Hf).
    + apply (P_strip_step s P a _ Hf). now exists Q.
Qed.

Lemma strip_macro_step_none s brs P q :
  fits_for s P ->
  (strip_macro s brs (abs P) = (None, q) <-> q = abs P /\ none_listed (strip_ok s P) (arms_of brs)).
Proof.
  intro Hf. rewrite (strip_macro_none s brs (abs P) q).
  assert (H : none_listed (fun a => exists q', P_strip (end_of s) (abs P) a q') (arms_of brs) <->
              none_listed (strip_ok s P) (arms_of brs)).
  { apply none_listed_ext. intro x. apply (strip_ok_P_strip s P x Hf). }
  now rewrite H.
Qed.

(* ------------------------------------------------------------------ trim_start_matches / trim_end_matches *)

(** the loop of Parser calls a trim form stands for:
      loop { if      let Ok(q) = p.strip_prefix(A0) { if A0.is_empty() {break}; p = q }
             else if let Ok(q) = p.strip_prefix(A1) { if A1.is_empty() {break}; p = q }
             ..
             else { break } }
      p.parse_direction = FromStart;
    (strip_suffix / FromEnd for trim_end_matches) *)
Inductive trim_chain (s : side) (arms : arm_list) : Parser.parser -> Parser.parser -> Prop :=
| tc_none P :
    none_listed (strip_ok s P) arms -> trim_chain s arms P (Parser.set_dir P (dir_of s))
| tc_empty P j i :
    first_listed (strip_ok s P) arms j i [] -> trim_chain s arms P (Parser.set_dir P (dir_of s))
| tc_step P j i a Q out :
    first_listed (strip_ok s P) arms j i a -> a <> [] ->
    Parser.step P (strip_op s a) = Parser.POk Parser.VNone Q ->
    trim_chain s arms Q out -> trim_chain s arms P out.

Lemma abs_set_dir s P : abs (Parser.set_dir P (dir_of s)) = cut s (abs P) (Parser.p_str P).
Proof. destruct s; unfold abs, cut; cbn; [f_equal; lia | reflexivity]. Qed.

Lemma fits_after_strip s P a r : fits_for s P -> splits (end_of s) a (Parser.p_str P) r ->
  fits_for s (after_strip s P a r).
Proof.
  destruct s; cbn [fits_for end_of splits after_strip]; [|auto]. intros [H0 H1] E.
  rewrite E, zlen_app in H1. unfold fits. cbn. pose proof (zlen_nonneg a). lia.
Qed.

Lemma cut_after_strip s P a r x : splits (end_of s) a (Parser.p_str P) r ->
  cut s (abs (after_strip s P a r)) x = cut s (abs P) x.
Proof.
  destruct s; cbn [end_of splits after_strip]; intro E; unfold cut, abs; cbn; [|reflexivity].
  rewrite E, zlen_app. f_equal. lia.
Qed.

Lemma trim_chain_sound s arms P Q : trim_chain s arms P Q -> fits_for s P ->
  trims (end_of s) arms (Parser.p_str P) (Parser.p_str Q) /\ abs Q = cut s (abs P) (Parser.p_str Q).
Proof.
  induction 1 as [P Hn | P j i Hfl | P j i a Q out Hfl Hne Hs _ IH]; intro Hf.
  - change (Parser.p_str (Parser.set_dir P (dir_of s))) with (Parser.p_str P).
    split; [|apply abs_set_dir]. apply trims_none.
    eapply none_listed_ext; [|exact Hn]. intro x. symmetry. apply (strip_ok_matches s P x Hf).
  - change (Parser.p_str (Parser.set_dir P (dir_of s))) with (Parser.p_str P).
    split; [|apply abs_set_dir]. apply (trims_empty _ _ _ j i).
    eapply first_listed_ext; [|exact Hfl]. intro x. symmetry. apply (strip_ok_matches s P x Hf).
  - apply (step_strip_ok s P a Q Hf) in Hs. destruct Hs as (r & Hr & ->).
    destruct (IH (fits_after_strip s P a r Hf Hr)) as [IH1 IH2].
    rewrite (cut_after_strip s P a r _ Hr) in IH2. split; [|exact IH2].
    apply (trims_step _ _ _ j i a r); [|exact Hne|exact Hr|].
    + eapply first_listed_ext; [|exact Hfl]. intro x. symmetry. apply (strip_ok_matches s P x Hf).
    + destruct s; exact IH1.
Qed.

Lemma trim_chain_complete s arms bytes out : trims (end_of s) arms bytes out ->
  forall P, Parser.p_str P = bytes -> fits_for s P ->
  exists Q, trim_chain s arms P Q /\ Parser.p_str Q = out.
Proof.
  induction 1 as [bytes Hn | bytes j i Hfl | bytes j i a r out Hfl Hne Hr _ IH]; intros P EP Hf; subst bytes.
  - exists (Parser.set_dir P (dir_of s)). split; [|reflexivity]. apply tc_none.
    eapply none_listed_ext; [|exact Hn]. intro x. apply (strip_ok_matches s P x Hf).
  - exists (Parser.set_dir P (dir_of s)). split; [|reflexivity]. apply (tc_empty _ _ _ j i).
    eapply first_listed_ext; [|exact Hfl]. intro x. apply (strip_ok_matches s P x Hf).
  - destruct (IH (after_strip s P a r)) as (Q & HQ & EQ);
      [destruct s; reflexivity | now apply fits_after_strip |].
    exists Q. split; [|exact EQ]. apply (tc_step _ _ _ j i a (after_strip s P a r)); [|exact Hne| |exact HQ].
    + eapply first_listed_ext; [|exact Hfl]. intro x. apply (strip_ok_matches s P x Hf).
    + apply (step_strip_ok s P a _ Hf). now exists r.
Qed.

(** trim_eq_chain: the parser after the trim form is the parser after the loop *)
Lemma trim_macro_chain s alts P q :
  fits_for s P -> str_shape (Parser.p_str P) -> arms_shaped (arms_of [alts]) ->
  (trim_macro s alts (abs P) = Some q <->
   exists Q, trim_chain s (arms_of [alts]) P Q /\ q = abs Q).
Proof.
  intros Hf Hp Ha. destruct (trim_macro_cut s alts (abs P) Hp Ha) as (out & Ht & E). rewrite E.
  cbn [abs p_rem] in Ht. split.
  - intro H; inversion H; subst q.
    destruct (trim_chain_complete s _ _ _ Ht P eq_refl Hf) as (Q & HQ & EQ).
    exists Q. split; [exact HQ|]. destruct (trim_chain_sound s _ P Q HQ Hf) as [_ EA]. now rewrite EA, EQ.
  - intros (Q & HQ & ->). destruct (trim_chain_sound s _ P Q HQ Hf) as [Ht' EA].
    rewrite (trims_functional _ _ _ _ _ Ht Ht'). now rewrite EA.
Qed.

(** the loop always terminates with a parser *)
Lemma trim_chain_total s arms P : fits_for s P -> exists Q, trim_chain s arms P Q.
Proof.
  intro Hf. destruct (trims_total (end_of s) arms (S (length (Parser.p_str P))) (Parser.p_str P) ltac:(lia)) as [out Ht].
  destruct (trim_chain_complete s arms _ _ Ht P eq_refl Hf) as (Q & HQ & _). now exists Q.
Qed.

(* ------------------------------------------------------------------ one alternative: the method itself *)

Definition trim_op (s : side) (a : list Z) : Parser.pop :=
  match s with AtStart => Parser.OTrimStartMatches a | AtEnd => Parser.OTrimEndMatches a end.

Lemma nth_error_single {A} (x y : A) j : nth_error [x] j = Some y -> j = 0%nat /\ x = y.
Proof.
  destruct j as [|j]; cbn [nth_error].
  - intro H; inversion H; auto.
  - destruct j; discriminate.
Qed.

Lemma trims_single_nil e i0 bytes out : trims e [(i0, [])] bytes out -> out = bytes.
Proof.
  induction 1 as [bytes Hn | bytes j i Hfl | bytes j i a r out (Hnth & _) Hne _ _ _]; try reflexivity.
  apply nth_error_single in Hnth. destruct Hnth as [_ E]. inversion E. congruence.
Qed.

Lemma trims_single_front i0 a bytes out : a <> [] ->
  trims Front [(i0, a)] bytes out -> trim_start_spec bytes a out.
Proof.
  intro Hne. induction 1 as [bytes Hn | bytes j i (Hnth & _) | bytes j i a' r out (Hnth & _) _ Hr _ IH].
  - exists 0%nat. split; [reflexivity|]. intros [r Hr]. apply (Hn i0 a); [now left | now exists r].
  - apply nth_error_single in Hnth. destruct Hnth as [_ E]. inversion E. congruence.
  - apply nth_error_single in Hnth. destruct Hnth as [_ E]. inversion E; subst a'.
    destruct IH as (k & Ek & Hk). exists (S k). split; [|exact Hk].
    cbn [splits] in Hr. rewrite Hr, Ek, reps_S. now rewrite app_assoc.
Qed.

Lemma trims_single_back i0 a bytes out : a <> [] ->
  trims Back [(i0, a)] bytes out -> trim_end_spec bytes a out.
Proof.
  intro Hne. induction 1 as [bytes Hn | bytes j i (Hnth & _) | bytes j i a' r out (Hnth & _) _ Hr _ IH].
  - exists 0%nat. split; [cbn; now rewrite app_nil_r|]. intros [r Hr]. apply (Hn i0 a); [now left | now exists r].
  - apply nth_error_single in Hnth. destruct Hnth as [_ E]. inversion E. congruence.
  - apply nth_error_single in Hnth. destruct Hnth as [_ E]. inversion E; subst a'.
    destruct IH as (k & Ek & Hk). exists (S k). split; [|exact Hk].
    cbn [splits] in Hr. rewrite Hr, Ek, reps_S_r. now rewrite app_assoc.
Qed.

(** with one alternative the trimming relation is the free function's result *)
Lemma trims_single_fn s i0 a bytes out : trims (end_of s) [(i0, a)] bytes out ->
  match s with
  | AtStart => trim_start_matches_m bytes a
  | AtEnd => trim_end_matches_m bytes a
  end = Some out.
Proof.
  intro H. destruct a as [|c a'].
  - apply trims_single_nil in H. subst out.
    destruct s; [apply trim_start_matches_empty | apply trim_end_matches_empty].
  - destruct s; cbn [end_of] in H.
    + apply trim_start_matches_correct; [discriminate|]. eapply trims_single_front; [discriminate | exact H].
    + apply trim_end_matches_correct; [discriminate|]. eapply trims_single_back; [discriminate | exact H].
Qed.

(** trim_single_eq_method: parser_method!{p, trim_start_matches; A} is p.trim_start_matches(A)
    (and the same for trim_end_matches) *)
Lemma trim_macro_single s a P :
  fits_for s P -> str_shape (Parser.p_str P) -> str_shape a ->
  exists Q, Parser.step P (trim_op s a) = Parser.POk Parser.VNone Q /\
            trim_macro s [a] (abs P) = Some (abs Q).
Proof.
  intros Hf Hp Hsa.
  assert (Ha : arms_shaped (arms_of [[a]])).
  { intros i x [E|[]]. inversion E; subst. exact Hsa. }
  destruct (trim_macro_cut s [a] (abs P) Hp Ha) as (out & Ht & E). rewrite E.
  cbn [abs p_rem] in Ht. change (arms_of [[a]]) with [(0%nat, a)] in Ht, Ha.
  pose proof (trims_single_fn s 0%nat a _ _ Ht) as Hfn.
  destruct s; cbn [trim_op end_of fits_for] in *.
  - rewrite step_trim_start, Hfn. cbn [Parser.unwrap_trim]. eexists. split; [reflexivity|]. f_equal.
    destruct (trims_front_shape _ _ _ Ha Ht Hp) as (_ & x & Ex). symmetry. now apply (abs_start_to P x out).
  - rewrite step_trim_end, Hfn. cbn [Parser.unwrap_trim]. eexists. split; [reflexivity|]. reflexivity.
Qed.

(* ------------------------------------------------------------------ the flag is not touched *)

(** the one field [abs] forgets is left alone by every call of the chains, so the
    equalities above are equalities of whole parsers *)
Lemma find_keeps_flag P a Q :
  Parser.step P (Parser.OFindSkip a) = Parser.POk Parser.VNone Q -> Parser.p_yls Q = Parser.p_yls P.
Proof. rewrite step_find. destruct (find_skip_m _ _); [|discriminate]. intro H; inversion H; reflexivity. Qed.
Lemma rfind_keeps_flag P a Q :
  Parser.step P (Parser.ORFindSkip a) = Parser.POk Parser.VNone Q -> Parser.p_yls Q = Parser.p_yls P.
Proof. rewrite step_rfind. destruct (rfind_skip_m _ _); [|discriminate]. intro H; inversion H; reflexivity. Qed.
Lemma strip_keeps_flag s P a Q :
  Parser.step P (strip_op s a) = Parser.POk Parser.VNone Q -> Parser.p_yls Q = Parser.p_yls P.
Proof.
  destruct s; cbn [strip_op]; [rewrite step_strip_prefix; destruct (strip_prefix_m _ _)
                              | rewrite step_strip_suffix; destruct (strip_suffix_m _ _)];
    try discriminate; intro H; inversion H; reflexivity.
Qed.
Lemma trim_keeps_flag s P a Q :
  Parser.step P (trim_op s a) = Parser.POk Parser.VNone Q -> Parser.p_yls Q = Parser.p_yls P.
Proof. destruct s; cbn [trim_op]; [rewrite step_trim_start | rewrite step_trim_end]; intro H; inversion H; reflexivity. Qed.
Lemma trim_chain_keeps_flag s arms P Q : trim_chain s arms P Q -> Parser.p_yls Q = Parser.p_yls P.
Proof.
  induction 1 as [P _ | P j i _ | P j i a Q out _ _ Hs _ IH]; try reflexivity.
  rewrite IH. eapply strip_keeps_flag; eassumption.
Qed.

(** a Model.Parser parser is its macro-model view plus the flag *)
Lemma abs_inj P Q : abs P = abs Q -> Parser.p_yls P = Parser.p_yls Q -> P = Q.
Proof.
  destruct P as [d y st s], Q as [d' y' st' s']. unfold abs. cbn. intros H ->. inversion H; subst.
  destruct d, d'; cbn in *; try discriminate; reflexivity.
Qed.

(* ------------------------------------------------------------------ the find chains as programs *)

Section BestChain.
  Variable op : list Z -> Parser.pop.
  Variable score : Parser.parser -> list Z -> Z.      (* smaller is better *)

  Definition chain_winner (P : Parser.parser) (arms : arm_list) (j i : nat) (a : list Z)
             (Q : Parser.parser) : Prop :=
    nth_error arms j = Some (i, a) /\
    Parser.step P (op a) = Parser.POk Parser.VNone Q /\
    forall j' i' a' Q', nth_error arms j' = Some (i', a') ->
      Parser.step P (op a') = Parser.POk Parser.VNone Q' ->
      score Q a <= score Q' a' /\ ((j' < j)%nat -> score Q a < score Q' a').

  (** call the method with every alternative ON THE SAME PARSER; keep the best result,
      the earlier listed alternative on ties; [None]: every call failed *)
  Fixpoint best_chain (P : Parser.parser) (arms : arm_list) : option (nat * list Z * Parser.parser) :=
    match arms with
    | [] => None
    | (i, a) :: t =>
        match Parser.step P (op a) with
        | Parser.POk Parser.VNone Q =>
            match best_chain P t with
            | Some (i', a', Q') =>
                if score Q' a' <? score Q a then Some (i', a', Q') else Some (i, a, Q)
            | None => Some (i, a, Q)
            end
        | _ => best_chain P t
        end
    end.

  Lemma best_chain_none P arms : best_chain P arms = None ->
    forall i a Q, In (i, a) arms -> Parser.step P (op a) <> Parser.POk Parser.VNone Q.
  Proof.
    induction arms as [|[i0 a0] t IH]; intros H i a Q Hin; [destruct Hin|].
    cbn [best_chain] in H. destruct Hin as [E|Hin].
    - inversion E; subst. intro Hs. rewrite Hs in H.
      destruct (best_chain P t) as [[[i' a'] Q']|]; [|discriminate].
      destruct (score Q' a' <? score Q a); discriminate.
    - refine (IH _ i a Q Hin).
      destruct (Parser.step P (op a0)) as [v Q0|e|]; try exact H.
      destruct v; try exact H.
      destruct (best_chain P t) as [[[i' a'] Q']|]; [|discriminate].
      destruct (score Q' a' <? score Q0 a0); discriminate.
  Qed.

  Lemma winner_skip_failed P i0 a0 t j i a Q :
    (forall Q0, Parser.step P (op a0) <> Parser.POk Parser.VNone Q0) ->
    chain_winner P t j i a Q -> chain_winner P ((i0, a0) :: t) (S j) i a Q.
  Proof.
    intros Hfail (Hn & Hs & Hw). split; [exact Hn|]. split; [exact Hs|].
    intros [|j'] i' a' Q' Hn' Hs'; cbn [nth_error] in Hn'.
    - inversion Hn'; subst. exfalso. exact (Hfail _ Hs').
    - destruct (Hw j' i' a' Q' Hn' Hs') as [L S']. split; [exact L|]. intro Hj. apply S'. lia.
  Qed.

  Lemma best_chain_some P arms : forall i a Q, best_chain P arms = Some (i, a, Q) ->
    exists j, chain_winner P arms j i a Q.
  Proof.
    induction arms as [|[i0 a0] t IH]; intros i a Q H; [discriminate|].
    cbn [best_chain] in H.
    destruct (Parser.step P (op a0)) as [v Q0|e|] eqn:Es.
    2,3: destruct (IH i a Q H) as [j Hj]; exists (S j); apply winner_skip_failed; [intros Q0 C; congruence | exact Hj].
    destruct v.
    2,3,4: destruct (IH i a Q H) as [j Hj]; exists (S j); apply winner_skip_failed; [intros Q1 C; congruence | exact Hj].
    destruct (best_chain P t) as [[[i' a'] Q']|] eqn:Eb.
    - destruct (IH i' a' Q' eq_refl) as (j' & Hn' & Hs' & Hw').
      destruct (Z.ltb_spec (score Q' a') (score Q0 a0)) as [Hlt|Hge]; inversion H; subst.
      + exists (S j'). split; [exact Hn'|]. split; [exact Hs'|].
        intros [|j2] i2 a2 Q2 Hn2 Hs2; cbn [nth_error] in Hn2.
        * inversion Hn2; subst. rewrite Es in Hs2. inversion Hs2; subst. split; [lia | intros _; exact Hlt].
        * destruct (Hw' j2 i2 a2 Q2 Hn2 Hs2) as [L S']. split; [exact L|]. intro Hj. apply S'. lia.
      + exists 0%nat. split; [reflexivity|]. split; [exact Es|].
        intros [|j2] i2 a2 Q2 Hn2 Hs2; cbn [nth_error] in Hn2.
        * inversion Hn2; subst. rewrite Es in Hs2. inversion Hs2; subst. split; [lia | intro; lia].
        * destruct (Hw' j2 i2 a2 Q2 Hn2 Hs2) as [L _]. split; [lia | intro; lia].
    - inversion H; subst. exists 0%nat. split; [reflexivity|]. split; [exact Es|].
      intros [|j2] i2 a2 Q2 Hn2 Hs2; cbn [nth_error] in Hn2.
      + inversion Hn2; subst. rewrite Es in Hs2. inversion Hs2; subst. split; [lia | intro; lia].
      + exfalso. apply nth_error_In in Hn2. exact (best_chain_none P t Eb i2 a2 Q2 Hn2 Hs2).
  Qed.
End BestChain.

Definition find_chain : Parser.parser -> arm_list -> option (nat * list Z * Parser.parser) :=
  best_chain Parser.OFindSkip match_start.
(** latest end = smallest negated end *)
Definition rfind_chain : Parser.parser -> arm_list -> option (nat * list Z * Parser.parser) :=
  best_chain Parser.ORFindSkip (fun Q a => - match_end Q a).

Lemma find_winner_generic P arms j i a Q :
  chain_winner Parser.OFindSkip match_start P arms j i a Q <-> find_winner P arms j i a Q.
Proof. reflexivity. Qed.

Lemma rfind_winner_generic P arms j i a Q :
  chain_winner Parser.ORFindSkip (fun Q a => - match_end Q a) P arms j i a Q <-> rfind_winner P arms j i a Q.
Proof.
  unfold chain_winner, rfind_winner. split; intros (Hn & Hs & Hw); (split; [exact Hn|]); (split; [exact Hs|]);
    intros j' i' a' Q' Hn' Hs'; destruct (Hw j' i' a' Q' Hn' Hs') as [L S']; (split; [lia|]); intro Hj; specialize (S' Hj); lia.
Qed.

Lemma step_find_cases P a :
  (exists Q, Parser.step P (Parser.OFindSkip a) = Parser.POk Parser.VNone Q) \/
  (exists e, Parser.step P (Parser.OFindSkip a) = Parser.PErr e).
Proof. rewrite step_find. destruct (find_skip_m _ _); eauto. Qed.
Lemma step_rfind_cases P a :
  (exists Q, Parser.step P (Parser.ORFindSkip a) = Parser.POk Parser.VNone Q) \/
  (exists e, Parser.step P (Parser.ORFindSkip a) = Parser.PErr e).
Proof. rewrite step_rfind. destruct (rfind_skip_m _ _); eauto. Qed.

(** find_eq_chain, as an equation between two programs *)
Lemma find_macro_eq_chain brs P :
  fits P -> str_shape (Parser.p_str P) -> arms_shaped (arms_of brs) ->
  find_macro AtStart brs (abs P) =
  match find_chain P (arms_of brs) with
  | Some (i, _, Q) => (Some i, abs Q)
  | None => (None, abs P)
  end.
Proof.
  intros Hf Hp Ha. destruct (find_chain P (arms_of brs)) as [[[i a] Q]|] eqn:E.
  - apply best_chain_some in E. destruct E as [j HW].
    apply (find_macro_some brs P i (abs Q) Hf Hp Ha). exists j, a, Q. split; [exact HW | reflexivity].
  - apply (find_macro_none brs P (abs P) Hf Hp Ha). split; [reflexivity|]. intros i a Hin.
    destruct (step_find_cases P a) as [[Q HQ]|He]; [|exact He].
    exfalso. exact (best_chain_none _ _ P _ E i a Q Hin HQ).
Qed.

Lemma rfind_macro_eq_chain brs P :
  arms_shaped (arms_of brs) ->
  find_macro AtEnd brs (abs P) =
  match rfind_chain P (arms_of brs) with
  | Some (i, _, Q) => (Some i, abs Q)
  | None => (None, abs P)
  end.
Proof.
  intros Ha. destruct (rfind_chain P (arms_of brs)) as [[[i a] Q]|] eqn:E.
  - apply best_chain_some in E. destruct E as [j HW]. apply rfind_winner_generic in HW.
    apply (rfind_macro_some brs P i (abs Q) Ha). exists j, a, Q. split; [exact HW | reflexivity].
  - apply (rfind_macro_none brs P (abs P) Ha). split; [reflexivity|]. intros i a Hin.
    destruct (step_rfind_cases P a) as [[Q HQ]|He]; [|exact He].
    exfalso. exact (best_chain_none _ _ P _ E i a Q Hin HQ).
Qed.

(* ------------------------------------------------------------------ examples *)

(** the earliest START wins, not the longest remainder: "abc" | "b" on "abc" *)
Lemma find_not_longest_remainder :
  let P := Parser.parser_new [97; 98; 99] in
  find_macro AtStart [[[97; 98; 99]]; [[98]]] (abs P) = (Some 0%nat, mkP [] 3 FromStart) /\
  Parser.step P (Parser.OFindSkip [98]) =
    Parser.POk Parser.VNone (Parser.mk_parser Parser.FromStart false 2 [99]).
Proof. split; vm_compute; reflexivity. Qed.

Lemma fits_new s : zlen s < 4294967296 -> fits (Parser.parser_new s).
Proof. intro H. unfold fits. cbn. lia. Qed.

(* ------------------------------------------------------------------ the macro's own two calls *)
(** the expansion writes the parser with [p.skip(n)] / [p.skip_back(n)]; the macro model's
    copies of these two methods (skip_m, skip_back_m) are Model.Parser's, on byte values *)
From KV Require Model.Utf8 Model.Split.

Definition is_byte (b : Z) : Prop := 0 <= b < 256.

Lemma boundary_not_cont b : is_byte b -> Utf8.byte_is_boundary b = negb (is_cont b).
Proof.
  unfold is_byte, Utf8.byte_is_boundary, Utf8.as_i8, is_cont. intro H.
  destruct (Z.ltb_spec b 128); destruct (Z.leb_spec 128 b); destruct (Z.ltb_spec b 192); cbn [andb negb];
    try lia; apply Z.leb_le || apply Z.leb_gt; lia.
Qed.

Lemma count_cont_round_up l : Forall is_byte l -> Split.count_cont l = round_up l.
Proof.
  induction 1 as [|b l Hb _ IH]; [reflexivity|]. cbn [Split.count_cont round_up].
  rewrite (boundary_not_cont b Hb). destruct (is_cont b); cbn [negb]; [now rewrite IH | reflexivity].
Qed.

Lemma round_up_le l : (round_up l <= length l)%nat.
Proof. induction l as [|b l IH]; cbn [round_up length]; [lia|]. destruct (is_cont b); lia. Qed.

Lemma Forall_skipn {A} (Pr : A -> Prop) n l : Forall Pr l -> Forall Pr (skipn n l).
Proof.
  intro H. revert n. induction H as [|x l Hx Hl IH]; intro n; [rewrite skipn_nil; constructor|].
  destruct n; cbn [skipn]; [now constructor | apply IH].
Qed.

(** [Parser::skip] *)
Lemma skip_m_is_step P n : fits P -> Forall is_byte (Parser.p_str P) ->
  exists Q, Parser.step P (Parser.OSkip n) = Parser.POk Parser.VNone Q /\
            abs Q = skip_m (abs P) n /\ Parser.p_yls Q = Parser.p_yls P.
Proof.
  intros [H0 H1] Hb. eexists. split; [reflexivity|]. split; [|reflexivity].
  unfold skip_m, abs. cbn [p_rem p_off Parser.p_str Parser.p_start Parser.p_dir abs_dir].
  unfold Parser.boundary_up. rewrite (count_cont_round_up _ (Forall_skipn _ (Z.to_nat n) _ Hb)).
  set (bc := if zlen (Parser.p_str P) <? n then length (Parser.p_str P)
             else (Z.to_nat n + round_up (skipn (Z.to_nat n) (Parser.p_str P)))%nat).
  assert (Hbc : (bc <= length (Parser.p_str P))%nat).
  { unfold bc. destruct (Z.ltb_spec (zlen (Parser.p_str P)) n) as [L|L]; [lia|].
    pose proof (round_up_le (skipn (Z.to_nat n) (Parser.p_str P))) as Hr. rewrite skipn_length in Hr.
    unfold zlen in L. lia. }
  unfold zlen in H1. rewrite (u32_id (Z.of_nat bc)) by lia. rewrite u32_id by lia. reflexivity.
Qed.

Lemma round_down_past s pos : (length s <= pos)%nat -> round_down s pos = length s.
Proof.
  induction pos as [|p IH]; intro H; cbn [round_down]; [lia|].
  unfold is_boundary_at. rewrite (skipn_all2 s) by lia.
  destruct (Nat.eqb_spec (S p) (length s)) as [E|N]; [exact E | apply IH; lia].
Qed.

Lemma skipn_nth_cons (s : list Z) m : (m < length s)%nat -> skipn m s = nth m s 0 :: skipn (S m) s.
Proof.
  revert m. induction s as [|x s IH]; intros m H; cbn [length] in H; [lia|].
  destruct m; [reflexivity|]. cbn [skipn nth]. apply IH. lia.
Qed.

Lemma firstn_S_snoc (s : list Z) m : (m < length s)%nat -> firstn (S m) s = firstn m s ++ [nth m s 0].
Proof.
  revert m. induction s as [|x s IH]; intros m H; cbn [length] in H; [lia|].
  destruct m; [reflexivity|]. cbn [firstn nth app]. f_equal. apply IH. lia.
Qed.

Lemma Forall_nth_byte s m : Forall is_byte s -> (m < length s)%nat -> is_byte (nth m s 0).
Proof. intros H Hm. rewrite Forall_forall in H. apply H. now apply nth_In. Qed.

Lemma round_down_count s : Forall is_byte s -> forall pos, (pos < length s)%nat ->
  (Split.count_cont (rev (firstn (S pos) s)) <= pos)%nat ->
  round_down s pos = (pos - Split.count_cont (rev (firstn (S pos) s)))%nat.
Proof.
  intros Hb. induction pos as [|p IH]; intros Hp Hk; [reflexivity|].
  rewrite (firstn_S_snoc s (S p) Hp), rev_app_distr in Hk |- *. cbn [rev app Split.count_cont] in Hk |- *.
  cbn [round_down]. unfold is_boundary_at. rewrite (skipn_nth_cons s (S p) Hp).
  rewrite (boundary_not_cont _ (Forall_nth_byte s (S p) Hb Hp)) in Hk |- *.
  destruct (is_cont (nth (S p) s 0)); cbn [negb] in Hk |- *; [|lia].
  rewrite IH by lia. lia.
Qed.

(** [Parser::skip_back]; where Model.Parser reports the [pos -= 1] underflow ([PPanic],
    impossible for a &str: C01's skip_back_no_panic) the macro model has no parser *)
Lemma skip_back_m_is_step P n Q : Forall is_byte (Parser.p_str P) ->
  Parser.step P (Parser.OSkipBack n) = Parser.POk Parser.VNone Q ->
  abs Q = skip_back_m (abs P) n /\ Parser.p_yls Q = Parser.p_yls P.
Proof.
  intros Hb. cbn [Parser.step]. set (pos := Z.to_nat (Z.max 0 (zlen (Parser.p_str P) - n))).
  destruct (Parser.boundary_down (Parser.p_str P) pos) as [k|] eqn:E; [|discriminate].
  intro H; inversion H; subst Q. split; [|reflexivity].
  unfold skip_back_m, abs. cbn [p_rem p_off Parser.p_str Parser.p_start Parser.p_dir abs_dir]. fold pos.
  f_equal. unfold Parser.boundary_down in E.
  destruct (Nat.leb_spec (length (Parser.p_str P)) pos) as [L|L].
  - inversion E; subst k. rewrite (round_down_past _ _ L). now rewrite firstn_all, firstn_all2.
  - destruct (Nat.leb_spec (Split.count_cont (rev (firstn (S pos) (Parser.p_str P)))) pos) as [L2|L2]; [|discriminate].
    inversion E; subst k. now rewrite (round_down_count _ Hb pos L L2).
Qed.

(** so the write-back of every form, [set_rem], is the Parser call the expansion makes *)
Lemma set_rem_is_step s P r Q : fits_for s P -> Forall is_byte (Parser.p_str P) ->
  Parser.step P (match s with
                 | AtStart => Parser.OSkip (zlen (Parser.p_str P) - zlen r)
                 | AtEnd => Parser.OSkipBack (zlen (Parser.p_str P) - zlen r)
                 end) = Parser.POk Parser.VNone Q ->
  abs Q = set_rem s (abs P) r.
Proof.
  intros Hf Hb Hs. destruct s; cbn [set_rem fits_for] in *.
  - destruct (skip_m_is_step P (zlen (Parser.p_str P) - zlen r) Hf Hb) as (Q' & Hs' & E & _).
    rewrite Hs in Hs'. inversion Hs'; subst Q'. exact E.
  - exact (proj1 (skip_back_m_is_step P _ Q Hb Hs)).
Qed.
