(** Step 2 of C10: the compositional semantics of the expansion equals the std chain,
    provided no reversing method follows a positional adapter or an unbalanced zip. *)
From KV Require Import Base.Prelude Base.Deque Model.Dsl Spec.Dsl Proofs.DslFusion.
Local Open Scope nat_scope.

(* ------------------------------------------------------------------ list facts *)

Lemma filter_rev {A} (p : A -> bool) l : filter p (rev l) = rev (filter p l).
Proof.
  induction l as [|x l IH]; [reflexivity|]. cbn [rev filter]. rewrite filter_app, IH. cbn [filter].
  destruct (p x); cbn [rev]; [reflexivity | now rewrite app_nil_r].
Qed.

Lemma filter_map_app f l1 l2 : filter_map f (l1 ++ l2) = filter_map f l1 ++ filter_map f l2.
Proof.
  induction l1 as [|x l1 IH]; [reflexivity|]. cbn [app filter_map]. destruct (f x); cbn [app]; now rewrite IH.
Qed.
Lemma filter_map_rev f l : filter_map f (rev l) = rev (filter_map f l).
Proof.
  induction l as [|x l IH]; [reflexivity|]. cbn [rev filter_map]. rewrite filter_map_app, IH. cbn [filter_map].
  destruct (f x); cbn [rev]; [reflexivity | now rewrite app_nil_r].
Qed.

Lemma flat_map_rev (f : dval -> list dval) l :
  flat_map (fun v => rev (f v)) (rev l) = rev (flat_map f l).
Proof.
  induction l as [|x l IH]; [reflexivity|]. cbn [rev flat_map].
  rewrite flat_map_app, IH. cbn [flat_map]. rewrite app_nil_r, rev_app_distr. reflexivity.
Qed.

Lemma zip_pairs_app l1 l2 z1 z2 : length l1 = length z1 ->
  zip_pairs (l1 ++ l2) (z1 ++ z2) = zip_pairs l1 z1 ++ zip_pairs l2 z2.
Proof.
  unfold zip_pairs. revert z1; induction l1 as [|x l1 IH]; intros [|z z1] H; try discriminate; [reflexivity|].
  cbn [app combine map]. f_equal. apply IH. now inversion H.
Qed.
Lemma zip_pairs_rev l zs : length l = length zs -> zip_pairs (rev l) (rev zs) = rev (zip_pairs l zs).
Proof.
  revert zs; induction l as [|x l IH]; intros [|z zs] H; try discriminate; [reflexivity|].
  cbn [rev]. rewrite zip_pairs_app by (rewrite !rev_length; now inversion H).
  rewrite IH by now inversion H. reflexivity.
Qed.

(* ------------------------------------------------------------------ each adapter's transducer as a list function *)

Lemma lapply_copied dir c l : lapply ACopied dir c l = l.
Proof. induction l as [|v l IH]; [reflexivity|]. cbn [lapply local]. now rewrite IH. Qed.
Lemma lapply_rev dir c l : lapply ARev dir c l = l.
Proof. induction l as [|v l IH]; [reflexivity|]. cbn [lapply local]. now rewrite IH. Qed.
Lemma lapply_map f dir c l : lapply (AMap f) dir c l = map f l.
Proof. induction l as [|v l IH]; [reflexivity|]. cbn [lapply local map]. now rewrite IH. Qed.
Lemma lapply_filter p dir c l : lapply (AFilter p) dir c l = filter p l.
Proof. induction l as [|v l IH]; [reflexivity|]. cbn [lapply local filter]. destruct (p v); now rewrite IH. Qed.
Lemma lapply_filter_map f dir c l : lapply (AFilterMap f) dir c l = filter_map f l.
Proof. induction l as [|v l IH]; [reflexivity|]. cbn [lapply local filter_map]. destruct (f v); now rewrite IH. Qed.
Lemma lapply_flat_map f dir c l : lapply (AFlatMap f) dir c l = flat_map (fun v => dirlist dir (f v)) l.
Proof. induction l as [|v l IH]; [reflexivity|]. cbn [lapply local flat_map]. now rewrite IH. Qed.
Lemma lapply_flatten dir c l : lapply AFlatten dir c l = flat_map (fun v => dirlist dir (as_dlist v)) l.
Proof. induction l as [|v l IH]; [reflexivity|]. cbn [lapply local flat_map]. now rewrite IH. Qed.
Lemma lapply_enumerate dir l : forall i, lapply AEnumerate dir (CNat i) l = enum_from i l.
Proof. induction l as [|v l IH]; intros i; [reflexivity|]. cbn [lapply local enum_from]. now rewrite IH. Qed.
Lemma lapply_take m dir l : forall n, lapply (ATake m) dir (CNat n) l = firstn n l.
Proof.
  induction l as [|v l IH]; intros n; [now destruct n|]. cbn [lapply local]. destruct n; [reflexivity|].
  cbn [firstn]. now rewrite IH.
Qed.
Lemma lapply_skip m dir l : forall n, lapply (ASkip m) dir (CNat n) l = skipn n l.
Proof.
  induction l as [|v l IH]; intros n; [now destruct n|]. cbn [lapply local]. destruct n.
  - cbn [skipn]. f_equal. exact (IH 0).
  - cbn [skipn]. apply IH.
Qed.
Lemma lapply_take_while p dir c l : lapply (ATakeWhile p) dir c l = take_while p l.
Proof. induction l as [|v l IH]; [reflexivity|]. cbn [lapply local take_while]. destruct (p v); [now rewrite IH | reflexivity]. Qed.
Lemma lapply_skip_while_done p dir l : lapply (ASkipWhile p) dir (CBool false) l = l.
Proof. induction l as [|v l IH]; [reflexivity|]. cbn [lapply local andb]. now rewrite IH. Qed.
Lemma lapply_skip_while p dir l : lapply (ASkipWhile p) dir (CBool true) l = skip_while p l.
Proof.
  induction l as [|v l IH]; [reflexivity|]. cbn [lapply local andb skip_while].
  destruct (p v); [apply IH | now rewrite lapply_skip_while_done].
Qed.

Lemma pop_dirlist dir zs :
  pop dir zs = match dirlist dir zs with [] => None | e :: r => Some (e, dirlist dir r) end.
Proof.
  destruct dir; cbn [pop dirlist]; [|reflexivity].
  unfold pop_back. destruct (rev zs) as [|e r]; reflexivity.
Qed.

Lemma lapply_zip s0 dir l : forall zs, lapply (AZip s0) dir (CZip zs) l = zip_pairs l (dirlist dir zs).
Proof.
  induction l as [|v l IH]; intros zs; [reflexivity|]. cbn [lapply local]. rewrite pop_dirlist.
  destruct (dirlist dir zs) as [|e r] eqn:E; [reflexivity|].
  assert (Hr : exists zs', dirlist dir zs' = r /\ dirlist dir r = zs').
  { exists (dirlist dir r). split; [|reflexivity]. destruct dir; cbn [dirlist]; [apply rev_involutive|reflexivity]. }
  cbn [lapply]. rewrite IH. unfold zip_pairs. cbn [combine map fst snd]. f_equal.
  destruct dir; cbn [dirlist]; [now rewrite rev_involutive | reflexivity].
Qed.

(** forward direction: every adapter is the std adapter of the same name *)
Lemma lapply_fwd a l : a <> ARev \/ True -> lapply a false (init_cell a) l = match a with ARev => l | _ => std_apply a false l end.
Proof.
  intros _. destruct a; cbn [init_cell std_apply].
  - apply lapply_copied.
  - apply lapply_enumerate.
  - apply lapply_filter.
  - apply lapply_filter_map.
  - rewrite lapply_flat_map. apply flat_map_ext. reflexivity.
  - rewrite lapply_flatten. apply flat_map_ext. reflexivity.
  - apply lapply_map.
  - apply lapply_rev.
  - apply lapply_skip.
  - apply lapply_skip_while.
  - apply lapply_take.
  - apply lapply_take_while.
  - rewrite lapply_zip. reflexivity.
Qed.

(** backward direction on the reversed list: the reversed std result, for adapters that
    commute with reversal *)
Lemma lapply_bwd a l : commutes_with_rev a l ->
  lapply a true (init_cell a) (rev l) = rev (std_apply a true l).
Proof.
  destruct a; cbn [commutes_with_rev init_cell std_apply]; intros H; try contradiction.
  - apply lapply_copied.
  - rewrite lapply_enumerate. unfold enum_down. now rewrite rev_involutive.
  - rewrite lapply_filter. apply filter_rev.
  - rewrite lapply_filter_map. apply filter_map_rev.
  - rewrite lapply_flat_map. cbn [dirlist]. apply flat_map_rev.
  - rewrite lapply_flatten. cbn [dirlist]. apply (flat_map_rev as_dlist).
  - rewrite lapply_map. apply map_rev.
  - rewrite lapply_zip. cbn [dirlist]. now apply zip_pairs_rev.
Qed.

(* ------------------------------------------------------------------ chains *)

Definition norev (ms : list adapter) : Prop := existsb adapter_reverses ms = false.

Lemma norev_cons a ms : norev (a :: ms) <-> a <> ARev /\ norev ms.
Proof.
  unfold norev. cbn [existsb]. split.
  - intros H. apply orb_false_iff in H as [H1 H2]. split; [|exact H2]. intros ->. discriminate.
  - intros [H1 H2]. apply orb_false_iff. split; [|exact H2]. destruct a; try reflexivity. congruence.
Qed.

Lemma ndir_norev a dir : a <> ARev -> ndir a dir = dir.
Proof. intros H. unfold ndir. destruct a; try reflexivity. congruence. Qed.

(** no reversal anywhere: the expansion IS the std chain, no side condition *)
Lemma den_fwd c : consumer_reverses c = false -> forall ms l, norev ms ->
  den ms false (map init_cell ms) l = std_adapters ms c l.
Proof.
  intros Hc. induction ms as [|a ms IH]; intros l Hn; [reflexivity|].
  apply norev_cons in Hn as [Ha Hn]. cbn [den map std_adapters].
  rewrite ndir_norev by exact Ha. rewrite (lapply_fwd a l) by auto.
  assert (Hr : reverses ms c = false).
  { unfold reverses. rewrite Hn, Hc. reflexivity. }
  rewrite Hr. destruct a; try (apply IH; exact Hn). congruence.
Qed.

(** the adapters in front of the reversal, run backwards over the reversed source, yield
    the reversed std result *)
Fixpoint std_pre (pre : list adapter) (l : list dval) : list dval :=
  match pre with [] => l | a :: pre' => std_pre pre' (std_apply a true l) end.

Lemma den_bwd : forall pre l, norev pre -> prefix_ok pre l ->
  den pre true (map init_cell pre) (rev l) = rev (std_pre pre l).
Proof.
  induction pre as [|a pre IH]; intros l Hn Hok; [reflexivity|].
  apply norev_cons in Hn as [Ha Hn]. destruct Hok as [Hc Hok]. cbn [den map std_pre].
  rewrite ndir_norev by exact Ha. rewrite lapply_bwd by exact Hc. now apply IH.
Qed.

Lemma den_app : forall pre dir rest cs l, norev pre ->
  den (pre ++ rest) dir (map init_cell pre ++ cs) l =
  den rest dir cs (den pre dir (map init_cell pre) l).
Proof.
  induction pre as [|a pre IH]; intros dir rest cs l Hn; [reflexivity|].
  apply norev_cons in Hn as [Ha Hn]. cbn [app map den]. rewrite ndir_norev by exact Ha. now apply IH.
Qed.

Lemma std_adapters_app c : forall pre rest l, reverses rest c = true -> norev pre ->
  std_adapters (pre ++ rest) c l = std_adapters rest c (std_pre pre l).
Proof.
  induction pre as [|a pre IH]; intros rest l Hr Hn; [reflexivity|].
  apply norev_cons in Hn as [Ha Hn]. cbn [app std_adapters std_pre].
  assert (E : reverses (pre ++ rest) c = true).
  { unfold reverses in *. rewrite existsb_app. apply orb_true_iff in Hr as [Hr|Hr].
    - rewrite Hr. now rewrite orb_true_r.
    - rewrite Hr. now rewrite orb_true_r. }
  rewrite E. now apply IH.
Qed.

Lemma std_adapters_norev_pre c : consumer_reverses c = true -> forall ms l, norev ms ->
  std_adapters ms c l = std_pre ms l.
Proof.
  intros Hc ms l Hn. rewrite <- (app_nil_r ms) at 1.
  rewrite std_adapters_app; [reflexivity | | exact Hn].
  unfold reverses. cbn. exact Hc.
Qed.

(** shape of an accepted chain that reverses *)
Lemma before_rev_norev ms : norev ms -> before_rev ms = ms.
Proof.
  induction ms as [|a ms IH]; intros Hn; [reflexivity|]. apply norev_cons in Hn as [Ha Hn].
  cbn [before_rev]. destruct a; try (now rewrite IH). congruence.
Qed.

Lemma split_at_rev ms : existsb adapter_reverses ms = true ->
  exists pre post, ms = pre ++ ARev :: post /\ norev pre /\ before_rev ms = pre.
Proof.
  induction ms as [|a ms IH]; intros H; [discriminate|].
  destruct (adapter_reverses a) eqn:Ea.
  - destruct a; try discriminate. exists [], ms. repeat split; reflexivity.
  - cbn [existsb] in H. rewrite Ea in H. cbn [orb] in H.
    destruct (IH H) as (pre & post & E & Hn & Hb). exists (a :: pre), post. split; [|split].
    + rewrite E. reflexivity.
    + apply norev_cons. split; [intros ->; discriminate | exact Hn].
    + destruct a; cbn [before_rev]; try (now rewrite Hb). discriminate.
Qed.

Lemma filter_norev ms : norev ms -> filter adapter_reverses ms = [].
Proof.
  induction ms as [|a ms IH]; intros Hn; [reflexivity|]. apply norev_cons in Hn as [Ha Hn].
  cbn [filter]. destruct a; try (now apply IH). congruence.
Qed.

Lemma norev_of_filter ms : filter adapter_reverses ms = [] -> norev ms.
Proof.
  induction ms as [|a ms IH]; intros H; [reflexivity|]. cbn [filter] in H.
  apply norev_cons. destruct a; split; try discriminate; now apply IH.
Qed.

Theorem doc_eq_std ms c src :
  accepted ms c = true -> no_rev_after_positional ms c src ->
  doc_sem ms c src = std_sem ms c src.
Proof.
  intros Hacc Hok. unfold doc_sem, std_sem.
  destruct (reverses ms c) eqn:R.
  - (* the chain reverses: exactly one reversing method *)
    destruct Hok as [Hok | Hok]; [congruence|].
    unfold accepted, rev_count in Hacc. apply Nat.leb_le in Hacc.
    destruct (existsb adapter_reverses ms) eqn:E.
    + (* it is a [rev] adapter *)
      destruct (split_at_rev ms E) as (pre & post & -> & Hpre & Hb). rewrite Hb in Hok.
      rewrite filter_app, (filter_norev pre Hpre) in Hacc. cbn [app filter adapter_reverses length] in Hacc.
      assert (Hc : consumer_reverses c = false) by (destruct (consumer_reverses c); [lia | reflexivity]).
      assert (Hpost : norev post).
      { apply norev_of_filter. destruct (filter adapter_reverses post); [reflexivity | cbn in Hacc; rewrite Hc in Hacc; lia]. }
      rewrite Hc. cbn [dirlist]. rewrite map_app. cbn [map].
      rewrite den_app by exact Hpre. rewrite den_bwd by assumption.
      cbn [den init_cell]. rewrite lapply_rev. cbn [ndir adapter_reverses negb].
      rewrite den_fwd with (c := c) by assumption.
      rewrite std_adapters_app; [| unfold reverses; cbn; reflexivity | exact Hpre].
      cbn [std_adapters std_apply]. reflexivity.
    + (* it is the consumer *)
      assert (Hn : norev ms) by exact E.
      assert (Hc : consumer_reverses c = true).
      { unfold reverses in R. rewrite E in R. exact R. }
      rewrite (before_rev_norev ms Hn) in Hok.
      rewrite Hc. cbn [dirlist]. rewrite den_bwd by assumption.
      rewrite std_adapters_norev_pre by assumption. reflexivity.
  - (* no reversal at all *)
    unfold reverses in R. apply orb_false_iff in R as [E Hc].
    rewrite Hc. cbn [dirlist]. now rewrite den_fwd with (c := c).
Qed.

(** the two steps together *)
Theorem dsl_eq_std ms c src :
  accepted ms c = true -> no_rev_after_positional ms c src ->
  macro_sem ms c src = std_sem ms c src.
Proof. intros. rewrite macro_eq_doc. now apply doc_eq_std. Qed.

(** chains without any reversing method need no side condition *)
Corollary dsl_eq_std_forward ms c src : reverses ms c = false -> macro_sem ms c src = std_sem ms c src.
Proof.
  intros R. apply dsl_eq_std; [|left; exact R].
  unfold accepted, rev_count. unfold reverses in R. apply orb_false_iff in R as [E Hc].
  rewrite (filter_norev ms E), Hc. reflexivity.
Qed.

(* ------------------------------------------------------------------ the known finding *)

Definition ints (l : list Z) : list dval := map DInt l.

(** F7: a reversing method after a positional adapter reverses the SOURCE:
    take(2), rev() on [1,2,3,4] gives [4,3]; std gives [2,1] *)
Theorem dsl_rev_after_take_refuted :
  exists ms c src, accepted ms c = true /\ ~ no_rev_after_positional ms c src /\
                   macro_sem ms c src = DList (ints [4;3]%Z) /\ std_sem ms c src = DList (ints [2;1]%Z).
Proof.
  exists [ATake 2; ARev], CForEach, (ints [1;2;3;4]%Z).
  split; [reflexivity|]. split; [|split; reflexivity].
  intros [H | H]; [discriminate | cbn in H; tauto].
Qed.

(** ... and likewise skip(1), rev() and zip of unequal lengths followed by rev() *)
Theorem dsl_rev_after_skip_refuted :
  macro_sem [ASkip 1; ARev] CForEach (ints [1;2;3;4]%Z) = DList (ints [3;2;1]%Z) /\
  std_sem [ASkip 1; ARev] CForEach (ints [1;2;3;4]%Z) = DList (ints [4;3;2]%Z).
Proof. split; reflexivity. Qed.

(** non-vacuity: an accepted reversing chain inside the proved class *)
Example dsl_in_class :
  let ms := [AEnumerate; AFilter (fun v => match v with DPair _ (DInt z) => Z.odd z | _ => false end);
             AZip (ints [7;8]%Z); ARev; ATake 1] in
  accepted ms CForEach = true /\
  macro_sem ms CForEach (ints [1;2;3]%Z) = std_sem ms CForEach (ints [1;2;3]%Z) /\
  macro_sem ms CForEach (ints [1;2;3]%Z) = DList [DPair (DPair (DInt 0) (DInt 3)) (DInt 8)].
Proof. repeat split; reflexivity. Qed.
