(** [encode_utf8] of a scalar value passes the UTF-8 re-validation, hence the
    "invalid string" panics of [str_concat!] / [str_join!] / [string::from_iter!] cannot
    happen for any argument made of [&str]s and [char]s. *)
From KV Require Import Base.Prelude Model.Utf8 Model.Utf8Check Model.Concat Spec.Concat
  Proofs.ConcatProofs.

Lemma forall_range (P : Z -> bool) n :
  forallb P (map Z.of_nat (seq 0 n)) = true -> forall x, 0 <= x < Z.of_nat n -> P x = true.
Proof.
  intros H x Hx. rewrite forallb_forall in H. apply H.
  apply in_map_iff. exists (Z.to_nat x). split; [lia|]. apply in_seq. lia.
Qed.

Lemma lor_small hi k x :
  forallb (fun x => Z.lor hi x =? hi + x) (map Z.of_nat (seq 0 k)) = true ->
  0 <= x < Z.of_nat k -> Z.lor hi x = hi + x.
Proof. intros H Hx. apply Z.eqb_eq. exact (forall_range _ _ H x Hx). Qed.

Lemma lor128 x : 0 <= x < 64 -> Z.lor 128 x = 128 + x.
Proof. apply (lor_small 128 64). vm_compute. reflexivity. Qed.
Lemma lor192 x : 0 <= x < 32 -> Z.lor 192 x = 192 + x.
Proof. apply (lor_small 192 32). vm_compute. reflexivity. Qed.
Lemma lor224 x : 0 <= x < 16 -> Z.lor 224 x = 224 + x.
Proof. apply (lor_small 224 16). vm_compute. reflexivity. Qed.
Lemma lor240 x : 0 <= x < 8 -> Z.lor 240 x = 240 + x.
Proof. apply (lor_small 240 8). vm_compute. reflexivity. Qed.

Lemma land63 x : 0 <= x -> Z.land x 63 = x mod 64.
Proof. intros H. change 63 with (Z.ones 6). rewrite Z.land_ones by lia. reflexivity. Qed.
Lemma shr x k : 0 <= k -> Z.shiftr x k = x / 2 ^ k.
Proof. intros. apply Z.shiftr_div_pow2. lia. Qed.

Lemma encode_2 c : 128 <= c <= 2047 -> encode_m c = [192 + c / 64; 128 + c mod 64].
Proof.
  intros H. unfold encode_m.
  destruct (c <=? 127) eqn:E1; [lia|]. destruct (c <=? 2047) eqn:E2; [|lia].
  unfold u8. rewrite !shr, land63 by lia. change (2 ^ 6) with 64.
  rewrite (Z.mod_small (c / 64)) by lia. rewrite (Z.mod_small (c mod 64)) by lia.
  rewrite lor192, lor128 by lia. reflexivity.
Qed.

Lemma encode_1 c : c <= 127 -> encode_m c = [c mod 256].
Proof. intros H. unfold encode_m. destruct (c <=? 127) eqn:E1; [reflexivity|lia]. Qed.

Lemma encode_3 c : 2048 <= c <= 65535 ->
  encode_m c = [224 + c / 4096; 128 + (c / 64) mod 64; 128 + c mod 64].
Proof.
  intros H. unfold encode_m.
  destruct (c <=? 127) eqn:E1; [lia|]. destruct (c <=? 2047) eqn:E2; [lia|].
  destruct (c <=? 65535) eqn:E3; [|lia].
  unfold u8. rewrite !shr by lia. rewrite !land63 by (try apply Z.div_pos; lia).
  change (2 ^ 6) with 64. change (2 ^ 12) with 4096.
  rewrite (Z.mod_small (c / 4096)) by lia.
  rewrite (Z.mod_small ((c / 64) mod 64)) by lia. rewrite (Z.mod_small (c mod 64)) by lia.
  rewrite lor224, !lor128 by lia. reflexivity.
Qed.

Lemma encode_4 c : 65536 <= c <= 1114111 ->
  encode_m c = [240 + c / 262144; 128 + (c / 4096) mod 64; 128 + (c / 64) mod 64; 128 + c mod 64].
Proof.
  intros H. unfold encode_m.
  destruct (c <=? 127) eqn:E1; [lia|]. destruct (c <=? 2047) eqn:E2; [lia|].
  destruct (c <=? 65535) eqn:E3; [lia|].
  unfold u8. rewrite !shr by lia. rewrite !land63 by (try apply Z.div_pos; lia).
  change (2 ^ 6) with 64. change (2 ^ 12) with 4096. change (2 ^ 18) with 262144.
  rewrite (Z.mod_small (c / 262144)) by lia.
  rewrite (Z.mod_small ((c / 4096) mod 64)) by lia.
  rewrite (Z.mod_small ((c / 64) mod 64)) by lia. rewrite (Z.mod_small (c mod 64)) by lia.
  rewrite lor240, !lor128 by lia. reflexivity.
Qed.

(** [encode_utf8] of a Unicode scalar value is one well-formed UTF-8 sequence *)
Lemma utf8_ok_encode c : is_scalar c -> utf8_ok (encode_m c) = true.
Proof.
  intros Hs. unfold is_scalar in Hs.
  destruct (Z_le_gt_dec c 127) as [H1|H1].
  - rewrite encode_1 by lia. cbn [utf8_ok]. unfold in_rng.
    rewrite Z.mod_small by lia.
    destruct (0 <=? c) eqn:A; destruct (c <=? 127) eqn:B; try lia. reflexivity.
  - destruct (Z_le_gt_dec c 2047) as [H2|H2].
    + rewrite encode_2 by lia. cbn [utf8_ok]. unfold cont, in_rng.
      repeat match goal with |- context [?a <=? ?b] => let E := fresh "E" in destruct (a <=? b) eqn:E; try lia end;
        reflexivity.
    + destruct (Z_le_gt_dec c 65535) as [H3|H3].
      * rewrite encode_3 by lia. cbn [utf8_ok]. unfold second3, cont, in_rng.
        repeat match goal with
               | |- context [?a <=? ?b] => let E := fresh "E" in destruct (a <=? b) eqn:E; try lia
               | |- context [?a =? ?b] => let E := fresh "E" in destruct (a =? b) eqn:E; try lia
               end; reflexivity.
      * rewrite encode_4 by lia. cbn [utf8_ok]. unfold second4, cont, in_rng.
        repeat match goal with
               | |- context [?a <=? ?b] => let E := fresh "E" in destruct (a <=? b) eqn:E; try lia
               | |- context [?a =? ?b] => let E := fresh "E" in destruct (a =? b) eqn:E; try lia
               end; reflexivity.
Qed.

(* ------------------------------------------------------------------ totality of the macros *)

(** a [&str] is valid UTF-8, a [char] is a scalar value *)
Definition elem_ok (e : elem) : Prop :=
  match e with EStr s => utf8_ok s = true | EChr c => is_scalar c end.
Definition sep_ok (s : sep_arg) : Prop :=
  match s with SStr s => utf8_ok s = true | SChar c => is_scalar c end.

Lemma elem_ok_bytes e : elem_ok e -> utf8_ok (elem_bytes e) = true.
Proof. destruct e; cbn [elem_ok elem_bytes]; [trivial|apply utf8_ok_encode]. Qed.

Lemma sep_ok_bytes s : sep_ok s -> utf8_ok (sep_bytes s) = true.
Proof. destruct s; cbn [sep_ok sep_bytes]; [apply utf8_ok_encode|trivial]. Qed.

Lemma elems_ok_flat es : Forall elem_ok es -> utf8_ok (flat (map elem_bytes es)) = true.
Proof.
  intros H. apply utf8_ok_flat. apply Forall_forall. intros s Hin.
  apply in_map_iff in Hin as [e [<- He]]. apply elem_ok_bytes.
  rewrite Forall_forall in H. now apply H.
Qed.

Lemma str_concat_total w arg :
  Forall elem_ok (arg_elems arg) -> total_len (arg_bytes arg) < 2 ^ w ->
  forall lit, (lit = true -> arg_elems arg = []) ->
  str_concat_m w lit arg = Done (flat (arg_bytes arg)).
Proof.
  intros Hok Hb lit Hl. rewrite str_concat_eq by assumption.
  unfold as_str_m, arg_bytes. now rewrite elems_ok_flat.
Qed.

Lemma str_join_total w sep ss :
  sep_ok sep -> Forall (fun s => utf8_ok s = true) ss ->
  zlen (intercalate (sep_bytes sep) ss) < 2 ^ w ->
  forall lit, (lit = true -> ss = []) ->
  str_join_m w lit sep ss = Done (intercalate (sep_bytes sep) ss).
Proof.
  intros Hsep Hok Hb lit Hl. rewrite str_join_eq by assumption.
  unfold as_str_m. rewrite utf8_ok_intercalate; [reflexivity|now apply sep_ok_bytes|exact Hok].
Qed.

Lemma from_iter_total w items :
  Forall elem_ok items -> total_len (map elem_bytes items) < 2 ^ w ->
  from_iter_m w items = Done (flat (map elem_bytes items)).
Proof.
  intros Hok Hb. rewrite from_iter_eq by exact Hb. unfold as_str_m. now rewrite elems_ok_flat.
Qed.

(** the hypotheses of the totality theorems hold for an ordinary argument *)
Lemma hyps_example :
  let ss := [[97]; []; [240; 159; 167; 160; 120]] in
  sep_ok (SChar 233) /\ Forall (fun s => utf8_ok s = true) ss /\
  zlen (intercalate (sep_bytes (SChar 233)) ss) < 2 ^ 64.
Proof.
  cbv zeta. split; [left; lia|]. split.
  - repeat constructor.
  - vm_compute. reflexivity.
Qed.
