(** Model.Slice = Spec.Slice, for every usize width [w >= 1], every element size [sz >= 0]
    (zero-sized types included), every length that a slice of such elements can have
    ([len < 2^w] and [len * sz <= isize::MAX]) and every index in [0, 2^w). *)
From KV Require Import Base.Prelude Model.Slice Spec.Slice.

(* ------------------------------------------------------------------ machine integers *)

Lemma pow2_pos w : 0 <= w -> 0 < 2 ^ w.
Proof. intros; apply Z.pow_pos_nonneg; lia. Qed.

Lemma pow2_split w : 1 <= w -> 2 ^ w = 2 * 2 ^ (w - 1).
Proof.
  intros H. replace w with (Z.succ (w - 1)) at 1 by lia.
  rewrite Z.pow_succ_r by lia. reflexivity.
Qed.

Lemma wrap_mod w x : 0 <= w -> wrap w x = x mod 2 ^ w.
Proof.
  intros Hw. unfold wrap. pose proof (pow2_pos w Hw) as Hp.
  destruct (Z.leb_spec 0 x); destruct (Z.ltb_spec x (2 ^ w)); cbn [andb].
  - symmetry; apply Z.mod_small; lia.
  - destruct (Z.leb_spec (- 2 ^ w) x); destruct (Z.ltb_spec x 0); cbn [andb]; try reflexivity; lia.
  - destruct (Z.leb_spec (- 2 ^ w) x); destruct (Z.ltb_spec x 0); cbn [andb]; try reflexivity; try lia.
    apply Z.mod_unique with (q := -1); lia.
  - lia.
Qed.

Lemma wrap_small w x : 0 <= w -> 0 <= x < 2 ^ w -> wrap w x = x.
Proof. intros Hw Hx. rewrite wrap_mod by lia. apply Z.mod_small; lia. Qed.

Lemma wrap_range w x : 0 <= w -> 0 <= wrap w x < 2 ^ w.
Proof. intros Hw. rewrite wrap_mod by lia. apply Z.mod_pos_bound. now apply pow2_pos. Qed.

(** [usize::overflowing_sub] is what its documentation says *)
Lemma overflowing_sub_spec w a b :
  0 <= w -> 0 <= a < 2 ^ w -> 0 <= b < 2 ^ w ->
  overflowing_sub w a b = if b <=? a then (a - b, false) else (a - b + 2 ^ w, true).
Proof.
  intros Hw Ha Hb. unfold overflowing_sub.
  destruct (Z.leb_spec b a) as [Hle|Hgt]; destruct (Z.ltb_spec a b); try lia.
  - rewrite wrap_small by lia. reflexivity.
  - rewrite wrap_mod by lia. f_equal.
    symmetry; apply Z.mod_unique with (q := -1); lia.
Qed.

(* ------------------------------------------------------------------ the standing hypotheses *)

(** a slice of [len] elements of [sz] bytes exists on a machine with [w]-bit usize *)
Definition slice_ok (w sz len : Z) : Prop :=
  1 <= w /\ 0 <= sz /\ 0 <= len < 2 ^ w /\ len * sz <= isize_max w.
Definition usize_ok (w i : Z) : Prop := 0 <= i < 2 ^ w.

(** the hypotheses are satisfiable, also for zero-sized elements at the maximal length *)
Example slice_ok_u16 : slice_ok 64 2 8.
Proof. unfold slice_ok, isize_max; cbn; lia. Qed.
Example slice_ok_zst_max : slice_ok 64 0 (2 ^ 64 - 1).
Proof. unfold slice_ok, isize_max; cbn; lia. Qed.
Example slice_ok_w1 : slice_ok 1 0 1.
Proof. unfold slice_ok, isize_max; cbn; lia. Qed.

Lemma slice_ok_sub w sz len n :
  slice_ok w sz len -> 0 <= n <= len -> slice_ok w sz n.
Proof.
  intros (Hw & Hsz & Hlen & Hb) Hn. repeat split; try lia.
  assert (n * sz <= len * sz) by (apply Z.mul_le_mono_nonneg_r; lia). lia.
Qed.

(** the one fact that makes every unsafe block of the anchored code sound *)
Lemma raw_parts_ok m w sz len o n :
  slice_ok w sz len -> 0 <= o -> 0 <= n -> o + n <= len ->
  raw_parts m w sz len o n = Ok (V o n).
Proof.
  intros (Hw & Hsz & Hlen & Hb) Ho Hn Hon. unfold raw_parts.
  assert (Hos : o * sz <= len * sz) by (apply Z.mul_le_mono_nonneg_r; lia).
  assert (Hns : n * sz <= len * sz) by (apply Z.mul_le_mono_nonneg_r; lia).
  assert (Hiso : to_isize w o * sz = o * sz).
  { unfold to_isize. destruct (Z.ltb_spec o (2 ^ (w - 1))) as [|Hbig]; [reflexivity|].
    assert (sz = 0 \/ 1 <= sz) as [->|Hsz1] by lia; [lia|].
    exfalso. unfold isize_max in Hb.
    assert (len * 1 <= len * sz) by (apply Z.mul_le_mono_nonneg_l; lia). lia. }
  rewrite Hiso.
  assert (0 <= o * sz) by (apply Z.mul_nonneg_nonneg; lia).
  destruct (Z.leb_spec 0 (o * sz)); [|lia].
  destruct (Z.leb_spec (o * sz) (isize_max w)); [|lia].
  destruct (Z.leb_spec 0 n); [|lia].
  destruct (Z.leb_spec (o + n) len); [|lia].
  destruct (Z.leb_spec (n * sz) (isize_max w)); [|lia].
  reflexivity.
Qed.

(** conversely the model's UB outcome is not vacuous: outside the argument it fires *)
Lemma raw_parts_ub m w sz len o n : len < o + n -> raw_parts m w sz len o n = UB.
Proof.
  intros H. unfold raw_parts. destruct (Z.leb_spec (o + n) len); [lia|].
  now rewrite !andb_false_r, ?andb_false_l.
Qed.

(* ------------------------------------------------------------------ get *)

Lemma get_eq_std m len i : get_m m len i = Ok (std_get len i).
Proof.
  unfold get_m, std_get, index_m. destruct (Z.ltb_spec i len); reflexivity.
Qed.

(* ------------------------------------------------------------------ the macros *)

Section Indexing.
  Variables (m : mutability) (w sz len : Z).
  Hypothesis Hok : slice_ok w sz len.

  Let Hw : 0 <= w. Proof. destruct Hok; lia. Qed.
  Let Hlen : 0 <= len < 2 ^ w. Proof. destruct Hok as (_ & _ & H & _); exact H. Qed.

  Lemma get_from_eq_std s : usize_ok w s ->
    get_from_m m w sz len s = Ok (std_get_from len s).
  Proof.
    intros Hs. unfold get_from_m, slice_from_impl, std_get_from.
    rewrite overflowing_sub_spec by (auto; lia).
    destruct (Z.leb_spec s len); [|reflexivity].
    rewrite raw_parts_ok by (auto; unfold usize_ok in *; lia). reflexivity.
  Qed.

  Lemma get_up_to_eq_std e : usize_ok w e ->
    get_up_to_m m w sz len e = Ok (std_get_up_to len e).
  Proof.
    intros He. unfold get_up_to_m, slice_up_to_impl, std_get_up_to.
    rewrite overflowing_sub_spec by (auto; lia).
    destruct (Z.leb_spec e len); [|reflexivity].
    rewrite raw_parts_ok by (auto; unfold usize_ok in *; lia). reflexivity.
  Qed.

  Lemma slice_from_clamped s : usize_ok w s ->
    slice_from_m m w sz len s = Ok (clamped_from len s).
  Proof.
    intros Hs. unfold slice_from_m, slice_from_impl, clamped_from, std_get_from.
    rewrite overflowing_sub_spec by (auto; lia).
    destruct (Z.leb_spec s len); [|reflexivity].
    rewrite raw_parts_ok by (auto; unfold usize_ok in *; lia). reflexivity.
  Qed.

  Lemma slice_up_to_clamped e : usize_ok w e ->
    slice_up_to_m m w sz len e = Ok (clamped_up_to len e).
  Proof.
    intros He. unfold slice_up_to_m, slice_up_to_impl, clamped_up_to, std_get_up_to.
    rewrite overflowing_sub_spec by (auto; lia).
    destruct (Z.leb_spec e len); [|reflexivity].
    rewrite raw_parts_ok by (auto; unfold usize_ok in *; lia). reflexivity.
  Qed.
End Indexing.

Lemma clamped_up_to_len len e : 0 <= len -> 0 <= e ->
  clamped_up_to len e = V 0 (Z.min e len).
Proof.
  intros Hl He. unfold clamped_up_to, std_get_up_to, whole.
  destruct (Z.leb_spec e len); f_equal; lia.
Qed.

Lemma get_range_eq_std m w sz len s e :
  slice_ok w sz len -> usize_ok w s -> usize_ok w e ->
  get_range_m m w sz len s e = Ok (std_get_range len s e).
Proof.
  intros Hok Hs He. unfold get_range_m.
  rewrite get_up_to_eq_std by assumption. cbn [bind].
  unfold std_get_up_to, std_get_range.
  destruct (Z.leb_spec e len) as [Hel|Hel]; [|now rewrite andb_false_r].
  cbn [vlen]. unfold usize_ok in *.
  rewrite get_from_eq_std by (try apply (slice_ok_sub w sz len e Hok); unfold usize_ok; lia).
  cbn [bind]. unfold std_get_from.
  destruct (Z.leb_spec s e); cbn [andb option_map]; [|reflexivity].
  unfold compose; cbn [off vlen]. do 3 f_equal.
Qed.

Lemma slice_range_clamped m w sz len s e :
  slice_ok w sz len -> usize_ok w s -> usize_ok w e ->
  slice_range_m m w sz len s e = Ok (clamped_range len s e).
Proof.
  intros Hok Hs He. unfold slice_range_m.
  rewrite slice_up_to_clamped by assumption. cbn [bind].
  pose proof Hok as (Hw & Hsz & Hlen & Hb). unfold usize_ok in *.
  rewrite clamped_up_to_len by lia. cbn [vlen].
  rewrite slice_from_clamped
    by (try apply (slice_ok_sub w sz len (Z.min e len) Hok); unfold usize_ok; lia).
  cbn [bind]. unfold clamped_from, clamped_range, std_get_from, std_get_range.
  destruct (Z.leb_spec s (Z.min e len)); destruct (Z.leb_spec (Z.min e len) len); try lia;
    cbn [andb]; unfold compose, empty_view; cbn [off vlen]; reflexivity.
Qed.

(** the closed form planned in DESIGN section 4 *)
Lemma clamped_range_closed_form len s e : 0 <= len -> 0 <= s -> 0 <= e ->
  view_eqv (clamped_range len s e)
           (V (Z.min s (Z.min e len)) (Z.max 0 (Z.min e len - s))).
Proof.
  intros Hl Hs He. unfold clamped_range, std_get_range, view_eqv, empty_view.
  destruct (Z.leb_spec s (Z.min e len)); destruct (Z.leb_spec (Z.min e len) len);
    cbn [andb off vlen]; lia.
Qed.

(** when std's [get(s..e)] exists, the clamping variant returns exactly it *)
Lemma clamped_range_std len s e v :
  std_get_range len s e = Some v -> clamped_range len s e = v.
Proof.
  unfold clamped_range, std_get_range.
  destruct (Z.leb_spec s e); destruct (Z.leb_spec e len); cbn [andb]; try discriminate.
  intros [= <-]. replace (Z.min e len) with e by lia.
  destruct (Z.leb_spec s e); destruct (Z.leb_spec e len); cbn [andb]; try lia. reflexivity.
Qed.

Lemma clamped_from_std len s v : std_get_from len s = Some v -> clamped_from len s = v.
Proof. unfold clamped_from. now intros ->. Qed.
Lemma clamped_up_to_std len e v : std_get_up_to len e = Some v -> clamped_up_to len e = v.
Proof. unfold clamped_up_to. now intros ->. Qed.
Lemma clamped_split_at_std len a p : std_split_at len a = Some p -> clamped_split_at len a = p.
Proof. unfold clamped_split_at. now intros ->. Qed.

Lemma clamped_agree_with_std len s e :
  (forall v, std_get_from len s = Some v -> clamped_from len s = v) /\
  (forall v, std_get_up_to len e = Some v -> clamped_up_to len e = v) /\
  (forall v, std_get_range len s e = Some v -> clamped_range len s e = v) /\
  (forall p, std_split_at len s = Some p -> clamped_split_at len s = p).
Proof.
  repeat split; intros x H.
  - exact (clamped_from_std len s x H).
  - exact (clamped_up_to_std len e x H).
  - exact (clamped_range_std len s e x H).
  - exact (clamped_split_at_std len s x H).
Qed.

(* ------------------------------------------------------------------ split_at *)

Lemma split_at_total w sz len a :
  slice_ok w sz len -> usize_ok w a ->
  split_at_m w sz len a = Ok (clamped_split_at len a).
Proof.
  intros Hok Ha. unfold split_at_m.
  rewrite slice_up_to_clamped, slice_from_clamped by assumption. cbn [bind].
  unfold clamped_split_at, clamped_up_to, clamped_from, std_split_at, std_get_up_to, std_get_from.
  destruct (Z.leb_spec a len); reflexivity.
Qed.

Lemma split_at_mut_total w sz len a :
  slice_ok w sz len -> usize_ok w a ->
  split_at_mut_m w sz len a = Ok (clamped_split_at len a).
Proof.
  intros Hok Ha. unfold split_at_mut_m, clamped_split_at, std_split_at, usub. unfold usize_ok in *.
  destruct (Z.ltb_spec len a); destruct (Z.leb_spec a len); try lia; [reflexivity|].
  cbn [bind]. pose proof Hok as (Hw & Hsz & Hlen & Hb).
  rewrite !raw_parts_ok by (auto; lia). cbn [bind].
  unfold disjoint; cbn [off vlen].
  replace (0 + a <=? a) with true by (symmetry; apply Z.leb_le; lia).
  now rewrite !orb_true_r.
Qed.

Lemma split_at_mut_same w sz len a :
  slice_ok w sz len -> usize_ok w a -> split_at_mut_m w sz len a = split_at_m w sz len a.
Proof. intros; now rewrite split_at_mut_total, split_at_total. Qed.

(* ------------------------------------------------------------------ _mut twins *)

(** the two instantiations of each macro address the same elements (the model of the macro
    does not look at which pointer/constructor pair it was given) *)
Lemma mut_same_view w sz len i j :
  get_m Mut len i = get_m Shared len i /\
  slice_from_m Mut w sz len i = slice_from_m Shared w sz len i /\
  slice_up_to_m Mut w sz len i = slice_up_to_m Shared w sz len i /\
  get_from_m Mut w sz len i = get_from_m Shared w sz len i /\
  get_up_to_m Mut w sz len i = get_up_to_m Shared w sz len i /\
  slice_range_m Mut w sz len i j = slice_range_m Shared w sz len i j /\
  get_range_m Mut w sz len i j = get_range_m Shared w sz len i j /\
  try_into_array_m Mut w sz len i = try_into_array_m Shared w sz len i.
Proof. repeat split; reflexivity. Qed.

(* ------------------------------------------------------------------ slice patterns *)

Lemma ends_eq_std len :
  first_mut_m len = std_first len /\ last_mut_m len = std_last len /\
  split_first_mut_m len = std_split_first len /\ split_last_mut_m len = std_split_last len.
Proof.
  unfold first_mut_m, last_mut_m, split_first_mut_m, split_last_mut_m,
    std_first, std_last, std_split_first, std_split_last, std_get.
  destruct (Z.leb_spec 1 len); destruct (Z.ltb_spec 0 len); try lia; repeat split; reflexivity.
Qed.

(* ------------------------------------------------------------------ arrays *)

Lemma try_into_array_eq_std m w sz len N : 0 <= len ->
  try_into_array_m m w sz len N = Ok (std_try_into_array len N).
Proof.
  intros Hl. unfold try_into_array_m, std_try_into_array, raw_array.
  destruct (Z.eqb_spec len N) as [<-|]; [|reflexivity].
  destruct (Z.leb_spec 0 len); [|lia]. rewrite Z.leb_refl. reflexivity.
Qed.

Lemma try_into_array_iff m w sz len N : 0 <= len ->
  (exists v, try_into_array_m m w sz len N = Ok (Some v)) <-> len = N.
Proof.
  intros Hl. rewrite try_into_array_eq_std by assumption. unfold std_try_into_array.
  destruct (Z.eqb_spec len N); split; intros H; try assumption; try lia.
  - eexists; reflexivity.
  - destruct H as [v H]; discriminate.
Qed.

(* ------------------------------------------------------------------ chunks *)

Lemma div_mul_le len N : 0 <= len -> 1 <= N -> 0 <= len / N * N <= len.
Proof.
  intros Hl HN.
  pose proof (Z.mul_div_le len N ltac:(lia)) as H1.
  pose proof (Z.div_pos len N ltac:(lia) ltac:(lia)) as H2.
  split; [apply Z.mul_nonneg_nonneg; lia | rewrite Z.mul_comm; exact H1].
Qed.

Lemma as_chunks_eq_std w sz len N :
  slice_ok w sz len -> 1 <= N ->
  as_chunks_m w sz len N = Ok (std_as_chunks len N).
Proof.
  intros Hok HN. pose proof Hok as (Hw & Hsz & Hlen & Hb).
  unfold as_chunks_m, std_as_chunks.
  destruct (Z.eqb_spec N 0); [lia|].
  pose proof (div_mul_le len N ltac:(lia) HN) as Hdm.
  assert (Hq : 0 <= len / N) by (apply Z.div_pos; lia).
  unfold umul. destruct (Z.ltb_spec (len / N * N) (2 ^ w)); [|lia]. cbn [bind].
  rewrite split_at_total by (auto; unfold usize_ok; lia). cbn [bind].
  unfold clamped_split_at, std_split_at.
  destruct (Z.leb_spec (len / N * N) len); [|lia].
  unfold raw_chunks; cbn [vlen off].
  assert (len / N * N * sz <= len * sz) by (apply Z.mul_le_mono_nonneg_r; lia).
  destruct (Z.leb_spec 0 (len / N)); [|lia].
  destruct (Z.leb_spec (len / N * N) (len / N * N)); [|lia].
  destruct (Z.leb_spec (len / N * N * sz) (isize_max w)); [|lia].
  cbn [andb bind]. do 3 f_equal. rewrite Z.mod_eq by lia. lia.
Qed.

Lemma as_rchunks_eq_std w sz len N :
  slice_ok w sz len -> 1 <= N ->
  as_rchunks_m w sz len N = Ok (std_as_rchunks len N).
Proof.
  intros Hok HN. pose proof Hok as (Hw & Hsz & Hlen & Hb).
  unfold as_rchunks_m, std_as_rchunks.
  destruct (Z.eqb_spec N 0); [lia|].
  pose proof (div_mul_le len N ltac:(lia) HN) as Hdm.
  assert (Hq : 0 <= len / N) by (apply Z.div_pos; lia).
  pose proof (Z.mod_pos_bound len N ltac:(lia)) as Hr.
  assert (Hrl : len mod N <= len) by (rewrite Z.mod_eq by lia; lia).
  rewrite split_at_total by (auto; unfold usize_ok; lia). cbn [bind].
  unfold clamped_split_at, std_split_at.
  destruct (Z.leb_spec (len mod N) len); [|lia].
  unfold raw_chunks; cbn [vlen off].
  assert (len / N * N * sz <= len * sz) by (apply Z.mul_le_mono_nonneg_r; lia).
  assert (Heq : len / N * N = len - len mod N) by (rewrite Z.mod_eq by lia; lia).
  destruct (Z.leb_spec 0 (len / N)); [|lia].
  destruct (Z.leb_spec (len / N * N) (len - len mod N)); [|lia].
  destruct (Z.leb_spec (len / N * N * sz) (isize_max w)); [|lia].
  reflexivity.
Qed.

(** N = 0 is the documented panic *)
Lemma as_chunks_zero w sz len : as_chunks_m w sz len 0 = Panic /\ as_rchunks_m w sz len 0 = Panic.
Proof. split; reflexivity. Qed.

(* ------------------------------------------------------------------ results stay inside *)

Lemma clamped_from_inside len s : 0 <= len -> 0 <= s -> view_inside len (clamped_from len s).
Proof.
  intros. unfold clamped_from, std_get_from, view_inside, empty_view.
  destruct (Z.leb_spec s len); cbn [off vlen]; lia.
Qed.
Lemma clamped_up_to_inside len e : 0 <= len -> 0 <= e -> view_inside len (clamped_up_to len e).
Proof.
  intros. unfold clamped_up_to, std_get_up_to, view_inside, whole.
  destruct (Z.leb_spec e len); cbn [off vlen]; lia.
Qed.
Lemma clamped_range_inside len s e : 0 <= len -> 0 <= s -> 0 <= e ->
  view_inside len (clamped_range len s e).
Proof.
  intros. unfold clamped_range, std_get_range, view_inside, empty_view.
  destruct (Z.leb_spec s (Z.min e len)); destruct (Z.leb_spec (Z.min e len) len);
    cbn [andb off vlen]; lia.
Qed.
Lemma clamped_split_at_inside len a : 0 <= len -> 0 <= a ->
  view_inside len (fst (clamped_split_at len a)) /\ view_inside len (snd (clamped_split_at len a)).
Proof.
  intros. unfold clamped_split_at, std_split_at, view_inside, whole, empty_view.
  destruct (Z.leb_spec a len); cbn [fst snd off vlen]; lia.
Qed.
Lemma std_get_range_inside len s e v : 0 <= s ->
  std_get_range len s e = Some v -> view_inside len v.
Proof.
  intros Hs. unfold std_get_range, view_inside.
  destruct (Z.leb_spec s e); destruct (Z.leb_spec e len); cbn [andb]; try discriminate.
  intros [= <-]; cbn [off vlen]; lia.
Qed.
Lemma std_get_from_inside len s v : 0 <= s -> std_get_from len s = Some v -> view_inside len v.
Proof.
  intros Hs. unfold std_get_from, view_inside. destruct (Z.leb_spec s len); try discriminate.
  intros [= <-]; cbn [off vlen]; lia.
Qed.
Lemma std_get_up_to_inside len e v : 0 <= e -> std_get_up_to len e = Some v -> view_inside len v.
Proof.
  intros He. unfold std_get_up_to, view_inside. destruct (Z.leb_spec e len); try discriminate.
  intros [= <-]; cbn [off vlen]; lia.
Qed.

(** as_chunks: the arrays and the remainder tile the argument, and the remainder is
    shorter than one chunk *)
Lemma std_as_chunks_tiles len N : 0 <= len -> 1 <= N ->
  let '(c, r) := std_as_chunks len N in
  coff c = 0 /\ off r = ccount c * N /\ off r + vlen r = len /\ 0 <= vlen r < N /\ 0 <= ccount c.
Proof.
  intros Hl HN. unfold std_as_chunks; cbn [coff ccount off vlen].
  pose proof (div_mul_le len N Hl HN). pose proof (Z.mod_pos_bound len N ltac:(lia)).
  pose proof (Z.div_pos len N ltac:(lia) ltac:(lia)).
  repeat split; try lia; try (rewrite Z.mod_eq by lia; lia).
Qed.
Lemma std_as_rchunks_tiles len N : 0 <= len -> 1 <= N ->
  let '(r, c) := std_as_rchunks len N in
  off r = 0 /\ coff c = vlen r /\ coff c + ccount c * N = len /\ 0 <= vlen r < N /\ 0 <= ccount c.
Proof.
  intros Hl HN. unfold std_as_rchunks; cbn [coff ccount off vlen].
  pose proof (div_mul_le len N Hl HN). pose proof (Z.mod_pos_bound len N ltac:(lia)).
  pose proof (Z.div_pos len N ltac:(lia) ltac:(lia)).
  repeat split; try lia; try (rewrite Z.mod_eq by lia; lia).
Qed.

(** DESIGN C01 [slice_ops_in_bounds]: no function of the family reaches an unsafe block with
    its precondition violated, none panics, and every returned view is inside the argument *)
Definition ok_inside (len : Z) (r : res view) : Prop :=
  exists v, r = Ok v /\ view_inside len v.
Definition ok_inside_opt (len : Z) (r : res (option view)) : Prop :=
  exists o, r = Ok o /\ match o with Some v => view_inside len v | None => True end.
Definition ok_inside2 (len : Z) (r : res (view * view)) : Prop :=
  exists a b, r = Ok (a, b) /\ view_inside len a /\ view_inside len b.

Lemma slice_ops_in_bounds m w sz len i j :
  slice_ok w sz len -> usize_ok w i -> usize_ok w j ->
  ok_inside len (slice_from_m m w sz len i) /\
  ok_inside len (slice_up_to_m m w sz len i) /\
  ok_inside len (slice_range_m m w sz len i j) /\
  ok_inside_opt len (get_from_m m w sz len i) /\
  ok_inside_opt len (get_up_to_m m w sz len i) /\
  ok_inside_opt len (get_range_m m w sz len i j) /\
  ok_inside2 len (split_at_m w sz len i) /\
  ok_inside2 len (split_at_mut_m w sz len i).
Proof.
  intros Hok Hi Hj. pose proof Hok as (Hw & Hsz & Hlen & Hb). unfold usize_ok in *.
  rewrite slice_from_clamped, slice_up_to_clamped, slice_range_clamped, get_from_eq_std,
    get_up_to_eq_std, get_range_eq_std, split_at_total, split_at_mut_total by assumption.
  repeat split.
  - eexists; split; [reflexivity | apply clamped_from_inside; lia].
  - eexists; split; [reflexivity | apply clamped_up_to_inside; lia].
  - eexists; split; [reflexivity | apply clamped_range_inside; lia].
  - eexists; split; [reflexivity|]. destruct (std_get_from len i) eqn:E; [|exact I].
    apply (std_get_from_inside len i); [lia | exact E].
  - eexists; split; [reflexivity|]. destruct (std_get_up_to len i) eqn:E; [|exact I].
    apply (std_get_up_to_inside len i); [lia | exact E].
  - eexists; split; [reflexivity|]. destruct (std_get_range len i j) eqn:E; [|exact I].
    apply (std_get_range_inside len i j); [lia | exact E].
  - destruct (clamped_split_at len i) as [a b] eqn:E.
    pose proof (clamped_split_at_inside len i ltac:(lia) ltac:(lia)) as [Ha Hb']. rewrite E in *.
    exists a, b. auto.
  - destruct (clamped_split_at len i) as [a b] eqn:E.
    pose proof (clamped_split_at_inside len i ltac:(lia) ltac:(lia)) as [Ha Hb']. rewrite E in *.
    exists a, b. auto.
Qed.

Lemma chunk_ops_in_bounds w sz len N :
  slice_ok w sz len -> 1 <= N ->
  (exists c r, as_chunks_m w sz len N = Ok (c, r) /\ chunks_inside len N c /\ view_inside len r) /\
  (exists r c, as_rchunks_m w sz len N = Ok (r, c) /\ chunks_inside len N c /\ view_inside len r).
Proof.
  intros Hok HN. pose proof Hok as (Hw & Hsz & Hlen & Hb).
  rewrite as_chunks_eq_std, as_rchunks_eq_std by assumption.
  pose proof (std_as_chunks_tiles len N ltac:(lia) HN) as H1.
  pose proof (std_as_rchunks_tiles len N ltac:(lia) HN) as H2.
  destruct (std_as_chunks len N) as [c r]. destruct (std_as_rchunks len N) as [r' c'].
  split.
  - exists c, r. split; [reflexivity|]. unfold chunks_inside, view_inside. lia.
  - exists r', c'. split; [reflexivity|]. unfold chunks_inside, view_inside. lia.
Qed.

(* ------------------------------------------------------------------ list-level meaning *)

Lemma sub_prefix {A} (l : list A) a : 0 <= a -> sub l (V 0 a) = firstn (Z.to_nat a) l.
Proof. intros. unfold sub; cbn [off vlen]. reflexivity. Qed.

Lemma sub_suffix {A} (l : list A) a : 0 <= a <= zlen l ->
  sub l (V a (zlen l - a)) = skipn (Z.to_nat a) l.
Proof.
  intros H. unfold sub; cbn [off vlen]. apply firstn_all2.
  rewrite skipn_length. unfold zlen in *. lia.
Qed.

Lemma sub_range {A} (l : list A) s e :
  sub l (V s (e - s)) = firstn (Z.to_nat (e - s)) (skipn (Z.to_nat s) l).
Proof. reflexivity. Qed.

Lemma sub_empty {A} (l : list A) o : sub l (V o 0) = [].
Proof. reflexivity. Qed.

Lemma sub_whole {A} (l : list A) : sub l (whole (zlen l)) = l.
Proof.
  unfold sub, whole; cbn [off vlen skipn]. apply firstn_all2. unfold zlen. lia.
Qed.

(** views that are [view_eqv] denote the same elements *)
Lemma view_eqv_sub {A} (l : list A) a b : view_eqv a b -> sub l a = sub l b.
Proof.
  intros [Hl Ho]. unfold sub. rewrite <- Hl.
  destruct (Z.eq_dec (vlen a) 0) as [E|E].
  - rewrite E. reflexivity.
  - now rewrite (Ho E).
Qed.

(** split_at: the two halves are std's [(&l[..at], &l[at..])] and, clamped or not, always
    concatenate to the whole slice *)
Lemma split_at_list {A} (l : list A) a : 0 <= a <= zlen l ->
  let '(p, q) := clamped_split_at (zlen l) a in
  sub l p = firstn (Z.to_nat a) l /\ sub l q = skipn (Z.to_nat a) l.
Proof.
  intros H. unfold clamped_split_at, std_split_at.
  destruct (Z.leb_spec a (zlen l)); [|lia].
  split; [apply sub_prefix; lia | apply sub_suffix; lia].
Qed.

Lemma split_at_concat {A} (l : list A) a : 0 <= a ->
  let '(p, q) := clamped_split_at (zlen l) a in sub l p ++ sub l q = l.
Proof.
  intros H. unfold clamped_split_at, std_split_at.
  destruct (Z.leb_spec a (zlen l)).
  - rewrite sub_prefix, sub_suffix by lia. apply firstn_skipn.
  - rewrite sub_whole. unfold empty_view. rewrite sub_empty. apply app_nil_r.
Qed.

(** as_chunks / as_rchunks: arrays (as one flat run) and remainder concatenate to the slice *)
Lemma as_chunks_concat {A} (l : list A) N : 1 <= N ->
  let '(c, r) := std_as_chunks (zlen l) N in sub l (chunks_flat N c) ++ sub l r = l.
Proof.
  intros HN. pose proof (zlen_nonneg l) as Hl.
  pose proof (std_as_chunks_tiles (zlen l) N Hl HN) as H.
  unfold std_as_chunks in *. cbn [coff ccount off vlen] in H.
  destruct H as (_ & _ & Hsum & Hr & Hq).
  unfold chunks_flat; cbn [coff ccount].
  pose proof (div_mul_le (zlen l) N Hl HN) as Hd.
  replace (zlen l mod N) with (zlen l - zlen l / N * N) by lia.
  rewrite sub_prefix, sub_suffix by lia. apply firstn_skipn.
Qed.

Lemma as_rchunks_concat {A} (l : list A) N : 1 <= N ->
  let '(r, c) := std_as_rchunks (zlen l) N in sub l r ++ sub l (chunks_flat N c) = l.
Proof.
  intros HN. pose proof (zlen_nonneg l) as Hl.
  pose proof (std_as_rchunks_tiles (zlen l) N Hl HN) as H.
  unfold std_as_rchunks in *. cbn [coff ccount off vlen] in H.
  destruct H as (_ & _ & Hsum & Hr & Hq).
  unfold chunks_flat; cbn [coff ccount].
  replace (zlen l / N * N) with (zlen l - zlen l mod N) by lia.
  rewrite sub_prefix, sub_suffix by lia. apply firstn_skipn.
Qed.
