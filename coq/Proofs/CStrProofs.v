(** Lemmas for C20, CStr half: the first-nul scan, the length comparison of
    [from_bytes_with_nul], and the pointer walk of [to_bytes_with_nul]. *)
From KV Require Import Base.Prelude Model.Utf8Check Model.CStr Spec.Concat.

(* ------------------------------------------------------------------ list facts *)

Lemma first_nul_exists (l : list Z) : In 0 l -> exists pre post, first_nul_split l pre post.
Proof.
  induction l as [|b l IH]; intros Hin; [destruct Hin|].
  destruct (Z.eq_dec b 0) as [->|Hb].
  - exists [], l. split; [reflexivity|intros []].
  - destruct Hin as [->|Hin]; [congruence|].
    destruct (IH Hin) as [pre [post [-> Hn]]].
    exists (b :: pre), post. split; [reflexivity|].
    intros [H|H]; [congruence|exact (Hn H)].
Qed.

Lemma first_nul_split_in l pre post : first_nul_split l pre post -> In 0 l.
Proof. intros [-> _]. apply in_or_app. right. now left. Qed.

(** the first-nul split of a list is unique *)
Lemma first_nul_unique l : forall pre post pre' post',
  first_nul_split l pre post -> first_nul_split l pre' post' -> pre = pre' /\ post = post'.
Proof.
  intros pre. revert l. induction pre as [|b pre IH]; intros l post pre' post' [-> Hn] [E Hn'].
  - destruct pre' as [|b' pre']; cbn [app] in E.
    + inversion E. now split.
    + inversion E; subst. exfalso. apply Hn'. now left.
  - destruct pre' as [|b' pre']; cbn [app] in E.
    + inversion E; subst. exfalso. apply Hn. now left.
    + inversion E as [[Hb E']]; subst b'.
      destruct (IH (pre ++ 0 :: post) post pre' post') as [-> ->].
      * split; [reflexivity|]. intros H. apply Hn. now right.
      * split; [exact E'|]. intros H. apply Hn'. now right.
      * now split.
Qed.

Lemma firstn_app_exact {A} (a b : list A) : firstn (length a) (a ++ b) = a.
Proof. induction a as [|x a IH]; [reflexivity|]. cbn [length app firstn]. now rewrite IH. Qed.

Lemma to_nat_zlen_succ (l : list Z) : Z.to_nat (zlen l + 1) = length (l ++ [0]).
Proof. unfold zlen. rewrite app_length. cbn [length]. lia. Qed.

Lemma firstn_first_nul pre post :
  firstn (Z.to_nat (zlen pre + 1)) (pre ++ 0 :: post) = pre ++ [0].
Proof.
  rewrite to_nat_zlen_succ.
  replace (pre ++ 0 :: post) with ((pre ++ [0]) ++ post) by now rewrite <- app_assoc.
  apply firstn_app_exact.
Qed.

(* ------------------------------------------------------------------ the scan *)

Lemma until_nul_loop_found pre : forall post i,
  ~ In 0 pre -> until_nul_loop (pre ++ 0 :: post) i = Some (i + zlen pre + 1).
Proof.
  induction pre as [|b pre IH]; intros post i Hn.
  - cbn [app until_nul_loop]. rewrite Z.eqb_refl, zlen_nil. f_equal. lia.
  - cbn [app until_nul_loop]. destruct (b =? 0) eqn:E.
    + exfalso. apply Hn. left. lia.
    + rewrite IH by (intros H; apply Hn; now right). rewrite zlen_cons. f_equal. lia.
Qed.

Lemma until_nul_loop_none l : forall i, ~ In 0 l -> until_nul_loop l i = None.
Proof.
  induction l as [|b l IH]; intros i Hn; [reflexivity|].
  cbn [until_nul_loop]. destruct (b =? 0) eqn:E.
  - exfalso. apply Hn. left. lia.
  - apply IH. intros H. apply Hn. now right.
Qed.

Lemma slice_up_to_first_nul pre post :
  slice_up_to_m (pre ++ 0 :: post) (zlen pre + 1) = pre ++ [0].
Proof.
  unfold slice_up_to_m. rewrite zlen_app, zlen_cons.
  pose proof (zlen_nonneg post).
  destruct (zlen pre + (zlen post + 1) <? zlen pre + 1) eqn:E; [lia|].
  apply firstn_first_nul.
Qed.

Lemma inner_found pre post : ~ In 0 pre ->
  from_bytes_until_nul_inner_m (pre ++ 0 :: post) = Some (pre ++ [0], zlen pre + 1).
Proof.
  intros Hn. unfold from_bytes_until_nul_inner_m.
  rewrite until_nul_loop_found by exact Hn. rewrite Z.add_0_l.
  now rewrite slice_up_to_first_nul.
Qed.

Lemma inner_none l : ~ In 0 l -> from_bytes_until_nul_inner_m l = None.
Proof. intros Hn. unfold from_bytes_until_nul_inner_m. now rewrite until_nul_loop_none. Qed.

(* ------------------------------------------------------------------ from_bytes_until_nul *)

Lemma until_nul_found bytes pre post :
  first_nul_split bytes pre post -> from_bytes_until_nul_m bytes = Some (pre ++ [0]).
Proof.
  intros [-> Hn]. unfold from_bytes_until_nul_m. now rewrite inner_found.
Qed.

Lemma until_nul_some bytes c :
  from_bytes_until_nul_m bytes = Some c <->
  exists pre post, first_nul_split bytes pre post /\ c = pre ++ [0].
Proof.
  split.
  - intros H. destruct (in_dec Z.eq_dec 0 bytes) as [Hin|Hn].
    + destruct (first_nul_exists bytes Hin) as [pre [post Hs]].
      rewrite (until_nul_found _ _ _ Hs) in H. inversion H. now exists pre, post.
    + unfold from_bytes_until_nul_m in H. rewrite inner_none in H by exact Hn. discriminate.
  - intros [pre [post [Hs ->]]]. now apply until_nul_found with post.
Qed.

Lemma until_nul_ok_iff bytes :
  (exists c, from_bytes_until_nul_m bytes = Some c) <-> In 0 bytes.
Proof.
  split.
  - intros [c H]. apply until_nul_some in H as [pre [post [Hs _]]].
    exact (first_nul_split_in _ _ _ Hs).
  - intros Hin. destruct (first_nul_exists bytes Hin) as [pre [post Hs]].
    exists (pre ++ [0]). now apply until_nul_found with post.
Qed.

Lemma until_nul_none bytes : from_bytes_until_nul_m bytes = None <-> ~ In 0 bytes.
Proof.
  split.
  - intros H Hin. apply until_nul_ok_iff in Hin as [c Hc]. congruence.
  - intros Hn. unfold from_bytes_until_nul_m. now rewrite inner_none.
Qed.

(* ------------------------------------------------------------------ from_bytes_with_nul *)

Lemma index_last (l : list Z) z : index_m (l ++ [z]) (zlen (l ++ [z]) - 1) = Some z.
Proof.
  unfold index_m. rewrite zlen_app, zlen_cons, zlen_nil. pose proof (zlen_nonneg l).
  destruct (zlen l + (0 + 1) - 1 <? 0) eqn:E; [lia|].
  replace (Z.to_nat (zlen l + (0 + 1) - 1)) with (length l) by (unfold zlen; lia).
  rewrite nth_error_app2 by lia. now rewrite Nat.sub_diag.
Qed.

(** complete description of [from_bytes_with_nul] by the shape of the input *)
Lemma with_nul_terminated pre : ~ In 0 pre ->
  from_bytes_with_nul_m (pre ++ [0]) = WOk (pre ++ [0]).
Proof.
  intros Hn. unfold from_bytes_with_nul_m. rewrite inner_found by exact Hn.
  rewrite zlen_app, zlen_cons, zlen_nil, Z.eqb_refl. reflexivity.
Qed.

Lemma with_nul_no_nul l : ~ In 0 l -> from_bytes_with_nul_m l = WNotNulTerminated.
Proof. intros Hn. unfold from_bytes_with_nul_m. now rewrite inner_none. Qed.

Lemma with_nul_open pre mid z : ~ In 0 pre -> z <> 0 ->
  from_bytes_with_nul_m (pre ++ 0 :: mid ++ [z]) = WNotNulTerminated.
Proof.
  intros Hn Hz. unfold from_bytes_with_nul_m. rewrite inner_found by exact Hn.
  replace (pre ++ 0 :: mid ++ [z]) with ((pre ++ 0 :: mid) ++ [z]) by (rewrite <- app_assoc; reflexivity).
  rewrite index_last. rewrite !zlen_app, !zlen_cons, zlen_nil. pose proof (zlen_nonneg mid).
  destruct (zlen pre + 1 =? zlen pre + (zlen mid + 1) + (0 + 1)) eqn:E; [lia|].
  destruct (z =? 0) eqn:Ez; [lia|reflexivity].
Qed.

Lemma with_nul_interior pre mid : ~ In 0 pre ->
  from_bytes_with_nul_m (pre ++ 0 :: mid ++ [0]) = WInternalNul (zlen pre).
Proof.
  intros Hn. unfold from_bytes_with_nul_m. rewrite inner_found by exact Hn.
  replace (pre ++ 0 :: mid ++ [0]) with ((pre ++ 0 :: mid) ++ [0]) by (rewrite <- app_assoc; reflexivity).
  rewrite index_last. rewrite !zlen_app, !zlen_cons, zlen_nil. pose proof (zlen_nonneg mid).
  destruct (zlen pre + 1 =? zlen pre + (zlen mid + 1) + (0 + 1)) eqn:E; [lia|].
  cbn [negb Z.eqb]. rewrite Z.eqb_refl. cbn [negb]. f_equal. lia.
Qed.

(** every byte string has exactly one of the four shapes *)
Lemma shape_cases (l : list Z) :
  (~ In 0 l) \/
  (exists pre, ~ In 0 pre /\ l = pre ++ [0]) \/
  (exists pre mid z, ~ In 0 pre /\ z <> 0 /\ l = pre ++ 0 :: mid ++ [z]) \/
  (exists pre mid, ~ In 0 pre /\ l = pre ++ 0 :: mid ++ [0]).
Proof.
  destruct (in_dec Z.eq_dec 0 l) as [Hin|Hn]; [|now left]. right.
  destruct (first_nul_exists l Hin) as [pre [post [-> Hn]]].
  destruct post as [|p post] using rev_ind.
  - left. now exists pre.
  - right. clear IHpost. destruct (Z.eq_dec p 0) as [->|Hp].
    + right. now exists pre, post.
    + left. now exists pre, post, p.
Qed.

Lemma with_nul_spec bytes :
  match from_bytes_with_nul_m bytes with
  | WOk c => c = bytes /\ exists pre, bytes = pre ++ [0] /\ ~ In 0 pre
  | WNotNulTerminated => ~ exists pre, bytes = pre ++ [0]
  | WInternalNul p =>
      exists pre mid, bytes = pre ++ 0 :: mid ++ [0] /\ ~ In 0 pre /\ p = zlen pre
  | WPanic => False
  end.
Proof.
  destruct (shape_cases bytes) as [Hn|[[pre [Hn ->]]|[[pre [mid [z [Hn [Hz ->]]]]]|[pre [mid [Hn ->]]]]]].
  - rewrite with_nul_no_nul by exact Hn. intros [pre ->]. apply Hn, in_or_app. right. now left.
  - rewrite with_nul_terminated by exact Hn. split; [reflexivity|]. now exists pre.
  - rewrite with_nul_open by assumption. intros [pre' E].
    replace (pre ++ 0 :: mid ++ [z]) with ((pre ++ 0 :: mid) ++ [z]) in E by (rewrite <- app_assoc; reflexivity).
    apply app_inj_tail in E as [_ E]. congruence.
  - rewrite with_nul_interior by exact Hn. now exists pre, mid.
Qed.

Lemma with_nul_ok_iff bytes c :
  from_bytes_with_nul_m bytes = WOk c <->
  c = bytes /\ exists pre, bytes = pre ++ [0] /\ ~ In 0 pre.
Proof.
  split.
  - intros H. pose proof (with_nul_spec bytes) as S. rewrite H in S. exact S.
  - intros [-> [pre [-> Hn]]]. now apply with_nul_terminated.
Qed.

(** success of the two constructors, related: with_nul succeeds iff until_nul consumes
    the whole input (the first nul is the last byte) *)
Lemma with_nul_ok_iff_until bytes c :
  from_bytes_with_nul_m bytes = WOk c <-> from_bytes_until_nul_m bytes = Some c /\ c = bytes.
Proof.
  rewrite with_nul_ok_iff, until_nul_some. split.
  - intros [-> [pre [E Hn]]]. split; [|reflexivity].
    exists pre, []. split; [|exact E]. split; [exact E|exact Hn].
  - intros [[pre [post [[E Hn] Ec]]] ->]. split; [reflexivity|]. exists pre. split; [exact Ec|exact Hn].
Qed.

(* ------------------------------------------------------------------ conversions *)

Lemma walk_to_nul_found pre : forall rest i,
  ~ In 0 pre -> walk_to_nul (pre ++ 0 :: rest) i = Some (i + zlen pre).
Proof.
  induction pre as [|b pre IH]; intros rest i Hn.
  - cbn [app walk_to_nul]. rewrite Z.eqb_refl. cbn [negb]. rewrite zlen_nil. f_equal. lia.
  - cbn [app walk_to_nul]. destruct (b =? 0) eqn:E.
    + exfalso. apply Hn. left. lia.
    + cbn [negb]. rewrite IH by (intros H; apply Hn; now right). rewrite zlen_cons. f_equal. lia.
Qed.

Lemma walk_to_nul_none l : forall i, ~ In 0 l -> walk_to_nul l i = None.
Proof.
  induction l as [|b l IH]; intros i Hn; [reflexivity|].
  cbn [walk_to_nul]. destruct (b =? 0) eqn:E.
  - exfalso. apply Hn. left. lia.
  - cbn [negb]. apply IH. intros H. apply Hn. now right.
Qed.

(** the pointer walk recovers exactly the CStr, whatever memory follows it *)
Lemma to_bytes_with_nul_roundtrip pre rest : ~ In 0 pre ->
  to_bytes_with_nul_m ((pre ++ [0]) ++ rest) = Some (pre ++ [0]).
Proof.
  intros Hn. unfold to_bytes_with_nul_m. rewrite <- app_assoc. cbn [app].
  rewrite walk_to_nul_found by exact Hn. rewrite Z.add_0_l. now rewrite firstn_first_nul.
Qed.

(** the walk is UB exactly when there is no terminator in the memory it reads *)
Lemma to_bytes_with_nul_ub mem : to_bytes_with_nul_m mem = None <-> ~ In 0 mem.
Proof.
  split.
  - intros H Hin. destruct (first_nul_exists mem Hin) as [pre [post [-> Hn]]].
    unfold to_bytes_with_nul_m in H. rewrite walk_to_nul_found in H by exact Hn. discriminate.
  - intros Hn. unfold to_bytes_with_nul_m. now rewrite walk_to_nul_none.
Qed.

Lemma to_bytes_roundtrip pre rest : ~ In 0 pre ->
  to_bytes_m ((pre ++ [0]) ++ rest) = CDone pre.
Proof.
  intros Hn. unfold to_bytes_m. rewrite to_bytes_with_nul_roundtrip by exact Hn.
  rewrite rev_app_distr. cbn [rev app]. rewrite Z.eqb_refl. now rewrite rev_involutive.
Qed.

Lemma to_str_roundtrip pre rest : ~ In 0 pre ->
  to_str_m ((pre ++ [0]) ++ rest) = CDone (if utf8_ok pre then Some pre else None).
Proof. intros Hn. unfold to_str_m. now rewrite to_bytes_roundtrip. Qed.

(** composed with the constructors: what the harness observes *)
Lemma until_nul_then_to_bytes bytes c :
  from_bytes_until_nul_m bytes = Some c ->
  exists pre post, first_nul_split bytes pre post /\
    to_bytes_with_nul_m bytes = Some c /\ to_bytes_m bytes = CDone pre /\
    to_bytes_with_nul_m c = Some c /\ to_bytes_m c = CDone pre.
Proof.
  intros H. apply until_nul_some in H as [pre [post [[-> Hn] ->]]].
  exists pre, post. split; [now split|].
  replace (pre ++ 0 :: post) with ((pre ++ [0]) ++ post) by (rewrite <- app_assoc; reflexivity).
  rewrite to_bytes_with_nul_roundtrip, to_bytes_roundtrip by exact Hn.
  pose proof (to_bytes_with_nul_roundtrip pre [] Hn) as H1.
  pose proof (to_bytes_roundtrip pre [] Hn) as H2.
  rewrite app_nil_r in H1, H2. now rewrite H1, H2.
Qed.
