(** chains that cannot break out of the loop nest (no take, take_while, zip) under a consumer that
    never exits early pull the WHOLE source -- exactly what the std chain under for_each / collect
    does.  Together with DslPullsProofs this locates F11 in [take] alone. *)
From KV Require Import Base.Prelude Model.Dsl Model.DslPulls.

Definition nostop (a : adapter) : bool :=
  match a with ATake _ | ATakeWhile _ | AZip _ => false | _ => true end.

Definition cell_ok (a : adapter) (c : cell) : Prop :=
  match a, c with
  | AEnumerate, CNat _ | ASkip _, CNat _ | ASkipWhile _, CBool _ => True
  | AEnumerate, _ | ASkip _, _ | ASkipWhile _, _ => False
  | _, _ => True
  end.

Fixpoint wf (ms : list adapter) (cs : list cell) : Prop :=
  match ms, cs with
  | [], _ => True
  | a :: ms', c :: cs' => cell_ok a c /\ wf ms' cs'
  | _ :: _, [] => False
  end.

Lemma wf_init ms : wf ms (map init_cell ms).
Proof. induction ms as [|a ms IH]; [exact I|]. split; [destruct a; exact I | exact IH]. Qed.

Definition never_stops (ms : list adapter) : Prop :=
  forall dir cs s v, wf ms cs ->
    exists cs' s', push (cstep CForEach) ms dir (cs, KItems s) v = ((cs', KItems s'), false) /\ wf ms cs'.

Lemma fold_never_stops ms : never_stops ms ->
  forall dir ws cs s, wf ms cs ->
    exists cs' s', fold_stop (push (cstep CForEach) ms dir) (cs, KItems s) ws = ((cs', KItems s'), false) /\ wf ms cs'.
Proof.
  intros Hns dir ws. induction ws as [|w ws IH]; intros cs s Hwf.
  - exists cs, s. split; [reflexivity | exact Hwf].
  - cbn [fold_stop]. destruct (Hns dir cs s w Hwf) as [cs1 [s1 [E1 Hwf1]]]. rewrite E1.
    exact (IH cs1 s1 Hwf1).
Qed.

Lemma push_nostop ms : forallb nostop ms = true -> never_stops ms.
Proof.
  induction ms as [|a ms IH]; intros Hns.
  - intros dir cs s v _. exists cs, (s ++ [v]). split; [reflexivity | exact I].
  - cbn [forallb] in Hns. apply andb_true_iff in Hns. destruct Hns as [Ha Hms].
    specialize (IH Hms).
    intros dir cs s v Hwf. destruct cs as [|c cs]; [contradiction|]. destruct Hwf as [Hc Hwf].
    assert (Hemit : forall c' v', cell_ok a c' ->
      exists cs' s', (let '((st'', s'), b) := push (cstep CForEach) ms (ndir a dir) (cs, KItems s) v' in
                      ((c' :: st'', s'), b)) = ((cs', KItems s'), false) /\ wf (a :: ms) cs').
    { intros c' v' Hc'. destruct (IH (ndir a dir) cs s v' Hwf) as [cs1 [s1 [E1 Hwf1]]].
      rewrite E1. exists (c' :: cs1), s1. split; [reflexivity | split; assumption]. }
    assert (Hinner : forall c' ws, cell_ok a c' ->
      exists cs' s', (let '((st'', s'), b) := fold_stop (push (cstep CForEach) ms (ndir a dir)) (cs, KItems s) ws in
                      ((c' :: st'', s'), b)) = ((cs', KItems s'), false) /\ wf (a :: ms) cs').
    { intros c' ws Hc'. destruct (fold_never_stops ms IH (ndir a dir) ws cs s Hwf) as [cs1 [s1 [E1 Hwf1]]].
      rewrite E1. exists (c' :: cs1), s1. split; [reflexivity | split; assumption]. }
    assert (Hskip : forall c', cell_ok a c' ->
      exists cs' s', ((c' :: cs, KItems s), false) = ((cs', KItems s'), false) /\ wf (a :: ms) cs').
    { intros c' Hc'. exists (c' :: cs), s. split; [reflexivity | split; assumption]. }
    destruct a; try discriminate Ha; cbn [push fst snd local].
    + (* copied *) apply Hemit; exact Hc.
    + (* enumerate *) destruct c; try contradiction. apply Hemit; exact I.
    + (* filter *) destruct (p v); [apply Hemit | apply Hskip]; exact Hc.
    + (* filter_map *) destruct (f v); [apply Hemit | apply Hskip]; exact Hc.
    + (* flat_map *) apply Hinner; exact Hc.
    + (* flatten *) apply Hinner; exact Hc.
    + (* map *) apply Hemit; exact Hc.
    + (* rev *) apply Hemit; exact Hc.
    + (* skip *) destruct c; try contradiction. destruct n0; [apply Hemit | apply Hskip]; exact I.
    + (* skip_while *) destruct c; try contradiction. destruct (b && p v)%bool; [apply Hskip | apply Hemit]; exact I.
Qed.

Lemma count_never_stops ms : never_stops ms ->
  forall dir src cs s, wf ms cs ->
    fold_stop_count (push (cstep CForEach) ms dir) (cs, KItems s) src = length src.
Proof.
  intros Hns dir src. induction src as [|v src IH]; intros cs s Hwf; [reflexivity|].
  cbn [fold_stop_count length]. destruct (Hns dir cs s v Hwf) as [cs1 [s1 [E1 Hwf1]]]. rewrite E1.
  f_equal. exact (IH cs1 s1 Hwf1).
Qed.

Lemma dirlist_length' d (l : list dval) : length (dirlist d l) = length l.
Proof. destruct d; cbn [dirlist]; [apply rev_length | reflexivity]. Qed.

Theorem dsl_nostop_pulls_all (ms : list adapter) (src : list dval) :
  forallb nostop ms = true -> pulled ms CForEach src = length src.
Proof.
  intros Hns. unfold pulled. cbv zeta. cbn [cinit].
  rewrite (count_never_stops ms (push_nostop ms Hns) _ _ _ _ (wf_init ms)).
  apply dirlist_length'.
Qed.

Example nostop_witness :
  forallb nostop [ACopied; AFilter (fun _ => true); ASkip 1; AFlatMap (fun v => [v; v]); ARev] = true.
Proof. reflexivity. Qed.
