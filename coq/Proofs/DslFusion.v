(** Step 1 of C10: the loop nest the macros expand to computes the compositional list
    semantics [doc_sem] — for EVERY chain, consumer and source (incl. the known-finding
    class).  The fusion lemma is proved once, generically in the adapter. *)
From KV Require Import Base.Prelude Base.Deque Model.Dsl Spec.Dsl.

Lemma fold_stop_app {X} (step : X -> dval -> X * bool) x l1 l2 :
  fold_stop step x (l1 ++ l2) =
  let '(x1, b1) := fold_stop step x l1 in
  if b1 then (x1, true) else fold_stop step x1 l2.
Proof.
  revert x; induction l1 as [|v l1 IH]; intros x; cbn [fold_stop app].
  - reflexivity.
  - destruct (step x v) as [x1 b]; destruct b; [reflexivity | apply IH].
Qed.

Section Fusion.
  Variable S : Type.
  Variable step : S -> dval -> S * bool.

  Definition sink (r : (list cell * S) * bool) : S := snd (fst r).

  (** running (a :: ms) over l = running ms over what [a] lets through *)
  Lemma fusion a ms dir : forall l c st s,
    sink (fold_stop (push step (a :: ms) dir) (c :: st, s) l) =
    sink (fold_stop (push step ms (ndir a dir)) (st, s) (lapply a dir c l)).
  Proof.
    induction l as [|v l IH]; intros c st s; [reflexivity|].
    cbn [fold_stop lapply]. cbn [push fst snd].
    destruct (local a dir c v) as [c' | | c' v' | c' ws].
    - (* continue *) apply IH.
    - (* break *) reflexivity.
    - (* emit *) cbn [fold_stop].
      destruct (push step ms (ndir a dir) (st, s) v') as [[st'' s'] b]. destruct b; [reflexivity | apply IH].
    - (* nested loop *) rewrite fold_stop_app.
      destruct (fold_stop (push step ms (ndir a dir)) (st, s) ws) as [[st'' s'] b]. destruct b; [reflexivity | apply IH].
  Qed.

  Lemma push_nil_run dir : forall l st s,
    sink (fold_stop (push step [] dir) (st, s) l) = fst (fold_stop step s l).
  Proof.
    induction l as [|v l IH]; intros st s; [reflexivity|].
    cbn [fold_stop push fst snd]. destruct (step s v) as [s' b]. destruct b; [reflexivity | apply IH].
  Qed.

  Lemma push_no_cells a ms dir l s :
    sink (fold_stop (push step (a :: ms) dir) ([], s) l) = s.
  Proof. destruct l; reflexivity. Qed.

  Theorem loop_eq_den : forall ms dir st s l,
    sink (fold_stop (push step ms dir) (st, s) l) = fst (fold_stop step s (den ms dir st l)).
  Proof.
    induction ms as [|a ms IH]; intros dir st s l.
    - apply push_nil_run.
    - destruct st as [|c st]; [apply push_no_cells|].
      rewrite fusion. cbn [den]. apply IH.
  Qed.
End Fusion.

(* ------------------------------------------------------------------ consumers *)

Lemma fold_items : forall l acc, fst (fold_stop (cstep CForEach) (KItems acc) l) = KItems (acc ++ l).
Proof.
  induction l as [|v l IH]; intros acc; cbn [fold_stop cstep]; [now rewrite app_nil_r|].
  rewrite IH, <- app_assoc. reflexivity.
Qed.

Lemma fold_all p : forall l, fst (fold_stop (cstep (CAll p)) (KBool true) l) = KBool (forallb p l).
Proof.
  induction l as [|v l IH]; cbn [fold_stop cstep forallb]; [reflexivity|].
  destruct (p v); cbn [andb]; [apply IH | reflexivity].
Qed.

Lemma fold_any p : forall l, fst (fold_stop (cstep (CAny p)) (KBool false) l) = KBool (existsb p l).
Proof.
  induction l as [|v l IH]; cbn [fold_stop cstep existsb]; [reflexivity|].
  destruct (p v); cbn [orb]; [reflexivity | apply IH].
Qed.

Lemma fold_count : forall l n, fst (fold_stop (cstep CCount) (KNat n) l) = KNat (n + length l).
Proof.
  induction l as [|v l IH]; intros n; cbn [fold_stop cstep length fst]; [f_equal; lia|].
  rewrite IH. f_equal. lia.
Qed.

Lemma fold_find c p : (c = CFind p \/ c = CRFind p) ->
  forall l, fst (fold_stop (cstep c) (KOpt None) l) = KOpt (find p l).
Proof.
  intros Hc; induction l as [|v l IH]; [reflexivity|].
  destruct Hc as [-> | ->]; cbn [fold_stop cstep find]; (destruct (p v); [reflexivity|]);
    (apply IH; auto).
Qed.

Lemma fold_find_map f : forall l, fst (fold_stop (cstep (CFindMap f)) (KOpt None) l) = KOpt (find_map f l).
Proof.
  induction l as [|v l IH]; cbn [fold_stop cstep find_map]; [reflexivity|].
  destruct (f v); [reflexivity | apply IH].
Qed.

Lemma fold_fold c a0 f : (c = CFold a0 f \/ c = CRFold a0 f) ->
  forall l a, fst (fold_stop (cstep c) (KAcc a) l) = KAcc (fold_left f l a).
Proof.
  intros Hc; induction l as [|v l IH]; intros a; [reflexivity|].
  destruct Hc as [-> | ->]; cbn [fold_stop cstep fold_left]; apply IH; auto.
Qed.

Lemma fold_next : forall l, fst (fold_stop (cstep CNext) (KOpt None) l) = KOpt (hd_error l).
Proof. destruct l; reflexivity. Qed.

Lemma fold_nth m : forall l n,
  cresult (fst (fold_stop (cstep (CNth m)) (KNth n None) l)) = dopt (nth_error l n).
Proof.
  induction l as [|v l IH]; intros n; cbn [fold_stop cstep].
  - destruct n; reflexivity.
  - destruct n as [|k]; [reflexivity | apply IH].
Qed.

Lemma fold_position c p : (c = CPosition p \/ c = CRPosition p) ->
  forall l i, cresult (fst (fold_stop (cstep c) (KPos i None) l))
              = dopt (option_map (fun i => DInt (Z.of_nat i)) (position_from p i l)).
Proof.
  intros Hc; induction l as [|v l IH]; intros i; [reflexivity|].
  destruct Hc as [-> | ->]; cbn [fold_stop cstep position_from]; (destruct (p v); [reflexivity|]);
    (apply IH; auto).
Qed.

Theorem consumer_eq_consume c l :
  cresult (fst (fold_stop (cstep c) (cinit c) l)) = consume c l.
Proof.
  destruct c; cbn [cinit consume].
  - rewrite fold_items. reflexivity.
  - rewrite fold_all. reflexivity.
  - rewrite fold_any. reflexivity.
  - rewrite fold_count. reflexivity.
  - rewrite (fold_find (CFind p) p) by auto. reflexivity.
  - rewrite fold_find_map. reflexivity.
  - rewrite (fold_find (CRFind p) p) by auto. reflexivity.
  - rewrite (fold_fold (CFold a f) a f) by auto. reflexivity.
  - rewrite (fold_fold (CRFold a f) a f) by auto. reflexivity.
  - rewrite fold_next. reflexivity.
  - apply fold_nth.
  - apply (fold_position (CPosition p) p). auto.
  - apply (fold_position (CRPosition p) p). auto.
Qed.

(** the expansion computes the compositional semantics — all chains, all sources *)
Theorem macro_eq_doc ms c src : macro_sem ms c src = doc_sem ms c src.
Proof.
  unfold macro_sem, doc_sem, run_loop.
  change (snd (fst ?r)) with (sink _ r).
  rewrite loop_eq_den. apply consumer_eq_consume.
Qed.
