(** C19, min/max part. *)
From KV Require Import Base.Prelude Model.MinMax Spec.MinMax.

Section Proofs.
  Context {A K : Type}.

  Lemma min_eq_std (cmp : A -> A -> comparison) l r : min_m cmp l r = std_min cmp l r.
  Proof. unfold min_m, std_min, std_min_by. destruct (cmp l r); reflexivity. Qed.
  Lemma max_eq_std (cmp : A -> A -> comparison) l r : max_m cmp l r = std_max cmp l r.
  Proof. unfold max_m, std_max, std_max_by. destruct (cmp l r); reflexivity. Qed.
  Lemma min_by_eq_std (f : A -> A -> comparison) l r : min_by_m f l r = std_min_by f l r.
  Proof. unfold min_by_m, std_min_by. destruct (f l r); reflexivity. Qed.
  Lemma max_by_eq_std (f : A -> A -> comparison) l r : max_by_m f l r = std_max_by f l r.
  Proof. unfold max_by_m, std_max_by. destruct (f l r); reflexivity. Qed.

  Lemma min_by_key_eq_std (cmpk : K -> K -> comparison) (key : A -> K) l r :
    min_by_key_m cmpk key l r = std_min_by_key cmpk key l r.
  Proof.
    unfold min_by_key_m, minmax_by_key_inner, std_min_by_key, std_min_by.
    destruct (cmpk (key l) (key r)); reflexivity.
  Qed.

  (** the argument swap of max_by_key! is harmless exactly because key comparison is
      antisymmetric: key(r) < key(l) iff key(l) > key(r) *)
  Lemma max_by_key_eq_std (cmpk : K -> K -> comparison) (key : A -> K) l r :
    antisym cmpk ->
    max_by_key_m cmpk key l r = std_max_by_key cmpk key l r.
  Proof.
    intros Hanti.
    unfold max_by_key_m, minmax_by_key_inner, std_max_by_key, std_max_by.
    rewrite (Hanti (key r) (key l)).
    destruct (cmpk (key l) (key r)); reflexivity.
  Qed.

  (** without antisymmetry the swap IS observable *)
  Lemma max_by_key_needs_antisym :
    exists (cmpk : bool -> bool -> comparison) (key : bool -> bool) l r,
      max_by_key_m cmpk key l r <> std_max_by_key cmpk key l r.
  Proof. exists (fun _ _ => Gt), (fun b => b), true, false. discriminate. Qed.

  (** tie direction, stated on its own *)
  Lemma min_family_tie_first (cmp : A -> A -> comparison) (cmpk : K -> K -> comparison) key l r :
    (cmp l r = Eq -> min_m cmp l r = L /\ min_by_m cmp l r = L) /\
    (cmpk (key l) (key r) = Eq -> min_by_key_m cmpk key l r = L).
  Proof.
    unfold min_m, min_by_m, min_by_key_m, minmax_by_key_inner.
    split; intros H; rewrite H; auto.
  Qed.
  Lemma max_family_tie_second (cmp : A -> A -> comparison) (cmpk : K -> K -> comparison) key l r :
    antisym cmpk ->
    (cmp l r = Eq -> max_m cmp l r = R /\ max_by_m cmp l r = R) /\
    (cmpk (key l) (key r) = Eq -> max_by_key_m cmpk key l r = R).
  Proof.
    intros Hanti. unfold max_m, max_by_m, max_by_key_m, minmax_by_key_inner.
    split; intros H.
    - rewrite H; auto.
    - rewrite (Hanti (key r) (key l)), H. reflexivity.
  Qed.

  (** the documented std behaviour and the [is_lt(compare(v2, v1))] shape of the current
      std sources agree for antisymmetric comparators *)
  Lemma std_min_by_lt_eq (c : A -> A -> comparison) v1 v2 :
    antisym c -> std_min_by_lt c v1 v2 = std_min_by c v1 v2.
  Proof.
    intros H. unfold std_min_by_lt, std_min_by. rewrite (H v2 v1).
    destruct (c v1 v2); reflexivity.
  Qed.
  Lemma std_max_by_lt_eq (c : A -> A -> comparison) v1 v2 :
    antisym c -> std_max_by_lt c v1 v2 = std_max_by c v1 v2.
  Proof.
    intros H. unfold std_max_by_lt, std_max_by. rewrite (H v2 v1).
    destruct (c v1 v2); reflexivity.
  Qed.

  (** the value that comes back is one of the two arguments, and it is a least / greatest one *)
  Lemma min_returns_least (c : A -> A -> comparison) l r :
    antisym c ->
    c (pick (min_m c l r) l r) l <> Gt /\ c (pick (min_m c l r) l r) r <> Gt.
  Proof.
    intros H. unfold min_m. pose proof (H l l) as Hll. pose proof (H r r) as Hrr.
    pose proof (H r l) as Hrl.
    destruct (c l r) eqn:E; cbn [pick CompOpp] in *; split; try congruence;
      try (destruct (c l l); cbn in Hll; congruence);
      try (destruct (c r r); cbn in Hrr; congruence).
  Qed.
End Proofs.

Lemma Z_compare_antisym : antisym Z.compare.
Proof. intros a b. apply Z.compare_antisym. Qed.
