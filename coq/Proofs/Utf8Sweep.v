(** Complete sweeps of finite domains by [vm_compute] (kept in their own file so that the
    compiled result is cached). *)
From KV Require Import Base.Prelude Model.Utf8.

(* ------------------------------------------------------------------ finite sweeps *)

(** [all_below n P]: [P 0 && P 1 && .. && P (n-1)], iterating on the binary [positive] *)
Definition sweep_step (P : Z -> bool) (st : Z * bool) : Z * bool :=
  (fst st + 1, snd st && P (fst st)).
Definition all_below (n : positive) (P : Z -> bool) : bool :=
  snd (Pos.iter (sweep_step P) (0, true) n).

Lemma sweep_inv P n :
  fst (Pos.iter (sweep_step P) (0, true) n) = Z.pos n /\
  (snd (Pos.iter (sweep_step P) (0, true) n) = true -> forall i, 0 <= i < Z.pos n -> P i = true).
Proof.
  induction n as [|n [F S]] using Pos.peano_ind.
  - cbn. split; [reflexivity|]. intros H i Hi. assert (i = 0) as -> by lia. exact H.
  - rewrite Pos.iter_succ. cbn [sweep_step fst snd]. split; [rewrite F; lia|].
    intros H i Hi. apply andb_true_iff in H as [H1 H2].
    destruct (Z.eq_dec i (Z.pos n)) as [->|N]; [now rewrite <- F | apply S; trivial; lia].
Qed.

Lemma all_below_spec n P : all_below n P = true -> forall i, 0 <= i < Z.pos n -> P i = true.
Proof. intros H. now apply (sweep_inv P n). Qed.

(** every code point 0 ..= 0x10FFFF (surrogates included: the codec does not care) *)
Lemma dec_sweep : all_below 1114112 (fun c => string_to_usv_m (encode_m c) =? c) = true.
Proof. vm_compute. reflexivity. Qed.

