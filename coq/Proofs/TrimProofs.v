From KV Require Import Base.Prelude Model.Search Model.Trim Spec.Search Spec.Trim Proofs.SearchProofs.
Local Open Scope nat_scope.

(* ------------------------------------------------------------ prefix / suffix as functions *)

Lemma is_prefix_firstn (p h : list Z) :
  is_prefix p h <-> (length p <= length h /\ firstn (length p) h = p).
Proof.
  split.
  - intros [r ->]. split; [rewrite app_length; lia|].
    rewrite firstn_app, Nat.sub_diag, firstn_all. cbn [firstn]. now rewrite app_nil_r.
  - intros [_ E]. exists (skipn (length p) h). rewrite <- E at 1. now rewrite firstn_skipn.
Qed.

Lemma prefixb_spec p h : prefixb p h = true <-> is_prefix p h.
Proof.
  unfold prefixb. rewrite andb_true_iff, Nat.leb_le, list_eqb_Z_spec. symmetry. apply is_prefix_firstn.
Qed.

Lemma is_suffix_skipn (p h : list Z) :
  is_suffix p h <-> (length p <= length h /\ skipn (length h - length p) h = p).
Proof.
  split.
  - intros [r ->]. split; [rewrite app_length; lia|].
    rewrite app_length, Nat.add_sub, skipn_app, skipn_all, Nat.sub_diag. reflexivity.
  - intros [_ E]. exists (firstn (length h - length p) h). rewrite <- E at 2. now rewrite firstn_skipn.
Qed.

Lemma suffixb_spec p h : suffixb p h = true <-> is_suffix p h.
Proof.
  unfold suffixb. rewrite andb_true_iff, Nat.leb_le, list_eqb_Z_spec. symmetry. apply is_suffix_skipn.
Qed.

Theorem strip_prefix_eq h p :
  strip_prefix_m h p = if prefixb p h then Some (skipn (length p) h) else None.
Proof.
  destruct (prefixb p h) eqn:E.
  - apply prefixb_spec in E. destruct E as [r ->]. apply strip_prefix_m_spec.
    now rewrite skipn_app, skipn_all, Nat.sub_diag.
  - apply strip_prefix_m_none. intro H. apply prefixb_spec in H. congruence.
Qed.

Theorem strip_suffix_eq h p :
  strip_suffix_m h p = if suffixb p h then Some (firstn (length h - length p) h) else None.
Proof.
  destruct (suffixb p h) eqn:E.
  - apply suffixb_spec in E. destruct E as [r ->]. apply strip_suffix_m_spec.
    rewrite app_length, Nat.add_sub, firstn_app, Nat.sub_diag, firstn_all. cbn [firstn].
    now rewrite app_nil_r.
  - destruct (strip_suffix_m h p) as [r|] eqn:F; [|reflexivity].
    apply strip_suffix_m_spec in F. assert (is_suffix p h) as S by now exists r.
    apply suffixb_spec in S. congruence.
Qed.

Theorem starts_with_eq h p : starts_with_m h p = prefixb p h.
Proof.
  apply eq_true_iff_eq. rewrite starts_with_m_spec, prefixb_spec. reflexivity.
Qed.

Theorem ends_with_eq h p : ends_with_m h p = suffixb p h.
Proof.
  apply eq_true_iff_eq. rewrite ends_with_m_spec, suffixb_spec. reflexivity.
Qed.

Theorem strip_suffix_m_none l p : strip_suffix_m l p = None <-> ~ is_suffix p l.
Proof.
  rewrite strip_suffix_eq. destruct (suffixb p l) eqn:E.
  - apply suffixb_spec in E. split; [discriminate | contradiction].
  - split; [|reflexivity]. intros _ H. apply suffixb_spec in H. congruence.
Qed.

(* ------------------------------------------------------------ repetitions *)

Lemma reps_0 p : reps p 0 = [].
Proof. reflexivity. Qed.
Lemma reps_S p k : reps p (S k) = p ++ reps p k.
Proof. reflexivity. Qed.
Lemma reps_add p j k : reps p (j + k) = reps p j ++ reps p k.
Proof.
  induction j as [|j IH]; [reflexivity|].
  cbn [Nat.add]. rewrite !reps_S, IH. now rewrite app_assoc.
Qed.
Lemma reps_S_r p k : reps p (S k) = reps p k ++ p.
Proof.
  replace (S k) with (k + 1) by lia. rewrite reps_add. cbn. now rewrite app_nil_r.
Qed.
Lemma rev_reps p k : rev (reps p k) = reps (rev p) k.
Proof.
  induction k as [|k IH]; [reflexivity|].
  rewrite reps_S, rev_app_distr, IH, <- reps_S_r. reflexivity.
Qed.
Lemma reps_nil k : reps [] k = [].
Proof. induction k as [|k IH]; [reflexivity|]. now rewrite reps_S, IH. Qed.

(** the specification determines its result (non-empty pattern) *)
Lemma trim_start_spec_unique h p r1 r2 :
  trim_start_spec h p r1 -> trim_start_spec h p r2 -> r1 = r2.
Proof.
  intros [k1 [E1 N1]] [k2 [E2 N2]].
  destruct (Nat.lt_trichotomy k1 k2) as [L|[E|L]].
  - exfalso. apply N1. replace k2 with (k1 + S (k2 - k1 - 1)) in E2 by lia.
    rewrite reps_add, <- app_assoc in E2. rewrite E1 in E2. apply app_inv_head in E2.
    rewrite reps_S, <- app_assoc in E2. now exists (reps p (k2 - k1 - 1) ++ r2).
  - subst k2. rewrite E1 in E2. now apply app_inv_head in E2.
  - exfalso. apply N2. replace k1 with (k2 + S (k1 - k2 - 1)) in E1 by lia.
    rewrite reps_add, <- app_assoc in E1. rewrite E2 in E1. apply app_inv_head in E1.
    rewrite reps_S, <- app_assoc in E1. now exists (reps p (k1 - k2 - 1) ++ r1).
Qed.

Lemma trim_end_spec_rev h p r :
  trim_end_spec h p r <-> trim_start_spec (rev h) (rev p) (rev r).
Proof.
  split; intros [k [E N]]; exists k.
  - split.
    + rewrite E, rev_app_distr, rev_reps. reflexivity.
    + intro H. apply N. apply is_suffix_rev. exact H.
  - split.
    + apply (f_equal (@rev Z)) in E. rewrite rev_involutive, rev_app_distr, rev_involutive in E.
      rewrite E, rev_reps, rev_involutive. reflexivity.
    + intro H. apply N. apply is_suffix_rev in H. exact H.
Qed.

Lemma trim_end_spec_unique h p r1 r2 :
  trim_end_spec h p r1 -> trim_end_spec h p r2 -> r1 = r2.
Proof.
  intros H1 H2. apply trim_end_spec_rev in H1. apply trim_end_spec_rev in H2.
  pose proof (trim_start_spec_unique _ _ _ _ H1 H2) as E.
  apply (f_equal (@rev Z)) in E. now rewrite !rev_involutive in E.
Qed.

(** an empty pattern can never stop matching: the specification is unsatisfiable, which is
    why std (and konst) treat the empty pattern separately *)
Lemma trim_start_spec_nil h r : ~ trim_start_spec h [] r.
Proof. intros [k [_ N]]. apply N. now exists r. Qed.

(* ------------------------------------------------------------ the two loops *)

Lemma trim_inner_some this m r : trim_inner this m = Some r <-> this = m ++ r.
Proof.
  revert this; induction m as [|bm m IH]; intros this; cbn [trim_inner app].
  - split; intro H; [now inversion H | now subst].
  - destruct this as [|b rem].
    + split; discriminate.
    + destruct (Z.eqb_spec b bm) as [->|Hne].
      * rewrite IH. split; intro H; [now subst | now inversion H].
      * split; [discriminate|]. intro H; inversion H; contradiction.
Qed.

Lemma trim_inner_none this m : trim_inner this m = None <-> ~ is_prefix m this.
Proof.
  split.
  - intros H [r Hr]. apply trim_inner_some in Hr. congruence.
  - intros H. destruct (trim_inner this m) as [r|] eqn:E; [|reflexivity].
    exfalso. apply H. exists r. now apply trim_inner_some.
Qed.

(** one iteration of the outer loop: a whole repetition is removed, or the loop returns *)
Lemma trim_start_outer_step_match f p r :
  p <> [] -> trim_start_outer (S f) (p ++ r) p = trim_start_outer f r p.
Proof.
  intros Hp. destruct p as [|bm remm]; [contradiction|].
  cbn [trim_start_outer app]. rewrite Z.eqb_refl.
  destruct (trim_inner (remm ++ r) remm) as [t|] eqn:E.
  - apply trim_inner_some in E. apply app_inv_head in E. now subst.
  - apply trim_inner_none in E. exfalso. apply E. now exists r.
Qed.

Lemma trim_start_outer_step_stop f this p :
  ~ is_prefix p this -> trim_start_outer (S f) this p = Some this.
Proof.
  intros N. cbn [trim_start_outer].
  destruct this as [|b rem]; [reflexivity|]. destruct p as [|bm remm]; [reflexivity|].
  destruct (Z.eqb_spec b bm) as [->|Hne]; [|reflexivity].
  destruct (trim_inner rem remm) as [t|] eqn:E; [|reflexivity].
  apply trim_inner_some in E. exfalso. apply N. exists t. cbn [app]. now rewrite E.
Qed.

Lemma prefix_dec (p l : list Z) : {r | l = p ++ r} + {~ is_prefix p l}.
Proof.
  destruct (strip_prefix_m l p) as [r|] eqn:E.
  - left. exists r. now apply strip_prefix_m_spec.
  - right. now apply strip_prefix_m_none.
Qed.

(** with more fuel than bytes, the loop returns what the specification describes *)
Lemma trim_start_outer_correct f : forall this p,
  p <> [] -> length this < f ->
  exists r, trim_start_outer f this p = Some r /\ trim_start_spec this p r.
Proof.
  induction f as [|f IH]; intros this p Hp Hf; [lia|].
  destruct (prefix_dec p this) as [[r ->]|N].
  - rewrite trim_start_outer_step_match by exact Hp.
    assert (length r < f) as Hr.
    { rewrite app_length in Hf. destruct p; [contradiction|]. cbn [length] in Hf. lia. }
    destruct (IH r p Hp Hr) as [r' [E [k [Ek Nk]]]].
    exists r'. split; [exact E|]. exists (S k). split; [|exact Nk].
    rewrite reps_S, <- app_assoc, <- Ek. reflexivity.
  - exists this. split; [now apply trim_start_outer_step_stop|].
    exists 0. split; [reflexivity | exact N].
Qed.

(** the fuel given by the model always suffices *)
Theorem trim_start_matches_total h p : exists r, trim_start_matches_m h p = Some r.
Proof.
  unfold trim_start_matches_m. destruct p as [|b p]; [now exists h|].
  destruct (trim_start_outer_correct (S (length h)) h (b :: p)) as [r [E _]];
    [discriminate | lia | now exists r].
Qed.

Theorem trim_start_matches_correct h p r :
  p <> [] -> (trim_start_matches_m h p = Some r <-> trim_start_spec h p r).
Proof.
  intros Hp.
  destruct (trim_start_outer_correct (S (length h)) h p Hp) as [r' [E S]]; [lia|].
  assert (trim_start_matches_m h p = Some r') as E'.
  { unfold trim_start_matches_m. destruct p; [contradiction | exact E]. }
  rewrite E'. split.
  - intro H. inversion H; subst. exact S.
  - intro H. f_equal. eapply trim_start_spec_unique; eassumption.
Qed.

Theorem trim_start_matches_empty h : trim_start_matches_m h [] = Some h.
Proof. reflexivity. Qed.

(* ------------------------------------------------------------ the mirrored function *)

Lemma rev_nil_iff (p : list Z) : rev p = [] <-> p = [].
Proof.
  split; intro H; [|now subst]. apply (f_equal (@rev Z)) in H. now rewrite rev_involutive in H.
Qed.

Theorem trim_end_matches_total h p : exists r, trim_end_matches_m h p = Some r.
Proof.
  unfold trim_end_matches_m. destruct (trim_start_matches_total (rev h) (rev p)) as [r ->].
  now exists (rev r).
Qed.

Theorem trim_end_matches_correct h p r :
  p <> [] -> (trim_end_matches_m h p = Some r <-> trim_end_spec h p r).
Proof.
  intros Hp. assert (rev p <> []) as Hrp by (intro H; apply Hp; now apply rev_nil_iff).
  rewrite trim_end_spec_rev, <- (trim_start_matches_correct _ _ _ Hrp).
  unfold trim_end_matches_m.
  destruct (trim_start_matches_m (rev h) (rev p)) as [t|]; cbn [option_map].
  - split; intro H.
    + inversion H. now rewrite rev_involutive.
    + inversion H. now rewrite rev_involutive.
  - split; discriminate.
Qed.

Theorem trim_end_matches_empty h : trim_end_matches_m h [] = Some h.
Proof. unfold trim_end_matches_m. cbn. now rewrite rev_involutive. Qed.

(* ------------------------------------------------------------ both ends *)

Theorem trim_matches_correct h p r :
  p <> [] ->
  (trim_matches_m h p = Some r <-> exists m, trim_start_spec h p m /\ trim_end_spec m p r).
Proof.
  intros Hp. unfold trim_matches_m.
  destruct (trim_start_matches_total h p) as [m E]. rewrite E.
  pose proof (proj1 (trim_start_matches_correct h p m Hp) E) as Sm.
  rewrite (trim_end_matches_correct m p r Hp). split.
  - intro H. now exists m.
  - intros [m' [S1 S2]]. now rewrite (trim_start_spec_unique _ _ _ _ Sm S1).
Qed.

Theorem trim_matches_total h p : exists r, trim_matches_m h p = Some r.
Proof.
  unfold trim_matches_m. destruct (trim_start_matches_total h p) as [m ->].
  apply trim_end_matches_total.
Qed.

Theorem trim_matches_empty h : trim_matches_m h [] = Some h.
Proof. unfold trim_matches_m. rewrite trim_start_matches_empty. apply trim_end_matches_empty. Qed.

(** the trimmed slice with the removed repetitions on both sides *)
Theorem trim_matches_shape h p r :
  p <> [] -> trim_matches_m h p = Some r ->
  exists j k, h = reps p j ++ r ++ reps p k /\ ~ is_suffix p r /\
              (~ is_prefix p (r ++ reps p k)).
Proof.
  intros Hp H. apply (trim_matches_correct h p r Hp) in H.
  destruct H as [m [[j [Ej Nj]] [k [Ek Nk]]]].
  exists j, k. subst m. split; [exact Ej|]. split; [exact Nk | exact Nj].
Qed.

(* ------------------------------------------------------------ whitespace *)

Lemma matches_space_iff b : matches_space b = true <-> ascii_ws b.
Proof.
  unfold matches_space, ascii_ws. cbn [In].
  rewrite !orb_true_iff, !Z.eqb_eq. intuition lia.
Qed.

Lemma matches_space_eq b : matches_space b = ascii_wsb b.
Proof.
  unfold matches_space, ascii_wsb. cbn [existsb]. now rewrite orb_false_r, !orb_assoc.
Qed.

Theorem bytes_trim_start_eq s : bytes_trim_start_m s = drop_while ascii_wsb s.
Proof.
  induction s as [|b s IH]; [reflexivity|].
  cbn [bytes_trim_start_m drop_while]. rewrite matches_space_eq, IH. reflexivity.
Qed.

Theorem bytes_trim_end_eq s : bytes_trim_end_m s = rev (drop_while ascii_wsb (rev s)).
Proof. unfold bytes_trim_end_m. now rewrite bytes_trim_start_eq. Qed.

Theorem bytes_trim_eq s :
  bytes_trim_m s = drop_while ascii_wsb (rev (drop_while ascii_wsb (rev s))).
Proof. unfold bytes_trim_m. now rewrite bytes_trim_start_eq, bytes_trim_end_eq. Qed.

Lemma bytes_trim_start_sat s : trim_ascii_start_spec s (bytes_trim_start_m s).
Proof.
  induction s as [|b s IH].
  - exists []. split; [reflexivity|]. split; [constructor|]. intros b t H; discriminate.
  - cbn [bytes_trim_start_m]. destruct (matches_space b) eqn:E.
    + destruct IH as [w [Ew [Fw Nw]]]. exists (b :: w). split; [cbn [app]; now rewrite <- Ew|].
      split; [constructor; [now apply matches_space_iff | exact Fw] | exact Nw].
    + exists []. split; [reflexivity|]. split; [constructor|].
      intros b' t H. inversion H; subst. intro W. apply matches_space_iff in W. congruence.
Qed.

Lemma trim_ascii_start_spec_unique s r1 r2 :
  trim_ascii_start_spec s r1 -> trim_ascii_start_spec s r2 -> r1 = r2.
Proof.
  intros [w1 [E1 [F1 N1]]] [w2 [E2 [F2 N2]]]. subst s.
  revert w2 E2 F2. induction w1 as [|a w1 IH]; intros w2 E2 F2.
  - destruct w2 as [|c w2]; [exact E2|]. exfalso.
    cbn [app] in E2. inversion F2; subst. eapply N1; [reflexivity | eassumption].
  - destruct w2 as [|c w2].
    + exfalso. cbn [app] in E2. inversion F1; subst. eapply N2; [reflexivity | eassumption].
    + cbn [app] in E2. inversion E2; subst. inversion F1; inversion F2; subst.
      eapply IH; eassumption.
Qed.

Theorem bytes_trim_start_correct s r :
  bytes_trim_start_m s = r <-> trim_ascii_start_spec s r.
Proof.
  split.
  - intros <-. apply bytes_trim_start_sat.
  - intro H. eapply trim_ascii_start_spec_unique; [apply bytes_trim_start_sat | exact H].
Qed.

Lemma Forall_rev_Z (P : Z -> Prop) l : Forall P l -> Forall P (rev l).
Proof.
  intro H. apply Forall_forall. intros x Hx. apply in_rev in Hx.
  revert x Hx. now apply Forall_forall.
Qed.

Lemma no_ws_last_rev r : no_ws_last r <-> no_ws_head (rev r).
Proof.
  split; intros H b t E.
  - apply (H b (rev t)). apply (f_equal (@rev Z)) in E. rewrite rev_involutive in E.
    rewrite E. reflexivity.
  - apply (H b (rev t)). rewrite E, rev_app_distr. reflexivity.
Qed.

Lemma trim_ascii_end_spec_rev s r :
  trim_ascii_end_spec s r <-> trim_ascii_start_spec (rev s) (rev r).
Proof.
  split; intros [w [E [F N]]].
  - exists (rev w). split; [rewrite E; apply rev_app_distr|].
    split; [now apply Forall_rev_Z | now apply no_ws_last_rev].
  - exists (rev w). split.
    + apply (f_equal (@rev Z)) in E. now rewrite rev_involutive, rev_app_distr, rev_involutive in E.
    + split; [now apply Forall_rev_Z | now apply no_ws_last_rev].
Qed.

Theorem bytes_trim_end_correct s r :
  bytes_trim_end_m s = r <-> trim_ascii_end_spec s r.
Proof.
  rewrite trim_ascii_end_spec_rev, <- bytes_trim_start_correct. unfold bytes_trim_end_m.
  split; intro H.
  - subst r. now rewrite rev_involutive.
  - rewrite H. apply rev_involutive.
Qed.

(** trimming the start keeps the end free of whitespace (unless everything goes) *)
Lemma no_ws_last_suffix w r : no_ws_last (w ++ r) -> no_ws_last r.
Proof.
  intros H b t E. apply (H b (w ++ t)). rewrite E. now rewrite app_assoc.
Qed.

Lemma bytes_trim_sat s : trim_ascii_spec s (bytes_trim_m s).
Proof.
  unfold bytes_trim_m.
  destruct (proj1 (bytes_trim_end_correct s _) eq_refl) as [w2 [E2 [F2 N2]]].
  destruct (bytes_trim_start_sat (bytes_trim_end_m s)) as [w1 [E1 [F1 N1]]].
  exists w1, w2. split; [rewrite app_assoc, <- E1; exact E2|].
  split; [exact F1|]. split; [exact F2|]. split; [exact N1|].
  rewrite E1 in N2. eapply no_ws_last_suffix; exact N2.
Qed.

Lemma Forall_app_Z (P : Z -> Prop) a b : Forall P a -> Forall P b -> Forall P (a ++ b).
Proof. intros Ha Hb. apply Forall_app. now split. Qed.

(** the [trim_ascii] specification determines the bytes of its result *)
Lemma trim_ascii_spec_unique s r1 r2 :
  trim_ascii_spec s r1 -> trim_ascii_spec s r2 -> r1 = r2.
Proof.
  intros [a1 [b1 [E1 [Fa1 [Fb1 [Nh1 Nl1]]]]]] [a2 [b2 [E2 [Fa2 [Fb2 [Nh2 Nl2]]]]]].
  (* r = [] on one side forces s to be all whitespace, hence r = [] on the other *)
  assert (forall r a b, s = a ++ r ++ b -> Forall ascii_ws a -> Forall ascii_ws b ->
                        no_ws_head r -> no_ws_last r -> Forall ascii_ws s -> r = []) as AllWs.
  { intros r a b E Fa Fb Nh Nl Fs. destruct r as [|x r]; [reflexivity|]. exfalso.
    apply (Nh x r eq_refl). rewrite E in Fs. apply Forall_app in Fs as [_ Fs].
    apply Forall_app in Fs as [Fs _]. now inversion Fs. }
  destruct r1 as [|x1 t1].
  - symmetry. apply (AllWs r2 a2 b2 E2 Fa2 Fb2 Nh2 Nl2). rewrite E1. cbn [app].
    now apply Forall_app_Z.
  - destruct r2 as [|x2 t2].
    + apply (AllWs (x1 :: t1) a1 b1 E1 Fa1 Fb1 Nh1 Nl1). rewrite E2. cbn [app].
      now apply Forall_app_Z.
    + (* both non-empty: the start-trim of s is r ++ b on both sides, then the end-trim *)
      assert (trim_ascii_start_spec s ((x1 :: t1) ++ b1)) as S1 by (exists a1; repeat split; [exact E1 | exact Fa1 | intros b t H; inversion H; subst; now apply (Nh1 b t1)]).
      assert (trim_ascii_start_spec s ((x2 :: t2) ++ b2)) as S2 by (exists a2; repeat split; [exact E2 | exact Fa2 | intros b t H; inversion H; subst; now apply (Nh2 b t2)]).
      pose proof (trim_ascii_start_spec_unique _ _ _ S1 S2) as E.
      assert (trim_ascii_end_spec ((x1 :: t1) ++ b1) (x1 :: t1)) as T1 by (exists b1; now repeat split).
      assert (trim_ascii_end_spec ((x1 :: t1) ++ b1) (x2 :: t2)) as T2 by (exists b2; rewrite E; now repeat split).
      apply bytes_trim_end_correct in T1. apply bytes_trim_end_correct in T2. congruence.
Qed.

Theorem bytes_trim_correct s r : bytes_trim_m s = r <-> trim_ascii_spec s r.
Proof.
  split.
  - intros <-. apply bytes_trim_sat.
  - intro H. eapply trim_ascii_spec_unique; [apply bytes_trim_sat | exact H].
Qed.

(** std composes the other way round ([trim_ascii_start().trim_ascii_end()]); same bytes *)
Theorem bytes_trim_commutes s :
  bytes_trim_m s = bytes_trim_end_m (bytes_trim_start_m s).
Proof.
  apply bytes_trim_correct.
  destruct (bytes_trim_start_sat s) as [w1 [E1 [F1 N1]]].
  destruct (proj1 (bytes_trim_end_correct (bytes_trim_start_m s) _) eq_refl) as [w2 [E2 [F2 N2]]].
  set (r := bytes_trim_end_m (bytes_trim_start_m s)) in *.
  destruct r as [|x t] eqn:Er.
  - (* everything is whitespace *)
    exists w1, w2. cbn [app] in *. split; [now rewrite <- E2|].
    split; [exact F1|]. split; [exact F2|]. split; [intros b t H; discriminate | exact N2].
  - exists w1, w2. split; [now rewrite <- E2|]. split; [exact F1|]. split; [exact F2|].
    split; [|exact N2]. intros b t' H. inversion H; subst. apply (N1 b (t' ++ w2)).
    rewrite E2. reflexivity.
Qed.

(** regression witness of finding F2: without form feed in the byte set the function
    disagrees with [trim_ascii_start] *)
Theorem ws_set_refuted :
  exists s, bytes_trim_start_old s <> drop_while ascii_wsb s /\
            bytes_trim_start_m s = drop_while ascii_wsb s.
Proof. exists [12%Z; 97%Z]. split; [discriminate | reflexivity]. Qed.
