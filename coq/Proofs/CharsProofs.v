(** C07: char <-> UTF-8 / u32 conversions (complete sweeps of the finite domain) and the
    chars / char_indices iterators (refinement of a deque for every front/back history). *)
From KV Require Import Base.Prelude Base.Deque Model.Utf8 Model.Str Model.Chars Spec.Utf8 Proofs.Utf8Proofs Proofs.Utf8Sweep.

(* ------------------------------------------------------------------ codec *)

Theorem decode_encode c : 0 <= c < 1114112 -> string_to_usv_m (encode_m c) = c.
Proof. intros H. apply Z.eqb_eq. now apply (all_below_spec _ _ dec_sweep). Qed.

(** [encode_m] = the arithmetic encoding of Table 3-6: shifts are divisions, masks are
    remainders, and or-ing a tag byte onto a smaller payload is addition *)
Lemma lor128 x : 0 <= x < 64 -> Z.lor 128 x = 128 + x.
Proof.
  intros H. apply Z.eqb_eq.
  apply (all_below_spec 64 (fun x => Z.lor 128 x =? 128 + x)); [vm_compute; reflexivity | lia].
Qed.
Lemma lor192 x : 0 <= x < 32 -> Z.lor 192 x = 192 + x.
Proof.
  intros H. apply Z.eqb_eq.
  apply (all_below_spec 32 (fun x => Z.lor 192 x =? 192 + x)); [vm_compute; reflexivity | lia].
Qed.
Lemma lor224 x : 0 <= x < 16 -> Z.lor 224 x = 224 + x.
Proof.
  intros H. apply Z.eqb_eq.
  apply (all_below_spec 16 (fun x => Z.lor 224 x =? 224 + x)); [vm_compute; reflexivity | lia].
Qed.
Lemma lor240 x : 0 <= x < 16 -> Z.lor 240 x = 240 + x.
Proof.
  intros H. apply Z.eqb_eq.
  apply (all_below_spec 16 (fun x => Z.lor 240 x =? 240 + x)); [vm_compute; reflexivity | lia].
Qed.
Lemma land63 x : Z.land x 63 = x mod 64.
Proof. change 63 with (Z.ones 6). rewrite Z.land_ones by lia. reflexivity. Qed.
Lemma shr6 x : Z.shiftr x 6 = x / 64.
Proof. rewrite Z.shiftr_div_pow2 by lia. reflexivity. Qed.
Lemma shr12 x : Z.shiftr x 12 = x / 4096.
Proof. rewrite Z.shiftr_div_pow2 by lia. reflexivity. Qed.
Lemma shr18 x : Z.shiftr x 18 = x / 262144.
Proof. rewrite Z.shiftr_div_pow2 by lia. reflexivity. Qed.

Theorem encode_eq_std c : 0 <= c < 1114112 -> encode_m c = encode c.
Proof.
  intros H. unfold encode_m, encode, u8. rewrite !land63, ?shr6, ?shr12, ?shr18.
  destruct (Z.leb_spec c 127); [destruct (Z.ltb_spec c 128); [|lia] |destruct (Z.ltb_spec c 128); [lia|]].
  { now rewrite Z.mod_small by lia. }
  destruct (Z.leb_spec c 2047); [destruct (Z.ltb_spec c 2048); [|lia] |destruct (Z.ltb_spec c 2048); [lia|]].
  { rewrite (Z.mod_small (c / 64)), (Z.mod_small (c mod 64)) by lia.
    rewrite lor192, lor128 by lia. reflexivity. }
  destruct (Z.leb_spec c 65535); [destruct (Z.ltb_spec c 65536); [|lia] |destruct (Z.ltb_spec c 65536); [lia|]].
  { rewrite (Z.mod_small (c / 4096)), (Z.mod_small ((c / 64) mod 64)), (Z.mod_small (c mod 64)) by lia.
    rewrite lor224, !lor128 by lia. reflexivity. }
  rewrite (Z.mod_small (c / 262144)), (Z.mod_small ((c / 4096) mod 64)),
    (Z.mod_small ((c / 64) mod 64)), (Z.mod_small (c mod 64)) by lia.
  rewrite lor240, !lor128 by lia. reflexivity.
Qed.

(** [from_u32]: succeeds exactly on Unicode scalar values and returns that value *)
Theorem from_u32_iff n : 0 <= n -> (from_u32_m n = Some n <-> is_scalar n).
Proof.
  intros H. unfold from_u32_m, is_scalar. split.
  - destruct (_ || _) eqn:E; [|discriminate]. intros _. lia.
  - intros S. replace ((n <? 55296) || (57344 <=? n) && (n <=? 1114111)) with true by lia. reflexivity.
Qed.
Theorem from_u32_some n c : 0 <= n -> from_u32_m n = Some c -> c = n /\ is_scalar n.
Proof.
  intros H E. assert (c = n) as ->.
  { unfold from_u32_m in E. destruct (_ || _); [now inversion E | discriminate]. }
  split; [reflexivity | now apply from_u32_iff].
Qed.
Theorem from_u32_none n : 0 <= n -> (from_u32_m n = None <-> ~ is_scalar n).
Proof.
  intros H. rewrite <- from_u32_iff by trivial. unfold from_u32_m.
  destruct (_ || _); split; intro N; try discriminate; try reflexivity.
  exfalso. apply N. reflexivity.
Qed.

(** Table 3-7 sequences and scalar values correspond one to one (Spec-level round trips) *)
Lemma wf_dec_encode e : wf e -> encode (dec_char e) = e /\ is_scalar (dec_char e).
Proof.
  unfold wf, is_scalar. intros H.
  destruct e as [|a [|b [|c [|d [|? ?]]]]]; cbn [wf_char] in H; try discriminate;
    cbn [dec_char]; unfold encode, dec2, dec3, dec4.
  - unf. replace (a <? 128) with true by lia. split; [reflexivity | lia].
  - unf. replace ((a - 192) * 64 + (b - 128) <? 128) with false by lia.
    replace ((a - 192) * 64 + (b - 128) <? 2048) with true by lia.
    split; [|lia]. f_equal; [lia | f_equal; lia].
  - unf. replace ((a - 224) * 4096 + (b - 128) * 64 + (c - 128) <? 128) with false by lia.
    replace ((a - 224) * 4096 + (b - 128) * 64 + (c - 128) <? 2048) with false by lia.
    replace ((a - 224) * 4096 + (b - 128) * 64 + (c - 128) <? 65536) with true by lia.
    split; [|lia]. f_equal; [lia | f_equal; [lia | f_equal; lia]].
  - unf. replace ((a - 240) * 262144 + (b - 128) * 4096 + (c - 128) * 64 + (d - 128) <? 128) with false by lia.
    replace ((a - 240) * 262144 + (b - 128) * 4096 + (c - 128) * 64 + (d - 128) <? 2048) with false by lia.
    replace ((a - 240) * 262144 + (b - 128) * 4096 + (c - 128) * 64 + (d - 128) <? 65536) with false by lia.
    split; [|lia]. f_equal; [lia | f_equal; [lia | f_equal; [lia | f_equal; lia]]].
Qed.

(** the shift/mask decoder of [string_to_usv] computes the scalar value of every
    well-formed sequence; in particular the unchecked cast to [char] is sound *)
Theorem usv_eq_dec e : wf e -> string_to_usv_m e = dec_char e.
Proof.
  intros W. destruct (wf_dec_encode e W) as [E S].
  assert (R : 0 <= dec_char e < 1114112) by (unfold is_scalar in S; lia).
  rewrite <- E at 1. rewrite <- encode_eq_std by exact R. now apply decode_encode.
Qed.
Theorem decode_scalar e : wf e -> is_scalar (string_to_usv_m e).
Proof. intros W. rewrite usv_eq_dec by exact W. now apply wf_dec_encode. Qed.

(* ------------------------------------------------------------------ scanning for boundaries *)

(** the first byte (if any) is not a continuation byte *)
Definition starts_ok (r : list Z) : Prop :=
  match r with [] => True | b :: _ => byte_is_boundary b = true end.

Lemma utf8_starts_ok r : utf8 r = true -> starts_ok r.
Proof.
  intros U. apply utf8_iff in U as (es & -> & F). destruct F as [|e es He F]; [exact I|].
  apply wf_chunk in He. destruct e as [|a t]; [destruct He|]. exact (proj1 He).
Qed.

Lemma forgiving_inner e r i : chunk e -> 0 < i < zlen e -> forgiving_m (e ++ r) i = false.
Proof.
  intros He Hi. unfold forgiving_m. rewrite zlen_app. pose proof (zlen_nonneg r).
  destruct (Z.leb_spec (zlen e + zlen r) i); [lia|]. now apply chunk_inner.
Qed.

Lemma forgiving_next e r : starts_ok r -> forgiving_m (e ++ r) (zlen e) = true.
Proof.
  intros Hr. unfold forgiving_m. rewrite zlen_app.
  destruct r as [|b r]; [rewrite zlen_nil; replace (zlen e + 0 <=? zlen e) with true by lia; reflexivity|].
  rewrite zlen_cons. pose proof (zlen_nonneg r).
  destruct (Z.leb_spec (zlen e + (zlen r + 1)) (zlen e)); [lia|].
  rewrite byte_at_app_r by lia. rewrite Z.sub_diag. exact Hr.
Qed.

Lemma forgiving_app_r l e p : zlen l <= p -> forgiving_m (l ++ e) p = forgiving_m e (p - zlen l).
Proof.
  intros H. unfold forgiving_m. rewrite zlen_app, byte_at_app_r by lia.
  replace (zlen l + zlen e <=? p) with (zlen e <=? p - zlen l) by lia. reflexivity.
Qed.

Lemma find_next_go_chunk e r : chunk e -> starts_ok r -> forall k fuel pos,
  Z.of_nat k = zlen e - 1 - pos -> 0 <= pos -> (k < fuel)%nat ->
  find_next_go fuel (e ++ r) pos = Ok (zlen e).
Proof.
  intros He Hr. induction k as [|k IH]; intros fuel pos Hk Hp Hf;
    (destruct fuel as [|fuel]; [lia|]); cbn [find_next_go].
  - replace (pos + 1) with (zlen e) by lia. now rewrite forgiving_next.
  - rewrite forgiving_inner by (trivial; lia). apply IH; lia.
Qed.

Lemma find_next_chunk e r : chunk e -> starts_ok r -> find_next_m (e ++ r) 0 = Ok (zlen e).
Proof.
  intros He Hr. unfold find_next_m. pose proof (chunk_len e He).
  apply (find_next_go_chunk e r He Hr (Z.to_nat (zlen e - 1))); try lia.
  rewrite app_length. unfold zlen in *. lia.
Qed.

Lemma find_prev_go_chunk l e : chunk e -> forall k fuel pos,
  Z.of_nat k = pos - zlen l -> pos < zlen l + zlen e -> (k < fuel)%nat ->
  find_prev_go fuel (l ++ e) pos = Ok (zlen l).
Proof.
  intros He. pose proof (zlen_nonneg l) as Hl. pose proof (chunk_len e He) as Le.
  induction k as [|k IH]; intros fuel pos Hk Hp Hf;
    (destruct fuel as [|fuel]; [lia|]); cbn [find_prev_go]; rewrite forgiving_app_r by lia.
  - replace (pos - zlen l) with 0 by lia. replace pos with (zlen l) by lia.
    assert (F : forgiving_m e 0 = true).
    { unfold forgiving_m. destruct (Z.leb_spec (zlen e) 0); [lia|].
      rewrite <- (app_nil_r e). now apply chunk_head. }
    now rewrite F.
  - rewrite <- (app_nil_r e). rewrite forgiving_inner by (trivial; lia).
    destruct (Z.eqb_spec pos 0); [lia|]. rewrite app_nil_r. apply IH; lia.
Qed.

Lemma find_prev_chunk l e : chunk e -> find_prev_m (l ++ e) (zlen (l ++ e)) = Ok (zlen l).
Proof.
  intros He. unfold find_prev_m. pose proof (chunk_len e He). pose proof (zlen_nonneg l).
  rewrite zlen_app. rewrite Z.max_r by lia.
  apply (find_prev_go_chunk l e He (Z.to_nat (zlen e - 1))); try lia.
  rewrite app_length. unfold zlen in *. lia.
Qed.

Lemma split_at_ok s k : 0 <= k <= zlen s -> forgiving_m s k = true ->
  split_at_m s k = Ok ((0, k), (k, zlen s - k)).
Proof.
  intros Hk F. unfold split_at_m, str_up_to_m, str_from_m, slice_up_to_v, slice_from_v, whole.
  rewrite F. destruct (Z.ltb_spec (zlen s) k); [lia|]. now rewrite Z.add_0_l.
Qed.

Lemma sub_prefix e r : sub (e ++ r) (0, zlen e) = e.
Proof.
  unfold sub, zlen. cbn [fst snd]. change (Z.to_nat 0) with 0%nat. cbn [skipn].
  rewrite Nat2Z.id, firstn_app, Nat.sub_diag, firstn_all.
  cbn [firstn]. apply app_nil_r.
Qed.
Lemma sub_suffix e r : sub (e ++ r) (zlen e, zlen (e ++ r) - zlen e) = r.
Proof.
  unfold sub. cbn [fst snd]. rewrite zlen_app. replace (zlen e + zlen r - zlen e) with (zlen r) by lia.
  unfold zlen. rewrite !Nat2Z.id, skipn_app, Nat.sub_diag, skipn_all. cbn [skipn app]. apply firstn_all.
Qed.

Lemma utf8_wf e : wf e -> utf8 e = true.
Proof. intros W. rewrite <- (app_nil_r e). change (e ++ []) with (concat [e]). apply utf8_concat. now constructor. Qed.

(** one forward step on [e ++ r] splits exactly the first character off and decodes it *)
Lemma front_step_wf e r : wf e -> utf8 r = true ->
  front_step (e ++ r) = Ok (Some (dec_char e, zlen e, (zlen e, zlen r))).
Proof.
  intros W U. pose proof (wf_chunk e W) as C. pose proof (chunk_len e C) as Le.
  assert (N : front_step (e ++ r) =
              match find_next_m (e ++ r) 0 with
              | Ok k => match split_at_m (e ++ r) k with
                        | Ok (p, n) => Ok (Some (string_to_usv_m (sub (e ++ r) p), k, n))
                        | Panic x => Panic x | OutOfFuel => OutOfFuel end
              | Panic x => Panic x | OutOfFuel => OutOfFuel end).
  { destruct e; [destruct C | reflexivity]. }
  rewrite N, find_next_chunk by (trivial; now apply utf8_starts_ok).
  rewrite split_at_ok; [| rewrite zlen_app; pose proof (zlen_nonneg r); lia
                        | apply forgiving_next; now apply utf8_starts_ok].
  rewrite sub_prefix, usv_eq_dec by exact W. rewrite zlen_app.
  replace (zlen e + zlen r - zlen e) with (zlen r) by lia. reflexivity.
Qed.

(** one backward step on [l ++ e] splits exactly the last character off and decodes it *)
Lemma back_step_wf l e : utf8 l = true -> wf e ->
  back_step (l ++ e) = Ok (Some (dec_char e, zlen l, (0, zlen l))).
Proof.
  intros U W. pose proof (wf_chunk e W) as C. pose proof (chunk_len e C) as Le.
  assert (N : back_step (l ++ e) =
              match find_prev_m (l ++ e) (zlen (l ++ e)) with
              | Ok k => match split_at_m (l ++ e) k with
                        | Ok (p, n) => Ok (Some (string_to_usv_m (sub (l ++ e) n), k, p))
                        | Panic x => Panic x | OutOfFuel => OutOfFuel end
              | Panic x => Panic x | OutOfFuel => OutOfFuel end).
  { destruct (l ++ e) eqn:E; [|reflexivity]. apply (f_equal (@length Z)) in E.
    rewrite app_length in E. unfold zlen in Le. cbn in E. lia. }
  rewrite N, find_prev_chunk by trivial.
  rewrite split_at_ok; [| rewrite zlen_app; pose proof (zlen_nonneg l); lia
                        | apply forgiving_next; now apply utf8_starts_ok, utf8_wf].
  rewrite sub_suffix, usv_eq_dec by exact W. reflexivity.
Qed.

(* ------------------------------------------------------------------ chars / rchars *)

(** a step as the deque refinement sees it: the model result without the panic wrapper;
    [chars_never_panics] shows nothing is lost on valid strings *)
Definition unres {A} (r : res (option A)) : option A :=
  match r with Ok o => o | _ => None end.

Definition chars_next' (st : chars_st) := unres (chars_next st).
Definition chars_next_back' (st : chars_st) := unres (chars_next_back st).
Definition chars_inv (st : chars_st) : Prop := utf8 (c_this st) = true.
Definition chars_abs (st : chars_st) : list Z := chars (c_this st).

Lemma chars_app_wf_r l e : utf8 l = true -> wf e -> chars (l ++ e) = chars l ++ [dec_char e].
Proof.
  intros U W. apply utf8_iff in U as (es & -> & F).
  replace (concat es ++ e) with (concat (es ++ [e])) by (rewrite concat_app; cbn [concat]; now rewrite app_nil_r).
  rewrite !chars_concat; [now rewrite map_app | exact F | apply Forall_app; split; [exact F | now constructor]].
Qed.

(** what [next] does on a valid remaining string *)
Lemma chars_next_spec st : chars_inv st ->
  (c_this st = [] /\ chars_next st = Ok None) \/
  (exists e r, c_this st = e ++ r /\ wf e /\ utf8 r = true /\
     chars_next st = Ok (Some (dec_char e, {| c_this := r; c_base := c_base st + zlen e |}))).
Proof.
  unfold chars_inv. intros U. destruct (utf8_segs _ U) as (es & _ & E & F).
  destruct F as [|e es He F]; [left | right].
  - cbn [concat] in E. unfold chars_next. rewrite E. split; reflexivity.
  - cbn [concat] in E. exists e, (concat es). pose proof (utf8_concat es F) as Ur.
    split; [exact E|]. split; [exact He|]. split; [exact Ur|].
    unfold chars_next, chars_move. rewrite E, front_step_wf by trivial. cbn [fst snd].
    replace (zlen (concat es)) with (zlen (e ++ concat es) - zlen e) by (rewrite zlen_app; lia).
    now rewrite sub_suffix.
Qed.

Lemma chars_next_back_spec st : chars_inv st ->
  (c_this st = [] /\ chars_next_back st = Ok None) \/
  (exists l e, c_this st = l ++ e /\ utf8 l = true /\ wf e /\
     chars_next_back st = Ok (Some (dec_char e, {| c_this := l; c_base := c_base st + 0 |}))).
Proof.
  unfold chars_inv. intros U. destruct (utf8_segs _ U) as (es & _ & E & F).
  destruct es as [|e0 es0] eqn:Ees; [left | right].
  - cbn [concat] in E. unfold chars_next_back. rewrite E. split; reflexivity.
  - assert (Nn : es <> []) by (rewrite Ees; discriminate). rewrite <- Ees in *.
    destruct (exists_last Nn) as (es' & e & ->).
    apply Forall_app in F as [F' Fe]. inversion Fe as [|? ? He _]; subst.
    rewrite concat_app in E. cbn [concat] in E. rewrite app_nil_r in E.
    exists (concat es'), e. pose proof (utf8_concat es' F') as Ul.
    split; [exact E|]. split; [exact Ul|]. split; [exact He|].
    unfold chars_next_back, chars_move. rewrite E, back_step_wf by trivial. cbn [fst snd].
    now rewrite sub_prefix.
Qed.

Lemma chars_next_ok st : chars_inv st ->
  match chars_next' st with
  | None => chars_abs st = []
  | Some (x, st') => chars_abs st = x :: chars_abs st' /\ chars_inv st'
  end.
Proof.
  intros I. unfold chars_next', chars_abs. destruct (chars_next_spec st I) as [[E ->] | (e & r & E & W & U & ->)];
    cbn [unres]; rewrite E; [reflexivity|].
  cbn [c_this]. split; [now apply chars_app_wf | exact U].
Qed.

Lemma chars_next_back_ok st : chars_inv st ->
  match chars_next_back' st with
  | None => chars_abs st = []
  | Some (x, st') => chars_abs st = chars_abs st' ++ [x] /\ chars_inv st'
  end.
Proof.
  intros I. unfold chars_next_back', chars_abs.
  destruct (chars_next_back_spec st I) as [[E ->] | (l & e & E & U & W & ->)];
    cbn [unres]; rewrite E; [reflexivity|].
  cbn [c_this]. split; [now apply chars_app_wf_r | exact U].
Qed.

(** C07: EVERY interleaving of front and back steps of [chars(s)] yields std's chars *)
Theorem chars_refines s : utf8 s = true -> forall h,
  run _ _ chars_next' chars_next_back' h (chars_init s) = deque_run h (chars s).
Proof.
  intros U h.
  exact (run_refines _ _ chars_next' chars_next_back' chars_abs chars_inv
           chars_next_ok chars_next_back_ok h (chars_init s) U).
Qed.

(** reversing a refinement: the same two steps with the roles swapped refine the reversed deque *)
Section RevRefine.
  Variables St Item : Type.
  Variable next next_back : St -> option (Item * St).
  Variable abs : St -> list Item.
  Variable Inv : St -> Prop.
  Hypothesis next_ok : forall st, Inv st ->
    match next st with
    | None => abs st = []
    | Some (x, st') => abs st = x :: abs st' /\ Inv st'
    end.
  Hypothesis next_back_ok : forall st, Inv st ->
    match next_back st with
    | None => abs st = []
    | Some (x, st') => abs st = abs st' ++ [x] /\ Inv st'
    end.
  Theorem rev_run_refines : forall h st, Inv st ->
    run _ _ next_back next h st = deque_run h (rev (abs st)).
  Proof.
    apply (run_refines _ _ next_back next (fun st => rev (abs st)) Inv).
    - intros st I. pose proof (next_back_ok st I) as H. destruct (next_back st) as [[x st']|].
      + destruct H as [E I']. split; [|exact I']. rewrite E, rev_app_distr. reflexivity.
      + now rewrite H.
    - intros st I. pose proof (next_ok st I) as H. destruct (next st) as [[x st']|].
      + destruct H as [E I']. split; [|exact I']. rewrite E. reflexivity.
      + now rewrite H.
  Qed.
End RevRefine.

Definition rchars_next' (st : chars_st) := unres (rchars_next st).
Definition rchars_next_back' (st : chars_st) := unres (rchars_next_back st).

Theorem rchars_refines s : utf8 s = true -> forall h,
  run _ _ rchars_next' rchars_next_back' h (chars_init s) = deque_run h (rev (chars s)).
Proof.
  intros U h.
  exact (rev_run_refines _ _ chars_next' chars_next_back' chars_abs chars_inv
           chars_next_ok chars_next_back_ok h (chars_init s) U).
Qed.

(** ... and no step panics or runs out of fuel while the remaining string is valid *)
Theorem chars_never_panics st : chars_inv st ->
  (exists o, chars_next st = Ok o) /\ (exists o, chars_next_back st = Ok o).
Proof.
  intros I. split.
  - destruct (chars_next_spec st I) as [[_ ->] | (e & r & _ & _ & _ & ->)]; eexists; reflexivity.
  - destruct (chars_next_back_spec st I) as [[_ ->] | (l & e & _ & _ & _ & ->)]; eexists; reflexivity.
Qed.

(* ------------------------------------------------------------------ char_indices / rchar_indices *)

Definition shift (d : Z) (p : Z * Z) : Z * Z := (d + fst p, snd p).

Lemma combine_offs_shift {B} es : forall o d (ds : list B),
  combine (offs (d + o) es) ds = map (fun p => (d + fst p, snd p)) (combine (offs o es) ds).
Proof.
  induction es as [|e es IH]; intros o d ds; [reflexivity|].
  destruct ds as [|y ds]; [reflexivity|]. cbn [offs combine map fst snd]. f_equal.
  rewrite <- Z.add_assoc. apply IH.
Qed.

Lemma offs_app a : forall o b, offs o (a ++ b) = offs o a ++ offs (o + zlen (concat a)) b.
Proof.
  induction a as [|e a IH]; intros o b.
  - cbn [app offs concat]. rewrite zlen_nil, Z.add_0_r. reflexivity.
  - cbn [app offs concat]. rewrite IH, zlen_app, Z.add_assoc. reflexivity.
Qed.

Lemma combine_app' {A B} (a1 a2 : list A) (b1 b2 : list B) : length a1 = length b1 ->
  combine (a1 ++ a2) (b1 ++ b2) = combine a1 b1 ++ combine a2 b2.
Proof.
  revert b1; induction a1 as [|x a1 IH]; intros [|y b1] H; cbn in H; try discriminate; [reflexivity|].
  cbn [app combine]. f_equal. apply IH. lia.
Qed.

Lemma char_indices_app_wf e x : wf e -> utf8 x = true ->
  char_indices (e ++ x) = (0, dec_char e) :: map (shift (zlen e)) (char_indices x).
Proof.
  intros W U. unfold char_indices, utf8 in *. rewrite segs_step by exact W.
  destruct (segs x) as [es|]; [|discriminate]. cbn [consopt offs map combine]. f_equal.
  rewrite (Z.add_comm 0). apply combine_offs_shift.
Qed.

Lemma char_indices_app_wf_r l e : utf8 l = true -> wf e ->
  char_indices (l ++ e) = char_indices l ++ [(zlen l, dec_char e)].
Proof.
  intros U W. apply utf8_iff in U as (es & -> & F).
  replace (concat es ++ e) with (concat (es ++ [e])) by (rewrite concat_app; cbn [concat]; now rewrite app_nil_r).
  unfold char_indices. rewrite (segs_complete es F).
  rewrite (segs_complete (es ++ [e])) by (apply Forall_app; split; [exact F | now constructor]).
  rewrite offs_app, map_app, combine_app' by now rewrite offs_length, map_length.
  cbn [offs map combine]. now rewrite Z.add_0_l.
Qed.

Definition cidx_next' (st : cidx_st) := unres (cidx_next st).
Definition cidx_next_back' (st : cidx_st) := unres (cidx_next_back st).
Definition cidx_inv (st : cidx_st) : Prop := utf8 (i_this st) = true.
(** the pairs still to come: std's char_indices of the remaining string, offset by [start_offset] *)
Definition cidx_abs (st : cidx_st) : list (Z * Z) := map (shift (i_off st)) (char_indices (i_this st)).

Lemma cidx_next_spec st : cidx_inv st ->
  (i_this st = [] /\ cidx_next st = Ok None) \/
  (exists e r, i_this st = e ++ r /\ wf e /\ utf8 r = true /\
     cidx_next st = Ok (Some ((i_off st, dec_char e),
        {| i_this := r; i_base := i_base st + zlen e; i_off := i_off st + zlen e |}))).
Proof.
  unfold cidx_inv. intros U. destruct (utf8_segs _ U) as (es & _ & E & F).
  destruct F as [|e es He F]; [left | right].
  - cbn [concat] in E. unfold cidx_next. rewrite E. split; reflexivity.
  - cbn [concat] in E. exists e, (concat es). pose proof (utf8_concat es F) as Ur.
    split; [exact E|]. split; [exact He|]. split; [exact Ur|].
    unfold cidx_next. rewrite E, front_step_wf by trivial. cbn [fst snd].
    replace (zlen (concat es)) with (zlen (e ++ concat es) - zlen e) by (rewrite zlen_app; lia).
    now rewrite sub_suffix.
Qed.

Lemma cidx_next_back_spec st : cidx_inv st ->
  (i_this st = [] /\ cidx_next_back st = Ok None) \/
  (exists l e, i_this st = l ++ e /\ utf8 l = true /\ wf e /\
     cidx_next_back st = Ok (Some ((i_off st + zlen l, dec_char e),
        {| i_this := l; i_base := i_base st + 0; i_off := i_off st |}))).
Proof.
  unfold cidx_inv. intros U. destruct (utf8_segs _ U) as (es & _ & E & F).
  destruct es as [|e0 es0] eqn:Ees; [left | right].
  - cbn [concat] in E. unfold cidx_next_back. rewrite E. split; reflexivity.
  - assert (Nn : es <> []) by (rewrite Ees; discriminate). rewrite <- Ees in *.
    destruct (exists_last Nn) as (es' & e & ->).
    apply Forall_app in F as [F' Fe]. inversion Fe as [|? ? He _]; subst.
    rewrite concat_app in E. cbn [concat] in E. rewrite app_nil_r in E.
    exists (concat es'), e. pose proof (utf8_concat es' F') as Ul.
    split; [exact E|]. split; [exact Ul|]. split; [exact He|].
    unfold cidx_next_back. rewrite E, back_step_wf by trivial. cbn [fst snd].
    now rewrite sub_prefix.
Qed.

Lemma cidx_next_ok st : cidx_inv st ->
  match cidx_next' st with
  | None => cidx_abs st = []
  | Some (x, st') => cidx_abs st = x :: cidx_abs st' /\ cidx_inv st'
  end.
Proof.
  intros I. unfold cidx_next', cidx_abs.
  destruct (cidx_next_spec st I) as [[E ->] | (e & r & E & W & U & ->)];
    cbn [unres]; rewrite E; [reflexivity|].
  cbn [i_this i_off]. split; [|exact U].
  rewrite char_indices_app_wf by trivial. cbn [map]. unfold shift at 1. cbn [fst snd].
  rewrite Z.add_0_r. f_equal. rewrite map_map. apply map_ext. intros [o c]. unfold shift. cbn [fst snd].
  now rewrite Z.add_assoc.
Qed.

Lemma cidx_next_back_ok st : cidx_inv st ->
  match cidx_next_back' st with
  | None => cidx_abs st = []
  | Some (x, st') => cidx_abs st = cidx_abs st' ++ [x] /\ cidx_inv st'
  end.
Proof.
  intros I. unfold cidx_next_back', cidx_abs.
  destruct (cidx_next_back_spec st I) as [[E ->] | (l & e & E & U & W & ->)];
    cbn [unres]; rewrite E; [reflexivity|].
  cbn [i_this i_off]. split; [|exact U].
  rewrite char_indices_app_wf_r by trivial. now rewrite map_app.
Qed.

Lemma shift_0 l : map (shift 0) l = l.
Proof. rewrite <- (map_id l) at 2. apply map_ext. now intros [o c]. Qed.

(** C07: every interleaving of [char_indices(s)] yields std's (offset, char) pairs *)
Theorem char_indices_refines s : utf8 s = true -> forall h,
  run _ _ cidx_next' cidx_next_back' h (cidx_init s) = deque_run h (char_indices s).
Proof.
  intros U h.
  rewrite (run_refines _ _ cidx_next' cidx_next_back' cidx_abs cidx_inv
             cidx_next_ok cidx_next_back_ok h (cidx_init s) U).
  unfold cidx_abs, cidx_init. cbn [i_this i_off]. now rewrite shift_0.
Qed.

Definition rcidx_next' (st : cidx_st) := unres (rcidx_next st).
Definition rcidx_next_back' (st : cidx_st) := unres (rcidx_next_back st).

Theorem rchar_indices_refines s : utf8 s = true -> forall h,
  run _ _ rcidx_next' rcidx_next_back' h (cidx_init s) = deque_run h (rev (char_indices s)).
Proof.
  intros U h.
  change (run _ _ rcidx_next' rcidx_next_back' h (cidx_init s))
    with (run _ _ cidx_next_back' cidx_next' h (cidx_init s)).
  rewrite (rev_run_refines _ _ cidx_next' cidx_next_back' cidx_abs cidx_inv
             cidx_next_ok cidx_next_back_ok h (cidx_init s) U).
  unfold cidx_abs, cidx_init. cbn [i_this i_off]. now rewrite shift_0.
Qed.

Theorem char_indices_never_panics st : cidx_inv st ->
  (exists o, cidx_next st = Ok o) /\ (exists o, cidx_next_back st = Ok o).
Proof.
  intros I. split.
  - destruct (cidx_next_spec st I) as [[_ ->] | (e & r & _ & _ & _ & ->)]; eexists; reflexivity.
  - destruct (cidx_next_back_spec st I) as [[_ ->] | (l & e & _ & _ & _ & ->)]; eexists; reflexivity.
Qed.

(* ------------------------------------------------------------------ as_str = the undecoded middle *)

Section Final.
  Variables St Item : Type.
  Variable next next_back : St -> option (Item * St).
  (** the state after a history (an exhausted iterator keeps its state) *)
  Fixpoint final (h : list end_) (st : St) : St :=
    match h with
    | [] => st
    | e :: h' =>
      match (match e with Front => next st | Back => next_back st end) with
      | None => final h' st
      | Some (_, st') => final h' st'
      end
    end.
End Final.

(** what a history does to a deque: (taken from the front, what is left, taken from the
    back), each in the original order *)
Fixpoint deque_split {A} (h : list end_) (l : list A) : list A * list A * list A :=
  match h with
  | [] => ([], l, [])
  | Front :: h' =>
      match l with
      | [] => deque_split h' l
      | x :: r => let '(p, m, q) := deque_split h' r in (x :: p, m, q)
      end
  | Back :: h' =>
      match pop_back l with
      | None => deque_split h' l
      | Some (x, r) => let '(p, m, q) := deque_split h' r in (p, m, q ++ [x])
      end
  end.

(** C07: after any history the remaining string of [chars] is the part of the original
    between the characters taken from the front and those taken from the back, and
    [as_str()] points exactly there *)
Theorem chars_as_str_middle_gen : forall h st, chars_inv st ->
  let st' := final _ _ chars_next' chars_next_back' h st in
  exists pre post,
    c_this st = pre ++ c_this st' ++ post /\
    chars_as_str st' = (c_base st + zlen pre, zlen (c_this st')) /\
    utf8 pre = true /\ utf8 (c_this st') = true /\ utf8 post = true /\
    deque_split h (chars (c_this st)) = (chars pre, chars (c_this st'), chars post).
Proof.
  induction h as [|e h IH]; intros st I.
  - cbn [final deque_split]. exists [], []. rewrite app_nil_r. cbn [app]. unfold chars_as_str.
    rewrite zlen_nil, Z.add_0_r. repeat split; trivial.
  - destruct e.
    + destruct (chars_next_spec st I) as [[E N] | (c & r & E & W & U & N)].
      * assert (Hn : chars_next' st = None) by (unfold chars_next'; now rewrite N).
        cbn [final deque_split]. rewrite Hn. specialize (IH st I). cbn zeta in IH |- *.
        rewrite E in IH |- *. change (chars []) with (@nil Z) in *. exact IH.
      * set (st1 := {| c_this := r; c_base := c_base st + zlen c |}) in *.
        assert (Hn : chars_next' st = Some (dec_char c, st1)) by (unfold chars_next'; now rewrite N).
        cbn [final deque_split]. rewrite Hn.
        assert (I1 : chars_inv st1) by exact U.
        specialize (IH st1 I1). cbn zeta in IH |- *.
        destruct IH as (pre & post & E1 & A1 & Upre & Uthis & Upost & D1).
        cbn [c_this c_base st1] in E1, A1, D1.
        exists (c ++ pre), post. rewrite E.
        split; [rewrite E1 at 1; now rewrite <- app_assoc|].
        split; [rewrite A1, zlen_app; f_equal; lia|].
        split; [apply utf8_app; [now apply utf8_wf | exact Upre]|].
        split; [exact Uthis|]. split; [exact Upost|].
        rewrite (chars_app_wf c r W U), D1. now rewrite (chars_app_wf c pre W Upre).
    + destruct (chars_next_back_spec st I) as [[E N] | (l & c & E & U & W & N)].
      * assert (Hn : chars_next_back' st = None) by (unfold chars_next_back'; now rewrite N).
        cbn [final deque_split]. rewrite Hn. specialize (IH st I). cbn zeta in IH |- *.
        rewrite E in IH |- *. change (chars []) with (@nil Z) in *. exact IH.
      * set (st1 := {| c_this := l; c_base := c_base st + 0 |}) in *.
        assert (Hn : chars_next_back' st = Some (dec_char c, st1)) by (unfold chars_next_back'; now rewrite N).
        cbn [final deque_split]. rewrite Hn.
        assert (I1 : chars_inv st1) by exact U.
        specialize (IH st1 I1). cbn zeta in IH |- *.
        destruct IH as (pre & post & E1 & A1 & Upre & Uthis & Upost & D1).
        cbn [c_this c_base st1] in E1, A1, D1.
        exists pre, (post ++ c). rewrite E.
        split; [rewrite E1 at 1; now rewrite <- !app_assoc|].
        split; [rewrite A1; f_equal; lia|].
        split; [exact Upre|]. split; [exact Uthis|].
        split; [apply utf8_app; [exact Upost | now apply utf8_wf]|].
        rewrite (chars_app_wf_r l c U W), pop_back_app, D1. now rewrite (chars_app_wf_r post c Upost W).
Qed.

Theorem chars_as_str_middle s h : utf8 s = true ->
  let st' := final _ _ chars_next' chars_next_back' h (chars_init s) in
  exists pre post,
    s = pre ++ c_this st' ++ post /\
    chars_as_str st' = (zlen pre, zlen (c_this st')) /\
    utf8 pre = true /\ utf8 (c_this st') = true /\ utf8 post = true /\
    deque_split h (chars s) = (chars pre, chars (c_this st'), chars post).
Proof.
  intros U. destruct (chars_as_str_middle_gen h (chars_init s) U) as (pre & post & H).
  exists pre, post. cbn [chars_init c_this c_base] in H. now rewrite Z.add_0_l in H.
Qed.

(** char_indices moves [this]/[base] exactly like chars (the offset is extra bookkeeping) *)
Definition forget (st : cidx_st) : chars_st := {| c_this := i_this st; c_base := i_base st |}.

Lemma cidx_final_forget : forall h st, cidx_inv st ->
  forget (final _ _ cidx_next' cidx_next_back' h st) =
  final _ _ chars_next' chars_next_back' h (forget st).
Proof.
  induction h as [|e h IH]; intros st I; [reflexivity|].
  assert (Ic : chars_inv (forget st)) by exact I.
  destruct e; cbn [final].
  - unfold cidx_next' at 1, chars_next' at 1.
    destruct (cidx_next_spec st I) as [[E ->] | (c & r & E & W & U & ->)];
      destruct (chars_next_spec (forget st) Ic) as [[E' ->] | (c' & r' & E' & W' & U' & ->)];
      cbn [unres forget c_this] in *.
    + now apply IH.
    + rewrite E in E'. destruct c'; [discriminate W' | discriminate E'].
    + rewrite E' in E. destruct c; [discriminate W | discriminate E].
    + assert (c' = c /\ r' = r) as [-> ->].
      { rewrite E in E'. pose proof (utf8_app _ _ (utf8_wf _ W) U) as V.
        assert (S1 : segs (c ++ r) = consopt c (segs r)) by now apply segs_step.
        assert (S2 : segs (c' ++ r') = consopt c' (segs r')) by now apply segs_step.
        rewrite <- E' in S2. rewrite S1 in S2. unfold utf8 in U, U'.
        destruct (segs r) as [er|] eqn:Er; [|discriminate]. destruct (segs r') as [er'|] eqn:Er'; [|discriminate].
        cbn [consopt] in S2. inversion S2; subst.
        split; [reflexivity|]. now apply app_inv_head in E'. }
      exact (IH {| i_this := r; i_base := i_base st + zlen c; i_off := i_off st + zlen c |} U).
  - unfold cidx_next_back' at 1, chars_next_back' at 1.
    destruct (cidx_next_back_spec st I) as [[E ->] | (l & c & E & U & W & ->)];
      destruct (chars_next_back_spec (forget st) Ic) as [[E' ->] | (l' & c' & E' & U' & W' & ->)];
      cbn [unres forget c_this] in *.
    + now apply IH.
    + rewrite E in E'. destruct l'; [destruct c'; [discriminate W' | discriminate E'] | discriminate E'].
    + rewrite E' in E. destruct l; [destruct c; [discriminate W | discriminate E] | discriminate E].
    + assert (l' = l /\ c' = c) as [-> ->].
      { rewrite E in E'.
        apply utf8_iff in U as (el & -> & Fl). apply utf8_iff in U' as (el' & -> & Fl').
        assert (S1 : segs (concat (el ++ [c])) = Some (el ++ [c]))
          by (apply segs_complete, Forall_app; split; [exact Fl | now constructor]).
        assert (S2 : segs (concat (el' ++ [c'])) = Some (el' ++ [c']))
          by (apply segs_complete, Forall_app; split; [exact Fl' | now constructor]).
        rewrite !concat_app in S1, S2. cbn [concat] in S1, S2. rewrite !app_nil_r in S1, S2.
        rewrite E' in S1. rewrite S1 in S2. inversion S2 as [S3].
        apply app_inj_tail in S3 as [-> ->]. split; reflexivity. }
      exact (IH {| i_this := l; i_base := i_base st + 0; i_off := i_off st |} U).
Qed.

Theorem char_indices_as_str_middle s h : utf8 s = true ->
  let st' := final _ _ cidx_next' cidx_next_back' h (cidx_init s) in
  exists pre post,
    s = pre ++ i_this st' ++ post /\
    cidx_as_str st' = (zlen pre, zlen (i_this st')) /\
    utf8 pre = true /\ utf8 (i_this st') = true /\ utf8 post = true /\
    deque_split h (chars s) = (chars pre, chars (i_this st'), chars post).
Proof.
  intros U. pose proof (cidx_final_forget h (cidx_init s) U) as F.
  pose proof (chars_as_str_middle s h U) as H. cbn zeta in H |- *.
  change (forget (cidx_init s)) with (chars_init s) in F. rewrite <- F in H. exact H.
Qed.

(* ------------------------------------------------------------------ statements over scalar values *)

Lemma scalar_range c : is_scalar c -> 0 <= c < 1114112.
Proof. unfold is_scalar. lia. Qed.
Theorem encode_scalar c : is_scalar c -> encode_m c = encode c.
Proof. intros S. apply encode_eq_std. now apply scalar_range. Qed.
Theorem decode_encode_scalar c : is_scalar c -> string_to_usv_m (encode_m c) = c.
Proof. intros S. apply decode_encode. now apply scalar_range. Qed.

(** every scalar value has a well-formed encoding that decodes back to it *)
Theorem encode_wf c : is_scalar c -> wf (encode c) /\ dec_char (encode c) = c.
Proof.
  unfold is_scalar, wf, encode. intros S.
  destruct (Z.ltb_spec c 128); [cbn [wf_char dec_char]; unf; split; lia|].
  destruct (Z.ltb_spec c 2048); [cbn [wf_char dec_char]; unfold dec2; unf; split; lia|].
  destruct (Z.ltb_spec c 65536); [cbn [wf_char dec_char]; unfold dec3; unf; split; lia|].
  cbn [wf_char dec_char]; unfold dec4; unf; split; lia.
Qed.

Example chars_example :
  (utf8 [97; 195; 169; 233; 148; 136; 240; 159; 167; 160] = true) /\
  (chars [97; 195; 169; 233; 148; 136; 240; 159; 167; 160] = [97; 233; 38152; 129504]) /\
  (char_indices [97; 195; 169; 233; 148; 136; 240; 159; 167; 160] = [(0, 97); (1, 233); (3, 38152); (6, 129504)]) /\
  (run _ _ chars_next' chars_next_back' [Back; Front; Front; Back; Back]
     (chars_init [97; 195; 169; 233; 148; 136; 240; 159; 167; 160])
   = [Some 129504; Some 97; Some 233; Some 38152; None]).
Proof. repeat split. Qed.
