(** C07: char <-> UTF-8 / u32 conversions (complete sweeps of the finite domain) and the
    chars / char_indices iterators (refinement of a deque for every front/back history). *)
From KV Require Import Base.Prelude Base.Deque Model.Utf8 Model.Str Model.Chars Spec.Utf8 Proofs.Utf8Proofs Proofs.Utf8Sweep.

(* ------------------------------------------------------------------ codec *)

Theorem decode_encode c : 0 <= c < 1114112 -> string_to_usv_m (encode_m c) = c.
Proof. intros H. apply Z.eqb_eq. now apply (all_below_spec _ _ dec_sweep). Qed.

(** [encode_m] = the arithmetic encoding of Table 3-6: shifts are divisions, masks are
    remainders, and or-ing a tag byte onto a smaller payload is addition *)
Lemma lor128 x : 0 <= x < 64 -> Z.lor 128 x = 128 + x.
Proof.
  intros H. apply Z.eqb_eq.
  apply (all_below_spec 64 (fun x => Z.lor 128 x =? 128 + x)); [vm_compute; reflexivity | lia].
Qed.
Lemma lor192 x : 0 <= x < 32 -> Z.lor 192 x = 192 + x.
Proof.
  intros H. apply Z.eqb_eq.
  apply (all_below_spec 32 (fun x => Z.lor 192 x =? 192 + x)); [vm_compute; reflexivity | lia].
Qed.
Lemma lor224 x : 0 <= x < 16 -> Z.lor 224 x = 224 + x.
Proof.
  intros H. apply Z.eqb_eq.
  apply (all_below_spec 16 (fun x => Z.lor 224 x =? 224 + x)); [vm_compute; reflexivity | lia].
Qed.
Lemma lor240 x : 0 <= x < 16 -> Z.lor 240 x = 240 + x.
Proof.
  intros H. apply Z.eqb_eq.
  apply (all_below_spec 16 (fun x => Z.lor 240 x =? 240 + x)); [vm_compute; reflexivity | lia].
Qed.
Lemma land63 x : Z.land x 63 = x mod 64.
Proof. change 63 with (Z.ones 6). rewrite Z.land_ones by lia. reflexivity. Qed.
Lemma shr6 x : Z.shiftr x 6 = x / 64.
Proof. rewrite Z.shiftr_div_pow2 by lia. reflexivity. Qed.
Lemma shr12 x : Z.shiftr x 12 = x / 4096.
Proof. rewrite Z.shiftr_div_pow2 by lia. reflexivity. Qed.
Lemma shr18 x : Z.shiftr x 18 = x / 262144.
Proof. rewrite Z.shiftr_div_pow2 by lia. reflexivity. Qed.

Theorem encode_eq_std c : 0 <= c < 1114112 -> encode_m c = encode c.
Proof.
  intros H. unfold encode_m, encode, u8. rewrite !land63, ?shr6, ?shr12, ?shr18.
  destruct (Z.leb_spec c 127); [destruct (Z.ltb_spec c 128); [|lia] |destruct (Z.ltb_spec c 128); [lia|]].
  { now rewrite Z.mod_small by lia. }
  destruct (Z.leb_spec c 2047); [destruct (Z.ltb_spec c 2048); [|lia] |destruct (Z.ltb_spec c 2048); [lia|]].
  { rewrite (Z.mod_small (c / 64)), (Z.mod_small (c mod 64)) by lia.
    rewrite lor192, lor128 by lia. reflexivity. }
  destruct (Z.leb_spec c 65535); [destruct (Z.ltb_spec c 65536); [|lia] |destruct (Z.ltb_spec c 65536); [lia|]].
  { rewrite (Z.mod_small (c / 4096)), (Z.mod_small ((c / 64) mod 64)), (Z.mod_small (c mod 64)) by lia.
    rewrite lor224, !lor128 by lia. reflexivity. }
  rewrite (Z.mod_small (c / 262144)), (Z.mod_small ((c / 4096) mod 64)),
    (Z.mod_small ((c / 64) mod 64)), (Z.mod_small (c mod 64)) by lia.
  rewrite lor240, !lor128 by lia. reflexivity.
Qed.

(** [from_u32]: succeeds exactly on Unicode scalar values and returns that value *)
Theorem from_u32_iff n : 0 <= n -> (from_u32_m n = Some n <-> is_scalar n).
Proof.
  intros H. unfold from_u32_m, is_scalar. split.
  - destruct (_ || _) eqn:E; [|discriminate]. intros _. lia.
  - intros S. replace ((n <? 55296) || (57344 <=? n) && (n <=? 1114111)) with true by lia. reflexivity.
Qed.
Theorem from_u32_some n c : 0 <= n -> from_u32_m n = Some c -> c = n /\ is_scalar n.
Proof.
  intros H E. assert (c = n) as ->.
  { unfold from_u32_m in E. destruct (_ || _); [now inversion E | discriminate]. }
  split; [reflexivity | now apply from_u32_iff].
Qed.
Theorem from_u32_none n : 0 <= n -> (from_u32_m n = None <-> ~ is_scalar n).
Proof.
  intros H. rewrite <- from_u32_iff by trivial. unfold from_u32_m.
  destruct (_ || _); split; intro N; try discriminate; try reflexivity.
  exfalso. apply N. reflexivity.
Qed.

(** Table 3-7 sequences and scalar values correspond one to one (Spec-level round trips) *)
Lemma wf_dec_encode e : wf e -> encode (dec_char e) = e /\ is_scalar (dec_char e).
Proof.
  unfold wf, is_scalar. intros H.
  destruct e as [|a [|b [|c [|d [|? ?]]]]]; cbn [wf_char] in H; try discriminate;
    cbn [dec_char]; unfold encode, dec2, dec3, dec4.
  - unf. replace (a <? 128) with true by lia. split; [reflexivity | lia].
  - unf. replace ((a - 192) * 64 + (b - 128) <? 128) with false by lia.
    replace ((a - 192) * 64 + (b - 128) <? 2048) with true by lia.
    split; [|lia]. f_equal; [lia | f_equal; lia].
  - unf. replace ((a - 224) * 4096 + (b - 128) * 64 + (c - 128) <? 128) with false by lia.
    replace ((a - 224) * 4096 + (b - 128) * 64 + (c - 128) <? 2048) with false by lia.
    replace ((a - 224) * 4096 + (b - 128) * 64 + (c - 128) <? 65536) with true by lia.
    split; [|lia]. f_equal; [lia | f_equal; [lia | f_equal; lia]].
  - unf. replace ((a - 240) * 262144 + (b - 128) * 4096 + (c - 128) * 64 + (d - 128) <? 128) with false by lia.
    replace ((a - 240) * 262144 + (b - 128) * 4096 + (c - 128) * 64 + (d - 128) <? 2048) with false by lia.
    replace ((a - 240) * 262144 + (b - 128) * 4096 + (c - 128) * 64 + (d - 128) <? 65536) with false by lia.
    split; [|lia]. f_equal; [lia | f_equal; [lia | f_equal; [lia | f_equal; lia]]].
Qed.

(** the shift/mask decoder of [string_to_usv] computes the scalar value of every
    well-formed sequence; in particular the unchecked cast to [char] is sound *)
Theorem usv_eq_dec e : wf e -> string_to_usv_m e = dec_char e.
Proof.
  intros W. destruct (wf_dec_encode e W) as [E S].
  assert (R : 0 <= dec_char e < 1114112) by (unfold is_scalar in S; lia).
  rewrite <- E at 1. rewrite <- encode_eq_std by exact R. now apply decode_encode.
Qed.
Theorem decode_scalar e : wf e -> is_scalar (string_to_usv_m e).
Proof. intros W. rewrite usv_eq_dec by exact W. now apply wf_dec_encode. Qed.
