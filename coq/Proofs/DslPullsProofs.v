(** [take(n)] behind one-for-one adapters: konst's expansion pulls [min (n+1) len] items, std's
    Take pulls [min n len].  The values agree (DslStd); the number of pulled items does not. *)
From KV Require Import Base.Prelude Model.Dsl Model.DslPulls.

Lemma push_pre_take (pre : list adapter) (n0 : nat) :
  forallb one_to_one pre = true ->
  forall dir k s v,
    push (cstep CForEach) (pre ++ [ATake n0]) dir (map init_cell pre ++ [CNat k], KItems s) v =
    match k with
    | O => ((map init_cell pre ++ [CNat 0], KItems s), true)
    | S k' => ((map init_cell pre ++ [CNat k'], KItems (s ++ [apply_pre pre v])), false)
    end.
Proof.
  induction pre as [|a pre IH]; intros Hpre dir k s v.
  - destruct k as [|k']; reflexivity.
  - cbn [forallb] in Hpre. apply andb_true_iff in Hpre. destruct Hpre as [Ha Hpre].
    specialize (IH Hpre).
    destruct a; try discriminate Ha.
    + (* ACopied *)
      cbn [app map push fst snd local init_cell apply_pre].
      rewrite IH. destruct k as [|k']; reflexivity.
    + (* AMap *)
      cbn [app map push fst snd local init_cell apply_pre].
      rewrite IH. destruct k as [|k']; reflexivity.
Qed.

Lemma count_pre_take (pre : list adapter) (n0 : nat) :
  forallb one_to_one pre = true ->
  forall dir src k s,
    fold_stop_count (push (cstep CForEach) (pre ++ [ATake n0]) dir)
      (map init_cell pre ++ [CNat k], KItems s) src = Nat.min (S k) (length src).
Proof.
  intros Hpre dir src. induction src as [|v src IH]; intros k s.
  - reflexivity.
  - cbn [fold_stop_count length]. rewrite (push_pre_take pre n0 Hpre).
    destruct k as [|k'].
    + reflexivity.
    + rewrite IH. reflexivity.
Qed.

Lemma dirlist_length d (l : list dval) : length (dirlist d l) = length l.
Proof. destruct d; cbn [dirlist]; [apply rev_length | reflexivity]. Qed.

Theorem dsl_take_pulls (pre : list adapter) (n : nat) (src : list dval) :
  forallb one_to_one pre = true ->
  pulled (pre ++ [ATake n]) CForEach src = Nat.min (S n) (length src).
Proof.
  intros Hpre. unfold pulled. cbv zeta.
  rewrite map_app. cbn [map init_cell cinit].
  rewrite (count_pre_take pre n Hpre). rewrite dirlist_length. reflexivity.
Qed.

(** ... which is std's number exactly when the source has no item beyond the n-th *)
Theorem dsl_take_pulls_eq_std_iff (pre : list adapter) (n : nat) (src : list dval) :
  forallb one_to_one pre = true ->
  (pulled (pre ++ [ATake n]) CForEach src = std_take_pulls n src <-> (length src <= n)%nat).
Proof.
  intros Hpre. rewrite (dsl_take_pulls pre n src Hpre). unfold std_take_pulls. lia.
Qed.

(** F11: one item more than std whenever the source is longer than n *)
Theorem dsl_take_pulls_one_more (pre : list adapter) (n : nat) (src : list dval) :
  forallb one_to_one pre = true -> (n < length src)%nat ->
  pulled (pre ++ [ATake n]) CForEach src = S (std_take_pulls n src).
Proof.
  intros Hpre Hn. rewrite (dsl_take_pulls pre n src Hpre). unfold std_take_pulls. lia.
Qed.

Theorem dsl_take_pulls_std_refuted :
  exists pre n src, forallb one_to_one pre = true /\
    pulled (pre ++ [ATake n]) CForEach src <> std_take_pulls n src.
Proof.
  exists [AMap (fun v => v)], 2%nat, [DInt 1; DInt 2; DInt 0].
  split; [reflexivity | vm_compute; discriminate].
Qed.

(** non-vacuity: the premise is met by a chain the harness runs, and the count is 3 there *)
Example pulls_witness :
  pulled ([ACopied; AMap (fun v => v)] ++ [ATake 2]) CForEach [DInt 1; DInt 2; DInt 0] = 3%nat
  /\ std_take_pulls 2 [DInt 1; DInt 2; DInt 0] = 2%nat.
Proof. split; reflexivity. Qed.
