(** The one extraction file.  [ExtrOcamlBasic] only: [Z], [positive], [nat], [ascii],
    [string] stay the Coq inductives. *)
From Coq Require Import ExtrOcamlBasic.
From KV Require Import Glue.Dispatch.
Extraction "kv.ml" run_line.
