(** Specification vocabulary for C18 (parser_method!): what "the first listed
    alternative that matches", "the earliest position at which any alternative
    matches" and "remove repeatedly" mean, in plain list terms, no algorithm. *)
From KV Require Import Base.Prelude Spec.Search.
Local Open Scope nat_scope.

(** which end of the remainder a form works at *)
Inductive end_ : Type := Front | Back.

(** [a] matches at that end of [bytes] and [r] is what is left *)
Definition splits (e : end_) (a bytes r : list Z) : Prop :=
  match e with Front => bytes = a ++ r | Back => bytes = r ++ a end.
(** = Prelude's is_prefix / is_suffix *)
Definition matches (e : end_) (a bytes : list Z) : Prop := exists r, splits e a bytes r.

(** the alternatives as listed: (index of the branch, literal's bytes), in source order *)
Definition arm_list : Type := list (nat * list Z).

(** arm number [j] = [(i, a)] is the FIRST LISTED arm whose literal satisfies [P] *)
Definition first_listed (P : list Z -> Prop) (arms : arm_list) (j i : nat) (a : list Z) : Prop :=
  nth_error arms j = Some (i, a) /\ P a /\
  forall j' i' a', j' < j -> nth_error arms j' = Some (i', a') -> ~ P a'.

(** no arm's literal satisfies [P] *)
Definition none_listed (P : list Z -> Prop) (arms : arm_list) : Prop :=
  forall i a, In (i, a) arms -> ~ P a.

(** an occurrence of [a] in [h] that ENDS at byte offset [e] *)
Definition occ_end (h a : list Z) (e : nat) : Prop :=
  exists k, occ h a k /\ k + length a = e.

(** trimming: [trims e arms bytes out] — remove the first listed alternative that
    matches, again and again, until none matches or the one that does is empty *)
Inductive trims (e : end_) (arms : arm_list) : list Z -> list Z -> Prop :=
| trims_none bytes :
    none_listed (fun a => matches e a bytes) arms -> trims e arms bytes bytes
| trims_empty bytes j i :
    first_listed (fun a => matches e a bytes) arms j i [] -> trims e arms bytes bytes
| trims_step bytes j i a r out :
    first_listed (fun a => matches e a bytes) arms j i a -> a <> [] ->
    splits e a bytes r -> trims e arms r out -> trims e arms bytes out.
