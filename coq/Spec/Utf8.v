(** What "valid UTF-8", "the chars of a string" and "char boundary" mean, written directly
    from the Unicode standard (Table 3-7, well-formed UTF-8 byte sequences) and the std
    documentation - no shift/mask, no boundary scanning, nothing taken from konst.

    A string is well formed iff it is a concatenation of well-formed single-character
    sequences; [segs] computes that segmentation (the table is prefix-free, so it is
    unique).  Everything else is read off the segmentation. The harness ties [utf8],
    [chars], [char_indices] to core::str::from_utf8 / str::chars / str::char_indices and
    [encode] to char::encode_utf8 on every run. *)
From KV Require Import Base.Prelude.

Definition inr (lo hi b : Z) : bool := (lo <=? b) && (b <=? hi).
(** continuation byte 80..BF *)
Definition cont (b : Z) : bool := inr 128 191 b.

(** the rows of Table 3-7 *)
Definition wf1 (a : Z) : bool := inr 0 127 a.
Definition wf2 (a b : Z) : bool := inr 194 223 a && cont b.
Definition wf3 (a b c : Z) : bool :=
  ((a =? 224) && inr 160 191 b || inr 225 236 a && cont b ||
   (a =? 237) && inr 128 159 b || inr 238 239 a && cont b) && cont c.
Definition wf4 (a b c d : Z) : bool :=
  ((a =? 240) && inr 144 191 b || inr 241 243 a && cont b || (a =? 244) && inr 128 143 b)
  && cont c && cont d.

(** one well-formed character *)
Definition wf_char (e : list Z) : bool :=
  match e with
  | [a] => wf1 a
  | [a; b] => wf2 a b
  | [a; b; c] => wf3 a b c
  | [a; b; c; d] => wf4 a b c d
  | _ => false
  end.

(** the scalar value a well-formed sequence denotes (Table 3-6), arithmetically *)
Definition dec2 (a b : Z) : Z := (a - 192) * 64 + (b - 128).
Definition dec3 (a b c : Z) : Z := (a - 224) * 4096 + (b - 128) * 64 + (c - 128).
Definition dec4 (a b c d : Z) : Z := (a - 240) * 262144 + (b - 128) * 4096 + (c - 128) * 64 + (d - 128).
Definition dec_char (e : list Z) : Z :=
  match e with
  | [a] => a
  | [a; b] => dec2 a b
  | [a; b; c] => dec3 a b c
  | [a; b; c; d] => dec4 a b c d
  | _ => 0
  end.

Definition consopt {A} (e : A) (o : option (list A)) : option (list A) :=
  match o with Some es => Some (e :: es) | None => None end.

(** segmentation into well-formed characters; [None] = not valid UTF-8 *)
Fixpoint segs (l : list Z) : option (list (list Z)) :=
  match l with
  | [] => Some []
  | a :: r1 =>
    if wf1 a then consopt [a] (segs r1) else
    match r1 with
    | [] => None
    | b :: r2 =>
      if wf2 a b then consopt [a; b] (segs r2) else
      match r2 with
      | [] => None
      | c :: r3 =>
        if wf3 a b c then consopt [a; b; c] (segs r3) else
        match r3 with
        | [] => None
        | d :: r4 => if wf4 a b c d then consopt [a; b; c; d] (segs r4) else None
        end
      end
    end
  end.

(** [core::str::from_utf8(l).is_ok()] *)
Definition utf8 (l : list Z) : bool := match segs l with Some _ => true | None => false end.

(** [str::chars] as scalar values *)
Definition chars (l : list Z) : list Z :=
  match segs l with Some es => map dec_char es | None => [] end.

(** byte offset at which each segment starts, counting from [o] *)
Fixpoint offs (o : Z) (es : list (list Z)) : list Z :=
  match es with
  | [] => []
  | e :: r => o :: offs (o + zlen e) r
  end.

(** [str::char_indices] *)
Definition char_indices (l : list Z) : list (Z * Z) :=
  match segs l with Some es => combine (offs 0 es) (map dec_char es) | None => [] end.

(** [str::is_char_boundary]: "the start or the end of the string, or the first byte of a
    character" - via the decoder, not via a byte test *)
Definition std_boundary (s : list Z) (i : Z) : bool :=
  (i =? zlen s) || existsb (Z.eqb i) (map fst (char_indices s)).

(** [str::get(a..b)] as a view (offset, length) of the argument:
    [None] when out of range, when [a > b], or when an end is not on a boundary *)
Definition std_get (s : list Z) (a b : Z) : option (Z * Z) :=
  if (a <=? b) && (b <=? zlen s) && std_boundary s a && std_boundary s b then Some (a, b - a) else None.

(** Unicode scalar values and their encoding (Table 3-6), arithmetically *)
Definition scalarb (n : Z) : bool := inr 0 55295 n || inr 57344 1114111 n.
Definition encode (c : Z) : list Z :=
  if c <? 128 then [c]
  else if c <? 2048 then [192 + c / 64; 128 + c mod 64]
  else if c <? 65536 then [224 + c / 4096; 128 + (c / 64) mod 64; 128 + c mod 64]
  else [240 + c / 262144; 128 + (c / 4096) mod 64; 128 + (c / 64) mod 64; 128 + c mod 64].
