(** What a Rust string literal denotes, written from the Rust Reference (Tokens:
    String literals, Raw string literals; Macros: concat!) and independently of the
    proc macro's decoder.  Source text and value are lists of Unicode scalar values;
    [utf8] (Unicode Table 3-6, written arithmetically) turns either into bytes.

      STRING_LITERAL : dquote ( ~[dquote \ IsolatedCR] | QUOTE_ESCAPE | ASCII_ESCAPE
                              | UNICODE_ESCAPE | STRING_CONTINUE )* dquote
      QUOTE_ESCAPE   : \' | \dquote
      ASCII_ESCAPE   : \x OCT_DIGIT HEX_DIGIT | \n | \r | \t | \\ | \0
      UNICODE_ESCAPE : \u{ ( HEX_DIGIT _* ){1..6} }     (value must be a scalar value)
      STRING_CONTINUE: \ followed by LF; the backslash, the LF and all following
                       U+0020, U+0009, U+000A, U+000D are ignored
      RAW_STRING_LITERAL : r #^n dquote body dquote #^n   (no escapes; value = body) *)
From KV Require Import Base.Prelude.

Definition scalar (c : Z) : Prop := 0 <= c < 55296 \/ 57344 <= c <= 1114111.

Definition utf8_char (c : Z) : list Z :=
  if c <? 128 then [c]
  else if c <? 2048 then [192 + c / 64; 128 + c mod 64]
  else if c <? 65536 then [224 + c / 4096; 128 + (c / 64) mod 64; 128 + c mod 64]
  else [240 + c / 262144; 128 + (c / 4096) mod 64; 128 + (c / 64) mod 64; 128 + c mod 64].

Definition utf8 (s : list Z) : list Z := flat_map utf8_char s.

(** HEX_DIGIT and its value *)
Definition hex_digit (c d : Z) : Prop :=
  (48 <= c <= 57 /\ d = c - 48) \/ (97 <= c <= 102 /\ d = c - 87) \/ (65 <= c <= 70 /\ d = c - 55).

(** positional value of a digit string *)
Definition hex_value (ds : list Z) : Z := fold_left (fun acc d => acc * 16 + d) ds 0.

(** ( HEX_DIGIT | _ )* : source characters -> digit values, underscores dropped *)
Inductive udigits : list Z -> list Z -> Prop :=
| ud_nil : udigits [] []
| ud_digit c d s ds : hex_digit c d -> udigits s ds -> udigits (c :: s) (d :: ds)
| ud_us s ds : udigits s ds -> udigits (95 :: s) ds.

Inductive simple_escape : Z -> Z -> Prop :=
| se_n : simple_escape 110 10
| se_r : simple_escape 114 13
| se_t : simple_escape 116 9
| se_bs : simple_escape 92 92
| se_0 : simple_escape 48 0
| se_sq : simple_escape 39 39
| se_dq : simple_escape 34 34.

(** the characters ignored after a STRING_CONTINUE *)
Definition cont_ws (c : Z) : Prop := c = 32 \/ c = 9 \/ c = 10 \/ c = 13.

(** [str_body src v]: the text between the quotes denotes the characters [v] *)
Inductive str_body : list Z -> list Z -> Prop :=
| sb_nil : str_body [] []
| sb_char c s v :
    scalar c -> c <> 34 -> c <> 92 -> c <> 13 -> str_body s v -> str_body (c :: s) (c :: v)
| sb_simple e c s v :
    simple_escape e c -> str_body s v -> str_body (92 :: e :: s) (c :: v)
| sb_hex h l a b s v :
    hex_digit h a -> a <= 7 -> hex_digit l b -> str_body s v ->
    str_body (92 :: 120 :: h :: l :: s) (a * 16 + b :: v)
| sb_unicode c0 d0 us ds s v :
    hex_digit c0 d0 -> udigits us ds -> (length ds <= 5)%nat -> scalar (hex_value (d0 :: ds)) ->
    str_body s v ->
    str_body (92 :: 117 :: 123 :: c0 :: us ++ 125 :: s) (hex_value (d0 :: ds) :: v)
| sb_continue ws s v :
    Forall cont_ws ws -> (forall c s', s = c :: s' -> ~ cont_ws c) -> str_body s v ->
    str_body (92 :: 10 :: ws ++ s) v.

(** a whole string-literal token *)
Definition rustc_string (src v : list Z) : Prop :=
  exists body, src = 34 :: body ++ [34] /\ str_body body v.

(** a raw string-literal token with [n] hashes around [body] *)
Definition raw_token (n : nat) (body : list Z) : list Z :=
  114 :: repeat 35 n ++ 34 :: body ++ 34 :: repeat 35 n.
