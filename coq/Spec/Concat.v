(** What std's [concat] / [join] / [collect::<String>] and the CStr constructors mean, in plain
    list vocabulary (no algorithm, no lengths, no indices). *)
From KV Require Import Base.Prelude.

(** [<[&[T]]>::concat], [<[&str]>::concat], [Iterator::collect::<String>] (on the pieces'
    bytes): the pieces one after the other *)
Definition flat {A} (pieces : list (list A)) : list A := List.concat pieces.

(** [<[&str]>::join(sep)]: the pieces with [sep] between neighbours; nothing for no pieces *)
Fixpoint intercalate {A} (sep : list A) (pieces : list (list A)) : list A :=
  match pieces with
  | [] => []
  | [x] => x
  | x :: rest => x ++ sep ++ intercalate sep rest
  end.

(** the true total length of the pieces (no machine arithmetic) *)
Definition total_len {A} (pieces : list (list A)) : Z := zlen (flat pieces).

(** [bytes] splits at its FIRST nul byte into [pre], the nul, and [post] *)
Definition first_nul_split (bytes pre post : list Z) : Prop :=
  bytes = pre ++ 0 :: post /\ ~ In 0 pre.
