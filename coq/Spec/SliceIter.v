(** What the std slice iterators yield, as closed formulas over the slice length
    (views = (offset, length) in elements), with no algorithm in sight:

      iter            the indices 0, 1, .., len-1
      windows(n)      (i, n)                       for i < len - n + 1
      chunks(n)       (i*n, min n (len - i*n))     for i < ceil(len / n)
      rchunks(n)      the same chunks counted from the END of the slice
      chunks_exact    (i*n, n)  for i < len / n;   remainder (len/n*n, len mod n)
      rchunks_exact   (len - (i+1)*n, n)  for i < len / n;   remainder (0, len mod n)
      array_chunks    = chunks_exact (as_chunks().0.iter())

    plus the plain-list reading of a view ([sub]) and of "reversing swaps the ends". *)
From KV Require Import Base.Prelude Base.Deque Model.SliceIter.

(** [0; 1; ..; k-1]  (empty when k <= 0) *)
Definition ziota (k : Z) : list Z := map Z.of_nat (seq 0 (Z.to_nat k)).

Definition iter_spec (len : Z) : list Z := ziota len.

Definition windows_spec (n len : Z) : list view :=
  map (fun i => mkv i n) (ziota (len - n + 1)).

(** ceil (len / n) *)
Definition chunks_count (n len : Z) : Z := (len + n - 1) / n.

Definition chunks_spec (n len : Z) : list view :=
  map (fun i => mkv (i * n) (Z.min n (len - i * n))) (ziota (chunks_count n len)).

Definition rchunks_spec (n len : Z) : list view :=
  map (fun i => mkv (Z.max 0 (len - (i + 1) * n)) (Z.min n (len - i * n))) (ziota (chunks_count n len)).

Definition chunks_exact_spec (n len : Z) : list view :=
  map (fun i => mkv (i * n) n) (ziota (len / n)).
Definition chunks_exact_rem (n len : Z) : view := mkv (len / n * n) (len mod n).

Definition rchunks_exact_spec (n len : Z) : list view :=
  map (fun i => mkv (len - (i + 1) * n) n) (ziota (len / n)).
Definition rchunks_exact_rem (n len : Z) : view := mkv 0 (len mod n).

Definition array_chunks_spec := chunks_exact_spec.
Definition array_chunks_rem := chunks_exact_rem.

(** the elements a view covers *)
Definition sub {A} (l : list A) (v : view) : list A :=
  firstn (Z.to_nat (vlen v)) (skipn (Z.to_nat (voff v)) l).
(** the indices a view covers *)
Definition view_indices (v : view) : list Z := map (fun i => voff v + i) (ziota (vlen v)).

(** the other end *)
Definition swap_end (e : end_) : end_ := match e with Front => Back | Back => Front end.

(** what is left of a deque after a history of pops *)
Fixpoint deque_rest {A} (h : list end_) (l : list A) : list A :=
  match h with
  | [] => l
  | Front :: h' => match l with [] => deque_rest h' l | _ :: r => deque_rest h' r end
  | Back :: h' => match pop_back l with None => deque_rest h' l | Some (_, r) => deque_rest h' r end
  end.

(** std's chunking in list vocabulary (fuel = an upper bound of the number of chunks) *)
Fixpoint chunks_list {A} (fuel : nat) (n : nat) (l : list A) : list (list A) :=
  match fuel with
  | O => []
  | S f => match l with [] => [] | _ => firstn n l :: chunks_list f n (skipn n l) end
  end.
Fixpoint windows_list {A} (fuel : nat) (n : nat) (l : list A) : list (list A) :=
  match fuel with
  | O => []
  | S f => if Nat.ltb (length l) n then [] else firstn n l :: windows_list f n (tl l)
  end.
