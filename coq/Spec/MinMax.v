(** std::cmp::{min, max, min_by, max_by, min_by_key, max_by_key} as documented:
    "Returns the first argument if the comparison determines them to be equal" (min family),
    "Returns the second argument if the comparison determines them to be equal" (max family).
    [std_*_lt] is the shape the functions have in current std sources
    ([if compare(&v2, &v1).is_lt() ..]); it coincides with the documented one for every
    comparator that is antisymmetric, which [Ord] requires. *)
From KV Require Import Base.Prelude Model.MinMax.

Section Std.
  Context {A K : Type}.

  Definition std_min_by (compare : A -> A -> comparison) (v1 v2 : A) : side :=
    match compare v1 v2 with Lt | Eq => L | Gt => R end.
  Definition std_max_by (compare : A -> A -> comparison) (v1 v2 : A) : side :=
    match compare v1 v2 with Lt | Eq => R | Gt => L end.
  Definition std_min (cmp : A -> A -> comparison) := std_min_by cmp.
  Definition std_max (cmp : A -> A -> comparison) := std_max_by cmp.
  Definition std_min_by_key (cmpk : K -> K -> comparison) (f : A -> K) :=
    std_min_by (fun a b => cmpk (f a) (f b)).
  Definition std_max_by_key (cmpk : K -> K -> comparison) (f : A -> K) :=
    std_max_by (fun a b => cmpk (f a) (f b)).

  Definition is_lt (c : comparison) : bool := match c with Lt => true | _ => false end.
  Definition std_min_by_lt (compare : A -> A -> comparison) (v1 v2 : A) : side :=
    if is_lt (compare v2 v1) then R else L.
  Definition std_max_by_lt (compare : A -> A -> comparison) (v1 v2 : A) : side :=
    if is_lt (compare v2 v1) then L else R.

  Definition antisym {X} (c : X -> X -> comparison) : Prop :=
    forall a b, c a b = CompOpp (c b a).
End Std.
