(** Specification vocabulary for pattern search: what `str::find` / `str::rfind`
    (and `<[u8]>` windows search) mean, with no algorithm in sight. *)
From KV Require Import Base.Prelude.
Local Open Scope nat_scope.

(** the needle [n] occurs in [h] at byte offset [i] *)
Definition occ (h n : list Z) (i : nat) : Prop :=
  exists a b, h = a ++ n ++ b /\ length a = i.

(** lowest / highest offset of an occurrence; absence *)
Definition first_occ (h n : list Z) (i : nat) : Prop :=
  occ h n i /\ forall j, j < i -> ~ occ h n j.
Definition last_occ (h n : list Z) (i : nat) : Prop :=
  occ h n i /\ forall j, i < j -> ~ occ h n j.
Definition no_occ (h n : list Z) : Prop := forall j, ~ occ h n j.
