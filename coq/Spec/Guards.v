(** C17 — what a well-formed macro invocation is, in plain list vocabulary (no macro matching). *)
From KV Require Import Base.Prelude Model.Guards.
Import ListNotations.
Local Open Scope nat_scope.

(* ------------------------------------------------------------------ iterator DSL *)

(** methods documented as taking no arguments *)
Definition argless (m : mname) : bool :=
  match m with Rev | Copied | Enumerate | Flatten | Count | Next => true | _ => false end.
(** methods that return an iterator *)
Definition is_adapter (m : mname) : bool :=
  match m with
  | Copied | Filter | FilterMap | FlatMap | Flatten | Map | TakeWhile | Rev
  | Zip | Enumerate | Take | Skip | SkipWhile => true
  | _ => false
  end.
(** methods that consume the iterator *)
Definition is_consumer (m : mname) : bool :=
  match m with
  | Rfind | All | Any | Count | Find | FindMap | Rfold | Fold | ForEach | Nth | Next
  | Position | Rposition => true
  | _ => false
  end.

(** `m()` for an argument-less method, `m(<arguments>)` for the others; never a bare `m` *)
Definition args_ok (x : meth) : Prop := snd x = if argless (fst x) then Empty else Given.

Definition reversing_count (ms : list meth) : nat :=
  length (filter (fun x => reversing (fst x)) ms).

(** every method is supported at its position: for_each!/collect_const! take adapters only;
    eval! takes adapters and then at most one consumer, in last position *)
Definition supported_at (p : pos) (ms : list meth) : Prop :=
  match p with
  | PEval =>
      exists ads tl, ms = ads ++ tl /\ Forall (fun x => is_adapter (fst x) = true) ads /\
                     (tl = [] \/ exists c, tl = [c] /\ is_consumer (fst c) = true)
  | _ => Forall (fun x => is_adapter (fst x) = true) ms
  end.

Definition dsl_ok (p : pos) (ms : list meth) : Prop :=
  reversing_count ms <= 1 /\ supported_at p ms /\ Forall args_ok ms.

(* ------------------------------------------------------------------ parser_method! *)

(** a branch before the default: string-literal patterns only (so no `_`), at least one, and
    followed by a comma unless its body is a block *)
Definition mid_ok (b : branch) : Prop :=
  b_pats b <> [] /\ Forall (fun p => lit_ok p = true) (b_pats b) /\
  (b_comma b = true \/ b_body b = BBlock).

(** match-like methods: literal branches, then exactly one default branch `_ => e`, last;
    trim methods: a non-empty `|`-list of literals *)
Definition pm_ok (f : pm_form) (inp : pm_input) : Prop :=
  match f with
  | Bogus => False
  | TrimStart | TrimEnd =>
      exists ps, ps <> [] /\ Forall (fun p => lit_ok p = true) ps /\ inp = PatsOnly ps
  | _ =>
      exists init d, inp = Branches (init ++ [d]) /\ Forall mid_ok init /\ b_pats d = [PWild]
  end.

(* ------------------------------------------------------------------ destructure! *)

(** no `..` among the top-level elements *)
Definition no_rest (es : list elem) : Prop := Forall (fun e => is_rest e = false) es.

(** the pattern lists exactly the declared fields / elements of the (by-value) type [t] *)
Definition fields_match (E : env) (d : destr) (t : ty) : Prop :=
  match d_shape d, t with
  | Braced, TNamed q =>
      d_path d = q /\ forall f, In f (map field_of (d_elems d)) <-> In f (fields E q)
  | TStruct, TNamed q =>
      d_path d = q /\ forall f, In f (map Z.of_nat (seq 0 (length (d_elems d)))) <-> In f (fields E q)
  | Tuple, TTuple k => length (d_elems d) = k
  | Array, TArray n =>
      let nrest := length (filter is_rest (d_elems d)) in
      if Nat.eqb nrest 0 then length (d_elems d) = n else length (d_elems d) - nrest <= n
  | _, _ => False
  end.

Definition impls_drop_ty (E : env) (t : ty) : Prop :=
  exists q, t = TNamed q /\ impls_drop E q = true.

(** `..` is allowed once in array patterns only; at most 16 elements in tuples / tuple structs *)
Definition rest_ok (d : destr) : Prop :=
  match d_shape d with
  | Array => length (filter is_rest (d_elems d)) <= 1
  | Braced => no_rest (d_elems d)
  | _ => no_rest (d_elems d) /\ length (d_elems d) <= 16
  end.

Definition destr_ok (E : env) (d : destr) : Prop :=
  rest_ok d /\
  (forall a, d_ann d = Some a -> a = d_ty d) /\
  is_ref (d_ty d) = false /\
  ~ impls_drop_ty E (d_ty d) /\
  fields_match E d (d_ty d).
