(** What std does: [Option] / [Result] methods and the [?] operator.

    A method call [recv.m(arg)] evaluates the receiver, then the argument expression, then
    runs the method body on the two VALUES ([call1] / [call2]).  A method taking a closure
    receives the closure as a value (evaluating a closure expression or a function path has
    no effect) and calls it from its body, zero or one time.  Each body is the documented
    behaviour of the std method of that name; the calls of the closure argument appear in
    the writer log exactly where the body makes them. *)
From KV Require Import Base.Prelude Model.OptRes.

Inductive control_flow (Br C : Type) : Type :=
| Continue (c : C)
| Break (b : Br).
Arguments Continue {Br C} c.
Arguments Break {Br C} b.

Section Std.
  Context {W : Type}.
  Notation M := (@M W).
  Context {A B E F : Type}.

  (** receiver.method() / receiver.method(arg) with an eagerly evaluated argument *)
  Definition call1 {R X} (recv : M R) (body : R -> M X) : M X := r <- recv ;; body r.
  Definition call2 {R V X} (recv : M R) (arg : M V) (body : R -> V -> M X) : M X :=
    r <- recv ;; v <- arg ;; body r v.

  (* ------------------------------------------------------------ Option *)
  Definition std_opt_unwrap (o : option A) : M (outcome A) :=
    match o with Some x => ret (Val x) | None => ret Panic end.
  Definition std_opt_unwrap_or (o : option A) (d : A) : M A :=
    match o with Some x => ret x | None => ret d end.
  Definition std_opt_unwrap_or_else (f : unit -> M A) (o : option A) : M A :=
    match o with Some x => ret x | None => f tt end.
  Definition std_opt_ok_or (o : option A) (err : E) : M (result A E) :=
    match o with Some x => ret (Ok x) | None => ret (Err err) end.
  Definition std_opt_ok_or_else (f : unit -> M E) (o : option A) : M (result A E) :=
    match o with Some x => ret (Ok x) | None => x <- f tt ;; ret (Err x) end.
  Definition std_opt_map (f : A -> M B) (o : option A) : M (option B) :=
    match o with Some x => y <- f x ;; ret (Some y) | None => ret None end.
  Definition std_opt_and_then (f : A -> M (option B)) (o : option A) : M (option B) :=
    match o with Some x => f x | None => ret None end.
  Definition std_opt_or_else (f : unit -> M (option A)) (o : option A) : M (option A) :=
    match o with Some x => ret (Some x) | None => f tt end.
  Definition std_opt_flatten (o : option (option A)) : M (option A) :=
    match o with Some inner => ret inner | None => ret None end.
  (** "Returns None if the option is None, otherwise calls predicate with the wrapped value
      and returns Some(t) if predicate returns true, None if it returns false" *)
  Definition std_opt_filter (p : A -> M bool) (o : option A) : M (option A) :=
    match o with
    | None => ret None
    | Some x => g <- p x ;; ret (if g then Some x else None)
    end.
  Definition std_opt_copied (o : option A) : option A := option_map (fun x => x) o.

  (* ------------------------------------------------------------ Result *)
  Definition std_res_unwrap (r : result A E) : M (outcome A) :=
    match r with Ok x => ret (Val x) | Err _ => ret Panic end.
  Definition std_res_unwrap_or (r : result A E) (d : A) : M A :=
    match r with Ok x => ret x | Err _ => ret d end.
  Definition std_res_unwrap_or_else (f : E -> M A) (r : result A E) : M A :=
    match r with Ok x => ret x | Err x => f x end.
  (** std has no method of this name; it is [r.map_or_else(|e| e, f)]:
      "maps a Result<T, E> to U by applying fallback function default to a contained Err
      value, or function f to a contained Ok value" with the identity as default *)
  Definition std_res_map_or_else {U} (default : E -> M U) (f : A -> M U) (r : result A E) : M U :=
    match r with Ok x => f x | Err x => default x end.
  Definition std_res_unwrap_err_or_else (f : A -> M E) (r : result A E) : M E :=
    std_res_map_or_else (fun x => ret x) f r.
  Definition std_res_ok (r : result A E) : M (option A) :=
    match r with Ok x => ret (Some x) | Err _ => ret None end.
  Definition std_res_err (r : result A E) : M (option E) :=
    match r with Ok _ => ret None | Err x => ret (Some x) end.
  Definition std_res_map (f : A -> M B) (r : result A E) : M (result B E) :=
    match r with Ok x => y <- f x ;; ret (Ok y) | Err x => ret (Err x) end.
  Definition std_res_map_err (f : E -> M F) (r : result A E) : M (result A F) :=
    match r with Ok x => ret (Ok x) | Err x => y <- f x ;; ret (Err y) end.
  Definition std_res_and_then (f : A -> M (result B E)) (r : result A E) : M (result B E) :=
    match r with Ok x => f x | Err x => ret (Err x) end.
  Definition std_res_or_else (f : E -> M (result A F)) (r : result A E) : M (result A F) :=
    match r with Ok x => ret (Ok x) | Err x => f x end.

  (* ------------------------------------------------------------ the ? operator *)
  (** [e?] is [match Try::branch(e) { Continue(v) => v,
                                     Break(r) => return FromResidual::from_residual(r) }] *)

  (** Result<T,E>: the residual is Result<Infallible,E>, i.e. just the error *)
  Definition res_branch (r : result A E) : control_flow E A :=
    match r with Ok x => Continue x | Err x => Break x end.
  Definition res_from_residual {X} (from : E -> F) (b : E) : result X F := Err (from b).
  Definition question_res (from : E -> F) (e : M (result A E)) (k : A -> M (result B F))
    : M (result B F) :=
    r <- e ;;
    match res_branch r with
    | Continue v => k v
    | Break b => ret (res_from_residual from b)
    end.

  (** Option<T>: the residual is Option<Infallible>, i.e. no information *)
  Definition opt_branch (o : option A) : control_flow unit A :=
    match o with Some x => Continue x | None => Break tt end.
  Definition opt_from_residual {X} (b : unit) : option X := None.
  Definition question_opt (e : M (option A)) (k : A -> M (option B)) : M (option B) :=
    o <- e ;;
    match opt_branch o with
    | Continue v => k v
    | Break b => ret (opt_from_residual b)
    end.
End Std.
