(** What std's range iterators yield, in list vocabulary (no algorithm).

    [a..b] over an integer type is the list [a; a+1; ..; b-1] (empty when [a >= b]),
    [a..=b] is [a; ..; b] (empty when [a > b]).  For [char] the same holds through the
    order isomorphism between scalar values and [0, 0x10F7FF] that closes the surrogate
    gap ([Step for char] in core::iter::range does exactly this arithmetic). *)
From KV Require Import Base.Prelude.

(** [n] consecutive integers starting at [a] *)
Fixpoint zseq (a : Z) (n : nat) : list Z :=
  match n with
  | O => []
  | S n' => a :: zseq (a + 1) n'
  end.

Definition range_spec (a b : Z) : list Z := zseq a (Z.to_nat (b - a)).
Definition range_inc_spec (a b : Z) : list Z := zseq a (Z.to_nat (b + 1 - a)).
(** the first [k] items of [a..] *)
Definition range_from_spec (a : Z) (k : nat) : list Z := zseq a k.

(** Unicode scalar values and their rank *)
Definition is_scalar (c : Z) : bool :=
  (0 <=? c) && (c <=? 1114111) && negb ((55296 <=? c) && (c <=? 57343)).
Definition char_idx (c : Z) : Z := if c <? 55296 then c else c - 2048.
Definition char_unidx (i : Z) : Z := if i <? 55296 then i else i + 2048.

Definition char_range_spec (a b : Z) : list Z := map char_unidx (range_spec (char_idx a) (char_idx b)).
Definition char_range_inc_spec (a b : Z) : list Z := map char_unidx (range_inc_spec (char_idx a) (char_idx b)).
Definition char_range_from_spec (a : Z) (k : nat) : list Z := map char_unidx (zseq (char_idx a) k).
