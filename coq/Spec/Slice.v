(** What std's slice indexing means, in view vocabulary (no algorithm, no machine integers),
    and the documented fallbacks of konst's clamping variants.

    A slice argument is its length [len]; [s.get(range)] is [Some view] exactly when the
    range is well-formed for that length.  The list-level meaning of a view is
    [Model.Slice.sub l v = firstn (vlen v) (skipn (off v) l)]. *)
From KV Require Import Base.Prelude Model.Slice.

(** [slice.get(i)] : position of the element *)
Definition std_get (len i : Z) : option Z := if i <? len then Some i else None.
(** [slice.get(s..)] *)
Definition std_get_from (len s : Z) : option view :=
  if s <=? len then Some (V s (len - s)) else None.
(** [slice.get(..e)] *)
Definition std_get_up_to (len e : Z) : option view :=
  if e <=? len then Some (V 0 e) else None.
(** [slice.get(s..e)] *)
Definition std_get_range (len s e : Z) : option view :=
  if (s <=? e) && (e <=? len) then Some (V s (e - s)) else None.
(** [slice.split_at_checked(at)] *)
Definition std_split_at (len at_ : Z) : option (view * view) :=
  if at_ <=? len then Some (V 0 at_, V at_ (len - at_)) else None.

(** the clamping variants: std's sub-slice when it exists, otherwise the documented result *)
(** slice_from: "If slice.len() < start, this simply returns an empty slice." *)
Definition clamped_from (len s : Z) : view :=
  match std_get_from len s with Some v => v | None => empty_view end.
(** slice_up_to: "If slice.len() < len, this simply returns slice back." *)
Definition clamped_up_to (len e : Z) : view :=
  match std_get_up_to len e with Some v => v | None => whole len end.
(** slice_range: "If start >= end or slice.len() < start, this returns an empty slice.
    If slice.len() < end, this returns the slice from start." *)
Definition clamped_range (len s e : Z) : view :=
  match std_get_range len s (Z.min e len) with Some v => v | None => empty_view end.
(** split_at / split_at_mut: "If at > slice.len(), this returns a slice, empty slice pair." *)
Definition clamped_split_at (len at_ : Z) : view * view :=
  match std_split_at len at_ with Some p => p | None => (whole len, empty_view) end.

(** [<&[T; N]>::try_from(slice)] *)
Definition std_try_into_array (len N : Z) : option view :=
  if len =? N then Some (V 0 N) else None.
(** [slice.as_chunks::<N>()] = (chunks, remainder), N >= 1 *)
Definition std_as_chunks (len N : Z) : chunks * view :=
  (C 0 (len / N), V (len / N * N) (len mod N)).
(** [slice.as_rchunks::<N>()] = (remainder, chunks), N >= 1 *)
Definition std_as_rchunks (len N : Z) : view * chunks :=
  (V 0 (len mod N), C (len mod N) (len / N)).

(** [first_mut], [last_mut], [split_first_mut], [split_last_mut] *)
Definition std_first (len : Z) : option Z := std_get len 0.
Definition std_last (len : Z) : option Z := if 0 <? len then Some (len - 1) else None.
Definition std_split_first (len : Z) : option (Z * view) :=
  if 0 <? len then Some (0, V 1 (len - 1)) else None.
Definition std_split_last (len : Z) : option (Z * view) :=
  if 0 <? len then Some (len - 1, V 0 (len - 1)) else None.

(** a view / chunk view lies inside an argument of [len] elements *)
Definition view_inside (len : Z) (v : view) : Prop :=
  0 <= off v /\ 0 <= vlen v /\ off v + vlen v <= len.
Definition chunks_inside (len N : Z) (c : chunks) : Prop :=
  0 <= coff c /\ 0 <= ccount c /\ coff c + ccount c * N <= len.

(** the elements of a chunk view, as one flat run *)
Definition chunks_flat (N : Z) (c : chunks) : view := V (coff c) (ccount c * N).

(** two views denote the same elements of every argument (all empty views are alike) *)
Definition view_eqv (a b : view) : Prop :=
  vlen a = vlen b /\ (vlen a <> 0 -> off a = off b).
