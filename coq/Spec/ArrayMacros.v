(** C11 — what std does, in list vocabulary.

    [<[T; N]>::map(f)] and [core::array::from_fn(f)] call the closure once per index, in
    index order, and return the results in index order.  A closure that keeps state sees
    the number of earlier calls, which for std IS the index: [mapi g l]. *)
From KV Require Import Base.Prelude.
Local Open Scope nat_scope.

Fixpoint mapi_from {A B} (k : nat) (g : nat -> A -> B) (l : list A) : list B :=
  match l with
  | [] => []
  | x :: r => g k x :: mapi_from (S k) g r
  end.
(** std's [array.map(|x| g(call_number, x))] *)
Definition std_map {A B} (g : nat -> A -> B) (l : list A) : list B := mapi_from 0 g l.
(** std's [core::array::from_fn::<_, N, _>(|i| g(call_number, i))] *)
Definition std_from_fn {B} (g : nat -> nat -> B) (N : nat) : list B := std_map g (seq 0 N).

Lemma mapi_from_pure {A B} (f : A -> B) k l : mapi_from k (fun _ x => f x) l = map f l.
Proof. revert k; induction l as [|x r IH]; intro k; cbn; [reflexivity | now rewrite IH]. Qed.

(** a [[MaybeUninit<T>; N]] every slot of which has been written *)
Definition fully_init {B} (slots : list (option B)) : Prop := Forall (fun o => o <> None) slots.

Lemma fully_init_map_Some {B} (l : list B) : fully_init (map Some l).
Proof. induction l; constructor; [discriminate | assumption]. Qed.

(** std's [iter.collect::<Vec<_>>()] of the items a chain yields is the list of items *)
Definition std_collect {A} (items : list A) : list A := items.
