(** What `str::split` / `rsplit` / `split_terminator` yield, for a NON-empty delimiter:
    cut at the leftmost (rightmost) occurrence, continue in the rest. *)
From KV Require Import Base.Prelude Spec.Search.
Local Open Scope nat_scope.

(** pieces of [h.split(d)], front to back *)
Inductive split_rel (d : list Z) : list Z -> list (list Z) -> Prop :=
| SR_last h : no_occ h d -> split_rel d h [h]
| SR_cons h i rest :
    first_occ h d i -> split_rel d (skipn (i + length d) h) rest ->
    split_rel d h (firstn i h :: rest).

(** pieces of [h.rsplit(d)], back to front *)
Inductive rsplit_rel (d : list Z) : list Z -> list (list Z) -> Prop :=
| RSR_last h : no_occ h d -> rsplit_rel d h [h]
| RSR_cons h i rest :
    last_occ h d i -> rsplit_rel d (firstn i h) rest ->
    rsplit_rel d h (skipn (i + length d) h :: rest).

(** [split_terminator]: the same pieces, minus a final empty piece;
    [rsplit_terminator] (konst's mirrored rule): [rsplit]'s pieces minus a final (left-most)
    empty piece *)
Definition drop_last_empty (ps : list (list Z)) : list (list Z) :=
  match rev ps with
  | [] :: r => rev r
  | _ => ps
  end.

(** joining pieces with the delimiter *)
Fixpoint join (d : list Z) (ps : list (list Z)) : list Z :=
  match ps with
  | [] => []
  | [p] => p
  | p :: r => p ++ d ++ join d r
  end.
