(** What integer / bool parsing MEANS, in plain list vocabulary (no machine arithmetic, no
    overflow flags): the value of a digit string is computed in unbounded [Z]; a type is
    just a range.  [std_parse] is [<T as FromStr>::from_str] = [T::from_str_radix(s, 10)]
    for a primitive integer type of width [w]; it is validated against the real
    [str::parse] on every correspondence run (family [c12.stdspec], '+' included). *)
From KV Require Import Base.Prelude.

(** an ASCII decimal digit *)
Definition digit (b : Z) : Prop := 48 <= b <= 57.
Definition digitb (b : Z) : bool := (48 <=? b) && (b <=? 57).

(** base-ten value of a digit string, most significant digit first, unbounded *)
Definition digits_val_from (acc : Z) (ds : list Z) : Z :=
  fold_left (fun a d => 10 * a + (d - 48)) ds acc.
Definition digits_val (ds : list Z) : Z := digits_val_from 0 ds.

Definition signed_val (neg : bool) (ds : list Z) : Z :=
  if neg then - digits_val ds else digits_val ds.

(** the values of the integer type of width [w] *)
Definition in_range (w : Z) (sg : bool) (v : Z) : bool :=
  if sg then (- 2 ^ (w - 1) <=? v) && (v <? 2 ^ (w - 1))
  else (0 <=? v) && (v <? 2 ^ w).

(** longest run of digits at the front, and what follows it *)
Fixpoint span_digits (s : list Z) : list Z * list Z :=
  match s with
  | b :: r => if digitb b then let '(ds, rest) := span_digits r in (b :: ds, rest) else ([], s)
  | [] => ([], [])
  end.

(** an optional '-' is part of the number only for signed types *)
Definition strip_minus (sg : bool) (s : list Z) : bool * list Z :=
  match s with
  | b :: r => if (b =? 45) && sg then (true, r) else (false, s)
  | [] => (false, s)
  end.

(** the longest prefix matching [-?[0-9]+] ('-' only if signed): sign, digits, rest *)
Definition longest_numeric_prefix (sg : bool) (s : list Z) : option (bool * list Z * list Z) :=
  let '(neg, s') := strip_minus sg s in
  match span_digits s' with
  | ([], _) => None
  | (ds, rest) => Some (neg, ds, rest)
  end.

Inductive prefix_result : Type :=
| Parsed (v : Z) (rest : list Z)
| Failed.

(** prefix parsing: the number denoted by the longest numeric prefix, if it is a value of
    the type *)
Definition prefix_spec (w : Z) (sg : bool) (s : list Z) : prefix_result :=
  match longest_numeric_prefix sg s with
  | Some (neg, ds, rest) =>
      if in_range w sg (signed_val neg ds) then Parsed (signed_val neg ds) rest else Failed
  | None => Failed
  end.

(** [str::parse::<T>()] for an integer type: [[+-]?[0-9]+] ('-' only if signed), at least
    one digit, value in range *)
Definition std_sign (sg : bool) (s : list Z) : bool * list Z :=
  match s with
  | b :: r => if b =? 43 then (false, r) else if (b =? 45) && sg then (true, r) else (false, s)
  | [] => (false, s)
  end.

Definition std_parse (w : Z) (sg : bool) (s : list Z) : option Z :=
  let '(neg, ds) := std_sign sg s in
  match ds with
  | [] => None
  | _ =>
      if forallb digitb ds then
        if in_range w sg (signed_val neg ds) then Some (signed_val neg ds) else None
      else None
  end.

(** the same language, stated as a relation (no function at all) *)
Definition std_accepts (w : Z) (sg : bool) (s : list Z) (v : Z) : Prop :=
  exists sign ds,
    s = sign ++ ds /\
    (sign = [] \/ sign = [43] \/ (sign = [45] /\ sg = true)) /\
    ds <> [] /\ Forall digit ds /\
    v = (if list_eqb Z.eqb sign [45] then - digits_val ds else digits_val ds) /\
    in_range w sg v = true.

(** [str::parse::<bool>()] *)
Definition str_true : list Z := [116; 114; 117; 101].
Definition str_false : list Z := [102; 97; 108; 115; 101].

Definition std_parse_bool (s : list Z) : option bool :=
  if list_eqb Z.eqb s str_true then Some true
  else if list_eqb Z.eqb s str_false then Some false
  else None.

(** decimal printing (what [to_string] does for an integer), to state "every value of the
    type, printed, parses back to itself".  [fuel] bounds the number of digits; [dec] passes
    enough ([digits_val_dec] in the proofs pins the definition: the printed string denotes
    the number). *)
Fixpoint dec_digits (fuel : nat) (n : Z) : list Z :=
  match fuel with
  | O => []
  | S f => if n <? 10 then [48 + n] else dec_digits f (n / 10) ++ [48 + n mod 10]
  end.
Definition dec (n : Z) : list Z := dec_digits (S (Z.to_nat (Z.log2 n))) n.
Definition show_int (v : Z) : list Z := if v <? 0 then 45 :: dec (- v) else dec v.
