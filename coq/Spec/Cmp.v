(** Specification side of C16: what [==] and [Ord::cmp] mean for the supported types, in plain
    list vocabulary.  [Ordering] is Coq's [comparison] (Less = [Lt], Equal = [Eq],
    Greater = [Gt]); the order of a primitive type is [Z.compare] on its values (bool: false <
    true as 0 < 1; char: scalar value order). *)
From KV Require Import Base.Prelude.

(** lexicographic order of slices and strings ([impl Ord for [T]]: Implements comparison of
    slices lexicographically): the first differing position decides; on a common prefix the
    shorter one is less *)
Fixpoint lex {A} (cmpA : A -> A -> comparison) (l r : list A) : comparison :=
  match l, r with
  | [], [] => Eq
  | [], _ :: _ => Lt
  | _ :: _, [] => Gt
  | x :: l', y :: r' =>
      match cmpA x y with
      | Eq => lex cmpA l' r'
      | o => o
      end
  end.

(** [impl Ord for Option<T>] (derived): [None < Some(_)], [Some] compared by content *)
Definition opt_cmp {A} (cmpA : A -> A -> comparison) (l r : option A) : comparison :=
  match l, r with
  | None, None => Eq
  | None, Some _ => Lt
  | Some _, None => Gt
  | Some a, Some b => cmpA a b
  end.

(** [impl Ord for Ordering] (derived on [enum Ordering { Less = -1, Equal = 0, Greater = 1 }]):
    the declaration order Less < Equal < Greater *)
Definition ordering_rank (o : comparison) : nat :=
  match o with Lt => 0 | Eq => 1 | Gt => 2 end.
Definition ordering_cmp (l r : comparison) : comparison :=
  Nat.compare (ordering_rank l) (ordering_rank r).

(** derived [Ord] of a struct: fields in declaration order, the first non-equal one decides *)
Definition lexprod (a b : comparison) : comparison :=
  match a with Eq => b | o => o end.
Definition pair_cmp {A B} (cA : A -> A -> comparison) (cB : B -> B -> comparison)
    (p q : A * B) : comparison :=
  lexprod (cA (fst p) (fst q)) (cB (snd p) (snd q)).

(** a lawful total order given by a three-way comparison *)
Record lawful {A} (cmpA : A -> A -> comparison) : Prop := {
  law_eq : forall x y, cmpA x y = Eq <-> x = y;
  law_opp : forall x y, cmpA y x = CompOpp (cmpA x y);
  law_trans : forall x y z, cmpA x y = Lt -> cmpA y z = Lt -> cmpA x z = Lt;
}.

(** the three order laws of the property text, for a three-way comparison [c] with an
    equality test [e]: total + antisymmetric (one of <, =, > and the converse is the mirror
    image), transitive (for [<=], and strictly when one step is strict), and
    [cmp == Equal] exactly when [eq] *)
Definition le_of {A} (c : A -> A -> comparison) (x y : A) : Prop := c x y <> Gt.

Record order_laws {A} (c : A -> A -> comparison) (e : A -> A -> bool) : Prop := {
  ol_total : forall x y, c y x = CompOpp (c x y);
  ol_antisym : forall x y, le_of c x y -> le_of c y x -> x = y;
  ol_trans : forall x y z, le_of c x y -> le_of c y z -> le_of c x z;
  ol_trans_lt : forall x y z, c x y = Lt -> c y z = Lt -> c x z = Lt;
  ol_eq : forall x y, c x y = Eq <-> e x y = true;
  ol_eq_iff : forall x y, e x y = true <-> x = y;
}.

(** independent reading of lexicographic: [l] is less than [r] iff [l] is a proper prefix
    of [r] or at the first differing position [l] has the smaller element *)
Definition lex_lt_spec {A} (ltA : A -> A -> Prop) (l r : list A) : Prop :=
  (exists y t, r = l ++ y :: t) \/
  (exists p x y l' r', l = p ++ x :: l' /\ r = p ++ y :: r' /\ ltA x y).
