(** Specifications for the iterator DSL.

    [doc_sem]: the compositional LIST semantics of what the expansion does (source
    traversed backwards iff a reversing method occurs anywhere; sub-iterators of
    zip/flat_map traversed in the direction current at their position).

    [std_sem]: what the identical method chain on std iterators produces, with the two
    documented exceptions built in (enumerate numbers in iteration order; rposition counts
    from the back). *)
From KV Require Import Base.Prelude Base.Deque Model.Dsl.

(* ------------------------------------------------------------------ list vocabulary *)

Fixpoint take_while (p : dval -> bool) (l : list dval) : list dval :=
  match l with [] => [] | x :: r => if p x then x :: take_while p r else [] end.
Fixpoint skip_while (p : dval -> bool) (l : list dval) : list dval :=
  match l with [] => [] | x :: r => if p x then skip_while p r else l end.
Fixpoint filter_map (f : dval -> option dval) (l : list dval) : list dval :=
  match l with
  | [] => []
  | x :: r => match f x with Some y => y :: filter_map f r | None => filter_map f r end
  end.
Fixpoint find_map (f : dval -> option dval) (l : list dval) : option dval :=
  match l with
  | [] => None
  | x :: r => match f x with Some y => Some y | None => find_map f r end
  end.
Fixpoint position_from (p : dval -> bool) (i : nat) (l : list dval) : option nat :=
  match l with
  | [] => None
  | x :: r => if p x then Some i else position_from p (S i) r
  end.
Definition zip_pairs (l zs : list dval) : list dval := map (fun p => DPair (fst p) (snd p)) (combine l zs).
(** enumerate, numbering from [i] upwards *)
Fixpoint enum_from (i : nat) (l : list dval) : list dval :=
  match l with [] => [] | x :: r => DPair (DInt (Z.of_nat i)) x :: enum_from (S i) r end.
(** enumerate with the numbers [n-1 .. 0] (what a LATER reversal turns into [0 .. n-1] in
    iteration order: the documented exception) *)
Definition enum_down (l : list dval) : list dval :=
  rev (enum_from 0 (rev l)).

(* ------------------------------------------------------------------ consumers on lists *)

(** the consumer applied to the items in ITERATION order *)
Definition consume (c : consumer) (l : list dval) : dval :=
  match c with
  | CForEach => DList l
  | CAll p => dbool (forallb p l)
  | CAny p => dbool (existsb p l)
  | CCount => DInt (Z.of_nat (length l))
  | CFind p | CRFind p => dopt (find p l)
  | CFindMap f => dopt (find_map f l)
  | CFold a f | CRFold a f => fold_left f l a
  | CNext => dopt (hd_error l)
  | CNth n => dopt (nth_error l n)
  | CPosition p | CRPosition p => dopt (option_map (fun i => DInt (Z.of_nat i)) (position_from p 0 l))
  end.

(* ------------------------------------------------------------------ doc_sem *)

(** one adapter's transducer run over a whole list *)
Fixpoint lapply (a : adapter) (dir : bool) (c : cell) (l : list dval) : list dval :=
  match l with
  | [] => []
  | v :: l' =>
      match local a dir c v with
      | LSkip c' => lapply a dir c' l'
      | LStop => []
      | LEmit c' v' => v' :: lapply a dir c' l'
      | LInner c' ws => ws ++ lapply a dir c' l'
      end
  end.

Fixpoint den (ms : list adapter) (dir : bool) (st : list cell) (l : list dval) : list dval :=
  match ms with
  | [] => l
  | a :: ms' =>
      match st with
      | [] => []
      | c :: st' => den ms' (ndir a dir) st' (lapply a dir c l)
      end
  end.

Definition doc_sem (ms : list adapter) (c : consumer) (src : list dval) : dval :=
  let d0 := reverses ms c in
  consume c (den ms d0 (map init_cell ms) (dirlist d0 src)).

(* ------------------------------------------------------------------ std_sem *)

(** the std adapter of the same name; [rev_later]: a reversing method follows *)
Definition std_apply (a : adapter) (rev_later : bool) (l : list dval) : list dval :=
  match a with
  | ACopied => l
  | AEnumerate => if rev_later then enum_down l else enum_from 0 l
  | AFilter p => filter p l
  | AFilterMap f => filter_map f l
  | AFlatMap f => flat_map f l
  | AFlatten => flat_map as_dlist l
  | AMap f => map f l
  | ARev => rev l
  | ASkip n => skipn n l
  | ASkipWhile p => skip_while p l
  | ATake n => firstn n l
  | ATakeWhile p => take_while p l
  | AZip zs => zip_pairs l zs
  end.

Fixpoint std_adapters (ms : list adapter) (c : consumer) (l : list dval) : list dval :=
  match ms with
  | [] => l
  | a :: ms' => std_adapters ms' c (std_apply a (reverses ms' c) l)
  end.

(** r-consumers work on the reversed sequence ([rposition] counts from the back) *)
Definition std_sem (ms : list adapter) (c : consumer) (src : list dval) : dval :=
  let l := std_adapters ms c src in
  consume c (if consumer_reverses c then rev l else l).

(* ------------------------------------------------------------------ the known-finding class *)

(** adapters whose std form commutes with reversal on the list [l] they receive *)
Definition commutes_with_rev (a : adapter) (l : list dval) : Prop :=
  match a with
  | ACopied | AEnumerate | AFilter _ | AFilterMap _ | AFlatMap _ | AFlatten | AMap _ => True
  | AZip zs => length l = length zs              (* both sides end together *)
  | ATake _ | ASkip _ | ATakeWhile _ | ASkipWhile _ => False   (* positional *)
  | ARev => False
  end.

(** every adapter BEFORE the reversing method commutes with reversal *)
Fixpoint prefix_ok (pre : list adapter) (l : list dval) : Prop :=
  match pre with
  | [] => True
  | a :: pre' => commutes_with_rev a l /\ prefix_ok pre' (std_apply a true l)
  end.

(** the adapters in front of the (single) reversing method *)
Fixpoint before_rev (ms : list adapter) : list adapter :=
  match ms with
  | [] => []
  | ARev :: _ => []
  | a :: ms' => a :: before_rev ms'
  end.

(** "no reversing method is placed after a positional adapter or an unbalanced zip" *)
Definition no_rev_after_positional (ms : list adapter) (c : consumer) (src : list dval) : Prop :=
  reverses ms c = false \/ prefix_ok (before_rev ms) src.
