(** The Parser methods that a [parser_method!] invocation stands for, in list
    vocabulary (what C13/C14 establish for the real methods), on the
    (remainder, start_offset, direction) triple of Model/ParserMethod.v, and the
    shape of UTF-8 text that makes Parser::skip / skip_back cut exactly where asked. *)
From KV Require Import Base.Prelude Model.ParserMethod Spec.ParserMethod.

(** [Parser::strip_prefix(a)] returns [Ok q] *)
Definition P_strip_prefix (p : parser) (a : list Z) (q : parser) : Prop :=
  exists r, p_rem p = a ++ r /\ q = mkP r (p_off p + zlen a) FromStart.
(** [Parser::strip_suffix(a)] returns [Ok q] *)
Definition P_strip_suffix (p : parser) (a : list Z) (q : parser) : Prop :=
  exists r, p_rem p = r ++ a /\ q = mkP r (p_off p) FromEnd.

Definition P_strip (e : end_) : parser -> list Z -> parser -> Prop :=
  match e with Front => P_strip_prefix | Back => P_strip_suffix end.

(** number of continuation bytes announced by a lead byte *)
Definition lead_len (b : Z) : option nat :=
  if b <? 128 then Some 0%nat
  else if (192 <=? b) && (b <? 224) then Some 1%nat
  else if (224 <=? b) && (b <? 240) then Some 2%nat
  else if (240 <=? b) && (b <? 248) then Some 3%nat
  else None.

(** the shape of UTF-8 text (every &str has it): a sequence of chunks, each a lead
    byte followed by exactly the announced number of continuation bytes *)
Inductive str_shape : list Z -> Prop :=
| shape_nil : str_shape []
| shape_char b cs rest :
    lead_len b = Some (length cs) -> Forall (fun c => is_cont c = true) cs ->
    str_shape rest -> str_shape (b :: cs ++ rest).
