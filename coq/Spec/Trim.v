(** Specification vocabulary for C05: what std's prefix/suffix tests, strips,
    [trim_start_matches] / [trim_end_matches] and [trim_ascii*] mean, in plain list
    terms with no algorithm in sight.  ([is_prefix] / [is_suffix] are in Base.Prelude.) *)
From KV Require Import Base.Prelude.

(* ---------------------------------------------------------------- prefix test as a function *)

(** [p] is a prefix of [h], decided by comparing the first [|p|] elements *)
Definition prefixb (p h : list Z) : bool :=
  (length p <=? length h)%nat && list_eqb Z.eqb (firstn (length p) h) p.
Definition suffixb (p h : list Z) : bool :=
  (length p <=? length h)%nat && list_eqb Z.eqb (skipn (length h - length p) h) p.

(* ---------------------------------------------------------------- pattern trimming *)

(** [k] whole repetitions of [p] *)
Definition reps (p : list Z) (k : nat) : list Z := concat (repeat p k).

(** [str::trim_start_matches]: [r] is what is left of [h] after removing the MAXIMAL run
    of whole repetitions of [p] from the start: some number of repetitions was removed
    and no further one can be.  (A partial repetition stays.) *)
Definition trim_start_spec (h p r : list Z) : Prop :=
  exists k, h = reps p k ++ r /\ ~ is_prefix p r.

(** [str::trim_end_matches] *)
Definition trim_end_spec (h p r : list Z) : Prop :=
  exists k, h = r ++ reps p k /\ ~ is_suffix p r.

(* ---------------------------------------------------------------- ASCII whitespace *)

(** [u8::is_ascii_whitespace]: U+0009 TAB, U+000A LF, U+000C FF, U+000D CR, U+0020 SPACE *)
Definition ascii_ws (b : Z) : Prop := In b [9; 10; 12; 13; 32].
Definition ascii_wsb (b : Z) : bool := existsb (Z.eqb b) [9; 10; 12; 13; 32].

Fixpoint drop_while (f : Z -> bool) (l : list Z) : list Z :=
  match l with
  | x :: r => if f x then drop_while f r else l
  | [] => []
  end.

(** [r] does not begin / end with ASCII whitespace *)
Definition no_ws_head (r : list Z) : Prop := forall b t, r = b :: t -> ~ ascii_ws b.
Definition no_ws_last (r : list Z) : Prop := forall b t, r = t ++ [b] -> ~ ascii_ws b.

(** [<[u8]>::trim_ascii_start]: the removed prefix is all whitespace and is maximal *)
Definition trim_ascii_start_spec (s r : list Z) : Prop :=
  exists w, s = w ++ r /\ Forall ascii_ws w /\ no_ws_head r.
(** [<[u8]>::trim_ascii_end] *)
Definition trim_ascii_end_spec (s r : list Z) : Prop :=
  exists w, s = r ++ w /\ Forall ascii_ws w /\ no_ws_last r.
(** [<[u8]>::trim_ascii] *)
Definition trim_ascii_spec (s r : list Z) : Prop :=
  exists w1 w2, s = w1 ++ r ++ w2 /\ Forall ascii_ws w1 /\ Forall ascii_ws w2 /\
                no_ws_head r /\ no_ws_last r.
