(** What rebind_if_ok! / try_rebind! are documented to do, without any macro machinery:
    a list of targets (one per component of the Ok payload), and
    [if let Ok(t) = e { target_0 = t.0; ..; target_{n-1} = t.(n-1); code }]  /
    [let t = e?; target_0 = t.0; ..]  (a single target receives [t] itself). *)
From KV Require Import Base.Prelude Model.OptRes Model.Rebind.
Local Open Scope nat_scope.

(** one position of the pattern *)
Inductive target : Type :=
| TgPlace (e : list tok)              (* an existing place: [x], [s.f], [a[1]] .. *)
| TgPlaceTy (n : nat) (ty : nat)      (* [x: T] *)
| TgLet (p : tok)                     (* [let p] *)
| TgLetTy (p : tok) (ty : nat)        (* [let p: T] *)
| TgWild                              (* [_] *)
| TgWildTy (ty : nat).                (* [_: T] *)

(** the tokens one writes for a target *)
Definition target_toks (t : target) : list tok :=
  match t with
  | TgPlace e => e
  | TgPlaceTy n ty => [KIdent n; KColon; KTy ty]
  | TgLet p => [KLet; p]
  | TgLetTy p ty => [KLet; p; KColon; KTy ty]
  | TgWild => [KUnd]
  | TgWildTy ty => [KUnd; KColon; KTy ty]
  end.

(** comma separated *)
Fixpoint render (ts : list target) : list tok :=
  match ts with
  | [] => []
  | [t] => target_toks t
  | t :: r => target_toks t ++ KComma :: render r
  end.

(** a place expression: starts with an identifier and contains no comma, colon, [let], [_]
    or type *)
Definition wf_target (t : target) : Prop :=
  match t with
  | TgPlace (KIdent _ :: rest) => forallb tok_in_expr rest = true
  | TgPlace _ => False
  | TgLet p | TgLetTy p _ => is_pat p = true
  | _ => True
  end.

(** the left-hand side the target stands for in the expansion *)
Definition lhs_of (t : target) : list tok :=
  match t with
  | TgPlace e => e
  | TgPlaceTy n _ => [KIdent n]
  | TgLet p => [KLet; p]
  | TgLetTy p ty => [KLet; p; KColon; KTy ty]
  | TgWild => [KLet; KUnd]
  | TgWildTy ty => [KLet; KUnd; KColon; KTy ty]
  end.
(** [x: T] additionally checks the type of the payload *)
Definition pre_of (t : target) : list stmt :=
  match t with TgPlaceTy _ ty => [SAscribe (KTy ty)] | _ => [] end.

(** the statements the property asks for: component [k], [k+1], .. to the targets in order;
    a pattern with a single target gets the whole payload *)
Fixpoint steps (k : nat) (ts : list target) : list stmt :=
  match ts with
  | [] => []
  | [t] => pre_of t ++ [SAssign (lhs_of t) (if Nat.eqb k 0 then Whole else Field (KNum k))]
  | t :: r => pre_of t ++ SAssign (lhs_of t) (Field (KNum k)) :: steps (S k) r
  end.

(** writing a value through a left-hand side *)
Definition write (lhs : list tok) (v : rval) (st : store) : store :=
  match lhs_place lhs with None => st | Some pl => (pl, v) :: st end.

(** [target_0 = v_0; target_1 = v_1; ..] in this order *)
Fixpoint assign_each (ts : list target) (vals : list Z) (st : store) : store :=
  match ts, vals with
  | t :: r, v :: vs => assign_each r vs (write (lhs_of t) (VInt v) st)
  | _, _ => st
  end.

(** the store after a successful match *)
Definition rebound (ts : list target) (payload : rval) (st : store) : option store :=
  match ts, payload with
  | [t], v => Some (write (lhs_of t) v st)
  | _ :: _ :: _, VTup l => if Nat.eqb (length l) (length ts) then Some (assign_each ts l st) else None
  | _, _ => None
  end.

(** [if let Ok(t) = e { assignments; code }] *)
Definition spec_if_let {E} (ts : list target) (e : result rval E) (st : store) : rebind_out E :=
  match e with
  | Ok payload => match rebound ts payload st with Some st' => Rebound st' | None => Rejected end
  | Err _ => Skipped
  end.
(** [let t = e?; assignments] *)
Definition spec_question {E} (ts : list target) (e : result rval E) (st : store) : rebind_out E :=
  match e with
  | Ok payload => match rebound ts payload st with Some st' => Rebound st' | None => Rejected end
  | Err x => Returned x
  end.
