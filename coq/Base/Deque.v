(** Generic refinement of a by-value double-ended iterator
    ([next], [next_back] : St -> option (Item * St)) to a deque of items.

    Given an abstraction function [abs : St -> list Item] (the items the iterator has
    not yielded yet, in front-to-back order) and the two one-step facts, EVERY
    interleaving of front and back steps yields exactly what popping a deque yields,
    and ends at the same step. *)
From Coq Require Import List.
Import ListNotations.

Inductive end_ : Type := Front | Back.

(** pop from the back of a list *)
Definition pop_back {A} (l : list A) : option (A * list A) :=
  match rev l with
  | [] => None
  | x :: r => Some (x, rev r)
  end.

Lemma pop_back_app {A} (l : list A) x : pop_back (l ++ [x]) = Some (x, l).
Proof. unfold pop_back. rewrite rev_app_distr. cbn. now rewrite rev_involutive. Qed.

Lemma pop_back_nil {A} : pop_back (@nil A) = None.
Proof. reflexivity. Qed.

(** the reference behaviour: a deque popped from the named ends; [None] once empty *)
Fixpoint deque_run {A} (h : list end_) (l : list A) : list (option A) :=
  match h with
  | [] => []
  | Front :: h' =>
      match l with
      | [] => None :: deque_run h' l
      | x :: r => Some x :: deque_run h' r
      end
  | Back :: h' =>
      match pop_back l with
      | None => None :: deque_run h' l
      | Some (x, r) => Some x :: deque_run h' r
      end
  end.

Section Refinement.
  Variables St Item : Type.
  Variable next next_back : St -> option (Item * St).
  Variable abs : St -> list Item.
  (** which states the facts are claimed for (an invariant preserved by both steps) *)
  Variable Inv : St -> Prop.

  Hypothesis next_ok : forall st, Inv st ->
    match next st with
    | None => abs st = []
    | Some (x, st') => abs st = x :: abs st' /\ Inv st'
    end.
  Hypothesis next_back_ok : forall st, Inv st ->
    match next_back st with
    | None => abs st = []
    | Some (x, st') => abs st = abs st' ++ [x] /\ Inv st'
    end.

  (** run a history of front/back steps on the iterator; an exhausted iterator keeps
      its state (the caller still holds the copy it called [next] on) *)
  Fixpoint run (h : list end_) (st : St) : list (option Item) :=
    match h with
    | [] => []
    | e :: h' =>
        match (match e with Front => next st | Back => next_back st end) with
        | None => None :: run h' st
        | Some (x, st') => Some x :: run h' st'
        end
    end.

  Theorem run_refines : forall h st, Inv st -> run h st = deque_run h (abs st).
  Proof.
    induction h as [|e h IH]; intros st Hi; [reflexivity|].
    cbn [run deque_run]. destruct e.
    - pose proof (next_ok st Hi) as H. destruct (next st) as [[x st']|].
      + destruct H as [E Hi']. rewrite E. f_equal. now apply IH.
      + rewrite H. f_equal. rewrite <- H. now apply IH.
    - pose proof (next_back_ok st Hi) as H. destruct (next_back st) as [[x st']|].
      + destruct H as [E Hi']. rewrite E, pop_back_app. f_equal. now apply IH.
      + rewrite H, pop_back_nil. f_equal. rewrite <- H. now apply IH.
  Qed.

  (** forward-only exhaustion: collecting with [next] until [None] yields [abs st] *)
  Fixpoint collect (fuel : nat) (st : St) : list Item :=
    match fuel with
    | O => []
    | S f => match next st with None => [] | Some (x, st') => x :: collect f st' end
    end.

  Theorem collect_all : forall fuel st, Inv st -> length (abs st) <= fuel -> collect fuel st = abs st.
  Proof.
    induction fuel as [|f IH]; intros st Hi Hl.
    - destruct (abs st); [reflexivity | cbn in Hl; inversion Hl].
    - cbn [collect]. pose proof (next_ok st Hi) as H. destruct (next st) as [[x st']|].
      + destruct H as [E Hi']. rewrite E. f_equal. apply IH; [exact Hi'|].
        rewrite E in Hl. cbn in Hl. now apply le_S_n.
      + now rewrite H.
  Qed.
End Refinement.
