(** Shared prelude: imports, arithmetic automation set-up, small list facts. *)
From Coq Require Export List ZArith Lia Bool.
From Coq Require Export ZifyBool.
Export ListNotations.
Global Open Scope Z_scope.

Ltac Zify.zify_post_hook ::= Z.div_mod_to_equations.

Global Arguments Z.add : simpl never.
Global Arguments Z.sub : simpl never.
Global Arguments Z.mul : simpl never.
Global Arguments Z.div : simpl never.
Global Arguments Z.modulo : simpl never.
Global Arguments Z.pow : simpl never.
Global Arguments Z.of_nat : simpl never.
Global Arguments Z.to_nat : simpl never.
Global Arguments Z.eqb : simpl never.
Global Arguments Z.ltb : simpl never.
Global Arguments Z.leb : simpl never.

(** length as a Z, the way Rust's [len()] is used by the models *)
Definition zlen {A} (l : list A) : Z := Z.of_nat (length l).

Lemma zlen_nil {A} : zlen (@nil A) = 0.
Proof. reflexivity. Qed.
Lemma zlen_cons {A} (x : A) l : zlen (x :: l) = zlen l + 1.
Proof. unfold zlen; cbn [length]; lia. Qed.
Lemma zlen_app {A} (a b : list A) : zlen (a ++ b) = zlen a + zlen b.
Proof. unfold zlen; rewrite app_length; lia. Qed.
Lemma zlen_nonneg {A} (l : list A) : 0 <= zlen l.
Proof. unfold zlen; lia. Qed.
Lemma zlen_rev {A} (l : list A) : zlen (rev l) = zlen l.
Proof. unfold zlen; now rewrite rev_length. Qed.

(** bytes *)
Definition byte_ok (b : Z) : Prop := 0 <= b < 256.
Definition bytes_ok (l : list Z) : Prop := Forall byte_ok l.

(** [prefix p l]: l starts with p *)
Definition is_prefix {A} (p l : list A) : Prop := exists r, l = p ++ r.
Definition is_suffix {A} (s l : list A) : Prop := exists r, l = r ++ s.

Lemma is_suffix_rev {A} (s l : list A) : is_suffix s l <-> is_prefix (rev s) (rev l).
Proof.
  split; intros [r H].
  - exists (rev r). subst. now rewrite rev_app_distr.
  - exists (rev r). apply (f_equal (@rev A)) in H.
    rewrite rev_involutive, rev_app_distr, rev_involutive in H. exact H.
Qed.

(** list equality decided by an element test *)
Fixpoint list_eqb {A} (eqb : A -> A -> bool) (a b : list A) : bool :=
  match a, b with
  | [], [] => true
  | x :: a', y :: b' => eqb x y && list_eqb eqb a' b'
  | _, _ => false
  end.

Lemma list_eqb_Z_spec a b : list_eqb Z.eqb a b = true <-> a = b.
Proof.
  revert b; induction a as [|x a IH]; intros [|y b]; cbn [list_eqb]; split; intro H;
    try reflexivity; try discriminate.
  - apply andb_true_iff in H as [H1 H2]. apply Z.eqb_eq in H1. apply IH in H2. now subst.
  - inversion H; subst. apply andb_true_iff; split; [apply Z.eqb_refl | now apply IH].
Qed.
