(** Harness glue for C15: consumer/builder histories, map_!/from_fn_! with closure
    outcomes, destructure! patterns.  Also used by Glue/C11.v (builder histories). *)
From Coq Require Import List ZArith Bool String.
From KV Require Import Base.Prelude Model.Ledger Model.Destructure Glue.Val.
Import ListNotations.
Local Open Scope string_scope.

(** ids of a zero-sized element type cannot be stored in the element: they all print as 0 *)
Definition sid (zst : bool) (i : Z) : string := if zst then "0" else show_Z i.
Definition show_ids (zst : bool) (l : list Z) : string := show_list (sid zst) l.

Definition show_event (zst : bool) (e : event) : string :=
  match e with
  | Hand i => "H" ++ sid zst i
  | Drop i => "D" ++ sid zst i
  | Cl s n => "C" ++ sid zst s ++ ">" ++ sid zst n
  end.
Fixpoint show_events_dot (zst : bool) (l : list event) : string :=
  match l with
  | [] => "-"
  | [e] => show_event zst e
  | e :: r => show_event zst e ++ "." ++ show_events_dot zst r
  end.

Definition show_ret (zst : bool) (r : ret) : string :=
  match r with
  | RUnit => "u"
  | RPanic => "PANIC"
  | RNone => "N"
  | RSome i => "S(" ++ sid zst i ++ ")"
  | RArr l => "A" ++ show_ids zst l
  | RNew k => "n" ++ show_nat k
  end.

Definition show_obs (zst : bool) (o : obs) : string :=
  let '(r, sl, ev) := o in
  show_ret zst r ++ "/" ++
  (match sl with
   | VC l => show_ids zst l
   | VB l len full => show_ids zst l ++ "#" ++ show_nat len ++ show_bool full
   | VGone => "-"
   end)
  ++ "/" ++ show_events_dot zst ev.

Definition nat_of (v : val) : nat := Z.to_nat (as_Z v).

Definition parse_op (v : val) : option op :=
  match as_list v with
  | [c; k; e] =>
      let k := nat_of k in
      match as_Z c with
      | 1 => Some (ONext k)
      | 2 => Some (ONextBack k)
      | 3 => Some (OClone k None)
      | 4 => Some (OClone k (Some (nat_of e)))
      | 5 => Some (ODrop k)
      | 6 => Some (OAssertEmpty k)
      | 7 => Some (OPush k)
      | 8 => Some (OBuild k)
      | 9 => Some (OForget k)
      | _ => None
      end%Z
  | _ => None
  end.

Fixpoint parse_ops (l : list val) : option (list op) :=
  match l with
  | [] => Some []
  | v :: r => match parse_op v, parse_ops r with
              | Some o, Some os => Some (o :: os)
              | _, _ => None
              end
  end.

Definition zseq (start : Z) (n : nat) : list Z := map (fun k => start + Z.of_nat k)%Z (seq 0 n).

(** kind 0: ArrayConsumer::new([1..N]); 1: ArrayBuilder::new(); 2: ArrayConsumer::empty() *)
Definition init_world (kind : Z) (N : nat) : world :=
  if (kind =? 0)%Z then mkW [OC (c_new (zseq 1 N))] (Z.of_nat N + 1)
  else if (kind =? 1)%Z then mkW [OB (b_new N)] 1
  else mkW [OC (c_empty N)] 1.

Definition hist_run (kind : Z) (N : nat) (zst : bool) (ops : list op) : string :=
  match run (init_world kind N) ops with
  | RunUB => "UB"
  | RunInvalid => "INVALID"
  | RunOk w os =>
      match drop_all (w_objs w) with
      | None => "UB"
      | Some fin =>
          show_fields [("ops", show_list (show_obs zst) os);
                       ("end", show_events_dot zst fin)]
      end
  end.

(* ------------------------------------------------------------------ map_! / from_fn_! *)

Definition show_mres (zst : bool) (r : mres) : string :=
  match r with
  | MBuilt l => "B" ++ show_ids zst l
  | MPanicked => "PANIC"
  | MReturned => "RET"
  | MDiverged => "DIVERGED"
  | MUB => "UB"
  end.

(** a script of outcome codes; the k-th [Value] outcome yields the identity [base + k]
    (the harness's closure takes a fresh element each time it produces one) *)
Definition code_outcome (c : Z) (y : Z) : outcome :=
  match c with
  | 0 => OValue y
  | 1 => OBreak
  | 2 => OContinue
  | 3 => OReturn
  | _ => OPanic
  end%Z.

Fixpoint values_before (script : list Z) (k : nat) : nat :=
  match k, script with
  | S k', c :: r => (if (c =? 0)%Z then 1 else 0) + values_before r k'
  | _, _ => 0
  end%nat.

Definition ledger_clo (script : list Z) (base : Z) : nat -> Z -> outcome :=
  fun k _ => code_outcome (nth k script 4%Z) (base + Z.of_nat (values_before script k))%Z.

Definition show_map_res (x : mres * list event * list Z) (with_leak : bool) : string :=
  let '(r, ev, leak) := x in
  show_fields ([("res", show_mres false r); ("ev", show_events_dot false ev)]
               ++ (if with_leak then [("leak", show_ids false leak)] else [])).

(** value-level closures for C11: value = 3 x + 1 *)
Definition value_clo (script : list Z) : nat -> Z -> outcome :=
  fun k x => code_outcome (nth k script 4%Z) (3 * x + 1)%Z.

(* ------------------------------------------------------------------ destructure! *)

Fixpoint parse_shape (fuel : nat) (v : val) : dval :=
  match fuel with
  | O => DLeaf 0
  | S f => match v with
           | VL l => DNode (map (parse_shape f) l)
           | _ => DLeaf (as_Z v)
           end
  end.

Fixpoint parse_pat (fuel : nat) (v : val) : dpat :=
  match fuel with
  | O => PUnder
  | S f => match v with
           | VL l => PNest (map (parse_pat f) l)
           | VZ 0 => PUnder
           | VZ 2 => PRestBind
           | VZ 3 => PRestSkip
           | _ => PBind
           end
  end.

Definition show_dres (r : option dres) : string :=
  match r with
  | None => "MISMATCH"
  | Some r =>
      show_fields [("imm", show_ids false (d_imm r));
                   ("bound", show_list (show_ids false) (d_bound r));
                   ("end", show_ids false (d_end r))]
  end.

Definition c15_run (fam : string) (args : list val) : option string :=
  if String.eqb fam "c15.hist" then
    match args with
    | [k; n; z; ops] =>
        match parse_ops (as_list ops) with
        | Some os => Some (hist_run (as_Z k) (nat_of n) (negb (as_Z z =? 0)%Z) os)
        | None => None
        end
    | _ => None
    end
  else if String.eqb fam "c15.map_" then
    match args with
    | [n; script] =>
        let N := nat_of n in
        Some (show_map_res (map_by_val (ledger_clo (as_bytes script) (Z.of_nat N + 1)) (zseq 1 N)) true)
    | _ => None
    end
  else if String.eqb fam "c15.from_fn_" then
    match args with
    | [n; script] =>
        Some (show_map_res (from_fn_by_val (ledger_clo (as_bytes script) 1) (nat_of n)) false)
    | _ => None
    end
  else if String.eqb fam "c15.destructure" then
    match args with
    | [kind; shape; pat] =>
        Some (show_dres (destructure_m (nat_of kind) (map (parse_shape 8) (as_list shape))
                                       (map (parse_pat 8) (as_list pat))))
    | _ => None
    end
  else None.
