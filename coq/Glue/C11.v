(** Harness glue for C11: array::map! / from_fn! with closure-outcome scripts, map_! /
    from_fn_! at value level, builder histories, collect_const! chains, const-context
    (compile / does not compile) programs. *)
From Coq Require Import List ZArith Bool String.
From KV Require Import Base.Prelude Model.ArrayMacros Model.Ledger Glue.Val Glue.C15.
Import ListNotations.
Local Open Scope string_scope.

Definition code_out (c : Z) (v : Z) : ArrayMacros.outcome Z :=
  match c with
  | 0 => Value v
  | 1 => Break
  | 2 => Continue
  | 3 => Return
  | _ => Panic
  end%Z.

Definition show_slot (o : option Z) : string :=
  match o with Some v => show_Z v | None => "UNINIT" end.

Definition show_ares (r : ares Z) : string :=
  match r with
  | Built l => "B" ++ show_list show_slot l
  | Panicked => "PANIC"
  | Returned => "RET"
  | Diverged => "DIVERGED"
  | OutOfBounds => "OOB"
  end.

(** the script has one outcome code per CALL of the closure body; fuel = its length.
    mode 0: elements are numbers, the k-th call on x yields 3 x + 1 + 100 k;
    mode 1: ledger elements, the j-th produced element has identity base + j *)
Definition script_clo (script : list Z) (mode : Z) (base : Z) : nat -> Z -> ArrayMacros.outcome Z :=
  fun k x =>
    code_out (nth k script 4%Z)
      (if (mode =? 1)%Z then base + Z.of_nat (values_before script k)
       else 3 * x + 1 + 100 * Z.of_nat k)%Z.

(** ids written before the run ended without [Built]: they are leaked (never dropped) *)
Fixpoint written_before_exit (script : list Z) (next : Z) : list Z :=
  match script with
  | [] => []
  | c :: r =>
      if (c =? 0)%Z then next :: written_before_exit r (next + 1)%Z
      else if (c =? 2)%Z then written_before_exit r next
      else []
  end.

Definition map_line (input : list Z) (script : list Z) (mode : Z) (base : Z) : string :=
  let r := array_map_m (length script) (script_clo script mode base) input in
  if (mode =? 1)%Z then
    show_fields [("res", show_ares r);
                 ("ev", match r with
                        | Built l => show_events_dot false (map (fun o => Hand (match o with Some v => v | None => -1 end)%Z) l)
                        | _ => "-"
                        end);
                 ("leak", match r with
                          | Built _ => "[]"
                          | _ => show_list show_Z (written_before_exit script base)
                          end)]
  else show_fields [("res", show_ares r)].

Definition from_fn_clo (script : list Z) (mode : Z) : nat -> nat -> ArrayMacros.outcome Z :=
  fun k i => script_clo script mode 1 k (Z.of_nat i).

(* ------------------------------------------------------------------ collect_const! *)

Definition parse_exit (z : Z) : exit_kind :=
  match z with 1 => XBreak | 2 => XContinue | _ => XNone end%Z.

Definition parse_closure (l : list val) : closure :=
  match l with
  | [e; t; b; p] => mkCl (parse_exit (as_Z e)) (as_Z t) (nat_of b) (as_Z p)
  | _ => mkCl XNone 0 9 0
  end.

Definition parse_stage (v : val) : option stage :=
  match as_list v with
  | c :: rest =>
      match as_Z c with
      | 1 => Some (SFilter (parse_closure rest))
      | 2 => Some (SMap (parse_closure rest))
      | 3 => match rest with [n] => Some (STake (nat_of n)) | _ => None end
      | 4 => match rest with [n] => Some (SSkip (nat_of n)) | _ => None end
      | 5 => Some (STakeWhile (parse_closure rest))
      | 6 => Some (SSkipWhile (parse_closure rest) true)
      | _ => None
      end%Z
  | [] => None
  end.

Fixpoint parse_stages (l : list val) : option (list stage) :=
  match l with
  | [] => Some []
  | v :: r => match parse_stage v, parse_stages r with
              | Some s, Some ss => Some (s :: ss)
              | _, _ => None
              end
  end.

Definition show_cres (r : cres Z) : string :=
  match r with
  | CBuilt l => show_list show_slot l
  | CPanicked => "PANIC"
  end.

(** value-level map_! / from_fn_!: element x maps to 3 x + 1; from_fn_ sees i *)
Definition show_mres_only (x : mres * list event * list Z) : string :=
  let '(r, _, _) := x in show_fields [("res", show_mres false r)].


(** [copy()] (T: Copy) of a consumer / builder: a bitwise copy has the same state, so the model's
    copy IS the original state; the line shows the original's view, the copy's view, what the copy
    then yields (drained from the front / built), and the original's view afterwards *)
Definition c_step_front (c : consumer) : consumer :=
  match c_next c with Some (_, c') => c' | None => c end.
Definition c_step_back (c : consumer) : consumer :=
  match c_next_back c with Some (_, c') => c' | None => c end.
Fixpoint c_drain (fuel : nat) (c : consumer) : list Z :=
  match fuel with
  | O => []
  | S f => match c_next c with
           | Some (Some i, c') => i :: c_drain f c'
           | _ => []
           end
  end.
Definition show_oslice (o : option (list Z)) : string :=
  match o with Some l => show_ids false l | None => "UB" end.
Definition copy_line (kind : Z) (N a b : nat) : string :=
  if (kind =? 0)%Z then
    let c := Nat.iter b c_step_back (Nat.iter a c_step_front (c_new (zseq 1 N))) in
    let cp := c in
    show_fields [("orig", show_oslice (c_as_slice c));
                 ("copy", show_oslice (c_as_slice cp));
                 ("drain", show_ids false (c_drain (S N) cp));
                 ("after", show_oslice (c_as_slice c))]
  else
    let bd := fold_left (fun bd x => fst (b_push bd x)) (zseq 1 a) (b_new N) in
    let cp := bd in
    let vw (x : builder) := show_oslice (b_as_slice x) ++ "#" ++ show_nat (b_len x) ++ show_bool (b_is_full x) in
    show_fields [("orig", vw bd);
                 ("copy", vw cp);
                 ("build", match b_build cp with
                           | None => "UB"
                           | Some None => "PANIC"
                           | Some (Some l) => "A" ++ show_ids false l
                           end);
                 ("after", vw bd)].

Definition c11_run (fam : string) (args : list val) : option string :=
  if String.eqb fam "c11.map" then
    match args with
    | [n; script; mode] =>
        let N := nat_of n in
        (* mode 0: input values 10, 11, ..; mode 1: input ids 1..N, outputs from N+1 *)
        Some (map_line (if (as_Z mode =? 1)%Z then zseq 1 N else zseq 10 N)
                       (as_bytes script) (as_Z mode) (Z.of_nat N + 1))
    | _ => None
    end
  else if String.eqb fam "c11.from_fn" then
    match args with
    | [n; script; mode] =>
        let sc := as_bytes script in
        let r := array_from_fn_m (length sc) (from_fn_clo sc (as_Z mode)) (nat_of n) in
        if (as_Z mode =? 1)%Z then
          Some (show_fields
                  [("res", show_ares r);
                   ("ev", match r with
                          | Built l => show_events_dot false (map (fun o => Hand (match o with Some v => v | None => -1 end)%Z) l)
                          | _ => "-"
                          end);
                   ("leak", match r with
                            | Built _ => "[]"
                            | _ => show_list show_Z (written_before_exit sc 1)
                            end)])
        else Some (show_fields [("res", show_ares r)])
    | _ => None
    end
  else if String.eqb fam "c11.map_" then
    match args with
    | [n; script] =>
        Some (show_mres_only (map_by_val (value_clo (as_bytes script)) (zseq 10 (nat_of n))))
    | _ => None
    end
  else if String.eqb fam "c11.from_fn_" then
    match args with
    | [n; script] =>
        Some (show_mres_only (from_fn_by_val (value_clo (as_bytes script)) (nat_of n)))
    | _ => None
    end
  else if String.eqb fam "c11.builder" then
    match args with
    | [k; n; z; ops] =>
        match parse_ops (as_list ops) with
        | Some os => Some (hist_run (as_Z k) (nat_of n) (negb (as_Z z =? 0)%Z) os)
        | None => None
        end
    | _ => None
    end
  else if String.eqb fam "c11.copy" then
    match args with
    | [k; n; a; b] => Some (copy_line (as_Z k) (nat_of n) (nat_of a) (nat_of b))
    | _ => None
    end
  else if String.eqb fam "c11.bigbuilder" then
    (* large capacities, compact rendering: N, number of pushes k (values 1..k, taken mod 256 by the
       harness's u8 elements): pushes that panicked, len, is_full, and what build() does *)
    match args with
    | [n; k] =>
        let N := nat_of n in
        let '(b, panicked) :=
          fold_left (fun (st : builder * nat) (x : Z) =>
                       let '(b', p) := b_push (fst st) x in (b', (snd st + (if p then 1 else 0))%nat))
                    (zseq 1 (nat_of k)) (b_new N, O) in
        if (0 <? panicked)%nat then Some ("pushpanics=" ++ show_nat panicked ++ ";len=?;full=?;build=?") else
        Some (show_fields
                [("pushpanics", show_nat panicked);
                 ("len", show_nat (b_len b));
                 ("full", show_bool (b_is_full b));
                 ("build", match b_build b with
                           | None => "UB"
                           | Some None => "PANIC"
                           | Some (Some l) => "B" ++ show_nat (length l) ++ ":" ++
                                              show_Z (fold_left (fun a x => (a + x mod 256) mod 1000003)%Z l 0%Z)
                           end)])
    | _ => None
    end
  else if String.eqb fam "c11.collect" then
    match args with
    | [src; stages] =>
        match parse_stages (as_list stages) with
        | Some st => let items := chain_items st (as_bytes src) in
                     Some (show_cres (collect_const_m items items))
        | None => None
        end
    | _ => None
    end
  else if String.eqb fam "c11.const" then
    (* a const item initialised by one of the macros: which one, N, outcome script.
       The item compiles iff the model reaches [Built]; then its value is printed. *)
    match args with
    | [which; n; script] =>
        let N := nat_of n in
        let sc := as_bytes script in
        let w := as_Z which in
        let s :=
          if (w =? 0)%Z then show_ares (array_map_m (length sc) (script_clo sc 0 0) (zseq 10 N))
          else if (w =? 1)%Z then show_ares (array_from_fn_m (length sc) (from_fn_clo sc 0) N)
          else if (w =? 2)%Z then (let '(r, _, _) := map_by_val (value_clo sc) (zseq 10 N) in show_mres false r)
          else (let '(r, _, _) := from_fn_by_val (value_clo sc) N in show_mres false r) in
        Some (if String.prefix "B" s then s else "COMPILE_ERROR")
    | _ => None
    end
  else None.
