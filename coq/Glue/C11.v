(** Harness glue for C11 (stub: no families yet). *)
From Coq Require Import List String.
From KV Require Import Glue.Val.
Definition c11_run (fam : string) (args : list val) : option string := None.
