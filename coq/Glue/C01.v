(** Harness glue for C01: for every string a function returns — where it sits in the argument,
    whether it is valid UTF-8, whether it starts and ends on char boundaries. *)
From Coq Require Import List ZArith Bool String.
From KV Require Import Base.Prelude Model.Utf8 Spec.Utf8 Model.Search Model.Trim Model.Parser Model.MemCell Glue.Val Glue.C13.
Import ListNotations.
Local Open Scope string_scope.

(** [off:len|<utf8><boundary at start><boundary at end>] *)
Definition facts_at (h : list Z) (off : Z) (r : list Z) : string :=
  let bs := match r with [] => true | _ => is_char_boundary_m h off end in
  let be := match r with [] => true | _ => is_char_boundary_m h (off + zlen r) end in
  show_view off (zlen r) ++ "|" ++ show_bool (utf8 r) ++ show_bool bs ++ show_bool be.

Definition facts_suffix (h : list Z) (o : option (list Z)) : string :=
  match o with None => "N" | Some r => facts_at h (zlen h - zlen r) r end.
Definition facts_prefix (h : list Z) (o : option (list Z)) : string :=
  match o with None => "N" | Some r => facts_at h 0 r end.

Definition c01_pat (h n : list Z) : string :=
  let ts := unwrap_trim (trim_start_matches_m h n) h in
  show_fields
    [("find_skip", facts_suffix h (find_skip_m h n));
     ("find_keep", facts_suffix h (find_keep_m h n));
     ("rfind_skip", facts_prefix h (rfind_skip_m h n));
     ("rfind_keep", facts_prefix h (rfind_keep_m h n));
     ("strip_prefix", facts_suffix h (strip_prefix_m h n));
     ("strip_suffix", facts_prefix h (strip_suffix_m h n));
     ("trim_start_matches", facts_suffix h (Some ts));
     ("trim_end_matches", facts_prefix h (Some (unwrap_trim (trim_end_matches_m h n) h)));
     ("trim_matches", facts_at h (zlen h - zlen ts) (unwrap_trim (trim_end_matches_m ts n) ts));
     ("split_once_a", facts_prefix h (option_map fst (split_once_m h n)));
     ("split_once_b", facts_suffix h (option_map snd (split_once_m h n)));
     ("rsplit_once_a", facts_prefix h (option_map fst (rsplit_once_m h n)));
     ("rsplit_once_b", facts_suffix h (option_map snd (rsplit_once_m h n)))].

Definition c01_ws (h : list Z) : string :=
  let te := bytes_trim_end_m h in
  show_fields
    [("trim", facts_at h (zlen te - zlen (bytes_trim_start_m te)) (bytes_trim_start_m te));
     ("trim_start", facts_suffix h (Some (bytes_trim_start_m h)));
     ("trim_end", facts_prefix h (Some te))].

Definition parser_fact (orig : list Z) (r : pres) : string :=
  match r with
  | POk _ q =>
      let s := p_start q in
      let e := end_offset q in
      let ok := (s <=? e)%Z && (e <=? zlen orig)%Z && is_char_boundary_m orig s && is_char_boundary_m orig e in
      facts_at orig s (p_str q) ++ "|" ++ show_bool ok
  | PErr _ => "err"
  | PPanic => "PANIC"
  end.


(* ------------------------------------------------------------------ thin wrappers (Model/MemCell.v) *)
(** values are rendered by their number; every value of the zero-sized type prints as 0 *)
Definition wv (ty v : Z) : string := if (ty =? 3)%Z then "0" else show_Z v.
Definition show_refv (ty : Z) (r : Z * Z) : string := show_Z (fst r) ++ ":" ++ wv ty (snd r).
Definition show_orefv (ty : Z) (o : option (Z * Z)) : string :=
  match o with Some r => show_refv ty r | None => "UB" end.

Definition c01_mu (ty v : Z) : string :=
  let '(c, r) := mu_write (@uninit Z) v in
  show_fields
    [("w", show_refv ty r);
     ("ref", show_orefv ty (mu_assume_init_ref c));
     ("p", show_Z (mu_as_ptr c));
     ("mp", show_Z (mu_as_ptr c));
     ("mut", show_orefv ty (mu_assume_init_ref c));
     ("init", match mu_assume_init c with Some x => wv ty x | None => "UB" end)].

Definition c01_md (ty v : Z) : string :=
  show_fields
    [("in", show_refv ty (md_as_inner v));
     ("inm", show_refv ty (md_as_inner v));
     ("take", wv ty (md_take v))].

(** the object sits at an arbitrary non-null address; references are shown relative to it *)
Definition obj_addr : Z := 4096.
Definition show_optref (ty v : Z) (o : option Z) : string :=
  show_opt (fun r => show_Z (r - obj_addr) ++ ":" ++ wv ty v) o.
Definition show_optaddr (o : option Z) : string := show_opt (fun r => show_Z (r - obj_addr)) o.
Definition c01_ptr (ty v : Z) : string :=
  show_fields
    [("null_ref", show_optref ty v (ptr_as_ref 0));
     ("ref", show_optref ty v (ptr_as_ref obj_addr));
     ("null_mut", show_optref ty v (ptr_as_ref 0));
     ("mut", show_optref ty v (ptr_as_ref obj_addr));
     ("is_null", show_bool (ptr_is_null 0) ++ show_bool (ptr_is_null obj_addr));
     ("nn_null", show_optaddr (nonnull_new 0));
     ("nn", show_optaddr (nonnull_new obj_addr));
     ("nn_ref", show_Z (nonnull_from_ref obj_addr - obj_addr) ++ ":" ++ wv ty v);
     ("nn_mut", show_Z (nonnull_from_ref obj_addr - obj_addr) ++ ":" ++ wv ty v);
     ("from_ref", show_Z (nonnull_from_ref obj_addr - obj_addr));
     ("from_mut", show_Z (nonnull_from_ref obj_addr - obj_addr))].

(** unsized pointees: the metadata (length n) rides along unchanged *)
Definition c01_ptrs (n : Z) : string :=
  let sl (o : option Z) := show_opt (fun r => show_Z (r - obj_addr) ++ ":" ++ show_Z n) o in
  show_fields
    [("null_ref", sl (ptr_as_ref 0));
     ("ref", sl (ptr_as_ref obj_addr));
     ("null_mut", sl (ptr_as_ref 0));
     ("mut", sl (ptr_as_ref obj_addr));
     ("is_null", show_bool (ptr_is_null 0) ++ show_bool (ptr_is_null obj_addr));
     ("nn_null", sl (nonnull_new 0));
     ("nn", sl (nonnull_new obj_addr));
     ("from_ref", show_Z (nonnull_from_ref obj_addr - obj_addr) ++ ":" ++ show_Z n)].

Definition c01_arr (ty : Z) (n : nat) (v : Z) : string :=
  let vals := map (fun k => v + Z.of_nat k)%Z (seq 0 n) in
  match array_assume_init (write_all (uninit_array n) 0 vals) with
  | Some l => show_list (wv ty) l
  | None => "UB"
  end.

Definition c01_run (fam : string) (args : list val) : option string :=
  if String.eqb fam "c01.str" then
    match args with [h; n] => Some (c01_pat (as_bytes h) (as_bytes n)) | _ => None end
  else if String.eqb fam "c01.strchar" then
    match args with [h; c] => Some (c01_pat (as_bytes h) (encode_m (as_Z c))) | _ => None end
  else if String.eqb fam "c01.ws" then
    match args with [h] => Some (c01_ws (as_bytes h)) | _ => None end
  else if String.eqb fam "c01.mu" then
    match args with [ty; v] => Some (c01_mu (as_Z ty) (as_Z v)) | _ => None end
  else if String.eqb fam "c01.md" then
    match args with [ty; v] => Some (c01_md (as_Z ty) (as_Z v)) | _ => None end
  else if String.eqb fam "c01.ptr" then
    match args with [ty; v] => Some (c01_ptr (as_Z ty) (as_Z v)) | _ => None end
  else if String.eqb fam "c01.ptrs" then
    match args with [n] => Some (c01_ptrs (as_Z n)) | _ => None end
  else if String.eqb fam "c01.arr" then
    match args with [ty; n; v] => Some (c01_arr (as_Z ty) (Z.to_nat (as_Z n)) (as_Z v)) | _ => None end
  else if String.eqb fam "c01.miri_use" then
    (* results USED under Miri.  The calls and their arguments are constants of the harness, so the
       expected values are the fixed numbers std semantics give for them (recorded once); what this
       family is for is that Miri accepts the execution *)
    match args with
    | [k] => Some (match as_Z k with
                   | 0 => "30" | 1 => "14" | 2 => "[15, 8, 6, 6, 5, 28]" | 3 => "[1, 7, 3][9, 3]"
                   | 4 => "1227002" | 5 => "336133" | 6 => "564" | 7 => "123470430" | 8 => "2266411939" | _ => "?" end)%Z
    | _ => None
    end
  else if String.eqb fam "c01.ctfe" then
    (* const evaluation of a safe API succeeds and agrees with the run-time evaluation *)
    Some "same"
  else if String.eqb fam "c01.parser" then
    match args with
    | [orig; ops] =>
        match ops_of (as_list ops) with
        | Some os => let o := as_bytes orig in Some (show_list (parser_fact o) (run_ops (parser_new o) os))
        | None => Some "!ops"
        end
    | _ => None
    end
  else None.
