(** Harness glue for C01: for every string a function returns — where it sits in the argument,
    whether it is valid UTF-8, whether it starts and ends on char boundaries. *)
From Coq Require Import List ZArith Bool String.
From KV Require Import Base.Prelude Model.Utf8 Spec.Utf8 Model.Search Model.Trim Model.Parser Glue.Val Glue.C13.
Import ListNotations.
Local Open Scope string_scope.

(** [off:len|<utf8><boundary at start><boundary at end>] *)
Definition facts_at (h : list Z) (off : Z) (r : list Z) : string :=
  let bs := match r with [] => true | _ => is_char_boundary_m h off end in
  let be := match r with [] => true | _ => is_char_boundary_m h (off + zlen r) end in
  show_view off (zlen r) ++ "|" ++ show_bool (utf8 r) ++ show_bool bs ++ show_bool be.

Definition facts_suffix (h : list Z) (o : option (list Z)) : string :=
  match o with None => "N" | Some r => facts_at h (zlen h - zlen r) r end.
Definition facts_prefix (h : list Z) (o : option (list Z)) : string :=
  match o with None => "N" | Some r => facts_at h 0 r end.

Definition c01_pat (h n : list Z) : string :=
  let ts := unwrap_trim (trim_start_matches_m h n) h in
  show_fields
    [("find_skip", facts_suffix h (find_skip_m h n));
     ("find_keep", facts_suffix h (find_keep_m h n));
     ("rfind_skip", facts_prefix h (rfind_skip_m h n));
     ("rfind_keep", facts_prefix h (rfind_keep_m h n));
     ("strip_prefix", facts_suffix h (strip_prefix_m h n));
     ("strip_suffix", facts_prefix h (strip_suffix_m h n));
     ("trim_start_matches", facts_suffix h (Some ts));
     ("trim_end_matches", facts_prefix h (Some (unwrap_trim (trim_end_matches_m h n) h)));
     ("trim_matches", facts_at h (zlen h - zlen ts) (unwrap_trim (trim_end_matches_m ts n) ts));
     ("split_once_a", facts_prefix h (option_map fst (split_once_m h n)));
     ("split_once_b", facts_suffix h (option_map snd (split_once_m h n)));
     ("rsplit_once_a", facts_prefix h (option_map fst (rsplit_once_m h n)));
     ("rsplit_once_b", facts_suffix h (option_map snd (rsplit_once_m h n)))].

Definition c01_ws (h : list Z) : string :=
  let te := bytes_trim_end_m h in
  show_fields
    [("trim", facts_at h (zlen te - zlen (bytes_trim_start_m te)) (bytes_trim_start_m te));
     ("trim_start", facts_suffix h (Some (bytes_trim_start_m h)));
     ("trim_end", facts_prefix h (Some te))].

Definition parser_fact (orig : list Z) (r : pres) : string :=
  match r with
  | POk _ q =>
      let s := p_start q in
      let e := end_offset q in
      let ok := (s <=? e)%Z && (e <=? zlen orig)%Z && is_char_boundary_m orig s && is_char_boundary_m orig e in
      facts_at orig s (p_str q) ++ "|" ++ show_bool ok
  | PErr _ => "err"
  | PPanic => "PANIC"
  end.

Definition c01_run (fam : string) (args : list val) : option string :=
  if String.eqb fam "c01.str" then
    match args with [h; n] => Some (c01_pat (as_bytes h) (as_bytes n)) | _ => None end
  else if String.eqb fam "c01.strchar" then
    match args with [h; c] => Some (c01_pat (as_bytes h) (encode_m (as_Z c))) | _ => None end
  else if String.eqb fam "c01.ws" then
    match args with [h] => Some (c01_ws (as_bytes h)) | _ => None end
  else if String.eqb fam "c01.parser" then
    match args with
    | [orig; ops] =>
        match ops_of (as_list ops) with
        | Some os => let o := as_bytes orig in Some (show_list (parser_fact o) (run_ops (parser_new o) os))
        | None => Some "!ops"
        end
    | _ => None
    end
  else None.
