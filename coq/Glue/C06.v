(** Harness glue for C06: split iterators run to exhaustion, pieces and remainders
    rendered as views (offset:len) into the original string. *)
From Coq Require Import List ZArith Bool String.
From KV Require Import Base.Prelude Model.Search Model.Utf8 Model.Split Glue.Val.
Import ListNotations.
Local Open Scope string_scope.

(** run a front-consuming iterator: each piece is a prefix of [this], the rest a suffix *)
Fixpoint run_fwd {A} (next : A -> step_res A) (this_of : A -> list Z)
         (fuel : nat) (s : A) (base : Z) : list (string * string) :=
  match fuel with
  | O => [("FUEL", "FUEL")]
  | S f =>
      match next s with
      | Done => []
      | StepPanic => [("PANIC", "PANIC")]
      | Yield p s' =>
          let base' := base + zlen (this_of s) - zlen (this_of s') in
          (show_view base (zlen p), show_view base' (zlen (this_of s'))) :: run_fwd next this_of f s' base'
      end
  end.

(** run a back-consuming iterator: each piece is a suffix of [this], the rest a prefix *)
Fixpoint run_back {A} (next : A -> step_res A) (this_of : A -> list Z)
         (fuel : nat) (s : A) (base : Z) : list (string * string) :=
  match fuel with
  | O => [("FUEL", "FUEL")]
  | S f =>
      match next s with
      | Done => []
      | StepPanic => [("PANIC", "PANIC")]
      | Yield p s' =>
          (show_view (base + zlen (this_of s) - zlen p) (zlen p), show_view base (zlen (this_of s')))
            :: run_back next this_of f s' base
      end
  end.

Definition steps_of (kind : string) (h d : list Z) : list (string * string) :=
  let fuel := split_fuel h in
  if String.eqb kind "split" || String.eqb kind "rsplit_rev" then
    run_fwd split_next s_this fuel (split_init h d) 0
  else if String.eqb kind "rsplit" || String.eqb kind "split_rev" then
    run_back split_next_back s_this fuel (split_init h d) 0
  else if String.eqb kind "term" then
    run_fwd term_next t_this fuel (term_init h d) 0
  else if String.eqb kind "rterm" then
    run_back rterm_next t_this fuel (term_init h d) 0
  else [("KIND", "KIND")].

Definition show_pieces (l : list (string * string)) : string := show_list fst l.
Definition show_steps (l : list (string * string)) : string :=
  show_list (fun p => "(" ++ fst p ++ "," ++ snd p ++ ")") l.

Definition kinds : list string := ["split"; "rsplit"; "split_rev"; "rsplit_rev"; "term"; "rterm"].

Definition c06_pieces (h d : list Z) : string :=
  show_fields (map (fun k => (k, show_pieces (steps_of k h d))) kinds).
Definition c06_steps (h d : list Z) : string :=
  show_fields (map (fun k => (k, show_steps (steps_of k h d))) kinds).


(** a given history of front (F) / back (B) steps on ONE Split iterator ([swap]: the iterator is
    an RSplit, whose [next] is the back block).  Every step shows the piece and the remainder as
    views, [N] when the iterator reports exhaustion. *)
Fixpoint run_hist (swap : bool) (hist : list bool) (s : split_st) (base : Z) : list string :=
  match hist with
  | [] => []
  | front :: r =>
      let use_front := if swap then negb front else front in
      if use_front then
        match split_next s with
        | Done => "N" :: run_hist swap r s base
        | StepPanic => ["PANIC"]
        | Yield p s' =>
            let base' := base + zlen (s_this s) - zlen (s_this s') in
            ("(" ++ show_view base (zlen p) ++ "," ++ show_view base' (zlen (s_this s')) ++ ")")
              :: run_hist swap r s' base'
        end
      else
        match split_next_back s with
        | Done => "N" :: run_hist swap r s base
        | StepPanic => ["PANIC"]
        | Yield p s' =>
            ("(" ++ show_view (base + zlen (s_this s) - zlen p) (zlen p) ++ "," ++ show_view base (zlen (s_this s')) ++ ")")
              :: run_hist swap r s' base
        end
  end.

Fixpoint hist_of (l : list Z) : list bool :=
  match l with [] => [] | b :: r => (b =? 70)%Z :: hist_of r end.   (* 'F' = 70 *)

Definition c06_hist (swap : bool) (h d : list Z) (hist : list Z) : string :=
  show_list (fun x => x) (run_hist swap (hist_of hist) (split_init h d) 0).

Definition c06_run (fam : string) (args : list val) : option string :=
  match args with
  | [h; d] =>
      if String.eqb fam "c06.pieces" then Some (c06_pieces (as_bytes h) (as_bytes d))
      else if String.eqb fam "c06.steps" then Some (c06_steps (as_bytes h) (as_bytes d))
      else if String.eqb fam "c06.pieceschar" then Some (c06_pieces (as_bytes h) (encode_m (as_Z d)))
      else if String.eqb fam "c06.stepschar" then Some (c06_steps (as_bytes h) (encode_m (as_Z d)))
      else None
  | [h; d; hist] =>
      if String.eqb fam "c06.hist" then Some (c06_hist false (as_bytes h) (as_bytes d) (as_bytes hist))
      else if String.eqb fam "c06.rhist" then Some (c06_hist true (as_bytes h) (as_bytes d) (as_bytes hist))
      else if String.eqb fam "c06.histchar" then Some (c06_hist false (as_bytes h) (encode_m (as_Z d)) (as_bytes hist))
      else if String.eqb fam "c06.rhistchar" then Some (c06_hist true (as_bytes h) (encode_m (as_Z d)) (as_bytes hist))
      else None
  | _ => None
  end.
