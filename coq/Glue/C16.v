(** Harness glue for C16: one line per pair of values carrying every comparison function and
    macro form that applies to the type (see harness/src/c16.rs for the field list). *)
From Coq Require Import List ZArith Bool String.
From KV Require Import Base.Prelude Model.Cmp Glue.Val.
Import ListNotations.
Local Open Scope string_scope.

Definition sh_ord (o : comparison) : string :=
  match o with Lt => "L" | Eq => "E" | Gt => "G" end.
Definition sh_ob (o : option bool) : string :=
  match o with Some b => show_bool b | None => "PANIC" end.
Definition sh_oo (o : option comparison) : string :=
  match o with Some c => sh_ord c | None => "PANIC" end.

(** the four Option combinations of a pair: (Some l,Some r) (Some l,None) (None,Some r) (None,None) *)
Definition four {A R} (f : option A -> option A -> R) (sh : R -> string) (l r : A) : string :=
  sh (f (Some l) (Some r)) ++ sh (f (Some l) None) ++ sh (f None (Some r)) ++ sh (f None None).

(** [assertc_eq!] / [assertc_ne!] on the result of the type's [const_eq] *)
Definition sh_assert_eq (e : option bool) : string :=
  match e with None => "PANIC" | Some b => if assertc_eq_panics_m b then "PANIC" else "ok" end.
Definition sh_assert_ne (e : option bool) : string :=
  match e with None => "PANIC" | Some b => if assertc_ne_panics_m b then "PANIC" else "ok" end.

(** slices of a primitive type *)
Definition c16_slice (l r : list Z) : string :=
  let e := sh_ob (eq_slice_m l r) in
  let c := sh_oo (cmp_slice_m l r) in
  let fe := sh_ob (eq_for_slice_m prim_eq_o l r) in
  let fc := sh_oo (cmp_for_slice_m prim_cmp_o l r) in
  let oe := four (option_eq_m eq_slice_m) sh_ob l r in
  let oc := four (option_cmp_m cmp_slice_m) sh_oo l r in
  let coe := four (option_eq_m const_eq_slice_m) sh_ob l r in
  let coc := four (option_cmp_m const_cmp_slice_m) sh_oo l r in
  show_fields
    [("eq", e); ("cmp", c);
     ("ceq", sh_ob (const_eq_slice_m l r)); ("ccmp", sh_oo (const_cmp_slice_m l r));
     ("feq", fe); ("feqk", fe); ("feq2", fe); ("feqp", fe);
     ("fcmp", fc); ("fcmpk", fc); ("fcmp2", fc); ("fcmpp", fc);
     ("oeq", oe); ("ocmp", oc); ("coeq", coe); ("cocmp", coc); ("foeq", coe); ("focmp", coc)].

Definition c16_slice_alias (l r : list Z) : string :=
  show_fields
    [("eq", sh_ob (eq_slice_m l r)); ("cmp", sh_oo (cmp_slice_m l r));
     ("oeq", four (option_eq_m eq_slice_m) sh_ob l r);
     ("ocmp", four (option_cmp_m cmp_slice_m) sh_oo l r)].

(** scalars of a primitive type *)
Definition c16_scalar (a b : Z) : string :=
  let e := show_bool (const_eq_prim_m a b) in
  let c := sh_ord (cmp_int_m a b) in
  let oe := four (option_eq_m prim_eq_o) sh_ob a b in
  let oc := four (option_cmp_m prim_cmp_o) sh_oo a b in
  show_fields
    [("cmp", c); ("ceq", e); ("ccmp", sh_ord (const_cmp_prim_m a b));
     ("oeq", oe); ("ocmp", oc); ("coeq", oe); ("cocmp", oc);
     ("foeq", oe); ("focmp", oc); ("foeq2", oe); ("focmp2", oc);
     ("aeq", sh_assert_eq (Some (const_eq_prim_m a b)));
     ("ane", sh_assert_ne (Some (const_eq_prim_m a b)))].

(** NonZero integers ([get()] then the integer comparison) *)
Definition c16_nonzero (a b : Z) : string :=
  let e := show_bool (prim_eq_m a b) in
  let c := sh_ord (cmp_int_m a b) in
  let oe := four (option_eq_m prim_eq_o) sh_ob a b in
  let oc := four (option_cmp_m prim_cmp_o) sh_oo a b in
  show_fields
    [("eq", e); ("cmp", c); ("ceq", e); ("ccmp", c);
     ("oeq", oe); ("ocmp", oc); ("coeq", oe); ("cocmp", oc); ("foeq", oe); ("focmp", oc)].

Definition as_pair (v : val) : Z * Z :=
  match as_list v with
  | [a; b] => (as_Z a, as_Z b)
  | _ => (0, 0)
  end.

(** ranges: Range and RangeInclusive, named function / const_eq! / const_eq_for! *)
Definition c16_range (l r : Z * Z) : string :=
  let e := show_bool (eq_range_m l r) in
  let fe := sh_ob (eq_for_range_m prim_eq_o l r) in
  show_fields
    [("eq", e); ("ceq", e); ("feq", fe); ("feq2", fe);
     ("ieq", e); ("iceq", e); ("ifeq", fe); ("ifeq2", fe)].

(** strings (UTF-8 bytes) *)
Definition c16_str (l r : list Z) : string :=
  let e := sh_ob (eq_str_m l r) in
  let c := sh_oo (cmp_str_m l r) in
  let oe := four (option_eq_m eq_str_m) sh_ob l r in
  let oc := four (option_cmp_m cmp_str_m) sh_oo l r in
  let coe := four (option_eq_m const_eq_str_m) sh_ob l r in
  let coc := four (option_cmp_m const_cmp_str_m) sh_oo l r in
  show_fields
    [("eq", e); ("cmp", c);
     ("ceq", sh_ob (const_eq_str_m l r)); ("ccmp", sh_oo (const_cmp_str_m l r));
     ("oeq", oe); ("ocmp", oc); ("coeq", coe); ("cocmp", coc); ("foeq", coe); ("focmp", coc);
     ("aeq", sh_assert_eq (const_eq_str_m l r)); ("ane", sh_assert_ne (const_eq_str_m l r))].

(** slices of strings / of byte slices *)
Definition c16_sseq (eqm : list (list Z) -> list (list Z) -> option bool)
    (cmpm : list (list Z) -> list (list Z) -> option comparison)
    (eqE : list Z -> list Z -> option bool) (cmpE : list Z -> list Z -> option comparison)
    (l r : list (list Z)) : string :=
  let e := sh_ob (eqm l r) in
  let c := sh_oo (cmpm l r) in
  let fe := sh_ob (eq_for_slice_m eqE l r) in
  let fc := sh_oo (cmp_for_slice_m cmpE l r) in
  let oe := four (option_eq_m eqm) sh_ob l r in
  let oc := four (option_cmp_m cmpm) sh_oo l r in
  show_fields
    [("eq", e); ("cmp", c); ("ceq", e); ("ccmp", c);
     ("feq", fe); ("feqp", fe); ("fcmp", fc); ("fcmpp", fc);
     ("oeq", oe); ("ocmp", oc); ("coeq", oe); ("cocmp", oc)].

Definition as_ordering (v : val) : comparison :=
  let z := as_Z v in if (z <? 0)%Z then Lt else if (z =? 0)%Z then Eq else Gt.

Definition c16_ordering (a b : comparison) : string :=
  let e := show_bool (eq_ordering_m a b) in
  let c := sh_ord (cmp_ordering_m a b) in
  let oe := four (option_eq_m (fun x y => Some (eq_ordering_m x y))) sh_ob a b in
  let oc := four (option_cmp_m (fun x y => Some (cmp_ordering_m x y))) sh_oo a b in
  show_fields
    [("eq", e); ("cmp", c); ("ceq", e); ("ccmp", c);
     ("oeq", oe); ("ocmp", oc); ("coeq", oe); ("cocmp", oc); ("foeq", oe); ("focmp", oc)].

(** the harness's user type [Pt { x: i8, name: &str, tag: Option<u8> }] with [impl_cmp!]:
    const_eq = const_eq!(x) && const_eq!(name) && const_eq!(tag);
    const_cmp = try_equal!(const_cmp!(x)); try_equal!(const_cmp!(name)); try_equal!(const_cmp!(tag)) *)
Definition pt : Type := (Z * list Z * option Z)%type.
Definition pt_x (p : pt) : Z := fst (fst p).
Definition pt_name (p : pt) : list Z := snd (fst p).
Definition pt_tag (p : pt) : option Z := snd p.
Definition pt_eq (p q : pt) : option bool :=
  lazy_and_m (lazy_and_m (Some (const_eq_prim_m (pt_x p) (pt_x q)))
                         (const_eq_str_m (pt_name p) (pt_name q)))
             (option_eq_m prim_eq_o (pt_tag p) (pt_tag q)).
Definition pt_cmp (p q : pt) : option comparison :=
  try_equal_m (Some (const_cmp_prim_m (pt_x p) (pt_x q)))
    (try_equal_m (const_cmp_str_m (pt_name p) (pt_name q))
       (try_equal_m (option_cmp_m prim_cmp_o (pt_tag p) (pt_tag q)) (Some Eq))).
Definition as_opt (v : val) : option Z :=
  match as_list v with [] => None | x :: _ => Some (as_Z x) end.

Definition c16_user (p q : pt) : string :=
  let ls := [p; q] in
  let rs := [p; p] in
  let keyx_eq (a b : pt) := prim_eq_o (pt_x a) (pt_x b) in
  let keyx_cmp (a b : pt) := prim_cmp_o (pt_x a) (pt_x b) in
  let keyn_cmp (a b : pt) := const_cmp_str_m (pt_name a) (pt_name b) in
  show_fields
    [("ceq", sh_ob (pt_eq p q)); ("ccmp", sh_oo (pt_cmp p q));
     ("feq", sh_ob (eq_for_slice_m pt_eq ls rs)); ("fcmp", sh_oo (cmp_for_slice_m pt_cmp ls rs));
     ("fkeq", sh_ob (eq_for_slice_m keyx_eq ls rs)); ("fkcmp", sh_oo (cmp_for_slice_m keyx_cmp ls rs));
     ("foeq", four (option_eq_m pt_eq) sh_ob p q); ("focmp", four (option_cmp_m pt_cmp) sh_oo p q);
     ("fokcmp", four (option_cmp_m keyn_cmp) sh_oo p q)].

(** arrays [T; 2], by value and behind references: coerced to slices *)
Definition c16_array (l r : list Z) : string :=
  let e := sh_ob (const_eq_slice_m l r) in
  let c := sh_oo (const_cmp_slice_m l r) in
  show_fields [("ceq", e); ("ccmp", c); ("rceq", e); ("rccmp", c)].

Definition as_seqs (v : val) : list (list Z) := map as_bytes (as_list v).

Definition c16_run (fam : string) (args : list val) : option string :=
  if String.eqb fam "c16.slice" then
    match args with [_; l; r] => Some (c16_slice (as_bytes l) (as_bytes r)) | _ => None end
  else if String.eqb fam "c16.scalar" then
    match args with [_; a; b] => Some (c16_scalar (as_Z a) (as_Z b)) | _ => None end
  else if String.eqb fam "c16.nonzero" then
    match args with [_; a; b] => Some (c16_nonzero (as_Z a) (as_Z b)) | _ => None end
  else if String.eqb fam "c16.range" then
    match args with [_; l; r] => Some (c16_range (as_pair l) (as_pair r)) | _ => None end
  else if String.eqb fam "c16.str" then
    match args with [l; r] => Some (c16_str (as_bytes l) (as_bytes r)) | _ => None end
  else if String.eqb fam "c16.sstr" then
    match args with
    | [l; r] => Some (c16_sseq eq_slice_str_m cmp_slice_str_m eq_str_m cmp_str_m (as_seqs l) (as_seqs r))
    | _ => None
    end
  else if String.eqb fam "c16.sbytes" then
    match args with
    | [l; r] => Some (c16_sseq eq_slice_bytes_m cmp_slice_bytes_m eq_slice_m cmp_slice_m (as_seqs l) (as_seqs r))
    | _ => None
    end
  else if String.eqb fam "c16.slice_u8_alias" then
    match args with [l; r] => Some (c16_slice_alias (as_bytes l) (as_bytes r)) | _ => None end
  else if String.eqb fam "c16.array" then
    match args with [_; l; r] => Some (c16_array (as_bytes l) (as_bytes r)) | _ => None end
  else if String.eqb fam "c16.user" then
    match args with
    | [x1; n1; t1; x2; n2; t2] =>
        Some (c16_user (as_Z x1, as_bytes n1, as_opt t1) (as_Z x2, as_bytes n2, as_opt t2))
    | _ => None
    end
  else if String.eqb fam "c16.ordering" then
    match args with [a; b] => Some (c16_ordering (as_ordering a) (as_ordering b)) | _ => None end
  else if String.eqb fam "c16.laws" then
    (* order laws over all pairs/triples of a finite domain: the model satisfies them by
       theorem (Properties/C16.v), so the expected summary is always "ok" *)
    Some "ok"
  else if String.eqb fam "c16.marker" then
    Some (show_bool eq_marker_m ++ sh_ord cmp_marker_m ++ show_bool eq_marker_m ++ sh_ord cmp_marker_m)
  else None.
