(** Harness glue for C12: one line per string carrying the result of every integer type
    and of bool.
      c12.whole     <str> <ptr-bits>          -> parse_whole_m / parse_bool_whole_m
      c12.prefix    <str> <ptr-bits> <base>   -> parser_parse_int / parser_parse_bool
      c12.getparser <str> <ptr-bits> <base>   -> the same (StdParser::parse_with = parser.parse_T())
      c12.stdspec   <str> <ptr-bits>          -> Spec.std_parse / std_parse_bool ('+' accepted)
      c12.show      <int>                     -> Spec.show_int (decimal printing) *)
From Coq Require Import List ZArith Bool String.
From KV Require Import Base.Prelude Model.ParseInt Spec.ParseInt Glue.Val.
Import ListNotations.
Local Open Scope string_scope.

(** name and type descriptor — in the order the harness prints them.  The fixed-width part is
    a constant (so the extracted model computes the powers of two once, not per line). *)
Definition ty_row (name : string) (w : Z) (sg : bool) : string * int_ty := (name, int_ty_of w sg).
Definition fixed_types : list (string * int_ty) :=
  [ty_row "u8" 8 false; ty_row "i8" 8 true; ty_row "u16" 16 false; ty_row "i16" 16 true;
   ty_row "u32" 32 false; ty_row "i32" 32 true; ty_row "u64" 64 false; ty_row "i64" 64 true;
   ty_row "u128" 128 false; ty_row "i128" 128 true]%Z.
Definition ptr_types_64 : list (string * int_ty) := [ty_row "usize" 64 false; ty_row "isize" 64 true]%Z.
Definition ptr_types_32 : list (string * int_ty) := [ty_row "usize" 32 false; ty_row "isize" 32 true]%Z.
Definition int_types (ptr : Z) : list (string * int_ty) :=
  fixed_types ++
  (if (ptr =? 64)%Z then ptr_types_64 else if (ptr =? 32)%Z then ptr_types_32
   else [ty_row "usize" ptr false; ty_row "isize" ptr true]).

Definition show_kind (k : err_kind) : string :=
  match k with ParseInteger => "I" | ParseBool => "B" end.

(** Ok -> O(value, view of the remainder inside the input, start_offset afterwards);
    Err -> E(kind, error offset) *)
Definition show_fres {A} (f : A -> string) (s : list Z) (r : fres A) : string :=
  match r with
  | FOk v (so, s') =>
      "O(" ++ f v ++ "," ++ show_view (zlen s - zlen s') (zlen s') ++ "," ++ show_Z so ++ ")"
  | FErr k off => "E(" ++ show_kind k ++ "," ++ show_Z off ++ ")"
  end.

Definition c12_whole (s : list Z) (ptr : Z) : string :=
  show_fields
    (map (fun t : string * int_ty => (fst t, show_opt show_Z (parse_whole_t (snd t) s)))
         (int_types ptr)
     ++ [("bool", show_opt show_bool (parse_bool_whole_m s))]).

Definition c12_prefix (s : list Z) (ptr base : Z) : string :=
  show_fields
    (map (fun t : string * int_ty => (fst t, show_fres show_Z s (parser_parse_int_t (snd t) (base, s))))
         (int_types ptr)
     ++ [("bool", show_fres show_bool s (parser_parse_bool (base, s)))]).

Definition std_types (ptr : Z) : list (string * Z * bool) :=
  [("u8", 8, false); ("i8", 8, true); ("u16", 16, false); ("i16", 16, true);
   ("u32", 32, false); ("i32", 32, true); ("u64", 64, false); ("i64", 64, true);
   ("u128", 128, false); ("i128", 128, true); ("usize", ptr, false); ("isize", ptr, true)]%Z.

Definition c12_stdspec (s : list Z) (ptr : Z) : string :=
  show_fields
    (map (fun t : string * Z * bool =>
            let '(name, w, sg) := t in (name, show_opt show_Z (std_parse w sg s)))
         (std_types ptr)
     ++ [("bool", show_opt show_bool (std_parse_bool s))]).

Definition c12_run (fam : string) (args : list val) : option string :=
  match args with
  | [s; ptr] =>
      if String.eqb fam "c12.whole" then Some (c12_whole (as_bytes s) (as_Z ptr))
      else if String.eqb fam "c12.stdspec" then Some (c12_stdspec (as_bytes s) (as_Z ptr))
      else None
  | [v] => if String.eqb fam "c12.show" then Some (show_bytes (show_int (as_Z v))) else None
  | [s; ptr; base] =>
      if String.eqb fam "c12.prefix" then Some (c12_prefix (as_bytes s) (as_Z ptr) (as_Z base))
      else if String.eqb fam "c12.getparser" then Some (c12_prefix (as_bytes s) (as_Z ptr) (as_Z base))
      else None
  | _ => None
  end.
