(** Harness glue for C02: slice indexing / splitting / chunking.

    families (args)                 fields
      c02.idx   ty len i            get get_mut from from_mut upto upto_mut gfrom gfrom_mut
                                    gupto gupto_mut split split_mut
      c02.range ty len s e          range range_mut grange grange_mut
      c02.arr   ty len N            arr arr_mut chunks rchunks
      c02.ends  ty len              first last sfirst slast

    [ty] is the element type of the harness (u16, unit, s3, u8, u64); only its size enters the
    model.  usize is 64 bits wide in the harness. *)
From Coq Require Import List ZArith Bool String.
From KV Require Import Base.Prelude Model.Slice Glue.Val.
Import ListNotations.
Local Open Scope string_scope.

Definition W : Z := 64.

Definition size_of (ty : string) : option Z :=
  if String.eqb ty "u16" then Some 2
  else if String.eqb ty "unit" then Some 0
  else if String.eqb ty "s3" then Some 3
  else if String.eqb ty "u8" then Some 1
  else if String.eqb ty "u64" then Some 8
  else None.

(** offset:len; every empty view is [e]; for zero-sized elements only the length is
    observable ([z:len]) — same as [view_of] in harness/src/common.rs *)
Definition show_ol (sz o n : Z) : string :=
  if (n =? 0)%Z then "e"
  else if (sz =? 0)%Z then "z:" ++ show_Z n
  else show_Z o ++ ":" ++ show_Z n.
Definition show_v (sz : Z) (v : view) : string := show_ol sz (off v) (vlen v).
Definition show_elem (sz : Z) (i : Z) : string := show_ol sz i 1.
Definition show_c (sz : Z) (c : chunks) : string := show_ol sz (coff c) (ccount c).

(** a usize argument: a decimal number, or big-endian hex bytes ([x8000000000000000]) *)
Definition as_usize (v : val) : Z :=
  match v with
  | VL l => fold_left (fun acc b => as_Z b + 256 * acc)%Z l 0%Z
  | _ => as_Z v
  end.

Definition show_res {A} (f : A -> string) (r : res A) : string :=
  match r with Ok a => f a | UB => "UB" | Panic => "PANIC" end.

Definition c02_idx (sz len i : Z) : string :=
  show_fields
    [("get", show_res (show_opt (show_elem sz)) (get_m Shared len i));
     ("get_mut", show_res (show_opt (show_elem sz)) (get_m Mut len i));
     ("from", show_res (show_v sz) (slice_from_m Shared W sz len i));
     ("from_mut", show_res (show_v sz) (slice_from_m Mut W sz len i));
     ("upto", show_res (show_v sz) (slice_up_to_m Shared W sz len i));
     ("upto_mut", show_res (show_v sz) (slice_up_to_m Mut W sz len i));
     ("gfrom", show_res (show_opt (show_v sz)) (get_from_m Shared W sz len i));
     ("gfrom_mut", show_res (show_opt (show_v sz)) (get_from_m Mut W sz len i));
     ("gupto", show_res (show_opt (show_v sz)) (get_up_to_m Shared W sz len i));
     ("gupto_mut", show_res (show_opt (show_v sz)) (get_up_to_m Mut W sz len i));
     ("split", show_res (show_pair (show_v sz) (show_v sz)) (split_at_m W sz len i));
     ("split_mut", show_res (show_pair (show_v sz) (show_v sz)) (split_at_mut_m W sz len i))].

Definition c02_range (sz len s e : Z) : string :=
  show_fields
    [("range", show_res (show_v sz) (slice_range_m Shared W sz len s e));
     ("range_mut", show_res (show_v sz) (slice_range_m Mut W sz len s e));
     ("grange", show_res (show_opt (show_v sz)) (get_range_m Shared W sz len s e));
     ("grange_mut", show_res (show_opt (show_v sz)) (get_range_m Mut W sz len s e))].

Definition c02_arr (sz len N : Z) : string :=
  show_fields
    [("arr", show_res (show_opt (show_v sz)) (try_into_array_m Shared W sz len N));
     ("arr_mut", show_res (show_opt (show_v sz)) (try_into_array_m Mut W sz len N));
     ("chunks", show_res (show_pair (show_c sz) (show_v sz)) (as_chunks_m W sz len N));
     ("rchunks", show_res (show_pair (show_v sz) (show_c sz)) (as_rchunks_m W sz len N))].

Definition c02_ends (sz len : Z) : string :=
  show_fields
    [("first", show_opt (show_elem sz) (first_mut_m len));
     ("last", show_opt (show_elem sz) (last_mut_m len));
     ("sfirst", show_opt (show_pair (show_elem sz) (show_v sz)) (split_first_mut_m len));
     ("slast", show_opt (show_pair (show_elem sz) (show_v sz)) (split_last_mut_m len))].

Definition c02_run (fam : string) (args : list val) : option string :=
  match args with
  | ty :: rest =>
      match size_of (as_atom ty) with
      | None => None
      | Some sz =>
          match rest with
          | [len; i] =>
              if String.eqb fam "c02.idx" then Some (c02_idx sz (as_usize len) (as_usize i))
              else if String.eqb fam "c02.arr" then Some (c02_arr sz (as_usize len) (as_usize i))
              else None
          | [len; s; e] =>
              if String.eqb fam "c02.range" then Some (c02_range sz (as_usize len) (as_usize s) (as_usize e))
              else None
          | [len] =>
              if String.eqb fam "c02.ends" then Some (c02_ends sz (as_usize len)) else None
          | _ => None
          end
      end
  | _ => None
  end.
