(** Harness glue for C04: one line per (haystack, needle) carrying every search
    function's result. *)
From Coq Require Import List ZArith Bool String.
From KV Require Import Base.Prelude Model.Search Model.Utf8 Glue.Val.
Import ListNotations.
Local Open Scope string_scope.

Definition show_suffix (h r : list Z) : string := show_view (zlen h - zlen r) (zlen r).
Definition show_prefix (r : list Z) : string := show_view 0 (zlen r).

(** the pieces of split_once: a prefix of [h] and a suffix of [h] *)
Definition show_split (h : list Z) (p : list Z * list Z) : string :=
  "(" ++ show_prefix (fst p) ++ "," ++ show_suffix h (snd p) ++ ")".

Definition c04_all (h n : list Z) : string :=
  show_fields
    [("find", show_opt show_Z (find_m h n));
     ("rfind", show_opt show_Z (rfind_m h n));
     ("contains", show_bool (contains_m h n));
     ("rcontains", show_bool (rcontains_m h n));
     ("find_skip", show_opt (show_suffix h) (find_skip_m h n));
     ("find_keep", show_opt (show_suffix h) (find_keep_m h n));
     ("rfind_skip", show_opt show_prefix (rfind_skip_m h n));
     ("rfind_keep", show_opt show_prefix (rfind_keep_m h n))].

(** string:: additionally has split_once / rsplit_once *)
Definition c04_str (h n : list Z) : string :=
  c04_all h n ++ ";" ++
  show_fields
    [("split_once", show_opt (show_split h) (split_once_m h n));
     ("rsplit_once", show_opt (show_split h) (rsplit_once_m h n))].

(** empty pattern: only forward search is constrained by the property *)
Definition c04_fwd (h n : list Z) (with_split : bool) : string :=
  show_fields
    ([("find", show_opt show_Z (find_m h n));
      ("contains", show_bool (contains_m h n));
      ("find_skip", show_opt (show_suffix h) (find_skip_m h n));
      ("find_keep", show_opt (show_suffix h) (find_keep_m h n))] ++
     (if with_split then [("split_once", show_opt (show_split h) (split_once_m h n))] else [])).

Definition c04_run (fam : string) (args : list val) : option string :=
  match args with
  | [h; n] =>
      if String.eqb fam "c04.str" then Some (c04_str (as_bytes h) (as_bytes n))
      else if String.eqb fam "c04.bytes" then Some (c04_all (as_bytes h) (as_bytes n))
      else if String.eqb fam "c04.str0" then Some (c04_fwd (as_bytes h) (as_bytes n) true)
      else if String.eqb fam "c04.bytes0" then Some (c04_fwd (as_bytes h) (as_bytes n) false)
      else if String.eqb fam "c04.strchar" then Some (c04_str (as_bytes h) (encode_m (as_Z n)))
      else if String.eqb fam "c04.byteschar" then Some (c04_all (as_bytes h) (encode_m (as_Z n)))
      else None
  | _ => None
  end.
