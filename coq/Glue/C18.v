(** Harness glue for C18.

    A literal's SOURCE is sent as the bytes of its token text: [x22615c6e22] is the
    token ["a\n"]; [concat!(a, b)] is sent as [[C,<a>,<b>]].  The model decodes it
    itself (Model/Literal.v).

    c18.lit                 src                          -> S(x<decoded bytes>) | N
    c18.strip_prefix ..     [[src,..],..] input off dir  -> br=S(i)|N;rem=<view>;off=..;dir=S|E|B
    c18.trim_start_matches  [src,..] input off dir       -> rem=<view>;off=..;dir=..
    c18.skip / c18.skip_back input n off dir             -> rem=<view>;off=..;dir=..
    ([dir]: S = FromStart, E = FromEnd; the parser is Parser::with_start_offset(input, off),
    after [skip_back(0)] when dir = E.) *)
From Coq Require Import List ZArith Bool String.
From KV Require Import Base.Prelude Model.Literal Model.ParserMethod Glue.Val.
Import ListNotations.
Local Open Scope string_scope.

Definition is_C (v : val) : bool := match v with VA s => String.eqb s "C" | _ => false end.

Fixpoint val_to_src (v : val) : lsrc :=
  match v with
  | VL (h :: t) =>
      if is_C h then
        SConcat ((fix go (l : list val) : list lsrc :=
                    match l with [] => [] | a :: r => val_to_src a :: go r end) t)
      else SLit (as_bytes v)
  | _ => SLit (as_bytes v)
  end.

Fixpoint all_some {A} (l : list (option A)) : option (list A) :=
  match l with
  | [] => Some []
  | Some x :: t => match all_some t with Some r => Some (x :: r) | None => None end
  | None :: _ => None
  end.

Definition decode_alts (v : val) : option (list (list Z)) :=
  all_some (map (fun s => decode_src (val_to_src s)) (as_list v)).
Definition decode_brs (v : val) : option (list (list (list Z))) :=
  all_some (map decode_alts (as_list v)).

Definition dir_of (v : val) : pdir :=
  let s := as_atom v in
  if String.eqb s "E" then FromEnd else if String.eqb s "B" then FromBoth else FromStart.
Definition show_dir (d : pdir) : string :=
  match d with FromStart => "S" | FromEnd => "E" | FromBoth => "B" end.

Definition show_rem (s : side) (input r : list Z) : string :=
  match s with
  | AtStart => show_view (zlen input - zlen r) (zlen r)
  | AtEnd => show_view 0 (zlen r)
  end.

Definition show_parser (s : side) (input : list Z) (p : parser) : list (string * string) :=
  [("rem", show_rem s input (p_rem p)); ("off", show_Z (p_off p)); ("dir", show_dir (p_dir p))].

(** state X: the parser after a split that found no delimiter (remainder empty, offset past the
    input, split protocol exhausted).  The macro never touches yielded_last_split
    (C18 theorems: the forms are chains of strip / find / trim steps of Model.Parser, none of which
    sets it), so the flag shown after the macro is the flag before it. *)
Definition is_x (dir : val) : bool := String.eqb (as_atom dir) "X".
Definition init_p (inp : list Z) (off : Z) (dir : val) : parser :=
  if is_x dir then mkP [] (off + zlen inp) (dir_of dir) else mkP inp off (dir_of dir).
Definition with_flag (dir : val) (l : list (string * string)) : list (string * string) :=
  (l ++ [("fl", show_bool (is_x dir))])%list.

Definition show_outcome (dir : val) (s : side) (input : list Z) (o : outcome) : string :=
  show_fields (with_flag dir (("br", show_opt show_nat (fst o)) :: show_parser s input (snd o))).

Definition run_match (form : side -> list (list (list Z)) -> parser -> outcome) (s : side)
  (brs input off dir : val) : option string :=
  match decode_brs brs with
  | None => Some "NOCOMPILE"
  | Some b =>
      let inp := as_bytes input in
      Some (show_outcome dir s inp (form s b (init_p inp (as_Z off) dir)))
  end.

Definition run_trim (s : side) (alts input off dir : val) : option string :=
  match decode_alts alts with
  | None => Some "NOCOMPILE"
  | Some a =>
      let inp := as_bytes input in
      match trim_macro s a (init_p inp (as_Z off) dir) with
      | Some p => Some (show_fields (with_flag dir (show_parser s inp p)))
      | None => Some "OUT-OF-FUEL"
      end
  end.

Definition run_skip (back : bool) (input n off dir : val) : string :=
  let inp := as_bytes input in
  let p := init_p inp (as_Z off) dir in
  if back then show_fields (with_flag dir (show_parser AtEnd inp (skip_back_m p (as_Z n))))
  else show_fields (with_flag dir (show_parser AtStart inp (skip_m p (as_Z n)))).

Definition c18_run (fam : string) (args : list val) : option string :=
  match args with
  | [src] =>
      if String.eqb fam "c18.lit" then Some (show_opt show_bytes (decode_src (val_to_src src)))
      else None
  | [a; input; off; dir] =>
      if String.eqb fam "c18.strip_prefix" then run_match strip_macro AtStart a input off dir
      else if String.eqb fam "c18.strip_suffix" then run_match strip_macro AtEnd a input off dir
      else if String.eqb fam "c18.find_skip" then run_match find_macro AtStart a input off dir
      else if String.eqb fam "c18.rfind_skip" then run_match find_macro AtEnd a input off dir
      else if String.eqb fam "c18.trim_start_matches" then run_trim AtStart a input off dir
      else if String.eqb fam "c18.trim_end_matches" then run_trim AtEnd a input off dir
      else if String.eqb fam "c18.skip" then Some (run_skip false a input off dir)
      else if String.eqb fam "c18.skip_back" then Some (run_skip true a input off dir)
      else None
  | _ => None
  end.
